(** Hazard eras model (Model/HeDefs.v), base layer: projections / case analysis tactics and
    Layer O: ownership of the control blocks (thread_block_list entries): a block has at most one owner, owned blocks
    are linked and not free, a block is inactive only while its owner initialises it, the walks only visit linked blocks.
    The other layers: Proof/HeGuards.v (guards, slots, reference counts), Proof/HeNodes.v (life cycle of the nodes),
    Proof/HeEras.v (era_clock, construction / retirement eras, the eras in the slots), Proof/HeInv.v (theorems he_safe,
    he_exactly_once, he_slots), Proof/HeFlush.v (he_no_leak_at_quiescence_partial). *)
From Coq Require Import NArith List Bool Arith Lia PeanoNat.
From XV Require Import Conc.Lts Conc.Ev Model.HeDefs.
Import ListNotations.

Ltac prj := cbn [cells blist est hz cnt lhe lera aband nact clock nalloc nextid nid ce re th tl g_owner g_life g_where g_nfree g_uaf
                 rcd hint fl gd rl he ptr gv s_k s_cap s_vec s_prot s_ad
                 w_cells w_blist w_est w_hz w_cnt w_lhe w_lera w_aband w_nact w_clock w_nalloc w_nextid w_nid w_ce w_re w_th w_tl
                 w_g_owner w_g_life w_g_where w_g_nfree w_g_uaf
                 wt_rcd wt_hint wt_fl wt_gd wt_rl set_pc set_tl set_gd free_all move_all deref deref_g reset_guard unshare].
Ltac prjh H := cbn [cells blist est hz cnt lhe lera aband nact clock nalloc nextid nid ce re th tl g_owner g_life g_where g_nfree g_uaf
                 rcd hint fl gd rl he ptr gv s_k s_cap s_vec s_prot s_ad
                 w_cells w_blist w_est w_hz w_cnt w_lhe w_lera w_aband w_nact w_clock w_nalloc w_nextid w_nid w_ce w_re w_th w_tl
                 w_g_owner w_g_life w_g_where w_g_nfree w_g_uaf
                 wt_rcd wt_hint wt_fl wt_gd wt_rl set_pc set_tl set_gd free_all move_all deref deref_g reset_guard unshare] in H.

Lemma upd_upd {X} (f : nat -> X) t a b x : upd (upd f t a) t b x = upd f t b x.
Proof. unfold upd. destruct (Nat.eqb x t); reflexivity. Qed.

Ltac upds :=
  repeat first [ rewrite upd_upd | rewrite upd_same | rewrite upd_other by (first [assumption | congruence | lia]) ].
Ltac upds_in H :=
  repeat first [ rewrite upd_upd in H | rewrite upd_same in H | rewrite upd_other in H by (first [assumption | congruence | lia]) ].

Lemma oeqb_eq a b : oeqb a b = true <-> a = b.
Proof.
  destruct a, b; cbn; split; intros H; try congruence; try reflexivity.
  - apply Nat.eqb_eq in H. congruence.
  - injection H as ->. apply Nat.eqb_refl.
Qed.

Lemma upd2_same_block {X} (f : nat -> nat -> X) b i v j : upd2 f b i v b j = if j =? i then v else f b j.
Proof. unfold upd2. rewrite Nat.eqb_refl. reflexivity. Qed.
Lemma upd2_same {X} (f : nat -> nat -> X) b i v : upd2 f b i v b i = v.
Proof. unfold upd2. rewrite !Nat.eqb_refl. reflexivity. Qed.
Lemma upd2_other_block {X} (f : nat -> nat -> X) b i v b' j : b' <> b -> upd2 f b i v b' j = f b' j.
Proof. intros H. unfold upd2. destruct (Nat.eqb_spec b' b); [contradiction|reflexivity]. Qed.
Lemma upd2_other_slot {X} (f : nat -> nat -> X) b i v b' j : j <> i -> upd2 f b i v b' j = f b' j.
Proof. intros H. unfold upd2. destruct (Nat.eqb_spec j i); [contradiction|]. rewrite andb_false_r. reflexivity. Qed.

(** ** guards that share their slot with others are released without an atomic access: [ush t st st1] =
    [st1] results from [st] by such releases of guards of thread [t] *)
Inductive ush (t : nat) : state -> state -> Prop :=
| ush_refl st : ush t st st
| ush_step st b i g st2 :
    rcd (tl st t) = Some b -> he (gd (tl st t) g) = Some i -> cnt st b i <> 1 ->
    ush t (unshare st t b i g) st2 -> ush t st st2.

Lemma ush_one t st b i g :
  rcd (tl st t) = Some b -> he (gd (tl st t) g) = Some i -> cnt st b i <> 1 -> ush t st (unshare st t b i g).
Proof. intros H1 H2 H3. eapply ush_step; [exact H1|exact H2|exact H3|apply ush_refl]. Qed.

(** what [ush] leaves alone *)
Record same_but_guards (t : nat) (st st1 : state) : Prop := mkSame {
  sb_cells : cells st1 = cells st; sb_blist : blist st1 = blist st; sb_est : est st1 = est st; sb_hz : hz st1 = hz st;
  sb_lhe : lhe st1 = lhe st; sb_lera : lera st1 = lera st; sb_aband : aband st1 = aband st; sb_nact : nact st1 = nact st;
  sb_clock : clock st1 = clock st; sb_nalloc : nalloc st1 = nalloc st; sb_nextid : nextid st1 = nextid st; sb_nid : nid st1 = nid st;
  sb_ce : ce st1 = ce st; sb_re : re st1 = re st; sb_th : th st1 = th st;
  sb_owner : g_owner st1 = g_owner st; sb_life : g_life st1 = g_life st; sb_where : g_where st1 = g_where st;
  sb_nfree : g_nfree st1 = g_nfree st; sb_uaf : g_uaf st1 = g_uaf st;
  sb_tl : forall u, u <> t -> tl st1 u = tl st u;
  sb_rcd : rcd (tl st1 t) = rcd (tl st t); sb_hint : hint (tl st1 t) = hint (tl st t); sb_fl : fl (tl st1 t) = fl (tl st t);
  sb_rl : rl (tl st1 t) = rl (tl st t);
  sb_gd : forall g, gd (tl st1 t) g = gd (tl st t) g \/ (gd (tl st1 t) g = g0 /\ he (gd (tl st t) g) <> None);
  sb_cnt : forall b i, rcd (tl st t) <> Some b -> cnt st1 b i = cnt st b i }.

Lemma ush_same t st st1 : ush t st st1 -> same_but_guards t st st1.
Proof.
  induction 1 as [st|st b i g st2 Hb Hg Hc _ IH].
  - constructor; try reflexivity. intros g. left. reflexivity.
  - destruct IH as [? ? ? ? ? ? ? ? ? ? ? ? ? ? ? ? ? ? ? ? I21 I22 I23 I24 I25 I26 I27].
    constructor; try (etransitivity; [eassumption|reflexivity]).
    + intros u Hu. rewrite (I21 u Hu). unfold unshare. prj. upds. reflexivity.
    + rewrite I22. unfold unshare. prj. upds. reflexivity.
    + rewrite I23. unfold unshare. prj. upds. reflexivity.
    + rewrite I24. unfold unshare. prj. upds. reflexivity.
    + rewrite I25. unfold unshare. prj. upds. reflexivity.
    + intros g'. destruct (I26 g') as [H1|[H1 H2]].
      * rewrite H1. unfold unshare. prj. upds. prj. destruct (Nat.eq_dec g' g) as [->|Hne]; upds; [right; split; [reflexivity|congruence]|left; reflexivity].
      * right. split; [exact H1|]. revert H2. unfold unshare. prj. upds. prj.
        destruct (Nat.eq_dec g' g) as [->|Hne]; upds; [intros _; congruence|tauto].
    + intros b' i' Hb'. rewrite I27.
      * unfold unshare. prj. apply upd2_other_block. congruence.
      * unfold unshare. prj. upds. prj. exact Hb'.
Qed.

(** exit_guards: the guards from [g] on that share their slot are released, up to the first guard that has to store a link,
    or ~thread_data *)
Lemma exit_guards_spec t f : forall st g e r,
  exit_guards st t g f e = Some r ->
  exists st1, ush t st st1 /\
  ((exists g' b i, g <= g' < g + f /\ rcd (tl st1 t) = Some b /\ he (gd (tl st1 t) g') = Some i /\ cnt st1 b i = 1 /\
                  (forall j, g <= j < g' -> he (gd (tl st1 t) j) = None) /\ (set_pc t (X0 g') st1, e) = r)
   \/ ((forall j, g <= j < g + f -> he (gd (tl st1 t) j) = None) /\ exit_td st1 t e = Some r)).
Proof.
  induction f as [|f IH]; intros st g e r H; cbn [exit_guards] in H.
  - exists st. split; [apply ush_refl|]. right. split; [intros j Hj; lia|exact H].
  - unfold release_then in H. destruct (he (gd (tl st t) g)) as [i|] eqn:Hg.
    + destruct (rcd (tl st t)) as [b|] eqn:Hb; [|discriminate H].
      destruct (cnt st b i =? 1) eqn:Hc.
      * injection H as <-. exists st. split; [apply ush_refl|]. left. exists g, b, i.
        split; [lia|]. split; [exact Hb|]. split; [exact Hg|]. split; [apply Nat.eqb_eq; exact Hc|]. split; [intros j Hj; lia|reflexivity].
      * apply Nat.eqb_neq in Hc. destruct (IH _ _ _ _ H) as (st1 & Hu & Hr).
        assert (Hgn : he (gd (tl st1 t) g) = None).
        { destruct (sb_gd _ _ _ (ush_same _ _ _ Hu) g) as [H1|[H1 _]]; rewrite H1; [|reflexivity].
          unfold unshare. prj. upds. prj. upds. reflexivity. }
        exists st1. split; [eapply ush_step; eassumption|].
        destruct Hr as [(g' & b' & i' & H1 & H2 & H3 & H4 & H5 & H6)|[H1 H2]].
        -- left. exists g', b', i'. split; [lia|]. repeat (split; [assumption|]). split; [|exact H6].
           intros j Hj. destruct (Nat.eq_dec j g) as [->|Hne]; [exact Hgn|apply H5; lia].
        -- right. split; [|exact H2]. intros j Hj. destruct (Nat.eq_dec j g) as [->|Hne]; [exact Hgn|apply H1; lia].
    + destruct (IH _ _ _ _ H) as (st1 & Hu & Hr).
      assert (Hgn : he (gd (tl st1 t) g) = None).
      { destruct (sb_gd _ _ _ (ush_same _ _ _ Hu) g) as [H1|[H1 _]]; rewrite H1; [exact Hg|reflexivity]. }
      exists st1. split; [exact Hu|].
      destruct Hr as [(g' & b' & i' & H1 & H2 & H3 & H4 & H5 & H6)|[H1 H2]].
      * left. exists g', b', i'. split; [lia|]. repeat (split; [assumption|]). split; [|exact H6].
        intros j Hj. destruct (Nat.eq_dec j g) as [->|Hne]; [exact Hgn|apply H5; lia].
      * right. split; [|exact H2]. intros j Hj. destruct (Nat.eq_dec j g) as [->|Hne]; [exact Hgn|apply H1; lia].
Qed.

(** case analysis of a step down to the leaves: every leaf has the new state as an explicit term (except the
    guards released by exit_guards: [ush]) *)
Ltac des1 H :=
  match type of H with
  | context [match ?x with _ => _ end] =>
    match x with
    | context [match _ with _ => _ end] => fail 1
    | _ => let E := fresh "E" in destruct x eqn:E
    end
  end.
Ltac unf H := unfold acq_begin, acq_done, ret_reset, release_then, throw, alloc_he, walk, scan_next, exit_rel, exit_td, finish, push in H.
Ltac exg H :=
  match type of H with
  | exit_guards _ _ _ _ _ = Some _ =>
    apply exit_guards_spec in H;
    let st1 := fresh "st1" in let Hu := fresh "Hu" in
    let g' := fresh "g'" in let b' := fresh "b'" in let i' := fresh "i'" in
    let Hg1 := fresh "Hg1" in let Hg2 := fresh "Hg2" in let Hg3 := fresh "Hg3" in let Hg4 := fresh "Hg4" in let Hg5 := fresh "Hg5" in
    destruct H as (st1 & Hu & [(g' & b' & i' & Hg1 & Hg2 & Hg3 & Hg4 & Hg5 & H)|[Hg1 H]]);
    [|unfold exit_td, exit_rel in H; repeat des1 H]
  end.
Ltac leaves H := repeat first [progress unf H | des1 H]; try discriminate H; try exg H;
  try (injection H as <- <-); try (injection H as <-); cbn [guard_of cell_of] in *.
Ltac dg := unfold deref_g in *; repeat match goal with |- context [match ?x with Some _ => _ | None => _ end] => destruct x eqn:? end;
  cbn [tl deref w_g_uaf] in *.

(** * Layer O: ownership of the control blocks *)
Definition pendb (p : pc) : option nat := match p with A1 _ _ b | A2 _ _ b | A3 _ _ b _ => Some b | _ => None end.
Definition seek (p : pc) : bool :=
  match p with W0 _ _ | W1 _ _ _ _ | W2 _ _ _ _ | A1 _ _ _ | A2 _ _ _ | A3 _ _ _ _ => true | _ => false end.
(** initialize / activate *)
Definition inI (p : pc) : bool := match p with I0 _ _ | I1 _ _ _ | I2 _ _ => true | _ => false end.

(** the walks only visit linked control blocks *)
Definition walk_ok (st : state) (p : pc) : Prop :=
  match p with
  | W1 _ _ r rest | W2 _ _ r rest => forall b, In b (r :: rest) -> In b (blist st)
  | S5 _ r rest | S6 _ r rest _ => forall b, In b (r :: rest) -> In b (blist st)
  | _ => True
  end.

Record InvO (st : state) : Prop := mkO {
  O_rcd : forall t b, rcd (tl st t) = Some b -> g_owner st b = Some t /\ In b (blist st) /\ est st b <> 0;
  O_own : forall t b, g_owner st b = Some t -> rcd (tl st t) = Some b \/ pendb (th st t) = Some b;
  O_pend : forall t b, pendb (th st t) = Some b -> g_owner st b = Some t /\ ~ In b (blist st) /\ est st b <> 0;
  O_seek : forall t, seek (th st t) = true -> rcd (tl st t) = None;
  O_free : forall b, est st b = 0 -> g_owner st b = None;
  O_lt : forall b, nalloc st <= b -> g_owner st b = None /\ ~ In b (blist st);
  O_act : forall t b, rcd (tl st t) = Some b -> est st b <> 2 -> inI (th st t) = true;
  O_walk : forall t, walk_ok st (th st t) }.

Lemma InvO_frame st st' :
  blist st' = blist st -> (forall b, est st' b = 0 <-> est st b = 0) ->
  (forall t b, rcd (tl st t) = Some b -> est st' b = est st b) ->
  (forall b, g_owner st' b = g_owner st b) -> nalloc st <= nalloc st' ->
  (forall t, rcd (tl st' t) = rcd (tl st t)) ->
  (forall t, pendb (th st' t) = pendb (th st t)) ->
  (forall t, seek (th st' t) = true -> seek (th st t) = true \/ rcd (tl st t) = None) ->
  (forall t, inI (th st t) = true -> inI (th st' t) = true) ->
  (forall t, walk_ok st (th st t) -> walk_ok st' (th st' t)) ->
  InvO st -> InvO st'.
Proof.
  intros Hb Hz He Ho Hn Hr Hp Hs Hi Hw [I1 I2 I3 I4 I5 I6 I7 I8].
  constructor; rewrite ?Hb; intros; rewrite ?Ho, ?Hr, ?Hp in *.
  - destruct (I1 t b H) as (H1 & H2 & H3). split; [exact H1|]. split; [exact H2|]. rewrite Hz. exact H3.
  - apply I2. assumption.
  - destruct (I3 t b H) as (H1 & H2 & H3). split; [exact H1|]. split; [exact H2|]. rewrite Hz. exact H3.
  - destruct (Hs t H) as [H1|H1]; [apply I4|]; assumption.
  - apply I5. apply Hz. assumption.
  - apply I6. lia.
  - apply Hi. apply (I7 t b H). rewrite <- (He t b H). assumption.
  - apply Hw, I8.
Qed.

(** two threads never own the same control block *)
Lemma own_inj st t t' b : InvO st -> rcd (tl st t) = Some b -> rcd (tl st t') = Some b -> t = t'.
Proof.
  intros HI H1 H2. destruct (O_rcd st HI t b H1) as [Ha _]. destruct (O_rcd st HI t' b H2) as [Hb _]. congruence.
Qed.

Lemma InvO_ush st st1 t : ush t st st1 -> InvO st -> InvO st1.
Proof.
  intros Hu. pose proof (ush_same _ _ _ Hu) as [? ? ? ? ? ? ? ? ? ? ? ? ? ? ? ? ? ? ? ? Htl Hr _ _ _ _ _].
  assert (Hrc : forall u, rcd (tl st1 u) = rcd (tl st u)).
  { intros u. destruct (Nat.eq_dec u t) as [->|Hne]; [exact Hr|rewrite Htl by exact Hne; reflexivity]. }
  apply InvO_frame.
  - assumption.
  - intros b. replace (est st1) with (est st) by congruence. tauto.
  - intros; congruence.
  - intros; congruence.
  - lia.
  - exact Hrc.
  - intros; congruence.
  - intros u Hs. left. congruence.
  - intros; congruence.
  - intros u Hw. replace (th st1 u) with (th st u) by congruence.
    destruct (th st u); cbn [walk_ok] in *; try exact I; replace (blist st1) with (blist st) by congruence; exact Hw.
Qed.

Section InvO.
Variable nslots : nat.

Ltac wk :=
  match goal with
  | H : forall b, In b _ -> In b (blist _) |- In _ (blist _) => apply H; cbn [In] in *; tauto
  | E : blist ?st = _ |- In _ (blist ?st) => rewrite E; cbn [In] in *; tauto
  | H : forall b, In b _ -> In b (blist _) |- In _ (_ :: blist _) => right; apply H; cbn [In] in *; tauto
  end.
Ltac thr t' t Hth :=
  destruct (Nat.eq_dec t' t) as [->|?]; upds; rewrite ?Hth; cbn [pendb seek inI walk_ok]; prj; intros;
  first [reflexivity | tauto | congruence | discriminate | wk | exact I].
Ltac fr t Hth := first [reflexivity | assumption | lia | tauto | (let t' := fresh "t'" in intros t'; thr t' t Hth)].

(** a new control block *)
Lemma InvO_new st t p :
  InvO st -> seek (th st t) = true -> pendb (th st t) = None -> pendb p = Some (nalloc st) -> seek p = true ->
  (forall s, walk_ok s p) ->
  InvO (set_pc t p (w_nalloc (S (nalloc st)) (w_est (upd (est st) (nalloc st) 2) (w_g_owner (upd (g_owner st) (nalloc st) (Some t)) st)))).
Proof.
  intros [I1 I2 I3 I4 I5 I6 I7 I8] Hs Hp Hp' Hs' Hwp. set (b := nalloc st) in *.
  assert (Hb : g_owner st b = None /\ ~ In b (blist st)) by (apply I6; unfold b; lia).
  destruct Hb as [Hb1 Hb2].
  constructor; prj; fold b.
  - intros t' b' H. destruct (I1 t' b' H) as (H1 & H2 & H3).
    assert (b' <> b) by congruence. upds. tauto.
  - intros t' b' H. destruct (Nat.eq_dec b' b) as [->|Hne]; upds_in H.
    + injection H as <-. right. upds. exact Hp'.
    + destruct (Nat.eq_dec t' t) as [->|Hnt]; upds; [|apply I2; exact H].
      destruct (I2 t b' H) as [H1|H1]; [left; exact H1|congruence].
  - intros t' b' H. destruct (Nat.eq_dec t' t) as [->|Hnt]; upds_in H.
    + rewrite Hp' in H. injection H as <-. upds. split; [reflexivity|]. split; [exact Hb2|discriminate].
    + destruct (I3 t' b' H) as (H1 & H2 & H3). assert (b' <> b) by congruence. upds. tauto.
  - intros t' H. destruct (Nat.eq_dec t' t) as [->|Hnt]; upds_in H; [apply I4; exact Hs|apply I4; exact H].
  - intros b' H. destruct (Nat.eq_dec b' b) as [->|Hne]; upds_in H; [discriminate|]. upds. apply I5. exact H.
  - intros b' H. assert (b' <> b) by (unfold b; lia). upds. apply I6. unfold b in *. lia.
  - intros t' b' H H2. destruct (I1 t' b' H) as (H1 & _ & _). assert (b' <> b) by congruence. upds_in H2.
    destruct (Nat.eq_dec t' t) as [->|Hnt]; upds; [rewrite (I4 t Hs) in H; discriminate|apply (I7 t' b' H H2)].
  - intros t'. destruct (Nat.eq_dec t' t) as [->|Hnt]; upds; [apply Hwp|]. specialize (I8 t'). destruct (th st t'); exact I8.
Qed.

(** adoption of a free control block *)
Lemma InvO_adopt st t r p :
  InvO st -> seek (th st t) = true -> pendb (th st t) = None -> est st r = 0 -> In r (blist st) -> pendb p = None -> seek p = false ->
  inI p = true -> (forall s, walk_ok s p) ->
  InvO (set_pc t p (set_tl t (wt_rcd (Some r) (tl st t)) (w_est (upd (est st) r 1) (w_g_owner (upd (g_owner st) r (Some t)) st)))).
Proof.
  intros [I1 I2 I3 I4 I5 I6 I7 I8] Hs Hp He Hin Hp' Hs' Hi' Hwp.
  assert (Hr : g_owner st r = None) by (apply I5; exact He).
  assert (Ht : rcd (tl st t) = None) by (apply I4; exact Hs).
  constructor; prj.
  - intros t' b' H. destruct (Nat.eq_dec t' t) as [->|Hnt]; upds_in H.
    + cbn in H. injection H as <-. upds. split; [reflexivity|]. split; [exact Hin|discriminate].
    + destruct (I1 t' b' H) as (H1 & H2 & H3). assert (b' <> r) by congruence. upds. tauto.
  - intros t' b' H. destruct (Nat.eq_dec b' r) as [->|Hne]; upds_in H.
    + injection H as <-. left. upds. reflexivity.
    + destruct (Nat.eq_dec t' t) as [->|Hnt]; upds; [|apply I2; exact H].
      destruct (I2 t b' H) as [H1|H1]; congruence.
  - intros t' b' H. destruct (Nat.eq_dec t' t) as [->|Hnt]; upds_in H; [congruence|].
    destruct (I3 t' b' H) as (H1 & H2 & H3). assert (b' <> r) by congruence. upds. tauto.
  - intros t' H. destruct (Nat.eq_dec t' t) as [->|Hnt]; upds_in H; [congruence|]. upds. apply I4; exact H.
  - intros b' H. destruct (Nat.eq_dec b' r) as [->|Hne]; upds_in H; [discriminate|]. upds. apply I5. exact H.
  - intros b' H. destruct (I6 b' H) as [H1 H2]. assert (b' <> r) by (intros ->; contradiction). upds. tauto.
  - intros t' b' H H2. destruct (Nat.eq_dec t' t) as [->|Hnt]; upds; [exact Hi'|]. upds_in H.
    destruct (I1 t' b' H) as (H1 & _ & _). assert (b' <> r) by congruence. upds_in H2. apply (I7 t' b' H H2).
  - intros t'. destruct (Nat.eq_dec t' t) as [->|Hnt]; upds; [apply Hwp|]. specialize (I8 t'). destruct (th st t'); exact I8.
Qed.

(** the new control block is linked into the list *)
Lemma InvO_link st t b p :
  InvO st -> pendb (th st t) = Some b -> pendb p = None -> seek p = false -> inI p = true ->
  (forall s, walk_ok s p) ->
  InvO (set_pc t p (set_tl t (wt_rcd (Some b) (tl st t)) (w_blist (b :: blist st) st))).
Proof.
  intros [I1 I2 I3 I4 I5 I6 I7 I8] Hp Hp' Hs' Hi' Hwp.
  destruct (I3 t b Hp) as (Ho & Hnin & He).
  assert (Ht : rcd (tl st t) = None) by (apply I4; destruct (th st t); cbn in Hp; try discriminate; reflexivity).
  constructor; prj.
  - intros t' b' H. destruct (Nat.eq_dec t' t) as [->|Hnt]; upds_in H.
    + cbn in H. injection H as <-. split; [exact Ho|]. split; [left; reflexivity|exact He].
    + destruct (I1 t' b' H) as (H1 & H2 & H3). split; [exact H1|]. split; [right; exact H2|exact H3].
  - intros t' b' H. destruct (Nat.eq_dec t' t) as [->|Hnt]; upds; [|apply I2; exact H].
    destruct (I2 t b' H) as [H1|H1]; [congruence|]. left. cbn. congruence.
  - intros t' b' H. destruct (Nat.eq_dec t' t) as [->|Hnt]; upds_in H; [congruence|].
    destruct (I3 t' b' H) as (H1 & H2 & H3). split; [exact H1|]. split; [|exact H3].
    intros [<-|Hc]; [congruence|contradiction].
  - intros t' H. destruct (Nat.eq_dec t' t) as [->|Hnt]; upds_in H; [congruence|]. upds. apply I4; exact H.
  - exact I5.
  - intros b' H. destruct (I6 b' H) as [H1 H2]. split; [exact H1|]. intros [<-|Hc]; [congruence|contradiction].
  - intros t' b' H H2. destruct (Nat.eq_dec t' t) as [->|Hnt]; upds; [exact Hi'|]. upds_in H. apply (I7 t' b' H H2).
  - intros t'. destruct (Nat.eq_dec t' t) as [->|Hnt]; upds; [apply Hwp|]. specialize (I8 t').
    destruct (th st t'); cbn [walk_ok] in *; prj; try exact I; intros x Hx; right; apply I8; exact Hx.
Qed.

(** activate *)
Lemma InvO_activate st t b p :
  InvO st -> rcd (tl st t) = Some b -> pendb (th st t) = None -> seek (th st t) = false -> pendb p = None -> seek p = false ->
  (forall s, walk_ok s p) ->
  InvO (set_pc t p (w_est (upd (est st) b 2) st)).
Proof.
  intros [I1 I2 I3 I4 I5 I6 I7 I8] Hr Hp Hs Hp' Hs' Hwp.
  destruct (I1 t b Hr) as (Ho & Hin & He).
  constructor; prj.
  - intros t' b' H. destruct (I1 t' b' H) as (H1 & H2 & H3). split; [exact H1|]. split; [exact H2|].
    destruct (Nat.eq_dec b' b) as [->|Hne]; upds; [discriminate|exact H3].
  - intros t' b' H. destruct (Nat.eq_dec t' t) as [->|Hnt]; upds; [|apply I2; exact H].
    destruct (I2 t b' H) as [H1|H1]; [left; exact H1|congruence].
  - intros t' b' H. destruct (Nat.eq_dec t' t) as [->|Hnt]; upds_in H; [congruence|].
    destruct (I3 t' b' H) as (H1 & H2 & H3). assert (b' <> b) by congruence. upds. tauto.
  - intros t' H. destruct (Nat.eq_dec t' t) as [->|Hnt]; upds_in H; [congruence|]. apply I4; exact H.
  - intros b' H. destruct (Nat.eq_dec b' b) as [->|Hne]; upds_in H; [discriminate|]. apply I5. exact H.
  - exact I6.
  - intros t' b' H H2. destruct (Nat.eq_dec b' b) as [->|Hne]; upds_in H2; [congruence|].
    destruct (Nat.eq_dec t' t) as [->|Hnt]; upds; [congruence|apply (I7 t' b' H H2)].
  - intros t'. destruct (Nat.eq_dec t' t) as [->|Hnt]; upds; [apply Hwp|]. specialize (I8 t'). destruct (th st t'); exact I8.
Qed.

(** release_entry *)
Lemma InvO_release st t b p :
  InvO st -> rcd (tl st t) = Some b -> pendb (th st t) = None -> pendb p = None -> seek p = false ->
  (forall s, walk_ok s p) ->
  InvO (set_pc t p (set_tl t (mkTl None None [] (gd (tl st t)) (rl (tl st t))) (w_est (upd (est st) b 0) (w_g_owner (upd (g_owner st) b None) st)))).
Proof.
  intros [I1 I2 I3 I4 I5 I6 I7 I8] Hr Hp Hp' Hs' Hwp.
  destruct (I1 t b Hr) as (Ho & Hin & He).
  constructor; prj.
  - intros t' b' H. destruct (Nat.eq_dec t' t) as [->|Hnt]; upds_in H; [discriminate|].
    destruct (I1 t' b' H) as (H1 & H2 & H3). assert (b' <> b) by congruence. upds. tauto.
  - intros t' b' H. destruct (Nat.eq_dec b' b) as [->|Hne]; upds_in H; [discriminate|].
    destruct (Nat.eq_dec t' t) as [->|Hnt]; upds; [|apply I2; exact H].
    destruct (I2 t b' H) as [H1|H1]; congruence.
  - intros t' b' H. destruct (Nat.eq_dec t' t) as [->|Hnt]; upds_in H; [congruence|].
    destruct (I3 t' b' H) as (H1 & H2 & H3). assert (b' <> b) by congruence. upds. tauto.
  - intros t' H. destruct (Nat.eq_dec t' t) as [->|Hnt]; upds_in H; [congruence|]. upds. apply I4; exact H.
  - intros b' H. destruct (Nat.eq_dec b' b) as [->|Hne]; upds; [reflexivity|]. upds_in H. apply I5. exact H.
  - intros b' H. destruct (I6 b' H) as [H1 H2]. destruct (Nat.eq_dec b' b) as [->|Hne]; upds; tauto.
  - intros t' b' H H2. destruct (Nat.eq_dec t' t) as [->|Hnt]; upds_in H; [discriminate|]. upds.
    destruct (I1 t' b' H) as (H1 & _ & _). assert (b' <> b) by congruence. upds_in H2. apply (I7 t' b' H H2).
  - intros t'. destruct (Nat.eq_dec t' t) as [->|Hnt]; upds; [apply Hwp|]. specialize (I8 t'). destruct (th st t'); exact I8.
Qed.

(** the pc of thread t changes (nothing else the invariant looks at) *)
Lemma InvO_pc st st' t p :
  InvO st -> th st' = upd (th st) t p ->
  blist st' = blist st -> est st' = est st -> g_owner st' = g_owner st -> nalloc st <= nalloc st' ->
  (forall u, rcd (tl st' u) = rcd (tl st u)) ->
  pendb p = pendb (th st t) -> (seek p = true -> seek (th st t) = true \/ rcd (tl st t) = None) ->
  (inI (th st t) = true -> inI p = true) -> (walk_ok st (th st t) -> walk_ok st' p) ->
  InvO st'.
Proof.
  intros HI Hth Hb He Ho Hn Hr Hp Hs Hi Hw.
  apply (InvO_frame st).
  - exact Hb.
  - intros b. rewrite He. tauto.
  - intros u b _. rewrite He. reflexivity.
  - intros b. rewrite Ho. reflexivity.
  - exact Hn.
  - exact Hr.
  - intros u. rewrite Hth. destruct (Nat.eq_dec u t) as [->|Hne]; upds; [exact Hp|reflexivity].
  - intros u. rewrite Hth. destruct (Nat.eq_dec u t) as [->|Hne]; upds; [exact Hs|tauto].
  - intros u. rewrite Hth. destruct (Nat.eq_dec u t) as [->|Hne]; upds; [exact Hi|tauto].
  - intros u. rewrite Hth. destruct (Nat.eq_dec u t) as [->|Hne]; upds; [exact Hw|].
    intros H. destruct (th st u); cbn [walk_ok] in *; try exact I; rewrite Hb; exact H.
  - exact HI.
Qed.

Lemma InvO_step st a st' es :
  InvO st -> step nslots st a = Some (st', es) -> InvO st'.
Proof.
  intros HI Hs. pose proof (O_walk st HI) as HW. destruct a as [t o|t]; cbn [step] in Hs.
  - destruct (th st t) eqn:Hth; try discriminate Hs. destruct (legal nslots o); [|discriminate Hs].
    injection Hs as <- <-. apply (InvO_frame st); prj; fr t Hth.
  - pose proof (HW t) as Hw. destruct (th st t) eqn:Hth; try discriminate Hs.
    all: leaves Hs.
    all: try (dg; apply (InvO_frame st); prj; upds; prj; fr t Hth; fail).
    all: try (lazymatch goal with Hu : ush ?t ?s0 ?st1 |- _ =>
           assert (HI0 : InvO s0) by (first [exact HI | (apply (InvO_frame st); unfold reset_guard; prj; upds; prj; fr t Hth)]);
           pose proof (InvO_ush _ _ _ Hu HI0) as HI1; pose proof (ush_same _ _ _ Hu) as HS;
           eapply (InvO_pc st1 _ t); [exact HI1|prj; reflexivity|..]; prj; try reflexivity; try lia;
           rewrite ?(sb_th _ _ _ HS); unfold reset_guard; prj; rewrite ?Hth; cbn [pendb seek inI walk_ok];
           try reflexivity; try tauto; try (intros; discriminate); try (intros; exact I) end; fail).
    + apply InvO_new; rewrite ?Hth; auto; intros; exact I.
    + apply InvO_new; rewrite ?Hth; auto; intros; exact I.
    + apply InvO_adopt; rewrite ?Hth; auto; [apply Nat.eqb_eq; assumption|apply Hw; left; reflexivity|intros; exact I].
    + apply InvO_new; rewrite ?Hth; auto; intros; exact I.
    + destruct (O_pend st HI t b) as (H1 & H2 & H3); [rewrite Hth; reflexivity|].
      assert (Hnr : forall u, rcd (tl st u) <> Some b).
      { intros u Hu. destruct (O_rcd st HI u b Hu) as (_ & Hc & _). contradiction. }
      apply (InvO_frame st); prj; try fr t Hth.
      * intros x. unfold upd. destruct (Nat.eqb_spec x b) as [->|]; [split; [discriminate|intros; contradiction]|tauto].
      * intros u x Hu. unfold upd. destruct (Nat.eqb_spec x b) as [->|]; [exfalso; apply (Hnr u Hu)|reflexivity].
    + apply InvO_link; rewrite ?Hth; auto; intros; exact I.
    + (* I2: cache hit *) apply (InvO_frame (set_pc t (Q1 k e) (w_est (upd (est st) n 2) st))).
      all: try (unfold set_gd; prj; upds; prj; fr t Hth).
      apply (InvO_activate st t n); rewrite ?Hth; auto; intros; exact I.
    + apply (InvO_activate st t n); rewrite ?Hth; auto; intros; exact I.
    + (* I2: throw *) apply (InvO_frame (set_pc t Idle (w_est (upd (est st) n 2) st))).
      all: try (prj; upds; prj; fr t Hth).
      apply (InvO_activate st t n); rewrite ?Hth; auto; intros; exact I.
    + apply (InvO_activate st t n); rewrite ?Hth; auto; intros; exact I.
    + (* I2: throw *) apply (InvO_frame (set_pc t Idle (w_est (upd (est st) n 2) st))).
      all: try (prj; upds; prj; fr t Hth).
      apply (InvO_activate st t n); rewrite ?Hth; auto; intros; exact I.
    + apply InvO_release; rewrite ?Hth; auto; intros; exact I.
Qed.
End InvO.

Lemma InvO_init ncells : InvO (init ncells).
Proof.
  constructor; cbn; intros; try discriminate; try tauto; try exact I.
Qed.
