(** C18 - hazard ERA slots: proofs about the model Model/HeSlotsDefs.v (run against the compiled
    xenium::reclamation::hazard_eras by tools/hpslots_diff.py --he).  The pool lemmas are those of Proof/HpSlots.v
    (they are polymorphic in the payload); the guard layer is different: slots are shared and reference counted. *)
From Coq Require Import String List Arith Bool Lia Permutation.
From XV Require Import Model.HpSlotsDefs Model.HeSlotsDefs Proof.HpSlots.
Import ListNotations.

(** * payload access *)
Definition pslot (p : pool (nat * nat)) (s : nat) : option (nat * nat) :=
  match nth_error (slots p) s with
  | Some (Obj ec) => Some ec
  | _ => None
  end.

Lemma slot_at_pslot st s : slot_at st s = pslot (hpool st) s.
Proof. reflexivity. Qed.

Lemma pslot_lt p s ec : pslot p s = Some ec -> s < length (slots p).
Proof.
  unfold pslot. destruct (nth_error (slots p) s) as [sl|] eqn:E; [|discriminate]. intros _. eapply nth_error_lt; eassumption.
Qed.

Lemma pslot_set p i a j : i < length (slots p) -> pslot (p_set i a p) j = if i =? j then Some a else pslot p j.
Proof.
  intros Hl. unfold pslot. cbn [p_set slots]. rewrite nth_error_set_nth.
  destruct (Nat.eqb_spec i j) as [->|N]; cbn [andb]; [|reflexivity].
  destruct (Nat.ltb_spec j (length (slots p))); [reflexivity|lia].
Qed.

Lemma pslot_release p i j : i <> j -> pslot (p_release i p) j = pslot p j.
Proof. intros N. unfold pslot. cbn [p_release slots]. rewrite nth_error_set_nth_neq by assumption. reflexivity. Qed.

Lemma pslot_app p p' ext j : slots p' = slots p ++ ext -> j < length (slots p) -> pslot p' j = pslot p j.
Proof. intros E Hl. unfold pslot. rewrite E, nth_error_app1 by assumption. reflexivity. Qed.

(** * the slots in use: those referenced by at least one guard *)
Definition used (gs : list guard) : list nat := nodup Nat.eq_dec (held gs).

Lemma cnt_nodup l x : cnt (nodup Nat.eq_dec l) x = Nat.min 1 (cnt l x).
Proof.
  pose proof (proj1 (NoDup_count_occ Nat.eq_dec (nodup Nat.eq_dec l)) (NoDup_nodup Nat.eq_dec l) x) as Hle.
  pose proof (nodup_In Nat.eq_dec l x) as Hin. rewrite !cnt_In in Hin. lia.
Qed.

Lemma cnt_used gs x : cnt (used gs) x = Nat.min 1 (cnt (held gs) x).
Proof. apply cnt_nodup. Qed.

Record HInv (cfg : config) (st : hstate) : Prop := {
  hi_pool : PoolInv cfg (hpool st) (used (h_guards st));
  (* the reference count of a slot is the number of guards that refer to it *)
  hi_ref : forall s, In s (held (h_guards st)) -> exists e, pslot (hpool st) s = Some (e, cnt (held (h_guards st)) s);
  hi_last : forall l, h_last st = Some l -> In l (held (h_guards st));
  hi_len : length (h_guards st) = cG cfg
}.

Lemma hinv_init cfg : 1 <= cK cfg -> HInv cfg (h_init cfg).
Proof.
  intros HK. split; cbn [h_init hpool h_guards h_last].
  - unfold used. rewrite init_held. apply pool_init; [assumption|constructor|reflexivity].
  - rewrite init_held. intros s [].
  - discriminate.
  - apply repeat_length.
Qed.

Lemma held_cnt_In gs g gd s : nth_error gs g = Some gd -> g_hp gd = Some s -> 1 <= cnt (held gs) s.
Proof. intros Hg Hs. apply cnt_In, held_In. eauto. Qed.

(** ** only the guard array changes, the multiset of references stays *)
Lemma hinv_guards_change cfg st gs' : HInv cfg st -> length gs' = length (h_guards st) ->
  (forall x, cnt (held gs') x = cnt (held (h_guards st)) x) ->
  HInv cfg (h_with_guards st gs').
Proof.
  intros [Hp Hr Hl Hn] Hlen Hc. split; cbn [h_with_guards hpool h_guards h_last].
  - eapply PoolInv_ext; [|exact Hp]. intros x. rewrite !cnt_used, Hc. reflexivity.
  - intros s Hin. apply cnt_In in Hin. rewrite Hc in Hin. apply cnt_In in Hin.
    destruct (Hr s Hin) as [e He]. exists e. rewrite Hc. exact He.
  - intros l Hl'. apply cnt_In. rewrite Hc. apply cnt_In. apply Hl. assumption.
  - congruence.
Qed.

Lemma hinv_put_same cfg st g gd x : HInv cfg st -> h_get st g = Some gd -> g_hp x = g_hp gd -> HInv cfg (h_put st g x).
Proof.
  intros Hinv Hg Hx. unfold h_put. apply hinv_guards_change; [assumption|apply set_nth_length|].
  intros y. pose proof (held_set_nth (h_guards st) g gd x y Hg) as E. unfold hpl in E. rewrite Hx in E. lia.
Qed.

(** ** writing the era of a slot in use *)
Lemma hinv_set_era cfg st s e c era : HInv cfg st -> In s (held (h_guards st)) -> pslot (hpool st) s = Some (e, c) ->
  HInv cfg (h_with_pool st (p_set s (era, c) (hpool st))).
Proof.
  intros [Hp Hr Hl Hn] Hin Hs. pose proof (pslot_lt _ _ _ Hs) as Hlt.
  split; cbn [h_with_pool hpool h_guards h_last]; try assumption.
  - apply pool_set; [assumption|]. unfold used. apply nodup_In. assumption.
  - intros s' Hin'. cbn [hpool]. rewrite pslot_set by assumption.
    destruct (Nat.eqb_spec s s') as [<-|N].
    + destruct (Hr s Hin) as [e' He']. rewrite He' in Hs. inversion Hs; subst. eexists. reflexivity.
    + apply Hr. assumption.
Qed.

(** ** a guard without era gets a reference to a slot that is in use *)
Lemma hinv_share cfg st g gd l e c x : HInv cfg st -> h_get st g = Some gd -> g_hp gd = None ->
  In l (held (h_guards st)) -> pslot (hpool st) l = Some (e, c) -> g_hp x = Some l ->
  HInv cfg (h_put (h_with_pool st (p_set l (e, S c) (hpool st))) g x).
Proof.
  intros [Hp Hr Hl Hn] Hg Hgn Hin Hs Hx. pose proof (pslot_lt _ _ _ Hs) as Hlt. unfold h_get in Hg.
  assert (Hc : forall y, cnt (held (set_nth g x (h_guards st))) y = (if l =? y then 1 else 0) + cnt (held (h_guards st)) y).
  { intros y. pose proof (held_set_nth (h_guards st) g gd x y Hg) as E. unfold hpl in E. rewrite Hgn, Hx in E.
    rewrite cnt_cons in E. cbn [count_occ] in E. lia. }
  assert (Hcl : c = cnt (held (h_guards st)) l).
  { destruct (Hr l Hin) as [e' He']. rewrite He' in Hs. inversion Hs. reflexivity. }
  split; cbn [h_put h_with_guards h_with_pool hpool h_guards h_last].
  - eapply PoolInv_ext; [|apply pool_set; [exact Hp|unfold used; apply nodup_In; exact Hin]].
    intros y. rewrite !cnt_used, Hc. apply cnt_In in Hin. destruct (Nat.eqb_spec l y) as [E|N]; [rewrite <- E in *|]; lia.
  - intros s' Hin'. cbn [hpool]. rewrite pslot_set by assumption.
    rewrite Hc. destruct (Nat.eqb_spec l s') as [<-|N].
    + eexists. rewrite Hcl. reflexivity.
    + apply Hr. apply cnt_In. apply cnt_In in Hin'. rewrite Hc in Hin'.
      destruct (Nat.eqb_spec l s'); [contradiction|]. lia.
  - intros l' Hl'. apply cnt_In. rewrite Hc. specialize (Hl l' Hl'). apply cnt_In in Hl. lia.
  - rewrite set_nth_length. assumption.
Qed.

(** ** a guard without era gets a fresh slot *)
Lemma hinv_fresh cfg st g gd i p era x : 1 <= cK cfg -> HInv cfg st -> h_get st g = Some gd -> g_hp gd = None ->
  p_alloc cfg (hpool st) = AOk i p -> g_hp x = Some i ->
  HInv cfg (h_put {| hpool := p_set i (era, 1) p; h_last := Some i; h_last_era := era;
                     h_clock := h_clock st; h_guards := h_guards st |} g x).
Proof.
  intros HK [Hp Hr Hl Hn] Hg Hgn Ha Hx. unfold h_get in Hg.
  destruct (pool_alloc _ _ _ _ _ HK Hp Ha) as (Hp' & Hnin & Hlt & [ext Hext] & _).
  assert (Hc : forall y, cnt (held (set_nth g x (h_guards st))) y = (if i =? y then 1 else 0) + cnt (held (h_guards st)) y).
  { intros y. pose proof (held_set_nth (h_guards st) g gd x y Hg) as E. unfold hpl in E. rewrite Hgn, Hx in E.
    rewrite cnt_cons in E. cbn [count_occ] in E. lia. }
  assert (Hi0 : cnt (held (h_guards st)) i = 0).
  { apply cnt_notIn in Hnin. rewrite cnt_used in Hnin. lia. }
  split; cbn [h_put h_with_guards hpool h_guards h_last].
  - eapply PoolInv_ext; [|apply pool_set; [exact Hp'|left; reflexivity]].
    intros y. rewrite cnt_cons, !cnt_used, Hc. destruct (Nat.eqb_spec i y) as [E|N]; [rewrite <- E in *|]; lia.
  - intros s' Hin'. cbn [hpool]. rewrite pslot_set by assumption.
    rewrite Hc. destruct (Nat.eqb_spec i s') as [<-|N].
    + eexists. rewrite Hi0. reflexivity.
    + assert (Hin : In s' (held (h_guards st))).
      { apply cnt_In. apply cnt_In in Hin'. rewrite Hc in Hin'. destruct (Nat.eqb_spec i s'); [contradiction|]. lia. }
      destruct (Hr s' Hin) as [e He]. exists e. cbn [Nat.add]. rewrite <- He.
      apply (pslot_app _ _ ext); [assumption|]. eapply pslot_lt. exact He.
  - intros l' Hl'. inversion Hl'; subst l'. apply cnt_In. rewrite Hc, Nat.eqb_refl. lia.
  - rewrite set_nth_length. assumption.
Qed.

(** ** a guard drops its reference *)
Lemma hinv_release cfg st g gd s x : HInv cfg st -> h_get st g = Some gd -> g_hp gd = Some s -> g_hp x = None ->
  exists st1, he_release st s = Some st1 /\ HInv cfg (h_put st1 g x) /\
              h_guards st1 = h_guards st /\ h_clock st1 = h_clock st /\
              length (slots (hpool st1)) = length (slots (hpool st)) /\ blocks (hpool st1) = blocks (hpool st) /\
              (exists e, pslot (hpool st) s = Some (e, cnt (held (h_guards st)) s) /\
                 match cnt (held (h_guards st)) s with
                 | 1 => hpool st1 = p_release s (hpool st)
                 | c => st1 = h_with_pool st (p_set s (e, pred c) (hpool st))
                 end).
Proof.
  intros [Hp Hr Hl Hn] Hg Hgs Hx. unfold h_get in Hg.
  pose proof (held_cnt_In _ _ _ _ Hg Hgs) as Hge. assert (Hin : In s (held (h_guards st))) by (apply cnt_In; assumption).
  destruct (Hr s Hin) as [e He]. pose proof (pslot_lt _ _ _ He) as Hlt.
  assert (Hc : forall y, cnt (held (h_guards st)) y = (if s =? y then 1 else 0) + cnt (held (set_nth g x (h_guards st))) y).
  { intros y. pose proof (held_set_nth (h_guards st) g gd x y Hg) as E. unfold hpl in E. rewrite Hgs, Hx in E.
    rewrite cnt_cons in E. cbn [count_occ] in E. lia. }
  unfold he_release. rewrite slot_at_pslot, He.
  destruct (cnt (held (h_guards st)) s) as [|[|c]] eqn:Hcs; [lia| |].
  - (* last reference: the slot goes back to the free list *)
    eexists. split; [reflexivity|].
    assert (Hs0 : cnt (held (set_nth g x (h_guards st))) s = 0) by (specialize (Hc s); rewrite Nat.eqb_refl in Hc; lia).
    split; [|cbn [h_guards h_clock hpool p_release slots blocks]; rewrite set_nth_length;
             repeat split; try reflexivity; exists e; split; reflexivity].
    split; cbn [h_put h_with_guards hpool h_guards h_last].
    + apply pool_release. eapply PoolInv_ext; [|exact Hp]. intros y. rewrite cnt_cons, !cnt_used. specialize (Hc y).
      destruct (Nat.eqb_spec s y) as [E|N]; [rewrite <- E in *|]; lia.
    + intros s' Hin'. assert (N : s <> s') by (intros <-; apply cnt_In in Hin'; lia).
      cbn [hpool]. rewrite pslot_release by assumption.
      assert (Hin0 : In s' (held (h_guards st))).
      { apply cnt_In. apply cnt_In in Hin'. specialize (Hc s'). lia. }
      destruct (Hr s' Hin0) as [e' He']. exists e'. specialize (Hc s'). destruct (Nat.eqb_spec s s'); [contradiction|].
      cbn [Nat.add] in Hc. rewrite <- Hc. exact He'.
    + intros l' Hl'. destruct (h_last st) as [l0|] eqn:E0; [|discriminate].
      destruct (Nat.eqb_spec l0 s) as [->|N]; [discriminate|]. inversion Hl'; subst l'.
      specialize (Hl l0 eq_refl). apply cnt_In in Hl. apply cnt_In. specialize (Hc l0).
      destruct (Nat.eqb_spec s l0); [congruence|]. lia.
    + rewrite set_nth_length. assumption.
  - (* other guards still refer to the slot *)
    eexists. split; [reflexivity|].
    assert (Hs1 : cnt (held (set_nth g x (h_guards st))) s = S c) by (specialize (Hc s); rewrite Nat.eqb_refl in Hc; lia).
    split; [|cbn [h_with_pool h_guards h_clock hpool p_set slots blocks h_last]; rewrite set_nth_length;
             repeat split; try reflexivity; exists e; split; reflexivity].
    split; cbn [h_put h_with_guards h_with_pool hpool h_guards h_last].
    + eapply PoolInv_ext; [|apply pool_set; [exact Hp|unfold used; apply nodup_In; exact Hin]].
      intros y. rewrite !cnt_used. specialize (Hc y). destruct (Nat.eqb_spec s y) as [E|N]; [rewrite <- E in *|]; lia.
    + intros s' Hin'. cbn [hpool]. rewrite pslot_set by assumption.
      destruct (Nat.eqb_spec s s') as [<-|N].
      * eexists. rewrite Hs1. reflexivity.
      * assert (Hin0 : In s' (held (h_guards st))).
        { apply cnt_In. apply cnt_In in Hin'. specialize (Hc s'). lia. }
        destruct (Hr s' Hin0) as [e' He']. exists e'. specialize (Hc s'). destruct (Nat.eqb_spec s s'); [contradiction|].
        cbn [Nat.add] in Hc. rewrite <- Hc. exact He'.
    + intros l' Hl'. specialize (Hl l' Hl'). apply cnt_In in Hl. apply cnt_In. specialize (Hc l').
      destruct (Nat.eqb_spec s l') as [E|N]; [rewrite <- E in *|]; lia.
    + rewrite set_nth_length. assumption.
Qed.

(** * alloc_hazard_era *)
Lemma h_put_get_same st g x : g < length (h_guards st) -> h_get (h_put st g x) g = Some x.
Proof. intros Hl. unfold h_get, h_put. cbn [h_with_guards h_guards]. apply nth_error_set_nth_eq. assumption. Qed.

Lemma h_put_get_other st g g' x : g <> g' -> h_get (h_put st g x) g' = h_get st g'.
Proof. intros Hn. unfold h_get, h_put. cbn [h_with_guards h_guards]. apply nth_error_set_nth_neq. assumption. Qed.

Lemma h_get_lt st g gd : h_get st g = Some gd -> g < length (h_guards st).
Proof. unfold h_get. intros H. eapply nth_error_lt; eassumption. Qed.

Lemma he_alloc_spec cfg st g gd era : 1 <= cK cfg -> HInv cfg st -> h_get st g = Some gd -> g_hp gd = None ->
  match he_alloc cfg st era with
  | HOk s st1 => (forall x, g_hp x = Some s -> HInv cfg (h_put st1 g x)) /\
                 h_guards st1 = h_guards st /\ h_clock st1 = h_clock st
  | HExh => p_alloc cfg (hpool st) = AExh
  | HCorrupt => False
  end.
Proof.
  intros HK Hinv Hg Hgn. unfold he_alloc.
  assert (Hfresh : match (match p_alloc cfg (hpool st) with
                          | AOk i p => HOk i {| hpool := p_set i (era, 1) p; h_last := Some i; h_last_era := era;
                                                h_clock := h_clock st; h_guards := h_guards st |}
                          | AExh => HExh
                          | ACorrupt => HCorrupt
                          end) with
                   | HOk s st1 => (forall x, g_hp x = Some s -> HInv cfg (h_put st1 g x)) /\
                                  h_guards st1 = h_guards st /\ h_clock st1 = h_clock st
                   | HExh => p_alloc cfg (hpool st) = AExh
                   | HCorrupt => False
                   end).
  { pose proof (pool_alloc_not_corrupt _ _ _ HK (hi_pool _ _ Hinv)) as Hnc.
    destruct (p_alloc cfg (hpool st)) as [i p| |] eqn:Ha; [|reflexivity|congruence].
    split; [|split; reflexivity]. intros x Hx. eapply hinv_fresh; eassumption. }
  destruct (h_last st) as [l|] eqn:Hl; [|exact Hfresh].
  destruct (h_last_era st =? era); [|exact Hfresh].
  pose proof (hi_last _ _ Hinv l Hl) as Hin. destruct (hi_ref _ _ Hinv l Hin) as [e He].
  rewrite slot_at_pslot, He. split; [|split; reflexivity].
  intros x Hx. eapply hinv_share; eassumption.
Qed.

(** * reset *)
Lemma h_reset_spec cfg st g gd : HInv cfg st -> h_get st g = Some gd ->
  exists st', h_reset st g = Some st' /\ HInv cfg st' /\ h_get st' g = Some empty_guard /\
              (forall g', g <> g' -> h_get st' g' = h_get st g') /\ h_clock st' = h_clock st /\
              length (h_guards st') = length (h_guards st) /\
              length (slots (hpool st')) = length (slots (hpool st)) /\ blocks (hpool st') = blocks (hpool st).
Proof.
  intros Hinv Hg. unfold h_reset. rewrite Hg. pose proof (h_get_lt _ _ _ Hg) as Hlt.
  destruct (g_hp gd) as [s|] eqn:Hs.
  - destruct (hinv_release cfg st g gd s empty_guard Hinv Hg Hs eq_refl) as (st1 & Hr & Hi & Hgs & Hck & Hlen & Hbl & _).
    rewrite Hr. eexists. split; [reflexivity|]. split; [assumption|].
    split; [apply h_put_get_same; rewrite Hgs; assumption|].
    split; [intros g' Hn; rewrite h_put_get_other by assumption; unfold h_get; rewrite Hgs; reflexivity|].
    split; [assumption|]. split; [|split; assumption].
    unfold h_put. cbn [h_with_guards h_guards]. rewrite set_nth_length, Hgs. reflexivity.
  - eexists. split; [reflexivity|]. split; [eapply hinv_put_same; [eassumption|eassumption|rewrite Hs; reflexivity]|].
    split; [apply h_put_get_same; assumption|]. split; [intros g' Hn; apply h_put_get_other; assumption|].
    split; [reflexivity|]. split; [|split; reflexivity]. unfold h_put. cbn [h_with_guards h_guards]. apply set_nth_length.
Qed.

(** * the operations *)
Definition h_target (op : hop) : nat := match op with HOp o => target o | HTick => 0 end.
Definition valid_hop (cfg : config) (op : hop) : Prop := match op with HOp o => valid_op cfg o | HTick => True end.

(** what every operation guarantees *)
Record Post (cfg : config) (st : hstate) (tg : nat) (o : outcome) (st' : hstate) : Prop := {
  po_inv : HInv cfg st';
  po_exh : o = Exhausted ->
           cDyn cfg = false /\ free_list (hpool st') = [] /\
           (forall g', tg <> g' -> h_get st' g' = h_get st g') /\
           (exists gd', h_get st' tg = Some gd' /\ g_hp gd' = None);
  po_dyn : cDyn cfg = true -> o <> Exhausted
}.

Lemma exh_facts cfg (p : pool (nat * nat)) H : 1 <= cK cfg -> PoolInv cfg p H -> p_alloc cfg p = AExh ->
  cDyn cfg = false /\ free_list p = [].
Proof.
  intros HK Hp Ha. destruct (proj1 (pool_alloc_exhausted _ _ _ HK Hp) Ha) as [Hs Hh].
  split; [assumption|]. apply (pool_hint_none _ _ _ Hp Hh).
Qed.

Lemma h_alloc_for_spec cfg st0 st g gd old v m ret o b st' : 1 <= cK cfg -> HInv cfg st ->
  h_get st g = Some gd -> g_hp gd = None -> g_ptr gd = g_ptr old -> g_mark gd = g_mark old ->
  (forall g', g <> g' -> h_get st g' = h_get st0 g') ->
  h_alloc_for cfg st g old v m ret = (o, b, st') ->
  Post cfg st0 g o st' /\ o <> Invalid.
Proof.
  intros HK Hinv Hg Hgn Hp Hm Hfr Hal. unfold h_alloc_for in Hal.
  pose proof (he_alloc_spec cfg st g gd (h_clock st) HK Hinv Hg Hgn) as Hspec.
  pose proof (h_get_lt _ _ _ Hg) as Hlt.
  destruct (he_alloc cfg st (h_clock st)) as [s st1| |]; [| |contradiction].
  - inversion Hal; subst. destruct Hspec as (Hx & Hgs & _). split; [|discriminate].
    split; [apply Hx; reflexivity|discriminate|discriminate].
  - inversion Hal; subst. split; [|discriminate].
    assert (Hsame : h_put st g (mk_guard None (g_ptr old) (g_mark old)) = st).
    { unfold h_put, h_with_guards. destruct st as [p l le c gs]. cbn [hpool h_last h_last_era h_clock h_guards] in *. f_equal.
      apply set_nth_same. unfold h_get in Hg. cbn [h_guards] in Hg. rewrite Hg. f_equal.
      destruct gd as [h pt mk]. cbn [g_hp g_ptr g_mark] in *. subst. reflexivity. }
    rewrite Hsame. destruct (exh_facts cfg _ _ HK (hi_pool _ _ Hinv) Hspec) as [Hs Hfl].
    split; [assumption| |congruence].
    intros _. split; [assumption|]. split; [assumption|]. split; [assumption|]. exists gd. split; assumption.
Qed.

Lemma h_construct_spec cfg st st0 g v m o st' : 1 <= cK cfg -> HInv cfg st0 -> h_get st0 g = Some empty_guard ->
  (forall g', g <> g' -> h_get st0 g' = h_get st g') ->
  h_construct cfg st0 g v m = (o, st') -> Post cfg st g o st' /\ o <> Invalid.
Proof.
  intros HK Hinv Hg Hfr Hc. unfold h_construct in Hc.
  destruct (v =? 0).
  - inversion Hc; subst. split; [|discriminate]. split; [|discriminate|discriminate].
    eapply hinv_put_same; [eassumption|eassumption|reflexivity].
  - pose proof (he_alloc_spec cfg st0 g empty_guard (h_clock st0) HK Hinv Hg eq_refl) as Hspec.
    destruct (he_alloc cfg st0 (h_clock st0)) as [s st1| |]; [| |contradiction].
    + inversion Hc; subst. destruct Hspec as (Hx & _). split; [|discriminate].
      split; [apply Hx; reflexivity|discriminate|discriminate].
    + inversion Hc; subst. split; [|discriminate].
      destruct (exh_facts cfg _ _ HK (hi_pool _ _ Hinv) Hspec) as [Hs Hfl].
      split; [assumption| |congruence].
      intros _. split; [assumption|]. split; [assumption|]. split; [assumption|]. exists empty_guard. split; [assumption|reflexivity].
Qed.

Lemma h_share_spec cfg st0 dst src dd sd : HInv cfg st0 -> dst <> src ->
  h_get st0 dst = Some dd -> g_hp dd = None -> h_get st0 src = Some sd ->
  exists st', h_share st0 dst sd = (Ok, st') /\ HInv cfg st'.
Proof.
  intros Hinv Hne Hd Hdn Hs. unfold h_share. destruct (g_hp sd) as [s|] eqn:Hss.
  - assert (Hin : In s (held (h_guards st0))) by (apply held_In; exists src, sd; split; assumption).
    destruct (hi_ref _ _ Hinv s Hin) as [e He]. rewrite slot_at_pslot, He.
    eexists. split; [reflexivity|]. eapply hinv_share; eassumption.
  - eexists. split; [reflexivity|]. eapply hinv_put_same; [eassumption|eassumption|rewrite Hdn; reflexivity].
Qed.

Lemma h_move_inv cfg st dst src dd sd : HInv cfg st -> dst <> src ->
  h_get st dst = Some dd -> g_hp dd = None -> h_get st src = Some sd ->
  HInv cfg (h_put (h_put st dst sd) src empty_guard).
Proof.
  intros Hinv Hne Hd Hdn Hs. unfold h_get in *.
  assert (Hs' : nth_error (set_nth dst sd (h_guards st)) src = Some sd) by (rewrite nth_error_set_nth_neq; assumption).
  change (h_put (h_put st dst sd) src empty_guard)
    with (h_with_guards st (set_nth src empty_guard (set_nth dst sd (h_guards st)))).
  apply hinv_guards_change; [assumption|rewrite !set_nth_length; reflexivity|].
  intros x.
  pose proof (held_set_nth (h_guards st) dst dd sd x Hd) as E1.
  pose proof (held_set_nth (set_nth dst sd (h_guards st)) src sd empty_guard x Hs') as E2.
  unfold hpl in E1 at 1. rewrite Hdn in E1. unfold hpl in E2 at 2. cbn [g_hp empty_guard count_occ] in *. lia.
Qed.

Lemma h_swap_inv cfg st a b ga gb : HInv cfg st -> h_get st a = Some ga -> h_get st b = Some gb ->
  HInv cfg (h_put (h_put st a gb) b ga).
Proof.
  intros Hinv Ha Hb. unfold h_get in *.
  change (h_put (h_put st a gb) b ga) with (h_with_guards st (set_nth b ga (set_nth a gb (h_guards st)))).
  destruct (Nat.eq_dec a b) as [<-|Hne].
  - assert (gb = ga) by congruence. subst gb.
    rewrite (set_nth_same (h_guards st) a ga Ha). rewrite (set_nth_same (h_guards st) a ga Ha).
    apply hinv_guards_change; [assumption|reflexivity|reflexivity].
  - assert (Hb' : nth_error (set_nth a gb (h_guards st)) b = Some gb) by (rewrite nth_error_set_nth_neq; assumption).
    apply hinv_guards_change; [assumption|rewrite !set_nth_length; reflexivity|].
    intros x.
    pose proof (held_set_nth (h_guards st) a ga gb x Ha) as E1.
    pose proof (held_set_nth (set_nth a gb (h_guards st)) b gb ga x Hb') as E2. lia.
Qed.

(** resetting a list of guards *)
Lemma h_reset_all_spec cfg : forall L st, HInv cfg st -> (forall g, In g L -> g < cG cfg) ->
  exists st', h_reset_all st L = Some st' /\ HInv cfg st' /\
              (forall g, In g L -> h_get st' g = Some empty_guard) /\
              (forall g, h_get st g = Some empty_guard -> h_get st' g = Some empty_guard) /\
              h_clock st' = h_clock st /\ length (slots (hpool st')) = length (slots (hpool st)) /\
              blocks (hpool st') = blocks (hpool st).
Proof.
  induction L as [|a L IH]; intros st Hinv Hlt; cbn [h_reset_all].
  - exists st. split; [reflexivity|]. split; [assumption|]. split; [intros g []|]. repeat split; auto.
  - assert (Hex : exists gd, h_get st a = Some gd).
    { unfold h_get. destruct (nth_error (h_guards st) a) eqn:E; [eexists; reflexivity|].
      apply nth_error_None in E. rewrite (hi_len _ _ Hinv) in E. specialize (Hlt a (or_introl eq_refl)). lia. }
    destruct Hex as [gd Hgd].
    destruct (h_reset_spec cfg st a gd Hinv Hgd) as (st1 & Hr & Hi1 & Hsame & Hoth & Hck & _ & Hlen & Hbl).
    rewrite Hr. destruct (IH st1 Hi1 (fun g Hg => Hlt g (or_intror Hg))) as (st' & Hr' & Hi' & Hin' & Hkeep & Hck' & Hlen' & Hbl').
    exists st'. split; [assumption|]. split; [assumption|]. split; [|split; [|repeat split; congruence]].
    + intros g [<-|HinL]; [apply Hkeep; assumption|apply Hin'; assumption].
    + intros g Hg. apply Hkeep. destruct (Nat.eq_dec a g) as [<-|Hne]; [assumption|]. rewrite Hoth; assumption.
Qed.

Lemma held_all_empty' gs : (forall g gd, nth_error gs g = Some gd -> gd = empty_guard) -> held gs = [].
Proof. apply held_all_empty. Qed.

Lemma all_reset_held cfg st' : HInv cfg st' -> (forall g, g < cG cfg -> h_get st' g = Some empty_guard) ->
  held (h_guards st') = [].
Proof.
  intros Hinv Hall. apply held_all_empty. intros g gd Hg.
  assert (Hlt : g < cG cfg) by (rewrite <- (hi_len _ _ Hinv); eapply nth_error_lt; eassumption).
  specialize (Hall g Hlt). unfold h_get in Hall. congruence.
Qed.

Lemma and_weaken (P Q R : Prop) : P /\ Q -> P /\ (R -> Q).
Proof. tauto. Qed.

Theorem h_step_post cfg st op o b st' : 1 <= cK cfg -> HInv cfg st -> h_step cfg st op = (o, b, st') ->
  Post cfg st (h_target op) o st' /\ (valid_hop cfg op -> o <> Invalid).
Proof.
  intros HK Hinv Hs.
  assert (Hget : forall g, g < cG cfg -> exists gd, h_get st g = Some gd).
  { intros g Hg. unfold h_get. destruct (nth_error (h_guards st) g) eqn:E; [eexists; reflexivity|].
    apply nth_error_None in E. rewrite (hi_len _ _ Hinv) in E. lia. }
  assert (Hbad : forall tg, Post cfg st tg Invalid st) by (intros tg; split; [assumption|discriminate|discriminate]).
  destruct op as [op|]; cbn [h_step h_target valid_hop] in *;
    [|inversion Hs; subst; split; [|discriminate]; split; [|discriminate|discriminate];
      destruct Hinv as [Hp Hr Hl Hn]; split; assumption].
  destruct op as [g v m|g v m ev em|g|g v m|dst src|dst src|dst src|dst src|a b'|]; cbn [h_step_g target valid_op] in *.
  - (* acquire *)
    destruct (h_get st g) as [gd|] eqn:Hg;
      [|inversion Hs; subst; split; [apply Hbad|intros Hv; destruct (Hget g Hv); congruence]].
    destruct (v =? 0).
    { destruct (h_reset_spec cfg st g gd Hinv Hg) as (st1 & Hr & Hi1 & Hsame & _). rewrite Hr in Hs. cbn [opt_bind] in Hs.
      inversion Hs; subst. split; [|discriminate]. split; [|discriminate|discriminate].
      eapply hinv_put_same; [eassumption|eassumption|reflexivity]. }
    destruct (g_hp gd) as [s|] eqn:Hgs.
    + assert (Hin : In s (held (h_guards st))) by (apply held_In; exists g, gd; split; assumption).
      destruct (hi_ref _ _ Hinv s Hin) as [e He]. rewrite slot_at_pslot, He in Hs.
      set (c := cnt (held (h_guards st)) s) in *.
      destruct (e =? h_clock st).
      * inversion Hs; subst. split; [|discriminate]. split; [|discriminate|discriminate].
        eapply hinv_put_same; [eassumption|eassumption|rewrite Hgs; reflexivity].
      * destruct (Nat.eqb_spec c 1) as [Hc1|Hc1].
        -- unfold h_set_era in Hs. rewrite slot_at_pslot, He in Hs. cbn [opt_bind] in Hs. inversion Hs; subst.
           split; [|discriminate]. split; [|discriminate|discriminate].
           eapply hinv_put_same; [eapply hinv_set_era; eassumption|exact Hg|rewrite Hgs; reflexivity].
        -- destruct (hinv_release cfg st g gd s empty_guard Hinv Hg Hgs eq_refl)
             as (st1 & _ & Hi1 & _ & _ & _ & _ & e' & He' & Hm).
           rewrite He in He'. inversion He'; subst e'. fold c in Hm.
           assert (Hc0 : 1 <= c) by (apply cnt_In; assumption).
           assert (Hst1 : st1 = h_with_pool st (p_set s (e, pred c) (hpool st))).
           { destruct c as [|[|c']]; [lia|congruence|exact Hm]. }
           subst st1.
           apply and_weaken.
           refine (h_alloc_for_spec cfg st _ g empty_guard empty_guard v m false o b st' HK Hi1 _ eq_refl eq_refl eq_refl _ Hs).
           ++ apply h_put_get_same. cbn [h_with_pool h_guards]. eapply h_get_lt; eassumption.
           ++ intros g' Hn. rewrite h_put_get_other by assumption. reflexivity.
    + apply and_weaken. exact (h_alloc_for_spec cfg st st g gd gd v m false o b st' HK Hinv Hg Hgs eq_refl eq_refl (fun _ _ => eq_refl) Hs).
  - (* acquire_if_equal *)
    destruct (h_get st g) as [gd|] eqn:Hg;
      [|inversion Hs; subst; split; [apply Hbad|intros Hv; destruct (Hget g Hv); congruence]].
    destruct ((v =? 0) || negb ((v =? ev) && (m =? em))).
    { destruct (h_reset_spec cfg st g gd Hinv Hg) as (st1 & Hr & Hi1 & Hsame & _). rewrite Hr in Hs. cbn [opt_bind] in Hs.
      inversion Hs; subst. split; [|discriminate]. split; [|discriminate|discriminate].
      destruct ((v =? ev) && (m =? em)); [|assumption].
      eapply hinv_put_same; [eassumption|eassumption|reflexivity]. }
    destruct (g_hp gd) as [s|] eqn:Hgs.
    + assert (Hin : In s (held (h_guards st))) by (apply held_In; exists g, gd; split; assumption).
      destruct (hi_ref _ _ Hinv s Hin) as [e He]. rewrite slot_at_pslot, He in Hs.
      set (c := cnt (held (h_guards st)) s) in *.
      destruct (Nat.eqb_spec c 1) as [Hc1|Hc1].
      * unfold h_set_era in Hs. rewrite slot_at_pslot, He in Hs. cbn [opt_bind] in Hs. inversion Hs; subst.
        split; [|discriminate]. split; [|discriminate|discriminate].
        eapply hinv_put_same; [eapply hinv_set_era; eassumption|exact Hg|rewrite Hgs; reflexivity].
      * destruct (hinv_release cfg st g gd s empty_guard Hinv Hg Hgs eq_refl)
          as (st1 & _ & Hi1 & _ & _ & _ & _ & e' & He' & Hm).
        rewrite He in He'. inversion He'; subst e'. fold c in Hm.
        assert (Hc0 : 1 <= c) by (apply cnt_In; assumption).
        assert (Hst1 : st1 = h_with_pool st (p_set s (e, pred c) (hpool st))).
        { destruct c as [|[|c']]; [lia|congruence|exact Hm]. }
        subst st1.
        apply and_weaken.
        refine (h_alloc_for_spec cfg st _ g empty_guard empty_guard v m true o b st' HK Hi1 _ eq_refl eq_refl eq_refl _ Hs).
        -- apply h_put_get_same. cbn [h_with_pool h_guards]. eapply h_get_lt; eassumption.
        -- intros g' Hn. rewrite h_put_get_other by assumption. reflexivity.
    + apply and_weaken. exact (h_alloc_for_spec cfg st st g gd gd v m true o b st' HK Hinv Hg Hgs eq_refl eq_refl (fun _ _ => eq_refl) Hs).
  - (* reset *)
    destruct (h_get st g) as [gd|] eqn:Hg;
      [|inversion Hs; subst; split; [apply Hbad|intros Hv; destruct (Hget g Hv); congruence]].
    destruct (h_reset_spec cfg st g gd Hinv Hg) as (st1 & Hr & Hi1 & _). rewrite Hr in Hs. cbn [opt_bind] in Hs.
    inversion Hs; subst. split; [|discriminate]. split; [assumption|discriminate|discriminate].
  - (* guard_ptr(p) *)
    destruct (h_get st g) as [gd|] eqn:Hg;
      [|inversion Hs; subst; split; [apply Hbad|intros Hv; destruct (Hget g Hv); congruence]].
    destruct (h_reset_spec cfg st g gd Hinv Hg) as (st1 & Hr & Hi1 & Hsame & Hoth & _). rewrite Hr in Hs. cbn [opt_bind] in Hs.
    destruct (h_construct cfg st1 g v m) as [o' st''] eqn:Hc. inversion Hs; subst.
    destruct (h_construct_spec cfg st st1 g v m o st' HK Hi1 Hsame Hoth Hc) as [HP Hni]. split; [assumption|intros _; assumption].
  - (* copy constructor *)
    destruct (h_get st dst) as [dd|] eqn:Hd;
      [|inversion Hs; subst; split; [apply Hbad|intros (Hv & _); destruct (Hget dst Hv); congruence]].
    destruct (h_get st src) as [sd|] eqn:Hsrc;
      [|inversion Hs; subst; split; [apply Hbad|intros (_ & Hv & _); destruct (Hget src Hv); congruence]].
    destruct (Nat.eqb_spec dst src) as [E|Hne]; [inversion Hs; subst; split; [apply Hbad|intros (_ & _ & ?); contradiction]|].
    destruct (h_reset_spec cfg st dst dd Hinv Hd) as (st1 & Hr & Hi1 & Hsame & Hoth & _). rewrite Hr in Hs. cbn [opt_bind] in Hs.
    assert (Hsrc1 : h_get st1 src = Some sd) by (rewrite Hoth; assumption).
    destruct (h_share_spec cfg st1 dst src empty_guard sd Hi1 Hne Hsame eq_refl Hsrc1) as (st2 & Hsh & Hi2).
    rewrite Hsh in Hs. inversion Hs; subst. split; [|discriminate]. split; [assumption|discriminate|discriminate].
  - (* move constructor *)
    destruct (h_get st dst) as [dd|] eqn:Hd;
      [|inversion Hs; subst; split; [apply Hbad|intros (Hv & _); destruct (Hget dst Hv); congruence]].
    destruct (h_get st src) as [sd|] eqn:Hsrc;
      [|inversion Hs; subst; split; [apply Hbad|intros (_ & Hv & _); destruct (Hget src Hv); congruence]].
    destruct (Nat.eqb_spec dst src) as [E|Hne]; [inversion Hs; subst; split; [apply Hbad|intros (_ & _ & ?); contradiction]|].
    destruct (h_reset_spec cfg st dst dd Hinv Hd) as (st1 & Hr & Hi1 & Hsame & Hoth & _). rewrite Hr in Hs. cbn [opt_bind] in Hs.
    assert (Hsrc1 : h_get st1 src = Some sd) by (rewrite Hoth; assumption).
    inversion Hs; subst. split; [|discriminate]. split; [|discriminate|discriminate].
    eapply h_move_inv; try eassumption. reflexivity.
  - (* copy assignment *)
    destruct (h_get st dst) as [dd|] eqn:Hd;
      [|inversion Hs; subst; split; [apply Hbad|intros (Hv & _); destruct (Hget dst Hv); congruence]].
    destruct (h_get st src) as [sd|] eqn:Hsrc;
      [|inversion Hs; subst; split; [apply Hbad|intros (_ & Hv); destruct (Hget src Hv); congruence]].
    destruct (Nat.eqb_spec dst src) as [E|Hne];
      [inversion Hs; subst; split; [|discriminate]; split; [assumption|discriminate|discriminate]|].
    destruct (h_reset_spec cfg st dst dd Hinv Hd) as (st1 & Hr & Hi1 & Hsame & Hoth & _). rewrite Hr in Hs. cbn [opt_bind] in Hs.
    assert (Hsrc1 : h_get st1 src = Some sd) by (rewrite Hoth; assumption).
    destruct (h_share_spec cfg st1 dst src empty_guard sd Hi1 Hne Hsame eq_refl Hsrc1) as (st2 & Hsh & Hi2).
    rewrite Hsh in Hs. inversion Hs; subst. split; [|discriminate]. split; [assumption|discriminate|discriminate].
  - (* move assignment *)
    destruct (h_get st dst) as [dd|] eqn:Hd;
      [|inversion Hs; subst; split; [apply Hbad|intros (Hv & _); destruct (Hget dst Hv); congruence]].
    destruct (h_get st src) as [sd|] eqn:Hsrc;
      [|inversion Hs; subst; split; [apply Hbad|intros (_ & Hv); destruct (Hget src Hv); congruence]].
    destruct (Nat.eqb_spec dst src) as [E|Hne];
      [inversion Hs; subst; split; [|discriminate]; split; [assumption|discriminate|discriminate]|].
    destruct (h_reset_spec cfg st dst dd Hinv Hd) as (st1 & Hr & Hi1 & Hsame & Hoth & _). rewrite Hr in Hs. cbn [opt_bind] in Hs.
    assert (Hsrc1 : h_get st1 src = Some sd) by (rewrite Hoth; assumption).
    inversion Hs; subst. split; [|discriminate]. split; [|discriminate|discriminate].
    eapply h_move_inv; try eassumption. reflexivity.
  - (* swap *)
    destruct (h_get st a) as [ga|] eqn:Ha;
      [|inversion Hs; subst; split; [apply Hbad|intros (Hv & _); destruct (Hget a Hv); congruence]].
    destruct (h_get st b') as [gb|] eqn:Hb;
      [|inversion Hs; subst; split; [apply Hbad|intros (_ & Hv); destruct (Hget b' Hv); congruence]].
    inversion Hs; subst. split; [|discriminate]. split; [|discriminate|discriminate]. apply h_swap_inv; assumption.
  - (* thread exit *)
    destruct (h_reset_all_spec cfg (rev (seq 0 (length (h_guards st)))) st Hinv) as (st1 & Hr & Hi1 & Hin & _ & _ & _ & _).
    { intros g Hg. apply in_rev, in_seq in Hg. rewrite (hi_len _ _ Hinv) in Hg. lia. }
    rewrite Hr in Hs. cbn [opt_bind] in Hs. inversion Hs; subst. split; [|discriminate]. split; [|discriminate|discriminate].
    assert (Hheld : held (h_guards st1) = []).
    { apply (all_reset_held cfg st1 Hi1). intros g Hg. apply Hin. apply -> in_rev. apply in_seq.
      rewrite (hi_len _ _ Hinv). lia. }
    split; cbn [hpool h_guards h_last].
    + unfold used. rewrite Hheld. cbn [nodup].
      apply pool_init; [assumption|apply (pi_blocks _ _ _ (hi_pool _ _ Hi1))|apply (pi_static _ _ _ (hi_pool _ _ Hi1))].
    + rewrite Hheld. intros s [].
    + intros l Hl. apply (hi_last _ _ Hi1). assumption.
    + apply (hi_len _ _ Hi1).
Qed.

(** * pointer and era of a guard go together *)
(** (repaired code) a guard has a hazard era iff its pointer is non-null: acquire of a (marked) null pointer releases the
    era, and a guard that gives up a shared era before a throwing allocation also drops its pointer *)
Definition gok (gd : guard) : Prop := (g_hp gd = None -> g_ptr gd = 0) /\ (forall s, g_hp gd = Some s -> g_ptr gd <> 0).
Definition GOkL (gs : list guard) : Prop := forall g gd, nth_error gs g = Some gd -> gok gd.
Definition GOk (st : hstate) : Prop := GOkL (h_guards st).

Lemma gok_empty : gok empty_guard.
Proof. split; [reflexivity|discriminate]. Qed.

Lemma gok_null m v : v = 0 -> gok (mk_guard None v m).
Proof. intros ->. split; [reflexivity|discriminate]. Qed.

Lemma gok_some s v m : v <> 0 -> gok (mk_guard (Some s) v m).
Proof. intros Hv. split; [discriminate|intros; assumption]. Qed.

Lemma gokl_set_nth gs g x : GOkL gs -> gok x -> GOkL (set_nth g x gs).
Proof.
  intros Hall Hx g' gd Hg. rewrite nth_error_set_nth in Hg.
  destruct ((g =? g') && (g <? length gs)); [inversion Hg; subst; assumption|eapply Hall; eassumption].
Qed.

Lemma gok_put st g x : GOk st -> gok x -> GOk (h_put st g x).
Proof. intros H Hx. unfold GOk, h_put. cbn [h_with_guards h_guards]. apply gokl_set_nth; assumption. Qed.

Lemma gok_guards st st1 : h_guards st1 = h_guards st -> GOk st -> GOk st1.
Proof. unfold GOk. intros ->. auto. Qed.

Lemma he_release_guards st s st1 : he_release st s = Some st1 -> h_guards st1 = h_guards st.
Proof.
  unfold he_release. destruct (slot_at st s) as [[e [|[|c]]]|]; intros E; inversion E; reflexivity.
Qed.

Lemma he_alloc_guards cfg st era s st1 : he_alloc cfg st era = HOk s st1 -> h_guards st1 = h_guards st.
Proof.
  unfold he_alloc.
  assert (Hf : match p_alloc cfg (hpool st) with
               | AOk i p => HOk i {| hpool := p_set i (era, 1) p; h_last := Some i; h_last_era := era;
                                     h_clock := h_clock st; h_guards := h_guards st |}
               | AExh => HExh | ACorrupt => HCorrupt end = HOk s st1 -> h_guards st1 = h_guards st).
  { destruct (p_alloc cfg (hpool st)); intros E; inversion E; reflexivity. }
  destruct (h_last st) as [l|]; [|exact Hf]. destruct (h_last_era st =? era); [|exact Hf].
  destruct (slot_at st l) as [[e c]|]; intros E; inversion E; reflexivity.
Qed.

Lemma h_reset_gok st g st1 : GOk st -> h_reset st g = Some st1 -> GOk st1.
Proof.
  intros Hg. unfold h_reset. destruct (h_get st g) as [gd|]; [|intros E; inversion E; subst; assumption].
  destruct (g_hp gd) as [s|].
  - destruct (he_release st s) as [st2|] eqn:Er; [|discriminate]. intros E; inversion E; subst.
    apply gok_put; [|apply gok_empty]. eapply gok_guards; [eapply he_release_guards; eassumption|assumption].
  - intros E; inversion E; subst. apply gok_put; [assumption|apply gok_empty].
Qed.

Lemma h_reset_all_gok : forall L st st1, GOk st -> h_reset_all st L = Some st1 -> GOk st1.
Proof.
  induction L as [|a L IH]; intros st st1 Hg; cbn [h_reset_all]; [intros E; inversion E; subst; assumption|].
  destruct (h_reset st a) as [st2|] eqn:Er; [|discriminate]. apply IH. eapply h_reset_gok; eassumption.
Qed.

Lemma h_alloc_for_gok cfg st g old v m ret o b st' : GOk st -> g_ptr old = 0 -> v <> 0 ->
  h_alloc_for cfg st g old v m ret = (o, b, st') -> GOk st'.
Proof.
  intros Hg Ho Hv. unfold h_alloc_for. destruct (he_alloc cfg st (h_clock st)) as [s st1| |] eqn:Ea; intros E; inversion E; subst.
  - apply gok_put; [|apply gok_some; assumption]. eapply gok_guards; [eapply he_alloc_guards; eassumption|assumption].
  - apply gok_put; [assumption|apply gok_null; assumption].
  - assumption.
Qed.

Lemma h_construct_gok cfg st g v m o st' : GOk st -> h_construct cfg st g v m = (o, st') -> GOk st'.
Proof.
  intros Hg. unfold h_construct. destruct (Nat.eqb_spec v 0) as [Hv|Hv].
  - intros E; inversion E; subst. apply gok_put; [assumption|apply gok_null; reflexivity].
  - destruct (he_alloc cfg st (h_clock st)) as [s st1| |] eqn:Ea; intros E; inversion E; subst; try assumption.
    apply gok_put; [|apply gok_some; assumption]. eapply gok_guards; [eapply he_alloc_guards; eassumption|assumption].
Qed.

Lemma h_share_gok st g sd o st' : GOk st -> gok sd -> h_share st g sd = (o, st') -> GOk st'.
Proof.
  intros Hg Hsd. unfold h_share. destruct (g_hp sd) as [s|] eqn:Hs.
  - destruct (slot_at st s) as [[e c]|]; intros E; inversion E; subst; [|assumption].
    apply gok_put; [|assumption]. eapply gok_guards; [|exact Hg]. reflexivity.
  - intros E; inversion E; subst. apply gok_put; [assumption|]. apply gok_null. apply (proj1 Hsd). assumption.
Qed.

Lemma gok_with_pool st p : GOk st -> GOk (h_with_pool st p).
Proof. intros H. exact H. Qed.

Theorem h_step_gok cfg st op o b st' : GOk st -> h_step cfg st op = (o, b, st') -> GOk st'.
Proof.
  intros Hg Hs. destruct op as [op|]; cbn [h_step] in Hs; [|inversion Hs; subst; exact Hg].
  assert (Hgd : forall g gd, h_get st g = Some gd -> gok gd) by (intros g gd E; eapply Hg; exact E).
  destruct op as [g v m|g v m ev em|g|g v m|dst src|dst src|dst src|dst src|a b'|]; cbn [h_step_g] in Hs.
  - destruct (h_get st g) as [gd|] eqn:Eg; [|inversion Hs; subst; assumption].
    destruct (Nat.eqb_spec v 0) as [Hv|Hv].
    { destruct (h_reset st g) as [st1|] eqn:Er; cbn [opt_bind] in Hs; inversion Hs; subst; [|assumption].
      apply gok_put; [eapply h_reset_gok; eassumption|apply gok_null; reflexivity]. }
    destruct (g_hp gd) as [s|] eqn:Egs.
    + destruct (slot_at st s) as [[e c]|]; [|inversion Hs; subst; assumption].
      destruct (e =? h_clock st); [inversion Hs; subst; apply gok_put; [assumption|apply gok_some; assumption]|].
      destruct (c =? 1).
      * unfold h_set_era in Hs. destruct (slot_at st s) as [[e' c']|]; cbn [opt_bind] in Hs; inversion Hs; subst; [|assumption].
        apply gok_put; [apply gok_with_pool; assumption|apply gok_some; assumption].
      * eapply h_alloc_for_gok; [| |exact Hv|exact Hs]; [|reflexivity].
        apply gok_put; [apply gok_with_pool; assumption|apply gok_empty].
    + eapply h_alloc_for_gok; [exact Hg| |exact Hv|exact Hs]. apply (proj1 (Hgd g gd Eg)). assumption.
  - destruct (h_get st g) as [gd|] eqn:Eg; [|inversion Hs; subst; assumption].
    destruct (Nat.eqb_spec v 0) as [Hv|Hv]; cbn [orb] in Hs.
    { destruct (h_reset st g) as [st1|] eqn:Er; cbn [opt_bind] in Hs; inversion Hs; subst; [|assumption].
      pose proof (h_reset_gok st g st1 Hg Er) as H1.
      destruct ((0 =? ev) && (m =? em)); [apply gok_put; [assumption|apply gok_null; reflexivity]|assumption]. }
    destruct (negb ((v =? ev) && (m =? em))) eqn:En.
    { destruct (h_reset st g) as [st1|] eqn:Er; cbn [opt_bind] in Hs; inversion Hs; subst; [|assumption].
      destruct ((v =? ev) && (m =? em)); [discriminate|]. eapply h_reset_gok; eassumption. }
    destruct (g_hp gd) as [s|] eqn:Egs.
    + destruct (slot_at st s) as [[e c]|]; [|inversion Hs; subst; assumption].
      destruct (c =? 1).
      * unfold h_set_era in Hs. destruct (slot_at st s) as [[e' c']|]; cbn [opt_bind] in Hs; inversion Hs; subst; [|assumption].
        apply gok_put; [apply gok_with_pool; assumption|apply gok_some; assumption].
      * eapply h_alloc_for_gok; [| |exact Hv|exact Hs]; [|reflexivity].
        apply gok_put; [apply gok_with_pool; assumption|apply gok_empty].
    + eapply h_alloc_for_gok; [exact Hg| |exact Hv|exact Hs]. apply (proj1 (Hgd g gd Eg)). assumption.
  - destruct (h_get st g) as [gd|]; [|inversion Hs; subst; assumption].
    destruct (h_reset st g) as [st1|] eqn:Er; cbn [opt_bind] in Hs; inversion Hs; subst; [|assumption].
    eapply h_reset_gok; eassumption.
  - destruct (h_get st g) as [gd|]; [|inversion Hs; subst; assumption].
    destruct (h_reset st g) as [st1|] eqn:Er; cbn [opt_bind] in Hs; [|inversion Hs; subst; assumption].
    destruct (h_construct cfg st1 g v m) as [o' st''] eqn:Ec. inversion Hs; subst.
    eapply h_construct_gok; [eapply h_reset_gok; eassumption|eassumption].
  - destruct (h_get st dst) as [dd|]; [|inversion Hs; subst; assumption].
    destruct (h_get st src) as [sd|] eqn:Es; [|inversion Hs; subst; assumption].
    destruct (dst =? src); [inversion Hs; subst; assumption|].
    destruct (h_reset st dst) as [st1|] eqn:Er; cbn [opt_bind] in Hs; [|inversion Hs; subst; assumption].
    destruct (h_share st1 dst sd) as [o' st''] eqn:Ec. inversion Hs; subst.
    eapply h_share_gok; [eapply h_reset_gok; eassumption|eapply Hgd; eassumption|eassumption].
  - destruct (h_get st dst) as [dd|]; [|inversion Hs; subst; assumption].
    destruct (h_get st src) as [sd|] eqn:Es; [|inversion Hs; subst; assumption].
    destruct (dst =? src); [inversion Hs; subst; assumption|].
    destruct (h_reset st dst) as [st1|] eqn:Er; cbn [opt_bind] in Hs; inversion Hs; subst; [|assumption].
    apply gok_put; [apply gok_put; [eapply h_reset_gok; eassumption|eapply Hgd; eassumption]|apply gok_empty].
  - destruct (h_get st dst) as [dd|]; [|inversion Hs; subst; assumption].
    destruct (h_get st src) as [sd|] eqn:Es; [|inversion Hs; subst; assumption].
    destruct (dst =? src); [inversion Hs; subst; assumption|].
    destruct (h_reset st dst) as [st1|] eqn:Er; cbn [opt_bind] in Hs; [|inversion Hs; subst; assumption].
    destruct (h_share st1 dst sd) as [o' st''] eqn:Ec. inversion Hs; subst.
    eapply h_share_gok; [eapply h_reset_gok; eassumption|eapply Hgd; eassumption|eassumption].
  - destruct (h_get st dst) as [dd|]; [|inversion Hs; subst; assumption].
    destruct (h_get st src) as [sd|] eqn:Es; [|inversion Hs; subst; assumption].
    destruct (dst =? src); [inversion Hs; subst; assumption|].
    destruct (h_reset st dst) as [st1|] eqn:Er; cbn [opt_bind] in Hs; inversion Hs; subst; [|assumption].
    apply gok_put; [apply gok_put; [eapply h_reset_gok; eassumption|eapply Hgd; eassumption]|apply gok_empty].
  - destruct (h_get st a) as [ga|] eqn:Ea; [|inversion Hs; subst; assumption].
    destruct (h_get st b') as [gb|] eqn:Eb; [|inversion Hs; subst; assumption].
    inversion Hs; subst. apply gok_put; [apply gok_put; [assumption|eapply Hgd; eassumption]|eapply Hgd; eassumption].
  - destruct (h_reset_all st (rev (seq 0 (length (h_guards st))))) as [st1|] eqn:Er; cbn [opt_bind] in Hs; inversion Hs; subst;
      [|assumption].
    eapply gok_guards; [|eapply h_reset_all_gok; eassumption]. reflexivity.
Qed.

Lemma gok_init cfg : GOk (h_init cfg).
Proof. intros g gd Hg. cbn [h_init h_guards] in Hg. apply nth_error_repeat in Hg. subst. apply gok_empty. Qed.

(** * every operation sequence *)
Definition h_outcome_of (cfg : config) (st : hstate) (op : hop) : outcome := fst (fst (h_step cfg st op)).
Definition h_state_after (cfg : config) (st : hstate) (op : hop) : hstate := snd (h_step cfg st op).

Lemma h_state_after_inv cfg st op : 1 <= cK cfg -> HInv cfg st -> HInv cfg (h_state_after cfg st op).
Proof.
  intros HK Hinv. unfold h_state_after. destruct (h_step cfg st op) as [[o b] s] eqn:E.
  apply (po_inv _ _ _ _ _ (proj1 (h_step_post cfg st op o b s HK Hinv E))).
Qed.

Lemma h_run_from_cons cfg st op r :
  h_run_from cfg st (op :: r) =
  (h_observe (h_outcome_of cfg st op) (snd (fst (h_step cfg st op))) (h_state_after cfg st op)
     :: fst (h_run_from cfg (h_state_after cfg st op) r),
   snd (h_run_from cfg (h_state_after cfg st op) r)).
Proof.
  cbn [h_run_from]. unfold h_outcome_of, h_state_after. destruct (h_step cfg st op) as [[o b] st']. cbn [fst snd].
  destruct (h_run_from cfg st' r); reflexivity.
Qed.

Lemma h_run_from_inv cfg : 1 <= cK cfg -> forall ops st, HInv cfg st -> HInv cfg (snd (h_run_from cfg st ops)).
Proof.
  intros HK. induction ops as [|op r IH]; intros st Hinv; [assumption|].
  rewrite h_run_from_cons. cbn [snd]. apply IH. apply h_state_after_inv; assumption.
Qed.

Theorem h_run_inv cfg ops : 1 <= cK cfg -> HInv cfg (snd (h_run cfg ops)).
Proof. intros HK. apply h_run_from_inv; [assumption|apply hinv_init; assumption]. Qed.

Lemma h_run_from_Forall cfg (Q : hop -> Prop) (P : outcome -> Prop) : 1 <= cK cfg ->
  (forall st op, HInv cfg st -> Q op -> P (h_outcome_of cfg st op)) ->
  forall ops st, HInv cfg st -> Forall Q ops -> Forall (fun o => P (ho_res o)) (fst (h_run_from cfg st ops)).
Proof.
  intros HK Hstep. induction ops as [|op r IH]; intros st Hinv HQ; [constructor|].
  rewrite h_run_from_cons. cbn [fst]. inversion HQ; subst. constructor.
  - cbn [h_observe ho_res]. apply Hstep; assumption.
  - apply IH; [|assumption]. apply h_state_after_inv; assumption.
Qed.

Lemma pslot_nth p s ec : pslot p s = Some ec -> nth_error (slots p) s = Some (Obj ec).
Proof. unfold pslot. destruct (nth_error (slots p) s) as [[nx|a]|]; try discriminate. intros E. inversion E. reflexivity. Qed.

Definition HFacts (cfg : config) (st : hstate) : Prop :=
  let fl := free_list (hpool st) in
  let H := held (h_guards st) in                       (* the slot of every guard that has one (with repetitions) *)
  let n := length (slots (hpool st)) in
  (* the free list is a duplicate free chain of link slots that enumerates exactly the slots no guard refers to *)
  chain (slots (hpool st)) (hint (hpool st)) fl /\ NoDup fl /\
  (forall i, In i fl <-> i < n /\ ~ In i H) /\
  (forall i, In i H -> i < n) /\
  (* a slot that guards refer to holds an era and its guard_cnt is the number of guards that refer to it *)
  (forall s, In s H -> exists e, nth_error (slots (hpool st)) s = Some (Obj (e, cnt H s))) /\
  Permutation (fl ++ used (h_guards st)) (seq 0 n) /\ length (used (h_guards st)) + length fl = n /\
  (* the cache refers to a slot that is in use *)
  (forall l, h_last st = Some l -> In l H) /\
  n = cK cfg + list_sum (blocks (hpool st)) /\ (cDyn cfg = false -> n = cK cfg) /\
  length (h_guards st) = cG cfg.

Lemma hinv_facts cfg st : HInv cfg st -> HFacts cfg st.
Proof.
  intros [Hp Hr Hl Hn]. destruct (pool_free_list _ _ _ Hp) as [Hc Hcnt].
  pose proof (pool_perm _ _ _ Hp) as Hperm.
  unfold HFacts. repeat split.
  - exact Hc.
  - apply (NoDup_count_occ Nat.eq_dec). intros x. specialize (Hcnt x). destruct (x <? length (slots (hpool st))); lia.
  - eapply chain_lt; eassumption.
  - intros Hin. apply cnt_In in H. apply cnt_In in Hin. specialize (Hcnt i). rewrite cnt_used in Hcnt.
    destruct (i <? length (slots (hpool st))); lia.
  - intros [Hlt Hnin]. apply cnt_In. apply cnt_notIn in Hnin. specialize (Hcnt i). rewrite cnt_used in Hcnt.
    destruct (Nat.ltb_spec i (length (slots (hpool st)))); lia.
  - intros i Hin. eapply pool_used_lt; [exact Hp|]. unfold used. apply nodup_In. assumption.
  - intros s Hin. destruct (Hr s Hin) as [e He]. exists e. apply pslot_nth. assumption.
  - exact Hperm.
  - pose proof (pool_used_length _ _ _ Hp). lia.
  - exact Hl.
  - apply (pi_total _ _ _ Hp).
  - intros Hs. rewrite (pi_total _ _ _ Hp), (pi_static _ _ _ Hp Hs). cbn. lia.
  - exact Hn.
Qed.

Theorem he_slots_invariant cfg ops : 1 <= cK cfg -> HFacts cfg (snd (h_run cfg ops)).
Proof. intros HK. apply hinv_facts, h_run_inv. assumption. Qed.

Example ex_he_slots_invariant :
  let cfg := {| cK := 2; cDyn := false; cG := 4 |} in
  let st := snd (h_run cfg [HOp (GAcquire 0 7 0); HOp (GCopyCtor 1 0); HTick; HOp (GAcquire 2 8 0); HOp (GCopyAssign 3 2);
                            HOp (GReset 0)]) in
  free_list (hpool st) = [] /\ held (h_guards st) = [0; 1; 1] /\ used (h_guards st) = [0; 1] /\
  slots (hpool st) = [Obj (1, 1); Obj (2, 2)] /\ h_last st = Some 1.
Proof. vm_compute. repeat split. Qed.

(** no operation of a valid sequence is ever [Invalid]: no guard_cnt underflow, no release of a free slot (double
    release), no get_link of a slot in use *)
Theorem he_never_invalid cfg ops : 1 <= cK cfg -> Forall (valid_hop cfg) ops ->
  Forall (fun o => ho_res o <> Invalid) (fst (h_run cfg ops)).
Proof.
  intros HK. apply (h_run_from_Forall cfg (valid_hop cfg) (fun o => o <> Invalid) HK); [|apply hinv_init; assumption].
  intros st op Hinv Hv. unfold h_outcome_of. destruct (h_step cfg st op) as [[o b] s] eqn:E.
  apply (proj2 (h_step_post cfg st op o b s HK Hinv E)). assumption.
Qed.

(** exhaustion is reported only by the static strategy and only when every one of the K slots is referenced by a guard;
    the other guards are untouched, the asking guard has no era afterwards *)
Theorem he_exhausted_preserves_existing cfg ops op : 1 <= cK cfg ->
  let st := snd (h_run cfg ops) in
  h_outcome_of cfg st op = Exhausted ->
  let st' := h_state_after cfg st op in
  cDyn cfg = false /\ free_list (hpool st') = [] /\ length (used (h_guards st')) = cK cfg /\
  (forall g', h_target op <> g' -> h_get st' g' = h_get st g') /\
  (exists gd', h_get st' (h_target op) = Some gd' /\ g_hp gd' = None) /\
  HFacts cfg st'.
Proof.
  intros HK st Hexh st'. subst st'. unfold h_outcome_of, h_state_after in *.
  pose proof (h_run_inv cfg ops HK) as Hinv. fold st in Hinv.
  destruct (h_step cfg st op) as [[o b] s] eqn:E. cbn [fst snd] in *. subst o.
  destruct (h_step_post cfg st op Exhausted b s HK Hinv E) as [[Hi He _] _].
  destruct (He eq_refl) as (Hs & Hfl & Hoth & Htg).
  split; [assumption|]. split; [assumption|]. split; [|split; [assumption|split; [assumption|apply hinv_facts; assumption]]].
  pose proof (hinv_facts _ _ Hi) as F. unfold HFacts in F. destruct F as (_ & _ & _ & _ & _ & _ & Hlen & _ & _ & Hst & _).
  rewrite Hfl in Hlen. cbn [length] in Hlen. rewrite (Hst Hs) in Hlen. lia.
Qed.

Theorem he_dynamic_never_exhausted cfg ops : 1 <= cK cfg -> cDyn cfg = true ->
  Forall (fun o => ho_res o <> Exhausted) (fst (h_run cfg ops)).
Proof.
  intros HK Hd.
  assert (H : Forall (fun _ : hop => True) ops) by (apply Forall_forall; trivial).
  revert H. apply (h_run_from_Forall cfg (fun _ => True) (fun o => o <> Exhausted) HK); [|apply hinv_init; assumption].
  intros st op Hinv _. unfold h_outcome_of. destruct (h_step cfg st op) as [[o b] s] eqn:E.
  apply (po_dyn _ _ _ _ _ (proj1 (h_step_post cfg st op o b s HK Hinv E))). assumption.
Qed.

(** after all guards were reset every slot is free again and the cache is empty *)
Definition h_reset_ops (cfg : config) : list hop := map (fun g => HOp (GReset g)) (seq 0 (cG cfg)).

Lemma h_reset_list cfg : 1 <= cK cfg -> forall L st, HInv cfg st -> (forall g, In g L -> g < cG cfg) ->
  let st' := snd (h_run_from cfg st (map (fun g => HOp (GReset g)) L)) in
  HInv cfg st' /\ (forall g, In g L -> h_get st' g = Some empty_guard) /\
  (forall g, h_get st g = Some empty_guard -> h_get st' g = Some empty_guard) /\
  length (slots (hpool st')) = length (slots (hpool st)).
Proof.
  intros HK. induction L as [|a L IH]; intros st Hinv Hlt st'; subst st'.
  - cbn [map h_run_from snd]. split; [assumption|]. split; [intros g []|]. split; [auto|reflexivity].
  - cbn [map]. rewrite h_run_from_cons. cbn [snd].
    assert (Hex : exists gd, h_get st a = Some gd).
    { unfold h_get. destruct (nth_error (h_guards st) a) eqn:E; [eexists; reflexivity|].
      apply nth_error_None in E. rewrite (hi_len _ _ Hinv) in E. specialize (Hlt a (or_introl eq_refl)). lia. }
    destruct Hex as [gd Hgd].
    destruct (h_reset_spec cfg st a gd Hinv Hgd) as (st1 & Hr & Hi1 & Hsame & Hoth & _ & _ & Hlen & _).
    assert (Hst : h_state_after cfg st (HOp (GReset a)) = st1).
    { unfold h_state_after. cbn [h_step h_step_g]. rewrite Hgd, Hr. reflexivity. }
    rewrite Hst. destruct (IH st1 Hi1 (fun g Hg => Hlt g (or_intror Hg))) as (Hi & Hin & Hkeep & Hlen').
    split; [assumption|]. split; [|split].
    + intros g [<-|HinL]; [apply Hkeep; assumption|apply Hin; assumption].
    + intros g Hg. apply Hkeep. destruct (Nat.eq_dec a g) as [<-|Hne]; [assumption|]. rewrite Hoth; assumption.
    + congruence.
Qed.

Theorem he_no_leak cfg ops : 1 <= cK cfg ->
  let st := snd (h_run cfg ops) in
  let st' := snd (h_run_from cfg st (h_reset_ops cfg)) in
  held (h_guards st') = [] /\ h_last st' = None /\
  length (slots (hpool st')) = length (slots (hpool st)) /\
  Permutation (free_list (hpool st')) (seq 0 (length (slots (hpool st')))) /\
  length (free_list (hpool st')) = length (slots (hpool st)).
Proof.
  intros HK st st'. subst st'. unfold h_reset_ops.
  pose proof (h_run_inv cfg ops HK) as Hinv. fold st in Hinv.
  destruct (h_reset_list cfg HK (seq 0 (cG cfg)) st Hinv) as (Hi & Hin & _ & Hlen).
  { intros g Hg. apply in_seq in Hg. lia. }
  set (st' := snd (h_run_from cfg st (map (fun g => HOp (GReset g)) (seq 0 (cG cfg))))) in *.
  assert (Hheld : held (h_guards st') = []).
  { apply (all_reset_held cfg st' Hi). intros g Hg. apply Hin. apply in_seq. lia. }
  pose proof (pool_perm _ _ _ (hi_pool _ _ Hi)) as Hp. unfold used in Hp. rewrite Hheld in Hp. cbn [nodup] in Hp. rewrite app_nil_r in Hp.
  split; [assumption|]. split.
  { destruct (h_last st') as [l|] eqn:El; [|reflexivity]. pose proof (hi_last _ _ Hi l El) as Hl. rewrite Hheld in Hl. destruct Hl. }
  split; [assumption|]. split; [assumption|].
  apply Permutation_length in Hp. rewrite seq_length in Hp. congruence.
Qed.

Example ex_he_no_leak :
  let cfg := {| cK := 2; cDyn := false; cG := 4 |} in
  let ops := [HOp (GAcquire 0 7 0); HOp (GCopyCtor 1 0); HTick; HOp (GAcquire 2 8 0); HOp (GCopyAssign 3 2); HTick;
              HOp (GAcquire 1 9 0)] in
  map ho_res (fst (h_run cfg ops)) = [Ok; Ok; Ok; Ok; Ok; Ok; Exhausted] /\
  map ho_cnt (fst (h_run_from cfg (snd (h_run cfg ops)) (h_reset_ops cfg))) = [[0; 2]; [0; 2]; [0; 1]; [0; 0]] /\
  free_list (hpool (snd (h_run_from cfg (snd (h_run cfg ops)) (h_reset_ops cfg)))) = [1; 0].
Proof. vm_compute. repeat split. Qed.

(** * What hazard_eras does differently from hazard_pointer (all confirmed on the compiled code by the differential run) *)

(** copies share the slot: with K = 1 any number of guards can be held as long as the era does not change *)
Example ex_he_copies_share :
  let cfg := {| cK := 1; cDyn := false; cG := 4 |} in
  let r := h_run cfg [HOp (GAcquire 0 1 0); HOp (GCopyCtor 1 0); HOp (GCopyAssign 2 1); HOp (GAcquire 3 2 0)] in
  map ho_res (fst r) = [Ok; Ok; Ok; Ok] /\ map g_hp (h_guards (snd r)) = [Some 0; Some 0; Some 0; Some 0] /\
  slots (hpool (snd r)) = [Obj (1, 4)].
Proof. vm_compute. repeat split. Qed.

(** * pointer and era go together, for every operation sequence *)
Lemma h_state_after_gok cfg st op : GOk st -> GOk (h_state_after cfg st op).
Proof.
  intros Hg. unfold h_state_after. destruct (h_step cfg st op) as [[o b] s] eqn:E. eapply h_step_gok; eassumption.
Qed.

Lemma h_run_from_gok cfg : forall ops st, GOk st -> GOk (snd (h_run_from cfg st ops)).
Proof.
  induction ops as [|op r IH]; intros st Hg; [assumption|].
  rewrite h_run_from_cons. cbn [snd]. apply IH. apply h_state_after_gok; assumption.
Qed.

Theorem he_pointer_iff_era cfg ops g gd : h_get (snd (h_run cfg ops)) g = Some gd ->
  (g_hp gd = None <-> g_ptr gd = 0).
Proof.
  intros Hg. pose proof (h_run_from_gok cfg ops (h_init cfg) (gok_init cfg)) as H. destruct (H g gd Hg) as [H1 H2]. split; [assumption|].
  intros Hz. destruct (g_hp gd) as [s|] eqn:E; [|reflexivity]. exfalso. exact (H2 s eq_refl Hz).
Qed.

(** (repaired code; before the repair these were the refuted lemmas [he_exhausted_leaves_guard_empty_refuted] and
    [he_K_protecting_guards_next_to_null_guard_refuted])
    After an Exhausted operation the asking guard has no era and a null pointer, all other guards are unchanged. *)
Theorem he_exhausted_leaves_guard_empty cfg ops op : 1 <= cK cfg ->
  let st := snd (h_run cfg ops) in
  h_outcome_of cfg st op = Exhausted ->
  let st' := h_state_after cfg st op in
  (exists gd', h_get st' (h_target op) = Some gd' /\ g_hp gd' = None /\ g_ptr gd' = 0) /\
  (forall g', h_target op <> g' -> h_get st' g' = h_get st g').
Proof.
  intros HK st Hexh st'.
  destruct (he_exhausted_preserves_existing cfg ops op HK Hexh) as (_ & _ & _ & Hoth & (gd' & Hg' & Hn) & _).
  fold st st' in Hoth, Hg'. split; [|assumption]. exists gd'. split; [assumption|]. split; [assumption|].
  assert (HG : GOk st') by (apply h_state_after_gok; apply h_run_from_gok; apply gok_init).
  apply (proj1 (HG _ _ Hg')). assumption.
Qed.

(** an acquisition throws only if every one of the K slots is referenced by a guard whose pointer is non-null;
    guards with a null (or marked null) pointer hold no era *)
Theorem he_K_protecting_guards cfg ops op : 1 <= cK cfg ->
  let st := snd (h_run cfg ops) in
  h_outcome_of cfg st op = Exhausted ->
  let st' := h_state_after cfg st op in
  cDyn cfg = false /\ length (used (h_guards st')) = cK cfg /\
  (forall s, s < cK cfg -> exists g gd, h_get st' g = Some gd /\ g_hp gd = Some s /\ g_ptr gd <> 0) /\
  (forall g gd, h_get st' g = Some gd -> g_ptr gd = 0 -> g_hp gd = None).
Proof.
  intros HK st Hexh st'.
  destruct (he_exhausted_preserves_existing cfg ops op HK Hexh) as (Hs & Hfl & Hlen & _ & _ & F).
  fold st st' in Hfl, Hlen, F.
  assert (HG : GOk st') by (apply h_state_after_gok; apply h_run_from_gok; apply gok_init).
  split; [assumption|]. split; [assumption|]. split.
  - intros s Hlt. unfold HFacts in F. destruct F as (_ & _ & Hfree & _ & _ & _ & _ & _ & _ & Hn & _).
    assert (Hin : In s (held (h_guards st'))).
    { destruct (in_dec Nat.eq_dec s (held (h_guards st'))) as [|Hnin]; [assumption|exfalso].
      assert (Hf : In s (free_list (hpool st'))) by (apply Hfree; split; [rewrite (Hn Hs); assumption|assumption]).
      rewrite Hfl in Hf. destruct Hf. }
    apply held_In in Hin. destruct Hin as (g & gd & Hg & Hi). exists g, gd. split; [assumption|]. split; [assumption|].
    apply (proj2 (HG _ _ Hg) s). assumption.
  - intros g gd Hg Hz. destruct (g_hp gd) as [s|] eqn:E; [|reflexivity]. exfalso. exact (proj2 (HG _ _ Hg) s E Hz).
Qed.

(** the two former counter-examples on the repaired code *)
Example ex_he_exhausted_leaves_guard_empty :
  let cfg := {| cK := 1; cDyn := false; cG := 2 |} in
  let r := h_run cfg [HOp (GAcquire 0 1 0); HOp (GCopyCtor 1 0); HTick; HOp (GAcquire 1 2 0); HOp (GReset 0)] in
  map ho_res (fst r) = [Ok; Ok; Ok; Exhausted; Ok] /\
  h_get (snd (h_run cfg [HOp (GAcquire 0 1 0); HOp (GCopyCtor 1 0); HTick; HOp (GAcquire 1 2 0)])) 1 = Some empty_guard /\
  h_get (snd r) 1 = Some empty_guard.
Proof. vm_compute. repeat split. Qed.

Example ex_he_K_protecting_guards :
  let cfg := {| cK := 1; cDyn := false; cG := 2 |} in
  let r := h_run cfg [HOp (GAcquire 0 0 0); HTick; HOp (GAcquire 1 5 0); HOp (GAcquire 0 0 1); HOp (GAcquireIfEqual 0 0 1 0 1)] in
  map ho_res (fst r) = [Ok; Ok; Ok; Ok; Ok] /\
  map g_hp (h_guards (snd r)) = [None; Some 0] /\ map g_ptr (h_guards (snd r)) = [0; 5] /\ map g_mark (h_guards (snd r)) = [1; 0].
Proof. vm_compute. repeat split. Qed.
