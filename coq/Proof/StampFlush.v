(** Reclamation by the thread that leaves its critical region as the last one, in the stamp_it model (Model/StampDefs.v):
    [F0]  the stamp of a retired node is at most head->stamp; the local retire lists and all chunks of the global list are
    sorted by stamp (nodes are appended with the current head->stamp, which never decreases) - so the prefix of a chunk that
    process_local_nodes / process_global_nodes reclaims is ALL of its nodes whose stamp is at most the tail stamp.
    [pg_frees]: a thread at the start of process_global_nodes reclaims, within its next three steps when no other thread
    runs, every node of its local list and of the global list whose stamp is at most the stamp of tail.  No axioms. *)
From Coq Require Import NArith List Bool Arith Lia PeanoNat Setoid Permutation Sorted.
From XV Require Import Conc.Lts Conc.Ev Model.StampDefs Proof.StampBase Proof.StampNodes Proof.StampStamps Proof.StampOrder Proof.StampGuards.
Import ListNotations.
Local Open Scope N_scope.

Definition sorted (ns : N -> N) (l : list N) : Prop := StronglySorted (fun a b => ns a <= ns b) l.

Lemma sorted_app_inv ns l1 l2 : sorted ns (l1 ++ l2) -> sorted ns l2.
Proof. induction l1 as [|a l IH]; cbn [app]; intros H; [exact H|]. apply IH. inversion H; assumption. Qed.
Lemma sorted_snoc ns l a : sorted ns l -> (forall x, In x l -> ns x <= ns a) -> sorted ns (l ++ [a]).
Proof.
  induction 1 as [|b l Hs IH Hf]; intros Ha; cbn [app].
  - constructor; [constructor|constructor].
  - constructor; [apply IH; intros x Hx; apply Ha; right; exact Hx|].
    apply Forall_app. split; [exact Hf|]. constructor; [apply Ha; left; reflexivity|constructor].
Qed.
Lemma sorted_ext ns ns' l : (forall x, In x l -> ns' x = ns x) -> sorted ns l -> sorted ns' l.
Proof.
  intros He. induction 1 as [|a l Hs IH Hf]; [constructor|]. constructor.
  - apply IH. intros x Hx. apply He. right. exact Hx.
  - rewrite Forall_forall in *. intros x Hx. rewrite (He a), (He x); [apply Hf; exact Hx|right; exact Hx|left; reflexivity].
Qed.

(** on a sorted list the reclaimed prefix is everything up to the tail stamp, and the rest is sorted *)
Lemma split_chunk_all ns ts l : sorted ns l -> forall n, In n l -> ns n <= ts -> In n (fst (split_chunk ns ts l)).
Proof.
  induction 1 as [|a l Hs IH Hf]; intros n Hin Hle; [destruct Hin|]. cbn [split_chunk].
  destruct (N.leb_spec (ns a) ts) as [Ha|Ha].
  - destruct (split_chunk ns ts l) as [f r] eqn:E. cbn [fst] in *. destruct Hin as [->|Hin]; [left; reflexivity|right; apply IH; assumption].
  - exfalso. destruct Hin as [->|Hin]; [lia|]. rewrite Forall_forall in Hf. specialize (Hf n Hin). lia.
Qed.
Lemma split_chunk_rest_sorted ns ts l : sorted ns l -> sorted ns (snd (split_chunk ns ts l)).
Proof.
  intros H. pose proof (split_chunk_app ns ts l) as A. destruct (split_chunk ns ts l) as [f r]. cbn [snd]. subst l.
  eapply sorted_app_inv; eauto.
Qed.
Lemma proc_chunks_all ns ts chs : (forall c, In c chs -> sorted ns c) ->
  forall n, In n (concat chs) -> ns n <= ts -> In n (fst (proc_chunks ns ts chs)).
Proof.
  induction chs as [|c chs IH]; intros Hs n Hin Hle; [destruct Hin|]. cbn [proc_chunks concat] in *.
  pose proof (split_chunk_all ns ts c (Hs c (or_introl eq_refl)) n) as Hc.
  destruct (split_chunk ns ts c) as [f c'] eqn:Ec. destruct (proc_chunks ns ts chs) as [fr r'] eqn:Er. cbn [fst] in *.
  apply in_or_app. apply in_app_or in Hin. destruct Hin as [Hin|Hin]; [left; apply Hc; assumption|right].
  apply IH; [intros c0 Hc0; apply Hs; right; exact Hc0|exact Hin|exact Hle].
Qed.
Lemma proc_chunks_rest_sorted ns ts chs : (forall c, In c chs -> sorted ns c) ->
  forall c, In c (snd (proc_chunks ns ts chs)) -> sorted ns c.
Proof.
  induction chs as [|c0 chs IH]; intros Hs c Hin; [destruct Hin|]. cbn [proc_chunks] in Hin.
  pose proof (split_chunk_rest_sorted ns ts c0 (Hs c0 (or_introl eq_refl))) as Hc.
  destruct (split_chunk ns ts c0) as [f c'] eqn:Ec. destruct (proc_chunks ns ts chs) as [fr r'] eqn:Er. cbn [snd] in *.
  assert (IH' : forall c, In c r' -> sorted ns c) by (intros; apply IH; [intros cc Hcc; apply Hs; right; exact Hcc|assumption]).
  destruct c'; cbn [is_nil] in Hin; [apply IH'; exact Hin|]. destruct Hin as [<-|Hin]; [exact Hc|apply IH'; exact Hin].
Qed.

Definition chunks_of (p : pc) : list (list N) := match p with PG4 _ ch _ | AG1 _ ch | AG2 _ ch _ => ch | _ => [] end.

Record F0 (s : state) : Prop := {
  f_le : forall n u r, g_life s n = LRet u r -> r <= qstamp s THead;
  f_sl : forall u, sorted (nstamp s) (rl (tl s u));
  f_sg : forall c, In c (gret s) -> sorted (nstamp s) c;
  f_sf : forall u c, In c (chunks_of (th s u)) -> sorted (nstamp s) c }.

Lemma F0_init nc : F0 (init nc).
Proof.
  constructor; cbn; intros; try contradiction; try constructor.
  destruct (n <? nc); discriminate.
Qed.

Lemma sorted_upd_out ns old v l : ~ In old l -> sorted ns l -> sorted (updN ns old v) l.
Proof. intros Hn. apply sorted_ext. intros x Hx. apply updN_other. intros ->. contradiction. Qed.

Lemma chain_sorted ns (l : list N) (g : list (list N)) : sorted ns l -> (forall c, In c g -> sorted ns c) ->
  forall c, In c (if is_nil l then g else l :: g) -> sorted ns c.
Proof. intros Hl Hg c Hc. destruct l; cbn [is_nil] in Hc; [apply Hg; exact Hc|]. destruct Hc as [<-|Hc]; [exact Hl|apply Hg; exact Hc]. Qed.

Lemma F0_lists ns s t s' es : N0 s -> F0 s -> step ns s (Step t) = Some (s', es) ->
  (forall u, sorted (nstamp s') (rl (tl s' u))) /\ (forall c, In c (gret s') -> sorted (nstamp s') c) /\
  (forall u c, In c (chunks_of (th s' u)) -> sorted (nstamp s') c).
Proof.
  intros I F H. destruct F as [Fle Fsl Fsg Fsf]. pose proof (Fsf t) as Fsft. pose proof (Fsl t) as Fslt.
  unfold_step H. cbv zeta in H. step_split H.
  all: bool_eqs; prj; prj_hyps; rewrite ?upd_same in *; prj_hyps.
  all: try match goal with E : th _ _ = _ |- _ => rewrite E in Fsft end; cbn [chunks_of] in Fsft.
  all: rmn.
  all: (split; [intros gu|split; [intros gc Hgc|intros gu gc Hgc]]).
  all: try solve [first [apply Fsl | apply Fsg; exact Hgc | eapply Fsf; exact Hgc]].
  all: try (destruct (Nat.eq_dec gu t) as [->|Hne]; [rewrite ?upd_same in *; prj; prj_hyps; cbn [chunks_of] in * |rewrite ?upd_other in * by exact Hne]).
  all: try solve [first [apply Fsl | apply Fsg; exact Hgc | eapply Fsf; exact Hgc | exact Fslt | apply Fsft; exact Hgc | contradiction | constructor]].
  (* retire *)
  all: try solve [match goal with E : th _ _ = RT1 ?old |- _ =>
    assert (Hw : g_where s old = PNone) by
      (pose proof (n_unl1 s I t old) as X; rewrite E in X; specialize (X eq_refl);
       destruct (wh_not_ret _ _ _ (n_where s I old) ltac:(rewrite X; intros; discriminate)) as [W _]; exact W);
    first [ apply sorted_snoc;
            [apply sorted_upd_out; [intros X; apply (n_list s I) in X; congruence|apply Fsl]
            |intros x Hx; rewrite updN_same, updN_other by (intros ->; apply (n_list s I) in Hx; congruence);
             destruct (in_list_retired _ _ _ I Hx) as (v & r & L1 & L2); rewrite L2; eapply Fle; eauto]
          | apply sorted_upd_out; [intros X; apply (n_list s I) in X; congruence|apply Fsl]
          | apply sorted_upd_out; [intros X; assert (Y : In old (concat (gret s))) by (apply in_concat; eauto); apply (n_glob s I) in Y; congruence|apply Fsg; exact Hgc]
          | apply sorted_upd_out; [intros X; assert (Y : In old (flight (th s gu))) by
               (unfold flight; destruct (th s gu); cbn [chunks_of] in Hgc; try contradiction; apply in_concat; eauto);
             apply (n_flight s I) in Y; congruence|eapply Fsf; exact Hgc] ] end].
  (* process_local_nodes *)
  all: try solve [match goal with E : split_chunk ?ns0 ?ts0 ?l = (_, ?r) |- sorted _ ?r =>
    pose proof (split_chunk_rest_sorted ns0 ts0 l Fslt) as X; rewrite E in X; exact X end].
  all: try solve [match goal with E : split_chunk ?ns0 ?ts0 ?l = (_, ?r), Hgc : In _ [?r] |- _ =>
    destruct Hgc as [<-|[]]; pose proof (split_chunk_rest_sorted ns0 ts0 l Fslt) as X; rewrite E in X; exact X end].
  (* process_global_nodes *)
  all: try solve [match goal with E : proc_chunks ?ns0 ?ts0 ?chs = (_, ?r), Hgc : In _ ?r |- _ =>
    assert (Hs : forall c, In c chs -> sorted ns0 c) by
      first [ apply chain_sorted; [exact Fslt|first [exact Fsg | intros c0 []]] | exact Fsft ];
    pose proof (proc_chunks_rest_sorted ns0 ts0 chs Hs) as X; rewrite E in X; apply X; exact Hgc end].
  (* add_to_global_retired_nodes *)
  all: try solve [apply in_app_or in Hgc; destruct Hgc as [Hgc|Hgc]; [apply Fsft; exact Hgc|apply Fsg; exact Hgc]].
Qed.

Lemma ret_origin ns s t s' es n u r : step ns s (Step t) = Some (s', es) -> g_life s' n = LRet u r ->
  g_life s n = LRet u r \/ (u = t /\ r = qstamp s THead).
Proof.
  intros H Hl. unfold_step H. cbv zeta in H. step_split H.
  all: prj_in Hl.
  all: try solve [left; exact Hl].
  all: repeat match type of Hl with context [updN ?f ?a ?x ?y] => destruct (updN_cases f a x y) as [[? X]|[? X]]; rewrite X in Hl; clear X end.
  all: try discriminate Hl.
  all: try solve [left; exact Hl].
  all: try solve [right; injection Hl as <- <-; split; reflexivity].
Qed.

Lemma F0_step ns s t s' es : T0 ns s -> N0 s -> S0 s -> F0 s -> step ns s (Step t) = Some (s', es) -> F0 s'.
Proof.
  intros T I S F H. destruct (F0_lists _ _ _ _ _ I F H) as (L1 & L2 & L3).
  constructor; try assumption.
  intros n u r Hl. pose proof (head_stamp_mono _ _ _ _ _ (T t) S H) as HH.
  destruct (ret_origin _ _ _ _ _ _ _ _ H Hl) as [E|[_ ->]]; [pose proof (f_le s F n u r E); lia|exact HH].
Qed.

Lemma F0_start ns s t o s' es : F0 s -> step ns s (Start t o) = Some (s', es) -> F0 s'.
Proof.
  intros F H. destruct F as [Fle Fsl Fsg Fsf]. unfold step, step_gen in H. step_split H.
  all: bool_eqs; constructor; prj; try assumption.
  all: intros gu; try intros gc Hgc.
  all: (destruct (Nat.eq_dec gu t) as [->|Hne]; [rewrite ?upd_same in *; prj; cbn [chunks_of] in *|rewrite ?upd_other in * by exact Hne]).
  all: try solve [first [apply Fsl | eapply Fsf; exact Hgc | contradiction]].
Qed.

Section ReachF.
Variables (ns : nat) (nc : N).
Lemma F0_reach s : reachable ns nc s -> F0 s.
Proof.
  apply (inv_rule_aux _ _ _ _ _ (fun s => T0 ns s /\ N0 s /\ S0 s) F0).
  - intros s0 Hr. split; [apply (T0_reach ns nc); exact Hr|split; [apply (N0_reach ns nc); exact Hr|apply (S0_reach ns nc); exact Hr]].
  - apply F0_init.
  - intros s0 a s1 es (J1 & J2 & J3) _ I H. destruct a as [t o|t]; [eapply F0_start; eauto|eapply F0_step; eauto].
Qed.
End ReachF.


(** a reclaimed node stays reclaimed *)
Lemma freed_stable ns s a s' es n : N0 s -> step ns s a = Some (s', es) -> g_where s n = PFreed -> g_where s' n = PFreed.
Proof.
  intros I H Hw. destruct a as [t o|t].
  - unfold step, step_gen in H. step_split H; prj; exact Hw.
  - unfold_step H. cbv zeta in H. step_split H.
    all: prj; try exact Hw.
    all: repeat match goal with
         | |- context [updN ?f ?a ?x ?y] => destruct (updN_cases f a x y) as [[? X]|[? X]]; rewrite X; clear X
         | |- context [memN ?y ?l] => let M := fresh "M" in destruct (memN y l) eqn:M; [apply memN_In in M|]
         end; try reflexivity; try exact Hw; exfalso.
    all: try (subst; match goal with E : th ?s0 ?t0 = RT1 ?old |- _ =>
           pose proof (n_unl1 s0 I t0 old) as X; rewrite E in X; specialize (X eq_refl);
           destruct (wh_not_ret _ _ _ (n_where s0 I old) ltac:(rewrite X; intros; discriminate)) as [W _]; congruence end).
    all: try (match goal with M : In _ (rl (tl _ ?u)) |- _ => apply (n_list _ I) in M; congruence end).
    all: try (match goal with M : In _ (concat (gret _)) |- _ => apply (n_glob _ I) in M; congruence end).
    all: try (match goal with M : In ?y (concat ?ch), E : th ?s0 ?t0 = _ |- _ =>
           assert (Y : In y (flight (th s0 t0))) by (rewrite E; exact M); apply (n_flight _ I) in Y; congruence end).
    all: try (match goal with M : In ?y ?r, E : split_chunk ?a1 ?a2 (rl (tl ?s0 ?t0)) = (_, ?r) |- _ =>
           pose proof (split_chunk_app a1 a2 (rl (tl s0 t0))) as A; rewrite E in A;
           assert (Y : In y (rl (tl s0 t0))) by (rewrite A; apply in_or_app; right; exact M); apply (n_list _ I) in Y; congruence end).
Qed.

Lemma free_all_in l st n : In n l -> g_where (free_all l st) n = PFreed.
Proof. intros H. unfold free_all. prj. assert (M : memN n l = true) by (apply memN_In; exact H). rewrite M. reflexivity. Qed.

(** one round of process_global_nodes reclaims every node of the chunks whose stamp is at most ts *)
Lemma pg_round_frees st t k ts ch e s' e' : pg_round st t k ts ch e = Some (s', e') ->
  (forall c, In c ch -> sorted (nstamp st) c) ->
  forall n, In n (concat ch) -> nstamp st n <= ts -> g_where s' n = PFreed.
Proof.
  intros H Hs n Hin Hle. unfold pg_round in H.
  pose proof (proc_chunks_all (nstamp st) ts ch Hs n Hin Hle) as Hf.
  destruct (proc_chunks (nstamp st) ts ch) as [fl rest]. cbn [fst] in Hf.
  destruct rest.
  - unfold do_cont, finish, to_cas in H. repeat match type of H with context [match ?x with _ => _ end] => destruct x end;
      injection H as <- _; prj; rewrite ?(free_all_in _ _ _ Hf); try (apply free_all_in; exact Hf);
      repeat match goal with |- context [updN ?f ?a ?x ?y] => idtac end; unfold free_all; prj;
      assert (M : memN n fl = true) by (apply memN_In; exact Hf); rewrite M; reflexivity.
  - injection H as <- _. prj. unfold free_all. prj. assert (M : memN n fl = true) by (apply memN_In; exact Hf). rewrite M. reflexivity.
Qed.

Section Flush.
Variables (ns : nat) (nc : N).

(** [pg_frees]: thread t is at the start of process_global_nodes (it left its critical region as the last one and has
    updated the tail stamp).  If no other thread runs, its next three steps (the load of the tail stamp, the load and the
    exchange of the global list) reclaim every node of its local retire list and of the global list whose stamp is at
    most the stamp of tail. *)
Theorem pg_frees s t k : reachable ns nc s -> th s t = PG1 k ->
  let s3 := fst (fst (run (step ns) s [Step t; Step t; Step t])) in
  forall n, In n (rl (tl s t)) \/ In n (concat (gret s)) -> nstamp s n <= qstamp s TTail -> g_where s3 n = PFreed.
Proof.
  intros Hr Epc s3 n Hin Hle. subst s3.
  pose proof (F0_reach ns nc s Hr) as F. pose proof (N0_reach ns nc s Hr) as I.
  set (ts := qstamp s TTail) in *.
  set (s1 := set_pc t (PG2 k ts) s).
  assert (H1 : step ns s (Step t) = Some (s1, [ELoad t (L_stamp TTail) mo_acq (VInt ts)])).
  { unfold step, step_gen. rewrite Epc. reflexivity. }
  assert (Hr1 : reachable ns nc s1) by (eapply reach_step; eauto).
  cbn [run]. rewrite H1.
  assert (E1 : th s1 t = PG2 k ts) by (unfold s1; prj; apply upd_same).
  assert (Etl1 : tl s1 t = tl s t) by reflexivity.
  assert (Eg1 : gret s1 = gret s) by reflexivity.
  assert (Hs_l : sorted (nstamp s) (rl (tl s t))) by apply F.
  assert (Hs_g : forall c, In c (gret s) -> sorted (nstamp s) c) by apply F.
  (* the state after the second step, and possibly the third *)
  destruct (gret s) as [|g0 gr] eqn:Eg.
  - (* the global list is empty: the second step reclaims *)
    destruct Hin as [Hin|[]].
    assert (H2 : exists s2 e2, step ns s1 (Step t) = Some (s2, e2) /\ g_where s2 n = PFreed).
    { unfold step, step_gen. rewrite E1. cbv zeta. rewrite Eg1; rewrite ?Eg. cbn [is_nil].
      unfold pg_start. rewrite Etl1.
      destruct (pg_round _ t k ts _ _) as [[s2 e2]|] eqn:Er.
      - exists s2, e2. split; [reflexivity|]. eapply pg_round_frees; [exact Er| | |].
        + unfold s1; prj. apply chain_sorted; [exact Hs_l|intros c0 []].
        + rewrite concat_ifnil. cbn [concat]. rewrite app_nil_r. exact Hin.
        + unfold s1; prj. exact Hle.
      - exfalso. unfold pg_round in Er. destruct (proc_chunks _ _ _) as [fl rest]. destruct rest; [|discriminate].
        unfold do_cont, finish, to_cas in Er. repeat match type of Er with context [match ?x with _ => _ end] => destruct x end; discriminate. }
    destruct H2 as (s2 & e2 & H2 & Hf). rewrite H2.
    assert (Hr2 : reachable ns nc s2) by (eapply reach_step; eauto).
    destruct (step ns s2 (Step t)) as [[s3 e3]|] eqn:H3; cbn [fst].
    + eapply freed_stable; [apply (N0_reach ns nc); exact Hr2|exact H3|exact Hf].
    + exact Hf.
  - (* the global list is not empty: the second step sees it, the third steals it and reclaims *)
    set (s2 := set_pc t (PG3 k ts) s1).
    assert (H2 : step ns s1 (Step t) = Some (s2, [ELoad t L_gret mo_rlx (vptr (ghead s1))])).
    { unfold step, step_gen. rewrite E1. cbv zeta. rewrite Eg1; rewrite ?Eg. reflexivity. }
    rewrite H2.
    assert (E2 : th s2 t = PG3 k ts) by (unfold s2; prj; apply upd_same).
    assert (H3 : exists s3 e3, step ns s2 (Step t) = Some (s3, e3) /\ g_where s3 n = PFreed).
    { unfold step, step_gen. rewrite E2. cbv zeta.
      assert (Eg2 : gret s2 = gret s) by reflexivity. rewrite Eg2; rewrite ?Eg.
      unfold pg_start. assert (Etl2 : forall X, tl (move_all X (PFlight t) (w_gret [] s2)) t = tl s t) by reflexivity. rewrite Etl2.
      destruct (pg_round _ t k ts _ _) as [[s3 e3]|] eqn:Er.
      - exists s3, e3. split; [reflexivity|]. eapply pg_round_frees; [exact Er| | |].
        + unfold s2, s1; prj. apply chain_sorted; [exact Hs_l|]. intros c Hc. apply Hs_g. exact Hc.
        + rewrite concat_ifnil. apply in_or_app. destruct Hin as [Hin|Hin]; [left; exact Hin|right; exact Hin].
        + unfold s2, s1; prj. exact Hle.
      - exfalso. unfold pg_round in Er. destruct (proc_chunks _ _ _) as [fl rest]. destruct rest; [|discriminate].
        unfold do_cont, finish, to_cas in Er. repeat match type of Er with context [match ?x with _ => _ end] => destruct x end; discriminate. }
    destruct H3 as (s3 & e3 & H3 & Hf). rewrite H3. cbn [fst]. exact Hf.
Qed.
End Flush.

(** the hypotheses of [pg_frees] on a concrete reachable state (2 cells, 3 guard slots): thread 2 retired node 0 with stamp
    12 and exited, the node is in the global list; thread 1 - 45 steps into its second critical region afterwards - is at the
    start of process_global_nodes with tail stamp 16: three more steps of thread 1 reclaim node 0 *)
Definition fl_steps (t n : nat) : list action := repeat (Step t) n.
Definition fl_run (acts : list action) : state := fst (fst (run (step 3) (init 2) acts)).
Definition fl_ex : list action :=
  ([Start 1 (OHold 0 0)] ++ fl_steps 1 60 ++ [Start 2 (ORepl 0)] ++ fl_steps 2 120 ++ [Start 2 OExit] ++ fl_steps 2 20 ++
   [Start 1 (ODrop 0)] ++ fl_steps 1 120 ++ [Start 1 (ORead 1)] ++ fl_steps 1 45)%nat.
Example ex_pg_frees :
  let st := fl_run fl_ex in let st3 := fl_run (fl_ex ++ fl_steps 1 3) in
  th st 1%nat = PG1 (LFin (r_id 2) None) /\ gret st = [[0]] /\ nstamp st 0 = 12 /\ qstamp st TTail = 16 /\ g_where st 0 = PGlob /\
  g_where st3 0 = PFreed /\ g_nfree st3 0 = 1%nat /\ gret st3 = [].
Proof. vm_compute. repeat split; reflexivity. Qed.
