(** vyukov_hash_map with several buckets and grow: the final statements (C10), the reader theorem over executions,
    examples. *)
From Coq Require Import NArith List Bool Lia PeanoNat.
From XV Require Import Base.Word Conc.Lts Conc.Ev gen.BucketStateGen Proof.BucketState Model.VhmGrowDefs
  Proof.VhmGrowBase Proof.VhmGrowAbs Proof.VhmGrowInv.
From XV Require Proof.VhmBase.
Import ListNotations.
Local Open Scope N_scope.

(** the key of a lock-free call (try_get_value) or of an erase / extract call *)
Definition call_key (p : pc) : option N :=
  match p with
  | X1 _ k | X2 _ k _ _ | X3 _ k _ _ _ | XK _ k _ _ _ _ | XV _ k _ _ _ _ | XH _ k _ _ _ _ _ | XB1 _ k _ _ _ _ _ | XB2 _ k _ _ _ _ _
  | XB3 _ k _ _ _ _ _ _ | XB4 _ k _ _ _ _ _ _ _ | XB5 _ k _ _ _ _ _ _ | XB6 _ k _ _ _ _ _ | XHH _ k _ _ _ | XU _ k _ _ _
  | G1 k | G2 k _ _ | GK k _ _ _ _ | GV k _ _ _ _ | GD k _ _ _ _ _ | GS k _ _ _ _ _ | GH k _ _ _ | GE k _ _ _ => Some k
  | _ => None
  end.
(** ... of a try_get_value call *)
Definition get_key (p : pc) : option N :=
  match p with
  | G1 k | G2 k _ _ | GK k _ _ _ _ | GV k _ _ _ _ | GD k _ _ _ _ _ | GS k _ _ _ _ _ | GH k _ _ _ | GE k _ _ _ => Some k
  | _ => None
  end.
(** the program points of grow / do_grow *)
Definition grow_pc (p : pc) : bool :=
  match p with
  | GR1 _ _ _ _ _ _ | GR2 _ _ _ _ _ _ _ | GRW _ => true
  | _ => rs_pc p
  end.

Section VhmGrowThm.
  Variable hash : N -> N.
  Variable cap : N.
  Hypothesis cap_pos : 0 < cap.
  Notation step := (step hash).
  Notation init := (init cap).
  Notation Lk := (Lk hash).

  Lemma inv1 st : reach init step st -> Inv1 hash st.
  Proof. apply Inv1_reach. exact cap_pos. Qed.

  (** ** 1. lock discipline *)
  (** bucket locks: the lock bit of a bucket is set iff a thread holds it or the block has been replaced (then for
      ever); at most one holder; the version field counts the version increments (mod 2^27) *)
  Theorem vhmg_bucket_locks st : reach init step st -> forall b j,
    (bs_is_locked (bst st b j) = true <-> (exists t, holds (th st t) b j) \/ (g_frozen st b = true /\ j < bcnt st b)) /\
    (forall t t', holds (th st t) b j -> holds (th st t') b j -> t = t') /\
    (forall t, holds (th st t) b j -> b = db st /\ j < bcnt st b) /\
    bs_version (bst st b j) = g_nver st b j mod 2 ^ 27.
  Proof.
    intros Hr b j. destruct (inv1 _ Hr) as ((HI & _) & _). rsplit.
    - rewrite (K_bit _ _ HI). rewrite orb_true_iff, andb_true_iff, N.ltb_lt. split.
      + intros [H|H]; [left | right; exact H]. destruct (g_own st b j) as [t|] eqn:Eo; [|discriminate H]. exists t. apply (K_pc _ _ HI). exact Eo.
      + intros [[t H]|H]; [left | right; exact H]. rewrite (K_hold _ _ HI _ _ _ H). reflexivity.
    - intros t t' H1 H2. pose proof (K_hold _ _ HI _ _ _ H1). pose proof (K_hold _ _ HI _ _ _ H2). congruence.
    - intros t. apply (K_cur _ _ HI).
    - apply (K_ver _ _ HI).
  Qed.

  (** the resize lock: held iff a thread is between the successful exchange and the releasing store; at most one *)
  Theorem vhmg_resize_lock st : reach init step st ->
    (rlock st = 1 <-> exists t, rs_pc (th st t) = true) /\ (rlock st = 0 \/ rlock st = 1) /\
    (forall t t', rs_pc (th st t) = true -> rs_pc (th st t') = true -> t = t').
  Proof.
    intros Hr. destruct (inv1 _ Hr) as ((HI & _) & _). pose proof (K_rl _ _ HI) as Hl. rsplit.
    - split.
      + intros H. destruct (g_rown st) as [t|] eqn:Eo; [|rewrite H in Hl; discriminate]. exists t. apply (K_rpc _ _ HI). exact Eo.
      + intros [t H]. rewrite (K_rown _ _ HI _ H) in Hl. exact Hl.
    - destruct (g_rown st); auto.
    - intros t t'. apply (rs_unique hash st); exact HI.
  Qed.

  Lemma bcnt_keep st a st' es b : step st a = Some (st', es) -> b < nalloc st -> bcnt st' b = bcnt st b.
  Proof. intros H Hb. step_inv H; st_simpl; try reflexivity. apply setf1_other. lia. Qed.

  (** while do_grow holds all bucket locks of the old block (migration phase), no step of another thread changes a
      bucket of that block or the abstract map *)
  Theorem vhmg_grow_excludes_writers st t t' ob nb n st' es : reach init step st ->
    pc_blocks (th st t) = Some (ob, nb, n) -> (forall j, j < n -> holds (th st t) ob j) -> t' <> t ->
    step st (Step t') = Some (st', es) ->
    (forall j, same_bkt st st' ob j) /\ (forall j, same_bkt st st' nb j) /\ forall k, lookup k (g_map st') = lookup k (g_map st).
  Proof.
    intros Hr Hb Hh Hne Hs. destruct (inv1 _ Hr) as ((HI & _) & _).
    assert (Hr' : reach init step st') by (eapply reach_step; eauto). destruct (inv1 _ Hr') as ((HI' & _) & _).
    destruct (blocks_facts hash _ _ _ _ _ HI Hb) as (B1 & B2 & _).
    destruct (step_other hash _ _ _ _ Hs) as (u & Hu & Hoth). assert (u = t') by (destruct Hu as [E|[o E]]; congruence). subst u.
    destruct (Hoth t ltac:(congruence)) as (Eth & _).
    rsplit.
    - intros j. destruct (N.lt_ge_cases j n) as [Hj|Hj].
      + exact (other_same hash _ _ _ _ t' t ob j HI HI' Hs Hu ltac:(congruence) (Hh j Hj) Eth).
      + (* not a bucket of the block: nobody ever writes there *)
        destruct (step_frame hash _ _ _ _ HI Hs ob j) as [H|[(t0 & E & H)|[(t0 & ob0 & n0 & E & H)|(t0 & c & E & H1 & H2)]]]; [exact H | exfalso ..].
        * destruct H as [H|H]; [destruct (own_cur hash _ _ _ _ HI H) | destruct (own_cur hash _ _ _ _ HI' H) as [Hd Hl]].
          -- subst. lia.
          -- assert (Hd' : db st' = db st).
             { destruct (db_change hash _ _ _ _ Hs) as [Hd'|(t1 & c & ob1 & nb1 & n1 & E1 & E2)]; [exact Hd'|]. injection E1 as <-. exfalso. apply Hne.
               apply (rs_unique hash st); [exact HI | rewrite E2; reflexivity | eapply rs_of_blocks; exact Hb]. }
             assert (Hbc : bcnt st' ob = bcnt st ob).
             { apply (bcnt_keep _ _ _ _ _ Hs). subst ob. apply (K_db _ _ HI). }
             subst. lia.
        * injection E as <-. destruct (blocks_facts hash _ _ _ _ _ HI H) as (_ & _ & _ & C4 & _ & _).
          apply Hne. apply (rs_unique hash st); [exact HI | eapply rs_of_blocks; exact H | eapply rs_of_blocks; exact Hb].
        * injection E as <-. apply Hne. apply (rs_unique hash st); [exact HI | rewrite H1; reflexivity | eapply rs_of_blocks; exact Hb].
    - intros j. exact (other_new hash _ _ _ _ t' t ob nb n j HI HI' Hs Hu ltac:(congruence) Hb).
    - intros k. destruct (map_frame hash _ _ _ _ HI Hs k) as [E|(t0 & E & Ho)]; [exact E | exfalso]. injection E as <-.
      assert (Hj : hb hash st k < n) by (subst n ob; apply N.mod_lt; pose proof (K_db _ _ HI); unfold nb_; lia).
      pose proof (K_hold _ _ HI _ _ _ (Hh _ Hj)) as Ho'. subst ob. congruence.
  Qed.

  (** the version rule: a step either increments the version of a bucket (of the current or of a replaced block) or
      leaves it to the readers as [Env] says (Proof/VhmGrowInv.v); the buckets of a replaced block never change *)
  Theorem vhmg_version_rule st a st' es b j : reach init step st -> step st a = Some (st', es) ->
    b = db st \/ g_frozen st b = true ->
    g_nver st' b j = g_nver st b j + 1 \/ (g_nver st' b j = g_nver st b j /\ Env hash st st' b j).
  Proof. intros Hr Hs Hb. destruct (inv1 _ Hr) as ((HI & _ & HA & _) & _). exact (step_env hash _ _ _ _ b j HI HA Hs Hb). Qed.

  Theorem vhmg_replaced_block_frozen st a st' es b j : reach init step st -> step st a = Some (st', es) ->
    g_frozen st b = true -> same_bkt st st' b j /\ g_frozen st' b = true /\ bs_is_locked (bst st b j) = (j <? bcnt st b).
  Proof.
    intros Hr Hs Hf. destruct (inv1 _ Hr) as ((HI & _) & _).
    assert (Hr' : reach init step st') by (eapply reach_step; eauto). destruct (inv1 _ Hr') as ((HI' & _) & _).
    rsplit; [exact (frozen_same hash _ _ _ _ b j HI HI' Hs Hf) | exact (frozen_mono hash _ _ _ _ _ Hs Hf) |].
    rewrite (K_bit _ _ HI), Hf. destruct (g_own st b j) as [u|] eqn:Eo; [|reflexivity].
    destruct (own_cur hash _ _ _ _ HI Eo) as [-> _]. pose proof (K_db _ _ HI). intuition congruence.
  Qed.

  (** ** 2. the abstraction *)
  (** [g_map] = the valid slots (below item_count, not the slot a removal has marked) of the buckets of the CURRENT
      block; every key sits in the bucket its hash selects for that block's mask, exactly once *)
  Theorem vhmg_structure st : reach init step st ->
    (forall k v, lookup k (g_map st) = Some v <->
                 exists i, vslot st (db st) (hash k mod bcnt st (db st)) i /\
                           akey st (db st) (hash k mod bcnt st (db st)) i = k /\ aval st (db st) (hash k mod bcnt st (db st)) i = v) /\
    (forall j i, j < bcnt st (db st) -> vslot st (db st) j i -> hash (akey st (db st) j i) mod bcnt st (db st) = j) /\
    (forall j i i', j < bcnt st (db st) -> vslot st (db st) j i -> vslot st (db st) j i' ->
                    akey st (db st) j i = akey st (db st) j i' -> i = i') /\
    (forall j, g_own st (db st) j = None -> mk st (db st) j = 0 /\ bs_is_locked (bst st (db st) j) = false).
  Proof.
    intros Hr. destruct (inv1 _ Hr) as ((HI & HG & _) & _). rsplit.
    - exact (G_map _ _ HG).
    - exact (G_hash _ _ HG).
    - exact (G_us _ _ HG).
    - intros j Ho. split.
      + apply (K_mk _ _ HI). intros t Ht. congruence.
      + rewrite (K_bit _ _ HI), Ho, (proj2 (proj2 (proj2 (K_db _ _ HI)))). reflexivity.
  Qed.

  (** no step of grow / do_grow changes the abstract map *)
  Theorem vhmg_grow_keeps_map st t st' es : grow_pc (th st t) = true -> step st (Step t) = Some (st', es) -> g_map st' = g_map st.
  Proof.
    intros Hp H. cbn [step] in H. destruct (th st t) eqn:Epc; cbn [grow_pc rs_pc] in Hp; try discriminate Hp; try discriminate H.
    all: repeat match type of H with (if ?c then _ else _) = Some _ => destruct c eqn:?Ec end; try discriminate H.
    all: injection H as <- _; st_simpl_goal; reflexivity.
  Qed.

  (** the publication: the new block holds exactly the pairs of the old one (every pair in the bucket its hash selects
      for the new mask, none lost, none duplicated): the abstraction holds before the store w.r.t. the old block and after
      it w.r.t. the new block, for the same [g_map] *)
  Theorem vhmg_publish st t c ob nb n st' es : reach init step st -> th st t = DP1 c ob nb n -> step st (Step t) = Some (st', es) ->
    db st = ob /\ db st' = nb /\ g_map st' = g_map st /\ bcnt st' nb = 2 * bcnt st ob /\ G hash st /\ G hash st' /\
    (forall j, same_bkt st st' ob j) /\ (forall j, same_bkt st st' nb j).
  Proof.
    intros Hr Epc Hs. destruct (inv1 _ Hr) as ((HI & HG & _) & _).
    assert (Hr' : reach init step st') by (eapply reach_step; eauto). destruct (inv1 _ Hr') as ((_ & HG' & _) & _).
    destruct (blocks_facts hash st t ob nb n HI ltac:(rewrite Epc; reflexivity)) as (B1 & B2 & _ & _ & _ & _ & B7 & _).
    cbn [step] in Hs. rewrite Epc in Hs. injection Hs as <- _. st_simpl_goal. unfold dbl in B7. subst n.
    rsplit; auto; intros j; (split; [reflexivity | split; [intros; split; reflexivity | reflexivity]]).
  Qed.

  (** ** 3. writers *)
  (** [g_map] changes only at a step of a writer that records in [g_lp] what [g_map] associated with its key just
      before (the linearization points): insertion of (k, v) or removal of k *)
  Theorem vhmg_lp_step st a st' es : step st a = Some (st', es) ->
    g_map st' = g_map st \/
    exists t k, a = Step t /\ g_lp st' t = Some (lookup k (g_map st)) /\
      ((exists v, g_map st' = (k, v) :: g_map st) \/ g_map st' = rem k (g_map st)).
  Proof.
    intros H. step_inv H; st_simpl; try (left; reflexivity); right; exists t, k; rewrite ?upd_same; (split; [reflexivity|]); (split; [reflexivity|]); eauto.
  Qed.

  (** emplace / get_or_emplace return 'new' iff the key was absent at the linearization point (else the value found,
      for get_or_emplace), erase / extract return 'ok' iff it was present, extract returns its value; erase / extract that
      return 'absent' without a linearization point of their own (item_count = 0 seen before locking) observed the key
      absent at one of the recorded instants of the call *)
  Theorem vhmg_writers st : reach init step st -> forall h, In h (g_hist st) ->
    hist_ok_w h /\ (Bnd st -> hist_ok_r h).
  Proof.
    intros Hr h Hh. destruct (inv1 _ Hr) as ((_ & _ & _ & _ & HW) & _ & _ & _ & HR). split; [apply HW; exact Hh | intros HB; apply HR; assumption].
  Qed.

  (** ** 5. retired blocks *)
  (** a block is handed to the reclaimer at most once; a retired block has been replaced: it is not the current block,
      (this holds in every reachable state and [g_retired] only grows, so data_block never points to it again);
      every replaced block is retired, or its do_grow is just before the retire *)
  Theorem vhmg_retired st : reach init step st ->
    NoDup (g_retired st) /\
    (forall b, In b (g_retired st) -> g_frozen st b = true /\ b <> db st /\ b < nalloc st) /\
    (forall b, g_frozen st b = true -> In b (g_retired st) \/ exists t c nb, th st t = DP2 c b nb) /\
    (forall a st' es, step st a = Some (st', es) -> exists l, g_retired st' = g_retired st ++ l).
  Proof.
    intros Hr. destruct (inv1 _ Hr) as ((HI & _) & _ & _ & HT & _). rsplit.
    - exact (R_nd _ HT).
    - intros b Hb. pose proof (R_fr _ HT b Hb) as Hf. pose proof (K_db _ _ HI) as (_ & _ & _ & D4). rsplit; [exact Hf | intros ->; congruence | apply (K_fr _ _ HI); exact Hf].
    - exact (R_all _ HT).
    - intros a st' es Hs. step_inv Hs; st_simpl; try (exists []; rewrite app_nil_r; reflexivity). exists [ob]. reflexivity.
  Qed.

  (** ** 4. readers *)
  (** in terms of the recorded observations: a completed try_get_value(k) that returned v observed [g_map k = v] at one
      of the recorded instants of the call, one that returned 'absent' observed k absent (as long as no 27-bit version
      counter has wrapped around) *)
  Theorem vhmg_readers st : reach init step st -> Bnd st ->
    forall h k, In h (g_hist st) -> h_op h = OGet k ->
    (exists v, h_res h = [4; 1; v] /\ In (Some v) (h_obs h)) \/ (h_res h = [4; 0] /\ In None (h_obs h)).
  Proof.
    intros Hr HB h k Hh Ho. destruct (inv1 _ Hr) as (_ & _ & _ & _ & HR). pose proof (HR HB h Hh) as H. unfold hist_ok_r in H. rewrite Ho in H. exact H.
  Qed.

  (** ** the reader statement over executions (independent of the ghost [g_obs]) *)
  (** [exec s h]: [s] is reachable and [h] lists the states visited before, most recent first *)
  Inductive exec : state -> list state -> Prop :=
  | exec_init : exec init []
  | exec_step : forall s h a s' es, exec s h -> step s a = Some (s', es) -> exec s' (s :: h).

  Lemma exec_reach s h : exec s h -> reach init step s.
  Proof. induction 1 as [|s h a s' es _ IH Hs]; [apply reach_init | eapply reach_step; eauto]. Qed.

  Lemma obs_call_key p k : obs_key p = Some k -> call_key p = Some k.
  Proof. destruct p; cbn [obs_key call_key]; intros E; try discriminate E; exact E. Qed.

  (** what a step does to the observations of thread t *)
  Lemma obs_step st a st' es t : step st a = Some (st', es) ->
    match call_key (th st t) with
    | Some k => g_obs st' t = g_obs st t \/ g_obs st' t = g_obs st t ++ [lookup k (g_map st)]
    | None => g_obs st' t = g_obs st t \/ (g_obs st' t = [] /\ a = Step t /\ exists o, th st t = Begin o)
    end.
  Proof.
    intros H. step_inv H; st_simpl.
    all: try (destruct (call_key (th st t)); left; reflexivity).
    all: try (destruct (Nat.eq_dec t t0) as [->|Hne]; [rewrite ?upd_same, ?Epc; cbn [call_key]; first [right; reflexivity | right; split; [reflexivity | split; [reflexivity | eexists; reflexivity]]]
                                                      | rewrite ?upd_other by exact Hne; destruct (call_key (th st t)); left; reflexivity]).
    - (* DP1: every observing call records the association of its key *)
      destruct (obs_key (th st t)) as [k|] eqn:Ek.
      + rewrite (obs_call_key _ _ Ek). right. reflexivity.
      + destruct (call_key (th st t)); left; reflexivity.
  Qed.

  Lemma step_th_other st a st' es t : step st a = Some (st', es) -> a <> Step t -> (forall o, a <> Start t o) -> th st' t = th st t.
  Proof.
    intros H H1 H2. destruct (step_other hash _ _ _ _ H) as (u & Hu & Hoth). destruct (Nat.eq_dec t u) as [->|Hne]; [|apply Hoth; exact Hne].
    exfalso. destruct Hu as [E|[o E]]; [exact (H1 E) | exact (H2 o E)].
  Qed.

  (** own steps keep the key of the call *)
  Lemma call_key_step st a t st' es k : step st a = Some (st', es) -> a = Step t -> call_key (th st' t) = Some k ->
    (exists o, th st t = Begin o) \/ call_key (th st t) = Some k.
  Proof.
    intros H Ea. step_inv H; try discriminate Ea; injection Ea as ->.
    all: st_simpl; rewrite ?upd_same; cbn [call_key]; try discriminate; intros E; try (injection E as <-).
    all: try (right; rewrite Epc; reflexivity).
    all: try (left; eexists; reflexivity).
    all: try (left; eexists; exact Epc).
  Qed.

  Lemma start_pc st a t o st' es : step st a = Some (st', es) -> a = Start t o -> th st' t = Begin o.
  Proof. intros H Ea. step_inv H; try discriminate Ea. injection Ea as -> ->. st_simpl. apply upd_same. Qed.

  Lemma begin_obs st t o st' es k : step st (Step t) = Some (st', es) -> th st t = Begin o -> call_key (th st' t) = Some k ->
    g_obs st' t = [].
  Proof.
    intros H Hb. cbn [step] in H. rewrite Hb in H. destruct o; injection H as <- _; st_simpl_goal; rewrite ?upd_same; cbn [call_key];
      try discriminate; intros; reflexivity.
  Qed.

  (** every recorded observation is the association of the key in a state of the execution at which (and since which)
      the thread has been inside this call *)
  Definition obs_ok (s : state) (h : list state) : Prop :=
    forall t k, call_key (th s t) = Some k -> forall o, In o (g_obs s t) ->
    exists m, (m < length h)%nat /\ lookup k (g_map (nth m h s)) = o /\
              forall m', (m' <= m)%nat -> call_key (th (nth m' h s) t) = Some k.

  Lemma obs_ok_exec s h : exec s h -> obs_ok s h.
  Proof.
    induction 1 as [|s h a s' es He IH Hs].
    - intros t k Hk. cbn in Hk. discriminate.
    - intros t k Hk o Ho.
      assert (Hshift : forall o0, call_key (th s t) = Some k -> In o0 (g_obs s t) ->
                exists m, (m < length (s :: h))%nat /\ lookup k (g_map (nth m (s :: h) s')) = o0 /\
                          forall m', (m' <= m)%nat -> call_key (th (nth m' (s :: h) s') t) = Some k).
      { intros o0 Hk0 Ho0. destruct (IH t k Hk0 o0 Ho0) as (m & M1 & M2 & M3). exists (S m). cbn [length nth].
        split; [lia|]. split; [rewrite (nth_indep h s' s) by exact M1; exact M2|].
        intros [|m'] Hm'; [exact Hk0|]. rewrite (nth_indep h s' s) by lia. apply M3. lia. }
      assert (Hnow : call_key (th s t) = Some k ->
                exists m, (m < length (s :: h))%nat /\ lookup k (g_map (nth m (s :: h) s')) = lookup k (g_map s) /\
                          forall m', (m' <= m)%nat -> call_key (th (nth m' (s :: h) s') t) = Some k).
      { intros Hk0. exists 0%nat. cbn [length nth]. split; [lia|]. split; [reflexivity|]. intros m' Hm'. assert (m' = 0)%nat by lia. subst m'. exact Hk0. }
      pose proof (obs_step _ _ _ _ t Hs) as Hobs.
      assert (Hk0 : call_key (th s t) = Some k \/ g_obs s' t = []).
      { destruct a as [u o'|u].
        - destruct (Nat.eq_dec u t) as [->|Hne].
          + rewrite (start_pc _ _ _ _ _ _ Hs eq_refl) in Hk. discriminate.
          + left. rewrite <- (step_th_other _ _ _ _ t Hs); [exact Hk | discriminate | intros o2 E; injection E as E _; congruence].
        - destruct (Nat.eq_dec u t) as [->|Hne].
          + destruct (call_key_step _ _ _ _ _ _ Hs eq_refl Hk) as [[o2 Hb]|H]; [right | left; exact H].
            exact (begin_obs _ _ _ _ _ _ Hs Hb Hk).
          + left. rewrite <- (step_th_other _ _ _ _ t Hs); [exact Hk | intros E; injection E as E; congruence | discriminate]. }
      destruct Hk0 as [Hk0|Hnil]; [|rewrite Hnil in Ho; destruct Ho].
      rewrite Hk0 in Hobs. destruct Hobs as [Hobs|Hobs]; rewrite Hobs in Ho.
      + apply Hshift; assumption.
      + apply in_snoc in Ho. destruct Ho as [Ho| ->]; [apply Hshift; assumption | apply Hnow; exact Hk0].
  Qed.

  Lemma ret_hist st a t st' es k r : step st a = Some (st', es) -> a = Step t -> get_key (th st t) = Some k ->
    In (ERet t r) es ->
    exists w, In (mkH t (OGet k) r w (g_obs st t ++ [lookup k (g_map st)])) (g_hist st').
  Proof.
    intros H Ea. step_inv H; try discriminate Ea; injection Ea as ->.
    all: rewrite Epc; cbn [get_key]; try discriminate; intros E; injection E as <-.
    all: cbn [In app]; intros Hr; repeat (destruct Hr as [Hr|Hr]; try discriminate Hr); try contradiction.
    all: injection Hr as <-; st_simpl; rewrite ?upd_same; eexists; apply in_snoc; right; reflexivity.
  Qed.

  Lemma ret_hist_x2 st t st' es e k b j r : step st (Step t) = Some (st', es) -> th st t = X2 e k b j -> In (ERet t r) es ->
    r = del_res e false 0 /\ In (mkH t (del_op e k) r (g_lp st t) (g_obs st t ++ [lookup k (g_map st)])) (g_hist st').
  Proof.
    intros H Epc. cbn [step] in H. rewrite Epc in H. destruct (bs_item_count (bst st b j) =? 0); injection H as <- <-.
    - cbn [In app]. intros Hr. repeat (destruct Hr as [Hr|Hr]; try discriminate Hr); try contradiction. injection Hr as <-.
      split; [reflexivity|]. st_simpl_goal. rewrite upd_same. apply in_snoc. right. reflexivity.
    - cbn [In]. intros [Hr|[]]. discriminate Hr.
  Qed.

  (** the states of an execution are linked by steps *)
  Lemma exec_nth s h : exec s h -> forall m, (m < length h)%nat ->
    exists a es, step (nth (S m) (s :: h) s) a = Some (nth m (s :: h) s, es).
  Proof.
    induction 1 as [|s h a s' es He IH Hs]; intros m Hm; [cbn in Hm; lia|].
    destruct m as [|m]; [exists a, es; exact Hs|]. cbn [length] in Hm.
    destruct (IH m ltac:(lia)) as (a0 & es0 & H0). exists a0, es0. cbn [nth] in *.
    rewrite (nth_indep h s' s) by lia. destruct m as [|m]; [exact H0|]. rewrite (nth_indep h s' s) by lia. exact H0.
  Qed.

  (** inside one call the kind of the call does not change *)
  Lemma get_key_back st a st' es t k : step st a = Some (st', es) -> call_key (th st t) = Some k -> get_key (th st' t) = Some k ->
    get_key (th st t) = Some k.
  Proof.
    intros H. step_inv H; st_simpl.
    all: destruct (Nat.eq_dec t t0) as [->|Hne]; [rewrite ?upd_same, ?Epc | rewrite ?upd_other by exact Hne; destruct (th st t); cbn [call_key get_key]; congruence].
    all: cbn [call_key get_key]; congruence.
  Qed.

  Lemma get_key_prefix s h t k m : exec s h -> (m <= length h)%nat -> get_key (th s t) = Some k ->
    (forall m', (m' <= m)%nat -> call_key (th (nth m' (s :: h) s) t) = Some k) ->
    forall m', (m' <= m)%nat -> get_key (th (nth m' (s :: h) s) t) = Some k.
  Proof.
    intros He Hm Hk Hc m'. induction m' as [|m' IH]; intros Hm'; [exact Hk|].
    destruct (exec_nth _ _ He m' ltac:(lia)) as (a & es & Hs).
    apply (get_key_back _ _ _ _ t k Hs); [apply Hc; lia | apply IH; lia].
  Qed.

  (** C10, the main theorem: in every execution - with any number of grows - a try_get_value(k) call of thread t that
      returns r at the step s -> s' has a state [sm] of the execution, at which and since which t has been inside this
      call, where [g_map] associated k with the returned value (r = [4;1;v]), resp. where k was absent (r = [4;0]) *)
  Theorem vhmg_try_get_value_linearizable s h a t k s' es r :
    exec s h -> step s a = Some (s', es) -> a = Step t -> get_key (th s t) = Some k -> In (ERet t r) es -> Bnd s' ->
    exists m, (m <= length h)%nat /\
      (forall m', (m' <= m)%nat -> get_key (th (nth m' (s :: h) s) t) = Some k) /\
      ((exists v, r = [4; 1; v] /\ lookup k (g_map (nth m (s :: h) s)) = Some v) \/
       (r = [4; 0] /\ lookup k (g_map (nth m (s :: h) s)) = None)).
  Proof.
    intros He Hs Ea Hk Hr HB.
    destruct (ret_hist _ _ _ _ _ _ _ Hs Ea Hk Hr) as [w Hh].
    assert (Hreach : reach init step s') by (eapply reach_step; [apply (exec_reach _ _ He) | exact Hs]).
    pose proof (vhmg_readers _ Hreach HB _ k Hh eq_refl) as Hres. cbn [h_res h_obs] in Hres.
    assert (Hck : call_key (th s t) = Some k) by (destruct (th s t); cbn [get_key call_key] in *; congruence).
    assert (Hwit : forall o, In o (g_obs s t ++ [lookup k (g_map s)]) ->
              exists m, (m <= length h)%nat /\ (forall m', (m' <= m)%nat -> get_key (th (nth m' (s :: h) s) t) = Some k) /\
                        lookup k (g_map (nth m (s :: h) s)) = o).
    { intros o Ho. apply in_snoc in Ho. destruct Ho as [Ho| ->].
      - destruct (obs_ok_exec _ _ He t k Hck o Ho) as (m & M1 & M2 & M3). exists (S m). cbn [nth]. split; [lia|]. split; [|exact M2].
        apply (get_key_prefix s h t k (S m) He); [lia | exact Hk|]. intros [|m'] Hm'; [exact Hck | apply M3; lia].
      - exists 0%nat. cbn [nth]. split; [lia|]. split; [|reflexivity]. intros m' Hm'. assert (m' = 0)%nat by lia. subst m'. exact Hk. }
    destruct Hres as [(v & E & Hin)|[E Hin]]; destruct (Hwit _ Hin) as (m & M1 & M2 & M3); exists m; (split; [exact M1|]); (split; [exact M2|]).
    - left. exists v. auto.
    - right. auto.
  Qed.

  (** the lock-free exit of erase / extract (item_count = 0 seen before locking, possibly in a replaced block): the key
      was absent at a state of the execution inside the call *)
  Theorem vhmg_erase_empty_linearizable s h t e k b j s' es r :
    exec s h -> step s (Step t) = Some (s', es) -> th s t = X2 e k b j -> In (ERet t r) es -> Bnd s' ->
    r = del_res e false 0 /\
    exists m, (m <= length h)%nat /\
      (forall m', (m' <= m)%nat -> call_key (th (nth m' (s :: h) s) t) = Some k) /\
      lookup k (g_map (nth m (s :: h) s)) = None.
  Proof.
    intros He Hs Epc Hr HB. destruct (ret_hist_x2 _ _ _ _ _ _ _ _ _ Hs Epc Hr) as [Er Hh]. split; [exact Er|].
    assert (Hreach : reach init step s') by (eapply reach_step; [apply (exec_reach _ _ He) | exact Hs]).
    destruct (inv1 _ Hreach) as (_ & _ & _ & _ & HR). pose proof (HR HB _ Hh) as Hres. unfold hist_ok_r in Hres. cbn [h_op h_wit h_obs] in Hres.
    destruct (inv1 _ (exec_reach _ _ He)) as ((_ & _ & HA & _) & _). pose proof (HA t) as Hab. rewrite Epc in Hab. cbn [pc_abs] in Hab.
    assert (Hin : In None (g_obs s t ++ [lookup k (g_map s)])) by (unfold del_op in Hres; destruct e; apply Hres; exact Hab).
    assert (Hck : call_key (th s t) = Some k) by (rewrite Epc; reflexivity).
    apply in_snoc in Hin. destruct Hin as [Hin|Hin].
    - destruct (obs_ok_exec _ _ He t k Hck None Hin) as (m & M1 & M2 & M3). exists (S m). cbn [nth]. split; [lia|]. split; [|exact M2].
      intros [|m'] Hm'; [exact Hck | apply M3; lia].
    - exists 0%nat. cbn [nth]. split; [lia|]. split; [|symmetry; exact Hin]. intros m' Hm'. assert (m' = 0)%nat by lia. subst m'. exact Hck.
  Qed.
End VhmGrowThm.

(** the bucket index: the code computes hash & mask with mask = bucket_count - 1; bucket counts are powers of two (the
    constructor rounds the initial capacity up to one, do_grow doubles), so this is the [mod] of the model *)
Lemma index_mask h e : N.land h (2 ^ e - 1) = h mod 2 ^ e.
Proof. rewrite <- N.pred_sub, <- N.ones_equiv. apply N.land_ones. Qed.

Theorem vhmg_bucket_count_pow2 hash e0 st : reach (init (2 ^ e0)) (step hash) st ->
  forall b, bcnt st b = 0 \/ exists e, bcnt st b = 2 ^ e.
Proof.
  intros Hr. assert (Hc : 0 < 2 ^ e0) by (apply N.neq_0_lt_0; apply N.pow_nonzero; discriminate).
  induction Hr as [|s a s' es Hr IH Hs].
  - intros b. cbn. destruct (b =? 1); [right; exists e0; reflexivity | left; reflexivity].
  - intros b. destruct (inv1 hash (2 ^ e0) Hc _ Hr) as ((HI & _) & _). pose proof (K_db _ _ HI) as (_ & _ & D3 & _).
    step_inv Hs; st_simpl; try apply IH.
    unfold setf1. destruct (b =? nalloc s); [|apply IH]. right. destruct (IH (db s)) as [E|[e E]]; [lia|].
    exists (e + 1). unfold dbl. rewrite E, N.pow_add_r, N.pow_1_r. apply N.mul_comm.
Qed.

(** C10, corollaries in the words of the property: never 'absent' for a key that is present throughout the call, never
    a value the key was not associated with at an instant of the call (so no value of another key, no torn value) *)
Corollary vhmg_never_absent_if_present hash cap s h a t k s' es : 0 < cap ->
  exec hash cap s h -> step hash s a = Some (s', es) -> a = Step t -> get_key (th s t) = Some k -> Bnd s' ->
  (forall m, (m <= length h)%nat -> get_key (th (nth m (s :: h) s) t) = Some k ->
             lookup k (g_map (nth m (s :: h) s)) <> None) ->
  ~ In (ERet t [4; 0]) es.
Proof.
  intros Hc He Hs Ea Hk HB Hp Hr.
  destruct (vhmg_try_get_value_linearizable hash cap Hc _ _ _ _ _ _ _ _ He Hs Ea Hk Hr HB) as (m & M1 & M2 & [(v & E & _)|[_ M3]]); [discriminate|].
  apply (Hp m M1); [apply M2; lia | exact M3].
Qed.

Corollary vhmg_value_was_associated hash cap s h a t k s' es v : 0 < cap ->
  exec hash cap s h -> step hash s a = Some (s', es) -> a = Step t -> get_key (th s t) = Some k -> Bnd s' ->
  In (ERet t [4; 1; v]) es ->
  exists m, (m <= length h)%nat /\ get_key (th (nth m (s :: h) s) t) = Some k /\
            lookup k (g_map (nth m (s :: h) s)) = Some v.
Proof.
  intros Hc He Hs Ea Hk HB Hr.
  destruct (vhmg_try_get_value_linearizable hash cap Hc _ _ _ _ _ _ _ _ He Hs Ea Hk Hr HB) as (m & M1 & M2 & [(v' & E & M3)|[E _]]); [|discriminate].
  injection E as <-. exists m. split; [exact M1|]. split; [apply M2; lia | exact M3].
Qed.
