(** Hazard pointer model (Model/HpDefs.v), base layer: projections / case analysis tactics and
    Layer O: ownership of the control blocks (thread_block_list entries): a block has at most one owner, owned blocks
    are linked and active, the walks only visit linked blocks.  The other layers: Proof/HpGuards.v, Proof/HpNodes.v,
    Proof/HpInv.v (theorems hp_safe, hp_exactly_once), Proof/HpFlush.v (hp_no_leak_at_quiescence_partial). *)
From Coq Require Import NArith List Bool Arith Lia PeanoNat.
From XV Require Import Conc.Lts Conc.Ev Model.HpDefs.
Import ListNotations.

Ltac prj := cbn [cells blist est hz aband nact nalloc nextid nid th tl g_owner g_life g_where g_nfree g_uaf
                 rcd hint fl gd rl hp ptr gv s_k s_cap s_vec s_prot s_ad
                 w_cells w_blist w_est w_hz w_aband w_nact w_nalloc w_nextid w_nid w_th w_tl w_g_owner w_g_life w_g_where w_g_nfree w_g_uaf
                 wt_rcd wt_hint wt_fl wt_gd wt_rl set_pc set_tl set_gd free_all move_all deref deref_g reset_guard].
Ltac prjh H := cbn [cells blist est hz aband nact nalloc nextid nid th tl g_owner g_life g_where g_nfree g_uaf
                 rcd hint fl gd rl hp ptr gv s_k s_cap s_vec s_prot s_ad
                 w_cells w_blist w_est w_hz w_aband w_nact w_nalloc w_nextid w_nid w_th w_tl w_g_owner w_g_life w_g_where w_g_nfree w_g_uaf
                 wt_rcd wt_hint wt_fl wt_gd wt_rl set_pc set_tl set_gd free_all move_all deref deref_g reset_guard] in H.

(** exit_guards: the first guard from [g] on that owns a hazard pointer, or ~thread_data *)
Lemma exit_guards_spec st t f : forall g e r,
  exit_guards st t g f e = r ->
  (exists g', g <= g' < g + f /\ hp (gd (tl st t) g') <> None /\ (forall j, g <= j < g' -> hp (gd (tl st t) j) = None) /\ Some (set_pc t (X0 g') st, e) = r)
  \/ ((forall j, g <= j < g + f -> hp (gd (tl st t) j) = None) /\ exit_td st t e = r).
Proof.
  induction f as [|f IH]; intros g e r H; cbn [exit_guards] in H.
  - right. split; [intros j Hj; lia|congruence].
  - destruct (hp (gd (tl st t) g)) eqn:Hg.
    + left. exists g. split; [lia|]. split; [congruence|]. split; [intros j Hj; lia|congruence].
    + destruct (IH (S g) e r H) as [(g' & H1 & H2 & H3 & H4)|[H1 H2]].
      * left. exists g'. split; [lia|]. split; [exact H2|]. split; [|exact H4].
        intros j Hj. destruct (Nat.eq_dec j g) as [->|Hne]; [exact Hg|apply H3; lia].
      * right. split; [|exact H2]. intros j Hj. destruct (Nat.eq_dec j g) as [->|Hne]; [exact Hg|apply H1; lia].
Qed.

(** case analysis of a step down to the leaves: every leaf has the new state as an explicit term *)
Ltac des1 H :=
  match type of H with
  | context [match ?x with _ => _ end] =>
    match x with
    | context [match _ with _ => _ end] => fail 1
    | _ => let E := fresh "E" in destruct x eqn:E
    end
  end.
Ltac unf H := unfold acq_done, acq_loop, ret_reset, throw, alloc_hp, walk, scan_next, exit_rel, exit_td, finish, push in H.
Ltac exg H :=
  match type of H with
  | exit_guards _ _ _ _ _ = _ =>
    apply exit_guards_spec in H;
    let g' := fresh "g'" in let Hg1 := fresh "Hg1" in let Hg2 := fresh "Hg2" in let Hg3 := fresh "Hg3" in
    destruct H as [(g' & Hg1 & Hg2 & Hg3 & H)|[Hg1 H]]; [|unfold exit_td, exit_rel in H; repeat des1 H]
  end.
Ltac leaves H := repeat first [progress unf H | des1 H]; try discriminate H; try exg H; try (injection H as <- <-); cbn [guard_of cell_of] in *.
Ltac dg := unfold deref_g in *; repeat match goal with |- context [match ?x with Some _ => _ | None => _ end] => destruct x eqn:? end;
  cbn [tl deref w_g_uaf] in *.


Lemma upd_upd {X} (f : nat -> X) t a b x : upd (upd f t a) t b x = upd f t b x.
Proof. unfold upd. destruct (Nat.eqb x t); reflexivity. Qed.

Ltac upds :=
  repeat first [ rewrite upd_upd | rewrite upd_same | rewrite upd_other by (first [assumption | congruence | lia]) ].
Ltac upds_in H :=
  repeat first [ rewrite upd_upd in H | rewrite upd_same in H | rewrite upd_other in H by (first [assumption | congruence | lia]) ].

Lemma oeqb_eq a b : oeqb a b = true <-> a = b.
Proof.
  destruct a, b; cbn; split; intros H; try congruence; try reflexivity.
  - apply Nat.eqb_eq in H. congruence.
  - injection H as ->. apply Nat.eqb_refl.
Qed.

(** * Layer O: ownership of the control blocks *)
Definition pendb (p : pc) : option nat := match p with A1 _ _ b | A2 _ _ b | A3 _ _ b _ => Some b | _ => None end.
Definition seek (p : pc) : bool :=
  match p with W0 _ _ | W1 _ _ _ _ | W2 _ _ _ _ | A1 _ _ _ | A2 _ _ _ | A3 _ _ _ _ => true | _ => false end.

(** the walks only visit linked control blocks *)
Definition walk_ok (st : state) (p : pc) : Prop :=
  match p with
  | W1 _ _ r rest | W2 _ _ r rest => forall b, In b (r :: rest) -> In b (blist st)
  | S5 _ r rest | S6 _ r rest _ => forall b, In b (r :: rest) -> In b (blist st)
  | _ => True
  end.


Record InvO (st : state) : Prop := mkO {
  O_rcd : forall t b, rcd (tl st t) = Some b -> g_owner st b = Some t /\ In b (blist st) /\ est st b = 2;
  O_own : forall t b, g_owner st b = Some t -> rcd (tl st t) = Some b \/ pendb (th st t) = Some b;
  O_pend : forall t b, pendb (th st t) = Some b -> g_owner st b = Some t /\ ~ In b (blist st) /\ est st b = 2;
  O_seek : forall t, seek (th st t) = true -> rcd (tl st t) = None;
  O_free : forall b, est st b = 0 -> g_owner st b = None;
  O_lt : forall b, nalloc st <= b -> g_owner st b = None /\ ~ In b (blist st);
  O_walk : forall t, walk_ok st (th st t) }.

Lemma InvO_frame st st' :
  blist st' = blist st -> (forall b, est st' b = est st b) -> (forall b, g_owner st' b = g_owner st b) -> nalloc st <= nalloc st' ->
  (forall t, rcd (tl st' t) = rcd (tl st t)) ->
  (forall t, pendb (th st' t) = pendb (th st t)) ->
  (forall t, seek (th st' t) = true -> seek (th st t) = true \/ rcd (tl st t) = None) ->
  (forall t, walk_ok st (th st t) -> walk_ok st' (th st' t)) ->
  InvO st -> InvO st'.
Proof.
  intros Hb He Ho Hn Hr Hp Hs Hw [I1 I2 I3 I4 I5 I6 I7].
  constructor; rewrite ?Hb; intros; rewrite ?He, ?Ho, ?Hr, ?Hp in *.
  - apply I1. assumption.
  - apply I2. assumption.
  - apply I3. assumption.
  - destruct (Hs t H) as [H1|H1]; [apply I4|]; assumption.
  - apply I5. assumption.
  - apply I6. lia.
  - apply Hw, I7.
Qed.

(** two threads never own the same control block *)
Lemma own_inj st t t' b : InvO st -> rcd (tl st t) = Some b -> rcd (tl st t') = Some b -> t = t'.
Proof.
  intros HI H1 H2. destruct (O_rcd st HI t b H1) as [Ha _]. destruct (O_rcd st HI t' b H2) as [Hb _]. congruence.
Qed.

Section InvO.
Variable nslots : nat.

Ltac wk :=
  match goal with
  | H : forall b, In b _ -> In b (blist _) |- In _ (blist _) => apply H; cbn [In] in *; tauto
  | E : blist ?st = _ |- In _ (blist ?st) => rewrite E; cbn [In] in *; tauto
  | H : forall b, In b _ -> In b (blist _) |- In _ (_ :: blist _) => right; apply H; cbn [In] in *; tauto
  end.
Ltac thr t' t Hth :=
  destruct (Nat.eq_dec t' t) as [->|?]; upds; rewrite ?Hth; cbn [pendb seek walk_ok]; prj; intros;
  first [reflexivity | tauto | congruence | discriminate | wk | exact I].
Ltac fr t Hth := first [reflexivity | assumption | lia | (let t' := fresh "t'" in intros t'; thr t' t Hth)].

(** a new control block *)
Lemma InvO_new st t p :
  InvO st -> seek (th st t) = true -> pendb (th st t) = None -> pendb p = Some (nalloc st) -> seek p = true ->
  (forall s, walk_ok s p) ->
  InvO (set_pc t p (w_nalloc (S (nalloc st)) (w_est (upd (est st) (nalloc st) 2) (w_g_owner (upd (g_owner st) (nalloc st) (Some t)) st)))).
Proof.
  intros [I1 I2 I3 I4 I5 I6 I7] Hs Hp Hp' Hs' Hwp. set (b := nalloc st) in *.
  assert (Hb : g_owner st b = None /\ ~ In b (blist st)) by (apply I6; unfold b; lia).
  destruct Hb as [Hb1 Hb2].
  constructor; prj; fold b.
  - intros t' b' H. destruct (I1 t' b' H) as (H1 & H2 & H3).
    assert (b' <> b) by congruence. upds. tauto.
  - intros t' b' H. destruct (Nat.eq_dec b' b) as [->|Hne]; upds_in H.
    + injection H as <-. right. upds. exact Hp'.
    + destruct (Nat.eq_dec t' t) as [->|Hnt]; upds; [|apply I2; exact H].
      destruct (I2 t b' H) as [H1|H1]; [left; exact H1|congruence].
  - intros t' b' H. destruct (Nat.eq_dec t' t) as [->|Hnt]; upds_in H.
    + rewrite Hp' in H. injection H as <-. upds. tauto.
    + destruct (I3 t' b' H) as (H1 & H2 & H3). assert (b' <> b) by congruence. upds. tauto.
  - intros t' H. destruct (Nat.eq_dec t' t) as [->|Hnt]; upds_in H; [apply I4; exact Hs|apply I4; exact H].
  - intros b' H. destruct (Nat.eq_dec b' b) as [->|Hne]; upds_in H; [discriminate|]. upds. apply I5. exact H.
  - intros b' H. assert (b' <> b) by (unfold b; lia). upds. apply I6. unfold b in *. lia.
  - intros t'. destruct (Nat.eq_dec t' t) as [->|Hnt]; upds; [apply Hwp|]. specialize (I7 t'). destruct (th st t'); exact I7.
Qed.


(** adoption of a free control block *)
Lemma InvO_adopt st t r p :
  InvO st -> seek (th st t) = true -> pendb (th st t) = None -> est st r = 0 -> In r (blist st) -> pendb p = None -> seek p = false ->
  (forall s, walk_ok s p) ->
  InvO (set_pc t p (set_tl t (wt_rcd (Some r) (tl st t)) (w_est (upd (est st) r 2) (w_g_owner (upd (g_owner st) r (Some t)) st)))).
Proof.
  intros [I1 I2 I3 I4 I5 I6 I7] Hs Hp He Hin Hp' Hs' Hwp.
  assert (Hr : g_owner st r = None) by (apply I5; exact He).
  assert (Ht : rcd (tl st t) = None) by (apply I4; exact Hs).
  constructor; prj.
  - intros t' b' H. destruct (Nat.eq_dec t' t) as [->|Hnt]; upds_in H.
    + cbn in H. injection H as <-. upds. tauto.
    + destruct (I1 t' b' H) as (H1 & H2 & H3). assert (b' <> r) by congruence. upds. tauto.
  - intros t' b' H. destruct (Nat.eq_dec b' r) as [->|Hne]; upds_in H.
    + injection H as <-. left. upds. reflexivity.
    + destruct (Nat.eq_dec t' t) as [->|Hnt]; upds; [|apply I2; exact H].
      destruct (I2 t b' H) as [H1|H1]; congruence.
  - intros t' b' H. destruct (Nat.eq_dec t' t) as [->|Hnt]; upds_in H; [congruence|].
    destruct (I3 t' b' H) as (H1 & H2 & H3). assert (b' <> r) by congruence. upds. tauto.
  - intros t' H. destruct (Nat.eq_dec t' t) as [->|Hnt]; upds_in H; [congruence|]. upds. apply I4; exact H.
  - intros b' H. destruct (Nat.eq_dec b' r) as [->|Hne]; upds_in H; [discriminate|]. upds. apply I5. exact H.
  - intros b' H. destruct (I6 b' H) as [H1 H2]. assert (b' <> r) by (intros ->; contradiction). upds. tauto.
  - intros t'. destruct (Nat.eq_dec t' t) as [->|Hnt]; upds; [apply Hwp|]. specialize (I7 t'). destruct (th st t'); exact I7.
Qed.

(** the new control block is linked into the list *)
Lemma InvO_link st t b p :
  InvO st -> pendb (th st t) = Some b -> pendb p = None -> seek p = false ->
  (forall s, walk_ok s p) ->
  InvO (set_pc t p (set_tl t (wt_rcd (Some b) (tl st t)) (w_blist (b :: blist st) st))).
Proof.
  intros [I1 I2 I3 I4 I5 I6 I7] Hp Hp' Hs' Hwp.
  destruct (I3 t b Hp) as (Ho & Hnin & He).
  assert (Ht : rcd (tl st t) = None) by (apply I4; destruct (th st t); cbn in Hp; try discriminate; reflexivity).
  constructor; prj.
  - intros t' b' H. destruct (Nat.eq_dec t' t) as [->|Hnt]; upds_in H.
    + cbn in H. injection H as <-. split; [exact Ho|]. split; [left; reflexivity|exact He].
    + destruct (I1 t' b' H) as (H1 & H2 & H3). split; [exact H1|]. split; [right; exact H2|exact H3].
  - intros t' b' H. destruct (Nat.eq_dec t' t) as [->|Hnt]; upds; [|apply I2; exact H].
    destruct (I2 t b' H) as [H1|H1]; [congruence|]. left. cbn. congruence.
  - intros t' b' H. destruct (Nat.eq_dec t' t) as [->|Hnt]; upds_in H; [congruence|].
    destruct (I3 t' b' H) as (H1 & H2 & H3). split; [exact H1|]. split; [|exact H3].
    intros [<-|Hc]; [congruence|contradiction].
  - intros t' H. destruct (Nat.eq_dec t' t) as [->|Hnt]; upds_in H; [congruence|]. upds. apply I4; exact H.
  - exact I5.
  - intros b' H. destruct (I6 b' H) as [H1 H2]. split; [exact H1|]. intros [<-|Hc]; [congruence|contradiction].
  - intros t'. destruct (Nat.eq_dec t' t) as [->|Hnt]; upds; [apply Hwp|]. specialize (I7 t').
    destruct (th st t'); cbn [walk_ok] in *; prj; try exact I; intros x Hx; right; apply I7; exact Hx.
Qed.

(** release_entry *)
Lemma InvO_release st t b p :
  InvO st -> rcd (tl st t) = Some b -> pendb (th st t) = None -> pendb p = None -> seek p = false ->
  (forall s, walk_ok s p) ->
  InvO (set_pc t p (set_tl t (mkTl None None [] (gd (tl st t)) (rl (tl st t))) (w_est (upd (est st) b 0) (w_g_owner (upd (g_owner st) b None) st)))).
Proof.
  intros [I1 I2 I3 I4 I5 I6 I7] Hr Hp Hp' Hs' Hwp.
  destruct (I1 t b Hr) as (Ho & Hin & He).
  constructor; prj.
  - intros t' b' H. destruct (Nat.eq_dec t' t) as [->|Hnt]; upds_in H; [discriminate|].
    destruct (I1 t' b' H) as (H1 & H2 & H3). assert (b' <> b) by congruence. upds. tauto.
  - intros t' b' H. destruct (Nat.eq_dec b' b) as [->|Hne]; upds_in H; [discriminate|].
    destruct (Nat.eq_dec t' t) as [->|Hnt]; upds; [|apply I2; exact H].
    destruct (I2 t b' H) as [H1|H1]; congruence.
  - intros t' b' H. destruct (Nat.eq_dec t' t) as [->|Hnt]; upds_in H; [congruence|].
    destruct (I3 t' b' H) as (H1 & H2 & H3). assert (b' <> b) by congruence. upds. tauto.
  - intros t' H. destruct (Nat.eq_dec t' t) as [->|Hnt]; upds_in H; [congruence|]. upds. apply I4; exact H.
  - intros b' H. destruct (Nat.eq_dec b' b) as [->|Hne]; upds; [reflexivity|]. upds_in H. apply I5. exact H.
  - intros b' H. destruct (I6 b' H) as [H1 H2]. destruct (Nat.eq_dec b' b) as [->|Hne]; upds; tauto.
  - intros t'. destruct (Nat.eq_dec t' t) as [->|Hnt]; upds; [apply Hwp|]. specialize (I7 t'). destruct (th st t'); exact I7.
Qed.

Lemma InvO_step st a st' es :
  InvO st -> step nslots st a = Some (st', es) -> InvO st'.
Proof.
  intros HI Hs. pose proof (O_walk st HI) as HW. destruct a as [t o|t]; cbn [step] in Hs.
  - destruct (th st t) eqn:Hth; try discriminate Hs. destruct (legal nslots o); [|discriminate Hs].
    injection Hs as <- <-. apply (InvO_frame st); prj; fr t Hth.
  - pose proof (HW t) as Hw. destruct (th st t) eqn:Hth; try discriminate Hs.
    all: leaves Hs.
    all: try (dg; apply (InvO_frame st); prj; fr t Hth; fail).
    + apply InvO_new; rewrite ?Hth; auto; intros; exact I.
    + apply InvO_new; rewrite ?Hth; auto; intros; exact I.
    + apply InvO_adopt; rewrite ?Hth; auto; [apply Nat.eqb_eq; assumption|apply Hw; left; reflexivity|intros; exact I].
    + apply InvO_new; rewrite ?Hth; auto; intros; exact I.
    + destruct (O_pend st HI t b) as (H1 & H2 & H3); [rewrite Hth; reflexivity|].
      apply (InvO_frame st); prj; try fr t Hth.
      intros x. unfold upd. destruct (Nat.eqb_spec x b); congruence.
    + apply InvO_link; rewrite ?Hth; auto; intros; exact I.
    + apply InvO_release; rewrite ?Hth; auto; intros; exact I.
Qed.
End InvO.

Lemma InvO_init ncells : InvO (init ncells).
Proof.
  constructor; cbn; intros; try discriminate; try tauto; try exact I.
Qed.

