(** Correctness invariants of the Michael-Scott queue model (Model/MsqDefs.v):
    chain structure, FIFO ghost relation, value returned by pop, emptiness linearization point,
    tail lag.  All theorems hold for every reachable state (any number of threads, any program). *)
From Coq Require Import NArith List Bool Lia ZifyBool PeanoNat FinFun.
From XV Require Import Base.Word Conc.Lts Conc.Ev Model.MsqDefs.
Import ListNotations.
Local Open Scope N_scope.

(** * Null-terminated paths *)

(** [lpath nx l]: [l] is non-empty, all its elements are non-null, each element's [nx] is the
    following element and the [nx] of the last element is null. *)
Inductive lpath (nx : N -> N) : list N -> Prop :=
| lp_one a : a <> 0 -> nx a = 0 -> lpath nx [a]
| lp_cons a b r : a <> 0 -> nx a = b -> lpath nx (b :: r) -> lpath nx (a :: b :: r).

Lemma lpath_hd_nz nx a r : lpath nx (a :: r) -> a <> 0.
Proof. intros H. inversion H; assumption. Qed.

Lemma lpath_nz nx l : lpath nx l -> forall x, In x l -> x <> 0.
Proof.
  induction 1 as [a Ha Hn | a b r Ha Hn Hp IH]; intros x Hx.
  - destruct Hx as [<- | []]. exact Ha.
  - destruct Hx as [<- | Hx]; [exact Ha | apply IH; exact Hx].
Qed.

Lemma lpath_suffix nx l1 : forall l2, lpath nx (l1 ++ l2) -> l2 <> [] -> lpath nx l2.
Proof.
  induction l1 as [|a l1 IH]; intros l2 H Hne; [exact H|].
  cbn [app] in H. inversion H as [a' Ha Hn Heq | a' b r Ha Hn Hp Heq].
  - destruct l1; destruct l2; try discriminate. congruence.
  - apply IH; [rewrite <- H0; exact Hp | exact Hne].
Qed.

Lemma lpath_next_in nx l : lpath nx l -> forall a, In a l -> nx a <> 0 -> In (nx a) l.
Proof.
  induction 1 as [a0 Ha Hn | a0 b r Ha Hn Hp IH]; intros a Hin Hnz.
  - destruct Hin as [<- | []]. congruence.
  - destruct Hin as [<- | Hin].
    + right. left. symmetry. exact Hn.
    + right. apply IH; assumption.
Qed.

Lemma lpath_ext nx nx' l : lpath nx l -> (forall x, In x l -> nx' x = nx x) -> lpath nx' l.
Proof.
  induction 1 as [a Ha Hn | a b r Ha Hn Hp IH]; intros He.
  - apply lp_one; [exact Ha|]. rewrite He; [exact Hn | left; reflexivity].
  - apply lp_cons; [exact Ha | | ].
    + rewrite He; [exact Hn | left; reflexivity].
    + apply IH. intros x Hx. apply He. right. exact Hx.
Qed.

Lemma setf_same f i v : setf f i v i = v.
Proof. unfold setf. rewrite N.eqb_refl. reflexivity. Qed.
Lemma setf_other f i v j : j <> i -> setf f i v j = f j.
Proof. unfold setf. intros H. destruct (N.eqb_spec j i); [contradiction|reflexivity]. Qed.

Lemma lpath_snoc nx l : lpath nx l -> forall a n, In a l -> nx a = 0 -> ~ In n l -> n <> 0 -> nx n = 0 ->
  lpath (setf nx a n) (l ++ [n]).
Proof.
  induction 1 as [a0 Ha Hn | a0 b r Ha Hn Hp IH]; intros a n Hin Hz Hnin Hnz Hnn.
  - destruct Hin as [<- | []]. cbn [app].
    assert (n <> a0) by (intros ->; apply Hnin; left; reflexivity).
    apply lp_cons; [exact Ha | apply setf_same | ].
    apply lp_one; [exact Hnz | rewrite setf_other by assumption; exact Hnn].
  - assert (Hb : b <> 0) by (eapply lpath_hd_nz; exact Hp).
    destruct Hin as [<- | Hin]; [congruence|].
    assert (a0 <> a) by congruence.
    cbn [app]. change (b :: r ++ [n]) with ((b :: r) ++ [n]).
    destruct ((b :: r) ++ [n]) as [|b' r'] eqn:E; [discriminate|].
    assert (b' = b) by (cbn [app] in E; congruence). subst b'.
    apply lp_cons; [exact Ha | rewrite setf_other by assumption; exact Hn | ].
    rewrite <- E. apply IH; try assumption.
    intros Hc. apply Hnin. right. exact Hc.
Qed.

Lemma lpath_hd_null nx a r : lpath nx (a :: r) -> nx a = 0 -> r = [].
Proof.
  intros H Hz. inversion H as [a' Ha Hn | a' b r' Ha Hn Hp]; [reflexivity|].
  subst. apply lpath_hd_nz in Hp. congruence.
Qed.

Lemma lpath_hd_next nx a r : lpath nx (a :: r) -> nx a <> 0 -> exists r', r = nx a :: r'.
Proof.
  intros H Hz. inversion H as [a' Ha Hn | a' b r' Ha Hn Hp]; [congruence|].
  subst. eexists. reflexivity.
Qed.

Lemma lpath_tl nx a b r : lpath nx (a :: b :: r) -> lpath nx (b :: r).
Proof. intros H. inversion H; assumption. Qed.

Lemma lpath_last nx l : lpath nx l -> forall a, In a l -> nx a = 0 -> exists l0, l = l0 ++ [a].
Proof.
  induction 1 as [a0 Ha Hn | a0 b r Ha Hn Hp IH]; intros a Hin Hz.
  - destruct Hin as [<- | []]. exists []. reflexivity.
  - assert (Hb : b <> 0) by (eapply lpath_hd_nz; exact Hp).
    destruct Hin as [<- | Hin]; [congruence|].
    destruct (IH a Hin Hz) as [l0 E]. exists (a0 :: l0). rewrite E. reflexivity.
Qed.

Lemma lpath_last2 nx l : lpath nx l -> forall a b, In a l -> nx a = b -> b <> 0 -> nx b = 0 ->
  exists l0, l = l0 ++ [a; b].
Proof.
  induction 1 as [a0 Ha Hn | a0 b0 r Ha Hn Hp IH]; intros a b Hin Hab Hb Hz.
  - destruct Hin as [<- | []]. congruence.
  - destruct Hin as [<- | Hin].
    + assert (Eb : b0 = b) by congruence. clear Hn. subst b0.
      rewrite (lpath_hd_null _ _ _ Hp Hz). exists []. reflexivity.
    + destruct (IH a b Hin Hab Hb Hz) as [l0 E]. exists (a0 :: l0). rewrite E. reflexivity.
Qed.

(** elements in front of a non-empty suffix keep a non-null link *)
Lemma lpath_prefix_link nx r : forall l, lpath nx (r ++ l) -> l <> [] -> forall x, In x r -> nx x <> 0.
Proof.
  induction r as [|a r IH]; intros l H Hne x Hx; [destruct Hx|].
  cbn [app] in H. inversion H as [a' Ha Hn Heq | a' b r' Ha Hn Hp Heq].
  - destruct r; destruct l; try discriminate. congruence.
  - destruct Hx as [<- | Hx].
    + rewrite Hn. eapply lpath_hd_nz. exact Hp.
    + apply (IH l); [rewrite <- H0; exact Hp | exact Hne | exact Hx].
Qed.

Lemma lpath_nth nx l : lpath nx l -> forall i, (S i < length l)%nat -> nth (S i) l 0 = nx (nth i l 0).
Proof.
  induction 1 as [a Ha Hn | a b r Ha Hn Hp IH]; intros i Hi.
  - cbn [length] in Hi. lia.
  - destruct i as [|i].
    + cbn [nth]. symmetry. exact Hn.
    + change (nth (S (S i)) (a :: b :: r) 0) with (nth (S i) (b :: r) 0).
      change (nth (S i) (a :: b :: r) 0) with (nth i (b :: r) 0).
      apply IH. cbn [length] in *. lia.
Qed.

Lemma lpath_last_null nx l : lpath nx l -> nx (last l 0) = 0.
Proof.
  induction 1 as [a Ha Hn | a b r Ha Hn Hp IH]; [exact Hn|].
  change (last (a :: b :: r) 0) with (last (b :: r) 0). exact IH.
Qed.

(** a path is determined by its first element *)
Lemma lpath_unique nx l : lpath nx l -> forall l', lpath nx l' -> hd 0 l = hd 0 l' -> l = l'.
Proof.
  induction 1 as [a Ha Hn | a b r Ha Hn Hp IH]; intros l' H' Hh.
  - destruct l' as [|a' r']; [inversion H'|]. cbn [hd] in Hh. subst a'.
    rewrite (lpath_hd_null _ _ _ H' Hn). reflexivity.
  - destruct l' as [|a' r']; [inversion H'|]. cbn [hd] in Hh. subst a'.
    assert (Hb : b <> 0) by (eapply lpath_hd_nz; exact Hp).
    destruct (lpath_hd_next _ _ _ H') as [r'' E]; [congruence|]. subst r'. rewrite Hn in *.
    f_equal. apply IH; [eapply lpath_tl; exact H' | reflexivity].
Qed.

(** * The invariant *)

(** the node a pushing thread owns and has not linked yet *)
Definition fresh_of (p : pc) : option N :=
  match p with
  | M1 n | M2 n _ | M3 n _ _ | M4 n _ => Some n
  | _ => None
  end.

(** global part, relative to the chain [l] (the list of nodes from [head] to the null link).
    [g_retired st ++ l] is the list of all nodes ever linked, in link order. *)
Definition G (st : state) (l : list N) : Prop :=
  (exists r, l = head st :: r) /\
  lpath (nnext st) (g_retired st ++ l) /\
  NoDup (g_retired st ++ l) /\
  (forall x, In x (g_retired st ++ l) -> x < nalloc st) /\
  In (tail st) l /\
  (nnext st (tail st) = 0 \/ nnext st (nnext st (tail st)) = 0) /\
  g_in st = g_out st ++ map (nval st) (tl l).

(** per-thread part *)
Definition T (st : state) (l : list N) (p : pc) : Prop :=
  (forall n, fresh_of p = Some n ->
     n <> 0 /\ n < nalloc st /\ ~ In n (g_retired st ++ l) /\ nnext st n = 0) /\
  match p with
  | M2 _ t | M4 _ t => In t (g_retired st ++ l) /\ (nnext st t = 0 -> tail st = t)
  | M3 _ t nx => In t (g_retired st ++ l) /\ nnext st t = nx /\ nx <> 0
  | M5 n t => In t (g_retired st ++ l) /\ nnext st t = n /\ n <> 0
  | D2 h => In h (g_retired st ++ [head st])
  | D3 h nx => In h (g_retired st ++ [head st]) /\ (nx <> 0 -> nnext st h = nx)
  | D4 h nx => In h (g_retired st ++ [head st]) /\ nx <> 0 /\ nnext st h = nx
  | D5 h nx t => t = h /\ In h (g_retired st ++ [head st]) /\ nx <> 0 /\ nnext st h = nx
  | D6 h nx => In h (g_retired st ++ [head st]) /\ nx <> 0 /\ nnext st h = nx /\ tail st <> h
  | _ => True
  end.

(** unlinked nodes of different threads are different *)
Definition U (f : nat -> pc) : Prop :=
  forall t t' n, t <> t' -> fresh_of (f t) = Some n -> fresh_of (f t') = Some n -> False.

Definition Inv (st : state) : Prop :=
  exists l, G st l /\ (forall t, T st l (th st t)) /\ U (th st).

Lemma old_incl_full st l : (exists r, l = head st :: r) ->
  incl (g_retired st ++ [head st]) (g_retired st ++ l).
Proof.
  intros [r ->] x Hx. apply in_app_or in Hx. apply in_or_app.
  destruct Hx as [Hx | [<- | []]]; [left; exact Hx | right; left; reflexivity].
Qed.

(** generic stability of the per-thread part of another thread *)
Lemma T_stable st l st' l' q :
  incl (g_retired st ++ [head st]) (g_retired st ++ l) ->
  incl (g_retired st ++ l) (g_retired st' ++ l') ->
  incl (g_retired st ++ [head st]) (g_retired st' ++ [head st']) ->
  (forall x, In x (g_retired st ++ l) -> nnext st x <> 0 -> nnext st' x = nnext st x) ->
  (forall x, In x (g_retired st ++ l) -> nnext st' x = 0 -> nnext st x = 0 /\ (tail st = x -> tail st' = x)) ->
  (forall h, nnext st h <> 0 -> tail st <> h -> tail st' <> h) ->
  (forall n, fresh_of q = Some n -> n < nalloc st -> ~ In n (g_retired st ++ l) -> nnext st n = 0 ->
     n < nalloc st' /\ ~ In n (g_retired st' ++ l') /\ nnext st' n = 0) ->
  T st l q -> T st' l' q.
Proof.
  intros Hof Hfull Hold Hc1 Hc2 Hd He [Hfr Hq]. split.
  - intros n Hn. destruct (Hfr n Hn) as (H1 & H2 & H3 & H4).
    destruct (He n Hn H2 H3 H4) as (H5 & H6 & H7). repeat split; assumption.
  - destruct q; try exact I.
    + (* M2 *) destruct Hq as [Hin Himp]. split; [apply Hfull; exact Hin|].
      intros Hz. destruct (Hc2 _ Hin Hz) as [Hz' Ht]. apply Ht. apply Himp. exact Hz'.
    + (* M3 *) destruct Hq as (Hin & Hn & Hnz). split; [apply Hfull; exact Hin|]. split; [|exact Hnz].
      rewrite Hc1; [exact Hn | exact Hin | congruence].
    + (* M4 *) destruct Hq as [Hin Himp]. split; [apply Hfull; exact Hin|].
      intros Hz. destruct (Hc2 _ Hin Hz) as [Hz' Ht]. apply Ht. apply Himp. exact Hz'.
    + (* M5 *) destruct Hq as (Hin & Hn & Hnz). split; [apply Hfull; exact Hin|]. split; [|exact Hnz].
      rewrite Hc1; [exact Hn | exact Hin | congruence].
    + (* D2 *) apply Hold. exact Hq.
    + (* D3 *) destruct Hq as [Hin Himp]. split; [apply Hold; exact Hin|].
      intros Hnz. rewrite Hc1; [apply Himp; exact Hnz | apply Hof; exact Hin | rewrite Himp; assumption].
    + (* D4 *) destruct Hq as (Hin & Hnz & Hn). split; [apply Hold; exact Hin|]. split; [exact Hnz|].
      rewrite Hc1; [exact Hn | apply Hof; exact Hin | congruence].
    + (* D5 *) destruct Hq as (Ht & Hin & Hnz & Hn). split; [exact Ht|].
      split; [apply Hold; exact Hin|]. split; [exact Hnz|].
      rewrite Hc1; [exact Hn | apply Hof; exact Hin | congruence].
    + (* D6 *) destruct Hq as (Hin & Hnz & Hn & Htl). split; [apply Hold; exact Hin|]. split; [exact Hnz|].
      split; [rewrite Hc1; [exact Hn | apply Hof; exact Hin | congruence]|].
      apply Hd; [congruence | exact Htl].
Qed.

Lemma threads_upd (P : pc -> Prop) f t p :
  (forall t', t' <> t -> P (f t')) -> P p -> forall t', P (upd f t p t').
Proof.
  intros Ho Hp t'. destruct (Nat.eq_dec t' t) as [->|Hne].
  - rewrite upd_same. exact Hp.
  - rewrite upd_other by exact Hne. apply Ho. exact Hne.
Qed.

Lemma U_upd f t p : U f ->
  (forall n, fresh_of p = Some n -> forall t', t' <> t -> fresh_of (f t') <> Some n) ->
  U (upd f t p).
Proof.
  intros HU Hp a b n Hab Ha Hb.
  destruct (Nat.eq_dec a t) as [->|Ha']; destruct (Nat.eq_dec b t) as [->|Hb'].
  - congruence.
  - rewrite upd_same in Ha. rewrite upd_other in Hb by exact Hb'. exact (Hp n Ha b Hb' Hb).
  - rewrite upd_same in Hb. rewrite upd_other in Ha by exact Ha'. exact (Hp n Hb a Ha' Ha).
  - rewrite upd_other in Ha by assumption. rewrite upd_other in Hb by assumption.
    exact (HU a b n Hab Ha Hb).
Qed.

Lemma U_upd_same f t p : U f -> (fresh_of p = None \/ fresh_of p = fresh_of (f t)) -> U (upd f t p).
Proof.
  intros HU Hp. apply U_upd; [exact HU|]. intros n Hn t' Hne Hc.
  destruct Hp as [Hp|Hp]; [congruence|]. rewrite Hp in Hn. exact (HU t' t n Hne Hc Hn).
Qed.

Ltac prj := cbn [head tail nval nnext nalloc th g_in g_out g_retired].

Lemma NoDup_snoc (l : list N) n : NoDup l -> ~ In n l -> NoDup (l ++ [n]).
Proof.
  induction 1 as [|a l Ha Hnd IH]; intros Hn; cbn [app].
  - constructor; [intros []|constructor].
  - constructor.
    + intros Hc. apply in_app_or in Hc. destruct Hc as [Hc | [<- | []]]; [contradiction|].
      apply Hn. left. reflexivity.
    + apply IH. intros Hc. apply Hn. right. exact Hc.
Qed.

(** ** steps that only move the program counter *)
Lemma step_go st l t p :
  G st l -> (forall t', T st l (th st t')) -> U (th st) ->
  T st l p -> (fresh_of p = None \/ fresh_of p = fresh_of (th st t)) ->
  Inv (mkSt (head st) (tail st) (nval st) (nnext st) (nalloc st) (upd (th st) t p)
            (g_in st) (g_out st) (g_retired st)).
Proof.
  intros HG HT HU Hp Hf. exists l. split; [exact HG|]. split.
  - prj. apply (threads_upd (T st l)); [intros t' _; apply HT | exact Hp].
  - prj. apply U_upd_same; assumption.
Qed.

(** ** steps that swing the tail *)
Lemma step_tail st l t p x :
  G st l -> (forall t', T st l (th st t')) -> U (th st) ->
  T st l p -> (fresh_of p = None \/ fresh_of p = fresh_of (th st t)) ->
  nnext st (tail st) = x -> x <> 0 ->
  Inv (mkSt (head st) x (nval st) (nnext st) (nalloc st) (upd (th st) t p)
            (g_in st) (g_out st) (g_retired st)).
Proof.
  intros HG HT HU Hp Hf Hx Hxnz.
  pose proof HG as (Hhd & Hpath & Hnd & Hlt & Htl & Hlag & Hfifo).
  assert (Hx0 : nnext st x = 0) by (destruct Hlag; congruence).
  assert (Hl : lpath (nnext st) l).
  { eapply lpath_suffix; [exact Hpath|]. destruct Hhd as [r ->]. discriminate. }
  assert (Hxin : In x l).
  { rewrite <- Hx. apply lpath_next_in; [exact Hl | exact Htl | congruence]. }
  set (st' := mkSt _ _ _ _ _ _ _ _ _).
  assert (HS : forall q, T st l q -> T st' l q).
  { intros q Hq. apply (T_stable st l st' l q); subst st'; prj; try apply incl_refl.
    - apply old_incl_full. exact Hhd.
    - intros; reflexivity.
    - intros x0 Hin Hz. split; [exact Hz|]. intros E. exfalso. congruence.
    - intros h Hh _ E. congruence.
    - intros. repeat split; assumption.
    - exact Hq. }
  exists l. split; [|split].
  - unfold G; subst st'; prj. repeat split; try assumption. left. exact Hx0.
  - subst st'; prj. apply (threads_upd (T _ l)); [intros t' _; apply HS, HT | apply HS, Hp].
  - subst st'; prj. apply U_upd_same; assumption.
Qed.

(** ** allocation of a node at the beginning of push *)
Lemma step_alloc st l t v :
  G st l -> (forall t', T st l (th st t')) -> U (th st) ->
  Inv (mkSt (head st) (tail st) (setf (nval st) (nalloc st) v) (setf (nnext st) (nalloc st) 0)
            (nalloc st + 1) (upd (th st) t (M1 (nalloc st))) (g_in st) (g_out st) (g_retired st)).
Proof.
  intros HG HT HU.
  pose proof HG as (Hhd & Hpath & Hnd & Hlt & Htl & Hlag & Hfifo).
  set (n := nalloc st) in *.
  assert (Hne : forall x, In x (g_retired st ++ l) -> x <> n).
  { intros x Hx. apply Hlt in Hx. lia. }
  assert (Htlf : In (tail st) (g_retired st ++ l)) by (apply in_or_app; right; exact Htl).
  set (st' := mkSt _ _ _ _ _ _ _ _ _).
  assert (HS : forall q, T st l q -> T st' l q).
  { intros q Hq. apply (T_stable st l st' l q); subst st'; prj; try apply incl_refl.
    - apply old_incl_full. exact Hhd.
    - intros x Hin _. apply setf_other. apply Hne. exact Hin.
    - intros x Hin Hz. rewrite setf_other in Hz by (apply Hne; exact Hin). split; [exact Hz|auto].
    - intros; assumption.
    - intros n' _ H1 H2 H3. split; [fold n in H1; lia|]. split; [exact H2|].
      rewrite setf_other; [exact H3 | fold n in H1; lia].
    - exact Hq. }
  exists l. split; [|split].
  - unfold G; subst st'; prj. split; [exact Hhd|]. split; [|split; [exact Hnd|split; [|split; [exact Htl|split]]]].
    + eapply lpath_ext; [exact Hpath|]. intros x Hx. apply setf_other. apply Hne. exact Hx.
    + intros x Hx. apply Hlt in Hx. fold n in Hx. lia.
    + rewrite (setf_other _ _ _ (tail st)) by (apply Hne; exact Htlf).
      destruct Hlag as [Hz | Hz]; [left; exact Hz|]. right.
      unfold setf. destruct (N.eqb_spec (nnext st (tail st)) n); [reflexivity | exact Hz].
    + rewrite Hfifo. f_equal. apply map_ext_in. intros x Hx. symmetry. apply setf_other.
      apply Hne. apply in_or_app. right. destruct Hhd as [r ->]. right. exact Hx.
  - subst st'; prj. apply (threads_upd (T _ l)); [intros t' _; apply HS, HT |].
    split; [|exact I]. cbn [fresh_of]. intros n' E. injection E as <-. prj.
    assert (Hh : head st < n).
    { apply Hlt. apply in_or_app. right. destruct Hhd as [r ->]. left. reflexivity. }
    split; [lia|]. split; [lia|]. split; [|apply setf_same].
    intros Hc. apply (Hne _ Hc). reflexivity.
  - subst st'; prj. apply U_upd; [exact HU|]. cbn [fresh_of]. intros n' E t' _ Hc. injection E as <-.
    destruct (HT t') as [Hfr _]. destruct (Hfr _ Hc) as (_ & Hlt' & _). fold n in Hlt'. lia.
Qed.

(** ** the successful link CAS of push (linearization point of push) *)
Lemma step_link st l t n tl0 :
  G st l -> (forall t', T st l (th st t')) -> U (th st) ->
  th st t = M4 n tl0 -> nnext st tl0 = 0 ->
  Inv (mkSt (head st) (tail st) (nval st) (setf (nnext st) tl0 n) (nalloc st) (upd (th st) t (M5 n tl0))
            (g_in st ++ [nval st n]) (g_out st) (g_retired st)).
Proof.
  intros HG HT HU E Hz.
  pose proof HG as (Hhd & Hpath & Hnd & Hlt & Htl & Hlag & Hfifo).
  pose proof (HT t) as Ht. rewrite E in Ht. destruct Ht as [Hfr [Hin Himp]].
  destruct (Hfr n eq_refl) as (Hn0 & Hnlt & Hnin & Hnn).
  assert (Htt : tail st = tl0) by (apply Himp; exact Hz).
  assert (Hntl : n <> tl0) by (intros ->; contradiction).
  set (st' := mkSt _ _ _ _ _ _ _ _ _).
  assert (HS : forall q, fresh_of q <> Some n -> T st l q -> T st' (l ++ [n]) q).
  { intros q Hqn Hq. apply (T_stable st l st' (l ++ [n]) q); subst st'; prj; try apply incl_refl.
    - apply old_incl_full. exact Hhd.
    - rewrite app_assoc. apply incl_appl, incl_refl.
    - intros x Hx Hnz. apply setf_other. congruence.
    - intros x Hx Hxz. assert (x <> tl0) by (intros ->; rewrite setf_same in Hxz; contradiction).
      rewrite setf_other in Hxz by assumption. split; [exact Hxz|auto].
    - intros; assumption.
    - intros n' Hn' H1 H2 H3. split; [exact H1|]. split.
      + rewrite app_assoc. intros Hc. apply in_app_or in Hc. destruct Hc as [Hc | [Hc | []]]; [contradiction|].
        congruence.
      + rewrite setf_other; [exact H3|]. intros ->. contradiction.
    - exact Hq. }
  exists (l ++ [n]). split; [|split].
  - unfold G; subst st'; prj. rewrite !app_assoc.
    split; [|split; [|split; [|split; [|split; [|split]]]]].
    + destruct Hhd as [r ->]. exists (r ++ [n]). reflexivity.
    + apply lpath_snoc; assumption.
    + apply NoDup_snoc; assumption.
    + intros x Hx. apply in_app_or in Hx. destruct Hx as [Hx | [<- | []]]; [apply Hlt; exact Hx | exact Hnlt].
    + apply in_or_app. left. exact Htl.
    + right. rewrite Htt, setf_same. rewrite setf_other by exact Hntl. exact Hnn.
    + destruct Hhd as [r ->]. cbn [app tl] in *. rewrite map_app. cbn [map].
      rewrite Hfifo. rewrite app_assoc. reflexivity.
  - subst st'; prj. apply (threads_upd (T _ (l ++ [n]))).
    + intros t' Hne. apply HS; [|apply HT]. intros Hc.
      apply (HU t' t n Hne Hc). rewrite E. reflexivity.
    + split; [intros n' Hc; discriminate|]. prj. split; [|split; [apply setf_same | exact Hn0]].
      rewrite app_assoc. apply in_or_app. left. exact Hin.
  - subst st'; prj. apply U_upd_same; [exact HU|]. left. reflexivity.
Qed.

(** ** the successful head CAS of pop (linearization point of a non-empty pop) *)
Lemma step_unlink st l t h nx :
  G st l -> (forall t', T st l (th st t')) -> U (th st) ->
  th st t = D6 h nx -> head st = h ->
  Inv (mkSt nx (tail st) (nval st) (nnext st) (nalloc st) (upd (th st) t Idle)
            (g_in st) (g_out st ++ [nval st nx]) (g_retired st ++ [h])).
Proof.
  intros HG HT HU E Hh.
  pose proof HG as (Hhd & Hpath & Hnd & Hlt & Htl & Hlag & Hfifo).
  pose proof (HT t) as Ht. rewrite E in Ht. destruct Ht as [_ (Hin & Hnz & Hn & Htlh)].
  destruct Hhd as [r Hl]. rewrite Hh in Hl.
  assert (Hpl : lpath (nnext st) l).
  { eapply lpath_suffix; [exact Hpath|]. rewrite Hl. discriminate. }
  rewrite Hl in Hpl. destruct (lpath_hd_next _ _ _ Hpl) as [r' Hr]; [congruence|].
  rewrite Hn in Hr. subst r. subst l.
  assert (Hfull : (g_retired st ++ [h]) ++ nx :: r' = g_retired st ++ h :: nx :: r').
  { rewrite <- app_assoc. reflexivity. }
  set (st' := mkSt _ _ _ _ _ _ _ _ _).
  assert (HS : forall q, T st (h :: nx :: r') q -> T st' (nx :: r') q).
  { intros q Hq. apply (T_stable st (h :: nx :: r') st' (nx :: r') q); subst st'; prj; try rewrite Hfull; try apply incl_refl.
    - apply old_incl_full. exists (nx :: r'). rewrite Hh. reflexivity.
    - rewrite Hh. apply incl_appl, incl_refl.
    - intros; reflexivity.
    - intros; split; auto.
    - intros; assumption.
    - intros. repeat split; assumption.
    - exact Hq. }
  exists (nx :: r'). split; [|split].
  - unfold G; subst st'; prj. rewrite Hfull.
    split; [exists r'; reflexivity|]. split; [exact Hpath|]. split; [exact Hnd|]. split; [exact Hlt|].
    split; [|split; [exact Hlag|]].
    + destruct Htl as [Hc | Hc]; [congruence | exact Hc].
    + cbn [tl map] in *. rewrite Hfifo. rewrite <- app_assoc. reflexivity.
  - subst st'; prj. apply (threads_upd (T _ (nx :: r'))); [intros t' _; apply HS, HT|].
    split; [intros n' Hc; discriminate | exact I].
  - subst st'; prj. apply U_upd_same; [exact HU|]. left. reflexivity.
Qed.

Lemma Inv_init : Inv init.
Proof.
  exists [1]. split; [|split].
  - unfold G, init; prj. cbn [app tl map].
    split; [exists []; reflexivity|]. split; [apply lp_one; [discriminate|reflexivity]|].
    split; [constructor; [intros []|constructor]|].
    split; [intros x [<- | []]; reflexivity|].
    split; [left; reflexivity|]. split; [left; reflexivity | reflexivity].
  - intros t. unfold init; prj. split; [intros n Hc; discriminate | exact I].
  - intros t t' n _ Hc. discriminate.
Qed.

Lemma Inv_step s a s' es : Inv s -> step s a = Some (s', es) -> Inv s'.
Proof.
  intros [l (HG & HT & HU)] Hst. unfold step in Hst. destruct a as [t o | t].
  - destruct (th s t) eqn:E; try discriminate. injection Hst as <- <-.
    refine (step_go s l t _ HG HT HU _ _).
    + split; [intros n Hc; discriminate | exact I].
    + left; reflexivity.
  - pose proof (HT t) as Ht. pose proof HG as (Hhd & Hpath & Hnd & Hlt & Htl & Hlag & Hfifo).
    destruct (th s t) eqn:E; cbv beta iota zeta in Hst; try discriminate.
    + (* Begin *) destruct o as [v|]; injection Hst as <- <-.
      * apply (step_alloc s l); assumption.
      * refine (step_go s l t _ HG HT HU _ _); [|left; reflexivity].
        split; [intros n Hc; discriminate | exact I].
    + (* M1 *) injection Hst as <- <-. destruct Ht as [Hfr _].
      refine (step_go s l t _ HG HT HU _ _); [|right; rewrite E; reflexivity].
      split; [exact Hfr|]. split; [apply in_or_app; right; exact Htl | reflexivity].
    + (* M2 *) injection Hst as <- <-. destruct Ht as [Hfr [Hin Himp]].
      refine (step_go s l t _ HG HT HU _ _).
      * destruct (N.eqb_spec (nnext s t0) 0) as [Hz|Hz]; (split; [exact Hfr|]).
        -- split; assumption.
        -- split; [exact Hin|]. split; [reflexivity | exact Hz].
      * right. rewrite E. destruct (nnext s t0 =? 0); reflexivity.
    + (* M3 *) destruct Ht as [Hfr (Hin & Hn & Hnz)].
      destruct (N.eqb_spec (tail s) t0) as [Heq|Hneq]; injection Hst as <- <-.
      * refine (step_tail s l t _ _ HG HT HU _ _ _ Hnz).
        -- split; [exact Hfr | exact I].
        -- right. rewrite E. reflexivity.
        -- rewrite Heq. exact Hn.
      * refine (step_go s l t _ HG HT HU _ _); [|right; rewrite E; reflexivity].
        split; [exact Hfr | exact I].
    + (* M4 *) destruct (N.eqb_spec (nnext s t0) 0) as [Hz|Hz]; injection Hst as <- <-.
      * apply (step_link s l); assumption.
      * destruct Ht as [Hfr _].
        refine (step_go s l t _ HG HT HU _ _); [|right; rewrite E; reflexivity].
        split; [exact Hfr | exact I].
    + (* M5 *) destruct Ht as [_ (Hin & Hn & Hnz)].
      destruct (N.eqb_spec (tail s) t0) as [Heq|Hneq]; injection Hst as <- <-.
      * refine (step_tail s l t _ _ HG HT HU _ _ _ Hnz).
        -- split; [intros n' Hc; discriminate | exact I].
        -- left; reflexivity.
        -- rewrite Heq. exact Hn.
      * refine (step_go s l t _ HG HT HU _ _); [|left; reflexivity].
        split; [intros n' Hc; discriminate | exact I].
    + (* D1 *) injection Hst as <- <-.
      refine (step_go s l t _ HG HT HU _ _); [|left; reflexivity].
      split; [intros n' Hc; discriminate|]. apply in_or_app. right. left. reflexivity.
    + (* D2 *) injection Hst as <- <-.
      refine (step_go s l t _ HG HT HU _ _); [|left; reflexivity].
      split; [intros n' Hc; discriminate|]. split; [exact (proj2 Ht) | intros _; reflexivity].
    + (* D3 *) destruct Ht as [_ [Hin Himp]].
      destruct (N.eqb_spec (head s) h) as [Heq|Hneq]; cbn [negb] in Hst;
        [destruct (N.eqb_spec nx 0) as [Hz|Hz]|]; injection Hst as <- <-;
        (refine (step_go s l t _ HG HT HU _ _); [|left; reflexivity]);
        (split; [intros n' Hc; discriminate|]); try exact I.
      split; [exact Hin|]. split; [exact Hz | apply Himp; exact Hz].
    + (* D4 *) injection Hst as <- <-. destruct Ht as [_ (Hin & Hnz & Hn)].
      refine (step_go s l t _ HG HT HU _ _).
      * destruct (N.eqb_spec h (tail s)) as [Heq|Hneq]; (split; [intros n' Hc; discriminate|]).
        -- split; [symmetry; exact Heq|]. split; [exact Hin|]. split; assumption.
        -- split; [exact Hin|]. split; [exact Hnz|]. split; [exact Hn | congruence].
      * left. destruct (h =? tail s); reflexivity.
    + (* D5 *) destruct Ht as [_ (Hth & Hin & Hnz & Hn)].
      destruct (N.eqb_spec (tail s) t0) as [Heq|Hneq]; injection Hst as <- <-.
      * refine (step_tail s l t _ _ HG HT HU _ _ _ Hnz).
        -- split; [intros n' Hc; discriminate | exact I].
        -- left; reflexivity.
        -- rewrite Heq, Hth. exact Hn.
      * refine (step_go s l t _ HG HT HU _ _); [|left; reflexivity].
        split; [intros n' Hc; discriminate | exact I].
    + (* D6 *)
      destruct (N.eqb_spec (head s) h) as [Heq|Hneq]; injection Hst as <- <-.
      * apply (step_unlink s l); assumption.
      * refine (step_go s l t _ HG HT HU _ _); [|left; reflexivity].
        split; [intros n' Hc; discriminate | exact I].
Qed.

Theorem Inv_reach st : reach init step st -> Inv st.
Proof. apply inv_rule; [exact Inv_init | exact Inv_step]. Qed.

(** * The chain as a computable function of the state *)

Fixpoint walk (nx : N -> N) (fuel : nat) (a : N) : list N :=
  match fuel with
  | O => [a]
  | S f => if nx a =? 0 then [a] else a :: walk nx f (nx a)
  end.

(** nodes from [head] following [nnext] up to the null link *)
Definition chain (st : state) : list N := walk (nnext st) (N.to_nat (nalloc st)) (head st).

Lemma walk_lpath nx l : lpath nx l -> forall fuel, (length l <= S fuel)%nat -> walk nx fuel (hd 0 l) = l.
Proof.
  induction 1 as [a Ha Hn | a b r Ha Hn Hp IH]; intros fuel Hlen; cbn [hd].
  - destruct fuel; cbn [walk]; [reflexivity|]. rewrite Hn. reflexivity.
  - assert (Hb : b <> 0) by (eapply lpath_hd_nz; exact Hp).
    destruct fuel as [|f]; [cbn [length] in Hlen; lia|]. cbn [walk].
    destruct (N.eqb_spec (nx a) 0) as [Hz|Hz]; [congruence|].
    f_equal. rewrite Hn. apply (IH f). cbn [length] in *. lia.
Qed.

Lemma bounded_nodup_length (l : list N) n : NoDup l -> (forall x, In x l -> x < n) -> (length l <= N.to_nat n)%nat.
Proof.
  intros Hnd Hlt. rewrite <- (map_length N.to_nat l), <- (seq_length (N.to_nat n) 0).
  apply NoDup_incl_length.
  - apply FinFun.Injective_map_NoDup; [|exact Hnd]. intros x y Hxy. apply N2Nat.inj. exact Hxy.
  - intros y Hy. apply in_map_iff in Hy. destruct Hy as (x & <- & Hx). apply in_seq. apply Hlt in Hx. lia.
Qed.

Lemma NoDup_app_r (A : Type) (l1 l2 : list A) : NoDup (l1 ++ l2) -> NoDup l2.
Proof. induction l1 as [|a l1 IH]; intros H; [exact H|]. inversion H. auto. Qed.

Lemma NoDup_app_disj (A : Type) (l1 l2 : list A) x : NoDup (l1 ++ l2) -> In x l1 -> ~ In x l2.
Proof.
  induction l1 as [|a l1 IH]; intros H Hx; [destruct Hx|]. inversion H as [|a' l' Hn Hnd]; subst.
  destruct Hx as [<- | Hx]; [|apply IH; assumption].
  intros Hc. apply Hn. apply in_or_app. right. exact Hc.
Qed.

Lemma G_lpath st l : G st l -> lpath (nnext st) l.
Proof.
  intros (Hhd & Hpath & _). eapply lpath_suffix; [exact Hpath|]. destruct Hhd as [r ->]. discriminate.
Qed.

Lemma chain_eq st l : G st l -> chain st = l.
Proof.
  intros HG. pose proof (G_lpath _ _ HG) as Hl. destruct HG as (Hhd & Hpath & Hnd & Hlt & _).
  unfold chain. replace (head st) with (hd 0 l) by (destruct Hhd as [r ->]; reflexivity).
  apply walk_lpath; [exact Hl|].
  assert (length l <= N.to_nat (nalloc st))%nat; [|lia].
  apply bounded_nodup_length; [eapply NoDup_app_r; exact Hnd|].
  intros x Hx. apply Hlt. apply in_or_app. right. exact Hx.
Qed.

Lemma Inv_chain st : Inv st -> G st (chain st) /\ (forall t, T st (chain st) (th st t)) /\ U (th st).
Proof. intros [l (HG & HT & HU)]. rewrite (chain_eq _ _ HG). auto. Qed.

(** * Theorems *)

Section Theorems.
  Variable st : state.
  Hypothesis Hreach : reach init step st.

  Let HI := Inv_chain st (Inv_reach st Hreach).

  (** [g_retired st ++ chain st] lists every node ever linked, in link order. *)

  (** 1a. structure of the chain (and of the retired prefix) *)
  Theorem msq_chain :
    hd 0 (chain st) = head st /\
    (forall i, (S i < length (chain st))%nat -> nth (S i) (chain st) 0 = nnext st (nth i (chain st) 0)) /\
    nnext st (last (chain st) 0) = 0 /\
    NoDup (chain st) /\
    (forall x, In x (chain st) -> x <> 0 /\ x < nalloc st) /\
    (exists l0, chain st = l0 ++ [tail st] \/ exists x, chain st = l0 ++ [tail st; x]).
  Proof.
    destruct HI as (HG & _ & _). pose proof (G_lpath _ _ HG) as Hl.
    destruct HG as (Hhd & Hpath & Hnd & Hlt & Htl & Hlag & Hfifo).
    split; [destruct Hhd as [r ->]; reflexivity|].
    split; [apply lpath_nth; exact Hl|].
    split; [apply lpath_last_null; exact Hl|].
    split; [eapply NoDup_app_r; exact Hnd|].
    split.
    - intros x Hx. split; [eapply lpath_nz; [exact Hl | exact Hx]|].
      apply Hlt. apply in_or_app. right. exact Hx.
    - destruct Hlag as [Hz | Hz].
      + destruct (lpath_last _ _ Hl _ Htl Hz) as [l0 E]. exists l0. left. exact E.
      + destruct (N.eq_dec (nnext st (tail st)) 0) as [Hz' | Hnz].
        * destruct (lpath_last _ _ Hl _ Htl Hz') as [l0 E]. exists l0. left. exact E.
        * destruct (lpath_last2 _ _ Hl _ _ Htl eq_refl Hnz Hz) as [l0 E]. exists l0. right.
          exists (nnext st (tail st)). exact E.
  Qed.

  (** 1b. retired nodes: distinct, not in the chain, keep their (non-null) link; in fact
      [g_retired st ++ chain st] is one null-terminated duplicate-free path starting at the
      initial dummy or at the current head *)
  Theorem msq_retired :
    NoDup (g_retired st ++ chain st) /\
    lpath (nnext st) (g_retired st ++ chain st) /\
    (forall x, In x (g_retired st) ->
       ~ In x (chain st) /\ nnext st x <> 0 /\ In (nnext st x) (g_retired st ++ chain st) /\
       x <> 0 /\ x < nalloc st).
  Proof.
    destruct HI as (HG & _ & _). destruct HG as (Hhd & Hpath & Hnd & Hlt & Htl & Hlag & Hfifo).
    split; [exact Hnd|]. split; [exact Hpath|]. intros x Hx.
    assert (Hnz : nnext st x <> 0).
    { eapply lpath_prefix_link; [exact Hpath | | exact Hx]. destruct Hhd as [r ->]. discriminate. }
    assert (Hin : In x (g_retired st ++ chain st)) by (apply in_or_app; left; exact Hx).
    split; [eapply NoDup_app_disj; [exact Hnd | exact Hx]|]. split; [exact Hnz|].
    split; [apply lpath_next_in; assumption|].
    split; [eapply lpath_nz; [exact Hpath | exact Hin] | apply Hlt; exact Hin].
  Qed.

  (** 1c. nodes referenced by the local variables of the threads *)
  Definition fresh_node (n : N) : Prop :=
    n <> 0 /\ n < nalloc st /\ ~ In n (g_retired st ++ chain st) /\ nnext st n = 0.
  Definition known_node (x : N) : Prop := In x (g_retired st ++ chain st).

  Theorem msq_locals t :
    match th st t with
    | M1 n => fresh_node n
    | M2 n tl | M4 n tl => fresh_node n /\ known_node tl /\ (nnext st tl = 0 -> tail st = tl)
    | M3 n tl nx => fresh_node n /\ known_node tl /\ nnext st tl = nx /\ nx <> 0
    | M5 n tl => known_node n /\ known_node tl /\ nnext st tl = n /\ n <> 0
    | D2 h => known_node h /\ In h (g_retired st ++ [head st])
    | D3 h nx => known_node h /\ In h (g_retired st ++ [head st]) /\ (nx <> 0 -> nnext st h = nx)
    | D4 h nx => known_node h /\ In h (g_retired st ++ [head st]) /\ nx <> 0 /\ nnext st h = nx
    | D5 h nx tl => known_node h /\ In h (g_retired st ++ [head st]) /\ nx <> 0 /\ nnext st h = nx /\ tl = h
    | D6 h nx => known_node h /\ In h (g_retired st ++ [head st]) /\ nx <> 0 /\ nnext st h = nx /\ tail st <> h
    | _ => True
    end.
  Proof.
    destruct HI as (HG & HT & _). specialize (HT t).
    pose proof (old_incl_full _ _ (proj1 HG)) as Hof.
    destruct HG as (Hhd & Hpath & Hnd & Hlt & Htl & Hlag & Hfifo).
    unfold fresh_node, known_node. destruct (th st t); try exact I; destruct HT as [Hfr Hq]; cbn [fresh_of] in Hfr.
    - exact (Hfr _ eq_refl).
    - split; [exact (Hfr _ eq_refl) | exact Hq].
    - split; [exact (Hfr _ eq_refl) | exact Hq].
    - split; [exact (Hfr _ eq_refl) | exact Hq].
    - destruct Hq as (Hin & Hn & Hnz). split; [|auto].
      rewrite <- Hn. apply lpath_next_in; [exact Hpath | exact Hin | congruence].
    - split; [apply Hof; exact Hq | exact Hq].
    - split; [apply Hof; exact (proj1 Hq) | exact Hq].
    - split; [apply Hof; exact (proj1 Hq) | exact Hq].
    - destruct Hq as (Ht & Hin & Hnz & Hn). split; [apply Hof; exact Hin | auto].
    - split; [apply Hof; exact (proj1 Hq) | exact Hq].
  Qed.

  (** the unlinked nodes of two different pushing threads are different *)
  Theorem msq_fresh_unique t t' n :
    t <> t' -> fresh_of (th st t) = Some n -> fresh_of (th st t') = Some n -> False.
  Proof. destruct HI as (_ & _ & HU). apply HU. Qed.

  (** 2. FIFO: enqueued values = dequeued values followed by the values in the queue *)
  Theorem msq_fifo : g_in st = g_out st ++ map (nval st) (tl (chain st)).
  Proof. destruct HI as (HG & _ & _). apply HG. Qed.

  (** 5. tail lags behind the last node by at most one link *)
  Theorem msq_tail_lag :
    (exists l0, chain st = l0 ++ [tail st] \/ exists x, chain st = l0 ++ [tail st; x]) /\
    (nnext st (tail st) = 0 \/ nnext st (nnext st (tail st)) = 0).
  Proof.
    split; [apply msq_chain|]. destruct HI as (HG & _ & _). apply HG.
  Qed.

  (** 3. value taken by a pop whose head CAS is about to succeed *)
  Lemma msq_pop_value_state t h nx :
    th st t = D6 h nx -> head st = h ->
    nval st nx = nth (length (g_out st)) (g_in st) 0 /\
    exists r, chain st = h :: nx :: r.
  Proof.
    intros E Hh. destruct HI as (HG & HT & _). pose proof (G_lpath _ _ HG) as Hl.
    specialize (HT t). rewrite E in HT. destruct HT as [_ (Hin & Hnz & Hn & Htlh)].
    destruct HG as (Hhd & Hpath & Hnd & Hlt & Htl & Hlag & Hfifo).
    destruct Hhd as [r Hc]. rewrite Hh in Hc. rewrite Hc in Hl, Hfifo.
    destruct (lpath_hd_next _ _ _ Hl) as [r' Hr]; [congruence|]. rewrite Hn in Hr. subst r.
    split; [|exists r'; exact Hc].
    rewrite Hfifo. cbn [tl map]. rewrite app_nth2 by lia. rewrite Nat.sub_diag. reflexivity.
  Qed.

  (** 4 (state part). head never returns to a previous value; null link at the head = empty queue *)
  Theorem msq_head_nodup : NoDup (g_retired st ++ [head st]).
  Proof.
    destruct HI as (HG & _ & _). destruct HG as (Hhd & _ & Hnd & _). destruct Hhd as [r Hc].
    rewrite Hc in Hnd. change (head st :: r) with ([head st] ++ r) in Hnd. rewrite app_assoc in Hnd.
    apply NoDup_rev in Hnd. rewrite rev_app_distr in Hnd. apply NoDup_app_r in Hnd.
    apply NoDup_rev in Hnd. rewrite rev_involutive in Hnd. exact Hnd.
  Qed.

  Theorem msq_empty_state : nnext st (head st) = 0 -> chain st = [head st] /\ g_in st = g_out st.
  Proof.
    intros Hz. destruct HI as (HG & _ & _). pose proof (G_lpath _ _ HG) as Hl.
    destruct HG as (Hhd & Hpath & Hnd & Hlt & Htl & Hlag & Hfifo). destruct Hhd as [r Hc].
    rewrite Hc in Hl. rewrite (lpath_hd_null _ _ _ Hl Hz) in Hc. split; [exact Hc|].
    rewrite Hfifo, Hc. cbn [tl map]. apply app_nil_r.
  Qed.
End Theorems.

(** ** step-level consequences *)

Ltac step_cases Hst st :=
  unfold step in Hst;
  match type of Hst with
  | context [match ?a with Start _ _ => _ | Step _ => _ end] => destruct a as [?t ?o | ?t]
  end;
  match type of Hst with
  | context [th st ?t] => destruct (th st t) eqn:?E
  end;
  cbv beta iota zeta in Hst; try discriminate Hst;
  try match type of Hst with context [match ?o with OPush _ => _ | OPop => _ end] => destruct o end;
  repeat match type of Hst with
  | context [if negb (?a =? ?b) then _ else _] => destruct (N.eqb_spec a b); cbn [negb] in Hst
  | context [if (?a =? ?b) then Some _ else _] => destruct (N.eqb_spec a b)
  end;
  injection Hst as <- <-.

(** 3. the value returned by a successful pop is the oldest value not yet dequeued *)
Theorem msq_pop_value st a st' es t x :
  reach init step st -> step st a = Some (st', es) -> In (ERet t [1; x]) es ->
  x = nth (length (g_out st)) (g_in st) 0 /\
  g_out st' = g_out st ++ [x] /\ g_in st' = g_in st /\
  exists h nx, a = Step t /\ th st t = D6 h nx /\ head st = h /\ head st' = nx /\ x = nval st nx /\
               exists r, chain st = h :: nx :: r.
Proof.
  intros Hr Hst Hin. step_cases Hst st; cbn [In app] in Hin;
    repeat match goal with
    | H : _ \/ _ |- _ => destruct H
    | H : False |- _ => destruct H
    end; try discriminate.
  match goal with H : ERet _ _ = ERet _ _ |- _ => injection H as -> <- end.
  prj. destruct (msq_pop_value_state st Hr t h nx E e) as [Hv Hc].
  split; [exact Hv|]. split; [reflexivity|]. split; [reflexivity|].
  exists h, nx. repeat split; try assumption; reflexivity.
Qed.

(** 4 (step part). every step keeps [head] or moves the old head to [g_retired] *)
Lemma msq_head_step st a st' es :
  step st a = Some (st', es) ->
  (head st' = head st /\ g_retired st' = g_retired st) \/ g_retired st' = g_retired st ++ [head st].
Proof.
  intros Hst. step_cases Hst st; prj; try (left; split; reflexivity).
  right. congruence.
Qed.

Lemma msq_head_from s0 s1 :
  reach_from step s0 s1 ->
  (head s1 = head s0 /\ g_retired s1 = g_retired s0) \/
  exists ext, g_retired s1 = g_retired s0 ++ head s0 :: ext.
Proof.
  induction 1 as [|s a s' es Hf IH Hst]; [left; split; reflexivity|].
  destruct (msq_head_step _ _ _ _ Hst) as [[Hh Hr] | Hr]; destruct IH as [[Hh' Hr'] | [ext Hr']].
  - left. split; congruence.
  - right. exists ext. congruence.
  - right. exists []. congruence.
  - right. exists (ext ++ [head s]). rewrite Hr, Hr', <- app_assoc. reflexivity.
Qed.

Lemma NoDup_snoc_notin (l : list N) a : NoDup (l ++ [a]) -> ~ In a l.
Proof.
  induction l as [|b l IH]; intros H Hc; [destruct Hc|]. cbn [app] in H.
  inversion H as [|b' l' Hn Hnd]; subst. destruct Hc as [-> | Hc].
  - apply Hn. apply in_or_app. right. left. reflexivity.
  - exact (IH Hnd Hc).
Qed.

(** head ABA freedom: if head has the same value at two points of an execution, it had this value
    (and nothing was retired) at every point in between *)
Theorem msq_head_no_aba s0 s1 s2 :
  reach init step s0 -> reach_from step s0 s1 -> reach_from step s1 s2 ->
  head s2 = head s0 ->
  head s1 = head s0 /\ g_retired s1 = g_retired s0 /\ g_retired s2 = g_retired s0.
Proof.
  intros Hr H01 H12 Hh.
  assert (Hr2 : reach init step s2).
  { eapply reach_from_reach; [|exact H12]. eapply reach_from_reach; [exact Hr | exact H01]. }
  pose proof (msq_head_nodup s2 Hr2) as Hnd.
  assert (Hnin : ~ In (head s0) (g_retired s2)).
  { rewrite <- Hh. apply NoDup_snoc_notin. exact Hnd. }
  destruct (msq_head_from _ _ H01) as [[Hh1 Hr1] | [ext Hr1]];
    destruct (msq_head_from _ _ H12) as [[Hh2 Hr2'] | [ext' Hr2']].
  - repeat split; congruence.
  - exfalso. apply Hnin. rewrite Hr2', Hh1. apply in_or_app. right. left. reflexivity.
  - exfalso. apply Hnin. rewrite Hr2', Hr1. apply in_or_app. right. left. reflexivity.
  - exfalso. apply Hnin. rewrite Hr2', Hr1. apply in_or_app. left. apply in_or_app. right. left. reflexivity.
Qed.

(** 4. linearization point of a pop that answers "empty": [s0] is the state of the thread's
    D1 load (it reads [h = head s0]), [s1] the state of its D2 load (it reads
    [nnext s1 h = 0]), [s2] the state of its D3 load (it sees [head s2 = h] and returns [0]).
    Then at [s1], inside the call, [h] was the head and the abstract queue was empty. *)
Theorem msq_empty_lp s0 s1 s2 h :
  reach init step s0 -> reach_from step s0 s1 -> reach_from step s1 s2 ->
  head s0 = h -> head s2 = h -> nnext s1 h = 0 ->
  head s1 = h /\ chain s1 = [h] /\ g_in s1 = g_out s1.
Proof.
  intros Hr H01 H12 Hh0 Hh2 Hz.
  destruct (msq_head_no_aba s0 s1 s2 Hr H01 H12) as (Hh1 & _); [congruence|].
  assert (Hr1 : reach init step s1) by (eapply reach_from_reach; [exact Hr | exact H01]).
  assert (E : head s1 = h) by congruence. split; [exact E|]. rewrite <- E in *.
  apply msq_empty_state; assumption.
Qed.

(** ** thread-level form of the empty-pop linearization point *)

Definition by_other (t : nat) (a : action) : Prop :=
  match a with Start t' _ | Step t' => t' <> t end.

(** executions in which thread [t] does not move *)
Inductive run_others (t : nat) (s0 : state) : state -> Prop :=
| ro_refl : run_others t s0 s0
| ro_step s1 a s2 es : run_others t s0 s1 -> by_other t a -> step s1 a = Some (s2, es) -> run_others t s0 s2.

Lemma step_th_other t s a s' es : by_other t a -> step s a = Some (s', es) -> th s' t = th s t.
Proof.
  intros Hb Hst. step_cases Hst s; prj; cbn [by_other] in Hb; apply upd_other; congruence.
Qed.

Lemma run_others_th t s0 s1 : run_others t s0 s1 -> th s1 t = th s0 t.
Proof.
  induction 1 as [|s1 a s2 es Hro IH Hb Hst]; [reflexivity|].
  rewrite (step_th_other _ _ _ _ _ Hb Hst). exact IH.
Qed.

Lemma run_others_from t s0 s1 : run_others t s0 s1 -> reach_from step s0 s1.
Proof. induction 1; [apply rf_refl | eapply rf_step; eauto]. Qed.

Lemma reach_from_trans (s0 s1 s2 : state) :
  reach_from step s0 s1 -> reach_from step s1 s2 -> reach_from step s0 s2.
Proof. intros H01 H12. induction H12; [exact H01 | eapply rf_step; eauto]. Qed.

(** The last loop iteration of a pop by thread [t] that returns "empty": its D1 step (from [s0]),
    steps of other threads, its D2 step (from [s1]), steps of other threads, its D3 step (from
    [s2]) which emits [ERet t [0]].  Then at [s1] -- the moment of the D2 load, inside the call --
    the node loaded at D1 was still the head, its link was null, and the abstract queue was empty
    (everything enqueued so far had been dequeued). *)
Theorem msq_empty_lp_thread t s0 sa s1 sb s2 s3 ea eb ec :
  reach init step s0 ->
  th s0 t = D1 -> step s0 (Step t) = Some (sa, ea) -> run_others t sa s1 ->
  step s1 (Step t) = Some (sb, eb) -> run_others t sb s2 ->
  step s2 (Step t) = Some (s3, ec) -> In (ERet t [0]) ec ->
  th s1 t = D2 (head s0) /\ th s2 t = D3 (head s0) 0 /\
  head s1 = head s0 /\ nnext s1 (head s1) = 0 /\ head s2 = head s0 /\
  chain s1 = [head s1] /\ g_in s1 = g_out s1.
Proof.
  intros Hr E0 Hsa Ho1 Hsb Ho2 Hsc Hin.
  pose proof Hsa as Hsa'. unfold step in Hsa. rewrite E0 in Hsa. cbv beta iota zeta in Hsa.
  injection Hsa as <- <-.
  assert (E1 : th s1 t = D2 (head s0)).
  { rewrite (run_others_th _ _ _ Ho1). prj. apply upd_same. }
  pose proof Hsb as Hsb'. unfold step in Hsb. rewrite E1 in Hsb. cbv beta iota zeta in Hsb.
  injection Hsb as <- <-.
  assert (E2 : th s2 t = D3 (head s0) (nnext s1 (head s0))).
  { rewrite (run_others_th _ _ _ Ho2). prj. apply upd_same. }
  unfold step in Hsc. rewrite E2 in Hsc. cbv beta iota zeta in Hsc.
  assert (Hc : head s2 = head s0 /\ nnext s1 (head s0) = 0).
  { destruct (N.eqb_spec (head s2) (head s0)) as [Hh|Hh]; cbn [negb] in Hsc;
      [destruct (N.eqb_spec (nnext s1 (head s0)) 0) as [Hz|Hz]|];
      injection Hsc as <- <-; cbn [In app] in Hin;
      repeat match goal with
      | H : _ \/ _ |- _ => destruct H
      | H : False |- _ => destruct H
      end; try discriminate.
    split; assumption. }
  destruct Hc as [Hh2 Hz]. rewrite Hz in E2.
  assert (H01 : reach_from step s0 s1).
  { eapply reach_from_trans; [|eapply run_others_from; exact Ho1].
    eapply rf_step; [apply rf_refl | exact Hsa']. }
  assert (H12 : reach_from step s1 s2).
  { eapply reach_from_trans; [|eapply run_others_from; exact Ho2].
    eapply rf_step; [apply rf_refl | exact Hsb']. }
  destruct (msq_empty_lp s0 s1 s2 (head s0) Hr H01 H12 eq_refl Hh2 Hz) as (Hh1 & Hch & Hio).
  rewrite Hh1. repeat split; assumption.
Qed.

(** ** corollaries of the FIFO relation *)

(** the dequeued values are a prefix of the enqueued values; the remaining ones are in the queue *)
Corollary msq_out_prefix st : reach init step st ->
  g_out st = firstn (length (g_out st)) (g_in st) /\
  map (nval st) (tl (chain st)) = skipn (length (g_out st)) (g_in st) /\
  (length (g_in st) = length (g_out st) + (length (chain st) - 1))%nat.
Proof.
  intros Hr. rewrite (msq_fifo st Hr) at 1 2 3.
  rewrite firstn_app, Nat.sub_diag, firstn_all, skipn_app, Nat.sub_diag, skipn_all.
  cbn [firstn skipn app]. rewrite app_nil_r, app_length, map_length.
  repeat split. destruct (chain st); cbn [tl length]; lia.
Qed.

Example chain_init : chain init = [1].
Proof. reflexivity. Qed.
