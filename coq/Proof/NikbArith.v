(** Word arithmetic of the nikolaev_scq entries and counters used by Model/NikbDefs.v:
    an entry word is (cycle field, safe bit, index field); the tests of the code on entry words are
    characterised field by field, the signed comparisons ([diff]) by the order of the cycles / counters
    as long as no counter wraps. *)
From Coq Require Import NArith ZArith Lia Bool.
From XV Require Import Base.Word gen.ScqGen Proof.ScqIndex Model.NikbDefs.
Local Open Scope N_scope.

(** * generic bit facts *)
Lemma testbit_ones_lt j i : N.testbit (N.ones j) i = (i <? j).
Proof.
  destruct (N.ltb_spec i j).
  - apply N.ones_spec_low. assumption.
  - apply N.ones_spec_high. assumption.
Qed.

Lemma pow2_pred_ones j : 2 ^ j - 1 = N.ones j.
Proof. rewrite N.ones_equiv, N.pred_sub. reflexivity. Qed.

Lemma shiftr_ones_0 j : N.shiftr (N.ones j) j = 0.
Proof.
  apply N.bits_inj. intros i. rewrite N.shiftr_spec', testbit_ones_lt, N.bits_0.
  apply N.ltb_ge. lia.
Qed.

Lemma shiftr_pow2_small a j : a < 2 ^ j -> N.shiftr a j = 0.
Proof. intros H. apply lt_pow2_shiftr. exact H. Qed.

Lemma land_ones_idem a j : N.land (N.land a (N.ones j)) (N.ones j) = N.land a (N.ones j).
Proof. rewrite <- N.land_assoc, N.land_diag. reflexivity. Qed.

Lemma lor_land_absorb a m : N.lor (N.land a m) m = m.
Proof.
  apply N.bits_inj. intros i. rewrite N.lor_spec, N.land_spec.
  destruct (N.testbit a i), (N.testbit m i); reflexivity.
Qed.

(** lor with a low mask, arithmetically *)
Lemma lor_ones_arith x j : N.lor x (N.ones j) = (x / 2 ^ j) * 2 ^ j + N.ones j.
Proof.
  assert (Hd : N.land (N.shiftl (x / 2 ^ j) j) (N.ones j) = 0).
  { apply N.bits_inj. intros i. rewrite N.land_spec, testbit_ones_lt, N.bits_0.
    destruct (N.ltb_spec i j) as [Hi|Hi]; [|apply andb_false_r].
    rewrite N.shiftl_spec_low by exact Hi. reflexivity. }
  rewrite <- N.shiftl_mul_pow2.
  rewrite N.add_nocarry_lxor by exact Hd. rewrite N.lxor_lor by exact Hd.
  apply N.bits_inj. intros i. rewrite !N.lor_spec, testbit_ones_lt.
  destruct (N.ltb_spec i j) as [Hi|Hi]; [rewrite !orb_true_r; reflexivity|].
  rewrite !orb_false_r. rewrite N.shiftl_spec_high' by exact Hi.
  rewrite <- N.shiftr_div_pow2, N.shiftr_spec'. f_equal. lia.
Qed.

(** * signed views *)
Lemma slt_neg_iff d : d < 2 ^ 64 -> slt 64 d 0 = (2 ^ 63 <=? d).
Proof.
  intros Hd. unfold slt, sval. change (64 - 1) with 63. change (0 <? 2 ^ 63) with true. cbv iota.
  assert (E64 : 2 ^ 64 = 18446744073709551616) by reflexivity.
  assert (E63 : 2 ^ 63 = 9223372036854775808) by reflexivity.
  destruct (N.ltb_spec d (2 ^ 63)), (N.leb_spec (2 ^ 63) d); try lia.
  - apply Z.ltb_ge. lia.
  - apply Z.ltb_lt. rewrite E64, E63 in *. lia.
Qed.

Lemma slt_pos_iff d : d < 2 ^ 64 -> slt 64 0 d = (0 <? d) && (d <? 2 ^ 63).
Proof.
  intros Hd. unfold slt, sval. change (64 - 1) with 63. change (0 <? 2 ^ 63) with true. cbv iota.
  assert (E64 : 2 ^ 64 = 18446744073709551616) by reflexivity.
  assert (E63 : 2 ^ 63 = 9223372036854775808) by reflexivity.
  destruct (N.ltb_spec d (2 ^ 63)), (N.ltb_spec 0 d); cbn [andb]; try (apply Z.ltb_lt; lia); try (apply Z.ltb_ge; rewrite ?E64, ?E63 in *; lia).
Qed.

(** counters below 2^62: the signed difference decides the order *)
Lemma diff_lt0 a b : a < 2 ^ 62 -> b < 2 ^ 62 -> lt0 (diff a b) = (a <? b).
Proof.
  intros Ha Hb. unfold lt0. rewrite slt_neg_iff by apply wsub_lt. unfold diff.
  assert (E64 : 2 ^ 64 = 18446744073709551616) by reflexivity.
  assert (E63 : 2 ^ 63 = 9223372036854775808) by reflexivity.
  assert (E62 : 2 ^ 62 = 4611686018427387904) by reflexivity.
  destruct (N.ltb_spec a b).
  - rewrite wsub_wrap by lia. apply N.leb_le. lia.
  - rewrite wsub_small by lia. apply N.leb_gt. lia.
Qed.

Lemma diff_gt0 a b : a < 2 ^ 62 -> b < 2 ^ 62 -> gt0 (diff a b) = (b <? a).
Proof.
  intros Ha Hb. unfold gt0. rewrite slt_pos_iff by apply wsub_lt. unfold diff.
  assert (E64 : 2 ^ 64 = 18446744073709551616) by reflexivity.
  assert (E63 : 2 ^ 63 = 9223372036854775808) by reflexivity.
  assert (E62 : 2 ^ 62 = 4611686018427387904) by reflexivity.
  destruct (N.ltb_spec b a).
  - rewrite wsub_small by lia. apply andb_true_iff. split; [apply N.ltb_lt|apply N.ltb_lt]; lia.
  - destruct (N.eq_dec a b) as [->|Hne].
    + rewrite wsub_small by lia. rewrite N.sub_diag. reflexivity.
    + rewrite wsub_wrap by lia. apply andb_false_iff. right. apply N.ltb_ge. lia.
Qed.

Lemma wadd2_small a : a < 2 ^ 62 -> wadd 64 a 2 = a + 2.
Proof.
  intros Ha. apply wadd_small.
  assert (E64 : 2 ^ 64 = 18446744073709551616) by reflexivity.
  assert (E62 : 2 ^ 62 = 4611686018427387904) by reflexivity. lia.
Qed.

Set Default Proof Using "All".
Section Fields.
  Variable k : N.
  Hypothesis Hk : k <= 40.
  Notation cap := (2 ^ k).

  Definition ecyc (e : N) : N := N.shiftr e (k + 2).
  Definition esafe (e : N) : bool := N.testbit e (k + 1).
  Definition eidx (e : N) : N := N.land e (N.ones (k + 1)).
  Definition bot : N := N.ones (k + 1).                    (* the bottom index n - 1 *)
  Definition enc (c : N) (s : bool) (i : N) : N := N.lor (N.shiftl c (k + 2)) (N.lor (if s then 2 ^ (k + 1) else 0) i).
  Definition cmax : N := 2 ^ (62 - k) - 1.                 (* cycle field of static_cast<index_t>(-1) *)
  Definition CB : N := 2 ^ (60 - k).                      (* cycles of counters below 2^62 are below CB *)

  Lemma nn_eq : nn cap = 2 ^ (k + 1).
  Proof. unfold nn. rewrite N.add_1_r, N.pow_succ_r'. reflexivity. Qed.
  Lemma smask_eq : smask cap = N.ones (k + 2).
  Proof.
    unfold smask. rewrite nn_eq, <- pow2_pred_ones. replace (k + 2) with (N.succ (k + 1)) by lia.
    rewrite N.pow_succ_r'. reflexivity.
  Qed.
  Lemma vmask_eq : vmask cap = N.ones (k + 1).
  Proof. unfold vmask. rewrite nn_eq. apply pow2_pred_ones. Qed.
  Lemma cap_pos : 0 < cap. Proof. apply pow2_pos. Qed.
  Lemma cap_lt_bot : cap <= bot.
  Proof.
    unfold bot. rewrite <- pow2_pred_ones, N.add_1_r, N.pow_succ_r'. assert (H := cap_pos). lia.
  Qed.
  Lemma shift_eq : shift cap = scq_shift (k + 1).
  Proof.
    unfold shift, scq_shift.
    destruct (remap_index_bijective (k + 1) ltac:(lia)) as (Hs & _). cbv zeta in Hs.
    replace (2 ^ (k + 1) / 2) with cap in Hs.
    - symmetry. exact Hs.
    - rewrite N.add_1_r, N.pow_succ_r', N.mul_comm, N.div_mul by lia. reflexivity.
  Qed.

  (** an entry is determined by its three fields *)
  Lemma dec_inj a b : ecyc a = ecyc b -> esafe a = esafe b -> eidx a = eidx b -> a = b.
  Proof.
    unfold ecyc, esafe, eidx. intros Hc Hs Hi. apply N.bits_inj. intros i.
    destruct (N.lt_trichotomy i (k + 1)) as [Hlt|[->|Hgt]].
    - assert (H := f_equal (fun x => N.testbit x i) Hi). cbv beta in H.
      rewrite !N.land_spec, testbit_ones_lt in H. destruct (N.ltb_spec i (k + 1)); [|lia].
      rewrite !andb_true_r in H. exact H.
    - exact Hs.
    - assert (H := f_equal (fun x => N.testbit x (i - (k + 2))) Hc). cbv beta in H.
      rewrite !N.shiftr_spec' in H. replace (i - (k + 2) + (k + 2)) with i in H by lia. exact H.
  Qed.

  (** fields of the bit operations *)
  Lemma ecyc_lor a b : ecyc (N.lor a b) = N.lor (ecyc a) (ecyc b). Proof. apply N.shiftr_lor. Qed.
  Lemma ecyc_lxor a b : ecyc (N.lxor a b) = N.lxor (ecyc a) (ecyc b). Proof. apply N.shiftr_lxor. Qed.
  Lemma ecyc_ldiff a b : ecyc (N.ldiff a b) = N.ldiff (ecyc a) (ecyc b). Proof. apply N.shiftr_ldiff. Qed.
  Lemma esafe_lor a b : esafe (N.lor a b) = esafe a || esafe b. Proof. apply N.lor_spec. Qed.
  Lemma esafe_lxor a b : esafe (N.lxor a b) = xorb (esafe a) (esafe b). Proof. apply N.lxor_spec. Qed.
  Lemma esafe_ldiff a b : esafe (N.ldiff a b) = esafe a && negb (esafe b). Proof. apply N.ldiff_spec. Qed.
  Lemma eidx_lor a b : eidx (N.lor a b) = N.lor (eidx a) (eidx b). Proof. apply N.land_lor_distr_l. Qed.
  Lemma eidx_lxor a b : eidx (N.lxor a b) = N.lxor (eidx a) (eidx b).
  Proof.
    unfold eidx. apply N.bits_inj. intros i. rewrite N.lxor_spec, !N.land_spec, N.lxor_spec.
    destruct (N.testbit a i), (N.testbit b i), (N.testbit (N.ones (k + 1)) i); reflexivity.
  Qed.
  Lemma eidx_ldiff a b : eidx (N.ldiff a b) = N.ldiff (eidx a) (eidx b).
  Proof.
    unfold eidx. apply N.bits_inj. intros i. rewrite N.ldiff_spec, !N.land_spec, N.ldiff_spec.
    destruct (N.testbit a i), (N.testbit b i), (N.testbit (N.ones (k + 1)) i); reflexivity.
  Qed.

  (** fields of the constants *)
  Lemma f_smask : ecyc (N.ones (k + 2)) = 0 /\ esafe (N.ones (k + 2)) = true /\ eidx (N.ones (k + 2)) = bot.
  Proof.
    unfold ecyc, esafe, eidx, bot. repeat split.
    - apply shiftr_ones_0.
    - rewrite testbit_ones_lt. apply N.ltb_lt. lia.
    - apply N.bits_inj. intros i. rewrite N.land_spec, !testbit_ones_lt.
      destruct (N.ltb_spec i (k + 2)), (N.ltb_spec i (k + 1)); try reflexivity; lia.
  Qed.
  Lemma f_nn : ecyc (2 ^ (k + 1)) = 0 /\ esafe (2 ^ (k + 1)) = true /\ eidx (2 ^ (k + 1)) = 0.
  Proof.
    unfold ecyc, esafe, eidx. repeat split.
    - apply shiftr_pow2_small. apply N.pow_lt_mono_r; lia.
    - apply N.pow2_bits_true.
    - apply N.bits_inj. intros i. rewrite N.land_spec, testbit_ones_lt, N.bits_0.
      destruct (N.ltb_spec i (k + 1)); [|apply andb_false_r].
      rewrite N.pow2_bits_false by lia. reflexivity.
  Qed.
  Lemma f_low i : i <= bot -> ecyc i = 0 /\ esafe i = false /\ eidx i = i.
  Proof.
    unfold bot. rewrite <- pow2_pred_ones. intros Hi. assert (Hp := pow2_pos (k + 1)).
    assert (Hlt : i < 2 ^ (k + 1)) by lia.
    unfold ecyc, esafe, eidx. repeat split.
    - apply shiftr_pow2_small. apply N.lt_trans with (2 ^ (k + 1)); [exact Hlt|]. apply N.pow_lt_mono_r; lia.
    - destruct (N.eq_dec i 0) as [->|Hnz]; [apply N.bits_0|].
      apply N.bits_above_log2. apply N.log2_lt_pow2; lia.
    - rewrite N.land_ones. apply N.mod_small. exact Hlt.
  Qed.
  Lemma f_shl c : ecyc (N.shiftl c (k + 2)) = c /\ esafe (N.shiftl c (k + 2)) = false /\ eidx (N.shiftl c (k + 2)) = 0.
  Proof.
    unfold ecyc, esafe, eidx. repeat split.
    - rewrite N.shiftr_shiftl_l by lia. rewrite N.sub_diag. apply N.shiftl_0_r.
    - apply N.shiftl_spec_low. lia.
    - apply N.bits_inj. intros i. rewrite N.land_spec, testbit_ones_lt, N.bits_0.
      destruct (N.ltb_spec i (k + 1)); [|apply andb_false_r].
      rewrite N.shiftl_spec_low by lia. reflexivity.
  Qed.

  Lemma f_enc c s i : i <= bot -> ecyc (enc c s i) = c /\ esafe (enc c s i) = s /\ eidx (enc c s i) = i.
  Proof.
    intros Hi. unfold enc. destruct (f_shl c) as (A1 & A2 & A3). destruct (f_low i Hi) as (B1 & B2 & B3).
    rewrite !ecyc_lor, !esafe_lor, !eidx_lor, A1, A2, A3, B1, B2, B3.
    destruct s.
    - destruct f_nn as (C1 & C2 & C3). rewrite C1, C2, C3. rewrite !N.lor_0_r, !N.lor_0_l. repeat split.
    - destruct (f_low 0 ltac:(lia)) as (C1 & C2 & C3). rewrite C1, C2, C3. rewrite !N.lor_0_r, !N.lor_0_l. repeat split.
  Qed.

  Lemma eidx_le e : eidx e <= bot.
  Proof.
    unfold eidx, bot. rewrite N.land_ones, <- pow2_pred_ones.
    assert (H := N.mod_lt e (2 ^ (k + 1)) (pow2_nz _)). lia.
  Qed.

  Lemma enc_dec e : e = enc (ecyc e) (esafe e) (eidx e).
  Proof.
    destruct (f_enc (ecyc e) (esafe e) (eidx e) (eidx_le e)) as (A & B & C).
    apply dec_inj; symmetry; assumption.
  Qed.

  (** * the tests of the code, field by field ([cap] = 2^k) *)
  Lemma f_cyc e : ecyc (cyc cap e) = ecyc e /\ esafe (cyc cap e) = true /\ eidx (cyc cap e) = bot.
  Proof.
    unfold cyc. rewrite smask_eq. destruct f_smask as (A & B & C).
    rewrite ecyc_lor, esafe_lor, eidx_lor, A, B, C. rewrite N.lor_0_r, orb_true_r. repeat split.
    unfold eidx, bot. apply lor_land_absorb.
  Qed.

  Lemma cyc_eqb e w : (cyc cap e =? cyc cap w) = (ecyc e =? ecyc w).
  Proof.
    destruct (f_cyc e) as (A & B & C). destruct (f_cyc w) as (A' & B' & C').
    destruct (N.eqb_spec (ecyc e) (ecyc w)) as [He|Hne].
    - apply N.eqb_eq. apply dec_inj; congruence.
    - apply N.eqb_neq. intros H. apply Hne. rewrite <- A, <- A', H. reflexivity.
  Qed.

  (** (entry | n) != entry_cycle: the entry holds an index *)
  Lemma is_bot_eqb e : (N.lor e (nn cap) =? cyc cap e) = (eidx e =? bot).
  Proof.
    rewrite nn_eq. destruct (f_cyc e) as (A & B & C). destruct f_nn as (A' & B' & C').
    destruct (N.eqb_spec (eidx e) bot) as [He|Hne].
    - apply N.eqb_eq. apply dec_inj.
      + rewrite ecyc_lor, A, A', N.lor_0_r. reflexivity.
      + rewrite esafe_lor, B, B', orb_true_r. reflexivity.
      + rewrite eidx_lor, C, C', N.lor_0_r. exact He.
    - apply N.eqb_neq. intros H. apply Hne.
      assert (H' := f_equal eidx H). rewrite eidx_lor, C, C', N.lor_0_r in H'. exact H'.
  Qed.

  (** entry & ~n *)
  Lemma f_unsafe e : ecyc (N.ldiff e (nn cap)) = ecyc e /\ esafe (N.ldiff e (nn cap)) = false /\ eidx (N.ldiff e (nn cap)) = eidx e.
  Proof.
    rewrite nn_eq. destruct f_nn as (A' & B' & C').
    rewrite ecyc_ldiff, esafe_ldiff, eidx_ldiff, A', B', C'. rewrite !N.ldiff_0_r, andb_false_r. repeat split.
  Qed.
  Lemma unsafe_eqb e : (e =? N.ldiff e (nn cap)) = negb (esafe e).
  Proof.
    destruct (f_unsafe e) as (A & B & C). destruct (esafe e) eqn:Hs; cbn [negb].
    - apply N.eqb_neq. intros H. rewrite H in Hs. congruence.
    - apply N.eqb_eq. apply dec_inj; congruence.
  Qed.

  (** entry == entry_cycle: safe bottom;  entry == entry_cycle ^ n: unsafe bottom *)
  Lemma safe_bot_eqb e : (e =? cyc cap e) = esafe e && (eidx e =? bot).
  Proof.
    destruct (f_cyc e) as (A & B & C).
    destruct (esafe e) eqn:Hs; cbn [andb].
    - destruct (N.eqb_spec (eidx e) bot) as [He|Hne].
      + apply N.eqb_eq. apply dec_inj; congruence.
      + apply N.eqb_neq. intros H. apply Hne. rewrite H at 1. exact C.
    - apply N.eqb_neq. intros H. rewrite H in Hs. congruence.
  Qed.
  Lemma f_cyc_x e : ecyc (N.lxor (cyc cap e) (nn cap)) = ecyc e /\ esafe (N.lxor (cyc cap e) (nn cap)) = false /\
                    eidx (N.lxor (cyc cap e) (nn cap)) = bot.
  Proof.
    destruct (f_cyc e) as (A & B & C). rewrite nn_eq. destruct f_nn as (A' & B' & C').
    rewrite ecyc_lxor, esafe_lxor, eidx_lxor, A, B, C, A', B', C'. rewrite !N.lxor_0_r. repeat split.
  Qed.
  Lemma unsafe_bot_eqb e : (e =? N.lxor (cyc cap e) (nn cap)) = negb (esafe e) && (eidx e =? bot).
  Proof.
    destruct (f_cyc_x e) as (A & B & C).
    destruct (esafe e) eqn:Hs; cbn [andb negb].
    - apply N.eqb_neq. intros H. rewrite H in Hs. congruence.
    - destruct (N.eqb_spec (eidx e) bot) as [He|Hne].
      + apply N.eqb_eq. apply dec_inj; congruence.
      + apply N.eqb_neq. intros H. apply Hne. rewrite H at 1. exact C.
  Qed.

  (** the word an enqueue writes: tail_cycle ^ (idx ^ is_safe_and_value_mask) *)
  Lemma f_pub w i : i <= bot ->
    let e := N.lxor (cyc cap w) (N.lxor i (smask cap)) in ecyc e = ecyc w /\ esafe e = false /\ eidx e = i.
  Proof.
    intros Hi. cbv zeta. destruct (f_cyc w) as (A & B & C). rewrite smask_eq. destruct f_smask as (A' & B' & C').
    destruct (f_low i Hi) as (A2 & B2 & C2).
    rewrite !ecyc_lxor, !esafe_lxor, !eidx_lxor, A, B, C, A', B', C', A2, B2, C2.
    split; [cbn; apply N.lxor_0_r|]. split; [reflexivity|].
    rewrite (N.lxor_comm i bot), <- N.lxor_assoc, N.lxor_nilpotent, N.lxor_0_l. reflexivity.
  Qed.

  (** the words of the repaired code: enqueue writes (cycle of the ticket, SAFE, index); dequeue advances an empty
      slot to (cycle of the ticket, the slot's safe bit, bottom) *)
  Lemma f_enq w i : i <= bot ->
    let e := enq_word false cap w i in ecyc e = ecyc w /\ esafe e = true /\ eidx e = i.
  Proof.
    intros Hi. cbv zeta. unfold enq_word. destruct (f_cyc w) as (A & B & C). rewrite vmask_eq.
    destruct (f_low bot ltac:(lia)) as (A' & B' & C'). fold bot. destruct (f_low i Hi) as (A2 & B2 & C2).
    rewrite !ecyc_lxor, !esafe_lxor, !eidx_lxor, A, B, C, A', B', C', A2, B2, C2.
    split; [cbn; apply N.lxor_0_r|]. split; [reflexivity|].
    rewrite (N.lxor_comm i bot), <- N.lxor_assoc, N.lxor_nilpotent, N.lxor_0_l. reflexivity.
  Qed.

  Lemma f_botw hd e :
    let e' := bot_word false cap hd e in ecyc e' = ecyc hd /\ esafe e' = esafe e /\ eidx e' = bot.
  Proof.
    cbv zeta. unfold bot_word. destruct (f_cyc hd) as (A & B & C). rewrite nn_eq. destruct f_nn as (A' & B' & C').
    rewrite ecyc_lxor, esafe_lxor, eidx_lxor, ecyc_ldiff, esafe_ldiff, eidx_ldiff, A, B, C, A', B', C'.
    rewrite !N.ldiff_0_l, !N.lxor_0_r. split; [reflexivity|split; [destruct (esafe e); reflexivity|reflexivity]].
  Qed.

  (** the word a dequeue writes for an empty slot: head_cycle *)
  (** fetch_or(value_mask) and the value taken *)
  Lemma f_take e : ecyc (N.lor e (vmask cap)) = ecyc e /\ esafe (N.lor e (vmask cap)) = esafe e /\ eidx (N.lor e (vmask cap)) = bot.
  Proof.
    rewrite vmask_eq. destruct (f_low bot ltac:(lia)) as (A & B & C). fold bot.
    rewrite ecyc_lor, esafe_lor, eidx_lor, A, B, C. rewrite N.lor_0_r, orb_false_r. repeat split.
    unfold eidx, bot. apply lor_land_absorb.
  Qed.
  Lemma land_vmask e : N.land e (vmask cap) = eidx e.
  Proof. rewrite vmask_eq. reflexivity. Qed.

  (** * cycles and order *)
  Lemma ecyc_div e : ecyc e = e / (2 * nn cap).
  Proof.
    unfold ecyc. rewrite N.shiftr_div_pow2, nn_eq. f_equal.
    replace (k + 2) with (N.succ (k + 1)) by lia. apply N.pow_succ_r'.
  Qed.
  Lemma cyc_arith e : cyc cap e = ecyc e * (2 * nn cap) + (2 * nn cap - 1).
  Proof.
    unfold cyc. rewrite smask_eq, lor_ones_arith, ecyc_div, nn_eq.
    replace (2 * 2 ^ (k + 1)) with (2 ^ (k + 2)) by (replace (k + 2) with (N.succ (k + 1)) by lia; apply N.pow_succ_r').
    rewrite pow2_pred_ones. reflexivity.
  Qed.

  Lemma M_CB : 2 * nn cap * CB = 2 ^ 62.
  Proof.
    rewrite nn_eq. unfold CB. replace (2 * 2 ^ (k + 1)) with (2 ^ (k + 2)) by (replace (k + 2) with (N.succ (k + 1)) by lia; apply N.pow_succ_r').
    rewrite <- N.pow_add_r. f_equal. lia.
  Qed.
  Lemma M_cmax : 2 * nn cap * cmax + 2 * nn cap = 2 ^ 64.
  Proof.
    rewrite nn_eq. unfold cmax. replace (2 * 2 ^ (k + 1)) with (2 ^ (k + 2)) by (replace (k + 2) with (N.succ (k + 1)) by lia; apply N.pow_succ_r').
    assert (Hp := pow2_pos (62 - k)).
    replace (2 ^ (k + 2) * (2 ^ (62 - k) - 1) + 2 ^ (k + 2)) with (2 ^ (k + 2) * 2 ^ (62 - k)) by nia.
    rewrite <- N.pow_add_r. f_equal. lia.
  Qed.
  Lemma CB_lt_cmax : CB <= cmax.
  Proof.
    unfold CB, cmax. replace (62 - k) with (N.succ (N.succ (60 - k))) by lia. rewrite !N.pow_succ_r'.
    assert (Hp := pow2_pos (60 - k)). lia.
  Qed.
  Lemma nn_pos : 0 < nn cap. Proof. rewrite nn_eq. apply pow2_pos. Qed.

  (** the cycle field of a counter below 2^62 is below CB *)
  Lemma ecyc_ctr w : w < 2 ^ 62 -> ecyc w < CB.
  Proof.
    intros Hw. rewrite ecyc_div. apply N.div_lt_upper_bound; [assert (H := nn_pos); lia|]. rewrite M_CB. exact Hw.
  Qed.

  (** "the cycle of entry e is before cycle c" as the code decides it: the initial entries (all ones) are
      before every cycle *)
  Definition clt (e c : N) : bool := (ecyc e =? cmax) || (ecyc e <? c).

  Lemma ecyc_ones64 : ecyc ones64 = cmax.
  Proof.
    rewrite ecyc_div. assert (H := M_cmax). assert (Hn := nn_pos).
    change ones64 with (2 ^ 64 - 1). rewrite <- H.
    replace (2 * nn cap * cmax + 2 * nn cap - 1) with (cmax * (2 * nn cap) + (2 * nn cap - 1)) by lia.
    rewrite N.div_add_l by lia. rewrite N.div_small by lia. lia.
  Qed.
  Lemma eidx_ones64 : eidx ones64 = bot.
  Proof.
    unfold eidx, bot. change ones64 with (N.ones 64). apply N.bits_inj. intros i.
    rewrite N.land_spec, !testbit_ones_lt. destruct (N.ltb_spec i 64), (N.ltb_spec i (k + 1)); try reflexivity; lia.
  Qed.

  Lemma cyc_lt_diff e w : ecyc e < CB \/ ecyc e = cmax -> w < 2 ^ 62 ->
    lt0 (diff (cyc cap e) (cyc cap w)) = clt e (ecyc w).
  Proof.
    intros He Hw. assert (Hcw := ecyc_ctr w Hw). rewrite !cyc_arith. unfold clt.
    assert (HM := M_CB). assert (HX := M_cmax). assert (Hn := nn_pos). assert (Hcc := CB_lt_cmax).
    set (M := 2 * nn cap) in *. set (ce := ecyc e) in *. set (cw := ecyc w) in *.
    assert (E64 : 2 ^ 64 = 18446744073709551616) by reflexivity.
    assert (E63 : 2 ^ 63 = 9223372036854775808) by reflexivity.
    assert (E62 : 2 ^ 62 = 4611686018427387904) by reflexivity.
    assert (Hb : cw * M + (M - 1) < 2 ^ 62) by nia.
    destruct He as [He|He].
    - destruct (N.eqb_spec ce cmax) as [Hx|_]; [lia|]. cbn [orb].
      assert (Ha : ce * M + (M - 1) < 2 ^ 62) by nia.
      rewrite diff_lt0 by assumption.
      destruct (N.ltb_spec ce cw), (N.ltb_spec (ce * M + (M - 1)) (cw * M + (M - 1))); try reflexivity; nia.
    - rewrite He, N.eqb_refl. cbn [orb].
      unfold lt0. rewrite slt_neg_iff by apply wsub_lt. unfold diff.
      replace (cmax * M + (M - 1)) with (2 ^ 64 - 1) by lia.
      rewrite wsub_small by lia. apply N.leb_le. lia.
  Qed.

  (** * tickets: counter word w = 2T; position T mod n, cycle T / n *)
  Lemma ecyc_tick T : ecyc (2 * T) = T / nn cap.
  Proof.
    rewrite ecyc_div. assert (H := nn_pos). rewrite <- N.div_div by lia.
    rewrite (N.mul_comm 2 T), N.div_mul by lia. reflexivity.
  Qed.

  Lemma phys_tick T : phys cap (2 * T) = phys cap (2 * (T mod nn cap)).
  Proof.
    unfold phys. rewrite nn_eq.
    rewrite (remap_index_pos_only (2 * T)) by lia. rewrite (N.mul_comm 2 T), N.div_mul by lia. reflexivity.
  Qed.

  Lemma phys_inj T T' : phys cap (2 * T) = phys cap (2 * T') -> T mod nn cap = T' mod nn cap.
  Proof.
    rewrite (phys_tick T), (phys_tick T'). unfold phys. rewrite shift_eq, nn_eq. intros H.
    apply (remap_index_inj (k + 1)) in H; [exact H|lia| |]; apply N.mod_lt, pow2_nz.
  Qed.

  Lemma phys_same T T' : T mod nn cap = T' mod nn cap -> phys cap (2 * T) = phys cap (2 * T').
  Proof. intros H. rewrite (phys_tick T), (phys_tick T'), H. reflexivity. Qed.

  (** same slot and same cycle: same ticket *)
  Lemma tick_eq T T' : T mod nn cap = T' mod nn cap -> T / nn cap = T' / nn cap -> T = T'.
  Proof.
    intros Hm Hd. assert (Hn := nn_pos).
    rewrite (N.div_mod T (nn cap)), (N.div_mod T' (nn cap)) by lia. rewrite Hm, Hd. reflexivity.
  Qed.

  Lemma slot_cycle_ticket T T' : phys cap (2 * T) = phys cap (2 * T') -> ecyc (2 * T) = ecyc (2 * T') -> T = T'.
  Proof. rewrite !ecyc_tick. intros H1 H2. apply tick_eq; [apply phys_inj; exact H1|exact H2]. Qed.

  (** * threshold words *)
  Definition thr_ok (t : N) : Prop := t < 3 * cap \/ (2 ^ 64 - 2 ^ 62 <= t < 2 ^ 64).
  Lemma cap3_small : 3 * cap < 2 ^ 62.
  Proof.
    assert (H : cap <= 2 ^ 40) by (apply N.pow_le_mono_r; lia).
    assert (E40 : 2 ^ 40 = 1099511627776) by reflexivity.
    assert (E62 : 2 ^ 62 = 4611686018427387904) by reflexivity. lia.
  Qed.
  Lemma thr_lt0 t : thr_ok t -> lt0 t = (2 ^ 63 <=? t).
  Proof.
    intros H. unfold lt0. apply slt_neg_iff. assert (Hc := cap3_small).
    assert (E64 : 2 ^ 64 = 18446744073709551616) by reflexivity.
    assert (E62 : 2 ^ 62 = 4611686018427387904) by reflexivity. destruct H; lia.
  Qed.
  Lemma thr_sle0 t : thr_ok t -> sle 64 t 0 = (t =? 0) || (2 ^ 63 <=? t).
  Proof.
    intros H. assert (Hc := cap3_small).
    assert (E64 : 2 ^ 64 = 18446744073709551616) by reflexivity.
    assert (E63 : 2 ^ 63 = 9223372036854775808) by reflexivity.
    assert (E62 : 2 ^ 62 = 4611686018427387904) by reflexivity.
    assert (Ht : t < 2 ^ 64) by (destruct H; lia).
    unfold sle, sval. change (64 - 1) with 63. change (0 <? 2 ^ 63) with true. cbv iota.
    destruct (N.ltb_spec t (2 ^ 63)), (N.eqb_spec t 0), (N.leb_spec (2 ^ 63) t); cbn [orb]; try lia;
      try (apply Z.leb_le; rewrite ?E64 in *; lia); try (apply Z.leb_gt; lia).
  Qed.
  Lemma thr_dec t : thr_ok t -> wsub 64 t 1 = if t =? 0 then ones64 else t - 1.
  Proof.
    intros H. assert (Hc := cap3_small).
    assert (E64 : 2 ^ 64 = 18446744073709551616) by reflexivity.
    assert (E62 : 2 ^ 62 = 4611686018427387904) by reflexivity.
    destruct (N.eqb_spec t 0) as [->|Hnz]; [reflexivity|].
    apply wsub_small; destruct H; lia.
  Qed.
End Fields.
