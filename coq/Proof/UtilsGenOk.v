(** The generated [find_last_bit_set] loop (xenium/utils.hpp) computes [N.size]; this justifies the
    translator's call_map entry find_last_bit_set -> flbs. *)
From Coq Require Import NArith Lia.
From XV Require Import Base.Word gen.UtilsGen.
Local Open Scope N_scope.

Lemma size_shiftr1 v : v <> 0 -> N.size v = N.succ (N.size (N.shiftr v 1)).
Proof.
  intros Hv. destruct v as [|p]; [congruence|]. destruct p; reflexivity.
Qed.

Lemma size_le_64 v : v < 2 ^ 64 -> N.size v <= 64.
Proof.
  intros H. destruct (N.eq_dec v 0) as [->|Hz]; [cbn; lia|].
  rewrite N.size_log2 by exact Hz.
  assert (N.log2 v < 64) by (apply N.log2_lt_pow2; lia). lia.
Qed.

Lemma flbs_loop_ok : forall fuel r v,
  (N.to_nat (N.size v) < fuel)%nat -> r + N.size v < 2 ^ 32 ->
  find_last_bit_set_loop fuel r v = Some (r + N.size v, 0).
Proof.
  induction fuel as [|f IH]; intros r v Hf Hr; [lia|].
  cbn [find_last_bit_set_loop].
  destruct (N.eqb_spec v 0) as [->|Hv]; cbn [negb].
  - cbn. rewrite N.add_0_r. reflexivity.
  - rewrite (size_shiftr1 v Hv) in *.
    unfold wshr. rewrite IH.
    + f_equal. f_equal. rewrite wadd_small by lia. lia.
    + lia.
    + rewrite wadd_small by lia. lia.
Qed.

Theorem find_last_bit_set_ok v : v < 2 ^ 64 -> find_last_bit_set 65 v = Some (flbs v).
Proof.
  intros Hv. unfold find_last_bit_set, flbs.
  assert (Hs := size_le_64 v Hv).
  rewrite flbs_loop_ok; [reflexivity| |].
  - lia.
  - assert (2 ^ 32 = 4294967296) by reflexivity. lia.
Qed.

Lemma is_power_of_two_spec v : 0 < v -> v < 2 ^ 64 ->
  is_power_of_two v = true <-> exists k, v = 2 ^ k.
Proof.
  intros H0 Hv. unfold is_power_of_two. rewrite wsub_small by lia.
  rewrite N.eqb_eq. split.
  - intros Hl. exists (N.log2 v).
    (* v & (v-1) = 0 : v has a single bit *)
    destruct (N.log2_spec v H0) as [Hlo Hhi].
    destruct (N.eq_dec v (2 ^ N.log2 v)) as [E|NE]; [exact E|exfalso].
    assert (Hb : N.testbit (N.land v (v - 1)) (N.log2 v) = true).
    { rewrite N.land_spec. rewrite N.bit_log2 by lia. cbn [andb].
      assert (Hv1 : 2 ^ N.log2 v <= v - 1) by lia.
      assert (N.log2 (v - 1) = N.log2 v).
      { apply N.log2_unique; [lia|]. split; [lia|]. rewrite N.pow_succ_r'. rewrite N.pow_succ_r' in Hhi. lia. }
      rewrite <- H. apply N.bit_log2. lia. }
    rewrite Hl in Hb. rewrite N.bits_0 in Hb. discriminate.
  - intros [k ->]. apply N.bits_inj. intros n. rewrite N.land_spec, N.bits_0.
    rewrite N.pow2_bits_eqb. replace (2 ^ k - 1) with (N.ones k) by (rewrite N.ones_equiv; apply N.pred_sub).
    destruct (N.eqb_spec k n) as [<-|Hne]; cbn [andb]; [|reflexivity].
    apply N.ones_spec_high. lia.
Qed.
