(** nikolaev_queue model (Model/NikqDefs.v): simplification tactics, the shape of the steps of the ring code of a
    node (which thread's program point changes), coherence between the program points outside the rings ([oth]) and
    the program points inside the node states, and the relation [xs]: how one step of the queue changes the state
    of a node (a step of the bounded model, one of the accesses to the finalized tail word, entering a ring
    operation, set_threshold, the finalized enqueue, construction). *)
From Coq Require Import NArith List Bool Lia PeanoNat.
From XV Require Import Base.Word Conc.Lts Conc.Ev gen.ScqGen Model.NikbDefs Model.NikqDefs Proof.NikbArith Proof.NikbBase.
Import ListNotations.
Local Open Scope N_scope.

Ltac qsim := cbn [qhead qtail nd fin nxt fdb nalloc oth q_nodes q_retired q_in q_out q_ok q_ret q_ebusy q_dbusy
                  w_qhead w_qtail w_nd w_fin w_nxt w_fdb w_nalloc w_oth w_nodes w_retired w_qin w_qout w_qok w_qret w_qebusy w_qdbusy
                  at_opc] in *.
Ltac qsimg := cbn [qhead qtail nd fin nxt fdb nalloc oth q_nodes q_retired q_in q_out q_ok q_ret q_ebusy q_dbusy
                  w_qhead w_qtail w_nd w_fin w_nxt w_fdb w_nalloc w_oth w_nodes w_retired w_qin w_qout w_qok w_qret w_qebusy w_qdbusy
                  at_opc].

(** the node the thread is working in (inside ring code) *)
Definition innode (p : opc) : option N :=
  match p with
  | PIn _ n | PRe _ n | QIn1 n _ | QIn2 n _ => Some n
  | PSt _ m _ | PDel _ m _ => Some m
  | _ => None
  end.

(** a thread is inside the ring code of at most the node of its program point *)
Definition Coh (s : qstate) : Prop :=
  forall t n, th (nd s n) t <> Idle -> innode (oth s t) = Some n \/ oth s t = OStuck.

Lemma th_mark_left' st q hd p : th (mark_left st q hd p) = th st.
Proof. unfold mark_left. destruct (leaves p); reflexivity. Qed.
Lemma th_mark_skip' st q tl p : th (mark_skip st q tl p) = th st.
Proof. unfold mark_skip. destruct (skips p); reflexivity. Qed.

Section Base.
  Variable cap R : N.
  Notation step := (NikbDefs.step cap R).

  (** a step of the ring code changes the program point of the stepping thread only *)
  Lemma step_th sg t sg' es : step sg (Step t) = Some (sg', es) -> exists p, th sg' = upd (th sg) t p.
  Proof.
    unfold NikbDefs.step, step_gen.
    destruct (th sg t) as [|[v|tp]|q x|q x|q x hd att|q x hd e|q x hd att e|q x hd att e enew|q x hd|q x|q x tl hd|q x tl|q x
                          |q x idx gk|q x idx gk tl|q x idx gk tl e|q x idx gk tl e|q x idx gk|q x idx gk]; try discriminate.
    all: repeat match goal with |- context [if ?c then _ else _] => destruct c end.
    all: try destruct q.
    all: intros H; inversion H; subst; clear H; sim; rewrite ?th_mark_left', ?th_mark_skip'; eexists; reflexivity.
  Qed.

  Lemma step_start_th sg t o sg' es : step sg (Start t o) = Some (sg', es) -> th sg' = upd (th sg) t (Begin o).
  Proof.
    unfold NikbDefs.step, step_gen. destruct (th sg t); try discriminate. intros H; inversion H; subst. reflexivity.
  Qed.

  Lemma istep_th sg f lb t sg' es lb' : istep cap R sg f lb t = Some (sg', es, lb') -> exists p, th sg' = upd (th sg) t p.
  Proof.
    unfold istep. intros H.
    assert (Hn : forall r, match step sg (Step t) with Some (sg'0, es0) => Some (sg'0, es0, false) | None => None end = Some r ->
                   exists p, th (fst (fst r)) = upd (th sg) t p).
    { intros [[a b] c] Hx. destruct (step sg (Step t)) as [[s1 e1]|] eqn:E; [|discriminate]. inversion Hx; subst. cbn [fst]. eapply step_th; eauto. }
    destruct (th sg t) as [|o|q x|q x|q x hd att|q x hd e|q x hd att e|q x hd att e enew|q x hd|q x|q x tl hd|q x tl|q x
                          |q x idx gk|q x idx gk tl|q x idx gk tl e|q x idx gk tl e|q x idx gk|q x idx gk];
      try (exact (Hn _ H)); destruct q; try (exact (Hn _ H)).
    all: repeat match type of H with context [if ?c then _ else _] => destruct c end.
    all: inversion H; subst; clear H; sim; rewrite ?th_mark_left'; eexists; reflexivity.
  Qed.

  Lemma step_th_other sg t sg' es u : step sg (Step t) = Some (sg', es) -> u <> t -> th sg' u = th sg u.
  Proof. intros H Hne. destruct (step_th _ _ _ _ H) as [p ->]. apply upd_other. exact Hne. Qed.

  Lemma istep_th_other sg f lb t sg' es lb' u : istep cap R sg f lb t = Some (sg', es, lb') -> u <> t -> th sg' u = th sg u.
  Proof. intros H Hne. destruct (istep_th _ _ _ _ _ _ _ H) as [p ->]. apply upd_other. exact Hne. Qed.

  Lemma fin_enq_th sg t x idx gk sg' es : fin_enq cap R sg t x idx gk = Some (sg', es) ->
    th sg' t = E1 RF x idx gk /\ forall u, u <> t -> th sg' u = th sg u.
  Proof.
    unfold fin_enq. destruct (step sg (Step t)) as [[s1 e1]|] eqn:E; [|discriminate].
    intros H; inversion H; subst; clear H. sim. split; [apply upd_same|].
    intros u Hne. rewrite !upd_other by exact Hne. eapply step_th_other; eauto.
  Qed.

  Lemma enter_th sg t p : th (enter sg t p) t = p /\ forall u, u <> t -> th (enter sg t p) u = th sg u.
  Proof. unfold enter. sim. split; [apply upd_same|intros u Hne; apply upd_other; exact Hne]. Qed.
End Base.

Ltac break H := repeat (match type of H with
  | context [match ?x with _ => _ end] => destruct x eqn:?
  | context [if ?c then _ else _] => destruct c eqn:?
  end; try discriminate H).

Section XS.
  Variable cap R : N.
  Notation step := (NikbDefs.step cap R).
  Notation qstep := (qstep cap R).

  (** how one step of thread t of the queue changes the state of a node *)
  Inductive xs (ai : bool) (t : nat) : state -> state -> Prop :=
  | xs_refl sg : xs ai t sg sg
  | xs_trans a b c : xs ai t a b -> xs ai t b c -> xs ai t a c
  | xs_istep sg f lb sg' es lb' : istep cap R sg f lb t = Some (sg', es, lb') -> xs ai t sg sg'
  | xs_native sg sg' es : step sg (Step t) = Some (sg', es) -> xs ai t sg sg'
  | xs_enter sg q x : th sg t = Idle -> xs ai t sg (enter sg t (D0 q x))
  | xs_thr sg : th sg t = Idle -> xs ai t sg (enter (w_rg sg RA (r_thr (ra sg) (thr_full cap))) t (D0 RA 0))
  | xs_fin sg x idx gk sg' es : th sg t = E1 RA x idx gk -> fin_enq cap R sg t x idx gk = Some (sg', es) -> xs ai t sg sg'
  | xs_init sg v : ai = true -> xs ai t sg (used_init cap v).

  Lemma nd_w_nd st n sg m : nd (w_nd st n sg) m = if m =? n then sg else nd st m.
  Proof. reflexivity. Qed.

  Lemma xs_setf ai t (f : N -> state) n sg' m : xs ai t (f n) sg' -> xs ai t (f m) (setf f n sg' m).
  Proof. intros H. unfold setf. destruct (N.eqb_spec m n) as [->|]; [exact H|apply xs_refl]. Qed.

  Lemma new_node_xs ai s t v n e s' es : new_node cap s t v n e = Some (s', es) -> forall m, ai = true \/ m <> nalloc s -> xs ai t (nd s m) (nd s' m).
  Proof.
    unfold new_node. intros H; inversion H; subst; clear H. qsim. intros m [Ha|Hm].
    - apply xs_setf. apply xs_init. exact Ha.
    - rewrite setf_other by exact Hm. apply xs_refl.
  Qed.

  Lemma push_in_xs ai st t v n s' es : push_in cap R st t v n = Some (s', es) -> forall m, ai = true \/ m <> nalloc st -> xs ai t (nd st m) (nd s' m).
  Proof.
    unfold push_in. intros H m Hm.
    destruct (th (nd st n) t) as [|o|q x|q x|q x hd att|q x hd e|q x hd att e|q x hd att e enew|q x hd|q x|q x tl hd|q x tl|q x
                          |q x idx gk|q x idx gk tl|q x idx gk tl e|q x idx gk tl e|q x idx gk|q x idx gk] eqn:Ep.
    14: destruct q; [destruct (fin st n);
          [destruct (fin_enq cap R (nd st n) t x idx gk) as [[sg' es0]|] eqn:Ef; [|discriminate];
           inversion H; subst; clear H; qsim; apply xs_setf; eapply xs_fin; eauto
          |destruct (step (nd st n) (Step t)) as [[sg' es0]|] eqn:Es; [|discriminate];
           inversion H; subst; clear H; qsim; apply xs_setf; eapply xs_native; eauto]|].
    all: destruct (step (nd st n) (Step t)) as [[sg' es0]|] eqn:Es; [|discriminate].
    all: assert (Hx : xs ai t (nd st m) (setf (nd st) n sg' m)) by (apply xs_setf; eapply xs_native; eauto).
    all: cbv zeta in H; unfold pub_ghost in H; rewrite Ep in H.
    all: break H; inversion H; subst; clear H; qsim; exact Hx.
  Qed.

  Lemma push_re_xs ai st t v n s' es : push_re cap R st t v n = Some (s', es) -> forall m, ai = true \/ m <> nalloc st -> xs ai t (nd st m) (nd s' m).
  Proof.
    unfold push_re. intros H m Hm.
    destruct (step (nd st n) (Step t)) as [[sg' es0]|] eqn:Es; [|discriminate].
    assert (Hx : xs ai t (nd st m) (setf (nd st) n sg' m)) by (apply xs_setf; eapply xs_native; eauto).
    destruct (th sg' t); try (inversion H; subst; clear H; qsim; exact Hx).
    eapply xs_trans; [exact Hx|]. apply (new_node_xs _ _ _ _ _ _ _ _ H m). qsim. exact Hm.
  Qed.

  Lemma steal_xs ai st t v n lb s' es : steal_phase cap R st t v n lb = Some (s', es) -> forall m, ai = true \/ m <> nalloc st -> xs ai t (nd st m) (nd s' m).
  Proof.
    unfold steal_phase. intros H m Hm.
    destruct (istep cap R (nd st n) (fin st n) lb t) as [[[sg' es0] lb']|] eqn:Es; [|discriminate].
    assert (Hx : xs ai t (nd st m) (setf (nd st) n sg' m)) by (apply xs_setf; eapply xs_istep; eauto).
    destruct (th sg' t) eqn:Et; try (inversion H; subst; clear H; qsim; exact Hx).
    assert (Hy : xs ai t (nd st m) (setf (nd st) n (enter sg' t (D0 RA 0)) m)).
    { apply xs_setf. eapply xs_trans; [eapply xs_istep; eauto|apply xs_enter; exact Et]. }
    break H; inversion H; subst; clear H; qsim; assumption.
  Qed.

  Lemma del_xs ai st t v n lb s' es : del_phase cap R st t v n lb = Some (s', es) -> forall m, ai = true \/ m <> nalloc st -> xs ai t (nd st m) (nd s' m).
  Proof.
    unfold del_phase. intros H m Hm.
    destruct (istep cap R (nd st n) (fin st n) lb t) as [[[sg' es0] lb']|] eqn:Es; [|discriminate].
    assert (Hx : xs ai t (nd st m) (setf (nd st) n sg' m)) by (apply xs_setf; eapply xs_istep; eauto).
    break H; inversion H; subst; clear H; qsim; exact Hx.
  Qed.

  Lemma pop_phase_nd st t n lb again failed s' es : pop_phase cap R st t n lb again failed = Some (s', es) ->
    exists sg' es0 lb', istep cap R (nd st n) (fin st n) lb t = Some (sg', es0, lb') /\ nd s' = setf (nd st) n sg'.
  Proof.
    unfold pop_phase. intros H.
    destruct (istep cap R (nd st n) (fin st n) lb t) as [[[sg' es0] lb']|] eqn:Es; [|discriminate].
    exists sg', es0, lb'. split; [reflexivity|]. cbv zeta in H.
    assert (Hs2 : nd (take_ghost cap st (w_nd st n sg') t n (nd st n)) = setf (nd st) n sg').
    { unfold take_ghost. destruct (th (nd st n) t); try reflexivity. destruct q; reflexivity. }
    revert Hs2 H. generalize (take_ghost cap st (w_nd st n sg') t n (nd st n)). intros s2 Hs2 H.
    destruct (th sg' t); try (inversion H; subst; clear H; qsim; exact Hs2).
    break H; inversion H; subst; clear H; qsim; exact Hs2.
  Qed.

  Lemma pop_phase_xs ai st t n lb again failed s' es : pop_phase cap R st t n lb again failed = Some (s', es) ->
    forall m, ai = true \/ m <> nalloc st -> xs ai t (nd st m) (nd s' m).
  Proof.
    intros H m Hm. destruct (pop_phase_nd _ _ _ _ _ _ _ _ H) as (sg' & es0 & lb' & Hi & ->). apply xs_setf. eapply xs_istep; eauto.
  Qed.

  Lemma coh_idle s t n : Coh s -> innode (oth s t) = None -> oth s t <> OStuck -> th (nd s n) t = Idle.
  Proof.
    intros Hc Hi Hs. destruct (th (nd s n) t) eqn:E; try reflexivity.
    all: destruct (Hc t n) as [Hx|Hx]; [rewrite E; discriminate|rewrite Hi in Hx; discriminate|contradiction].
  Qed.

  Lemma qstep_xs ai s a s' es : Coh s -> qstep s a = Some (s', es) ->
    forall m, ai = true \/ m <> nalloc s -> xs ai (match a with Start t _ => t | Step t => t end) (nd s m) (nd s' m).
  Proof.
    intros Hc H m Hm. unfold NikqDefs.qstep in H. destruct a as [t o|t].
    - destruct (oth s t); try discriminate. inversion H; subst. qsim. apply xs_refl.
    - destruct (oth s t) as [|[v|tp]| |v|v n|v n|v n nx|v n|v n|v n|v n m0 i|v n m0 i|v n m0|v n m0|v m0 lb|v m0 lb| |n lb|n|n|n lb|n|n nx] eqn:Eo;
        try discriminate.
      all: try (eapply push_in_xs; eassumption).
      all: try (eapply push_re_xs; eassumption).
      all: try (eapply steal_xs; eassumption).
      all: try (eapply del_xs; eassumption).
      all: try (eapply pop_phase_xs; eassumption).
      all: try (eapply new_node_xs; eassumption).
      all: try (break H; inversion H; subst; clear H; qsim; apply xs_refl).
      + (* P2 *) destruct (nxt s n =? 0); inversion H; subst; clear H; qsim; [|apply xs_refl].
        apply xs_setf. apply xs_enter. apply coh_idle; [exact Hc|rewrite Eo; reflexivity|rewrite Eo; discriminate].
      + (* PFin *) pose proof (new_node_xs ai _ _ _ _ _ _ _ H m) as Hx. qsim. apply Hx. exact Hm.
      + (* PLink *) destruct (nxt s n =? 0); inversion H; subst; clear H; qsim; [apply xs_refl|].
        apply xs_setf. apply xs_enter. apply coh_idle; [exact Hc|rewrite Eo; reflexivity|rewrite Eo; discriminate].
      + (* Q1 *) inversion H; subst; clear H; qsim.
        apply xs_setf. apply xs_enter. apply coh_idle; [exact Hc|rewrite Eo; reflexivity|rewrite Eo; discriminate].
      + (* Q3 *) inversion H; subst; clear H; qsim.
        apply xs_setf. apply xs_thr.
        apply coh_idle; [exact Hc|rewrite Eo; reflexivity|rewrite Eo; discriminate].
  Qed.

  (** threads other than the stepping one keep their program points in every node *)
  Lemma xs_th_other ai t a b u : xs ai t a b -> u <> t -> th b u <> Idle -> th b u = th a u.
  Proof.
    intros Hx Hne. induction Hx as [sg|a b c H1 IH1 H2 IH2|sg f lb sg' es lb' Hi|sg sg' es Hs|sg q x Hi|sg Hi|sg x idx gk sg' es Hp Hf|sg v Hai]; intros Hni.
    - reflexivity.
    - pose proof (IH2 Hni) as E. rewrite E. apply IH1. rewrite <- E. exact Hni.
    - eapply istep_th_other; eauto.
    - eapply step_th_other; eauto.
    - apply enter_th. exact Hne.
    - destruct (enter_th (w_rg sg RA (r_thr (ra sg) (thr_full cap))) t (D0 RA 0)) as [_ Ho]. rewrite (Ho u Hne). reflexivity.
    - destruct (fin_enq_th _ _ _ _ _ _ _ _ _ Hf) as [_ Ho]. apply Ho. exact Hne.
    - exfalso. apply Hni. reflexivity.
  Qed.

  Lemma oth_pub_ghost st s1 t n sg : oth (pub_ghost cap st s1 t n sg) = oth s1.
  Proof. unfold pub_ghost. destruct (th sg t); try reflexivity. destruct q; try reflexivity. destruct (_ =? _); reflexivity. Qed.
  Lemma nd_pub_ghost st s1 t n sg : nd (pub_ghost cap st s1 t n sg) = nd s1.
  Proof. unfold pub_ghost. destruct (th sg t); try reflexivity. destruct q; try reflexivity. destruct (_ =? _); reflexivity. Qed.
  Lemma oth_take_ghost st s1 t n sg : oth (take_ghost cap st s1 t n sg) = oth s1.
  Proof. unfold take_ghost. destruct (th sg t); try reflexivity. destruct q; reflexivity. Qed.
  Lemma nd_take_ghost st s1 t n sg : nd (take_ghost cap st s1 t n sg) = nd s1.
  Proof. unfold take_ghost. destruct (th sg t); try reflexivity. destruct q; reflexivity. Qed.

  (** the effect of the phases on [nd] and [oth] *)
  Lemma new_node_eff s t v n e s' es : new_node cap s t v n e = Some (s', es) ->
    nd s' = setf (nd s) (nalloc s) (used_init cap v) /\ oth s' = upd (oth s) t (PCa v n (nalloc s) 0).
  Proof. unfold new_node. intros H; inversion H; subst; clear H. qsim. split; reflexivity. Qed.

  Lemma push_in_eff st t v n s' es : push_in cap R st t v n = Some (s', es) ->
    exists sg' p, nd s' = setf (nd st) n sg' /\ oth s' = upd (oth st) t p /\ (p = PIn v n \/ p = PRe v n \/ th sg' t = Idle).
  Proof.
    unfold push_in. intros H.
    destruct (th (nd st n) t) as [|o|q x|q x|q x hd att|q x hd e|q x hd att e|q x hd att e enew|q x hd|q x|q x tl hd|q x tl|q x
                          |q x idx gk|q x idx gk tl|q x idx gk tl e|q x idx gk tl e|q x idx gk|q x idx gk] eqn:Ep.
    14: destruct q; [destruct (fin st n);
          [destruct (fin_enq cap R (nd st n) t x idx gk) as [[sg' es0]|] eqn:Ef; [|discriminate]
          |destruct (step (nd st n) (Step t)) as [[sg' es0]|] eqn:Es; [|discriminate]];
           inversion H; subst; clear H; qsim; exists sg'; eexists; ssplit; try reflexivity; tauto|].
    all: destruct (step (nd st n) (Step t)) as [[sg' es0]|] eqn:Es; [|discriminate].
    all: cbv zeta in H.
    all: assert (Hn := nd_pub_ghost st (w_nd st n sg') t n (nd st n)); assert (Ho := oth_pub_ghost st (w_nd st n sg') t n (nd st n)).
    all: revert Hn Ho H; generalize (pub_ghost cap st (w_nd st n sg') t n (nd st n)); intros s1 Hn Ho H; qsim.
    all: destruct (th sg' t) eqn:Et.
    all: try (inversion H; subst; clear H; qsim; exists sg'; eexists; ssplit; [exact Hn|rewrite Ho; reflexivity|tauto]).
    all: break H; inversion H; subst; clear H; qsim; exists sg'; eexists; (ssplit; [exact Hn|rewrite Ho; reflexivity|tauto]).
  Qed.

  Lemma push_re_eff st t v n s' es : push_re cap R st t v n = Some (s', es) ->
    exists sg' p, oth s' = upd (oth st) t p /\ ((nd s' = setf (nd st) n sg' /\ p = PRe v n) \/
       (th sg' t = Idle /\ nd s' = setf (setf (nd st) n sg') (nalloc st) (used_init cap v) /\ innode p = None /\ p <> OStuck)).
  Proof.
    unfold push_re. intros H.
    destruct (step (nd st n) (Step t)) as [[sg' es0]|] eqn:Es; [|discriminate]. exists sg'.
    destruct (th sg' t) eqn:Et; try (inversion H; subst; clear H; qsim; eexists; split; [reflexivity|left; split; reflexivity]).
    destruct (new_node_eff _ _ _ _ _ _ _ H) as [Hn Ho]. qsim. eexists. split; [exact Ho|]. right. ssplit; [reflexivity|exact Hn|reflexivity|discriminate].
  Qed.

  Lemma steal_eff st t v m lb s' es : steal_phase cap R st t v m lb = Some (s', es) ->
    exists sg' p, nd s' = setf (nd st) m sg' /\ oth s' = upd (oth st) t p /\ (innode p = Some m \/ p = OStuck).
  Proof.
    unfold steal_phase. intros H.
    destruct (istep cap R (nd st m) (fin st m) lb t) as [[[sg' es0] lb']|] eqn:Es; [|discriminate].
    break H; inversion H; subst; clear H; qsim; eexists; eexists; ssplit; try reflexivity; cbn [innode]; tauto.
  Qed.

  Lemma del_eff st t v m lb s' es : del_phase cap R st t v m lb = Some (s', es) ->
    exists sg' p, nd s' = setf (nd st) m sg' /\ oth s' = upd (oth st) t p /\ (innode p = Some m \/ p = OStuck \/ (th sg' t = Idle /\ innode p = None)).
  Proof.
    unfold del_phase. intros H.
    destruct (istep cap R (nd st m) (fin st m) lb t) as [[[sg' es0] lb']|] eqn:Es; [|discriminate].
    destruct (th sg' t) eqn:Et; try (inversion H; subst; clear H; qsim; eexists; eexists; ssplit; try reflexivity; cbn [innode]; tauto).
    destruct q; inversion H; subst; clear H; qsim; eexists; eexists; ssplit; try reflexivity; cbn [innode]; tauto.
  Qed.

  Lemma pop_phase_eff st t n lb again failed s' es : pop_phase cap R st t n lb again failed = Some (s', es) ->
    exists sg' es0 lb' p, istep cap R (nd st n) (fin st n) lb t = Some (sg', es0, lb') /\ nd s' = setf (nd st) n sg' /\
      oth s' = upd (oth st) t p /\ (p = again lb' \/ (th sg' t = Idle /\ (p = OIdle \/ p = failed))).
  Proof.
    unfold pop_phase. intros H.
    destruct (istep cap R (nd st n) (fin st n) lb t) as [[[sg' es0] lb']|] eqn:Es; [|discriminate].
    exists sg', es0, lb'. cbv zeta in H.
    assert (Hn := nd_take_ghost st (w_nd st n sg') t n (nd st n)); assert (Ho := oth_take_ghost st (w_nd st n sg') t n (nd st n)).
    revert Hn Ho H. generalize (take_ghost cap st (w_nd st n sg') t n (nd st n)). intros s2 Hn Ho H. qsim.
    destruct (th sg' t) eqn:Et; try (inversion H; subst; clear H; qsim; eexists; ssplit; [reflexivity|exact Hn|rewrite Ho; reflexivity|tauto]).
    break H; inversion H; subst; clear H; qsim; eexists; (ssplit; [reflexivity|exact Hn|rewrite Ho; reflexivity|tauto]).
  Qed.

  Definition tid (a : action) : nat := match a with Start t _ => t | Step t => t end.

  (** the effect of a step on [oth]: only the stepping thread moves; where it goes, relative to the node states *)
  Lemma qstep_eff s a s' es : Coh s -> qstep s a = Some (s', es) ->
    (forall u, u <> tid a -> oth s' u = oth s u) /\
    (forall n, th (nd s' n) (tid a) <> Idle -> innode (oth s' (tid a)) = Some n \/ oth s' (tid a) = OStuck).
  Proof.
    intros Hc H. unfold NikqDefs.qstep in H. destruct a as [t o|t]; cbn [tid].
    - destruct (oth s t) eqn:Eo; try discriminate. inversion H; subst; clear H. qsim.
      split; [intros u Hne; apply upd_other; exact Hne|].
      intros n Hn. exfalso. apply Hn. apply coh_idle; [exact Hc|rewrite Eo; reflexivity|rewrite Eo; discriminate].
    - assert (Hidle : innode (oth s t) = None -> oth s t <> OStuck -> forall n, th (nd s n) t = Idle)
        by (intros A B n; apply coh_idle; assumption).
      assert (Hin : forall n0, innode (oth s t) = Some n0 -> forall n, n <> n0 -> th (nd s n) t = Idle).
      { intros n0 E n Hne. destruct (th (nd s n) t) eqn:Et; try reflexivity.
        all: destruct (Hc t n) as [Hx|Hx]; [rewrite Et; discriminate|rewrite E in Hx; inversion Hx; congruence|rewrite Hx in E; discriminate]. }
      destruct (oth s t) as [|[v|tp]| |v|v n|v n|v n nx|v n|v n|v n|v n m0 i|v n m0 i|v n m0|v n m0|v m0 lb|v m0 lb| |n lb|n|n|n lb|n|n nx] eqn:Eo;
        try discriminate.
      (* steps outside the rings that leave the node states alone *)
      all: try (assert (Hi := Hidle eq_refl ltac:(discriminate));
                break H; inversion H; subst; clear H; qsim;
                (split; [intros u Hne; apply upd_other; exact Hne|intros n' Hn'; exfalso; apply Hn'; apply Hi])).
      + (* P2: enter *) assert (Hi := Hidle eq_refl ltac:(discriminate)).
        destruct (nxt s n =? 0); inversion H; subst; clear H; qsim;
          (split; [intros u Hne; apply upd_other; exact Hne|]); intros n' Hn'; rewrite upd_same.
        * destruct (N.eq_dec n' n) as [->|Hne]; [rewrite setf_same in Hn'|rewrite setf_other in Hn' by exact Hne]; [left; reflexivity|exfalso; apply Hn'; apply Hi].
        * exfalso; apply Hn'; apply Hi.
      + (* PIn *) destruct (push_in_eff _ _ _ _ _ _ H) as (sg' & p & Hn & Ho & Hp). rewrite Hn, Ho.
        split; [intros u Hne; apply upd_other; exact Hne|]. intros n' Hn'. rewrite upd_same.
        destruct (N.eq_dec n' n) as [->|Hne]; [rewrite setf_same in Hn'|rewrite setf_other in Hn' by exact Hne]; [|exfalso; apply Hn'; apply (Hin n eq_refl); exact Hne].
        destruct Hp as [->|[->|Hp]]; [left; reflexivity|left; reflexivity|contradiction].
      + (* PRe *) destruct (push_re_eff _ _ _ _ _ _ H) as (sg' & p & Ho & [[Hn ->]|(Hi & Hn & Hp1 & Hp2)]); rewrite Hn, Ho;
        (split; [intros u Hne; apply upd_other; exact Hne|]); intros n' Hn'; rewrite upd_same.
        * destruct (N.eq_dec n' n) as [->|Hne]; [rewrite setf_same in Hn'|rewrite setf_other in Hn' by exact Hne]; [left; reflexivity|exfalso; apply Hn'; apply (Hin n eq_refl); exact Hne].
        * exfalso. apply Hn'. unfold setf. destruct (n' =? nalloc s); [reflexivity|].
          destruct (N.eqb_spec n' n) as [->|Hne]; [exact Hi|apply (Hin n eq_refl); exact Hne].
      + (* PFin *) destruct (new_node_eff _ _ _ _ _ _ _ H) as [Hn Ho]. qsim. rewrite Hn, Ho.
        split; [intros u Hne; apply upd_other; exact Hne|]. intros n' Hn'. exfalso. apply Hn'.
        unfold setf. destruct (n' =? nalloc s); [reflexivity|]. apply Hidle; [reflexivity|discriminate].
      + (* PLink: enter on failure *) assert (Hi := Hidle eq_refl ltac:(discriminate)).
        destruct (nxt s n =? 0); inversion H; subst; clear H; qsim;
          (split; [intros u Hne; apply upd_other; exact Hne|]); intros n' Hn'; rewrite upd_same.
        * exfalso; apply Hn'; apply Hi.
        * destruct (N.eq_dec n' m0) as [->|Hne]; [rewrite setf_same in Hn'|rewrite setf_other in Hn' by exact Hne]; [left; reflexivity|exfalso; apply Hn'; apply Hi].
      + (* PSt *) destruct (steal_eff _ _ _ _ _ _ _ H) as (sg' & p & Hn & Ho & Hp). rewrite Hn, Ho.
        split; [intros u Hne; apply upd_other; exact Hne|]. intros n' Hn'. rewrite upd_same.
        destruct (N.eq_dec n' m0) as [->|Hne]; [rewrite setf_same in Hn'|rewrite setf_other in Hn' by exact Hne]; [|exfalso; apply Hn'; apply (Hin m0 eq_refl); exact Hne].
        exact Hp.
      + (* PDel *) destruct (del_eff _ _ _ _ _ _ _ H) as (sg' & p & Hn & Ho & Hp). rewrite Hn, Ho.
        split; [intros u Hne; apply upd_other; exact Hne|]. intros n' Hn'. rewrite upd_same.
        destruct (N.eq_dec n' m0) as [->|Hne]; [rewrite setf_same in Hn'|rewrite setf_other in Hn' by exact Hne]; [|exfalso; apply Hn'; apply (Hin m0 eq_refl); exact Hne].
        destruct Hp as [Hp|[Hp|[Hp _]]]; [left; exact Hp|right; exact Hp|contradiction].
      + (* Q1: enter *) assert (Hi := Hidle eq_refl ltac:(discriminate)).
        inversion H; subst; clear H; qsim. split; [intros u Hne; apply upd_other; exact Hne|]. intros n' Hn'. rewrite upd_same.
        destruct (N.eq_dec n' (qhead s)) as [->|Hne]; [rewrite setf_same in Hn'|rewrite setf_other in Hn' by exact Hne]; [left; reflexivity|exfalso; apply Hn'; apply Hi].
      + (* QIn1 *) destruct (pop_phase_eff _ _ _ _ _ _ _ _ H) as (sg' & es0 & lb' & p & _ & Hn & Ho & Hp). rewrite Hn, Ho.
        split; [intros u Hne; apply upd_other; exact Hne|]. intros n' Hn'. rewrite upd_same.
        destruct (N.eq_dec n' n) as [->|Hne]; [rewrite setf_same in Hn'|rewrite setf_other in Hn' by exact Hne]; [|exfalso; apply Hn'; apply (Hin n eq_refl); exact Hne].
        destruct Hp as [->|[Hp _]]; [left; reflexivity|contradiction].
      + (* Q3: set_threshold, enter *) assert (Hi := Hidle eq_refl ltac:(discriminate)).
        inversion H; subst; clear H; qsim. split; [intros u Hne; apply upd_other; exact Hne|]. intros n' Hn'. rewrite upd_same.
        destruct (N.eq_dec n' n) as [->|Hne]; [rewrite setf_same in Hn'|rewrite setf_other in Hn' by exact Hne]; [left; reflexivity|exfalso; apply Hn'; apply Hi].
      + (* QIn2 *) destruct (pop_phase_eff _ _ _ _ _ _ _ _ H) as (sg' & es0 & lb' & p & _ & Hn & Ho & Hp). rewrite Hn, Ho.
        split; [intros u Hne; apply upd_other; exact Hne|]. intros n' Hn'. rewrite upd_same.
        destruct (N.eq_dec n' n) as [->|Hne]; [rewrite setf_same in Hn'|rewrite setf_other in Hn' by exact Hne]; [|exfalso; apply Hn'; apply (Hin n eq_refl); exact Hne].
        destruct Hp as [->|[Hp _]]; [left; reflexivity|contradiction].
  Qed.

  Lemma Coh_init : Coh (qinit cap).
  Proof. intros t n H. exfalso. apply H. reflexivity. Qed.

  Lemma Coh_step s a s' es : Coh s -> qstep s a = Some (s', es) -> Coh s'.
  Proof.
    intros Hc H. destruct (qstep_eff _ _ _ _ Hc H) as [Ho Hme]. intros u n Hn.
    destruct (Nat.eq_dec u (tid a)) as [->|Hne]; [apply Hme; exact Hn|].
    rewrite (Ho u Hne). apply Hc. rewrite <- (xs_th_other true (tid a) (nd s n) (nd s' n) u); [exact Hn| |exact Hne|exact Hn].
    pose proof (qstep_xs true _ _ _ _ Hc H n (or_introl eq_refl)) as Hx. destruct a; exact Hx.
  Qed.

  Theorem Coh_reach s : reach (qinit cap) qstep s -> Coh s.
  Proof. apply inv_rule; [apply Coh_init|intros; eapply Coh_step; eauto]. Qed.
End XS.
