(** C16 for xenium::michael_scott_queue: push and pop finish within an explicit number of solo steps
    from EVERY reachable state (any number of other threads stopped anywhere inside their
    operations).  The retry loops end because a thread running alone fails a CAS only with a stale
    local value, and after the reload it either succeeds or helps the lagging tail exactly once
    (the proved invariant says the tail lags by at most one link, and that the successor of the
    head differs from the head).  Worst cases: push 9 steps (8 from the start of the operation),
    pop 12 steps (11 from the start).  No axioms, no admits. *)
From Coq Require Import NArith List Bool Lia PeanoNat.
From XV Require Import Base.Word Conc.Lts Conc.Ev Conc.Solo Model.MsqDefs Proof.MsqInv.
Import ListNotations.
Local Open Scope N_scope.

Definition idle (s : state) (t : nat) : bool := match th s t with Idle => true | _ => false end.

(** cost of the push loop from its top: 4 steps, plus 3 to help a lagging tail first *)
Definition m1' (tl : N) (nx : N -> N) : nat := if nx tl =? 0 then 4 else 7.
Definition m1 (s : state) : nat := m1' (tail s) (nnext s).
(** cost of the pop loop from its top: 3 steps if empty, 5 to take, plus 5 if the tail lags on the head *)
Definition d1' (h tl : N) (nx : N -> N) : nat :=
  if nx h =? 0 then 3 else if h =? tl then 10 else 5.
Definition d1 (s : state) : nat := d1' (head s) (tail s) (nnext s).

Definition msq_bound (s : state) (t : nat) : nat :=
  match th s t with
  | Idle => 0
  | Begin (OPush _) => 8
  | M1 _ => m1 s
  | M2 _ tl => if N.eqb tl (tail s) then (if N.eqb (nnext s tl) 0 then 3 else 6) else 9
  | M3 _ tl _ => if N.eqb (tail s) tl then 5 else 8
  | M4 _ tl => if N.eqb (nnext s tl) 0 then 2 else 8
  | M5 _ _ => 1
  | Begin OPop => S (d1 s)
  | D1 => d1 s
  | D2 h => if N.eqb h (head s) then d1 s - 1 else 12
  | D3 h nx => if N.eqb h (head s) then (if N.eqb nx 0 then 1 else if N.eqb (head s) (tail s) then 8 else 3) else 11
  | D4 h nx => if N.eqb h (head s) then (if N.eqb (head s) (tail s) then 7 else 2) else 12
  | D5 h nx tl => if N.eqb (tail s) tl && N.eqb h (head s) then 6 else 11
  | D6 h nx => if N.eqb (head s) h then 1 else 11
  end%nat.

Lemma m1_le tl nx : (m1' tl nx <= 7)%nat.
Proof. unfold m1'. destruct (_ =? _); lia. Qed.
Lemma d1_le h tl nx : (d1' h tl nx <= 10)%nat.
Proof. unfold d1'. destruct (_ =? _); [lia|]. destruct (_ =? _); lia. Qed.
Lemma d1_ge h tl nx : (3 <= d1' h tl nx)%nat.
Proof. unfold d1'. destruct (_ =? _); [lia|]. destruct (_ =? _); lia. Qed.

(** the successor of the head is not the head *)
Lemma head_next_neq st : reach init step st -> nnext st (head st) <> 0 -> nnext st (head st) <> head st.
Proof.
  intros Hr Hnz. destruct (Inv_chain st (Inv_reach st Hr)) as (HG & _ & _).
  pose proof (G_lpath _ _ HG) as Hl.
  destruct HG as (Hhd & Hpath & Hnd & _). destruct Hhd as [r Hc]. rewrite Hc in Hl.
  destruct (lpath_hd_next _ _ _ Hl Hnz) as [r' ->].
  rewrite Hc in Hnd. apply NoDup_app_r in Hnd. inversion Hnd as [|x l Hni _]; subst.
  intros E. apply Hni. rewrite E. left. reflexivity.
Qed.

(** helping thread in push: the node it swings the tail to is the last one *)
Lemma help_target_last st t n tl nx :
  reach init step st -> th st t = M3 n tl nx -> tail st = tl -> nnext st nx = 0.
Proof.
  intros Hr E Ht. pose proof (msq_locals st Hr t) as Hl. rewrite E in Hl.
  destruct Hl as (_ & _ & Hn & Hnz). destruct (msq_tail_lag st Hr) as [_ [Hz|Hz]].
  - rewrite Ht, Hn in Hz. contradiction.
  - rewrite Ht, Hn in Hz. exact Hz.
Qed.

Ltac done_step :=
  eexists _, _; split; [reflexivity|];
  unfold msq_bound, m1, d1; cbn [th head tail nnext]; rewrite ?upd_same.

Lemma msq_solo_step s t :
  reach init step s -> idle s t = false ->
  exists s' es, step s (Step t) = Some (s', es) /\ reach init step s' /\ (msq_bound s' t < msq_bound s t)%nat.
Proof.
  intros Hr Hi.
  assert (Hgoal : exists s' es, step s (Step t) = Some (s', es) /\ (msq_bound s' t < msq_bound s t)%nat).
  { unfold idle in Hi. unfold msq_bound at 2. unfold m1, d1. cbn [step].
    pose proof (msq_locals s Hr t) as Hloc.
    destruct (th s t) as [|[v|]|n|n tl|n tl nx|n tl|n tl| |h|h nx|h nx|h nx tl|h nx] eqn:E; try discriminate.
    - (* Begin push *) done_step. match goal with |- (m1' ?a ?b < _)%nat => pose proof (m1_le a b) end. lia.
    - (* Begin pop *) done_step. lia.
    - (* M1 *) done_step. rewrite N.eqb_refl. unfold m1'. destruct (nnext s (tail s) =? 0); lia.
    - (* M2 *)
      destruct (nnext s tl =? 0) eqn:Hz; done_step.
      + rewrite Hz. destruct (tl =? tail s); lia.
      + destruct (tl =? tail s) eqn:Ht.
        * apply N.eqb_eq in Ht. subst tl. rewrite N.eqb_refl. lia.
        * rewrite N.eqb_sym, Ht. lia.
    - (* M3 *)
      destruct (tail s =? tl) eqn:Ht; done_step.
      + apply N.eqb_eq in Ht. pose proof (help_target_last s t n tl nx Hr E Ht) as Hz.
        unfold m1'. rewrite Hz. cbn. lia.
      + match goal with |- (m1' ?a ?b < _)%nat => pose proof (m1_le a b) end. lia.
    - (* M4 *)
      destruct (nnext s tl =? 0) eqn:Hz; done_step; [lia|].
      match goal with |- (m1' ?a ?b < _)%nat => pose proof (m1_le a b) end. lia.
    - (* M5 *)
      destruct (tail s =? tl); done_step; lia.
    - (* D1 *) done_step. rewrite N.eqb_refl. pose proof (d1_ge (head s) (tail s) (nnext s)). lia.
    - (* D2 *)
      done_step. destruct (h =? head s) eqn:Hh; [|lia].
      apply N.eqb_eq in Hh. subst h. unfold d1'.
      destruct (nnext s (head s) =? 0); [lia|]. destruct (head s =? tail s); lia.
    - (* D3 *)
      destruct (h =? head s) eqn:Hh.
      + rewrite N.eqb_sym, Hh. cbn [negb]. destruct (nx =? 0) eqn:Hz; done_step; [lia|].
        rewrite Hh. destruct (head s =? tail s); lia.
      + rewrite N.eqb_sym, Hh. cbn [negb]. done_step. pose proof (d1_le (head s) (tail s) (nnext s)). lia.
    - (* D4 *)
      destruct (h =? tail s) eqn:Ht; done_step.
      + rewrite N.eqb_refl. cbn [andb]. destruct (h =? head s) eqn:Hh; [|lia].
        apply N.eqb_eq in Hh, Ht. rewrite <- Hh, <- Ht, N.eqb_refl. lia.
      + destruct (h =? head s) eqn:Hh; [|rewrite N.eqb_sym, Hh; lia].
        apply N.eqb_eq in Hh. subst h. rewrite Ht, N.eqb_refl. lia.
    - (* D5 *)
      destruct (tail s =? tl) eqn:Ht; cbn [andb]; done_step.
      + destruct (h =? head s) eqn:Hh.
        * apply N.eqb_eq in Hh, Ht. destruct Hloc as (_ & _ & Hnz & Hn & _). rewrite Hh in Hn.
          assert (Hne : nx <> head s) by (rewrite <- Hn; apply head_next_neq; [exact Hr|rewrite Hn; exact Hnz]).
          unfold d1'. rewrite Hn.
          apply N.eqb_neq in Hnz. rewrite Hnz.
          assert (Hx : head s =? nx = false) by (apply N.eqb_neq; congruence). rewrite Hx. lia.
        * match goal with |- (d1' ?a ?b ?c < _)%nat => pose proof (d1_le a b c) end. lia.
      + pose proof (d1_le (head s) (tail s) (nnext s)). lia.
    - (* D6 *)
      destruct (head s =? h) eqn:Hh; done_step; [lia|]. pose proof (d1_le (head s) (tail s) (nnext s)). lia. }
  destruct Hgoal as (s' & es & Hst & Hmu). exists s', es. split; [exact Hst|].
  split; [eapply reach_step; eauto|exact Hmu].
Qed.

Theorem msq_solo s t :
  reach init step s -> finishes_within step Step idle t (msq_bound s t) s.
Proof.
  intros Hr.
  apply (finishes_by_measure _ _ _ step Step idle (reach init step) (fun s => msq_bound s t) t); [|exact Hr].
  intros s0 Hr0 Hi0. exact (msq_solo_step s0 t Hr0 Hi0).
Qed.

(** constant bounds per operation *)
Definition msq_op_bound (p : pc) : nat :=
  match p with
  | Idle => 0
  | Begin (OPush _) => 8
  | M1 _ | M2 _ _ | M3 _ _ _ | M4 _ _ | M5 _ _ => 9
  | Begin OPop => 11
  | _ => 12
  end.

Lemma msq_bound_le s t : (msq_bound s t <= msq_op_bound (th s t))%nat.
Proof.
  unfold msq_bound, m1, d1. pose proof (m1_le (tail s) (nnext s)). pose proof (d1_le (head s) (tail s) (nnext s)).
  destruct (th s t) as [|[v|]|n|n tl|n tl nx|n tl|n tl| |h|h nx|h nx|h nx tl|h nx]; cbn [msq_op_bound]; try lia;
    repeat match goal with |- context [if ?c then _ else _] => destruct c end; lia.
Qed.

Theorem msq_solo_const s t :
  reach init step s -> finishes_within step Step idle t (msq_op_bound (th s t)) s.
Proof. intros Hr. eapply finishes_within_mono; [apply msq_bound_le|apply msq_solo; exact Hr]. Qed.

Corollary msq_solo_12 s t : reach init step s -> finishes_within step Step idle t 12 s.
Proof.
  intros Hr. eapply finishes_within_mono; [|apply msq_solo_const; exact Hr].
  destruct (th s t) as [|[v|]|n|n tl|n tl nx|n tl|n tl| |h|h nx|h nx|h nx tl|h nx]; cbn [msq_op_bound]; lia.
Qed.

Theorem msq_never_stuck s t : reach init step s -> never_stuck step Step idle t s.
Proof. intros Hr. eapply finishes_never_stuck. apply msq_solo. exact Hr. Qed.

(** an idle thread that starts push / pop: 8 / 11 steps *)
Theorem msq_solo_start s t o s' es :
  reach init step s -> step s (Start t o) = Some (s', es) ->
  finishes_within step Step idle t (match o with OPush _ => 8 | OPop => 11 end) s'.
Proof.
  intros Hr Hst. assert (Hr' : reach init step s') by (eapply reach_step; eauto).
  pose proof (msq_solo_const s' t Hr') as H.
  cbn [step] in Hst. destruct (th s t); try discriminate. inversion Hst; subst.
  cbn [th] in H. rewrite upd_same in H. destruct o; exact H.
Qed.
