(** C18 - hazard pointer slots: proofs about the model Model/HpSlotsDefs.v (which is run against the compiled
    xenium::reclamation::hazard_pointer by tools/hpslots_diff.py).
    For every K >= 1, both allocation strategies, every number of guards and every operation sequence. *)
From Coq Require Import String List Arith Bool Lia Permutation.
From XV Require Import Model.HpSlotsDefs.
Import ListNotations.


(** * Lists *)
Notation cnt l x := (count_occ Nat.eq_dec l x).

Ltac case_bools :=
  repeat match goal with
         | |- context [?a <? ?b] => destruct (Nat.ltb_spec a b)
         | |- context [?a <=? ?b] => destruct (Nat.leb_spec a b)
         | |- context [?a =? ?b] => destruct (Nat.eqb_spec a b)
         end; cbn [andb orb negb]; try lia; try reflexivity.

Lemma cnt_cons y l x : cnt (y :: l) x = (if y =? x then 1 else 0) + cnt l x.
Proof.
  cbn [count_occ]. destruct (Nat.eq_dec y x) as [->|N].
  - rewrite Nat.eqb_refl. reflexivity.
  - apply Nat.eqb_neq in N. rewrite N. reflexivity.
Qed.

Lemma cnt_seq : forall n a x, cnt (seq a n) x = if (a <=? x) && (x <? a + n) then 1 else 0.
Proof.
  induction n as [|n IH]; intros a x.
  - cbn [seq count_occ]. case_bools.
  - cbn [seq]. rewrite cnt_cons, IH. case_bools.
Qed.

Lemma cnt_In l x : In x l <-> 1 <= cnt l x.
Proof. rewrite (count_occ_In Nat.eq_dec). lia. Qed.

Lemma cnt_notIn l x : ~ In x l <-> cnt l x = 0.
Proof. apply count_occ_not_In. Qed.

Lemma set_nth_length {X} : forall (l : list X) i x, length (set_nth i x l) = length l.
Proof. induction l as [|h t IH]; intros [|i] x; cbn [set_nth length]; auto. Qed.

Lemma nth_error_set_nth_eq {X} : forall (l : list X) i x, i < length l -> nth_error (set_nth i x l) i = Some x.
Proof.
  induction l as [|h t IH]; intros [|i] x Hl; cbn [length] in Hl; try lia; cbn [set_nth nth_error]; auto.
  apply IH. lia.
Qed.

Lemma nth_error_set_nth_neq {X} : forall (l : list X) i j x, i <> j -> nth_error (set_nth i x l) j = nth_error l j.
Proof.
  induction l as [|h t IH]; intros [|i] [|j] x Hn; cbn [set_nth nth_error]; auto; try congruence.
Qed.

Lemma nth_error_set_nth {X} (l : list X) i j x :
  nth_error (set_nth i x l) j = if (i =? j) && (i <? length l) then Some x else nth_error l j.
Proof.
  destruct (Nat.eqb_spec i j) as [->|N]; cbn [andb].
  - destruct (Nat.ltb_spec j (length l)) as [L|L].
    + apply nth_error_set_nth_eq; assumption.
    + assert (E : nth_error l j = None) by (apply nth_error_None; assumption).
      rewrite E. apply nth_error_None. rewrite set_nth_length. assumption.
  - apply nth_error_set_nth_neq; assumption.
Qed.

Lemma nth_error_lt {X} (l : list X) i x : nth_error l i = Some x -> i < length l.
Proof. intros H. apply nth_error_Some. congruence. Qed.

Lemma set_nth_map_const {X Y} (f : X -> Y) : forall (l : list X) i x, set_nth i (f x) (map f l) = map f (set_nth i x l).
Proof. induction l as [|h t IH]; intros [|i] x; cbn [set_nth map]; auto. f_equal. apply IH. Qed.

(** * The free list *)
Section Chain.
  Context {A : Type}.
  Implicit Types (sl : list (slot A)).

  Inductive chain sl : option nat -> list nat -> Prop :=
  | chain_nil : chain sl None []
  | chain_cons i nx l : nth_error sl i = Some (Link nx) -> chain sl nx l -> chain sl (Some i) (i :: l).

  Lemma chain_set_nth sl h l i s : chain sl h l -> ~ In i l -> chain (set_nth i s sl) h l.
  Proof.
    induction 1 as [|j nx l Hj Hc IH]; intros Hn.
    - constructor.
    - econstructor.
      + rewrite nth_error_set_nth_neq; [eassumption|]. intros ->. apply Hn. left. reflexivity.
      + apply IH. intros Hin. apply Hn. right. assumption.
  Qed.

  Lemma chain_app sl ext h l : chain sl h l -> chain (sl ++ ext) h l.
  Proof.
    induction 1 as [|j nx l Hj Hc IH].
    - constructor.
    - econstructor; [|exact IH]. rewrite nth_error_app1; [assumption|]. eapply nth_error_lt; eassumption.
  Qed.

  Lemma chain_det sl h l1 : chain sl h l1 -> forall l2, chain sl h l2 -> l1 = l2.
  Proof.
    induction 1 as [|j nx l Hj Hc IH]; intros l2 H2; inversion H2; subst.
    - reflexivity.
    - f_equal. apply IH. congruence.
  Qed.

  Lemma chain_walk sl h l : chain sl h l -> forall fuel, length l <= fuel -> walk fuel sl h = l.
  Proof.
    induction 1 as [|j nx l Hj Hc IH]; intros fuel Hf.
    - destruct fuel; reflexivity.
    - destruct fuel as [|f]; cbn [length] in Hf; [lia|]. cbn [walk]. rewrite Hj. f_equal. apply IH. lia.
  Qed.

  Lemma chain_lt sl h l i : chain sl h l -> In i l -> i < length sl.
  Proof.
    induction 1 as [|j nx l Hj Hc IH]; intros Hin; [destruct Hin|].
    destruct Hin as [<-|Hin]; [eapply nth_error_lt; eassumption | auto].
  Qed.

  (** ** blocks *)
  Lemma mkblock_length : forall size start next, length (@mkblock A start size next) = size.
  Proof.
    induction size as [|n IH]; intros start next; [reflexivity|].
    cbn [mkblock]. destruct n as [|n']; [reflexivity|]. cbn [length]. rewrite IH. reflexivity.
  Qed.

  Lemma mkblock_nth : forall size start next j, j < size ->
    nth_error (@mkblock A start size next) j = Some (Link (if S j =? size then next else Some (start + S j))).
  Proof.
    induction size as [|n IH]; intros start next j Hj; [lia|].
    cbn [mkblock]. destruct n as [|n'].
    - assert (j = 0) as -> by lia. reflexivity.
    - destruct j as [|j].
      + cbn [nth_error]. replace (1 =? S (S n')) with false by (symmetry; apply Nat.eqb_neq; lia).
        rewrite Nat.add_1_r. reflexivity.
      + cbn [nth_error]. rewrite IH by lia.
        replace (S (S j) =? S (S n')) with (S j =? S n') by reflexivity.
        replace (S start + S j) with (start + S (S j)) by lia. reflexivity.
  Qed.

  (** a block placed at [start .. start+size) of [sl] whose last slot links to the head of a chain [l] *)
  Lemma block_chain : forall size sl start next l, 1 <= size ->
    (forall j, j < size -> nth_error sl (start + j) = nth_error (@mkblock A start size next) j) ->
    chain sl next l -> chain sl (Some start) (seq start size ++ l).
  Proof.
    induction size as [|n IH]; intros sl start next l Hs Hblk Hc; [lia|].
    cbn [seq app].
    destruct n as [|n'].
    - econstructor; [|exact Hc].
      specialize (Hblk 0 ltac:(lia)). rewrite Nat.add_0_r in Hblk. rewrite Hblk. reflexivity.
    - econstructor.
      + specialize (Hblk 0 ltac:(lia)). rewrite Nat.add_0_r in Hblk. rewrite Hblk. reflexivity.
      + apply IH with (next := next); [lia| |exact Hc].
        intros j Hj. specialize (Hblk (S j) ltac:(lia)).
        replace (S start + j) with (start + S j) by lia. rewrite Hblk.
        rewrite !mkblock_nth by lia.
        replace (S (S j) =? S (S n')) with (S j =? S n') by reflexivity.
        replace (S start + S j) with (start + S (S j)) by lia. reflexivity.
  Qed.
End Chain.

Ltac bool_to_prop :=
  repeat match goal with
         | H : (_ =? _) = true |- _ => apply Nat.eqb_eq in H
         | H : (_ =? _) = false |- _ => apply Nat.eqb_neq in H
         | H : (_ <=? _) = true |- _ => apply Nat.leb_le in H
         | H : (_ <=? _) = false |- _ => apply Nat.leb_gt in H
         | H : (_ <? _) = true |- _ => apply Nat.ltb_lt in H
         | H : (_ <? _) = false |- _ => apply Nat.ltb_ge in H
         end.

(** * The pool invariant, relative to the list [H] of slots that are in use *)
Section PoolInv.
  Context {A : Type}.
  Implicit Types (p : pool A) (H : list nat).

  (** the slots of the dynamically allocated blocks in the order in which [initialize] links them *)
  Fixpoint blocks_chain (start : nat) (bs : list nat) : list nat :=
    match bs with
    | [] => []
    | b :: r => blocks_chain (start + b) r ++ seq start b
    end.

  Lemma cnt_blocks_chain : forall bs start x,
    cnt (blocks_chain start bs) x = if (start <=? x) && (x <? start + list_sum bs) then 1 else 0.
  Proof.
    induction bs as [|b r IH]; intros start x; cbn [blocks_chain].
    - change (list_sum []) with 0. cbn [count_occ]. case_bools.
    - change (list_sum (b :: r)) with (b + list_sum r). rewrite count_occ_app, IH, cnt_seq. case_bools.
  Qed.

  Lemma relink_length : forall bs start prev, length (fst (@relink A start prev bs)) = list_sum bs.
  Proof.
    induction bs as [|b r IH]; intros start prev; cbn [relink]; [reflexivity|].
    change (list_sum (b :: r)) with (b + list_sum r).
    specialize (IH (start + b) (Some start)). destruct (relink (start + b) (Some start) r) as [l newest].
    cbn [fst] in *. rewrite app_length, mkblock_length, IH. reflexivity.
  Qed.

  Lemma relink_chain : forall bs sl start prev lp, Forall (le 1) bs ->
    (forall j, j < list_sum bs -> nth_error sl (start + j) = nth_error (fst (@relink A start prev bs)) j) ->
    chain sl prev lp ->
    chain sl (snd (@relink A start prev bs)) (blocks_chain start bs ++ lp).
  Proof.
    induction bs as [|b r IH]; intros sl start prev lp Hge Hsl Hc; cbn [relink blocks_chain] in *.
    - exact Hc.
    - change (list_sum (b :: r)) with (b + list_sum r) in Hsl. inversion Hge as [|b' r' Hb Hr]; subst.
      pose proof (relink_length r (start + b) (Some start)) as Hlen.
      specialize (IH sl (start + b) (Some start) (seq start b ++ lp) Hr).
      destruct (relink (start + b) (Some start) r) as [l newest]. cbn [fst snd] in *.
      rewrite <- app_assoc. apply IH.
      + intros j Hj. specialize (Hsl (b + j) ltac:(lia)).
        rewrite nth_error_app2 in Hsl by (rewrite mkblock_length; lia).
        rewrite mkblock_length in Hsl. replace (b + j - b) with j in Hsl by lia.
        rewrite <- Hsl. f_equal. lia.
      + apply block_chain with (next := prev); [assumption| |assumption].
        intros j Hj. specialize (Hsl j ltac:(lia)).
        rewrite nth_error_app1 in Hsl by (rewrite mkblock_length; lia). exact Hsl.
  Qed.

  Lemma init_slots_length K bs : length (@init_slots A K bs) = K + list_sum bs.
  Proof.
    unfold init_slots. pose proof (relink_length bs K None) as Hl.
    destruct (relink K None bs) as [l newest]. cbn [fst] in Hl.
    rewrite app_length, mkblock_length, Hl. reflexivity.
  Qed.

  Lemma init_slots_chain K bs : 1 <= K -> Forall (le 1) bs ->
    chain (@init_slots A K bs) (Some 0) (seq 0 K ++ blocks_chain K bs).
  Proof.
    intros HK Hbs. unfold init_slots.
    pose proof (relink_length bs K None) as Hl.
    pose proof (fun sl => relink_chain bs sl K None [] Hbs) as Hc.
    destruct (relink K None bs) as [l newest] eqn:E. cbn [fst snd] in *.
    apply block_chain with (next := newest); [assumption| |].
    - intros j Hj. cbn [Nat.add]. rewrite nth_error_app1 by (rewrite mkblock_length; lia). reflexivity.
    - rewrite <- (app_nil_r (blocks_chain K bs)). apply Hc; [|constructor].
      intros j Hj. rewrite nth_error_app2 by (rewrite mkblock_length; lia).
      rewrite mkblock_length. f_equal. lia.
  Qed.

  Record PoolInv (cfg : config) p H : Prop := {
    pi_chain : exists fl, chain (slots p) (hint p) fl /\
                          forall x, cnt fl x + cnt H x = if x <? length (slots p) then 1 else 0;
    pi_total : length (slots p) = cK cfg + list_sum (blocks p);
    pi_blocks : Forall (le 1) (blocks p);
    pi_static : cDyn cfg = false -> blocks p = []
  }.

  Lemma PoolInv_ext cfg p H H' : (forall x, cnt H x = cnt H' x) -> PoolInv cfg p H -> PoolInv cfg p H'.
  Proof.
    intros He [(fl & Hc & Hn) Ht Hb Hs]. split; try assumption.
    exists fl. split; [assumption|]. intros x. rewrite <- He. apply Hn.
  Qed.

  Lemma pool_init cfg bs : 1 <= cK cfg -> Forall (le 1) bs -> (cDyn cfg = false -> bs = []) ->
    PoolInv cfg (@p_init A cfg bs) [].
  Proof.
    intros HK Hbs Hst. split; cbn [p_init slots hint blocks]; try assumption.
    - exists (seq 0 (cK cfg) ++ blocks_chain (cK cfg) bs). split; [apply init_slots_chain; assumption|].
      intros x. rewrite init_slots_length, count_occ_app, cnt_seq, cnt_blocks_chain. cbn [count_occ].
      case_bools.
    - apply init_slots_length.
  Qed.

  (** facts read off the invariant *)
  Lemma pool_used_lt cfg p H i : PoolInv cfg p H -> In i H -> i < length (slots p).
  Proof.
    intros [(fl & Hc & Hn) _ _ _] Hin. apply cnt_In in Hin. specialize (Hn i).
    destruct (Nat.ltb_spec i (length (slots p))); [assumption|lia].
  Qed.

  Lemma pool_used_once cfg p H i : PoolInv cfg p H -> cnt H i <= 1.
  Proof.
    intros [(fl & Hc & Hn) _ _ _]. specialize (Hn i). destruct (i <? length (slots p)); lia.
  Qed.

  Lemma pool_free_list cfg p H : PoolInv cfg p H ->
    chain (slots p) (hint p) (free_list p) /\
    forall x, cnt (free_list p) x + cnt H x = if x <? length (slots p) then 1 else 0.
  Proof.
    intros [(fl & Hc & Hn) _ _ _].
    assert (Hnd : NoDup fl).
    { apply (NoDup_count_occ Nat.eq_dec). intros x. specialize (Hn x). destruct (x <? length (slots p)); lia. }
    assert (Hle : length fl <= length (slots p)).
    { rewrite <- (seq_length (length (slots p)) 0). apply NoDup_incl_length; [assumption|].
      intros x Hx. apply in_seq. split; [lia|]. cbn [Nat.add]. eapply chain_lt; eassumption. }
    assert (E : free_list p = fl).
    { unfold free_list. apply chain_walk; [assumption|lia]. }
    rewrite E. split; assumption.
  Qed.

  (** ** release *)
  Lemma pool_release cfg p H i : PoolInv cfg p (i :: H) -> PoolInv cfg (p_release i p) H.
  Proof.
    intros Hinv. assert (Hlt : i < length (slots p)) by (eapply pool_used_lt; [exact Hinv|left; reflexivity]).
    destruct Hinv as [(fl & Hc & Hn) Ht Hb Hs].
    split; cbn [p_release slots hint blocks]; try assumption.
    - exists (i :: fl). split.
      + econstructor.
        * apply nth_error_set_nth_eq. assumption.
        * apply chain_set_nth; [assumption|]. apply cnt_notIn. specialize (Hn i). rewrite cnt_cons, Nat.eqb_refl in Hn.
          destruct (i <? length (slots p)); lia.
      + intros x. rewrite set_nth_length. specialize (Hn x). rewrite cnt_cons in *. lia.
    - rewrite set_nth_length. assumption.
  Qed.

  Lemma pool_release_free_list cfg p H i : PoolInv cfg p (i :: H) -> free_list (p_release i p) = i :: free_list p.
  Proof.
    intros Hinv. pose proof (pool_release _ _ _ _ Hinv) as Hinv'.
    assert (Hlt : i < length (slots p)) by (eapply pool_used_lt; [exact Hinv|left; reflexivity]).
    destruct (pool_free_list _ _ _ Hinv) as [Hc Hn]. destruct (pool_free_list _ _ _ Hinv') as [Hc' _].
    eapply chain_det; [exact Hc'|]. cbn [p_release slots hint].
    econstructor; [apply nth_error_set_nth_eq; assumption|].
    apply chain_set_nth; [assumption|]. apply cnt_notIn. specialize (Hn i). rewrite cnt_cons, Nat.eqb_refl in Hn.
    destruct (i <? length (slots p)); lia.
  Qed.

  (** ** writing the payload of a slot that is in use *)
  Lemma pool_set cfg p H i a : PoolInv cfg p H -> In i H -> PoolInv cfg (p_set i a p) H.
  Proof.
    intros [(fl & Hc & Hn) Ht Hb Hs] Hin.
    split; cbn [p_set slots hint blocks]; try assumption.
    - exists fl. split.
      + apply chain_set_nth; [assumption|]. apply cnt_notIn. apply cnt_In in Hin. specialize (Hn i).
        destruct (i <? length (slots p)); lia.
      + intros x. rewrite set_nth_length. apply Hn.
    - rewrite set_nth_length. assumption.
  Qed.

  Lemma pool_set_free_list cfg p H i a : PoolInv cfg p H -> In i H -> free_list (p_set i a p) = free_list p.
  Proof.
    intros Hinv Hin. pose proof (pool_set _ _ _ _ a Hinv Hin) as Hinv'.
    destruct (pool_free_list _ _ _ Hinv) as [Hc Hn]. destruct (pool_free_list _ _ _ Hinv') as [Hc' _].
    eapply chain_det; [exact Hc'|]. cbn [p_set slots hint].
    apply chain_set_nth; [assumption|]. apply cnt_notIn. apply cnt_In in Hin. specialize (Hn i).
    destruct (i <? length (slots p)); lia.
  Qed.

  (** ** allocation *)
  Lemma pool_hint_none cfg p H : PoolInv cfg p H -> hint p = None ->
    free_list p = [] /\ forall x, cnt H x = if x <? length (slots p) then 1 else 0.
  Proof.
    intros Hinv Hh. destruct (pool_free_list _ _ _ Hinv) as [Hc Hn]. rewrite Hh in Hc. inversion Hc as [E|]; subst.
    split; [reflexivity|]. intros x. specialize (Hn x). rewrite <- H0 in Hn. cbn [count_occ] in Hn. lia.
  Qed.

  Lemma pool_hint_some cfg p H j : PoolInv cfg p H -> hint p = Some j ->
    exists nx, nth_error (slots p) j = Some (Link nx) /\ free_list p = j :: free_list {| slots := slots p; hint := nx; blocks := blocks p |}
               /\ PoolInv cfg {| slots := slots p; hint := nx; blocks := blocks p |} (j :: H).
  Proof.
    intros Hinv Hh. destruct (pool_free_list _ _ _ Hinv) as [Hc Hn]. rewrite Hh in Hc.
    inversion Hc as [|j' nx l Hj Hc' E1 E2]; subst. exists nx.
    assert (Hinv' : PoolInv cfg {| slots := slots p; hint := nx; blocks := blocks p |} (j :: H)).
    { destruct Hinv as [_ Ht Hb Hs]. split; cbn [slots hint blocks]; try assumption.
      exists l. split; [assumption|]. intros x. specialize (Hn x). rewrite <- E2 in Hn. rewrite cnt_cons in *. lia. }
    split; [assumption|]. split; [|assumption].
    destruct (pool_free_list _ _ _ Hinv') as [Hc2 _]. cbn [slots hint] in Hc2.
    f_equal. eapply chain_det; eassumption.
  Qed.

  Lemma list_sum_snoc l x : list_sum (l ++ [x]) = list_sum l + x.
  Proof. rewrite list_sum_app. cbn. lia. Qed.

  Lemma pool_alloc cfg p H i p' : 1 <= cK cfg -> PoolInv cfg p H -> p_alloc cfg p = AOk i p' ->
    PoolInv cfg p' (i :: H) /\ ~ In i H /\ i < length (slots p') /\
    (exists ext, slots p' = slots p ++ ext) /\
    (match hint p with
     | Some j => i = j /\ slots p' = slots p /\ free_list p = i :: free_list p'
     | None => cDyn cfg = true /\ i = length (slots p) /\ free_list p = []
     end).
  Proof.
    intros HK Hinv Ha. unfold p_alloc in Ha.
    destruct (hint p) as [j|] eqn:Hh.
    - destruct (pool_hint_some _ _ _ _ Hinv Hh) as (nx & Hj & Hfl & Hinv').
      rewrite Hj in Ha. inversion Ha; subst i p'. clear Ha.
      split; [assumption|]. split; [|split; [|split; [|split; [|split]]]]; cbn [slots]; try reflexivity; try assumption.
      + apply cnt_notIn. pose proof (pool_used_once _ _ _ j Hinv') as Hle. rewrite cnt_cons, Nat.eqb_refl in Hle. lia.
      + eapply nth_error_lt; eassumption.
      + exists []. rewrite app_nil_r. reflexivity.
    - destruct (pool_hint_none _ _ _ Hinv Hh) as [Hfl HnH].
      unfold need_more in Ha. destruct (cDyn cfg) eqn:Hd; [|discriminate].
      set (total := length (slots p)) in *. set (hps := Nat.max (cK cfg) (total / 2)) in *.
      assert (Hhps : 1 <= hps) by (unfold hps; lia).
      cbn [slots blocks hint] in Ha.
      assert (Hnth : nth_error (slots p ++ mkblock total hps None) total
                     = Some (Link (if 1 =? hps then None else Some (total + 1)))).
      { rewrite nth_error_app2 by (unfold total; lia). replace (total - length (slots p)) with 0 by (unfold total; lia).
        rewrite mkblock_nth by lia. reflexivity. }
      rewrite Hnth in Ha. inversion Ha; subst i p'. clear Ha.
      assert (Hc : chain (slots p ++ mkblock total hps None) (Some total) (seq total hps ++ [])).
      { apply block_chain with (next := None); [assumption| |constructor].
        intros j Hj. rewrite nth_error_app2 by (unfold total; lia). f_equal. unfold total. lia. }
      rewrite app_nil_r in Hc. inversion Hc as [|j' nx l Hj Hc' E1 E2]; subst j'.
      rewrite Hnth in Hj. inversion Hj; subst nx. clear Hj.
      split; [|split; [|split; [|split; [|split; [|split]]]]]; cbn [slots]; try reflexivity; try assumption.
      + destruct Hinv as [_ Ht Hb Hs]. split; cbn [slots hint blocks].
        * exists l. split; [assumption|]. intros x. rewrite app_length, mkblock_length.
          pose proof (cnt_seq hps total x) as Hs'. rewrite <- E2 in Hs'. rewrite cnt_cons in *.
          specialize (HnH x). fold total in HnH. rewrite HnH. revert Hs'. case_bools.
        * rewrite app_length, mkblock_length, list_sum_snoc. fold total. lia.
        * apply Forall_app. split; [assumption|]. constructor; [assumption|constructor].
        * congruence.
      + apply cnt_notIn. rewrite HnH. fold total. case_bools.
      + rewrite app_length, mkblock_length. fold total. lia.
      + eexists. reflexivity.
  Qed.

  Lemma pool_alloc_not_corrupt cfg p H : 1 <= cK cfg -> PoolInv cfg p H -> p_alloc cfg p <> ACorrupt.
  Proof.
    intros HK Hinv. unfold p_alloc. destruct (hint p) as [j|] eqn:Hh.
    - destruct (pool_hint_some _ _ _ _ Hinv Hh) as (nx & Hj & _). rewrite Hj. discriminate.
    - unfold need_more. destruct (cDyn cfg); [|discriminate]. cbn [slots].
      rewrite nth_error_app2 by lia. rewrite Nat.sub_diag, mkblock_nth by lia. discriminate.
  Qed.

  Lemma pool_alloc_exhausted cfg p H : 1 <= cK cfg -> PoolInv cfg p H ->
    (p_alloc cfg p = AExh <-> cDyn cfg = false /\ hint p = None).
  Proof.
    intros HK Hinv. unfold p_alloc. destruct (hint p) as [j|] eqn:Hh.
    - destruct (pool_hint_some _ _ _ _ Hinv Hh) as (nx & Hj & _). rewrite Hj. split; [discriminate|intros [_ ?]; discriminate].
    - unfold need_more. destruct (cDyn cfg).
      + cbn [slots]. rewrite nth_error_app2 by lia. rewrite Nat.sub_diag, mkblock_nth by lia.
        split; [discriminate|intros [? _]; discriminate].
      + split; auto.
  Qed.

  (** all slots in use <-> the free list is empty; then (static) |H| = K *)
  Lemma pool_used_length cfg p H : PoolInv cfg p H -> length (free_list p) + length H = length (slots p).
  Proof.
    intros Hinv. destruct (pool_free_list _ _ _ Hinv) as [_ Hn].
    assert (Hp : Permutation (free_list p ++ H) (seq 0 (length (slots p)))).
    { apply (Permutation_count_occ Nat.eq_dec). intros x. rewrite count_occ_app, Hn, cnt_seq. case_bools. }
    apply Permutation_length in Hp. rewrite app_length, seq_length in Hp. exact Hp.
  Qed.

  Lemma pool_perm cfg p H : PoolInv cfg p H -> Permutation (free_list p ++ H) (seq 0 (length (slots p))).
  Proof.
    intros Hinv. destruct (pool_free_list _ _ _ Hinv) as [_ Hn].
    apply (Permutation_count_occ Nat.eq_dec). intros x. rewrite count_occ_app, Hn, cnt_seq. case_bools.
  Qed.
End PoolInv.

(** * The guard layer *)
Definition hpl (g : guard) : list nat := match g_hp g with Some i => [i] | None => [] end.
(** the slots held by the guards, in guard order *)
Definition held (gs : list guard) : list nat := flat_map hpl gs.
Definition held_count (st : state) : nat := length (held (guards st)).

Lemma held_set_nth : forall gs g old new x, nth_error gs g = Some old ->
  cnt (hpl old) x + cnt (held (set_nth g new gs)) x = cnt (hpl new) x + cnt (held gs) x.
Proof.
  induction gs as [|h t IH]; intros [|g] old new x Hg; cbn [nth_error] in Hg; try discriminate.
  - inversion Hg; subst. cbn [set_nth held flat_map]. rewrite !count_occ_app. fold (held t). lia.
  - cbn [set_nth held flat_map]. rewrite !count_occ_app. fold (held t) (held (set_nth g new t)).
    specialize (IH g old new x Hg). lia.
Qed.

Lemma held_In gs i : In i (held gs) <-> exists g gd, nth_error gs g = Some gd /\ g_hp gd = Some i.
Proof.
  unfold held. rewrite in_flat_map. split.
  - intros (gd & Hin & Hi). apply In_nth_error in Hin. destruct Hin as [g Hg]. exists g, gd. split; [assumption|].
    unfold hpl in Hi. destruct (g_hp gd); [destruct Hi as [->|[]]; reflexivity|destruct Hi].
  - intros (g & gd & Hg & Hi). exists gd. split; [eapply nth_error_In; eassumption|].
    unfold hpl. rewrite Hi. left. reflexivity.
Qed.

Lemma held_two gs g g' gd gd' i : g <> g' ->
  nth_error gs g = Some gd -> g_hp gd = Some i -> nth_error gs g' = Some gd' -> g_hp gd' = Some i ->
  2 <= cnt (held gs) i.
Proof.
  intros Hne Hg Hi Hg' Hi'.
  pose proof (held_set_nth gs g gd empty_guard i Hg) as E.
  assert (H1 : 1 <= cnt (held (set_nth g empty_guard gs)) i).
  { apply cnt_In, held_In. exists g', gd'. split; [|assumption]. rewrite nth_error_set_nth_neq; assumption. }
  unfold hpl in E. rewrite Hi in E. cbn [g_hp empty_guard] in E. rewrite cnt_cons, Nat.eqb_refl in E. cbn [count_occ] in E. lia.
Qed.

Lemma set_nth_same {X} : forall (l : list X) i x, nth_error l i = Some x -> set_nth i x l = l.
Proof.
  induction l as [|h t IH]; intros [|i] x Hx; cbn [nth_error] in Hx; try discriminate; cbn [set_nth].
  - congruence.
  - f_equal. apply IH. assumption.
Qed.

Record Inv (cfg : config) (st : state) : Prop := {
  inv_pool : PoolInv cfg (pl st) (held (guards st));
  inv_obj : forall g gd i, nth_error (guards st) g = Some gd -> g_hp gd = Some i ->
                           nth_error (slots (pl st)) i = Some (Obj (g_ptr gd));
  inv_null : forall g gd, nth_error (guards st) g = Some gd -> g_hp gd = None -> g_ptr gd = 0;
  (* a guard that holds a slot refers to an object: null and marked null guards hold no slot *)
  inv_nonnull : forall g gd i, nth_error (guards st) g = Some gd -> g_hp gd = Some i -> g_ptr gd <> 0;
  inv_len : length (guards st) = cG cfg
}.

Lemma inv_distinct cfg st g g' gd gd' i : Inv cfg st -> nth_error (guards st) g = Some gd -> g_hp gd = Some i ->
  nth_error (guards st) g' = Some gd' -> g_hp gd' = Some i -> g = g'.
Proof.
  intros Hinv Hg Hi Hg' Hi'. destruct (Nat.eq_dec g g') as [|Hne]; [assumption|exfalso].
  pose proof (held_two (guards st) g g' gd gd' i Hne Hg Hi Hg' Hi') as H2.
  pose proof (pool_used_once _ _ _ i (inv_pool _ _ Hinv)). lia.
Qed.

Lemma init_held n : held (repeat empty_guard n) = [].
Proof. induction n as [|n IH]; [reflexivity|]. cbn [repeat held flat_map]. fold (held (repeat empty_guard n)). rewrite IH. reflexivity. Qed.

Lemma held_map_empty {X} (l : list X) : held (map (fun _ => empty_guard) l) = [].
Proof. induction l as [|h t IH]; [reflexivity|]. cbn [map held flat_map]. fold (held (map (fun _ => empty_guard) t)). rewrite IH. reflexivity. Qed.

Lemma nth_error_repeat {X} (x : X) : forall n i y, nth_error (repeat x n) i = Some y -> y = x.
Proof. induction n as [|n IH]; intros [|i] y Hy; cbn [repeat nth_error] in Hy; try discriminate; [congruence|eauto]. Qed.

Lemma inv_init cfg : 1 <= cK cfg -> Inv cfg (init cfg).
Proof.
  intros HK. split; cbn [init pl guards].
  - rewrite init_held. apply pool_init; [assumption|constructor|reflexivity].
  - intros g gd i Hg Hi. apply nth_error_repeat in Hg. subst gd. discriminate.
  - intros g gd Hg _. apply nth_error_repeat in Hg. subst gd. reflexivity.
  - intros g gd i Hg Hi. apply nth_error_repeat in Hg. subst gd. discriminate.
  - apply repeat_length.
Qed.

(** changing only the guard array: same multiset of held slots, every new guard is an old guard or protects nothing *)
Lemma inv_guards_change cfg st gs' : Inv cfg st -> length gs' = length (guards st) ->
  (forall x, cnt (held gs') x = cnt (held (guards st)) x) ->
  (forall g gd, nth_error gs' g = Some gd ->
     (g_hp gd = None /\ g_ptr gd = 0) \/ exists g0, nth_error (guards st) g0 = Some gd) ->
  Inv cfg {| pl := pl st; guards := gs' |}.
Proof.
  intros [Hp Ho Hn Hnn Hl] Hlen Hcnt Hold. split; cbn [pl guards].
  - eapply PoolInv_ext; [|exact Hp]. intros x. symmetry. apply Hcnt.
  - intros g gd i Hg Hi. destruct (Hold g gd Hg) as [[E _]|[g0 Hg0]]; [congruence|]. eapply Ho; eassumption.
  - intros g gd Hg Hi. destruct (Hold g gd Hg) as [[_ E]|[g0 Hg0]]; [assumption|]. eapply Hn; eassumption.
  - intros g gd i Hg Hi. destruct (Hold g gd Hg) as [[E _]|[g0 Hg0]]; [congruence|]. eapply Hnn; eassumption.
  - congruence.
Qed.

(** ** reset *)
Lemma inv_reset cfg st g : Inv cfg st -> Inv cfg (reset_guard st g).
Proof.
  intros Hinv. unfold reset_guard, get_g. destruct (nth_error (guards st) g) as [gd|] eqn:Hg; [|assumption].
  pose proof (held_set_nth (guards st) g gd empty_guard) as Hset.
  destruct (g_hp gd) as [i|] eqn:Hi; cbn [release_hp].
  - destruct Hinv as [Hp Ho Hn Hnn Hl].
    assert (Hp' : PoolInv cfg (pl st) (i :: held (set_nth g empty_guard (guards st)))).
    { eapply PoolInv_ext; [|exact Hp]. intros x. specialize (Hset x Hg). unfold hpl in Hset. rewrite Hi in Hset.
      cbn [g_hp empty_guard] in Hset. rewrite cnt_cons in *. cbn [count_occ] in Hset. lia. }
    split; cbn [put_g with_pool pl guards].
    + apply pool_release. assumption.
    + intros g' gd' i' Hg' Hi'.
      destruct (Nat.eq_dec g g') as [<-|Hne].
      * rewrite nth_error_set_nth_eq in Hg' by (eapply nth_error_lt; eassumption). inversion Hg'; subst gd'. discriminate.
      * rewrite nth_error_set_nth_neq in Hg' by assumption.
        cbn [p_release slots]. rewrite nth_error_set_nth_neq; [eapply Ho; eassumption|].
        intros <-. apply Hne. eapply inv_distinct with (cfg := cfg) (st := st); try eassumption. split; assumption.
    + intros g' gd' Hg' Hi'.
      destruct (Nat.eq_dec g g') as [<-|Hne].
      * rewrite nth_error_set_nth_eq in Hg' by (eapply nth_error_lt; eassumption). inversion Hg'; subst gd'. reflexivity.
      * rewrite nth_error_set_nth_neq in Hg' by assumption. eapply Hn; eassumption.
    + intros g' gd' i' Hg' Hi'.
      destruct (Nat.eq_dec g g') as [<-|Hne].
      * rewrite nth_error_set_nth_eq in Hg' by (eapply nth_error_lt; eassumption). inversion Hg'; subst gd'. discriminate.
      * rewrite nth_error_set_nth_neq in Hg' by assumption. eapply Hnn; eassumption.
    + rewrite set_nth_length. assumption.
  - change (put_g st g empty_guard) with {| pl := pl st; guards := set_nth g empty_guard (guards st) |}.
    apply inv_guards_change; [assumption|apply set_nth_length| |].
    + intros x. specialize (Hset x Hg). unfold hpl in Hset. rewrite Hi in Hset. cbn [g_hp empty_guard count_occ] in Hset. lia.
    + intros g' gd' Hg'. destruct (Nat.eq_dec g g') as [<-|Hne].
      * rewrite nth_error_set_nth_eq in Hg' by (eapply nth_error_lt; eassumption). inversion Hg'; subst gd'. left. split; reflexivity.
      * rewrite nth_error_set_nth_neq in Hg' by assumption. right. exists g'. assumption.
Qed.

(** ** taking (or reusing) a slot and protecting v *)
Lemma inv_protect cfg st g gd i p v m : 1 <= cK cfg -> Inv cfg st -> get_g st g = Some gd -> v <> 0 ->
  ensure_hp cfg st (g_hp gd) = AOk i p -> Inv cfg (protect st p g i v m).
Proof.
  intros HK Hinv Hg Hvnz He. unfold get_g in Hg.
  pose proof (held_set_nth (guards st) g gd {| g_hp := Some i; g_ptr := v; g_mark := m |}) as Hset.
  assert (Hgl : g < length (guards st)) by (eapply nth_error_lt; eassumption).
  unfold protect, put_g, with_pool. cbn [pl guards].
  destruct (g_hp gd) as [i0|] eqn:Hi; cbn [ensure_hp] in He.
  - inversion He; subst i0 p. clear He.
    assert (Hin : In i (held (guards st))) by (apply held_In; eauto).
    destruct Hinv as [Hp Ho Hn Hnn Hl]. split; cbn [pl guards].
    + eapply PoolInv_ext; [|apply pool_set; [exact Hp|exact Hin]].
      intros x. specialize (Hset x Hg). unfold hpl in Hset. rewrite Hi in Hset. cbn [g_hp] in Hset. lia.
    + intros g' gd' i' Hg' Hi'. cbn [p_set slots].
      destruct (Nat.eq_dec g g') as [<-|Hne].
      * rewrite nth_error_set_nth_eq in Hg' by assumption. inversion Hg'; subst gd'. cbn [g_hp g_ptr] in *.
        inversion Hi'; subst i'. apply nth_error_set_nth_eq. eapply nth_error_lt. eapply Ho; eassumption.
      * rewrite nth_error_set_nth_neq in Hg' by assumption.
        rewrite nth_error_set_nth_neq; [eapply Ho; eassumption|].
        intros <-. apply Hne. eapply inv_distinct with (cfg := cfg) (st := st); try eassumption. split; assumption.
    + intros g' gd' Hg' Hi'. destruct (Nat.eq_dec g g') as [<-|Hne].
      * rewrite nth_error_set_nth_eq in Hg' by assumption. inversion Hg'; subst gd'. discriminate.
      * rewrite nth_error_set_nth_neq in Hg' by assumption. eapply Hn; eassumption.
    + intros g' gd' i' Hg' Hi'. destruct (Nat.eq_dec g g') as [<-|Hne].
      * rewrite nth_error_set_nth_eq in Hg' by assumption. inversion Hg'; subst gd'. exact Hvnz.
      * rewrite nth_error_set_nth_neq in Hg' by assumption. eapply Hnn; eassumption.
    + rewrite set_nth_length. assumption.
  - destruct Hinv as [Hp Ho Hn Hnn Hl].
    destruct (pool_alloc _ _ _ _ _ HK Hp He) as (Hp' & Hnin & Hlt & [ext Hext] & _).
    split; cbn [pl guards].
    + eapply PoolInv_ext; [|apply pool_set; [exact Hp'|left; reflexivity]].
      intros x. specialize (Hset x Hg). unfold hpl in Hset. rewrite Hi in Hset. cbn [g_hp] in Hset.
      rewrite !cnt_cons in *. cbn [count_occ] in Hset. lia.
    + intros g' gd' i' Hg' Hi'. cbn [p_set slots].
      destruct (Nat.eq_dec g g') as [<-|Hne].
      * rewrite nth_error_set_nth_eq in Hg' by assumption. inversion Hg'; subst gd'. cbn [g_hp g_ptr] in *.
        inversion Hi'; subst i'. apply nth_error_set_nth_eq. assumption.
      * rewrite nth_error_set_nth_neq in Hg' by assumption.
        assert (Hin' : In i' (held (guards st))) by (apply held_In; eauto).
        rewrite nth_error_set_nth_neq by (intros <-; contradiction).
        rewrite Hext, nth_error_app1; [eapply Ho; eassumption|]. eapply nth_error_lt. eapply Ho; eassumption.
    + intros g' gd' Hg' Hi'. destruct (Nat.eq_dec g g') as [<-|Hne].
      * rewrite nth_error_set_nth_eq in Hg' by assumption. inversion Hg'; subst gd'. discriminate.
      * rewrite nth_error_set_nth_neq in Hg' by assumption. eapply Hn; eassumption.
    + intros g' gd' i' Hg' Hi'. destruct (Nat.eq_dec g g') as [<-|Hne].
      * rewrite nth_error_set_nth_eq in Hg' by assumption. inversion Hg'; subst gd'. exact Hvnz.
      * rewrite nth_error_set_nth_neq in Hg' by assumption. eapply Hnn; eassumption.
    + rewrite set_nth_length. assumption.
Qed.

(** ** facts about [reset_guard] *)
Lemma reset_guard_guards st g :
  guards (reset_guard st g) = match get_g st g with Some _ => set_nth g empty_guard (guards st) | None => guards st end.
Proof. unfold reset_guard. destruct (get_g st g) as [gd|]; [|reflexivity]. destruct (g_hp gd); reflexivity. Qed.

Lemma reset_guard_get_same st g gd : get_g st g = Some gd -> get_g (reset_guard st g) g = Some empty_guard.
Proof.
  intros Hg. unfold get_g in *. rewrite reset_guard_guards. unfold get_g. rewrite Hg.
  apply nth_error_set_nth_eq. eapply nth_error_lt; eassumption.
Qed.

Lemma reset_guard_get_other st g g' : g <> g' -> get_g (reset_guard st g) g' = get_g st g'.
Proof.
  intros Hne. unfold get_g. rewrite reset_guard_guards. destruct (get_g st g); [|reflexivity].
  apply nth_error_set_nth_neq. assumption.
Qed.

Lemma reset_guard_length st g : length (guards (reset_guard st g)) = length (guards st).
Proof. rewrite reset_guard_guards. destruct (get_g st g); [apply set_nth_length|reflexivity]. Qed.

(** ** the remaining state changes *)
Lemma inv_put_null cfg st g gd x : Inv cfg st -> get_g st g = Some gd -> g_hp gd = None ->
  g_hp x = None -> g_ptr x = 0 -> Inv cfg (put_g st g x).
Proof.
  intros Hinv Hg Hi Hx Hv. unfold get_g in Hg.
  change (put_g st g x) with {| pl := pl st; guards := set_nth g x (guards st) |}.
  apply inv_guards_change; [assumption|apply set_nth_length| |].
  - intros y. pose proof (held_set_nth (guards st) g gd x y Hg) as E. unfold hpl in E. rewrite Hi, Hx in E. cbn [count_occ] in E. lia.
  - intros g' gd' Hg'. destruct (Nat.eq_dec g g') as [<-|Hne].
    + rewrite nth_error_set_nth_eq in Hg' by (eapply nth_error_lt; eassumption). inversion Hg'; subst gd'. left. split; assumption.
    + rewrite nth_error_set_nth_neq in Hg' by assumption. right. exists g'. assumption.
Qed.

Lemma inv_construct cfg st g gd v m o st' : 1 <= cK cfg -> Inv cfg st -> get_g st g = Some gd -> g_hp gd = None ->
  construct_from cfg st g v m = (o, st') -> Inv cfg st'.
Proof.
  intros HK Hinv Hg Hi Hc. unfold construct_from in Hc. destruct (v =? 0) eqn:Hv.
  - inversion Hc; subst. apply Nat.eqb_eq in Hv. eapply inv_put_null; try eassumption; reflexivity.
  - destruct (p_alloc cfg (pl st)) as [i p| |] eqn:Ha; inversion Hc; subst; try assumption.
    apply Nat.eqb_neq in Hv. eapply inv_protect; try eassumption. rewrite Hi. exact Ha.
Qed.

Lemma inv_move cfg st dst src dd sd : Inv cfg st -> dst <> src ->
  get_g st dst = Some dd -> g_hp dd = None -> get_g st src = Some sd ->
  Inv cfg (put_g (put_g st dst sd) src empty_guard).
Proof.
  intros Hinv Hne Hd Hdn Hs. unfold get_g in *.
  assert (Hs' : nth_error (set_nth dst sd (guards st)) src = Some sd) by (rewrite nth_error_set_nth_neq; assumption).
  change (put_g (put_g st dst sd) src empty_guard)
    with {| pl := pl st; guards := set_nth src empty_guard (set_nth dst sd (guards st)) |}.
  apply inv_guards_change; [assumption|rewrite !set_nth_length; reflexivity| |].
  - intros x.
    pose proof (held_set_nth (guards st) dst dd sd x Hd) as E1.
    pose proof (held_set_nth (set_nth dst sd (guards st)) src sd empty_guard x Hs') as E2.
    unfold hpl in E1 at 1. rewrite Hdn in E1. unfold hpl in E2 at 2. cbn [g_hp empty_guard count_occ] in *. lia.
  - intros g gd Hg. destruct (Nat.eq_dec src g) as [<-|Hn1].
    + rewrite nth_error_set_nth_eq in Hg by (eapply nth_error_lt; eassumption). inversion Hg; subst gd. left. split; reflexivity.
    + rewrite nth_error_set_nth_neq in Hg by assumption. right.
      destruct (Nat.eq_dec dst g) as [<-|Hn2].
      * rewrite nth_error_set_nth_eq in Hg by (eapply nth_error_lt; eassumption). inversion Hg; subst gd. exists src. assumption.
      * rewrite nth_error_set_nth_neq in Hg by assumption. exists g. assumption.
Qed.

Lemma inv_swap cfg st a b ga gb : Inv cfg st -> get_g st a = Some ga -> get_g st b = Some gb ->
  Inv cfg (put_g (put_g st a gb) b ga).
Proof.
  intros Hinv Ha Hb. unfold get_g in *.
  destruct (Nat.eq_dec a b) as [<-|Hne].
  - assert (gb = ga) by congruence. subst gb. unfold put_g. cbn [pl guards].
    rewrite (set_nth_same (guards st) a ga Ha). rewrite (set_nth_same (guards st) a ga Ha). destruct st; assumption.
  - assert (Hb' : nth_error (set_nth a gb (guards st)) b = Some gb) by (rewrite nth_error_set_nth_neq; assumption).
    change (put_g (put_g st a gb) b ga) with {| pl := pl st; guards := set_nth b ga (set_nth a gb (guards st)) |}.
    apply inv_guards_change; [assumption|rewrite !set_nth_length; reflexivity| |].
    + intros x.
      pose proof (held_set_nth (guards st) a ga gb x Ha) as E1.
      pose proof (held_set_nth (set_nth a gb (guards st)) b gb ga x Hb') as E2. lia.
    + intros g gd Hg. right. destruct (Nat.eq_dec b g) as [<-|Hn1].
      * rewrite nth_error_set_nth_eq in Hg by (eapply nth_error_lt; eassumption). inversion Hg; subst gd. exists a. assumption.
      * rewrite nth_error_set_nth_neq in Hg by assumption.
        destruct (Nat.eq_dec a g) as [<-|Hn2].
        -- rewrite nth_error_set_nth_eq in Hg by (eapply nth_error_lt; eassumption). inversion Hg; subst gd. exists b. assumption.
        -- rewrite nth_error_set_nth_neq in Hg by assumption. exists g. assumption.
Qed.

Lemma nth_error_map_const {X Y} (y : Y) : forall (l : list X) i z, nth_error (map (fun _ => y) l) i = Some z -> z = y.
Proof. induction l as [|h t IH]; intros [|i] z Hz; cbn [map nth_error] in Hz; try discriminate; [congruence|eauto]. Qed.

Lemma inv_exit cfg st : 1 <= cK cfg -> Inv cfg st ->
  Inv cfg {| pl := p_init cfg (blocks (pl st)); guards := map (fun _ => empty_guard) (guards st) |}.
Proof.
  intros HK [Hp Ho Hn Hnn Hl]. split; cbn [pl guards].
  - rewrite held_map_empty. apply pool_init; [assumption|apply (pi_blocks _ _ _ Hp)|apply (pi_static _ _ _ Hp)].
  - intros g gd i Hg Hi. apply nth_error_map_const in Hg. subst gd. discriminate.
  - intros g gd Hg _. apply nth_error_map_const in Hg. subst gd. reflexivity.
  - intros g gd i Hg Hi. apply nth_error_map_const in Hg. subst gd. discriminate.
  - rewrite map_length. assumption.
Qed.

(** * Every operation preserves the invariant *)
Theorem step_inv cfg st op o b st' : 1 <= cK cfg -> Inv cfg st -> step cfg st op = (o, b, st') -> Inv cfg st'.
Proof.
  intros HK Hinv Hs. destruct op as [g v m|g v m ev em|g|g v m|dst src|dst src|dst src|dst src|a b'|]; cbn [step] in Hs.
  - (* acquire *)
    destruct (get_g st g) as [gd|] eqn:Hg; [|inversion Hs; subst; assumption].
    destruct ((v =? g_ptr gd) && (m =? g_mark gd)); [inversion Hs; subst; assumption|].
    destruct (Nat.eqb_spec v 0) as [Hv|Hv].
    { inversion Hs; subst.
      eapply inv_put_null; [apply inv_reset; exact Hinv|eapply reset_guard_get_same; exact Hg|reflexivity|reflexivity|cbn [g_ptr]; try reflexivity; assumption]. }
    destruct (ensure_hp cfg st (g_hp gd)) as [i p| |] eqn:He; inversion Hs; subst; try assumption.
    eapply inv_protect; eassumption.
  - (* acquire_if_equal *)
    destruct (get_g st g) as [gd|] eqn:Hg; [|inversion Hs; subst; assumption].
    destruct (Nat.eqb_spec v 0) as [Hv|Hv]; cbn [orb] in Hs.
    { destruct ((v =? ev) && (m =? em)); inversion Hs; subst; [|apply inv_reset; assumption].
      eapply inv_put_null; [apply inv_reset; exact Hinv|eapply reset_guard_get_same; exact Hg|reflexivity|reflexivity|cbn [g_ptr]; try reflexivity; assumption]. }
    destruct (negb ((v =? ev) && (m =? em))) eqn:Eeq.
    { destruct ((v =? ev) && (m =? em)); [discriminate|]. inversion Hs; subst. apply inv_reset; assumption. }
    destruct (ensure_hp cfg st (g_hp gd)) as [i p| |] eqn:He; inversion Hs; subst; try assumption.
    eapply inv_protect; eassumption.
  - (* reset *)
    destruct (get_g st g); inversion Hs; subst; [apply inv_reset|]; assumption.
  - (* guard_ptr(p) *)
    destruct (get_g st g) as [gd|] eqn:Hg; [|inversion Hs; subst; assumption].
    destruct (construct_from cfg (reset_guard st g) g v m) as [o' st''] eqn:Hc. inversion Hs; subst.
    exact (inv_construct cfg (reset_guard st g) g empty_guard _ _ _ _ HK (inv_reset _ _ _ Hinv) (reset_guard_get_same _ _ _ Hg) eq_refl Hc).
  - (* copy constructor *)
    destruct (get_g st dst) as [dd|] eqn:Hd; [|inversion Hs; subst; assumption].
    destruct (get_g st src) as [sd|] eqn:Hsrc; [|inversion Hs; subst; assumption].
    destruct (dst =? src); [inversion Hs; subst; assumption|].
    destruct (construct_from cfg (reset_guard st dst) dst (g_ptr sd) (g_mark sd)) as [o' st''] eqn:Hc. inversion Hs; subst.
    exact (inv_construct cfg (reset_guard st dst) dst empty_guard _ _ _ _ HK (inv_reset _ _ _ Hinv) (reset_guard_get_same _ _ _ Hd) eq_refl Hc).
  - (* move constructor *)
    destruct (get_g st dst) as [dd|] eqn:Hd; [|inversion Hs; subst; assumption].
    destruct (get_g st src) as [sd|] eqn:Hsrc; [|inversion Hs; subst; assumption].
    destruct (Nat.eqb_spec dst src) as [|Hne]; [inversion Hs; subst; assumption|]. inversion Hs; subst.
    apply (inv_move cfg (reset_guard st dst) dst src empty_guard sd (inv_reset _ _ _ Hinv) Hne (reset_guard_get_same _ _ _ Hd) eq_refl).
    rewrite reset_guard_get_other; assumption.
  - (* copy assignment *)
    destruct (get_g st dst) as [dd|] eqn:Hd; [|inversion Hs; subst; assumption].
    destruct (get_g st src) as [sd|] eqn:Hsrc; [|inversion Hs; subst; assumption].
    destruct (dst =? src); [inversion Hs; subst; assumption|].
    destruct (Nat.eqb_spec (g_ptr sd) 0) as [Hz|Hnz].
    + inversion Hs; subst.
      exact (inv_put_null cfg (reset_guard st dst) dst empty_guard {| g_hp := None; g_ptr := g_ptr sd; g_mark := g_mark sd |} (inv_reset _ _ _ Hinv) (reset_guard_get_same _ _ _ Hd) eq_refl eq_refl Hz).
    + destruct (ensure_hp cfg st (g_hp dd)) as [i p| |] eqn:He; inversion Hs; subst; try assumption.
      eapply inv_protect; eassumption.
  - (* move assignment *)
    destruct (get_g st dst) as [dd|] eqn:Hd; [|inversion Hs; subst; assumption].
    destruct (get_g st src) as [sd|] eqn:Hsrc; [|inversion Hs; subst; assumption].
    destruct (Nat.eqb_spec dst src) as [|Hne]; [inversion Hs; subst; assumption|]. inversion Hs; subst.
    apply (inv_move cfg (reset_guard st dst) dst src empty_guard sd (inv_reset _ _ _ Hinv) Hne (reset_guard_get_same _ _ _ Hd) eq_refl).
    rewrite reset_guard_get_other; assumption.
  - (* swap *)
    destruct (get_g st a) as [ga|] eqn:Ha; [|inversion Hs; subst; assumption].
    destruct (get_g st b') as [gb|] eqn:Hb; [|inversion Hs; subst; assumption].
    inversion Hs; subst. apply inv_swap; assumption.
  - (* thread exit *)
    inversion Hs; subst. apply inv_exit; assumption.
Qed.

Lemma run_from_inv cfg : 1 <= cK cfg -> forall ops st, Inv cfg st -> Inv cfg (snd (run_from cfg st ops)).
Proof.
  intros HK. induction ops as [|op r IH]; intros st Hinv; cbn [run_from]; [assumption|].
  destruct (step cfg st op) as [[o b] st'] eqn:Hs. specialize (IH st' (step_inv _ _ _ _ _ _ HK Hinv Hs)).
  destruct (run_from cfg st' r) as [os fin]. exact IH.
Qed.

Theorem run_inv cfg ops : 1 <= cK cfg -> Inv cfg (snd (run cfg ops)).
Proof. intros HK. apply run_from_inv; [assumption|apply inv_init; assumption]. Qed.

(** * Reading the invariant *)
Lemma gather_In {A} (sl : list (slot A)) i a : nth_error sl i = Some (Obj a) -> In a (gather sl).
Proof.
  intros Hn. unfold gather. apply in_flat_map. exists (Obj a). split; [eapply nth_error_In; eassumption|left; reflexivity].
Qed.

Definition Facts (cfg : config) (st : state) : Prop :=
  let fl := free_list (pl st) in
  let H := held (guards st) in
  let n := length (slots (pl st)) in
  (* the list that starts at hint consists of link slots, ends in nullptr, ... *)
  chain (slots (pl st)) (hint (pl st)) fl /\
  (* ... is duplicate free and enumerates exactly the slots that no guard holds *)
  NoDup fl /\ (forall i, In i fl <-> i < n /\ ~ In i H) /\
  (* the slots of different guards are different *)
  NoDup H /\
  (forall g g' gd gd' i, nth_error (guards st) g = Some gd -> g_hp gd = Some i ->
                         nth_error (guards st) g' = Some gd' -> g_hp gd' = Some i -> g = g') /\
  (forall i, In i H -> i < n) /\
  (* held + free = all *)
  Permutation (fl ++ H) (seq 0 n) /\ length H + length fl = n /\
  (* a held slot contains the guard's object, so a scan gathers it *)
  (forall g gd i, nth_error (guards st) g = Some gd -> g_hp gd = Some i ->
                  nth_error (slots (pl st)) i = Some (Obj (g_ptr gd)) /\ In (g_ptr gd) (gather (slots (pl st)))) /\
  (* a guard that refers to an object holds a slot *)
  (forall g gd, nth_error (guards st) g = Some gd -> g_ptr gd <> 0 -> exists i, g_hp gd = Some i) /\
  (* ... and only such a guard does: a guard on a null or marked null pointer holds no slot *)
  (forall g gd i, nth_error (guards st) g = Some gd -> g_hp gd = Some i -> g_ptr gd <> 0) /\
  (* the number of slots *)
  n = cK cfg + list_sum (blocks (pl st)) /\ (cDyn cfg = false -> n = cK cfg) /\
  length (guards st) = cG cfg.

Lemma inv_facts cfg st : Inv cfg st -> Facts cfg st.
Proof.
  intros Hinv. pose proof Hinv as [Hp Ho Hn Hnn Hl].
  destruct (pool_free_list _ _ _ Hp) as [Hc Hcnt].
  pose proof (pool_perm _ _ _ Hp) as Hperm.
  assert (Hle : forall x, cnt (free_list (pl st)) x <= 1 /\ cnt (held (guards st)) x <= 1).
  { intros x. specialize (Hcnt x). destruct (x <? length (slots (pl st))); lia. }
  unfold Facts. repeat split.
  - exact Hc.
  - apply (NoDup_count_occ Nat.eq_dec). intros x. apply Hle.
  - eapply chain_lt; eassumption.
  - intros Hin. apply cnt_In in H. apply cnt_In in Hin. specialize (Hcnt i). destruct (i <? length (slots (pl st))); lia.
  - intros [Hlt Hnin]. apply cnt_In. apply cnt_notIn in Hnin. specialize (Hcnt i).
    destruct (Nat.ltb_spec i (length (slots (pl st)))); lia.
  - apply (NoDup_count_occ Nat.eq_dec). intros x. apply Hle.
  - intros g g' gd gd' i. apply inv_distinct with (cfg := cfg). assumption.
  - intros i Hin. eapply pool_used_lt; eassumption.
  - exact Hperm.
  - pose proof (pool_used_length _ _ _ Hp). lia.
  - eapply Ho; eassumption.
  - eapply gather_In. eapply Ho; eassumption.
  - intros g gd Hg Hnz. destruct (g_hp gd) as [i|] eqn:Hi; [eexists; reflexivity|].
    exfalso. apply Hnz. eapply Hn; eassumption.
  - exact Hnn.
  - apply (pi_total _ _ _ Hp).
  - intros Hs. rewrite (pi_total _ _ _ Hp), (pi_static _ _ _ Hp Hs). cbn. lia.
  - exact Hl.
Qed.

(** ** the invariant for every operation sequence *)
Theorem slots_invariant cfg ops : 1 <= cK cfg -> Facts cfg (snd (run cfg ops)).
Proof. intros HK. apply inv_facts, run_inv. assumption. Qed.

Example ex_slots_invariant :
  let cfg := {| cK := 3; cDyn := false; cG := 4 |} in
  let st := snd (run cfg [GAcquire 0 7 0; GAcquire 1 8 0; GCopyCtor 2 0; GReset 1; GMoveAssign 3 2]) in
  free_list (pl st) = [1] /\ held (guards st) = [0; 2] /\
  map g_hp (guards st) = [Some 0; None; None; Some 2] /\ gather (slots (pl st)) = [7; 7].
Proof. vm_compute. repeat split. Qed.

(** * Which operations take a new slot, and from which state *)
Definition target (op : gop) : nat :=
  match op with
  | GAcquire g _ _ | GAcquireIfEqual g _ _ _ _ | GReset g | GCtorPtr g _ _ => g
  | GCopyCtor d _ | GMoveCtor d _ | GCopyAssign d _ | GMoveAssign d _ => d
  | GSwap a _ => a
  | GExit => 0
  end.

(** [Some st0]: the operation calls alloc_hazard_pointer, and does so in state [st0] (for the constructors: after the
    old guard object was destroyed) *)
Definition alloc_site (st : state) (op : gop) : option state :=
  match op with
  | GAcquire g v m =>
      match get_g st g with
      | Some gd => if ((v =? g_ptr gd) && (m =? g_mark gd)) || (v =? 0) then None
                   else match g_hp gd with None => Some st | Some _ => None end
      | None => None
      end
  | GAcquireIfEqual g v m ev em =>
      match get_g st g with
      | Some gd => if (v =? 0) || negb ((v =? ev) && (m =? em)) then None
                   else match g_hp gd with None => Some st | Some _ => None end
      | None => None
      end
  | GCtorPtr g v m =>
      match get_g st g with
      | Some _ => if v =? 0 then None else Some (reset_guard st g)
      | None => None
      end
  | GCopyCtor dst src =>
      match get_g st dst, get_g st src with
      | Some _, Some sd => if (dst =? src) || (g_ptr sd =? 0) then None else Some (reset_guard st dst)
      | _, _ => None
      end
  | GCopyAssign dst src =>
      match get_g st dst, get_g st src with
      | Some dd, Some sd => if (dst =? src) || (g_ptr sd =? 0) then None
                            else match g_hp dd with None => Some st | Some _ => None end
      | _, _ => None
      end
  | _ => None
  end.

Definition valid_op (cfg : config) (op : gop) : Prop :=
  match op with
  | GAcquire g _ _ | GAcquireIfEqual g _ _ _ _ | GReset g | GCtorPtr g _ _ => g < cG cfg
  | GCopyCtor d s | GMoveCtor d s => d < cG cfg /\ s < cG cfg /\ d <> s
  | GCopyAssign d s | GMoveAssign d s | GSwap d s => d < cG cfg /\ s < cG cfg
  | GExit => True
  end.

Definition outcome_of (cfg : config) (st : state) (op : gop) : outcome := fst (fst (step cfg st op)).
Definition state_after (cfg : config) (st : state) (op : gop) : state := snd (step cfg st op).

(** an operation with an allocation site: the guard [target op] has no slot there, and the result is decided by
    [alloc_hazard_pointer] alone *)
Lemma alloc_site_spec cfg st op st0 : alloc_site st op = Some st0 ->
  (st0 = st \/ st0 = reset_guard st (target op)) /\
  exists gd v m ret, get_g st0 (target op) = Some gd /\ g_hp gd = None /\
    step cfg st op = match p_alloc cfg (pl st0) with
                     | AOk i p => (Ok, ret, protect st0 p (target op) i v m)
                     | AExh => (Exhausted, false, st0)
                     | ACorrupt => (Invalid, false, st0)
                     end.
Proof.
  intros Ha. destruct op as [g v m|g v m ev em|g|g v m|dst src|dst src|dst src|dst src|a b'|]; cbn [alloc_site target] in *;
    try discriminate.
  - destruct (get_g st g) as [gd|] eqn:Hg; [|discriminate].
    destruct ((v =? g_ptr gd) && (m =? g_mark gd)) eqn:E1; [discriminate|]. cbn [orb] in Ha.
    destruct (v =? 0) eqn:E2; [discriminate|]. destruct (g_hp gd) eqn:Hi; [discriminate|]. inversion Ha; subst st0.
    split; [left; reflexivity|]. exists gd, v, m, false. split; [assumption|]. split; [assumption|].
    cbn [step]. rewrite Hg, E1, E2, Hi. cbn [ensure_hp]. destruct (p_alloc cfg (pl st)); reflexivity.
  - destruct (get_g st g) as [gd|] eqn:Hg; [|discriminate].
    destruct ((v =? 0) || negb ((v =? ev) && (m =? em))) eqn:E1; [discriminate|].
    destruct (g_hp gd) eqn:Hi; [discriminate|]. inversion Ha; subst st0.
    split; [left; reflexivity|]. exists gd, v, m, true. split; [assumption|]. split; [assumption|].
    cbn [step]. rewrite Hg, E1, Hi. cbn [ensure_hp]. destruct (p_alloc cfg (pl st)); reflexivity.
  - destruct (get_g st g) as [gd|] eqn:Hg; [|discriminate]. destruct (v =? 0) eqn:Hv; [discriminate|]. inversion Ha; subst st0.
    split; [right; reflexivity|]. exists empty_guard, v, m, false.
    split; [eapply reset_guard_get_same; eassumption|]. split; [reflexivity|].
    cbn [step]. rewrite Hg. unfold construct_from. rewrite Hv. destruct (p_alloc cfg (pl (reset_guard st g))); reflexivity.
  - destruct (get_g st dst) as [dd|] eqn:Hd; [|discriminate]. destruct (get_g st src) as [sd|] eqn:Hs; [|discriminate].
    destruct (dst =? src) eqn:E1; [discriminate|]. cbn [orb] in Ha. destruct (g_ptr sd =? 0) eqn:Hv; [discriminate|].
    inversion Ha; subst st0.
    split; [right; reflexivity|]. exists empty_guard, (g_ptr sd), (g_mark sd), false.
    split; [eapply reset_guard_get_same; eassumption|]. split; [reflexivity|].
    cbn [step]. rewrite Hd, Hs, E1. unfold construct_from. rewrite Hv. destruct (p_alloc cfg (pl (reset_guard st dst))); reflexivity.
  - destruct (get_g st dst) as [dd|] eqn:Hd; [|discriminate]. destruct (get_g st src) as [sd|] eqn:Hs; [|discriminate].
    destruct (dst =? src) eqn:E1; [discriminate|]. cbn [orb] in Ha. destruct (g_ptr sd =? 0) eqn:Hv; [discriminate|].
    destruct (g_hp dd) eqn:Hi; [discriminate|]. inversion Ha; subst st0.
    split; [left; reflexivity|]. exists dd, (g_ptr sd), (g_mark sd), false. split; [assumption|]. split; [assumption|].
    cbn [step]. rewrite Hd, Hs, E1, Hv, Hi. cbn [ensure_hp]. destruct (p_alloc cfg (pl st)); reflexivity.
Qed.

(** an operation without an allocation site never throws, and is [Invalid] only if it is not a valid operation *)
Lemma no_alloc_site cfg st op : length (guards st) = cG cfg -> alloc_site st op = None ->
  outcome_of cfg st op <> Exhausted /\ (valid_op cfg op -> outcome_of cfg st op = Ok).
Proof.
  intros Hl Ha. unfold outcome_of.
  assert (Hget : forall g, g < cG cfg -> exists gd, get_g st g = Some gd).
  { intros g Hg. unfold get_g. destruct (nth_error (guards st) g) eqn:E; [eexists; reflexivity|].
    apply nth_error_None in E. lia. }
  destruct op as [g v m|g v m ev em|g|g v m|dst src|dst src|dst src|dst src|a b'|]; cbn [alloc_site step valid_op] in *.
  - destruct (get_g st g) as [gd|] eqn:Hg.
    + destruct ((v =? g_ptr gd) && (m =? g_mark gd)); cbn [orb] in Ha; [cbn; split; [discriminate|reflexivity]|].
      destruct (v =? 0); [cbn; split; [discriminate|reflexivity]|].
      destruct (g_hp gd); [|discriminate]. cbn; split; [discriminate|reflexivity].
    + cbn. split; [discriminate|]. intros Hv. destruct (Hget g Hv). congruence.
  - destruct (get_g st g) as [gd|] eqn:Hg.
    + destruct ((v =? 0) || negb ((v =? ev) && (m =? em))); [cbn; split; [discriminate|reflexivity]|].
      destruct (g_hp gd); [|discriminate]. cbn; split; [discriminate|reflexivity].
    + cbn. split; [discriminate|]. intros Hv. destruct (Hget g Hv). congruence.
  - destruct (get_g st g) as [gd|] eqn:Hg; cbn; (split; [discriminate|]); [reflexivity|].
    intros Hv. destruct (Hget g Hv). congruence.
  - destruct (get_g st g) as [gd|] eqn:Hg.
    + destruct (v =? 0) eqn:Hv; [|discriminate]. unfold construct_from. rewrite Hv. cbn. split; [discriminate|reflexivity].
    + cbn. split; [discriminate|]. intros Hv. destruct (Hget g Hv). congruence.
  - destruct (get_g st dst) as [dd|] eqn:Hd; [destruct (get_g st src) as [sd|] eqn:Hs|].
    + destruct (Nat.eqb_spec dst src) as [E|E]; cbn [orb] in Ha; [cbn; split; [discriminate|intros (_ & _ & ?); contradiction]|].
      destruct (g_ptr sd =? 0) eqn:Hv; [|discriminate]. unfold construct_from. rewrite Hv. cbn. split; [discriminate|reflexivity].
    + cbn. split; [discriminate|]. intros (_ & Hv & _). destruct (Hget src Hv). congruence.
    + cbn. split; [discriminate|]. intros (Hv & _). destruct (Hget dst Hv). congruence.
  - destruct (get_g st dst) as [dd|] eqn:Hd; [destruct (get_g st src) as [sd|] eqn:Hs|].
    + destruct (Nat.eqb_spec dst src) as [E|E]; cbn; (split; [discriminate|]); [intros (_ & _ & ?); contradiction|reflexivity].
    + cbn. split; [discriminate|]. intros (_ & Hv & _). destruct (Hget src Hv). congruence.
    + cbn. split; [discriminate|]. intros (Hv & _). destruct (Hget dst Hv). congruence.
  - destruct (get_g st dst) as [dd|] eqn:Hd; [destruct (get_g st src) as [sd|] eqn:Hs|].
    + destruct (dst =? src); cbn [orb] in Ha; [cbn; split; [discriminate|reflexivity]|].
      destruct (g_ptr sd =? 0); [cbn; split; [discriminate|reflexivity]|].
      destruct (g_hp dd); [|discriminate]. cbn; split; [discriminate|reflexivity].
    + cbn. split; [discriminate|]. intros (_ & Hv). destruct (Hget src Hv). congruence.
    + cbn. split; [discriminate|]. intros (Hv & _). destruct (Hget dst Hv). congruence.
  - destruct (get_g st dst) as [dd|] eqn:Hd; [destruct (get_g st src) as [sd|] eqn:Hs|].
    + destruct (dst =? src); cbn; (split; [discriminate|reflexivity]).
    + cbn. split; [discriminate|]. intros (_ & Hv). destruct (Hget src Hv). congruence.
    + cbn. split; [discriminate|]. intros (Hv & _). destruct (Hget dst Hv). congruence.
  - destruct (get_g st a) as [ga|] eqn:Hga; [destruct (get_g st b') as [gb|] eqn:Hgb|].
    + cbn; (split; [discriminate|reflexivity]).
    + cbn. split; [discriminate|]. intros (_ & Hv). destruct (Hget b' Hv). congruence.
    + cbn. split; [discriminate|]. intros (Hv & _). destruct (Hget a Hv). congruence.
  - cbn. split; [discriminate|reflexivity].
Qed.

(** * Counting *)
Lemma held_length_set_nth : forall gs g old new, nth_error gs g = Some old ->
  length (hpl old) + length (held (set_nth g new gs)) = length (hpl new) + length (held gs).
Proof.
  induction gs as [|h t IH]; intros [|g] old new Hg; cbn [nth_error] in Hg; try discriminate.
  - inversion Hg; subst. cbn [set_nth held flat_map]. rewrite !app_length. fold (held t). lia.
  - cbn [set_nth held flat_map]. rewrite !app_length. fold (held t) (held (set_nth g new t)).
    specialize (IH g old new Hg). lia.
Qed.

Lemma held_count_reset st g gd : get_g st g = Some gd ->
  held_count (reset_guard st g) + length (hpl gd) = held_count st.
Proof.
  intros Hg. unfold held_count. rewrite reset_guard_guards, Hg.
  pose proof (held_length_set_nth (guards st) g gd empty_guard Hg) as E. cbn [hpl g_hp empty_guard length] in E. lia.
Qed.

Lemma held_count_reset_le st g : held_count (reset_guard st g) <= held_count st.
Proof.
  destruct (get_g st g) as [gd|] eqn:Hg.
  - pose proof (held_count_reset st g gd Hg). lia.
  - unfold reset_guard. rewrite Hg. lia.
Qed.

Lemma static_total cfg st : Inv cfg st -> cDyn cfg = false -> length (slots (pl st)) = cK cfg.
Proof. intros Hinv Hs. apply inv_facts in Hinv. unfold Facts in Hinv. tauto. Qed.

Lemma static_held_le cfg st : Inv cfg st -> cDyn cfg = false -> held_count st <= cK cfg.
Proof.
  intros Hinv Hs. pose proof (pool_used_length _ _ _ (inv_pool _ _ Hinv)) as E.
  rewrite (static_total _ _ Hinv Hs) in E. unfold held_count. lia.
Qed.

(** static: alloc_hazard_pointer throws iff all K slots are held *)
Lemma alloc_exh_iff cfg st : 1 <= cK cfg -> Inv cfg st -> cDyn cfg = false ->
  (p_alloc cfg (pl st) = AExh <-> held_count st = cK cfg).
Proof.
  intros HK Hinv Hs. pose proof (inv_pool _ _ Hinv) as Hp.
  pose proof (pool_used_length _ _ _ Hp) as E. rewrite (static_total _ _ Hinv Hs) in E. fold (held_count st) in E.
  rewrite (pool_alloc_exhausted _ _ _ HK Hp). split.
  - intros [_ Hh]. destruct (pool_hint_none _ _ _ Hp Hh) as [Hfl _]. rewrite Hfl in E. cbn [length] in E. lia.
  - intros Hc. split; [assumption|]. destruct (hint (pl st)) as [j|] eqn:Hh; [|reflexivity].
    destruct (pool_hint_some _ _ _ _ Hp Hh) as (nx & _ & Hfl & _). rewrite Hfl in E. cbn [length] in E. lia.
Qed.

(** what a successful allocation for guard g does *)
Lemma alloc_facts cfg st g gd i p v m : 1 <= cK cfg -> Inv cfg st -> get_g st g = Some gd -> g_hp gd = None ->
  p_alloc cfg (pl st) = AOk i p ->
  let st' := protect st p g i v m in
  get_g st' g = Some {| g_hp := Some i; g_ptr := v; g_mark := m |} /\
  (forall g', g' <> g -> get_g st' g' = get_g st g') /\
  ~ In i (held (guards st)) /\
  nth_error (slots (pl st')) i = Some (Obj v) /\
  held_count st' = S (held_count st) /\
  (forall j, hint (pl st) = Some j -> i = j /\ free_list (pl st) = i :: free_list (pl st') /\
                                     length (slots (pl st')) = length (slots (pl st))) /\
  (hint (pl st) = None -> cDyn cfg = true /\ i = length (slots (pl st))).
Proof.
  intros HK Hinv Hg Hi Ha st'. unfold get_g in *. pose proof (inv_pool _ _ Hinv) as Hp.
  destruct (pool_alloc _ _ _ _ _ HK Hp Ha) as (Hp' & Hnin & Hlt & [ext Hext] & Hcase).
  assert (Hgl : g < length (guards st)) by (eapply nth_error_lt; eassumption).
  subst st'. unfold protect, put_g, with_pool, get_g. cbn [pl guards p_set slots].
  split; [apply nth_error_set_nth_eq; assumption|].
  split; [intros g' Hne; apply nth_error_set_nth_neq; congruence|].
  split; [assumption|].
  split; [apply nth_error_set_nth_eq; assumption|].
  split.
  { unfold held_count. cbn [guards].
    pose proof (held_length_set_nth (guards st) g gd {| g_hp := Some i; g_ptr := v; g_mark := m |} Hg) as E.
    unfold hpl in E. rewrite Hi in E. cbn [g_hp length] in E. lia. }
  split.
  - intros j Hj. rewrite Hj in Hcase. destruct Hcase as (-> & Hsl & Hfl). split; [reflexivity|]. split.
    + rewrite Hfl. f_equal. symmetry.
      apply (pool_set_free_list cfg p (j :: held (guards st)) j v Hp'). left. reflexivity.
    + rewrite set_nth_length. rewrite Hsl. reflexivity.
  - intros Hn. rewrite Hn in Hcase. destruct Hcase as (Hd & -> & _). split; [assumption|reflexivity].
Qed.

(** * K slots are available, exhaustion is reported *)
Theorem static_alloc_succeeds_iff_inv cfg st op st0 : 1 <= cK cfg -> cDyn cfg = false -> Inv cfg st ->
  alloc_site st op = Some st0 ->
  let o := outcome_of cfg st op in
  let st' := state_after cfg st op in
  (o = Ok <-> held_count st0 < cK cfg) /\
  (o = Exhausted <-> held_count st0 = cK cfg) /\
  (o = Ok -> exists i gd, get_g st' (target op) = Some gd /\ g_hp gd = Some i /\
                          nth_error (slots (pl st')) i = Some (Obj (g_ptr gd)) /\
                          free_list (pl st0) = i :: free_list (pl st') /\
                          held_count st' = S (held_count st0)) /\
  (o = Exhausted -> st' = st0 /\ get_g st' (target op) <> None /\
                    forall gd, get_g st' (target op) = Some gd -> g_hp gd = None /\ g_ptr gd = 0).
Proof.
  intros HK Hs Hinv Ha o st'. subst o st'. unfold outcome_of, state_after.
  destruct (alloc_site_spec cfg st op st0 Ha) as (Hst0 & gd & v & m & ret & Hg & Hi & Hstep).
  assert (Hinv0 : Inv cfg st0) by (destruct Hst0 as [->| ->]; [assumption|apply inv_reset; assumption]).
  pose proof (alloc_exh_iff _ _ HK Hinv0 Hs) as Hexh.
  pose proof (static_held_le _ _ Hinv0 Hs) as Hle.
  pose proof (pool_alloc_not_corrupt _ _ _ HK (inv_pool _ _ Hinv0)) as Hnc.
  rewrite Hstep. destruct (p_alloc cfg (pl st0)) as [i p| |] eqn:Hal; cbn [fst snd]; [| |congruence].
  - assert (Hlt : held_count st0 < cK cfg).
    { destruct (Nat.eq_dec (held_count st0) (cK cfg)) as [E|E]; [|lia]. apply Hexh in E. discriminate. }
    destruct (alloc_facts cfg st0 (target op) gd i p v m HK Hinv0 Hg Hi Hal) as (Hget & _ & _ & Hobj & Hcnt & Hsome & Hnone).
    split; [split; auto|]. split; [split; [discriminate|lia]|]. split; [|discriminate].
    intros _. exists i, {| g_hp := Some i; g_ptr := v; g_mark := m |}.
    split; [assumption|]. split; [reflexivity|]. split; [assumption|]. split; [|assumption].
    destruct (hint (pl st0)) as [j|] eqn:Hh.
    + destruct (Hsome j eq_refl) as (_ & Hfl & _). exact Hfl.
    + destruct (Hnone eq_refl). congruence.
  - assert (Heq : held_count st0 = cK cfg) by (apply Hexh; reflexivity).
    split; [split; [discriminate|lia]|]. split; [split; auto|]. split; [discriminate|].
    intros _. split; [reflexivity|]. split; [congruence|]. intros gd' Hg'. assert (gd' = gd) by congruence. subst gd'.
    split; [assumption|]. unfold get_g in Hg. eapply (inv_null _ _ Hinv0); eassumption.
Qed.

Theorem static_alloc_succeeds_iff cfg ops op st0 : 1 <= cK cfg -> cDyn cfg = false ->
  let st := snd (run cfg ops) in
  alloc_site st op = Some st0 ->
  let o := outcome_of cfg st op in
  let st' := state_after cfg st op in
  (o = Ok <-> held_count st0 < cK cfg) /\
  (o = Exhausted <-> held_count st0 = cK cfg) /\
  (o = Ok -> exists i gd, get_g st' (target op) = Some gd /\ g_hp gd = Some i /\
                          nth_error (slots (pl st')) i = Some (Obj (g_ptr gd)) /\
                          free_list (pl st0) = i :: free_list (pl st') /\
                          held_count st' = S (held_count st0)) /\
  (o = Exhausted -> st' = st0 /\ get_g st' (target op) <> None /\
                    forall gd, get_g st' (target op) = Some gd -> g_hp gd = None /\ g_ptr gd = 0).
Proof. intros HK Hs st. apply static_alloc_succeeds_iff_inv; [assumption|assumption|apply run_inv; assumption]. Qed.

(** operations that do not need a new slot never throw *)
Theorem no_slot_needed_no_throw cfg ops op : 1 <= cK cfg ->
  let st := snd (run cfg ops) in
  alloc_site st op = None -> outcome_of cfg st op <> Exhausted /\ (valid_op cfg op -> outcome_of cfg st op = Ok).
Proof. intros HK st. apply no_alloc_site. apply (inv_len _ _ (run_inv cfg ops HK)). Qed.

Example ex_static_alloc :
  let cfg := {| cK := 2; cDyn := false; cG := 3 |} in
  map o_res (fst (run cfg [GAcquire 0 1 0; GAcquire 1 2 0; GAcquire 2 3 0; GCopyCtor 2 0; GReset 0; GCopyCtor 2 1; GCopyAssign 0 1]))
  = [Ok; Ok; Exhausted; Exhausted; Ok; Ok; Exhausted].
Proof. vm_compute. reflexivity. Qed.

(** * An exhausted operation leaves the other guards alone, and the thread can go on *)
Lemma alloc_site_valid cfg st op st0 : length (guards st) = cG cfg -> alloc_site st op = Some st0 -> valid_op cfg op.
Proof.
  intros Hl Ha.
  assert (Hlt : forall g gd, get_g st g = Some gd -> g < cG cfg).
  { intros g gd Hg. rewrite <- Hl. eapply nth_error_lt. exact Hg. }
  destruct op as [g v m|g v m ev em|g|g v m|dst src|dst src|dst src|dst src|a b'|]; cbn [alloc_site valid_op] in *;
    try discriminate.
  - destruct (get_g st g) eqn:Hg; [eapply Hlt; eassumption|discriminate].
  - destruct (get_g st g) eqn:Hg; [eapply Hlt; eassumption|discriminate].
  - destruct (get_g st g) eqn:Hg; [eapply Hlt; eassumption|discriminate].
  - destruct (get_g st dst) eqn:Hd; [|discriminate]. destruct (get_g st src) eqn:Hs; [|discriminate].
    destruct (Nat.eqb_spec dst src); [discriminate|]. repeat split; try assumption; eapply Hlt; eassumption.
  - destruct (get_g st dst) eqn:Hd; [|discriminate]. destruct (get_g st src) eqn:Hs; [|discriminate].
    split; eapply Hlt; eassumption.
Qed.

Lemma alloc_site_held_le st op st0 : alloc_site st op = Some st0 -> held_count st0 <= held_count st.
Proof.
  intros Ha. destruct (alloc_site_spec {| cK := 1; cDyn := false; cG := 0 |} st op st0 Ha) as ([->| ->] & _); [lia|].
  apply held_count_reset_le.
Qed.

Theorem exhausted_preserves_existing_inv cfg st op : 1 <= cK cfg -> Inv cfg st ->
  outcome_of cfg st op = Exhausted ->
  let st' := state_after cfg st op in
  cDyn cfg = false /\ valid_op cfg op /\
  (* every other guard keeps its slot and pointer, and the slot still contains the pointer *)
  (forall g, g <> target op -> get_g st' g = get_g st g) /\
  (forall g gd i, g <> target op -> get_g st g = Some gd -> g_hp gd = Some i ->
                  nth_error (slots (pl st')) i = Some (Obj (g_ptr gd))) /\
  (* the guard that asked holds no slot and refers to no object *)
  (forall gd, get_g st' (target op) = Some gd -> g_hp gd = None /\ g_ptr gd = 0) /\
  (* all K slots are held *)
  held_count st' = cK cfg /\
  (* after any one holding guard was reset the same operation succeeds *)
  (forall h gd, get_g st' h = Some gd -> g_hp gd <> None -> outcome_of cfg (reset_guard st' h) op = Ok).
Proof.
  intros HK Hinv Hexh st'. subst st'.
  destruct (alloc_site st op) as [st0|] eqn:Ha;
    [|exfalso; exact (proj1 (no_alloc_site cfg st op (inv_len _ _ Hinv) Ha) Hexh)].
  pose proof (alloc_site_valid cfg st op st0 (inv_len _ _ Hinv) Ha) as Hvalid.
  destruct (alloc_site_spec cfg st op st0 Ha) as (Hst0 & gd0 & v & m & ret & Hg0 & Hi0 & Hstep).
  assert (Hinv0 : Inv cfg st0) by (destruct Hst0 as [->| ->]; [assumption|apply inv_reset; assumption]).
  unfold outcome_of, state_after in *. rewrite Hstep in *.
  destruct (p_alloc cfg (pl st0)) as [i p| |] eqn:Hal; cbn [fst snd] in *; try discriminate.
  assert (Hstatic : cDyn cfg = false) by (apply (pool_alloc_exhausted _ _ _ HK (inv_pool _ _ Hinv0)); assumption).
  assert (Hfull : held_count st0 = cK cfg) by (apply (alloc_exh_iff _ _ HK Hinv0 Hstatic); assumption).
  assert (Hother : forall g, g <> target op -> get_g st0 g = get_g st g).
  { intros g Hne. destruct Hst0 as [->| ->]; [reflexivity|]. apply reset_guard_get_other. congruence. }
  split; [assumption|]. split; [assumption|]. split; [assumption|]. split.
  { intros g gd i Hne Hg Hi. rewrite <- (Hother g Hne) in Hg. eapply (inv_obj _ _ Hinv0); eassumption. }
  split.
  { intros gd Hg. assert (gd = gd0) by congruence. subst gd. split; [assumption|].
    eapply (inv_null _ _ Hinv0); eassumption. }
  split; [assumption|].
  intros h gd Hh Hhp.
  assert (Hinv1 : Inv cfg (reset_guard st0 h)) by (apply inv_reset; assumption).
  assert (Hcnt1 : held_count (reset_guard st0 h) < cK cfg).
  { pose proof (held_count_reset st0 h gd Hh) as E. unfold hpl in E. destruct (g_hp gd); [|congruence]. cbn [length] in E. lia. }
  destruct (alloc_site (reset_guard st0 h) op) as [st1|] eqn:Ha1.
  - apply (static_alloc_succeeds_iff_inv cfg (reset_guard st0 h) op st1 HK Hstatic Hinv1 Ha1).
    pose proof (alloc_site_held_le _ _ _ Ha1). lia.
  - apply (no_alloc_site cfg _ op (inv_len _ _ Hinv1) Ha1). assumption.
Qed.

Theorem exhausted_preserves_existing cfg ops op : 1 <= cK cfg ->
  let st := snd (run cfg ops) in
  outcome_of cfg st op = Exhausted ->
  let st' := state_after cfg st op in
  cDyn cfg = false /\ valid_op cfg op /\
  (forall g, g <> target op -> get_g st' g = get_g st g) /\
  (forall g gd i, g <> target op -> get_g st g = Some gd -> g_hp gd = Some i ->
                  nth_error (slots (pl st')) i = Some (Obj (g_ptr gd))) /\
  (forall gd, get_g st' (target op) = Some gd -> g_hp gd = None /\ g_ptr gd = 0) /\
  held_count st' = cK cfg /\
  (forall h gd, get_g st' h = Some gd -> g_hp gd <> None -> outcome_of cfg (reset_guard st' h) op = Ok).
Proof. intros HK st. apply exhausted_preserves_existing_inv; [assumption|apply run_inv; assumption]. Qed.

Example ex_exhausted_preserves :
  let cfg := {| cK := 2; cDyn := false; cG := 3 |} in
  map show_out (fst (run cfg [GAcquire 0 4 0; GCtorPtr 1 5 0; GCopyCtor 2 1; GReset 0; GCopyCtor 2 1]))
  = ["ok ret=0 g=[0:4.0,-:0.0,-:0.0] prot=[4] free=[1] total=2";
     "ok ret=0 g=[0:4.0,1:5.0,-:0.0] prot=[4,5] free=[] total=2";
     "exhausted ret=0 g=[0:4.0,1:5.0,-:0.0] prot=[4,5] free=[] total=2";
     "ok ret=0 g=[-:0.0,1:5.0,-:0.0] prot=[5] free=[0] total=2";
     "ok ret=0 g=[-:0.0,1:5.0,0:5.0] prot=[5,5] free=[] total=2"]%string.
Proof. vm_compute. reflexivity. Qed.

(** * reset / destruction returns the slot *)
Lemma reset_guard_pool st g gd : get_g st g = Some gd ->
  pl (reset_guard st g) = match g_hp gd with Some i => p_release i (pl st) | None => pl st end.
Proof. intros Hg. unfold reset_guard. rewrite Hg. destruct (g_hp gd); reflexivity. Qed.

Lemma reset_pool_inv cfg st g gd i : Inv cfg st -> get_g st g = Some gd -> g_hp gd = Some i ->
  PoolInv cfg (pl st) (i :: held (set_nth g empty_guard (guards st))).
Proof.
  intros Hinv Hg Hi. eapply PoolInv_ext; [|exact (inv_pool _ _ Hinv)]. intros x.
  pose proof (held_set_nth (guards st) g gd empty_guard x Hg) as E. unfold hpl in E. rewrite Hi in E.
  cbn [g_hp empty_guard] in E. rewrite cnt_cons in *. cbn [count_occ] in E. lia.
Qed.

Lemma reset_free_list cfg st g gd : Inv cfg st -> get_g st g = Some gd ->
  free_list (pl (reset_guard st g)) = hpl gd ++ free_list (pl st).
Proof.
  intros Hinv Hg. rewrite (reset_guard_pool st g gd Hg). unfold hpl. destruct (g_hp gd) as [i|] eqn:Hi; [|reflexivity].
  apply (pool_release_free_list cfg _ _ _ (reset_pool_inv cfg st g gd i Hinv Hg Hi)).
Qed.

Theorem reset_returns_slot_inv cfg st g gd i : 1 <= cK cfg -> Inv cfg st -> get_g st g = Some gd -> g_hp gd = Some i ->
  let st' := state_after cfg st (GReset g) in
  outcome_of cfg st (GReset g) = Ok /\
  get_g st' g = Some empty_guard /\ (forall g', g' <> g -> get_g st' g' = get_g st g') /\
  free_list (pl st') = i :: free_list (pl st) /\
  held_count st' + 1 = held_count st /\
  (exists p, p_alloc cfg (pl st') = AOk i p).      (* the next allocation gets exactly this slot *)
Proof.
  intros HK Hinv Hg Hi st'. subst st'. unfold outcome_of, state_after. cbn [step]. rewrite Hg. cbn [fst snd].
  split; [reflexivity|]. split; [eapply reset_guard_get_same; eassumption|].
  split; [intros g' Hne; apply reset_guard_get_other; congruence|].
  split; [rewrite (reset_free_list cfg st g gd Hinv Hg); unfold hpl; rewrite Hi; reflexivity|].
  split; [pose proof (held_count_reset st g gd Hg) as E; unfold hpl in E; rewrite Hi in E; exact E|].
  rewrite (reset_guard_pool st g gd Hg), Hi. unfold p_alloc. cbn [p_release hint slots blocks].
  rewrite nth_error_set_nth_eq; [eexists; reflexivity|].
  eapply nth_error_lt. eapply (inv_obj _ _ Hinv); eassumption.
Qed.

Theorem reset_returns_slot cfg ops g gd i : 1 <= cK cfg ->
  let st := snd (run cfg ops) in
  get_g st g = Some gd -> g_hp gd = Some i ->
  let st' := state_after cfg st (GReset g) in
  outcome_of cfg st (GReset g) = Ok /\
  get_g st' g = Some empty_guard /\ (forall g', g' <> g -> get_g st' g' = get_g st g') /\
  free_list (pl st') = i :: free_list (pl st) /\
  held_count st' + 1 = held_count st /\
  (exists p, p_alloc cfg (pl st') = AOk i p).
Proof. intros HK st. apply reset_returns_slot_inv; [assumption|apply run_inv; assumption]. Qed.

Example ex_reset_returns_slot :
  let cfg := {| cK := 3; cDyn := false; cG := 3 |} in
  let st := snd (run cfg [GAcquire 0 1 0; GAcquire 1 2 0; GAcquire 2 3 0]) in
  free_list (pl st) = [] /\ free_list (pl (state_after cfg st (GReset 1))) = [1] /\
  map g_hp (guards (state_after cfg (state_after cfg st (GReset 1)) (GAcquire 1 9 0))) = [Some 0; Some 1; Some 2].
Proof. vm_compute. repeat split. Qed.

(** * move: the slot goes to the destination, the source is empty, no slot is consumed *)
Lemma set_nth_set_nth_same {X} : forall (l : list X) i x y, set_nth i y (set_nth i x l) = set_nth i y l.
Proof. induction l as [|h t IH]; intros [|i] x y; cbn [set_nth]; auto. f_equal. apply IH. Qed.

Theorem move_transfers_slot_inv cfg st op dst src dd sd : 1 <= cK cfg -> Inv cfg st ->
  op = GMoveCtor dst src \/ op = GMoveAssign dst src -> dst <> src ->
  get_g st dst = Some dd -> get_g st src = Some sd ->
  let st' := state_after cfg st op in
  outcome_of cfg st op = Ok /\
  get_g st' dst = Some sd /\ get_g st' src = Some empty_guard /\
  (forall g, g <> dst -> g <> src -> get_g st' g = get_g st g) /\
  free_list (pl st') = hpl dd ++ free_list (pl st) /\     (* the destination's old slot is returned, none is taken *)
  held_count st' + length (hpl dd) = held_count st.
Proof.
  intros HK Hinv Hop Hne Hd Hs st'. subst st'.
  assert (Hstep : step cfg st op = (Ok, false, put_g (put_g (reset_guard st dst) dst sd) src empty_guard)).
  { destruct Hop as [-> | ->]; cbn [step]; rewrite Hd, Hs; destruct (Nat.eqb_spec dst src); try contradiction; reflexivity. }
  unfold outcome_of, state_after. rewrite Hstep. cbn [fst snd].
  assert (Hgs : guards (put_g (put_g (reset_guard st dst) dst sd) src empty_guard)
                = set_nth src empty_guard (set_nth dst sd (guards st))).
  { cbn [put_g guards]. rewrite reset_guard_guards, Hd, set_nth_set_nth_same. reflexivity. }
  unfold get_g in *. rewrite Hgs.
  assert (Hdl : dst < length (guards st)) by (eapply nth_error_lt; eassumption).
  assert (Hsl : src < length (guards st)) by (eapply nth_error_lt; eassumption).
  split; [reflexivity|].
  split; [rewrite nth_error_set_nth_neq by congruence; apply nth_error_set_nth_eq; assumption|].
  split; [apply nth_error_set_nth_eq; rewrite set_nth_length; assumption|].
  split; [intros g H1 H2; rewrite !nth_error_set_nth_neq by congruence; reflexivity|].
  split; [cbn [put_g pl]; apply (reset_free_list cfg st dst dd Hinv Hd)|].
  unfold held_count. rewrite Hgs.
  pose proof (held_length_set_nth (guards st) dst dd sd Hd) as E1.
  assert (Hs' : nth_error (set_nth dst sd (guards st)) src = Some sd) by (rewrite nth_error_set_nth_neq; assumption).
  pose proof (held_length_set_nth _ src sd empty_guard Hs') as E2. cbn [hpl g_hp empty_guard length] in E2. lia.
Qed.

Theorem move_transfers_slot cfg ops op dst src dd sd : 1 <= cK cfg ->
  let st := snd (run cfg ops) in
  op = GMoveCtor dst src \/ op = GMoveAssign dst src -> dst <> src ->
  get_g st dst = Some dd -> get_g st src = Some sd ->
  let st' := state_after cfg st op in
  outcome_of cfg st op = Ok /\
  get_g st' dst = Some sd /\ get_g st' src = Some empty_guard /\
  (forall g, g <> dst -> g <> src -> get_g st' g = get_g st g) /\
  free_list (pl st') = hpl dd ++ free_list (pl st) /\
  held_count st' + length (hpl dd) = held_count st.
Proof. intros HK st. apply move_transfers_slot_inv; [assumption|apply run_inv; assumption]. Qed.

Example ex_move_transfers_slot :
  let cfg := {| cK := 2; cDyn := false; cG := 3 |} in
  map show_out (fst (run cfg [GAcquire 0 4 0; GAcquire 1 5 1; GMoveCtor 2 0; GMoveAssign 2 1; GMoveAssign 2 2]))
  = ["ok ret=0 g=[0:4.0,-:0.0,-:0.0] prot=[4] free=[1] total=2";
     "ok ret=0 g=[0:4.0,1:5.1,-:0.0] prot=[4,5] free=[] total=2";
     "ok ret=0 g=[-:0.0,1:5.1,0:4.0] prot=[4,5] free=[] total=2";
     "ok ret=0 g=[-:0.0,-:0.0,1:5.1] prot=[5] free=[0] total=2";
     "ok ret=0 g=[-:0.0,-:0.0,1:5.1] prot=[5] free=[0] total=2"]%string.
Proof. vm_compute. reflexivity. Qed.

Lemma state_after_inv cfg st op : 1 <= cK cfg -> Inv cfg st -> Inv cfg (state_after cfg st op).
Proof.
  intros HK Hinv. unfold state_after. destruct (step cfg st op) as [[o b] s] eqn:E. exact (step_inv cfg st op o b s HK Hinv E).
Qed.

(** * copy: the copy takes a slot of its own *)
Theorem copy_takes_new_slot_inv cfg st dst src dd sd i : 1 <= cK cfg -> Inv cfg st -> dst <> src ->
  get_g st dst = Some dd -> get_g st src = Some sd -> g_hp sd = Some i -> g_ptr sd <> 0 ->
  let st0 := reset_guard st dst in                      (* the old guard object at dst was destroyed *)
  let st' := state_after cfg st (GCopyCtor dst src) in
  alloc_site st (GCopyCtor dst src) = Some st0 /\
  (outcome_of cfg st (GCopyCtor dst src) = Ok ->
   exists j, get_g st' dst = Some {| g_hp := Some j; g_ptr := g_ptr sd; g_mark := g_mark sd |} /\
             j <> i /\ ~ In j (held (guards st0)) /\
             get_g st' src = Some sd /\
             nth_error (slots (pl st')) j = Some (Obj (g_ptr sd)) /\
             nth_error (slots (pl st')) i = Some (Obj (g_ptr sd)) /\
             held_count st' = S (held_count st0)).
Proof.
  intros HK Hinv Hne Hd Hs Hi Hnz st0 st'.
  assert (Ha : alloc_site st (GCopyCtor dst src) = Some st0).
  { cbn [alloc_site]. rewrite Hd, Hs. destruct (Nat.eqb_spec dst src); [contradiction|].
    destruct (Nat.eqb_spec (g_ptr sd) 0); [contradiction|]. reflexivity. }
  split; [assumption|]. subst st'.
  assert (Hinv0 : Inv cfg st0) by (apply inv_reset; assumption).
  pose proof (state_after_inv cfg st (GCopyCtor dst src) HK Hinv) as Hinv'.
  assert (Hg0 : get_g st0 dst = Some empty_guard) by (eapply reset_guard_get_same; eassumption).
  revert Hinv'. unfold outcome_of, state_after. cbn [step]. rewrite Hd, Hs.
  destruct (Nat.eqb_spec dst src); [contradiction|]. unfold construct_from.
  destruct (Nat.eqb_spec (g_ptr sd) 0); [contradiction|]. fold st0.
  destruct (p_alloc cfg (pl st0)) as [j p| |] eqn:Hal; cbn [fst snd]; intros Hinv' Hok; try discriminate.
  destruct (alloc_facts cfg st0 dst empty_guard j p (g_ptr sd) (g_mark sd) HK Hinv0 Hg0 eq_refl Hal)
    as (Hget & Hoth & Hnin & Hobj & Hcnt & _).
  assert (Hsrc0 : get_g st0 src = Some sd) by (subst st0; rewrite reset_guard_get_other; assumption).
  assert (Hsrc' : get_g (protect st0 p dst j (g_ptr sd) (g_mark sd)) src = Some sd) by (rewrite Hoth; [assumption|congruence]).
  exists j. split; [assumption|]. split.
  { intros ->. apply Hnin. apply held_In. exists src, sd. split; assumption. }
  split; [assumption|]. split; [assumption|]. split; [assumption|]. split; [|assumption].
  eapply (inv_obj _ _ Hinv'); eassumption.
Qed.

Theorem copy_takes_new_slot cfg ops dst src dd sd i : 1 <= cK cfg ->
  let st := snd (run cfg ops) in
  dst <> src -> get_g st dst = Some dd -> get_g st src = Some sd -> g_hp sd = Some i -> g_ptr sd <> 0 ->
  let st0 := reset_guard st dst in
  let st' := state_after cfg st (GCopyCtor dst src) in
  alloc_site st (GCopyCtor dst src) = Some st0 /\
  (outcome_of cfg st (GCopyCtor dst src) = Ok ->
   exists j, get_g st' dst = Some {| g_hp := Some j; g_ptr := g_ptr sd; g_mark := g_mark sd |} /\
             j <> i /\ ~ In j (held (guards st0)) /\
             get_g st' src = Some sd /\
             nth_error (slots (pl st')) j = Some (Obj (g_ptr sd)) /\
             nth_error (slots (pl st')) i = Some (Obj (g_ptr sd)) /\
             held_count st' = S (held_count st0)).
Proof. intros HK st. apply copy_takes_new_slot_inv; [assumption|apply run_inv; assumption]. Qed.

(** copy assignment onto a guard that already holds a slot re-uses that slot and can not throw *)
Theorem copy_assign_reuses_slot_inv cfg st dst src dd sd j : 1 <= cK cfg -> Inv cfg st -> dst <> src ->
  get_g st dst = Some dd -> get_g st src = Some sd -> g_hp dd = Some j -> g_ptr sd <> 0 ->
  let st' := state_after cfg st (GCopyAssign dst src) in
  outcome_of cfg st (GCopyAssign dst src) = Ok /\
  get_g st' dst = Some {| g_hp := Some j; g_ptr := g_ptr sd; g_mark := g_mark sd |} /\
  nth_error (slots (pl st')) j = Some (Obj (g_ptr sd)) /\
  free_list (pl st') = free_list (pl st) /\ held_count st' = held_count st.
Proof.
  intros HK Hinv Hne Hd Hs Hj Hnz st'. subst st'. unfold outcome_of, state_after. cbn [step]. rewrite Hd, Hs.
  destruct (Nat.eqb_spec dst src); [contradiction|]. destruct (Nat.eqb_spec (g_ptr sd) 0); [contradiction|].
  rewrite Hj. cbn [ensure_hp fst snd]. unfold get_g in *.
  assert (Hdl : dst < length (guards st)) by (eapply nth_error_lt; exact Hd).
  assert (Hjl : j < length (slots (pl st))) by (eapply nth_error_lt; exact (inv_obj _ _ Hinv dst dd j Hd Hj)).
  split; [reflexivity|]. unfold protect, put_g, with_pool. cbn [pl guards p_set slots].
  split; [apply nth_error_set_nth_eq; assumption|]. split; [apply nth_error_set_nth_eq; assumption|].
  split.
  - apply (pool_set_free_list cfg (pl st) (held (guards st)) j (g_ptr sd) (inv_pool _ _ Hinv)).
    apply held_In. exists dst, dd. split; assumption.
  - unfold held_count. cbn [guards].
    pose proof (held_length_set_nth (guards st) dst dd {| g_hp := Some j; g_ptr := g_ptr sd; g_mark := g_mark sd |} Hd) as E.
    unfold hpl in E. rewrite Hj in E. cbn [g_hp length] in E. lia.
Qed.

Example ex_copy_takes_new_slot :
  let cfg := {| cK := 3; cDyn := false; cG := 3 |} in
  map show_out (fst (run cfg [GAcquire 0 4 0; GCopyCtor 1 0; GCopyAssign 2 0; GAcquire 0 6 0; GCopyAssign 1 0; GCopyAssign 1 1]))
  = ["ok ret=0 g=[0:4.0,-:0.0,-:0.0] prot=[4] free=[1,2] total=3";
     "ok ret=0 g=[0:4.0,1:4.0,-:0.0] prot=[4,4] free=[2] total=3";
     "ok ret=0 g=[0:4.0,1:4.0,2:4.0] prot=[4,4,4] free=[] total=3";
     "ok ret=0 g=[0:6.0,1:4.0,2:4.0] prot=[4,4,6] free=[] total=3";
     "ok ret=0 g=[0:6.0,1:6.0,2:4.0] prot=[4,6,6] free=[] total=3";
     "ok ret=0 g=[0:6.0,1:6.0,2:4.0] prot=[4,6,6] free=[] total=3"]%string.
Proof. vm_compute. reflexivity. Qed.

(** * no leak *)
Lemma run_from_cons cfg st op r :
  run_from cfg st (op :: r) =
  (observe (outcome_of cfg st op) (snd (fst (step cfg st op))) (state_after cfg st op) :: fst (run_from cfg (state_after cfg st op) r),
   snd (run_from cfg (state_after cfg st op) r)).
Proof.
  cbn [run_from]. unfold outcome_of, state_after. destruct (step cfg st op) as [[o b] st']. cbn [fst snd].
  destruct (run_from cfg st' r); reflexivity.
Qed.

Lemma run_from_Forall cfg (Q : gop -> Prop) (P : outcome -> Prop) : 1 <= cK cfg ->
  (forall st op, Inv cfg st -> Q op -> P (outcome_of cfg st op)) ->
  forall ops st, Inv cfg st -> Forall Q ops -> Forall (fun o => P (o_res o)) (fst (run_from cfg st ops)).
Proof.
  intros HK Hstep. induction ops as [|op r IH]; intros st Hinv HQ; [constructor|].
  rewrite run_from_cons. cbn [fst]. inversion HQ; subst. constructor.
  - cbn [observe o_res]. apply Hstep; assumption.
  - apply IH; [|assumption]. apply state_after_inv; assumption.
Qed.

Definition reset_all (cfg : config) : list gop := map GReset (seq 0 (cG cfg)).

Lemma reset_list_spec cfg : 1 <= cK cfg -> forall L st, Inv cfg st ->
  let st' := snd (run_from cfg st (map GReset L)) in
  Inv cfg st' /\
  (forall g, In g L -> g < cG cfg -> get_g st' g = Some empty_guard) /\
  (forall g, get_g st g = Some empty_guard -> get_g st' g = Some empty_guard) /\
  length (slots (pl st')) = length (slots (pl st)).
Proof.
  intros HK. induction L as [|a L IH]; intros st Hinv st'; subst st'.
  - cbn [map run_from snd]. split; [assumption|]. split; [intros g []|]. split; [auto|reflexivity].
  - cbn [map]. rewrite run_from_cons. cbn [snd].
    assert (Hst : state_after cfg st (GReset a) = reset_guard st a).
    { unfold state_after. cbn [step]. unfold reset_guard. destruct (get_g st a); reflexivity. }
    rewrite Hst. assert (Hinv1 : Inv cfg (reset_guard st a)) by (apply inv_reset; assumption).
    destruct (IH (reset_guard st a) Hinv1) as (Hi & Hin & Hkeep & Hlen).
    split; [assumption|]. split; [|split].
    + intros g [<-|HinL] Hlt; [|apply Hin; assumption]. apply Hkeep.
      assert (Hex : exists gd, get_g st a = Some gd).
      { unfold get_g. destruct (nth_error (guards st) a) eqn:E; [eexists; reflexivity|].
        apply nth_error_None in E. rewrite (inv_len _ _ Hinv) in E. lia. }
      destruct Hex as [gd Hgd]. eapply reset_guard_get_same; eassumption.
    + intros g Hg. apply Hkeep. destruct (Nat.eq_dec a g) as [<-|Hne].
      * eapply reset_guard_get_same; eassumption.
      * rewrite reset_guard_get_other; assumption.
    + rewrite Hlen. destruct (get_g st a) as [gd|] eqn:Hgd.
      * rewrite (reset_guard_pool st a gd Hgd). destruct (g_hp gd); [|reflexivity]. cbn [p_release slots]. apply set_nth_length.
      * unfold reset_guard. rewrite Hgd. reflexivity.
Qed.

Lemma held_all_empty gs : (forall g gd, nth_error gs g = Some gd -> gd = empty_guard) -> held gs = [].
Proof.
  induction gs as [|h t IH]; intros Hall; [reflexivity|].
  cbn [held flat_map]. fold (held t). rewrite (Hall 0 h eq_refl). cbn [hpl g_hp empty_guard app].
  apply IH. intros g gd Hg. apply (Hall (S g)). exact Hg.
Qed.

Theorem no_leak_inv cfg st : 1 <= cK cfg -> Inv cfg st ->
  let st' := snd (run_from cfg st (reset_all cfg)) in
  held (guards st') = [] /\
  length (slots (pl st')) = length (slots (pl st)) /\
  Permutation (free_list (pl st')) (seq 0 (length (slots (pl st')))) /\
  length (free_list (pl st')) = length (slots (pl st)).
Proof.
  intros HK Hinv st'. subst st'. unfold reset_all.
  destruct (reset_list_spec cfg HK (seq 0 (cG cfg)) st Hinv) as (Hi & Hin & _ & Hlen).
  set (st' := snd (run_from cfg st (map GReset (seq 0 (cG cfg))))) in *.
  assert (Hheld : held (guards st') = []).
  { apply held_all_empty. intros g gd Hg.
    assert (Hlt : g < cG cfg) by (rewrite <- (inv_len _ _ Hi); eapply nth_error_lt; eassumption).
    specialize (Hin g). unfold get_g in Hin. rewrite Hg in Hin.
    assert (E : Some gd = Some empty_guard) by (apply Hin; [apply in_seq; lia|assumption]). congruence. }
  pose proof (pool_perm _ _ _ (inv_pool _ _ Hi)) as Hp. rewrite Hheld, app_nil_r in Hp.
  split; [assumption|]. split; [assumption|]. split; [assumption|].
  apply Permutation_length in Hp. rewrite seq_length in Hp. congruence.
Qed.

(** after any operation sequence, resetting (destroying) all guards makes all slots available again *)
Theorem no_leak cfg ops : 1 <= cK cfg ->
  let st := snd (run cfg ops) in
  let st' := snd (run_from cfg st (reset_all cfg)) in
  held (guards st') = [] /\
  length (slots (pl st')) = length (slots (pl st)) /\
  Permutation (free_list (pl st')) (seq 0 (length (slots (pl st')))) /\
  length (free_list (pl st')) = length (slots (pl st)).
Proof. intros HK st. apply no_leak_inv; [assumption|apply run_inv; assumption]. Qed.

Example ex_no_leak :
  let cfg := {| cK := 3; cDyn := false; cG := 4 |} in
  let ops := [GAcquire 0 1 0; GCopyCtor 1 0; GCtorPtr 2 5 1; GMoveAssign 3 1; GSwap 0 3; GAcquire 1 2 0] in
  map o_res (fst (run cfg ops)) = [Ok; Ok; Ok; Ok; Ok; Exhausted] /\
  free_list (pl (snd (run cfg ops))) = [] /\
  free_list (pl (snd (run_from cfg (snd (run cfg ops)) (reset_all cfg)))) = [0; 2; 1].
Proof. vm_compute. repeat split. Qed.

(** ** repeated acquire/release never exhausts the slots *)
Lemma alloc_ok cfg st : 1 <= cK cfg -> Inv cfg st -> cDyn cfg = true \/ held_count st < cK cfg ->
  exists i p, p_alloc cfg (pl st) = AOk i p.
Proof.
  intros HK Hinv Hor. pose proof (pool_alloc_not_corrupt _ _ _ HK (inv_pool _ _ Hinv)) as Hnc.
  destruct (p_alloc cfg (pl st)) as [i p| |] eqn:Hal; [eauto| |congruence]. exfalso.
  pose proof (proj1 (pool_alloc_exhausted _ _ _ HK (inv_pool _ _ Hinv)) Hal) as [Hs Hh].
  destruct Hor as [Hd|Hlt]; [congruence|].
  pose proof (proj1 (alloc_exh_iff _ _ HK Hinv Hs) Hal). lia.
Qed.

Theorem repeated_acquire_release_inv cfg g v m : 1 <= cK cfg -> v <> 0 ->
  forall n st, Inv cfg st -> get_g st g = Some empty_guard -> cDyn cfg = true \/ held_count st < cK cfg ->
  Forall (fun o => o_res o = Ok) (fst (run_from cfg st (concat (repeat [GAcquire g v m; GReset g] n)))).
Proof.
  intros HK Hnn. induction n as [|n IH]; intros st Hinv Hg Hor; [constructor|].
  cbn [repeat concat app]. rewrite run_from_cons. cbn [fst].
  assert (Ha : alloc_site st (GAcquire g v m) = Some st).
  { cbn [alloc_site]. rewrite Hg. cbn [g_ptr g_mark g_hp empty_guard]. destruct (Nat.eqb_spec v 0); [contradiction|]. reflexivity. }
  destruct (alloc_site_spec cfg st _ st Ha) as (_ & gd0 & v' & m' & ret & Hg0 & Hi0 & Hstep).
  destruct (alloc_ok cfg st HK Hinv Hor) as (i & p & Hal). rewrite Hal in Hstep. cbn [target] in *.
  pose proof (state_after_inv cfg st (GAcquire g v m) HK Hinv) as Hinv1.
  destruct (alloc_facts cfg st g gd0 i p v' m' HK Hinv Hg0 Hi0 Hal) as (Hget & _ & _ & _ & Hcnt & _).
  unfold outcome_of at 1. unfold state_after in *. rewrite Hstep in *. cbn [fst snd] in *.
  constructor; [reflexivity|].
  set (st1 := protect st p g i v' m') in *.
  rewrite run_from_cons. cbn [fst].
  destruct (reset_returns_slot_inv cfg st1 g _ i HK Hinv1 Hget eq_refl) as (Hok & Hge & _ & _ & Hc2 & _).
  constructor; [exact Hok|].
  apply IH.
  - apply state_after_inv; assumption.
  - exact Hge.
  - destruct Hor as [Hd|Hlt]; [left; assumption|right]. lia.
Qed.

Theorem repeated_acquire_release cfg ops g v m n : 1 <= cK cfg -> v <> 0 ->
  let st := snd (run cfg ops) in
  get_g st g = Some empty_guard -> cDyn cfg = true \/ held_count st < cK cfg ->
  Forall (fun o => o_res o = Ok) (fst (run_from cfg st (concat (repeat [GAcquire g v m; GReset g] n)))).
Proof. intros HK Hn st Hg Hor. apply repeated_acquire_release_inv; try assumption. apply run_inv; assumption. Qed.

Example ex_repeated :
  let cfg := {| cK := 1; cDyn := false; cG := 2 |} in
  map o_res (fst (run cfg (concat (repeat [GAcquire 1 3 0; GReset 1] 50)))) = repeat Ok 100.
Proof. vm_compute. reflexivity. Qed.

(** * the dynamic strategy never throws *)
Lemma dynamic_step cfg st op : 1 <= cK cfg -> cDyn cfg = true -> Inv cfg st ->
  outcome_of cfg st op <> Exhausted /\ (valid_op cfg op -> outcome_of cfg st op = Ok).
Proof.
  intros HK Hd Hinv. destruct (alloc_site st op) as [st0|] eqn:Ha.
  - destruct (alloc_site_spec cfg st op st0 Ha) as (Hst0 & gd0 & v & m & ret & Hg0 & Hi0 & Hstep).
    assert (Hinv0 : Inv cfg st0) by (destruct Hst0 as [->| ->]; [assumption|apply inv_reset; assumption]).
    destruct (alloc_ok cfg st0 HK Hinv0 (or_introl Hd)) as (i & p & Hal).
    unfold outcome_of. rewrite Hstep, Hal. cbn [fst]. split; [discriminate|reflexivity].
  - apply no_alloc_site; [apply (inv_len _ _ Hinv)|assumption].
Qed.

Theorem dynamic_never_exhausted cfg ops : 1 <= cK cfg -> cDyn cfg = true ->
  Forall (fun o => o_res o <> Exhausted) (fst (run cfg ops)) /\
  (Forall (valid_op cfg) ops -> Forall (fun o => o_res o = Ok) (fst (run cfg ops))).
Proof.
  intros HK Hd. split.
  - apply (run_from_Forall cfg (fun _ => True) (fun o => o <> Exhausted) HK).
    + intros st op Hinv _. apply (dynamic_step cfg st op HK Hd Hinv).
    + apply inv_init; assumption.
    + apply Forall_forall. trivial.
  - apply (run_from_Forall cfg (valid_op cfg) (fun o => o = Ok) HK).
    + intros st op Hinv Hv. apply (dynamic_step cfg st op HK Hd Hinv). assumption.
    + apply inv_init; assumption.
Qed.

(** growth rule: K=1: the pool grows 1, 2, 3, 4, 6, 9 (a new block has max(K, total/2) slots) *)
Example ex_dynamic :
  let cfg := {| cK := 1; cDyn := true; cG := 8 |} in
  let r := run cfg [GAcquire 0 1 0; GAcquire 1 1 0; GAcquire 2 1 0; GAcquire 3 1 0; GAcquire 4 1 0; GAcquire 5 1 0;
                    GAcquire 6 1 0; GAcquire 7 1 0] in
  map o_res (fst r) = repeat Ok 8 /\ map o_total (fst r) = [1; 2; 3; 4; 6; 6; 9; 9] /\
  blocks (pl (snd r)) = [1; 1; 1; 2; 3] /\ free_list (pl (snd r)) = [8].
Proof. vm_compute. repeat split. Qed.

(** * K PROTECTING guards are available *)
(** (repaired code: acquire / acquire_if_equal test [p.get() == nullptr]; a guard on a null or marked null pointer is reset
    and holds no hazard pointer.  Before the repair K=1, [GAcquire 0 0 1; GAcquire 1 5 0] was [Ok; Exhausted].) *)
Definition protecting (g : guard) : bool := negb (g_ptr g =? 0).
Definition protecting_count (st : state) : nat := length (filter protecting (guards st)).

Lemma protecting_held gs :
  (forall gd, In gd gs -> (g_hp gd = None -> g_ptr gd = 0) /\ (forall i, g_hp gd = Some i -> g_ptr gd <> 0)) ->
  length (filter protecting gs) = length (held gs).
Proof.
  induction gs as [|h t IH]; intros Hall; [reflexivity|].
  cbn [filter held flat_map]. fold (held t). rewrite app_length. rewrite <- IH by (intros gd Hin; apply Hall; right; assumption).
  destruct (Hall h (or_introl eq_refl)) as [Hn Hs]. unfold protecting, hpl.
  destruct (g_hp h) as [i|] eqn:Hi.
  - specialize (Hs i eq_refl). destruct (Nat.eqb_spec (g_ptr h) 0); [contradiction|]. reflexivity.
  - rewrite (Hn eq_refl). reflexivity.
Qed.

Lemma protecting_count_held cfg st : Inv cfg st -> protecting_count st = held_count st.
Proof.
  intros Hinv. unfold protecting_count, held_count. apply protecting_held. intros gd Hin.
  apply In_nth_error in Hin. destruct Hin as [g Hg]. split.
  - intros Hn. eapply (inv_null _ _ Hinv); eassumption.
  - intros i Hi. eapply (inv_nonnull _ _ Hinv); eassumption.
Qed.

(** the allocation theorem in terms of protecting guards *)
Theorem static_alloc_succeeds_iff_protecting cfg ops op st0 : 1 <= cK cfg -> cDyn cfg = false ->
  let st := snd (run cfg ops) in
  alloc_site st op = Some st0 ->
  (outcome_of cfg st op = Ok <-> protecting_count st0 < cK cfg) /\
  (outcome_of cfg st op = Exhausted <-> protecting_count st0 = cK cfg).
Proof.
  intros HK Hs st Ha. pose proof (run_inv cfg ops HK) as Hinv. fold st in Hinv.
  assert (Hinv0 : Inv cfg st0).
  { destruct (alloc_site_spec cfg st op st0 Ha) as ([->| ->] & _); [assumption|apply inv_reset; assumption]. }
  rewrite (protecting_count_held cfg st0 Hinv0).
  destruct (static_alloc_succeeds_iff_inv cfg st op st0 HK Hs Hinv Ha) as (H1 & H2 & _). split; assumption.
Qed.

(** an acquisition throws only if all K slots are held by guards whose pointer is non-null *)
Theorem K_protecting_guards_inv cfg st op : 1 <= cK cfg -> Inv cfg st ->
  outcome_of cfg st op = Exhausted ->
  let st' := state_after cfg st op in
  cDyn cfg = false /\
  protecting_count st' = cK cfg /\ held_count st' = cK cfg /\
  (forall s, s < cK cfg -> exists g gd, get_g st' g = Some gd /\ g_hp gd = Some s /\ g_ptr gd <> 0 /\
                                        nth_error (slots (pl st')) s = Some (Obj (g_ptr gd))) /\
  (forall g gd, get_g st' g = Some gd -> g_ptr gd = 0 -> g_hp gd = None) /\
  (forall g, g <> target op -> get_g st' g = get_g st g).
Proof.
  intros HK Hinv Hexh st'.
  destruct (exhausted_preserves_existing_inv cfg st op HK Hinv Hexh) as (Hs & _ & Hoth & _ & _ & Hfull & _).
  fold st' in Hoth, Hfull.
  pose proof (state_after_inv cfg st op HK Hinv) as Hinv'. fold st' in Hinv'.
  split; [assumption|]. split; [rewrite (protecting_count_held cfg st' Hinv'); assumption|]. split; [assumption|].
  split; [|split; [|assumption]].
  - intros s Hlt.
    pose proof (inv_facts _ _ Hinv') as F. unfold Facts in F.
    destruct F as (_ & _ & Hfl & _ & _ & _ & _ & Hlen & _ & _ & _ & _ & Hn & _).
    fold (held_count st') in Hlen. rewrite Hfull, (Hn Hs) in Hlen.
    assert (Hnil : free_list (pl st') = []) by (destruct (free_list (pl st')); [reflexivity|cbn [length] in Hlen; lia]).
    assert (Hin : In s (held (guards st'))).
    { destruct (in_dec Nat.eq_dec s (held (guards st'))) as [|Hnin]; [assumption|exfalso].
      assert (Hf : In s (free_list (pl st'))) by (apply Hfl; split; [rewrite (Hn Hs); assumption|assumption]).
      rewrite Hnil in Hf. destruct Hf. }
    apply held_In in Hin. destruct Hin as (g & gd & Hg & Hi). exists g, gd.
    split; [assumption|]. split; [assumption|].
    split; [eapply (inv_nonnull _ _ Hinv'); eassumption|eapply (inv_obj _ _ Hinv'); eassumption].
  - intros g gd Hg Hz. destruct (g_hp gd) as [i|] eqn:Hi; [|reflexivity]. exfalso.
    eapply (inv_nonnull _ _ Hinv'); eassumption.
Qed.

Theorem K_protecting_guards cfg ops op : 1 <= cK cfg ->
  let st := snd (run cfg ops) in
  outcome_of cfg st op = Exhausted ->
  let st' := state_after cfg st op in
  cDyn cfg = false /\
  protecting_count st' = cK cfg /\ held_count st' = cK cfg /\
  (forall s, s < cK cfg -> exists g gd, get_g st' g = Some gd /\ g_hp gd = Some s /\ g_ptr gd <> 0 /\
                                        nth_error (slots (pl st')) s = Some (Obj (g_ptr gd))) /\
  (forall g gd, get_g st' g = Some gd -> g_ptr gd = 0 -> g_hp gd = None) /\
  (forall g, g <> target op -> get_g st' g = get_g st g).
Proof. intros HK st. apply K_protecting_guards_inv; [assumption|apply run_inv; assumption]. Qed.

(** the former counter-example: the guard on the marked null pointer holds no slot, the second guard gets the slot *)
Example ex_K_protecting_guards :
  let cfg := {| cK := 1; cDyn := false; cG := 2 |} in
  map show_out (fst (run cfg [GAcquire 0 0 1; GAcquire 1 5 0; GAcquireIfEqual 0 0 1 0 1; GCopyCtor 0 1]))
  = ["ok ret=0 g=[-:0.1,-:0.0] prot=[] free=[0] total=1";
     "ok ret=0 g=[-:0.1,0:5.0] prot=[5] free=[] total=1";
     "ok ret=1 g=[-:0.1,0:5.0] prot=[5] free=[] total=1";
     "exhausted ret=0 g=[-:0.0,0:5.0] prot=[5] free=[] total=1"]%string.
Proof. vm_compute. reflexivity. Qed.
