(** vyukov_hash_map bucket model with iterators: the abstract map [g_map] is exactly what the bucket holds;
    what the holder of the bucket lock knows; results of the writers and of erase(iterator). *)
From Coq Require Import NArith List Bool Lia PeanoNat.
From XV Require Import Base.Word Conc.Lts Conc.Ev gen.BucketStateGen Proof.BucketState.
From XV Require Import Proof.VhmBase Proof.VhmMem Proof.VhmItBase Proof.VhmItMem Model.VhmItDefs.
Import ListNotations.
Local Open Scope N_scope.

Definition ic (st : state) : N := bs_item_count (bst st).
Definition mk (st : state) : N := bs_delete_marker (bst st).
(** the chain without the head item while that item is a copy of an array slot *)
Definition lchain (st : state) : list N := if g_dup st then tl (g_chain st) else g_chain st.
(** a valid array slot: below the item count and not the slot that is being removed / overwritten *)
Definition vslot (st : state) (j : N) : Prop := j < ic st /\ j + 1 <> mk st.
Definition slot_has (st : state) (k v : N) : Prop := exists j, vslot st j /\ akey st j = k /\ aval st j = v.
Definition item_has (st : state) (k v : N) : Prop := exists x, In x (lchain st) /\ xkey st x = k /\ xval st x = v.

(** the global part: [g_map] = valid slots + chain, all keys pairwise distinct *)
Record G (st : state) : Prop := mkG {
  G_map : forall k v, lookup k (g_map st) = Some v <-> slot_has st k v \/ item_has st k v;
  G_us : forall j j', vslot st j -> vslot st j' -> akey st j = akey st j' -> j = j';
  G_ux : forall x x', In x (lchain st) -> In x' (lchain st) -> xkey st x = xkey st x' -> x = x';
  G_usx : forall j x, vslot st j -> In x (lchain st) -> akey st j <> xkey st x;
  G_full : g_chain st <> [] -> ic st = 3;
  G_dup : g_dup st = true -> exists j, vslot st j /\ akey st j = xkey st (hd 0 (g_chain st)) /\
                                       aval st j = xval st (hd 0 (g_chain st))
}.

Lemma lookup_none_iff st k : G st -> (lookup k (g_map st) = None <-> forall v, ~ (slot_has st k v \/ item_has st k v)).
Proof.
  intros HG. split.
  - intros H v Hc. apply (G_map _ HG) in Hc. congruence.
  - intros H. destruct (lookup k (g_map st)) as [v|] eqn:E; [|reflexivity]. exfalso. apply (H v). apply (G_map _ HG). exact E.
Qed.

(** [G] only depends on the item count, the marker, the valid slots, the logical chain and its items *)
Lemma G_ext st st' : G st -> ic st' = ic st -> mk st' = mk st ->
  (forall j, vslot st j -> akey st' j = akey st j /\ aval st' j = aval st j) ->
  lchain st' = lchain st ->
  (forall x, In x (lchain st) -> xkey st' x = xkey st x /\ xval st' x = xval st x) ->
  g_map st' = g_map st -> (g_chain st' <> [] -> g_chain st <> []) ->
  (g_dup st' = true -> g_dup st = true /\ hd 0 (g_chain st') = hd 0 (g_chain st) /\
     xkey st' (hd 0 (g_chain st)) = xkey st (hd 0 (g_chain st)) /\ xval st' (hd 0 (g_chain st)) = xval st (hd 0 (g_chain st))) ->
  G st'.
Proof.
  intros HG Eic Emk Hs El Hx Em Hc Hd.
  assert (Hv : forall j, vslot st' j <-> vslot st j) by (intros j; unfold vslot; rewrite Eic, Emk; tauto).
  assert (Hsh : forall k v, slot_has st' k v <-> slot_has st k v).
  { intros k v. split; intros (j & H1 & H2 & H3); exists j.
    - apply Hv in H1. destruct (Hs j H1) as [E1 E2]. rewrite <- E1, <- E2. tauto.
    - destruct (Hs j H1) as [E1 E2]. rewrite E1, E2. apply Hv in H1. tauto. }
  assert (Hih : forall k v, item_has st' k v <-> item_has st k v).
  { intros k v. unfold item_has. rewrite El. split; intros (x & H1 & H2 & H3); exists x; destruct (Hx x H1) as [E1 E2].
    - rewrite <- E1, <- E2. tauto.
    - rewrite E1, E2. tauto. }
  constructor.
  - intros k v. rewrite Em, Hsh, Hih. apply (G_map _ HG).
  - intros j j' H1 H2. apply Hv in H1. apply Hv in H2. destruct (Hs j H1) as [-> _]. destruct (Hs j' H2) as [-> _].
    apply (G_us _ HG); assumption.
  - rewrite El. intros x x' H1 H2. destruct (Hx x H1) as [-> _]. destruct (Hx x' H2) as [-> _]. apply (G_ux _ HG); assumption.
  - rewrite El. intros j x H1 H2. apply Hv in H1. destruct (Hs j H1) as [-> _]. destruct (Hx x H2) as [-> _].
    apply (G_usx _ HG); assumption.
  - intros H. rewrite Eic. apply (G_full _ HG). apply Hc. exact H.
  - intros H. destruct (Hd H) as (H1 & H2 & H3 & H4). destruct (G_dup _ HG H1) as (j & J1 & J2 & J3).
    exists j. rewrite H2, H3, H4. destruct (Hs j J1) as [-> ->]. apply Hv in J1. tauto.
Qed.

Lemma lchain_nodup st : g_dup st = false -> lchain st = g_chain st.
Proof. unfold lchain. intros ->. reflexivity. Qed.

(** insertion into the array: the unlocking store publishes slot [c] *)
Lemma G_ins_slot st st' c k v : G st -> mk st = 0 -> ic st = c -> c < 3 -> ic st' = c + 1 -> mk st' = 0 ->
  akey st' = akey st -> aval st' = aval st -> xkey st' = xkey st -> xval st' = xval st ->
  g_chain st' = g_chain st -> g_dup st' = g_dup st -> g_dup st = false ->
  akey st c = k -> aval st c = v -> lookup k (g_map st) = None -> g_map st' = (k, v) :: g_map st -> G st'.
Proof.
  intros HG Hmk Hic Hc Hic' Hmk' Ea Eb Exk Exv Ech Ed Hd Hk Hv Habs Em.
  assert (Hl : lchain st' = lchain st) by (unfold lchain; rewrite Ed, Ech; reflexivity).
  assert (Hvs : forall j, vslot st' j <-> vslot st j \/ j = c).
  { intros j. unfold vslot. rewrite Hic', Hmk', Hic, Hmk. lia. }
  assert (Hnv : ~ vslot st c) by (unfold vslot; lia).
  pose proof (proj1 (lookup_none_iff _ k HG) Habs) as Hno.
  constructor.
  - intros k0 v0. rewrite Em, lookup_cons. unfold slot_has, item_has. rewrite Hl, Ea, Eb, Exk, Exv.
    destruct (N.eqb_spec k k0) as [<-|Hne].
    + split.
      * intros E. injection E as <-. left. exists c. rewrite Hvs. tauto.
      * intros [(j & H1 & H2 & H3)|H].
        -- apply Hvs in H1. destruct H1 as [H1| ->]; [|congruence]. exfalso. apply (Hno v0). left. exists j. tauto.
        -- exfalso. apply (Hno v0). right. exact H.
    + rewrite (G_map _ HG). unfold slot_has, item_has. split.
      * intros [(j & H1 & H2 & H3)|H]; [left; exists j; rewrite Hvs; tauto | right; exact H].
      * intros [(j & H1 & H2 & H3)|H]; [|right; exact H]. apply Hvs in H1. destruct H1 as [H1| ->]; [left; exists j; tauto | congruence].
  - intros j j'. rewrite !Hvs, Ea. intros [H1| ->] [H2| ->] E; try reflexivity.
    + apply (G_us _ HG); assumption.
    + exfalso. apply (Hno (aval st j)). left. exists j. rewrite E, Hk. tauto.
    + exfalso. apply (Hno (aval st j')). left. exists j'. rewrite <- E, Hk. tauto.
  - rewrite Hl, Exk. apply (G_ux _ HG).
  - rewrite Hl, Exk, Ea. intros j x. rewrite Hvs. intros [H1| ->] H2; [apply (G_usx _ HG); assumption|].
    intros E. apply (Hno (xval st x)). right. exists x. rewrite <- E, Hk. tauto.
  - rewrite Ech. intros H. apply (G_full _ HG) in H. lia.
  - rewrite Ed, Hd. discriminate.
Qed.

(** insertion of an extension item: the store to head publishes item [n] *)
Lemma G_ins_item st st' n k v : G st -> ic st' = ic st -> mk st' = mk st -> ic st = 3 ->
  akey st' = akey st -> aval st' = aval st -> xkey st' = xkey st -> xval st' = xval st ->
  g_chain st' = n :: g_chain st -> g_dup st' = false -> g_dup st = false ->
  xkey st n = k -> xval st n = v -> lookup k (g_map st) = None -> g_map st' = (k, v) :: g_map st -> G st'.
Proof.
  intros HG Hic Hmk H3 Ea Eb Exk Exv Ech Ed' Ed Hk Hv Habs Em.
  assert (Hl : lchain st = g_chain st) by (apply lchain_nodup; exact Ed).
  assert (Hl' : lchain st' = n :: g_chain st) by (rewrite lchain_nodup by exact Ed'; exact Ech).
  assert (Hvs : forall j, vslot st' j <-> vslot st j) by (intros j; unfold vslot; rewrite Hic, Hmk; tauto).
  pose proof (proj1 (lookup_none_iff _ k HG) Habs) as Hno.
  constructor.
  - intros k0 v0. rewrite Em, lookup_cons. unfold slot_has, item_has. rewrite Hl', Ea, Eb, Exk, Exv.
    destruct (N.eqb_spec k k0) as [<-|Hne].
    + split.
      * intros E. injection E as <-. right. exists n. split; [left; reflexivity | tauto].
      * intros [(j & H1 & H2 & H4)|(x & [<-|H1] & H2 & H4)].
        -- apply Hvs in H1. exfalso. apply (Hno v0). left. exists j. tauto.
        -- congruence.
        -- exfalso. apply (Hno v0). right. exists x. rewrite Hl. tauto.
    + rewrite (G_map _ HG). unfold slot_has, item_has. rewrite Hl. split.
      * intros [(j & H1 & H2 & H4)|(x & H1 & H2 & H4)]; [left; exists j; rewrite Hvs; tauto | right; exists x; split; [right; exact H1|tauto]].
      * intros [(j & H1 & H2 & H4)|(x & [<-|H1] & H2 & H4)]; [left; exists j; rewrite <- Hvs; tauto | congruence | right; exists x; tauto].
  - intros j j'. rewrite !Hvs, Ea. apply (G_us _ HG).
  - rewrite Hl', Exk. intros x x' [<-|H1] [<-|H2] E; try reflexivity.
    + exfalso. apply (Hno (xval st x')). right. exists x'. rewrite Hl, <- E, Hk. tauto.
    + exfalso. apply (Hno (xval st x)). right. exists x. rewrite Hl, E, Hk. tauto.
    + apply (G_ux _ HG); rewrite ?Hl; assumption.
  - rewrite Hl', Exk, Ea. intros j x. rewrite Hvs. intros H1 [<-|H2].
    + intros E. apply (Hno (aval st j)). left. exists j. rewrite E, Hk. tauto.
    + apply (G_usx _ HG); rewrite ?Hl; assumption.
  - intros _. rewrite Hic. exact H3.
  - rewrite Ed'. discriminate.
Qed.

(** removal from the array: the store of the delete marker hides slot [i] *)
Lemma G_mark st st' i k : G st -> mk st = 0 -> i < ic st -> mk st' = i + 1 -> ic st' = ic st ->
  akey st' = akey st -> aval st' = aval st -> xkey st' = xkey st -> xval st' = xval st ->
  g_chain st' = g_chain st -> g_dup st' = g_dup st -> g_dup st = false ->
  akey st i = k -> g_map st' = rem k (g_map st) -> G st'.
Proof.
  intros HG Hmk Hi Hmk' Hic Ea Eb Exk Exv Ech Ed Hd Hk Em.
  assert (Hl : lchain st' = lchain st) by (unfold lchain; rewrite Ed, Ech; reflexivity).
  assert (Hvs : forall j, vslot st' j <-> vslot st j /\ j <> i).
  { intros j. unfold vslot. rewrite Hic, Hmk', Hmk. lia. }
  assert (Hvi : vslot st i) by (unfold vslot; lia).
  constructor.
  - intros k0 v0. rewrite Em, lookup_rem. unfold slot_has, item_has. rewrite Hl, Ea, Eb, Exk, Exv.
    destruct (N.eqb_spec k0 k) as [->|Hne].
    + split; [discriminate|]. intros [(j & H1 & H2 & H3)|(x & H1 & H2 & H3)]; exfalso.
      * apply Hvs in H1. destruct H1 as [H1 H1']. apply H1'. apply (G_us _ HG); congruence.
      * apply (G_usx _ HG i x Hvi H1). congruence.
    + rewrite (G_map _ HG). unfold slot_has, item_has. split.
      * intros [(j & H1 & H2 & H3)|H]; [|right; exact H]. left. exists j. rewrite Hvs. split; [split; [exact H1 | intros ->; congruence] | tauto].
      * intros [(j & H1 & H2 & H3)|H]; [|right; exact H]. left. exists j. apply Hvs in H1. tauto.
  - intros j j'. rewrite !Hvs, Ea. intros [H1 _] [H2 _]. apply (G_us _ HG); assumption.
  - rewrite Hl, Exk. apply (G_ux _ HG).
  - rewrite Hl, Exk, Ea. intros j x. rewrite Hvs. intros [H1 _]. apply (G_usx _ HG). exact H1.
  - rewrite Ech, Hic. apply (G_full _ HG).
  - rewrite Ed, Hd. discriminate.
Qed.

(** first version increment of a removal that back-filled slot [i] from the head item [x]: the marker is
    cleared, slot [i] is valid again and the head item becomes a copy *)
Lemma G_dupon st st' i x r : G st -> NoDup (g_chain st) -> mk st = i + 1 -> i < ic st -> mk st' = 0 -> ic st' = ic st ->
  akey st' = akey st -> aval st' = aval st -> xkey st' = xkey st -> xval st' = xval st ->
  g_chain st' = g_chain st -> g_chain st = x :: r -> g_dup st = false -> g_dup st' = true ->
  akey st i = xkey st x -> aval st i = xval st x -> g_map st' = g_map st -> G st'.
Proof.
  intros HG Hnd Hmk Hi Hmk' Hic Ea Eb Exk Exv Ech Ec Hd Hd' Hk Hv Em.
  assert (Hl : lchain st = x :: r) by (rewrite lchain_nodup by exact Hd; exact Ec).
  assert (Hl' : lchain st' = r) by (unfold lchain; rewrite Hd', Ech, Ec; reflexivity).
  assert (Hvs : forall j, vslot st' j <-> vslot st j \/ j = i).
  { intros j. unfold vslot. rewrite Hic, Hmk', Hmk. lia. }
  assert (Hnv : ~ vslot st i) by (unfold vslot; lia).
  assert (Hxl : In x (lchain st)) by (rewrite Hl; left; reflexivity).
  assert (Hrl : forall y, In y r -> In y (lchain st)) by (intros y Hy; rewrite Hl; right; exact Hy).
  assert (Hxr : ~ In x r) by (rewrite Ec in Hnd; inversion Hnd; assumption).
  constructor.
  - intros k0 v0. rewrite Em, (G_map _ HG). unfold slot_has, item_has. rewrite Hl, Hl', Ea, Eb, Exk, Exv. split.
    + intros [(j & H1 & H2 & H3)|(y & [<-|H1] & H2 & H3)].
      * left. exists j. rewrite Hvs. tauto.
      * left. exists i. rewrite Hvs. split; [right; reflexivity | split; congruence].
      * right. exists y. tauto.
    + intros [(j & H1 & H2 & H3)|(y & H1 & H2 & H3)].
      * apply Hvs in H1. destruct H1 as [H1| ->]; [left; exists j; tauto|]. right. exists x. split; [left; reflexivity | split; congruence].
      * right. exists y. split; [right; exact H1 | tauto].
  - intros j j'. rewrite !Hvs, Ea. intros [H1| ->] [H2| ->] E; try reflexivity.
    + apply (G_us _ HG); assumption.
    + exfalso. apply (G_usx _ HG j x H1 Hxl). congruence.
    + exfalso. apply (G_usx _ HG j' x H2 Hxl). congruence.
  - rewrite Hl', Exk. intros y y' H1 H2. apply (G_ux _ HG); auto.
  - rewrite Hl', Exk, Ea. intros j y. rewrite Hvs. intros [H1| ->] H2; [apply (G_usx _ HG); auto|].
    rewrite Hk. intros E. assert (x = y) by (apply (G_ux _ HG); auto). subst y. contradiction.
  - rewrite Ech, Hic. apply (G_full _ HG).
  - intros _. exists i. rewrite Hvs, Ea, Eb, Exk, Exv, Ech, Ec. cbn [hd]. tauto.
Qed.

(** unlocking store of a removal that back-filled slot [i] from the last slot *)
Lemma G_dec_moved st st' i : G st -> mk st = i + 1 -> i < ic st - 1 -> ic st' = ic st - 1 -> mk st' = 0 ->
  akey st' = akey st -> aval st' = aval st -> xkey st' = xkey st -> xval st' = xval st ->
  g_chain st' = g_chain st -> g_chain st = [] -> g_dup st' = false ->
  akey st i = akey st (ic st - 1) -> aval st i = aval st (ic st - 1) -> g_map st' = g_map st -> G st'.
Proof.
  intros HG Hmk Hi Hic Hmk' Ea Eb Exk Exv Ech Ec Hd Hk Hv Em.
  assert (Hl : lchain st = []) by (unfold lchain; rewrite Ec; destruct (g_dup st); reflexivity).
  assert (Hl' : lchain st' = []) by (unfold lchain; rewrite Ech, Ec; destruct (g_dup st'); reflexivity).
  set (c := ic st - 1) in *.
  assert (Hvs : forall j, vslot st' j <-> (vslot st j /\ j <> c) \/ j = i).
  { intros j. unfold vslot. rewrite Hic, Hmk', Hmk. lia. }
  assert (Hvc : vslot st c) by (unfold vslot; lia).
  constructor.
  - intros k0 v0. rewrite Em, (G_map _ HG). unfold slot_has, item_has. rewrite Hl, Hl', Ea, Eb. split.
    + intros [(j & H1 & H2 & H3)|(y & [] & _)]. left. destruct (N.eq_dec j c) as [->|Hne].
      * exists i. rewrite Hvs. split; [right; reflexivity | split; congruence].
      * exists j. rewrite Hvs. tauto.
    + intros [(j & H1 & H2 & H3)|(y & [] & _)]. left. apply Hvs in H1. destruct H1 as [[H1 _]| ->].
      * exists j. tauto.
      * exists c. split; [exact Hvc | split; congruence].
  - intros j j'. rewrite !Hvs, Ea. intros [[H1 H1']| ->] [[H2 H2']| ->] E; try reflexivity.
    + apply (G_us _ HG); assumption.
    + exfalso. apply H1'. apply (G_us _ HG); congruence.
    + exfalso. apply H2'. apply (G_us _ HG); congruence.
  - rewrite Hl'. intros y y' [].
  - rewrite Hl'. intros j y _ [].
  - rewrite Ech, Ec. intros H. contradiction.
  - rewrite Hd. discriminate.
Qed.

(** unlocking store of a removal of the last slot *)
Lemma G_dec_last st st' i k : G st -> mk st = 0 -> 0 < ic st -> i = ic st - 1 -> ic st' = ic st - 1 -> mk st' = 0 ->
  akey st' = akey st -> aval st' = aval st -> xkey st' = xkey st -> xval st' = xval st ->
  g_chain st' = g_chain st -> g_chain st = [] -> g_dup st' = false ->
  akey st i = k -> g_map st' = rem k (g_map st) -> G st'.
Proof.
  intros HG Hmk Hpos Hi Hic Hmk' Ea Eb Exk Exv Ech Ec Hd Hk Em.
  assert (Hl : lchain st = []) by (unfold lchain; rewrite Ec; destruct (g_dup st); reflexivity).
  assert (Hl' : lchain st' = []) by (unfold lchain; rewrite Ech, Ec; destruct (g_dup st'); reflexivity).
  assert (Hvs : forall j, vslot st' j <-> vslot st j /\ j <> i).
  { intros j. unfold vslot. rewrite Hic, Hmk', Hmk. lia. }
  assert (Hvi : vslot st i) by (unfold vslot; lia).
  constructor.
  - intros k0 v0. rewrite Em, lookup_rem. unfold slot_has, item_has. rewrite Hl', Ea, Eb.
    destruct (N.eqb_spec k0 k) as [->|Hne].
    + split; [discriminate|]. intros [(j & H1 & H2 & H3)|(x & [] & _)]. exfalso.
      apply Hvs in H1. destruct H1 as [H1 H1']. apply H1'. apply (G_us _ HG); congruence.
    + rewrite (G_map _ HG). unfold slot_has, item_has. rewrite Hl. split.
      * intros [(j & H1 & H2 & H3)|(x & [] & _)]. left. exists j. rewrite Hvs. split; [split; [exact H1 | intros ->; congruence] | tauto].
      * intros [(j & H1 & H2 & H3)|(x & [] & _)]. left. exists j. apply Hvs in H1. tauto.
  - intros j j'. rewrite !Hvs, Ea. intros [H1 _] [H2 _]. apply (G_us _ HG); assumption.
  - rewrite Hl'. intros y y' [].
  - rewrite Hl'. intros j y _ [].
  - rewrite Ech, Ec. intros H. contradiction.
  - rewrite Hd. discriminate.
Qed.

(** removal of an extension item: the store to the predecessor's link *)
Lemma G_unlink st st' x k : G st -> ic st' = ic st -> mk st' = mk st ->
  akey st' = akey st -> aval st' = aval st -> xkey st' = xkey st -> xval st' = xval st ->
  g_chain st' = remx x (g_chain st) -> In x (g_chain st) -> g_dup st' = false -> g_dup st = false ->
  xkey st x = k -> g_map st' = rem k (g_map st) -> G st'.
Proof.
  intros HG Hic Hmk Ea Eb Exk Exv Ech Hx Hd' Hd Hk Em.
  assert (Hl : lchain st = g_chain st) by (apply lchain_nodup; exact Hd).
  assert (Hl' : lchain st' = remx x (g_chain st)) by (rewrite lchain_nodup by exact Hd'; exact Ech).
  assert (Hvs : forall j, vslot st' j <-> vslot st j) by (intros j; unfold vslot; rewrite Hic, Hmk; tauto).
  assert (Hxl : In x (lchain st)) by (rewrite Hl; exact Hx).
  constructor.
  - intros k0 v0. rewrite Em, lookup_rem. unfold slot_has, item_has. rewrite Hl', Ea, Eb, Exk, Exv.
    destruct (N.eqb_spec k0 k) as [->|Hne].
    + split; [discriminate|]. intros [(j & H1 & H2 & H3)|(y & H1 & H2 & H3)]; exfalso.
      * apply Hvs in H1. apply (G_usx _ HG j x H1 Hxl). congruence.
      * apply in_remx in H1. destruct H1 as [H1 H1']. apply H1'. apply (G_ux _ HG); rewrite ?Hl; congruence.
    + rewrite (G_map _ HG). unfold slot_has, item_has. rewrite Hl. split.
      * intros [(j & H1 & H2 & H3)|(y & H1 & H2 & H3)]; [left; exists j; rewrite Hvs; tauto|].
        right. exists y. rewrite in_remx. split; [split; [exact H1 | intros ->; congruence] | tauto].
      * intros [(j & H1 & H2 & H3)|(y & H1 & H2 & H3)]; [left; exists j; rewrite <- Hvs; tauto|].
        right. exists y. apply in_remx in H1. tauto.
  - intros j j'. rewrite !Hvs, Ea. apply (G_us _ HG).
  - rewrite Hl', Exk. intros y y' H1 H2. apply in_remx in H1. apply in_remx in H2. apply (G_ux _ HG); rewrite Hl; tauto.
  - rewrite Hl', Exk, Ea. intros j y. rewrite Hvs. intros H1 H2. apply in_remx in H2. apply (G_usx _ HG); rewrite ?Hl; tauto.
  - rewrite Hic. intros _. apply (G_full _ HG). intros E. rewrite E in Hx. destruct Hx.
  - rewrite Hd'. discriminate.
Qed.

(** * what the holder of the bucket lock knows *)
Definition noslot (st : state) (s k : N) : Prop := forall j, j < bs_item_count s -> akey st j <> k.
Definition ahead (st : state) (k x : N) : Prop :=
  forall y, In y (g_chain st) -> xkey st y = k -> In y (from x (g_chain st)).
Definition ahead' (st : state) (k x : N) : Prop :=
  forall y, In y (g_chain st) -> xkey st y = k -> In y (tl (from x (g_chain st))).
Definition absent (st : state) (k : N) : Prop := lookup k (g_map st) = None.

(** the operation an iterator program point belongs to; erase(iterator) results carry the erased key *)
Definition itop (o : op) (w : option N) : Prop :=
  match o with
  | OItf _ | OItb | OItn | OItd => w = None
  | OIte => w <> None
  | _ => False
  end.

Definition pc_abs (st : state) (t : nat) (p : pc) : Prop :=
  match p with
  | IK _ k _ _ i => forall j, j < i -> akey st j <> k
  | IV _ k _ _ i => akey st i = k
  | IUold a k _ _ r => exists r', lookup k (g_map st) = Some r' /\ (a = true -> r' = r)
  | ISK _ k _ _ => absent st k
  | ISV _ k _ s => absent st k /\ akey st (bs_item_count s) = k
  | IUnew _ k v s => absent st k /\ akey st (bs_item_count s) = k /\ aval st (bs_item_count s) = v
  | IH _ k _ s => noslot st s k
  | IXK _ k _ s x => noslot st s k /\ ahead st k x
  | IXV _ k _ _ x => xkey st x = k
  | IXN _ k _ s x => noslot st s k /\ ahead' st k x
  | A1 _ k _ _ _ | A2 _ k _ _ _ | A3 _ k _ _ _ | A4 _ k _ _ _ | A4u _ k _ _ _ | A5 _ k _ _ _ | A6 _ k _ _ _ _
  | A7 _ k _ _ _ | IXSK _ k _ _ _ => absent st k
  | IXSV _ k _ _ n => absent st k /\ xkey st n = k
  | IXH _ k v _ n | IXSN _ k v _ n _ | IXSH _ k v _ n => absent st k /\ xkey st n = k /\ xval st n = v
  | IUnew2 _ _ _ _ => g_lp st t = Some None
  | XK _ k _ i => forall j, j < i -> akey st j <> k
  | XV _ k _ i => akey st i = k
  | XH _ k _ i r | XA1 _ k _ i r _ | XB1 _ k _ i r => akey st i = k /\ aval st i = r
  | XA2 _ _ _ _ r _ => g_lp st t = Some (Some r)
  | XA3 _ _ _ _ r x kk => g_lp st t = Some (Some r) /\ kk = xkey st x
  | XA4 _ _ _ _ r x kk vv => g_lp st t = Some (Some r) /\ kk = xkey st x /\ vv = xval st x
  | XA5 _ _ _ i r x vv => g_lp st t = Some (Some r) /\ akey st i = xkey st x /\ vv = xval st x
  | XA6 _ _ _ i r x | XA7 _ _ _ i r x | XA8 _ _ _ i r x _ =>
    g_lp st t = Some (Some r) /\ akey st i = xkey st x /\ aval st i = xval st x
  | XA9 _ _ _ r _ => g_lp st t = Some (Some r)
  | XB2 _ _ _ _ r => g_lp st t = Some (Some r)
  | XB3 _ _ s _ r kk => g_lp st t = Some (Some r) /\ kk = akey st (bs_item_count s - 1)
  | XB4 _ _ s _ r kk vv =>
    g_lp st t = Some (Some r) /\ kk = akey st (bs_item_count s - 1) /\ vv = aval st (bs_item_count s - 1)
  | XB5 _ _ s i r vv =>
    g_lp st t = Some (Some r) /\ akey st i = akey st (bs_item_count s - 1) /\ vv = aval st (bs_item_count s - 1)
  | XB6 _ k s i r =>
    if i =? bs_item_count s - 1 then akey st i = k /\ aval st i = r
    else g_lp st t = Some (Some r) /\ akey st i = akey st (bs_item_count s - 1) /\
         aval st i = aval st (bs_item_count s - 1)
  | XHH _ k s => noslot st s k
  | XXK _ k s _ x => noslot st s k /\ ahead st k x
  | XXV _ k _ _ x => xkey st x = k
  | XXN _ k _ _ x r | XXP _ k _ _ x r _ => xkey st x = k /\ xval st x = r
  | XXU _ _ _ _ r => g_lp st t = Some (Some r)
  | XXM _ k s x => noslot st s k /\ ahead' st k x
  | XU _ k _ => absent st k
  | F1 _ _ r _ | F2 _ _ r _ | F3 _ _ r _ | F4 _ _ r _ _ | F5 _ _ r _ | F6 _ _ r _ => g_lp st t = Some (Some r)
  (* find *)
  | FK k _ i => forall j, j < i -> akey st j <> k
  | FH k s => noslot st s k
  | FXK k s _ x => noslot st s k /\ ahead st k x
  | FXN k s x => noslot st s k /\ ahead' st k x
  (* erase(iterator): [w], [v] = the pair at the iterator's position *)
  | EV (It _ idx x _) kk => if x =? 0 then akey st idx = kk else xkey st x = kk
  | EX1 (It _ _ x _) w v | EX2 (It _ _ x _) w v _ => xkey st x = w /\ xval st x = v
  | EA0 (It _ idx _ _) w v | EA1 (It _ idx _ _) w v _ | EB1 (It _ idx _ _) w v => akey st idx = w /\ aval st idx = v
  | EX3 _ _ v _ | EA2 _ _ v _ | EA9 _ _ v _ | EB2 _ _ v => g_lp st t = Some (Some v)
  | EA3 _ _ v h kk => g_lp st t = Some (Some v) /\ kk = xkey st h
  | EA4 _ _ v h kk vv => g_lp st t = Some (Some v) /\ kk = xkey st h /\ vv = xval st h
  | EA5 (It _ idx _ _) _ v h vv => g_lp st t = Some (Some v) /\ akey st idx = xkey st h /\ vv = xval st h
  | EA6 (It _ idx _ _) _ v h | EA7 (It _ idx _ _) _ v h | EA8 (It _ idx _ _) _ v h _ =>
    g_lp st t = Some (Some v) /\ akey st idx = xkey st h /\ aval st idx = xval st h
  | EB3 (It s _ _ _) _ v kk => g_lp st t = Some (Some v) /\ kk = akey st (bs_item_count s - 1)
  | EB4 (It s _ _ _) _ v kk vv =>
    g_lp st t = Some (Some v) /\ kk = akey st (bs_item_count s - 1) /\ vv = aval st (bs_item_count s - 1)
  | EB5 (It s idx _ _) _ v vv =>
    g_lp st t = Some (Some v) /\ akey st idx = akey st (bs_item_count s - 1) /\ vv = aval st (bs_item_count s - 1)
  | EB6 (It s idx _ _) w v =>
    if idx =? bs_item_count s - 1 then akey st idx = w /\ aval st idx = v
    else g_lp st t = Some (Some v) /\ akey st idx = akey st (bs_item_count s - 1) /\
         aval st idx = aval st (bs_item_count s - 1)
  | EB7 _ _ | IF1 _ _ _ _ | IF2 _ _ _ _ | IF3 _ _ _ _ | IF4 _ _ _ _ _ | IF5 _ _ _ _ | IF6 _ _ _ _ =>
    exists v, g_lp st t = Some (Some v)
  | SK o w _ | SV o w _ _ | MN1 o w _ _ | MN2 o w _ _ _ | MN3 o w _ _ _ | ME o w =>
    itop o w /\ match w with Some _ => exists v, g_lp st t = Some (Some v) | None => True end
  | N1 o _ | N2 o _ => itop o None
  | _ => True
  end.

(** results of the completed writer calls against the value [g_map] gave the key at the linearization point *)
Definition hist_ok_w (h : hrec) : Prop :=
  match h_op h with
  | OIns _ _ => (h_res h = [0; 1] /\ h_wit h = Some None) \/ (h_res h = [0; 0] /\ exists r, h_wit h = Some (Some r))
  | OGetIns _ v => (h_res h = [1; 1; v] /\ h_wit h = Some None) \/ (exists r, h_res h = [1; 0; r] /\ h_wit h = Some (Some r))
  | ODel _ => (h_res h = [2; 1] /\ exists r, h_wit h = Some (Some r)) \/ (h_res h = [2; 0] /\ h_wit h = Some None)
  | OExt _ => (exists r, h_res h = [3; 1; r] /\ h_wit h = Some (Some r)) \/ (h_res h = [3; 0] /\ h_wit h = Some None)
  | OIte => h_res h = [6; 2] \/ exists v, h_wit h = Some (Some v)
  | _ => True
  end.

Lemma abs_frame st st' t p : pc_abs st t p ->
  akey st' = akey st -> aval st' = aval st -> xkey st' = xkey st -> xval st' = xval st ->
  g_chain st' = g_chain st -> g_map st' = g_map st -> g_lp st' t = g_lp st t -> pc_abs st' t p.
Proof.
  intros H E1 E2 E3 E4 E5 E6 E7.
  destruct p; repeat match goal with i : itpos |- _ => destruct i | w : option N |- _ => destruct w end; cbn [pc_abs] in *; unfold noslot, ahead, ahead', absent in *; rewrite ?E1, ?E2, ?E3, ?E4, ?E5, ?E6, ?E7; exact H.
Qed.

(** program points outside the bucket lock only refer to the thread's own [g_lp] *)
Lemma abs_unlocked st st' t p : pc_bst p = None -> pc_abs st t p -> g_lp st' t = g_lp st t -> pc_abs st' t p.
Proof. intros Hb H E. destruct p; repeat match goal with i : itpos |- _ => destruct i | w : option N |- _ => destruct w end; cbn [pc_bst pc_abs] in *; try discriminate; rewrite ?E; exact H. Qed.

Lemma ic_locked s : bs_item_count (bs_locked s) = bs_item_count s.
Proof. apply bs_locked_item_count. Qed.
Lemma mk_locked s : bs_delete_marker (bs_locked s) = bs_delete_marker s.
Proof. apply bs_locked_delete_marker. Qed.

Lemma wf_fields s : wf_s s ->
  bs_item_count (bs_locked s) = bs_item_count s /\ bs_delete_marker (bs_locked s) = 0 /\
  (forall i, i < bs_item_count s -> bs_item_count (mark s i) = bs_item_count s /\ bs_delete_marker (mark s i) = i + 1) /\
  bs_item_count (bs_new_version (bs_locked s)) = bs_item_count s /\ bs_delete_marker (bs_new_version (bs_locked s)) = 0 /\
  bs_item_count (bs_clear_lock (bs_new_version (bs_new_version (bs_locked s)))) = bs_item_count s /\
  bs_delete_marker (bs_clear_lock (bs_new_version (bs_new_version (bs_locked s)))) = 0 /\
  bs_item_count (bs_new_version s) = bs_item_count s /\ bs_delete_marker (bs_new_version s) = 0 /\
  bs_delete_marker s = 0 /\
  (bs_item_count s < 3 -> bs_item_count (bs_inc_item_count s) = bs_item_count s + 1 /\ bs_delete_marker (bs_inc_item_count s) = 0) /\
  (0 < bs_item_count s -> bs_item_count (bs_dec_item_count (bs_new_version s)) = bs_item_count s - 1 /\
                          bs_delete_marker (bs_dec_item_count (bs_new_version s)) = 0).
Proof.
  intros Hwf. pose proof (wf_W _ Hwf) as Hs. destruct Hwf as (Hw1 & Hw2 & Hw3 & Hw4).
  pose proof (W_locked _ _ _ _ _ Hs) as HWl. pose proof (W_nv _ _ _ _ _ HWl) as HWn. pose proof (W_nv _ _ _ _ _ HWn) as HWnn.
  pose proof (W_clear _ _ _ _ HWnn) as HWc. pose proof (W_nv _ _ _ _ _ Hs) as HWv.
  repeat match goal with |- _ /\ _ => split end; try (unfold W in *; tauto).
  - intros i Hi. unfold mark. pose proof (W_mark _ _ _ _ (i + 1) HWl ltac:(lia)) as HWm. unfold W in HWm. tauto.
  - intros Hc. pose proof (W_inc _ _ _ _ _ Hs Hc) as HWi. unfold W in HWi. tauto.
  - intros Hc. pose proof (W_dec _ _ _ _ _ HWv Hc) as HWd. unfold W in HWd. tauto.
Qed.

Lemma wf_fields2 s : wf_s s ->
  bs_item_count (bs_locked (bs_new_version s)) = bs_item_count s /\ bs_delete_marker (bs_locked (bs_new_version s)) = 0 /\
  bs_item_count (bs_new_version (bs_new_version (bs_locked s))) = bs_item_count s /\
  bs_delete_marker (bs_new_version (bs_new_version (bs_locked s))) = 0 /\
  (0 < bs_item_count s -> bs_item_count (bs_locked (bs_dec_item_count (bs_new_version s))) = bs_item_count s - 1 /\
                          bs_delete_marker (bs_locked (bs_dec_item_count (bs_new_version s))) = 0).
Proof.
  intros Hwf. pose proof (wf_W _ Hwf) as Hs.
  pose proof (W_locked _ _ _ _ _ (W_nv _ _ _ _ _ Hs)) as H1.
  pose proof (W_nv _ _ _ _ _ (W_nv _ _ _ _ _ (W_locked _ _ _ _ _ Hs))) as H2.
  rsplit; try (unfold W in *; tauto).
  intros Hc. pose proof (W_locked _ _ _ _ _ (W_dec _ _ _ _ _ (W_nv _ _ _ _ _ Hs) Hc)) as H3. unfold W in H3. tauto.
Qed.

Lemma chain_nil st : Mem st -> bhead st = 0 -> g_chain st = [].
Proof.
  intros HM H0. pose proof (M_chd _ HM) as Hchd. pose proof (M_cok _ HM) as Hcok.
  destruct (g_chain st) as [|n l]; [reflexivity|]. cbn [hd] in Hchd.
  assert (Hin : item_ok n) by (apply Hcok; left; reflexivity). unfold item_ok in Hin. lia.
Qed.

Lemma own_slot st j k : G st -> mk st = 0 -> j < ic st -> akey st j = k -> lookup k (g_map st) = Some (aval st j).
Proof.
  intros HG Hmk Hj Hk. apply (G_map _ HG). left. exists j. unfold vslot. rewrite Hmk. split; [split; [exact Hj | lia] | split; [exact Hk | reflexivity]].
Qed.
Lemma own_item st x k : G st -> g_dup st = false -> In x (g_chain st) -> xkey st x = k ->
  lookup k (g_map st) = Some (xval st x).
Proof.
  intros HG Hd Hx Hk. apply (G_map _ HG). right. exists x. rewrite lchain_nodup by exact Hd. tauto.
Qed.
Lemma own_absent st k : G st -> g_dup st = false ->
  (forall j, j < ic st -> akey st j <> k) -> (forall y, In y (g_chain st) -> xkey st y <> k) ->
  lookup k (g_map st) = None.
Proof.
  intros HG Hd Hs Hc. apply (lookup_none_iff _ _ HG). intros v [(j & [H1 _] & H2 & _)|(x & H1 & H2 & _)].
  - exact (Hs j H1 H2).
  - rewrite lchain_nodup in H1 by exact Hd. exact (Hc x H1 H2).
Qed.

Lemma ahead_hd st k : bhead st = hd 0 (g_chain st) -> ahead st k (bhead st).
Proof.
  intros Hh y Hy _. rewrite Hh. destruct (g_chain st) as [|a l]; [destruct Hy|]. cbn [hd]. rewrite from_hd. exact Hy.
Qed.
Lemma ahead_tl st k x : ahead st k x -> xkey st x <> k -> ahead' st k x.
Proof.
  intros Ha Hne y Hy Hk. specialize (Ha y Hy Hk).
  destruct (in_dec N.eq_dec x (g_chain st)) as [Hx|Hx].
  - destruct (from_in _ _ Hx) as [r Hr]. rewrite Hr in *. cbn [tl]. destruct Ha as [<-|Ha]; [contradiction|exact Ha].
  - rewrite (from_notin _ _ Hx) in Ha. destruct Ha.
Qed.
Lemma ahead_next st k x : Mem st -> In x (g_chain st) -> ahead' st k x -> ahead st k (xnext st x).
Proof.
  intros HM Hx Ha y Hy Hk. rewrite (from_next (xnext st) (g_chain st) x); [apply Ha; assumption | exact (M_cnd _ HM) | | exact (M_clk _ HM) | exact Hx].
  intros Hc. apply (M_cok _ HM) in Hc. unfold item_ok in Hc. lia.
Qed.
Lemma ahead_end st k x : Mem st -> In x (g_chain st) -> ahead' st k x -> xnext st x = 0 ->
  forall y, In y (g_chain st) -> xkey st y <> k.
Proof.
  intros HM Hx Ha Hn y Hy Hk. pose proof (ahead_next st k x HM Hx Ha y Hy Hk) as Hc. rewrite Hn in Hc.
  assert (H0 : ~ In 0 (g_chain st)) by (intros H0; apply (M_cok _ HM) in H0; unfold item_ok in H0; lia).
  rewrite (from_notin _ _ H0) in Hc. destruct Hc.
Qed.

Section VhmItAbs.
  Variable xoff : N.
  Notation step := (step xoff).

  Ltac split_t' t' :=
    intros t'; match goal with |- context [upd ?f ?t ?p t'] => destruct (upd_cases f t p t') as [[-> E]|[Hne E]]; rewrite E; clear E end.

  (** facts about the stepping thread *)
  Ltac prep2 HI HM HA t Epc :=
    pose proof (Lk_wf _ HI t) as Hwf; rewrite Epc in Hwf; cbn [pc_wf it_wf it_elem] in Hwf;
    pose proof (M_ch _ HM t) as Hch; rewrite Epc in Hch; cbn [pc_ch] in Hch;
    pose proof (HA t) as Hab; rewrite Epc in Hab; cbn [pc_abs] in Hab;
    try (assert (Hown : g_owner _ = Some t) by
           (apply (Lk_own _ HI); rewrite Epc; cbn [pc_bst];
            repeat match goal with E : ?c = _ |- context [if ?c then _ else _] => rewrite E end; discriminate);
         pose proof (Lk_pc _ HI t Hown) as Hbst; rewrite Epc in Hbst; cbn [pc_bst] in Hbst;
         repeat match goal with E : ?c = _ |- _ => match type of Hbst with context [if c then _ else _] => rewrite E in Hbst end end;
         injection Hbst as Hbst;
         pose proof (M_fl _ HM t Hown) as Hfl; rewrite Epc in Hfl; cbn [pc_dup pc_limbo] in Hfl; destruct Hfl as [Hdup Hlimbo]).

  Ltac icmk := unfold ic, mk; st_simpl_goal;
    try match goal with Hb : _ = bst _ |- _ => rewrite <- ?Hb end; try congruence.
  Ltac gext0 :=
    match goal with HG : G ?st |- _ =>
    apply (G_ext st); [exact HG | | | intros; split; reflexivity | reflexivity | intros; split; reflexivity | reflexivity
                      | intros Hc; exact Hc | intros Hc; split; [exact Hc | split; [reflexivity | split; reflexivity]]] end.
  Ltac gext1 :=
    match goal with HG : G ?st |- _ =>
    apply (G_ext st); [exact HG | | | | reflexivity | intros; split; reflexivity | reflexivity
                      | intros Hc; exact Hc | intros Hc; split; [exact Hc | split; [reflexivity | split; reflexivity]]] end.
  Ltac gext2 :=
    match goal with HG : G ?st |- _ =>
    apply (G_ext st); [exact HG | | | intros; split; reflexivity | reflexivity | | reflexivity
                      | intros Hc; exact Hc | st_simpl; intros Hc; congruence] end.

  Lemma G_step st a st' es : Lk st -> Mem st -> G st -> (forall t, pc_abs st t (th st t)) ->
    step st a = Some (st', es) -> G st'.
  Proof.
    intros HI HM HG HA H. step_inv H; st_simpl.
    all: try (apply (G_ext st); [exact HG | reflexivity | reflexivity | intros; split; reflexivity | reflexivity
                                | intros; split; reflexivity | reflexivity | intros Hc; exact Hc
                                | intros Hc; split; [exact Hc | split; [reflexivity | split; reflexivity]]]).
    all: prep2 HI HM HA t Epc.
    all: try (assert (Hwfs : wf_s s) by tauto;
              destruct (wf_fields s Hwfs) as (FL1 & FL2 & FM & FN1 & FN2 & FC1 & FC2 & FV1 & FV2 & FS & FI & FD)).
    all: repeat match goal with E : ?c = _, H : context [if ?c then _ else _] |- _ => rewrite E in H end.
    all: try (assert (Hicst : ic st = bs_item_count s) by
               (unfold ic; rewrite <- Hbst; first [exact FL1 | apply FM; tauto | exact FN1])).
    all: pose proof (M_cnd _ HM) as Hcnd; pose proof (M_chd _ HM) as Hchd.
    all: unfold mark in *.
    - (* L3 *) b2p. subst s. gext0. apply ic_locked. apply mk_locked.
    - b2p. subst s. gext0. apply ic_locked. apply mk_locked.
    - (* IUold *) gext0; icmk.
    - (* ISK *) gext1; try icmk. intros j [Hj _]. st_simpl. rewrite Hicst in Hj. rewrite setf_other by lia. split; reflexivity.
    - (* ISV *) gext1; try icmk. intros j [Hj _]. st_simpl. rewrite Hicst in Hj. rewrite setf_other by lia. split; reflexivity.
    - (* IUnew *) destruct Hwf as [_ Hlt]. destruct (FI Hlt) as [FI1 FI2]. destruct Hab as (Hab1 & Hab2 & Hab3).
      apply (G_ins_slot st _ (bs_item_count s) k v); try reflexivity; try assumption; icmk.
    - (* IXSK *) gext2; try icmk. intros y Hy. st_simpl. rewrite lchain_nodup in Hy by exact Hdup.
      pose proof (M_own _ HM t n) as Ho. rewrite Epc in Ho. destruct (Ho eq_refl) as (_ & Hnc & _).
      rewrite setf_other by (intros ->; contradiction). split; reflexivity.
    - (* IXSV *) gext2; try icmk. intros y Hy. st_simpl. rewrite lchain_nodup in Hy by exact Hdup.
      pose proof (M_own _ HM t n) as Ho. rewrite Epc in Ho. destruct (Ho eq_refl) as (_ & Hnc & _).
      rewrite setf_other by (intros ->; contradiction). split; reflexivity.
    - (* IXSH *) destruct Hwf as [_ H3]. destruct Hab as (Hab1 & Hab2 & Hab3).
      apply (G_ins_item st _ n k v); try reflexivity; try assumption; icmk.
    - (* IUnew2 *) gext0; icmk.
    - (* X3 *) b2p. subst s. gext0. apply ic_locked. apply mk_locked.
    - (* XA1 *) destruct Hwf as [_ Hi]. destruct (FM i Hi) as [FM1 FM2]. destruct Hab as [Hab1 Hab2].
      apply (G_mark st _ i k); try reflexivity; try assumption; icmk.
    - (* XA4 *) destruct Hwf as [_ Hi]. destruct (FM i Hi) as [FM1 FM2].
      gext1; try icmk. intros j [_ Hj]. unfold mk in Hj. rewrite <- Hbst, FM2 in Hj. st_simpl.
      rewrite setf_other by lia. split; reflexivity.
    - (* XA5 *) destruct Hwf as [_ Hi]. destruct (FM i Hi) as [FM1 FM2].
      gext1; try icmk. intros j [_ Hj]. unfold mk in Hj. rewrite <- Hbst, FM2 in Hj. st_simpl.
      rewrite setf_other by lia. split; reflexivity.
    - (* XA6 *) destruct Hwf as [_ Hi]. destruct (FM i Hi) as [FM1 FM2]. destruct Hab as (_ & Hab2 & Hab3).
      destruct Hch as [Hx Hnz]. destruct (g_chain st) as [|x' rr] eqn:Ec; cbn [hd] in Hchd; [congruence|].
      assert (x' = x) by congruence. subst x'.
      apply (G_dupon st _ i x rr); try reflexivity; try assumption; try icmk.
    - (* XA8 *) apply (G_ext st); [exact HG | reflexivity | reflexivity | intros; split; reflexivity | | intros; split; reflexivity | reflexivity | |].
      + unfold lchain. st_simpl. rewrite Hdup. reflexivity.
      + st_simpl. intros Hc E. rewrite E in Hc. cbn [tl] in Hc. contradiction.
      + st_simpl. discriminate.
    - (* XA9 *) gext0; icmk.
    - (* XB1 *) destruct Hwf as (_ & Hi & _). destruct (FM i Hi) as [FM1 FM2]. destruct Hab as [Hab1 Hab2].
      apply (G_mark st _ i k); try reflexivity; try assumption; icmk.
    - (* XB4 *) destruct Hwf as (_ & Hi & _). destruct (FM i Hi) as [FM1 FM2].
      gext1; try icmk. intros j [_ Hj]. unfold mk in Hj. rewrite <- Hbst, FM2 in Hj. st_simpl.
      rewrite setf_other by lia. split; reflexivity.
    - (* XB5 *) destruct Hwf as (_ & Hi & _). destruct (FM i Hi) as [FM1 FM2].
      gext1; try icmk. intros j [_ Hj]. unfold mk in Hj. rewrite <- Hbst, FM2 in Hj. st_simpl.
      rewrite setf_other by lia. split; reflexivity.
    - (* XB6, last slot *) b2p. destruct Hwf as [_ Hi]. destruct (FD ltac:(lia)) as [FD1 FD2]. destruct Hab as [Hab1 Hab2].
      assert (Ech : g_chain st = []) by (apply chain_nil; assumption).
      apply (G_dec_last st _ i k); try reflexivity; try assumption; try icmk; try lia.
    - (* XB6, back-filled slot *) b2p. destruct Hwf as [_ Hi]. destruct (FM i Hi) as [FM1 FM2]. destruct (FD ltac:(lia)) as [FD1 FD2].
      destruct Hab as (_ & Hab1 & Hab2).
      assert (Ech : g_chain st = []) by (apply chain_nil; assumption).
      apply (G_dec_moved st _ i); try reflexivity; try assumption; try icmk; try lia.
    - (* XXP, head *) destruct Hab as [Hab1 Hab2]. destruct Hch as (Hx & _).
      apply (G_unlink st _ x k); try reflexivity; try assumption.
    - (* XXP, item *) destruct Hab as [Hab1 Hab2]. destruct Hch as (Hx & _).
      apply (G_unlink st _ x k); try reflexivity; try assumption.
    - (* XXU *) gext0; icmk.
    - (* XU *) gext0; icmk.
    - (* FL3 *) b2p. subst s. gext0. apply ic_locked. apply mk_locked.
    - b2p. subst s. gext0. apply ic_locked. apply mk_locked.
    - (* FU *) gext0; icmk.
    - (* MN2: the lock of this bucket *) b2p. subst s1. gext0. apply ic_locked. apply mk_locked.
    - (* MN3 from this bucket *) gext0; icmk; [symmetry; apply ic_locked | symmetry; apply mk_locked].
    - gext0; icmk; [symmetry; apply ic_locked | symmetry; apply mk_locked].
    - gext0; icmk; [symmetry; apply ic_locked | symmetry; apply mk_locked].
    - (* EX2, head *) destruct Hab as [Hab1 Hab2]. destruct Hch as (Hx & _).
      apply (G_unlink st _ x w); try reflexivity; try assumption.
    - (* EX2, item *) destruct Hab as [Hab1 Hab2]. destruct Hch as (Hx & _).
      apply (G_unlink st _ x w); try reflexivity; try assumption.
    - (* EX3 *) destruct (wf_fields2 s Hwfs) as (G1 & G2 & _). gext0; icmk.
    - (* EA1 *) destruct Hwf as (_ & Hi & _). destruct (FM idx Hi) as [FM1 FM2]. destruct Hab as [Hab1 Hab2].
      apply (G_mark st _ idx w); try reflexivity; try assumption; icmk.
    - (* EA4 *) destruct Hwf as (_ & Hi & _). destruct (FM idx Hi) as [FM1 FM2].
      gext1; try icmk. intros j [_ Hj]. unfold mk in Hj. rewrite <- Hbst, FM2 in Hj. st_simpl.
      rewrite setf_other by lia. split; reflexivity.
    - (* EA5 *) destruct Hwf as (_ & Hi & _). destruct (FM idx Hi) as [FM1 FM2].
      gext1; try icmk. intros j [_ Hj]. unfold mk in Hj. rewrite <- Hbst, FM2 in Hj. st_simpl.
      rewrite setf_other by lia. split; reflexivity.
    - (* EA6 *) destruct Hwf as (_ & Hi & _). destruct (FM idx Hi) as [FM1 FM2]. destruct Hab as (_ & Hab2 & Hab3).
      destruct Hch as [Hx Hnz]. destruct (g_chain st) as [|x' rr] eqn:Ec; cbn [hd] in Hchd; [congruence|].
      assert (x' = h) by congruence. subst x'.
      apply (G_dupon st _ idx h rr); try reflexivity; try assumption; try icmk.
    - (* EA8 *) apply (G_ext st); [exact HG | reflexivity | reflexivity | intros; split; reflexivity | | intros; split; reflexivity | reflexivity | |].
      + unfold lchain. st_simpl. rewrite Hdup. reflexivity.
      + st_simpl. intros Hc E. rewrite E in Hc. cbn [tl] in Hc. contradiction.
      + st_simpl. discriminate.
    - (* EA9 *) destruct (wf_fields2 s Hwfs) as (_ & _ & G3 & G4 & _). gext0; icmk.
    - (* EB1 *) destruct Hwf as (_ & Hi & _). destruct (FM idx Hi) as [FM1 FM2]. destruct Hab as [Hab1 Hab2].
      apply (G_mark st _ idx w); try reflexivity; try assumption; icmk.
    - (* EB4 *) destruct Hwf as (_ & Hi & _). destruct (FM idx Hi) as [FM1 FM2].
      gext1; try icmk. intros j [_ Hj]. unfold mk in Hj. rewrite <- Hbst, FM2 in Hj. st_simpl.
      rewrite setf_other by lia. split; reflexivity.
    - (* EB5 *) destruct Hwf as (_ & Hi & _). destruct (FM idx Hi) as [FM1 FM2].
      gext1; try icmk. intros j [_ Hj]. unfold mk in Hj. rewrite <- Hbst, FM2 in Hj. st_simpl.
      rewrite setf_other by lia. split; reflexivity.
    - (* EB6, last slot *) b2p. destruct Hwf as (_ & Hi & _). destruct (wf_fields2 s Hwfs) as (_ & _ & _ & _ & G5). destruct (G5 ltac:(lia)) as [FD1 FD2].
      destruct Hab as [Hab1 Hab2]. assert (Ech : g_chain st = []) by (apply chain_nil; assumption).
      apply (G_dec_last st _ idx w); try reflexivity; try assumption; try icmk; try lia.
    - b2p. destruct Hwf as (_ & Hi & _). destruct (wf_fields2 s Hwfs) as (_ & _ & _ & _ & G5). destruct (G5 ltac:(lia)) as [FD1 FD2].
      destruct Hab as [Hab1 Hab2]. assert (Ech : g_chain st = []) by (apply chain_nil; assumption).
      apply (G_dec_last st _ idx w); try reflexivity; try assumption; try icmk; try lia.
    - (* EB6, back-filled slot *) b2p. destruct Hwf as (_ & Hi & _). destruct (FM idx Hi) as [FM1 FM2].
      destruct (wf_fields2 s Hwfs) as (_ & _ & _ & _ & G5). destruct (G5 ltac:(lia)) as [FD1 FD2].
      destruct Hab as (_ & Hab1 & Hab2). assert (Ech : g_chain st = []) by (apply chain_nil; assumption).
      apply (G_dec_moved st _ idx); try reflexivity; try assumption; try icmk; try lia.
    - b2p. destruct Hwf as (_ & Hi & _). destruct (FM idx Hi) as [FM1 FM2].
      destruct (wf_fields2 s Hwfs) as (_ & _ & _ & _ & G5). destruct (G5 ltac:(lia)) as [FD1 FD2].
      destruct Hab as (_ & Hab1 & Hab2). assert (Ech : g_chain st = []) by (apply chain_nil; assumption).
      apply (G_dec_moved st _ idx); try reflexivity; try assumption; try icmk; try lia.
    - (* R1 *) gext0; icmk.
  Qed.

  Lemma abs_step st a st' es : Lk st -> Mem st -> G st -> (forall t, pc_abs st t (th st t)) ->
    step st a = Some (st', es) -> forall t', pc_abs st' t' (th st' t').
  Proof.
    intros HI HM HG HA H. step_inv H; st_simpl.
    all: split_t' t'.
    all: try exact I.
    (* another thread *)
    all: try (destruct (pc_bst (th st t')) eqn:Eb;
              [ assert (Ho' : g_owner st = Some t') by (apply (Lk_own _ HI); rewrite Eb; discriminate);
                first [ assert (Hown : g_owner st = Some t) by (apply (Lk_own _ HI); rewrite Epc; discriminate); congruence
                      | apply (abs_frame st); [exact (HA t') | reflexivity | reflexivity | reflexivity | reflexivity | reflexivity | reflexivity |];
                        st_simpl_goal; rewrite ?upd_other by exact Hne; reflexivity ]
              | apply (abs_unlocked st); [exact Eb | exact (HA t') |]; st_simpl_goal; rewrite ?upd_other by exact Hne; reflexivity ]).
    all: prep2 HI HM HA t Epc.
    all: repeat match goal with E : ?c = _, H : context [if ?c then _ else _] |- _ => rewrite E in H end.
    all: cbn [pc_abs]; unfold absent, noslot, ahead, ahead' in *; st_simpl; rewrite ?upd_same; b2p.
    all: repeat match goal with E : ?c = _ |- context [if ?c then _ else _] => rewrite E end.
    all: try exact Hab; try tauto; try reflexivity.
    all: rewrite ?setf_same.
    all: try (assert (Hwfs : wf_s s) by tauto; destruct (wf_fields s Hwfs) as (FL1 & FL2 & FM & _)).
    all: try (assert (Hicst : ic st = bs_item_count s /\ mk st = 0) by (unfold ic, mk; rewrite <- Hbst; split; [exact FL1 | exact FL2]);
              destruct Hicst as [Hicst Hmk0]).
    all: pose proof (M_chd _ HM) as Hchd.
    all: assert (Hfull : g_chain st <> [] -> ic st = 3) by apply (G_full _ HG).
    (* lock acquisition *)
    all: try (subst s; assert (Ho : g_owner st = None) by
               (pose proof (Lk_bit _ HI) as Hbit; destruct (g_owner st); [congruence | reflexivity]);
              pose proof (Lk_mk _ HI Ho) as Hmk0; destruct (M_fl0 _ HM Ho) as [Hdup _]).
    all: unfold wf_s in *; repeat match goal with H : _ /\ _ |- _ => destruct H end.
    all: rewrite ?C_bic in *.
    all: assert (Hnil : bhead st = 0 -> g_chain st = []) by (apply chain_nil; exact HM).
    (* scans of the array *)
    all: try solve [intros j Hj; lia].
    all: try solve [intros j Hj; destruct (N.eq_dec j i) as [->|Hne]; [assumption | apply Hab; lia]].
    all: try solve [eexists; split; [eapply own_slot; [exact HG | exact Hmk0 | | eassumption]; lia | intros; try discriminate; reflexivity]].
    all: try solve [f_equal; match goal with Hv : aval _ ?i = ?r |- _ = Some ?r => rewrite <- Hv end;
                    eapply own_slot; [exact HG | exact Hmk0 | lia | assumption]].
    (* scans of the chain *)
    all: try solve [eexists; split; [eapply own_item; [exact HG | exact Hdup | | eassumption]; assumption | intros; try discriminate; reflexivity]].
    all: try solve [f_equal; match goal with Hv : xval _ ?x = ?r |- _ = Some ?r => rewrite <- Hv end;
                    eapply own_item; [exact HG | exact Hdup | assumption | assumption]].
    all: try solve [split; [assumption | apply ahead_hd; exact Hchd]].
    all: try solve [split; [assumption | apply ahead_tl; assumption]].
    all: try solve [split; [assumption | apply ahead_next; assumption]].
    all: try solve [f_equal; assumption].
    (* the key is absent *)
    all: try solve [rsplit; try assumption; try reflexivity; apply own_absent;
                    [exact HG | exact Hdup | intros j Hj; try (destruct (N.eq_dec j i) as [->|Hne]; [assumption|]); first [lia | apply Hab; lia | match goal with Hn : forall j, j < _ -> _ |- _ => apply Hn; lia end]
                    | first [ rewrite Hnil by assumption; intros y []
                            | destruct (g_chain st); [intros y [] | exfalso; assert (ic st = 3) by (apply Hfull; discriminate); unfold ic in *; lia]
                            | eapply ahead_end; eassumption ] ]].
    all: try solve [rsplit; first [assumption | reflexivity | congruence]].
    all: try solve [destruct (N.eqb_spec i (bs_item_count s - 1)); [split; assumption | contradiction]].
    all: try solve [rewrite setf_other by (intros Hc; symmetry in Hc; contradiction); rsplit; first [assumption | reflexivity | congruence]].
    all: try solve [destruct (N.eqb_spec i (bs_item_count s - 1)); [contradiction|];
                    rewrite setf_other by (intros Hc; symmetry in Hc; contradiction); rsplit; first [assumption | reflexivity | congruence]].
    all: try solve [apply own_absent; [exact HG | exact Hdup | unfold ic; intros j Hj; lia
                    | destruct (g_chain st); [intros y [] | exfalso; assert (ic st = 3) by (apply Hfull; discriminate); unfold ic in *; lia]]].
    all: try solve [destruct (N.eqb_spec x 0); [reflexivity | contradiction] | destruct (N.eqb_spec x 0); [contradiction | reflexivity]].
    all: try solve [eexists; eassumption].
    all: try solve [destruct (N.eqb_spec idx (bs_item_count s - 1)); [split; assumption | contradiction]].
    all: try solve [destruct (N.eqb_spec idx (bs_item_count s - 1)); [contradiction|];
                    rewrite setf_other by (intros Hc; symmetry in Hc; contradiction); rsplit; first [assumption | reflexivity | congruence]].
    all: try (split; [cbn [itop]; discriminate|]).
    all: try solve [eexists; eassumption].
    all: try solve [eexists; f_equal; match goal with Hv : aval _ ?i = ?r |- _ => rewrite <- Hv end;
                    eapply own_slot; [exact HG | | | eassumption];
                    [unfold mk; rewrite <- Hbst; apply (wf_fields s); unfold wf_s; tauto
                    | unfold ic; rewrite <- Hbst; rewrite (proj1 (wf_fields s ltac:(unfold wf_s; tauto))); lia]].
  Qed.

  Lemma hist_step st a st' es : Lk st -> Mem st -> G st -> (forall t, pc_abs st t (th st t)) ->
    (forall h, In h (g_hist st) -> hist_ok_w h) ->
    step st a = Some (st', es) -> forall h, In h (g_hist st') -> hist_ok_w h.
  Proof.
    intros HI HM HG HA HH H. step_inv H; st_simpl.
    all: try exact HH.
    all: intros h Hh; apply in_app_or in Hh; destruct Hh as [Hh|[<-|[]]]; [apply HH; exact Hh|].
    all: prep2 HI HM HA t Epc.
    all: repeat match goal with E : ?c = _, H : context [if ?c then _ else _] |- _ => rewrite E in H end.
    all: unfold hist_ok_w, ins_op, ins_res, del_op, del_res; cbn [h_op h_res h_wit]; rewrite ?upd_same; unfold absent in *.
    all: try (assert (Hwfs : wf_s s) by tauto; destruct (wf_fields s Hwfs) as (FL1 & FL2 & FM & _)).
    all: try (assert (Hicst : ic st = bs_item_count s /\ mk st = 0) by (unfold ic, mk; rewrite <- Hbst; split; [exact FL1 | exact FL2]);
              destruct Hicst as [Hicst Hmk0]).
    all: unfold wf_s in *; repeat match goal with H : _ /\ _ |- _ => destruct H | H : exists _, _ |- _ => destruct H end; b2p.
    (* erase of a key from an empty array (state read without the lock) *)
    all: try (match goal with Hz : bs_item_count (bst ?st) = 0 |- context [lookup ?k _] =>
              assert (Hnone : lookup k (g_map st) = None) by
               (apply (lookup_none_iff _ _ HG); intros v0 [(j & [Hj _] & _)|(y & Hy & _)];
                [unfold ic in Hj; lia |];
                assert (Hc : g_chain st = []) by (destruct (g_chain st) eqn:Ecc; [reflexivity|];
                   assert (ic st = 3) by (apply (G_full _ HG); rewrite Ecc; discriminate); unfold ic in *; lia);
                unfold lchain in Hy; rewrite Hc in Hy; destruct (g_dup st); destruct Hy) end).
    (* removal of the last slot *)
    all: try (match goal with Hv : aval ?st ?i = ?r, Hk : akey ?st ?i = ?k |- _ =>
               assert (Hsome : lookup k (g_map st) = Some r) by
               (rewrite <- Hv; eapply own_slot; [exact HG | exact Hmk0 | lia | assumption]) end).
    all: try destruct a; try destruct e; cbn [b2n]; try exact I.
    all: try solve [left; split; [reflexivity | first [congruence | eexists; congruence]]].
    all: try solve [right; split; [reflexivity | first [congruence | eexists; congruence]]].
    all: try solve [left; eexists; split; [reflexivity | congruence]].
    all: try solve [right; eexists; split; [reflexivity | first [congruence | match goal with Hq : true = true -> _ |- _ => rewrite <- (Hq eq_refl) end; congruence]]].
    all: repeat match goal with
         | Hq : lookup ?k ?m = _ |- context [lookup ?k ?m] => rewrite Hq
         | Hq : g_lp ?s ?t = _ |- context [g_lp ?s ?t] => rewrite Hq end.
    all: try solve [left; split; [reflexivity | first [reflexivity | eexists; reflexivity]]].
    all: try solve [right; split; [reflexivity | first [reflexivity | eexists; reflexivity]]].
    all: try solve [left; reflexivity].
    all: try solve [exact I].
    all: try solve [match goal with Hq : itop ?o ?w |- _ => destruct o; cbn [itop] in Hq; try contradiction; try exact I;
                      destruct w; [right; assumption | contradiction] end].
  Qed.

  (** * the invariant *)
  Definition Abs (st : state) : Prop :=
    G st /\ (forall t, pc_abs st t (th st t)) /\ (forall h, In h (g_hist st) -> hist_ok_w h).

  Lemma G_init : G init.
  Proof.
    constructor; cbn.
    - intros k v. split; [discriminate|]. intros [(j & [Hj _] & _)|(x & [] & _)]. unfold ic in Hj. cbn in Hj. lia.
    - intros j j' [Hj _]. unfold ic in Hj. cbn in Hj. lia.
    - intros x x' [].
    - intros j x _ [].
    - intros H. contradiction.
    - discriminate.
  Qed.

  Theorem Abs_reach st : reach init step st -> Abs st.
  Proof.
    apply (inv_rule_aux _ _ _ init step (fun s => Lk s /\ Mem s) Abs).
    - intros s Hr. split; [apply (Lk_reach xoff); exact Hr | apply (Mem_reach xoff); exact Hr].
    - split; [exact G_init | split; [intros t; exact I | intros h []]].
    - intros s a s' es [HI HM] _ (HG & HA & HH) Hs. split; [|split].
      + exact (G_step _ _ _ _ HI HM HG HA Hs).
      + exact (abs_step _ _ _ _ HI HM HG HA Hs).
      + exact (hist_step _ _ _ _ HI HM HG HA HH Hs).
  Qed.
End VhmItAbs.