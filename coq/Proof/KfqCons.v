(** kirsch_kfifo_queue (C06, unbounded): conservation, "never stranded", quiescent census, ownership of the
    segments, k-relaxation (segment form), dead code of advance_head.  No axioms, no admits. *)
From Coq Require Import NArith List Bool Lia PeanoNat Permutation ZifyBool ZifyNat ZifyN.
From XV Require Import Base.Word Conc.Lts Conc.Ev Model.KfqDefs.
From XV Require Import Proof.KfqWf Proof.KfqOwn Proof.KfqRegion Proof.KfqSeg.
From XV Require Proof.KfbCons.
Import ListNotations.
Local Open Scope N_scope.

Lemma nodup_list_prod {A B} (l1 : list A) (l2 : list B) : NoDup l1 -> NoDup l2 -> NoDup (list_prod l1 l2).
Proof.
  intros H1 H2. induction l1 as [|a l IH]; cbn; [constructor|]. inversion H1; subst.
  apply KfbCons.nodup_app.
  - apply FinFun.Injective_map_NoDup; [|exact H2]. intros x y Q. inversion Q. reflexivity.
  - apply IH. assumption.
  - intros [x y] Hx Hy. apply in_map_iff in Hx. destruct Hx as (y' & Q & _). inversion Q; subst.
    apply in_prod_iff in Hy. destruct Hy as [Hy _]. contradiction.
Qed.

Set Default Proof Using "All".
Section Thm.
  Variable k : N.
  Hypothesis Hk : 1 <= k.
  Notation step := (step k).

  Definition quiescent (st : state) : Prop := forall t, th st t = Idle.
  (** the segments head_ has not left *)
  Definition live (st : state) : list N := filter (fun x => fst (head st) <=? x) (g_segs st).
  (** the pointers stored in the slots of the live segments *)
  Definition stored (st : state) : list N :=
    filter (fun b => negb (b =? 0))
           (map (fun xj => fst (slot st (fst xj) (snd xj))) (list_prod (live st) (KfbCons.nrange k))).

  Lemma live_in st x : In x (live st) <-> linked st x /\ fst (head st) <= x.
  Proof. unfold live, linked. rewrite filter_In, N.leb_le. tauto. Qed.

  Lemma stored_in st b : In b (stored st) <->
    b <> 0 /\ exists x j, linked st x /\ fst (head st) <= x /\ j < k /\ fst (slot st x j) = b.
  Proof.
    unfold stored. rewrite filter_In, in_map_iff. split.
    - intros [([x j] & Hb & Hin) Hnz]. apply in_prod_iff in Hin. destruct Hin as [Hx Hj]. apply live_in in Hx. apply KfbCons.nrange_in in Hj.
      cbn [fst snd] in Hb. split; [destruct (N.eqb_spec b 0); [discriminate|assumption]|]. exists x, j. tauto.
    - intros [Hnz (x & j & A & B & C & D)]. split; [|destruct (N.eqb_spec b 0); [contradiction|reflexivity]].
      exists (x, j). split; [exact D|]. apply in_prod_iff. rewrite live_in, KfbCons.nrange_in. tauto.
  Qed.

  (** * Conservation *)

  (** no value is popped twice, every popped value was committed, every committed value is a token allocated by
      a push, a push that returned committed its value *)
  Theorem kfq_conservation st : reach init step st ->
    NoDup (g_out st) /\ NoDup (g_in st) /\ incl (g_out st) (g_in st) /\ incl (g_ok st) (g_in st) /\
    (forall b, In b (g_in st) -> 2 <= b < nalloc st).
  Proof.
    intros Hr. pose proof (Inv2_reach k Hk st Hr) as I2.
    split; [apply I2|]. split; [apply I2|]. split; [apply I2|]. split; [intros b; apply (i_ok_in st I2)|apply (i_in_lt st I2)].
  Qed.

  (** a committed value that has not been popped is stored in exactly one slot, and this slot belongs to a linked
      segment between the head segment and the tail segment: it is never stranded in a segment the pops no
      longer look at (in particular not in a retired segment) *)
  Theorem kfq_never_stranded st b : reach init step st -> In b (g_in st) -> ~ In b (g_out st) ->
    exists x j, linked st x /\ fst (head st) <= x <= fst (tail st) /\ j < k /\ fst (slot st x j) = b /\
      forall x' j', fst (slot st x' j') = b -> x' = x /\ j' = j.
  Proof.
    intros Hr Hin Hout. pose proof (Inv2_reach k Hk st Hr) as I2. pose proof (InvC_reach k Hk st Hr) as IC.
    destruct (i_pres st I2 b Hin Hout) as (x & j & Hj). pose proof (i_in_lt st I2 b Hin) as Hb.
    destruct (slot st x j) as [b' tg] eqn:E. cbn [fst] in Hj. subst b'.
    destruct (c_reg k st IC x j b tg E ltac:(lia)) as (A & B & C & D).
    exists x, j. split; [exact A|]. split; [split; [apply D; exact Hin|exact C]|]. split; [exact B|]. split; [rewrite E; reflexivity|].
    intros x' j' Hj'. apply (i_uniq st I2); [rewrite E; exact Hj'|rewrite Hj'; lia].
  Qed.

  Corollary kfq_pushed_never_stranded st b : reach init step st -> In b (g_ok st) -> ~ In b (g_out st) ->
    exists x j, linked st x /\ fst (head st) <= x <= fst (tail st) /\ j < k /\ fst (slot st x j) = b.
  Proof.
    intros Hr Hok Hout. destruct (kfq_conservation st Hr) as (_ & _ & _ & Hi & _).
    destruct (kfq_never_stranded st b Hr (Hi b Hok) Hout) as (x & j & A & B & C & D & _). exists x, j. auto.
  Qed.

  (** at quiescence: the values in the slots of the live segments together with the popped values are exactly the
      committed values, these are exactly the values whose push returned, and no other slot (of a retired, a
      released or an unlinked segment) holds a value *)
  Theorem kfq_quiescent st : reach init step st -> quiescent st ->
    Permutation (g_out st ++ stored st) (g_in st) /\
    (forall b, In b (g_ok st) <-> In b (g_in st)) /\
    (forall x j, fst (slot st x j) <> 0 ->
       linked st x /\ fst (head st) <= x <= fst (tail st) /\ j < k /\
       In (fst (slot st x j)) (g_in st) /\ ~ In (fst (slot st x j)) (g_out st)).
  Proof.
    intros Hr Hq. pose proof (Inv2_reach k Hk st Hr) as I2. pose proof (InvC_reach k Hk st Hr) as IC.
    pose proof (InvR_reach k Hk st Hr) as IR.
    assert (Hslot : forall x j, fst (slot st x j) <> 0 -> In (fst (slot st x j)) (g_in st) /\ ~ In (fst (slot st x j)) (g_out st)).
    { intros x j Hnz. destruct (slot st x j) as [b tg] eqn:E. cbn [fst] in *.
      destruct (i_slot st I2 x j b tg E Hnz) as [A|[_ [t A]]]; [exact A|]. rewrite Hq in A. discriminate. }
    split; [|split].
    - apply NoDup_Permutation.
      + apply KfbCons.nodup_app; [apply I2| |].
        * unfold stored.
          assert (Hnd : NoDup (list_prod (live st) (KfbCons.nrange k))).
          { apply nodup_list_prod; [apply NoDup_filter; apply (r_nd st IR)|apply KfbCons.nrange_nodup]. }
          revert Hnd. generalize (list_prod (live st) (KfbCons.nrange k)). intros l Hnd.
          induction l as [|[x j] l IH]; cbn; [constructor|]. inversion Hnd; subst. specialize (IH H2).
          destruct (N.eqb_spec (fst (slot st x j)) 0) as [Q|Q]; cbn [negb]; [exact IH|]. constructor; [|exact IH].
          rewrite filter_In, in_map_iff. intros [([x' j'] & Q1 & Q2) _]. cbn [fst snd] in Q1.
          destruct (i_uniq st I2 x' j' x j Q1 ltac:(congruence)) as [-> ->]. contradiction.
        * intros b Hb Hst. apply stored_in in Hst. destruct Hst as [Hnz (x & j & _ & _ & _ & Hj)].
          subst b. apply (Hslot x j Hnz). exact Hb.
      + apply I2.
      + intros b. rewrite in_app_iff, stored_in. split.
        * intros [Hb|[Hnz (x & j & _ & _ & _ & Hj)]]; [apply (i_incl st I2); exact Hb|]. subst b. apply (Hslot x j Hnz).
        * intros Hb. destruct (in_dec N.eq_dec b (g_out st)) as [Ho|Ho]; [left; exact Ho|right].
          pose proof (i_in_lt st I2 b Hb). split; [lia|].
          destruct (kfq_never_stranded st b Hr Hb Ho) as (x & j & A & B & C & D & _). exists x, j. intuition.
    - intros b. split; [apply (i_ok_in st I2)|]. intros Hb.
      destruct (i_in_ok st I2 b Hb) as [A|(t & x & j & tg & A)]; [exact A|]. rewrite Hq in A. discriminate.
    - intros x j Hnz. destruct (Hslot x j Hnz) as [A B].
      destruct (slot st x j) as [b tg] eqn:E. cbn [fst] in *.
      destruct (c_reg k st IC x j b tg E Hnz) as (A1 & A2 & A3 & A4). intuition.
  Qed.

  (** * Ownership of the segments (C07 / C02 for the container's own nodes) *)

  (** the chain has no duplicates and contains head_ and tail_ (never null); a segment is retired exactly when
      head_ has left it, and at most once; a retired segment is marked deleted and every value still found in
      one of its slots is an insertion that is not committed (its pusher is inside committed() and takes it
      back); a segment released by its allocator was never linked, is not retired and never held a value *)
  Theorem kfq_segments st : reach init step st ->
    NoDup (g_segs st) /\ NoDup (g_retired st) /\ NoDup (g_freed st) /\
    linked st (fst (head st)) /\ linked st (fst (tail st)) /\ 1 <= fst (head st) <= fst (tail st) /\
    (forall x, In x (g_retired st) <-> linked st x /\ x < fst (head st)) /\
    (forall x, In x (g_retired st) -> del st x = true /\
       forall j b tg, slot st x j = (b, tg) -> b <> 0 ->
         ~ In b (g_in st) /\ exists t, cinfo (th st t) = Some (b, x, j, tg)) /\
    (forall x, In x (g_freed st) -> ~ linked st x /\ ~ In x (g_retired st) /\ forall j, fst (slot st x j) = 0).
  Proof.
    intros Hr. pose proof (InvA_reach k Hk st Hr) as IA. pose proof (Inv2_reach k Hk st Hr) as I2.
    pose proof (InvC_reach k Hk st Hr) as IC. pose proof (InvR_reach k Hk st Hr) as IR.
    split; [apply IR|]. split; [apply IR|]. split; [apply IR|]. split; [apply IA|]. split; [apply IA|].
    split; [pose proof (a_lt k st IA _ (a_head k st IA)); pose proof (a_ht k st IA); lia|].
    split; [apply (r_ret st IR)|]. split.
    - intros x Hx. apply (r_ret st IR) in Hx. destruct Hx as [L Hlt]. split; [apply (c_del k st IC); assumption|].
      intros j b tg Hs Hb. destruct (c_reg k st IC x j b tg Hs Hb) as (_ & _ & _ & Q).
      destruct (i_slot st I2 x j b tg Hs Hb) as [[A _]|[A B]]; [specialize (Q A); lia|]. split; assumption.
    - intros x Hx. destruct (r_fr st IR x Hx) as (A & _ & _). split; [exact A|]. split.
      + intros Q. apply (r_ret st IR) in Q. tauto.
      + intros j. destruct (slot st x j) as [b tg] eqn:E. cbn [fst].
        destruct (N.eq_dec b 0) as [Q|Q]; [exact Q|]. destruct (c_reg k st IC x j b tg E Q) as (L & _). contradiction.
  Qed.

  (** the chain: [next] of the last linked segment is null, every other linked segment points to the next larger one *)
  Theorem kfq_chain st : reach init step st ->
    linked st (glast st) /\ nxt st (glast st) = (0, 0) /\ (forall x, linked st x -> x <= glast st) /\
    (fst (tail st) = glast st \/ fst (nxt st (fst (tail st))) = glast st) /\
    (forall x, linked st x -> x <> glast st ->
       exists n, nxt st x = (n, 1) /\ linked st n /\ x < n /\ forall x', linked st x' -> x < x' -> n <= x').
  Proof.
    intros Hr. pose proof (InvA_reach k Hk st Hr) as I.
    exact (conj (a_last k st I) (conj (a_lnull k st I) (conj (a_max k st I) (conj (a_tlast k st I) (a_succ k st I))))).
  Qed.

  (** the tail-helping CAS (9) of advance_head is never reached, and the load (8) before it never returns null *)
  Theorem kfq_advance_head_dead_code st : reach init step st ->
    (forall t hd tl hn tn, th st t <> H5 hd tl hn tn) /\
    (forall t hd tl hn, th st t = H3 hd tl hn -> fst (nxt st (fst tl)) <> 0).
  Proof.
    intros Hr. pose proof (InvA_reach k Hk st Hr) as IA. split.
    - intros t hd tl hn tn Q. pose proof (a_th k st IA t) as T. rewrite Q in T. exact T.
    - intros t hd tl hn Q. pose proof (a_th k st IA t) as T. rewrite Q in T. cbn [TA] in T.
      destruct T as ((A & B & C & D) & F). rewrite F. apply (nxt_nonnull k Hk); assumption.
  Qed.

  (** * k-relaxation, segment form *)

  (** When a pop's CAS (5) takes a value p that was already committed, the slot is one of the k slots of the
      CURRENT head segment, and every other committed value still in the queue is stored in another slot of the
      head segment (at most k-1 of them) or in a later segment up to the tail segment.
      FULL STATEMENT (C06): every pop returns one of the k oldest values of a linearization of the history
      (k-FIFO linearizability).  MISSING: the construction of the linearization order. *)
  Theorem kfq_pop_k_relaxed_partial st t hd j p tg : reach init step st ->
    th st t = D4 hd j p tg -> slot st (fst hd) j = (p, tg) -> In p (g_in st) ->
    fst hd = fst (head st) /\ j < k /\ p <> 0 /\
    forall b, In b (g_in st) -> ~ In b (g_out st) -> b <> p ->
      exists x' j', (x' <> fst hd \/ j' <> j) /\ linked st x' /\ fst (head st) <= x' <= fst (tail st) /\ j' < k /\
                    fst (slot st x' j') = b.
  Proof.
    intros Hr Hpc Hsl Hin. pose proof (InvA_reach k Hk st Hr) as IA. pose proof (InvC_reach k Hk st Hr) as IC.
    pose proof (a_th k st IA t) as T. rewrite Hpc in T. cbn [TA] in T. destruct T as (L & Hle & Hj & Hp).
    destruct (c_reg k st IC (fst hd) j p tg Hsl Hp) as (_ & _ & _ & Q). specialize (Q Hin).
    split; [unfold hle in Hle; lia|]. split; [exact Hj|]. split; [exact Hp|].
    intros b Hb Hob Hne. destruct (kfq_never_stranded st b Hr Hb Hob) as (x' & j' & A & B & C & D & _).
    exists x', j'. split; [|tauto].
    destruct (N.eq_dec x' (fst hd)) as [->|]; [|left; assumption]. destruct (N.eq_dec j' j) as [->|]; [|right; assumption].
    rewrite Hsl in D. cbn in D. congruence.
  Qed.

  (** a value taken before it was committed: its push is still inside committed() -- the two calls overlap *)
  Theorem kfq_pop_uncommitted_overlaps st t hd j p tg : reach init step st ->
    th st t = D4 hd j p tg -> slot st (fst hd) j = (p, tg) -> ~ In p (g_in st) ->
    exists u, cinfo (th st u) = Some (p, fst hd, j, tg) /\ ~ In p (g_ok st).
  Proof.
    intros Hr Hpc Hsl Hin. pose proof (InvA_reach k Hk st Hr) as IA. pose proof (Inv2_reach k Hk st Hr) as I2.
    pose proof (a_th k st IA t) as T. rewrite Hpc in T. cbn [TA] in T. destruct T as (L & Hle & Hj & Hp).
    destruct (i_slot st I2 (fst hd) j p tg Hsl Hp) as [[A _]|[_ [u B]]]; [contradiction|].
    exists u. split; [exact B|]. intros Q. apply Hin. apply (i_ok_in st I2). exact Q.
  Qed.

  (** * What the returning steps do *)

  (** a pop that returns a value v took, by its CAS (5), a pointer p out of a slot: v is the payload written when
      the token p was allocated by a push, p had not been popped before, and it is now the last popped value *)
  Theorem kfq_pop_result st a st' es u v : reach init step st -> step st a = Some (st', es) -> In (ERet u [1; v]) es ->
    exists r hd j p tg, a = Step u r /\ th st u = D4 hd j p tg /\ slot st (fst hd) j = (p, tg) /\ v = bval st p /\
      2 <= p < nalloc st /\ ~ In p (g_out st) /\ g_out st' = g_out st ++ [p] /\ In p (g_in st') /\ fst (slot st' (fst hd) j) = 0.
  Proof.
    intros Hr Hst Hin. pose proof (Inv2_reach k Hk st Hr) as I2. pose proof (InvA_reach k Hk st Hr) as IA.
    unfold KfqDefs.step in Hst. destruct a as [t o|t r].
    - destruct (th st t); try discriminate. inversion Hst; subst. destruct Hin.
    - pose proof (a_th k st IA t) as Hme.
      destruct (th st t) eqn:E; try discriminate; try (match goal with o : op |- _ => destruct o end);
        cbn [TA] in Hme; brk Hst; inversion Hst; subst; clear Hst; cbn in Hin;
        repeat match goal with H : _ \/ _ |- _ => destruct H end; try contradiction; try discriminate.
      match goal with H : ERet _ _ = ERet _ _ |- _ => inversion H; subst end.
      destruct Hme as (_ & _ & _ & Hp).
      exists r, hd, j, p, tg. split; [reflexivity|]. split; [exact E|]. split; [assumption|]. split; [reflexivity|].
      split; [pose proof (in_slot_known st I2 (fst hd) j) as Q; rewrite e in Q; apply Q; exact Hp|].
      split.
      { destruct (i_slot st I2 (fst hd) j p tg e Hp) as [[_ Q]|[Q _]]; [exact Q|]. intros Q'. apply Q. apply (i_incl st I2). exact Q'. }
      sim. split; [reflexivity|]. split; [apply commit_in; right; reflexivity|]. rewrite setf2_same. reflexivity.
  Qed.

  (** a push that returns has committed its value (or a pop has already taken it) *)
  Theorem kfq_push_result st a st' es u : reach init step st -> step st a = Some (st', es) -> In (ERet u [1]) es ->
    exists r b, a = Step u r /\ pblock (th st u) = Some b /\ g_ok st' = g_ok st ++ [b] /\ In b (g_in st') /\ 2 <= b < nalloc st.
  Proof.
    intros Hr Hst Hin. pose proof (Inv2_reach k Hk st Hr) as I2.
    unfold KfqDefs.step in Hst. destruct a as [t o|t r].
    - destruct (th st t); try discriminate. inversion Hst; subst. destruct Hin.
    - pose proof (i_own_lt st I2 t) as Hlt.
      destruct (th st t) eqn:E; try discriminate; try (match goal with o : op |- _ => destruct o end);
        brk Hst; inversion Hst; subst; clear Hst; cbn in Hin;
        repeat match goal with H : _ \/ _ |- _ => destruct H end; try contradiction; try discriminate.
      all: match goal with H : ERet _ _ = ERet _ _ |- _ => inversion H; subst end.
      all: exists r, b; split; [reflexivity|]; split; [rewrite E; reflexivity|]; sim; split; [reflexivity|]; split; [apply commit_in; right; reflexivity|apply Hlt; reflexivity].
  Qed.

  (** the payload of a token is written once, when the push allocates it *)
  Theorem kfq_payload_stable st a st' es b : step st a = Some (st', es) -> b < nalloc st -> bval st' b = bval st b.
  Proof.
    intros Hst Hb. unfold KfqDefs.step in Hst. destruct a as [t o|t r].
    - destruct (th st t); try discriminate. inversion Hst; subst. reflexivity.
    - destruct (th st t) eqn:E; try discriminate; try (match goal with o : op |- _ => destruct o end);
        brk Hst; inversion Hst; subst; clear Hst; sim; try reflexivity.
      apply setf_other. lia.
  Qed.
End Thm.
