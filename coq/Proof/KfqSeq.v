(** kirsch_kfifo_queue (C06, unbounded): the sequential clause -- a pop that runs alone from a quiescent state
    answers 'empty' exactly when no committed value is in the queue (partial correctness; the termination of
    the solo run is proved in Proof/KfqSolo.v).  No axioms, no admits. *)
From Coq Require Import NArith List Bool Lia PeanoNat ZifyBool ZifyNat ZifyN.
From XV Require Import Base.Word Conc.Lts Conc.Ev Model.KfqDefs.
From XV Require Import Proof.KfqWf Proof.KfqOwn Proof.KfqRegion Proof.KfqSeg Proof.KfqCons Proof.KfqCall.
Import ListNotations.
Local Open Scope N_scope.

(** program counters of do_pop (with advance_tail called from do_pop, and advance_head) *)
Definition poppc (p : pc) : Prop :=
  match p with
  | D1 | D1f _ | DF _ _ _ | D2 _ _ _ _ | D2n _ | D3 _ _ _ _ | D3n _ | D4 _ _ _ _ | DE _ _
  | H1 _ _ | H2 _ _ _ | H3 _ _ _ | H4 _ _ _ _ | H5 _ _ _ _ | H6 _ _ | H7 _ _ => True
  | A1 c _ | A2 c _ _ | A3 c _ _ | A4 c _ _ _ | A5 c _ _ => match c with KPop _ _ _ _ => True | KPush _ => False end
  | _ => False
  end.

Definition quiescent_but (u : nat) (st : state) : Prop := forall t, t <> u -> th st t = Idle.

Set Default Proof Using "All".
Section Seq.
  Variable k : N.
  Hypothesis Hk : 1 <= k.
  Notation step := (step k).

  (** [solo u s0 s]: s is reached from s0 by steps of u only, u being inside its operation before each of them *)
  Inductive solo (u : nat) (s0 : state) : state -> Prop :=
  | solo_refl : solo u s0 s0
  | solo_step s r s' es : solo u s0 s -> th s u <> Idle -> step s (Step u r) = Some (s', es) -> solo u s0 s'.

  (** a step of a pop either returns, or leaves the slots and the ghost lists alone *)
  Lemma pop_step_frame u s r s' es : step s (Step u r) = Some (s', es) -> (th s u = Begin OPop \/ poppc (th s u)) ->
    (exists res, In (ERet u res) es /\ (forall res', In (ERet u res') es -> res' = res) /\ th s' u = Idle /\
       ((res = [2] /\ g_out s' = g_out s) \/
        (exists hd j p tg, th s u = D4 hd j p tg /\ slot s (fst hd) j = (p, tg) /\ res <> [2]))) \/
    ((forall res, ~ In (ERet u res) es) /\
       poppc (th s' u) /\ slot s' = slot s /\ g_in s' = g_in s /\ g_out s' = g_out s /\ forall t, t <> u -> th s' t = th s t).
  Proof.
    intros Hst Hp. unfold KfqDefs.step in Hst.
    destruct (th s u) eqn:E; try (destruct Hp as [Hp|Hp]; [discriminate Hp|contradiction Hp]);
      try (match goal with o : op |- _ => destruct o end); try (destruct Hp as [Hp|Hp]; [discriminate Hp|contradiction Hp]);
      try (destruct c; [destruct Hp as [Hp|Hp]; [discriminate Hp|contradiction Hp]|]);
      brk Hst; inversion Hst; subst; clear Hst; sim.
    all: try (right; split; [intros res Hin; cbn in Hin; repeat match goal with H : _ \/ _ |- _ => destruct H end; try contradiction; discriminate|];
              rewrite upd_same; split; [exact Logic.I|]; split; [reflexivity|]; split; [reflexivity|]; split; [reflexivity|];
              intros t Ht; apply upd_other; exact Ht).
    - left. exists [1; bval s p]. split; [cbn; auto|]. split.
      + intros res' Hin. cbn in Hin. repeat match goal with H : _ \/ _ |- _ => destruct H end; try contradiction; try discriminate.
        match goal with H : ERet _ _ = ERet _ _ |- _ => inversion H; reflexivity end.
      + split; [apply upd_same|]. right. eexists _, _, _, _. split; [reflexivity|]. split; [assumption|discriminate].
    - left. exists [2]. split; [cbn; auto|]. split.
      + intros res' Hin. cbn in Hin. repeat match goal with H : _ \/ _ |- _ => destruct H end; try contradiction; try discriminate.
        match goal with H : ERet _ _ = ERet _ _ |- _ => inversion H; reflexivity end.
      + split; [apply upd_same|]. left. split; reflexivity.
  Qed.

  Lemma solo_inv u s0 s : th s0 u = Begin OPop -> (forall t, t <> u -> th s0 t = Idle) -> solo u s0 s ->
    th s u = Idle \/
    ((s = s0 \/ in_call k u OPop s0 s) /\ (th s u = Begin OPop \/ poppc (th s u)) /\
     slot s = slot s0 /\ g_in s = g_in s0 /\ g_out s = g_out s0 /\ forall t, t <> u -> th s t = Idle).
  Proof.
    intros Hb Hq Hs. induction Hs as [|s r s' es Hs IH Hni Hst].
    - right. split; [left; reflexivity|]. split; [left; exact Hb|]. auto.
    - destruct IH as [IH|(A & B & C & D & F & G)]; [contradiction|].
      destruct (pop_step_frame u s r s' es Hst B) as [(res & _ & _ & Q & _)|(_ & P1 & P2 & P3 & P4 & P5)]; [left; exact Q|right].
      split; [right; destruct A as [->|A]; [eapply ic_first; eauto|eapply ic_next; eauto]|].
      split; [right; exact P1|]. split; [congruence|]. split; [congruence|]. split; [congruence|].
      intros t Ht. rewrite P5 by exact Ht. apply G. exact Ht.
  Qed.

  (** A pop that runs alone from a quiescent state: it answers 'empty' if and only if no committed value is in
      the queue when it starts.  (That the solo run terminates is proved in Proof/KfqSolo.v.) *)
  Theorem kfq_solo_pop_verdict u s0 s r s' es res :
    reach init step s0 -> th s0 u = Begin OPop -> (forall t, t <> u -> th s0 t = Idle) ->
    solo u s0 s -> step s (Step u r) = Some (s', es) -> In (ERet u res) es ->
    (res = [2] <-> empty_at s0).
  Proof.
    intros Hr0 Hb Hq Hs Hst Hret.
    destruct (solo_inv u s0 s Hb Hq Hs) as [Hi|(A & B & C & D & F & G)].
    { exfalso. unfold KfqDefs.step in Hst. rewrite Hi in Hst. discriminate. }
    destruct (pop_step_frame u s r s' es Hst B) as [(res0 & R1 & R2 & R3 & R4)|(Hn & _)]; [|exfalso; eapply Hn; eauto].
    rewrite (R2 res Hret). clear res Hret.
    assert (Hic : in_call k u OPop s0 s).
    { destruct A as [->|A]; [|exact A]. exfalso. unfold KfqDefs.step in Hst. rewrite Hb in Hst. inversion Hst; subst.
      cbn in R1. destruct R1 as [R1|[]]. discriminate. }
    destruct R4 as [[-> Ho]|(hd & j & p & tg & Hpc & Hsl & Hne)].
    - split; [intros _|reflexivity].
      destruct (kfq_empty_verdict k Hk u s0 s (Step u r) s' es Hr0 Hic Hst R1) as (s1 & I1 & I2 & _ & He).
      intros b Hb0.
      assert (M1 : forall s2, in_call k u OPop s0 s2 -> In b (g_in s2)).
      { intros s2 H2. induction H2 as [s2 es2 r2 Hb2 Hst2|s2 a2 s3 es3 H2 IH2 Hn2 Hst2].
        - destruct (step_mono2 k Hk s0 _ s2 es2 (InvA_reach k Hk s0 Hr0) Hst2) as (_ & _ & M & _). apply M. exact Hb0.
        - assert (Hr2 : reach init step s2) by exact (in_call_reach k Hk u OPop s0 s2 Hr0 H2).
          destruct (step_mono2 k Hk s2 a2 s3 es3 (InvA_reach k Hk s2 Hr2) Hst2) as (_ & _ & M & _). apply M. exact IH2. }
      assert (Hr1 : reach init step s1) by exact (in_call_reach k Hk u OPop s0 s1 Hr0 I1).
      destruct (reach_from_mono2 k Hk s1 s' Hr1 I2) as (_ & _ & _ & M2).
      specialize (M2 b (He b (M1 s1 I1))). rewrite Ho, F in M2. exact M2.
    - split; [intros Q; contradiction|]. intros He. exfalso.
      assert (Hrs : reach init step s) by exact (in_call_reach k Hk u OPop s0 s Hr0 Hic).
      pose proof (a_th k s (InvA_reach k Hk s Hrs) u) as T. rewrite Hpc in T. cbn [TA] in T. destruct T as (_ & _ & _ & Hp).
      rewrite C in Hsl.
      assert (Hq0 : quiescent_but u s0) by exact Hq.
      pose proof (Inv2_reach k Hk s0 Hr0) as I2.
      destruct (i_slot s0 I2 (fst hd) j p tg Hsl Hp) as [[Q1 Q2]|[_ [t Q]]]; [apply Q2; apply He; exact Q1|].
      destruct (Nat.eq_dec t u) as [->|Htu]; [rewrite Hb in Q; discriminate|rewrite Hq in Q by exact Htu; discriminate].
  Qed.
End Seq.
