(** The epoch at which a retired block may be reclaimed (quiescent state based reclamation model, Model/QsbrDefs.v).
    [tagof]  a node retired while the global epoch (count) was g, and an orphan created while it was g, must not be
             freed before the global epoch reaches g + 2;
    [G0]     a block in retire list i of a thread whose (unbounded) local epoch is L satisfies [bound L i tag]: its tag is
             at most the next epoch > L that is congruent to i modulo 3 - the epoch whose announcement by that thread
             deletes list i; what an orphan carries has a tag that is at most the orphan's; the target epoch of an orphan
             created at g is (g + 2) mod 3; and WHEN A BLOCK IS FREED THE GLOBAL EPOCH IS >= ITS TAG.
    Holds in every reachable state ([G0_reach]).  No axioms.
    The target epoch is where this breaks for a wrong offset: with target (g + 1) mod 3 the clause [g_orph] would read
    otgt = (g + 1) mod 3 and the adoption case (G5) of [g_list] fails for an orphan created in the epoch just left
    (see qsbr_orphan_target_wrong_refuted in Proof/QsbrInv.v). *)
From Coq Require Import NArith ZArith List Bool Arith Lia PeanoNat Setoid.
From XV Require Import Conc.Lts Conc.Ev Model.QsbrDefs Proof.QsbrBase Proof.QsbrEpoch Proof.QsbrNodes.
Import ListNotations.
Local Open Scope N_scope.

Definition tagof (l : life) : N := match l with LRet _ _ g => g + 2 | LOrph _ g => g + 2 | _ => 0 end.
Definition bound (L i tg : N) : Prop := tg <= L + 3 /\ (i <> L mod 3 -> tg <= L + 2) /\ (i = (L + 1) mod 3 -> tg <= L + 1).

Record G0 (s : state) : Prop := {
  g_ret : forall n t r g, g_life s n = LRet t r g -> r <= g /\ g <= r + 1 /\ g <= g_gepc s;
  g_orph : forall n t g, g_life s n = LOrph t g -> g <= g_gepc s /\ otgt s n = (g + 2) mod 3;
  g_list : forall n u i, g_where s n = PList u i -> exists b, cb (tl s u) = Some b /\ bound (g_lepc s b) i (tagof (g_life s n));
  g_in : forall n o, g_where s n = PIn o -> tagof (g_life s n) <= tagof (g_life s o);
  g_freed : forall n, g_where s n = PFreed -> tagof (g_life s n) <= g_gepc s;
  g_ab : forall n, (g_where s n = PAband \/ exists u, g_where s n = PHand u) -> exists t g, g_life s n = LOrph t g }.

Lemma G0_init nc : G0 (init nc).
Proof. constructor; cbn; intros; try discriminate; try (destruct (n <? nc); discriminate). destruct H as [H|(u & H)]; discriminate. Qed.

Lemma tag_le_gepc s n : G0 s -> N0 s -> tagof (g_life s n) <= g_gepc s + 2.
Proof.
  intros G I. destruct (g_life s n) eqn:L; cbn; try lia.
  - destruct (g_ret s G n _ _ _ L) as (? & ? & ?). lia.
  - destruct (g_orph s G n _ _ L). lia.
Qed.

Lemma tagof_nonret l : retd l = false -> tagof l = 0.
Proof. destruct l; cbn; intros; try reflexivity; discriminate. Qed.
Lemma tagof_updN f x v n : retd (f x) = false -> retd v = false -> tagof (updN f x v n) = tagof (f n).
Proof.
  intros H1 H2. destruct (updN_cases f x v n) as [[-> ->]|[_ ->]]; [|reflexivity].
  rewrite (tagof_nonret _ H1), (tagof_nonret _ H2). reflexivity.
Qed.

Ltac tag_upd :=
  repeat match goal with
  | |- context [tagof (updN ?f ?x ?v ?n)] =>
    rewrite (tagof_updN f x v n) by (try reflexivity; split_updN_all; try reflexivity; match goal with H : _ ?x = _ |- _ => rewrite H; reflexivity end)
  end.

Lemma G0_step ns s t s' es : T0 ns s -> O0 s -> EI s -> N0 s -> G0 s -> step ns s (Step t) = Some (s', es) -> G0 s'.
Proof.
  intros T O (E0s & P & _) I G H.
  pose proof (fun n => tag_le_gepc s n G I) as Htl.
  destruct (step_frame _ _ _ _ _ H) as (Fth & Fb & _ & _ & Fg).
  unfold E0 in E0s. unfold_step H. cbv zeta in H. step_split H.
  all: bool_eqs; prj; rewrite ?upd_same; prj; prj_hyps; rewrite ?upd_same in *; prj_hyps.
  all: pose proof (T t) as Tt; pose proof (P t) as Pt; unfold P1 in Pt; try match goal with E : th _ _ = _ |- _ => rewrite E in Tt, Pt end.
  all: destruct G as [Gret Gorph Glist Gin Gfreed Gab].
  all: pose proof I as I0; destruct I as [Ilt Icell If1 If2 Iu1 Iu2 Iwh Ilist Iab Ihand Iin Iinlt Indl Inda Indi Irl3 Iotgt Ixd Ice].
  all: match goal with E : th ?s ?t = _ |- _ =>
         pose proof (If1 t) as If1t; pose proof (Iu1 t) as Iu1t; pose proof (Ihand t) as Ihandt; pose proof (Ixd t) as Ixdt; pose proof (Ice t) as Icet; pose proof (Ilist t) as Ilistt;
         rewrite E in If1t, Iu1t, Ihandt, Ixdt, Icet; nfn_in If1t; nfn_in Iu1t; nfn_in Ihandt; nfn_in Ixdt; nfn_in Icet end.
  all: constructor; prj; intros.
  all: try solve [first [assumption | eauto 2]].
  (* the life cycle of a retired block does not change; the global epoch does not decrease *)
  all: try solve [nfacts; split_updN_all; try discriminate;
         first [ match goal with H : g_life _ _ = LRet _ _ _ |- _ => destruct (Gret _ _ _ _ H) as (? & ? & ?); repeat split; lia end
               | match goal with H : g_life _ _ = LOrph _ _ |- _ => destruct (Gorph _ _ _ H); split; first [lia | assumption] end
               | match goal with H : g_where _ _ = PFreed |- _ => pose proof (Gfreed _ H); first [lia | assumption] end
               | match goal with H : g_where _ _ = PIn _ |- _ => pose proof (Gin _ _ H); first [lia | assumption] end
               | apply Gab; assumption ]].
  (* the retire lists of the threads: control block and local epoch unchanged *)
  all: try solve [match goal with |- exists b, cb _ = Some b /\ _ => idtac end; nfacts; split_updN_all; try discriminate;
         match goal with H : g_where _ _ = PList _ _ |- _ => destruct (Glist _ _ _ H) as (bq & Hbq & Hbd) end;
         exists bq; split_upd_all; prj; (split; [assumption|]); split_updN_all; try assumption; try discriminate ].
  (* a block that is not retired changes its life cycle *)
  all: try solve [nfacts; tag_upd;
         first [ match goal with H : g_where _ _ = PFreed |- _ => pose proof (Gfreed _ H); first [lia | assumption] end
               | match goal with H : g_where _ _ = PIn _ |- _ => pose proof (Gin _ _ H); first [lia | assumption] end
               | match goal with H : g_where _ _ = PList _ _ |- _ => destruct (Glist _ _ _ H) as (bq & Hbq & Hbd) end;
                 exists bq; split_upd_all; prj; (split; [assumption|]); split_updN_all; try assumption; try discriminate
               | split_updN_all; first [apply Gab; assumption | exfalso; match goal with H : _ \/ _ |- _ => destruct H as [H|(uq & H)]; congruence end] ]].
  (* C3 / C6 / C9 / X4: the stepping thread has no retired blocks; the other threads are not touched *)
  all: try solve [match goal with H : g_where _ ?n = PList ?u ?i |- exists b, _ =>
         destruct (Nat.eq_dec u t) as [->|Hne];
         [ exfalso; apply Ilistt in H; first [rewrite Icet in H by (left; reflexivity) | rewrite (Ixdt eq_refl) in H]; destruct H
         | destruct (Glist _ _ _ H) as (bq & Hbq & Hbd); exists bq; rewrite ?upd_other by exact Hne; split; [exact Hbq|];
           destruct (o_own s O u bq Hbq) as [Ho _]; destruct (Fb bq (owner_untouched _ _ _ _ O Ho Hne)) as (_ & _ & El & _); prj_in El;
           first [rewrite El; exact Hbd | exact Hbd] ] end].
  (* X3 *)
  all: try solve [repeat match goal with Ihandt : forall n, Some ?o = Some n <-> _ |- _ => pose proof (proj1 (Ihandt o) eq_refl); clear Ihandt end;
                  split_updN_all; apply Gab; first [assumption | right; eexists; eassumption | match goal with H : _ \/ _ |- _ => destruct H as [H|(uq & H)]; [left; exact H|right; eexists; exact H] end]].
  (* R4: the unlinked node is retired into the list of the current local epoch *)
  all: try solve [match goal with E : th _ _ = R4 _ |- _ => idtac end; nfacts;
     match goal with E0 : cb (tl _ _) = Some ?b |- _ => destruct (Pt b E0) as (P1' & _); destruct (P1' eq_refl) as (A1 & A2 & A3 & _) end;
     first [ match goal with H : updN _ _ _ _ = LRet _ _ _ |- _ => split_updN_all; [injection H as <- <- <-; repeat split; lia | destruct (Gret _ _ _ _ H) as (? & ? & ?); repeat split; lia] end
           | match goal with H : updN (g_where _) ?old _ ?n0 = PList ?u ?i |- exists b, _ =>
               destruct (N.eq_dec n0 old) as [->|Hn0];
               [ rewrite updN_same in H; rewrite updN_same; injection H as <- <-; eexists; split_upd_all; prj; split; [eassumption|]; unfold bound; cbn [tagof]; mlia
               | rewrite updN_other in H by exact Hn0; rewrite updN_other by exact Hn0; destruct (Glist _ _ _ H) as (bq & Hbq & Hbd); exists bq; split_upd_all; prj; split; assumption ] end
           | match goal with H : updN (g_where _) ?old _ ?n0 = PIn ?o |- _ =>
               destruct (N.eq_dec n0 old) as [->|Hn0]; [rewrite updN_same in H; discriminate H|]; rewrite updN_other in H by exact Hn0; rewrite (updN_other _ _ _ n0) by exact Hn0;
               pose proof (Gin _ _ H); split_updN_all; [match goal with L : g_life _ old = _ |- _ => rewrite L in * end; cbn [tagof] in *; lia | assumption] end ]].
  (* G5: the abandoned orphans are adopted into the lists of their target epochs *)
  all: try solve [match goal with E : th _ _ = G5 _ _ |- _ => idtac end;
     destruct (cb (tl s t)) as [bt|] eqn:Ebt; [|exfalso; apply (ts_need _ _ _ Tt); [reflexivity|exact Ebt]];
     destruct (Pt bt eq_refl) as (P1' & _); destruct (P1' eq_refl) as (A1 & A2 & A3 & A4 & A5);
     mem_split;
     first [ match goal with M : In ?n (aband _), H : PList _ _ = PList _ _ |- exists b, _ =>
               apply Iab in M; destruct (Gab n (or_introl M)) as (tq & gq & Lq); destruct (Gorph _ _ _ Lq) as (Q1 & Q2);
               injection H as <- <-; exists bt; split_upd_all; prj; split; [exact Ebt|]; rewrite Lq; unfold bound; cbn [tagof]; mlia end
           | match goal with H : g_where _ _ = PList _ _ |- exists b, _ =>
               destruct (Glist _ _ _ H) as (bq & Hbq & Hbd); exists bq; split_upd_all; prj; split; assumption end
           | discriminate
           | match goal with H : g_where _ _ = PIn _ |- _ => exact (Gin _ _ H) end
           | match goal with H : g_where _ _ = PFreed |- _ => exact (Gfreed _ H) end
           | match goal with H : _ \/ _ |- _ => destruct H as [H|(uq & H)]; first [discriminate H | apply Gab; first [left; exact H | right; exists uq; exact H]] end ]].
  (* XC: the CAS of ~thread_data succeeded, the orphan is created; what it carries has a tag <= global epoch + 2 = the orphan's tag *)
  all: try solve [match goal with E : th _ _ = XC _ |- _ => idtac end; nfacts;
     first [ match goal with H : updN (g_life _) _ _ _ = LOrph _ _ |- _ => split_updN_all; [injection H as <- <-; split; [lia|clear - E0s E0; mlia] | exact (Gorph _ _ _ H)] end
           | match goal with H : _ \/ _ |- _ => destruct H as [H|(uq & H)] end;
             match goal with H : (if ?n =? _ then _ else _) = _ |- _ => destruct (N.eqb_spec n (nalloc s)) as [Hnn|Hnn]; [subst; rewrite updN_same; eauto|rewrite updN_other by exact Hnn] end; mem_split; try discriminate H;
             apply Gab; first [left; exact H | right; exists uq; exact H]
           | match goal with H : (if ?n =? _ then _ else _) = _ |- _ => destruct (N.eqb_spec n (nalloc s)) as [Hnn|Hnn]; [subst; discriminate H|] end; mem_split;
             first [ discriminate
                   | (* n is carried by the new orphan *)
                     match goal with H : PIn _ = PIn _ |- _ => injection H as <- end; rewrite updN_same, (updN_other _ _ _ n) by exact Hnn; cbn [tagof]; apply Htl
                   | match goal with H : g_where _ ?n = PIn ?o |- _ => pose proof (Iinlt _ _ H); rewrite !updN_other by (first [exact Hnn | lia]); exact (Gin _ _ H) end
                   | match goal with H : g_where _ ?n = PFreed |- _ => rewrite updN_other by exact Hnn; exact (Gfreed _ H) end
                   | match goal with H : g_where _ ?n = PList ?u ?i |- exists b, _ =>
                       destruct (Nat.eq_dec u t) as [->|Hne]; [exfalso; apply M; apply (ofl_in s t I0); left; eauto|];
                       destruct (Glist _ _ _ H) as (bq & Hbq & Hbd); exists bq; rewrite ?upd_other by exact Hne; rewrite updN_other by exact Hnn; split; assumption end ] ]].
  (* Q9: the new local epoch L + 1 = global epoch is announced, list (L + 1) mod 3 is deleted *)
  all: try solve [match goal with E : th _ _ = Q9 _ _ |- _ => idtac end; nfacts; tag_upd;
     match goal with E0 : cb (tl _ _) = Some ?b |- _ => destruct (Pt b E0) as (P1' & _); destruct (P1' eq_refl) as (A1 & A2 & A3 & A4 & A5) end;
     first [ match goal with H : _ \/ _ |- _ => destruct H as [H|(uq & H)] end; mem_split; try discriminate H; split_updN_all;
             first [ apply Gab; first [left; exact H | right; exists uq; exact H]
                   | exfalso; match goal with X : g_life ?s ?x = LNone, Y : g_where ?s ?x = _ |- _ => first [ assert (g_where s x = PAband \/ exists u, g_where s x = PHand u) as Z by (first [left; exact Y | right; exists uq; exact Y]); destruct (Gab _ Z) as (? & ? & Z2); congruence ] end ]
           | mem_split;
             first [ discriminate
                   | match goal with H : g_where _ _ = PIn _ |- _ => exact (Gin _ _ H) end
                   | match goal with H : g_where _ _ = PFreed |- _ => exact (Gfreed _ H) end
                   | (* freed now *)
                     match goal with M : In ?x (expand _ _) |- _ => apply (fl_in s t _ I0) in M; destruct M as [M|(oq & M1 & M2)] end;
                     [ destruct (Glist _ _ _ M) as (bq & Hbq & Hbd); same_cb; unfold bound in Hbd; lia
                     | destruct (Glist _ _ _ M1) as (bq & Hbq & Hbd); same_cb; pose proof (Gin _ _ M2); unfold bound in Hbd; lia ]
                   | match goal with M : ~ In ?x (expand _ _), H : g_where _ ?x = PList ?u ?i |- exists b, _ =>
                       destruct (Glist _ _ _ H) as (bq & Hbq & Hbd); exists bq;
                       destruct (Nat.eq_dec u t) as [->|Hne];
                       [ rewrite upd_same; prj; split; [exact Hbq|]; same_cb; rewrite updN_same;
                         assert (i <> e) by (intros ->; apply M; apply (fl_in s t _ I0); left; exact H); unfold bound in *; mlia
                       | rewrite upd_other by exact Hne; split; [exact Hbq|];
                         destruct (o_own s O u bq Hbq) as [Ho _]; destruct (Fb bq (owner_untouched _ _ _ _ O Ho Hne)) as (_ & _ & El & _); prj_in El; rewrite El; exact Hbd ] end ] ]].
Qed.

Lemma G0_start ns s t o s' es : G0 s -> step ns s (Start t o) = Some (s', es) -> G0 s'.
Proof.
  intros G H. destruct (start_same _ _ _ _ _ _ H) as (_ & -> & _). destruct G. constructor; prj; assumption.
Qed.

Section ReachG.
Variables (ns : nat) (nc : N).
Lemma G0_reach s : reachable ns nc s -> G0 s.
Proof.
  apply (inv_rule_aux _ _ _ _ _ (fun s => T0 ns s /\ O0 s /\ EI s /\ N0 s) G0).
  - intros s0 Hr. split; [apply (T0_reach ns nc); exact Hr|]. split; [apply (O0_reach ns nc); exact Hr|]. split; [apply (EI_reach ns nc); exact Hr|apply (N0_reach ns nc); exact Hr].
  - apply G0_init.
  - intros s0 a s1 es (J1 & J2 & J3 & J4) _ I H. destruct a as [t o|t]; [eapply G0_start; eauto|eapply G0_step; eauto].
Qed.
End ReachG.
