(** kirsch_bounded_kfifo_queue::marked_idx (generated from the source): the (index, tag) pair round-trips
    for every index that fits the index field, and the field is wide enough for 2^32 entries. *)
From Coq Require Import NArith Lia.
From XV Require Import Base.Word gen.KirschIdxGen.
Local Open Scope N_scope.

Lemma val_mask_eq : C_val_mask = N.ones C_bits.
Proof. reflexivity. Qed.

Theorem idx_roundtrip v m : v < 2 ^ C_bits -> m < 2 ^ (64 - C_bits) ->
  idx_get (mk_idx v m) = v /\ idx_mark (mk_idx v m) = m.
Proof.
  intros Hv Hm. unfold idx_get, idx_mark, mk_idx, wshr.
  rewrite val_mask_eq.
  assert (Hs : wshl 64 m C_bits = m * 2 ^ C_bits).
  { unfold wshl. rewrite N.shiftl_mul_pow2. apply N.mod_small.
    replace (2 ^ 64) with (2 ^ (64 - C_bits) * 2 ^ C_bits) by reflexivity.
    apply N.mul_lt_mono_pos_r; [reflexivity|exact Hm]. }
  rewrite Hs. split.
  - rewrite N.land_ones. rewrite <- N.shiftl_mul_pow2.
    apply N.bits_inj. intros n.
    destruct (N.ltb_spec n C_bits) as [Hn|Hn].
    + rewrite N.mod_pow2_bits_low by exact Hn. rewrite N.lor_spec, N.shiftl_spec_low by exact Hn.
      apply Bool.orb_false_r.
    + rewrite N.mod_pow2_bits_high by exact Hn. symmetry.
      destruct (N.eq_dec v 0) as [->|Hz]; [apply N.bits_0|].
      apply N.bits_above_log2.
      apply N.log2_lt_pow2; [lia|]. eapply N.lt_le_trans; [exact Hv|]. apply N.pow_le_mono_r; lia.
  - rewrite <- N.shiftl_mul_pow2. rewrite N.shiftr_lor, N.shiftr_shiftl_l by lia.
    rewrite N.sub_diag, N.shiftl_0_r.
    rewrite (N.shiftr_eq_0 v C_bits); [apply N.lor_0_l|].
    destruct (N.eq_dec v 0) as [->|Hz]; [reflexivity|]. apply N.log2_lt_pow2; [lia|exact Hv].
Qed.

(** the index field holds every slot index of a queue with up to 2^32 entries *)
Theorem idx_field_wide : 2 ^ 32 <= 2 ^ C_bits.
Proof. vm_compute. discriminate. Qed.
