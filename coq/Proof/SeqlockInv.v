(** Safety of the sequence lock (xenium::seqlock) on the step-level model of Model/SeqlockDefs.v:
    writer mutual exclusion and version counter (A), slot contents (B), loads never return a torn
    value (C), updates read the latest version under the lock (D).  No axioms, no admits.

    Counter wrap-around is excluded by the side condition [Bnd st]: fewer than 2^62 values have been
    published so far.  The number of published values only grows, so [Bnd st] also bounds every
    state on the way to [st]. *)
From Coq Require Import NArith ZArith List Bool Lia PeanoNat.
From XV Require Import Base.Word Conc.Lts Conc.Ev Model.SeqlockDefs.
Import ListNotations.
Local Open Scope N_scope.

(** * 1. Arithmetic *)

Lemma pow2_62 : 2 ^ 62 = 4611686018427387904.
Proof. reflexivity. Qed.
Lemma pow2_64 : 2 ^ 64 = 18446744073709551616.
Proof. reflexivity. Qed.
Lemma pow2_32 : 2 ^ 32 = 4294967296.
Proof. reflexivity. Qed.
Lemma pow2_30 : 2 ^ 30 = 1073741824.
Proof. reflexivity. Qed.

Ltac dm := zify; Z.to_euclidean_division_equations; lia.

Lemma odd_mod2 q : odd q = negb (q mod 2 =? 0).
Proof.
  unfold odd. change 1 with (N.ones 1) at 1. rewrite N.land_ones. reflexivity.
Qed.

Lemma odd_false q : odd q = false <-> q mod 2 = 0.
Proof.
  rewrite odd_mod2. destruct (N.eqb_spec (q mod 2) 0); cbn; split; intros; congruence.
Qed.

Lemma odd_true q : odd q = true <-> q mod 2 = 1.
Proof.
  rewrite odd_mod2. assert (q mod 2 < 2) by (apply N.mod_lt; discriminate).
  destruct (N.eqb_spec (q mod 2) 0); cbn; split; intros; try congruence; dm.
Qed.

Lemma wshr_1 q : wshr q 1 = q / 2.
Proof. unfold wshr. rewrite N.shiftr_div_pow2. reflexivity. Qed.

Lemma wshl_1 s : s < 2 ^ 63 -> wshl 64 s 1 = 2 * s.
Proof.
  intros H. unfold wshl. rewrite N.shiftl_mul_pow2. change (2 ^ 1) with 2.
  rewrite N.mod_small; [lia|]. change (2 ^ 63) with 9223372036854775808 in H. rewrite pow2_64. lia.
Qed.

Lemma mod_neq_window c i b : c <> 0 -> i < b -> b < i + c -> i mod c <> b mod c.
Proof.
  intros Hc H1 H2 E.
  assert (Hi := N.div_mod i c Hc). assert (Hb := N.div_mod b c Hc).
  rewrite E in Hi. set (r := b mod c) in *. set (qi := i / c) in *. set (qb := b / c) in *.
  destruct (N.le_gt_cases qb qi) as [L|L]; nia.
Qed.

Lemma mod_sub_self c k : c <> 0 -> c <= k -> (k - c) mod c = k mod c.
Proof.
  intros Hc H. replace k with ((k - c) + 1 * c) at 2 by lia. rewrite N.mod_add by exact Hc. reflexivity.
Qed.

Lemma mod_succ c k : c <> 0 -> (k mod c + 1) mod c = (k + 1) mod c.
Proof. intros Hc. rewrite N.add_mod_idemp_l by exact Hc. reflexivity. Qed.

(** * 2. Lists *)

Definition normw (words : nat) (v : list N) : list N := map (fun i => nth i v 0) (List.seq 0 words).

Lemma normw_length words v : length (normw words v) = words.
Proof. unfold normw. rewrite map_length, seq_length. reflexivity. Qed.

Lemma nth_map_lt (f : nat -> N) l d j : (j < length l)%nat -> nth j (map f l) 0 = f (nth j l d).
Proof.
  revert j. induction l as [|x l IH]; intros [|j] H; cbn in *; try lia; try reflexivity.
  apply IH. lia.
Qed.

Lemma normw_nth words v j : (j < words)%nat -> nth j (normw words v) 0 = nth j v 0.
Proof.
  intros H. unfold normw. rewrite (nth_map_lt _ _ 0%nat) by (rewrite seq_length; exact H).
  rewrite seq_nth by exact H. reflexivity.
Qed.

Lemma list_ext_nth (a b : list N) :
  length a = length b -> (forall j, (j < length a)%nat -> nth j a 0 = nth j b 0) -> a = b.
Proof.
  revert b. induction a as [|x a IH]; intros [|y b] L H; cbn in L; try discriminate; [reflexivity|].
  f_equal.
  - apply (H 0%nat). cbn. lia.
  - apply IH; [lia|]. intros j Hj. apply (H (S j)). cbn. lia.
Qed.

Lemma normw_id words v : length v = words -> normw words v = v.
Proof.
  intros L. apply list_ext_nth.
  - rewrite normw_length. symmetry. exact L.
  - intros j Hj. rewrite normw_length in Hj. apply normw_nth. exact Hj.
Qed.

Lemma eq_normw words buf v :
  length buf = words -> (forall j, (j < words)%nat -> nth j buf 0 = nth j v 0) -> buf = normw words v.
Proof.
  intros L H. apply list_ext_nth.
  - rewrite normw_length. exact L.
  - intros j Hj. rewrite L in Hj. rewrite normw_nth by exact Hj. apply H. exact Hj.
Qed.

Lemma nth_snoc_lt (buf : list N) x j : (j < length buf)%nat -> nth j (buf ++ [x]) 0 = nth j buf 0.
Proof. intros H. apply app_nth1. exact H. Qed.

Lemma nth_snoc_eq (buf : list N) x : nth (length buf) (buf ++ [x]) 0 = x.
Proof. rewrite app_nth2 by lia. rewrite Nat.sub_diag. reflexivity. Qed.

(** * 3. The invariant *)

Section SeqlockInv.
  Variable slots : N.
  Variable words : nat.
  Variable func : N -> list N -> list N.
  Variable v0 : list N.
  Hypothesis slots_pos : 1 <= slots.
  Hypothesis slots_small : slots < 2 ^ 30.
  Hypothesis words_pos : (1 <= words)%nat.

  Notation step := (step slots words func).
  Notation init := (init v0).

  Definition lockq (p : pc) : option N :=
    match p with
    | StF q _ _ | StW q _ _ _ | Rel q _ | UpR q _ _ _ _ | UpF q _ _ _ => Some q
    | _ => None
    end.
  Definition is_locked (p : pc) : bool := match lockq p with Some _ => true | None => false end.

  (** number of words of the new version already written by the lock holder *)
  Definition wr (p : pc) : nat :=
    match p with StW _ _ i _ => i | Rel _ _ => words | _ => 0%nat end.

  Definition HN (h : list (list N)) : N := N.of_nat (length h).
  Definition ver (h : list (list N)) (k : N) : list N := nth (N.to_nat k) h [].

  Definition slot_ok (dt : N -> nat -> N) (h : list (list N)) (k : N) : Prop :=
    forall j, (j < words)%nat -> dt (k mod slots) j = nth j (ver h k) 0.

  (** lock holder: [q] is the even sequence value it replaced *)
  Definition lk (sq : N) (h : list (list N)) (q : N) : Prop := q + 2 = 2 * HN h /\ sq = q + 1.

  (** reader of version [q/2] *)
  Definition rd (sq : N) (h : list (list N)) (q : N) (buf : list N) : Prop :=
    q mod 2 = 0 /\ q + 2 <= 2 * HN h /\
    ((forall j, (j < length buf)%nat -> nth j buf 0 = nth j (ver h (q / 2)) 0) \/ q + 2 * slots <= sq + 1).

  Definition pc_ok (sq : N) (dt : N -> nat -> N) (h : list (list N)) (p : pc) : Prop :=
    match p with
    | Idle | Begin _ | Ld1 | LdSpin => True
    | Aq1 o | AqSpin o => o <> OLoad
    | AqCas o q => o <> OLoad /\ q mod 2 = 0
    | LdW q idx i buf => rd sq h q buf /\ length buf = i /\ (i < words)%nat /\ idx = (q / 2) mod slots
    | LdF q buf | Ld3 q buf => rd sq h q buf /\ length buf = words
    | StF q idx v => lk sq h q /\ idx = HN h mod slots
    | StW q idx i v =>
      lk sq h q /\ idx = HN h mod slots /\ (i < words)%nat /\
      (forall j, (j < i)%nat -> dt idx j = nth j v 0) /\
      (forall j, (i <= j < words)%nat -> slots <= HN h -> dt idx j = nth j (ver h (HN h - slots)) 0)
    | Rel q v => lk sq h q /\ (forall j, (j < words)%nat -> dt (HN h mod slots) j = nth j v 0)
    | UpR q idx i buf d =>
      lk sq h q /\ idx = (HN h - 1) mod slots /\ length buf = i /\ (i < words)%nat /\
      (forall j, (j < i)%nat -> nth j buf 0 = nth j (ver h (HN h - 1)) 0)
    | UpF q idx buf d =>
      lk sq h q /\ idx = (HN h - 1) mod slots /\ length buf = words /\
      (forall j, (j < words)%nat -> nth j buf 0 = nth j (ver h (HN h - 1)) 0)
    end.

  Record Inv (st : state) : Prop := mkInv {
    i_h : 1 <= HN (g_hist st);
    i_seq : seq st + 2 = 2 * HN (g_hist st) \/ seq st + 1 = 2 * HN (g_hist st);
    i_pc : forall t, pc_ok (seq st) (data st) (g_hist st) (th st t);
    i_mx : forall t1 t2, is_locked (th st t1) = true -> is_locked (th st t2) = true -> t1 = t2;
    i_lk : seq st + 1 = 2 * HN (g_hist st) -> exists t, is_locked (th st t) = true;
    i_slot : forall k, k < HN (g_hist st) -> HN (g_hist st) <= k + slots ->
             (HN (g_hist st) = k + slots -> forall t, wr (th st t) = 0%nat) ->
             slot_ok (data st) (g_hist st) k
  }.

  Definition Bnd (st : state) : Prop := HN (g_hist st) < 2 ^ 62.

  Lemma slots_nz : slots <> 0.
  Proof. lia. Qed.

  Lemma unlocked_wr p : is_locked p = false -> wr p = 0%nat.
  Proof. destruct p; cbn; intros; congruence. Qed.

  Lemma locked_lk sq dt h p : is_locked p = true -> pc_ok sq dt h p -> exists q, lockq p = Some q /\ lk sq h q.
  Proof.
    destruct p; cbn; intros E H; try discriminate; eexists; (split; [reflexivity|]); tauto.
  Qed.

  Lemma even_seq_unlocked st : Inv st -> seq st + 2 = 2 * HN (g_hist st) -> forall t, is_locked (th st t) = false.
  Proof.
    intros HI E t. destruct (is_locked (th st t)) eqn:L; [|reflexivity].
    destruct (locked_lk _ _ _ _ L (i_pc st HI t)) as (q & _ & (E1 & E2)). lia.
  Qed.

  Lemma even_seq_nowr st : Inv st -> seq st + 2 = 2 * HN (g_hist st) -> forall t, wr (th st t) = 0%nat.
  Proof. intros HI E t. apply unlocked_wr. eapply even_seq_unlocked; eauto. Qed.

  Lemma holder_nowr st t : Inv st -> is_locked (th st t) = true -> wr (th st t) = 0%nat ->
    forall t', wr (th st t') = 0%nat.
  Proof.
    intros HI L W t'. destruct (is_locked (th st t')) eqn:L'.
    - rewrite (i_mx st HI t' t L' L). exact W.
    - apply unlocked_wr. exact L'.
  Qed.

  (** stability of the per-thread assertion of a thread that does not hold the lock *)
  Lemma pc_ok_mono sq dt h sq' dt' l p :
    is_locked p = false -> sq <= sq' -> pc_ok sq dt h p -> pc_ok sq' dt' (h ++ l) p.
  Proof.
    intros L Hs H.
    assert (Hrd : forall q buf, rd sq h q buf -> rd sq' (h ++ l) q buf).
    { intros q buf (E & Hq & D). unfold rd, HN in *. rewrite app_length. split; [exact E|]. split; [lia|].
      destruct D as [D|D]; [left|right; lia].
      intros j Hj. rewrite (D j Hj). unfold ver. f_equal.
      rewrite app_nth1; [reflexivity|]. dm. }
    destruct p; cbn in *; try discriminate; try exact H; try tauto.
    - destruct H as (? & ?). split; auto.
    - destruct H as (? & ?). split; auto.
    - destruct H as (? & ?). split; auto.
  Qed.

  Lemma inv_init : Inv init.
  Proof.
    constructor; cbn [SeqlockDefs.init seq data th g_hist]; unfold HN; cbn [length].
    - lia.
    - left. reflexivity.
    - intros t. exact I.
    - intros t1 t2 H. discriminate.
    - intros H. discriminate.
    - intros k H1 H2 _ j Hj. replace k with 0 by lia.
      rewrite N.mod_0_l by exact slots_nz. reflexivity.
  Qed.

  Lemma upd_locked (f : nat -> pc) t p x :
    is_locked p = is_locked (f t) -> is_locked (upd f t p x) = is_locked (f x).
  Proof.
    intros L. destruct (Nat.eq_dec x t) as [->|N]; [rewrite upd_same; exact L|rewrite upd_other by exact N; reflexivity].
  Qed.

  (** steps that change neither [seq], [data] nor the history *)
  Lemma inv_frame st t p :
    Inv st -> wr (th st t) = 0%nat -> is_locked p = is_locked (th st t) ->
    pc_ok (seq st) (data st) (g_hist st) p ->
    Inv (mkSt (seq st) (data st) (upd (th st) t p) (g_hist st)).
  Proof.
    intros HI W L P. constructor; cbn [seq data th g_hist].
    - apply HI.
    - apply HI.
    - intros t'. destruct (Nat.eq_dec t' t) as [->|N]; [rewrite upd_same; exact P|rewrite upd_other by exact N; apply HI].
    - intros t1 t2. rewrite !upd_locked by exact L. apply HI.
    - intros E. destruct (i_lk st HI E) as (t0 & L0). exists t0. rewrite upd_locked by exact L. exact L0.
    - intros k H1 H2 H3. apply (i_slot st HI k H1 H2). intros E t'. specialize (H3 E t').
      destruct (Nat.eq_dec t' t) as [->|N]; [exact W|rewrite upd_other in H3 by exact N; exact H3].
  Qed.

  Lemma seq_bound st : Inv st -> Bnd st -> seq st < 2 ^ 63.
  Proof.
    intros HI HB. unfold Bnd in HB. rewrite pow2_62 in HB. change (2 ^ 63) with 9223372036854775808.
    destruct (i_seq st HI); lia.
  Qed.

  Lemma ld_next_unlocked q : is_locked (ld_next slots q) = false.
  Proof. unfold ld_next. destruct (slots =? 1); [destruct (odd q)|]; reflexivity. Qed.

  Lemma aq_next_unlocked o q : is_locked (aq_next o q) = false.
  Proof. unfold aq_next. destruct (odd q); reflexivity. Qed.

  Lemma ld_next_ok st : Inv st -> Bnd st -> pc_ok (seq st) (data st) (g_hist st) (ld_next slots (seq st)).
  Proof.
    intros HI HB. pose proof (seq_bound st HI HB) as HS. pose proof (i_seq st HI) as Hq.
    change (2 ^ 63) with 9223372036854775808 in HS.
    unfold ld_next. destruct (N.eqb_spec slots 1) as [E1|E1].
    - destruct (odd (seq st)) eqn:Eo; [exact I|]. apply odd_false in Eo.
      cbn [pc_ok]. unfold rd. cbn [length]. rewrite E1, N.mod_1_r.
      repeat split; try lia; try exact Eo; try dm. left. intros j Hj. lia.
    - cbv zeta. rewrite wshr_1. rewrite wshl_1 by (change (2 ^ 63) with 9223372036854775808; dm).
      cbn [pc_ok]. unfold rd, wmod. cbn [length].
      replace (2 * (seq st / 2) / 2) with (seq st / 2) by dm.
      repeat split; try lia; try dm. left. intros j Hj. lia.
  Qed.

  Lemma aq_next_ok sq dt h o q : o <> OLoad -> pc_ok sq dt h (aq_next o q).
  Proof.
    intros H. unfold aq_next. destruct (odd q) eqn:Eo; cbn [pc_ok]; [exact H|].
    split; [exact H|]. apply odd_false. exact Eo.
  Qed.

  (** a reader of version [k] reads one word of slot [k mod slots] *)
  Lemma read_word st k j :
    Inv st -> k < HN (g_hist st) -> (j < words)%nat ->
    data st (k mod slots) j = nth j (ver (g_hist st) k) 0 \/ 2 * k + 2 * slots <= seq st + 1.
  Proof.
    intros HI Hk Hj. pose proof (i_seq st HI) as Hq.
    destruct (N.le_gt_cases (HN (g_hist st)) (k + slots)) as [Hle|Hgt]; [|right; lia].
    destruct Hq as [Hq|Hq].
    - left. apply (i_slot st HI k Hk Hle); [|exact Hj]. intros _. apply even_seq_nowr; assumption.
    - destruct (N.eq_dec (HN (g_hist st)) (k + slots)) as [E|E]; [right; lia|].
      left. apply (i_slot st HI k Hk Hle); [|exact Hj]. intros E'. contradiction.
  Qed.

  Lemma rd_snoc st q buf :
    Inv st -> rd (seq st) (g_hist st) q buf -> (length buf < words)%nat ->
    rd (seq st) (g_hist st) q (buf ++ [data st ((q / 2) mod slots) (length buf)]).
  Proof.
    intros HI (E & Hq & D) Hl. split; [exact E|]. split; [exact Hq|].
    destruct D as [D|D]; [|right; exact D].
    destruct (read_word st (q / 2) (length buf) HI ltac:(dm) Hl) as [R|R]; [|right; dm].
    left. intros j Hj. rewrite app_length in Hj. cbn [length] in Hj.
    destruct (Nat.eq_dec j (length buf)) as [->|N].
    - rewrite nth_snoc_eq. exact R.
    - rewrite nth_snoc_lt by lia. apply D. lia.
  Qed.

  Lemma pc_ok_mono0 sq dt h sq' dt' p :
    is_locked p = false -> sq <= sq' -> pc_ok sq dt h p -> pc_ok sq' dt' h p.
  Proof. intros L Hs H. rewrite <- (app_nil_r h). eapply pc_ok_mono; eauto. Qed.

  Lemma ver_snoc_lt h v k : k < HN h -> ver (h ++ [v]) k = ver h k.
  Proof. intros H. unfold ver, HN in *. apply app_nth1. lia. Qed.

  Lemma ver_snoc_eq h v : ver (h ++ [v]) (HN h) = v.
  Proof. unfold ver, HN. rewrite Nat2N.id. rewrite app_nth2 by lia. rewrite Nat.sub_diag. reflexivity. Qed.

  Lemma locked_next_props o q : o <> OLoad -> is_locked (locked_next slots o q) = true /\ wr (locked_next slots o q) = 0%nat.
  Proof. intros H. destruct o; [contradiction| |]; split; reflexivity.
  Qed.

  Lemma locked_next_ok dt h o q :
    o <> OLoad -> 1 <= HN h -> HN h < 2 ^ 62 -> q + 2 = 2 * HN h -> pc_ok (q + 1) dt h (locked_next slots o q).
  Proof.
    intros Ho H1 HB Hq. rewrite pow2_62 in HB. unfold locked_next. cbv zeta.
    rewrite (wadd_small 64 q 1) by (rewrite pow2_64; lia). rewrite wshr_1.
    replace ((q + 1) / 2) with (HN h - 1) by dm.
    destruct o; [contradiction| |]; cbn [pc_ok]; unfold lk, wmod.
    - rewrite (wadd_small 64 (HN h - 1) 1) by (rewrite pow2_64; lia). replace (HN h - 1 + 1) with (HN h) by lia. auto.
    - cbn [length]. repeat split; try lia.
  Qed.

  Lemma hist_mono st a st' es : step st a = Some (st', es) -> HN (g_hist st) <= HN (g_hist st').
  Proof.
    intros Hs. unfold SeqlockDefs.step in Hs. destruct a as [t o|t]; destruct (th st t); try discriminate;
      try (inversion Hs; subst; cbn [g_hist]; lia).
    - destruct o; inversion Hs; subst; cbn [g_hist]; lia.
    - destruct (_ <? _); inversion Hs; subst; cbn [g_hist]; lia.
    - destruct (_ =? _); inversion Hs; subst; cbn [g_hist]; lia.
    - inversion Hs; subst; cbn [g_hist]. unfold HN. rewrite app_length. lia.
  Qed.

  Lemma step_inv st a st' es : Inv st -> Bnd st' -> step st a = Some (st', es) -> Inv st'.
  Proof.
    intros HI HB' Hs.
    assert (HB : Bnd st) by (pose proof (hist_mono _ _ _ _ Hs); unfold Bnd in *; lia).
    unfold SeqlockDefs.step in Hs. destruct a as [t o|t].
    - destruct (th st t) eqn:Hpc; try discriminate. inversion Hs; subst; clear Hs.
      apply inv_frame; [exact HI|rewrite Hpc; reflexivity|rewrite Hpc; reflexivity|exact I].
    - pose proof (i_pc st HI t) as P. destruct (th st t) eqn:Hpc; cbn [pc_ok] in P.
      + discriminate.
      + (* Begin *)
        destruct o; inversion Hs; subst; clear Hs;
          (apply inv_frame; [exact HI|rewrite Hpc; reflexivity|rewrite Hpc; reflexivity|cbn [pc_ok]; try exact I; discriminate]).
      + (* Ld1 *)
        inversion Hs; subst; clear Hs.
        apply inv_frame; [exact HI|rewrite Hpc; reflexivity|rewrite Hpc; apply ld_next_unlocked|apply ld_next_ok; assumption].
      + (* LdSpin *)
        inversion Hs; subst; clear Hs.
        apply inv_frame; [exact HI|rewrite Hpc; reflexivity|rewrite Hpc; apply ld_next_unlocked|apply ld_next_ok; assumption].
      + (* LdW *)
        destruct P as (R & Hl & Hi & Hidx). subst i idx.
        pose proof (rd_snoc st q buf HI R Hi) as R'.
        destruct (Nat.eqb_spec (S (length buf)) words) as [E|E]; inversion Hs; subst st' es; clear Hs;
          (apply inv_frame; [exact HI|rewrite Hpc; reflexivity|rewrite Hpc; reflexivity|]); cbn [pc_ok].
        * split; [exact R'|]. rewrite app_length. cbn [length]. lia.
        * split; [exact R'|]. rewrite app_length. cbn [length]. repeat split; lia.
      + (* LdF *)
        inversion Hs; subst; clear Hs.
        apply inv_frame; [exact HI|rewrite Hpc; reflexivity|rewrite Hpc; reflexivity|exact P].
      + (* Ld3 *)
        destruct (_ <? _); inversion Hs; subst; clear Hs.
        * apply inv_frame; [exact HI|rewrite Hpc; reflexivity|rewrite Hpc; reflexivity|exact I].
        * apply inv_frame; [exact HI|rewrite Hpc; reflexivity|rewrite Hpc; apply ld_next_unlocked|apply ld_next_ok; assumption].
      + (* Aq1 *)
        inversion Hs; subst; clear Hs.
        apply inv_frame; [exact HI|rewrite Hpc; reflexivity|rewrite Hpc; apply aq_next_unlocked|apply aq_next_ok; exact P].
      + (* AqSpin *)
        inversion Hs; subst; clear Hs.
        apply inv_frame; [exact HI|rewrite Hpc; reflexivity|rewrite Hpc; apply aq_next_unlocked|apply aq_next_ok; exact P].
      + (* AqCas *)
        destruct P as (Po & Pq).
        destruct (N.eqb_spec (seq st) q) as [E|E]; inversion Hs; subst st' es; clear Hs.
        * (* CAS succeeds *)
          assert (Ev : seq st + 2 = 2 * HN (g_hist st)) by (destruct (i_seq st HI); [assumption|dm]).
          pose proof (even_seq_unlocked st HI Ev) as UL.
          pose proof (locked_next_props o q Po) as (LN & WN).
          assert (HB2 := HB). unfold Bnd in HB2. rewrite pow2_62 in HB2.
          rewrite (wadd_small 64 q 1) by (rewrite pow2_64; lia).
          constructor; cbn [seq data th g_hist].
          -- apply HI.
          -- right. lia.
          -- intros t'. destruct (Nat.eq_dec t' t) as [->|N].
             ++ rewrite upd_same. apply locked_next_ok; [exact Po|apply HI|exact HB|lia].
             ++ rewrite upd_other by exact N. eapply pc_ok_mono0; [apply UL| |apply HI]. lia.
          -- intros t1 t2 L1 L2.
             assert (X : forall x, is_locked (upd (th st) t (locked_next slots o q) x) = true -> x = t).
             { intros x Lx. destruct (Nat.eq_dec x t) as [->|N]; [reflexivity|].
               rewrite upd_other in Lx by exact N. rewrite UL in Lx. discriminate. }
             rewrite (X t1 L1), (X t2 L2). reflexivity.
          -- intros _. exists t. rewrite upd_same. exact LN.
          -- intros k H1 H2 H3. apply (i_slot st HI k H1 H2). intros _. apply even_seq_nowr; assumption.
        * apply inv_frame; [exact HI|rewrite Hpc; reflexivity|rewrite Hpc; apply aq_next_unlocked|apply aq_next_ok; exact Po].
      + (* StF *)
        destruct P as (Pl & Pi).
        inversion Hs; subst st' es; clear Hs.
        apply inv_frame; [exact HI|rewrite Hpc; reflexivity|rewrite Hpc; reflexivity|]. cbn [pc_ok].
        split; [exact Pl|]. split; [exact Pi|]. split; [lia|]. split; [intros j Hj; lia|].
        intros j Hj Hsl. pose proof (i_h st HI) as H1.
        assert (SO : slot_ok (data st) (g_hist st) (HN (g_hist st) - slots)).
        { apply (i_slot st HI); [lia|lia|]. intros _. apply (holder_nowr st t HI); rewrite Hpc; reflexivity. }
        rewrite <- (SO j) by lia. rewrite mod_sub_self by (try apply slots_nz; assumption). rewrite Pi. reflexivity.
      + (* StW *)
        destruct P as (Pl & Pi & Pw & Pd & Po).
        assert (Lt : is_locked (th st t) = true) by (rewrite Hpc; reflexivity).
        set (p' := if Nat.eqb (S i) words then Rel q v else StW q idx (S i) v) in Hs.
        assert (Lp : is_locked p' = is_locked (th st t)) by (rewrite Lt; unfold p'; destruct (Nat.eqb (S i) words); reflexivity).
        assert (Wp : wr p' <> 0%nat) by (unfold p'; destruct (Nat.eqb (S i) words); cbn [wr]; lia).
        inversion Hs; subst st' es; clear Hs.
        constructor; cbn [seq data th g_hist].
        * apply HI.
        * apply HI.
        * intros t'. destruct (Nat.eq_dec t' t) as [->|N].
          -- rewrite upd_same. unfold p'. destruct (Nat.eqb_spec (S i) words) as [E|E]; cbn [pc_ok].
             ++ split; [exact Pl|]. intros j Hj. rewrite <- Pi. unfold setd. rewrite N.eqb_refl. cbn [andb].
                destruct (Nat.eqb_spec j i) as [->|Nj]; [reflexivity|]. apply Pd. lia.
             ++ split; [exact Pl|]. split; [exact Pi|]. split; [lia|]. split.
                ** intros j Hj. unfold setd. rewrite N.eqb_refl. cbn [andb].
                   destruct (Nat.eqb_spec j i) as [->|Nj]; [reflexivity|]. apply Pd. lia.
                ** intros j Hj Hsl. unfold setd. rewrite N.eqb_refl. cbn [andb].
                   destruct (Nat.eqb_spec j i) as [->|Nj]; [lia|]. apply Po; [lia|exact Hsl].
          -- rewrite upd_other by exact N.
             assert (UL : is_locked (th st t') = false).
             { destruct (is_locked (th st t')) eqn:L'; [|reflexivity]. elim N. apply (i_mx st HI); assumption. }
             eapply pc_ok_mono0; [exact UL| |apply HI]. lia.
        * intros t1 t2. rewrite !upd_locked by exact Lp. apply HI.
        * intros E. destruct (i_lk st HI E) as (t0 & L0). exists t0. rewrite upd_locked by exact Lp. exact L0.
        * intros k H1 H2 H3.
          destruct (N.eq_dec (HN (g_hist st)) (k + slots)) as [E|E].
          -- specialize (H3 E t). rewrite upd_same in H3. contradiction.
          -- intros j Hj. unfold setd.
             assert (Nk : k mod slots <> idx).
             { rewrite Pi. apply mod_neq_window; [apply slots_nz|exact H1|lia]. }
             apply N.eqb_neq in Nk. rewrite Nk. cbn [andb].
             apply (i_slot st HI k H1 H2); [|exact Hj]. intros E'. contradiction.
      + (* Rel *)
        destruct P as ((Pq & Ps) & Pd).
        assert (Lt : is_locked (th st t) = true) by (rewrite Hpc; reflexivity).
        inversion Hs; subst st' es; clear Hs.
        assert (HB2 := HB). unfold Bnd in HB2. rewrite pow2_62 in HB2.
        rewrite (wadd_small 64 q 2) by (rewrite pow2_64; lia).
        assert (UL : forall x, x <> t -> is_locked (th st x) = false).
        { intros x N. destruct (is_locked (th st x)) eqn:L'; [|reflexivity]. elim N. apply (i_mx st HI); assumption. }
        assert (HH : HN (g_hist st ++ [v]) = HN (g_hist st) + 1) by (unfold HN; rewrite app_length; cbn [length]; lia).
        constructor; cbn [seq data th g_hist]; rewrite ?HH.
        * pose proof (i_h st HI). lia.
        * left. lia.
        * intros t'. destruct (Nat.eq_dec t' t) as [->|N].
          -- rewrite upd_same. exact I.
          -- rewrite upd_other by exact N. eapply pc_ok_mono; [apply UL; exact N| |apply HI]. lia.
        * intros t1 t2 L1 L2. exfalso.
          destruct (Nat.eq_dec t1 t) as [->|N]; [rewrite upd_same in L1; discriminate|].
          rewrite upd_other in L1 by exact N. rewrite UL in L1 by exact N. discriminate.
        * intros E. lia.
        * intros k H1 H2 H3 j Hj.
          destruct (N.eq_dec k (HN (g_hist st))) as [->|Nk].
          -- rewrite ver_snoc_eq. apply Pd. exact Hj.
          -- rewrite ver_snoc_lt by lia. apply (i_slot st HI k); [lia|lia| |exact Hj]. intros E. lia.
      + (* UpR *)
        destruct P as (Pl & Pi & Pb & Pw & Pd). subst i.
        assert (Lt : is_locked (th st t) = true) by (rewrite Hpc; reflexivity).
        pose proof (i_h st HI) as H1.
        assert (SO : slot_ok (data st) (g_hist st) (HN (g_hist st) - 1)).
        { apply (i_slot st HI); [lia|lia|]. intros _. apply (holder_nowr st t HI); [exact Lt|rewrite Hpc; reflexivity]. }
        assert (D' : forall j, (j < S (length buf))%nat ->
                  nth j (buf ++ [data st idx (length buf)]) 0 = nth j (ver (g_hist st) (HN (g_hist st) - 1)) 0).
        { intros j Hj. destruct (Nat.eq_dec j (length buf)) as [->|N].
          - rewrite nth_snoc_eq. rewrite Pi. apply SO. exact Pw.
          - rewrite nth_snoc_lt by lia. apply Pd. lia. }
        destruct (Nat.eqb_spec (S (length buf)) words) as [E|E]; inversion Hs; subst st' es; clear Hs;
          (apply inv_frame; [exact HI|rewrite Hpc; reflexivity|rewrite Hpc; reflexivity|]); cbn [pc_ok];
          (split; [exact Pl|]); (split; [exact Pi|]); rewrite app_length; cbn [length].
        * split; [lia|]. rewrite <- E. exact D'.
        * split; [lia|]. split; [lia|]. exact D'.
      + (* UpF *)
        destruct P as (Pl & Pi & Pb & Pd).
        inversion Hs; subst st' es; clear Hs.
        apply inv_frame; [exact HI|rewrite Hpc; reflexivity|rewrite Hpc; reflexivity|]. cbn [pc_ok].
        split; [exact Pl|]. pose proof (i_h st HI) as H1.
        assert (idx < slots) by (rewrite Pi; apply N.mod_lt; apply slots_nz).
        rewrite pow2_30 in slots_small.
        rewrite (wadd_small 64 idx 1) by (rewrite pow2_64; lia). unfold wmod.
        rewrite Pi. rewrite mod_succ by apply slots_nz. f_equal. lia.
  Qed.

  Theorem seqlock_inv st : reach init step st -> Bnd st -> Inv st.
  Proof.
    intros Hr. induction Hr as [|s a s' es Hr IH Hst]; intros HB.
    - apply inv_init.
    - eapply step_inv; [apply IH|exact HB|exact Hst].
      pose proof (hist_mono _ _ _ _ Hst). unfold Bnd in *. lia.
  Qed.

  (** * 4. Results *)

  (** index of the current (latest published) version *)
  Definition cur (st : state) : N := N.of_nat (length (g_hist st) - 1).

  Lemma cur_HN st : 1 <= HN (g_hist st) -> cur st = HN (g_hist st) - 1.
  Proof. unfold cur, HN. lia. Qed.

  (** A. version counter and writer mutual exclusion *)
  Theorem seqlock_version st :
    reach init step st -> Bnd st ->
    (((exists t, is_locked (th st t) = true) /\ seq st = 2 * cur st + 1) \/
     ((forall t, is_locked (th st t) = false) /\ seq st = 2 * cur st)) /\
    (forall t1 t2, is_locked (th st t1) = true -> is_locked (th st t2) = true -> t1 = t2) /\
    (forall t q, lockq (th st t) = Some q -> q = 2 * cur st) /\
    (forall t o q, th st t = AqCas o q -> q mod 2 = 0).
  Proof.
    intros Hr HB. pose proof (seqlock_inv st Hr HB) as HI. pose proof (i_h st HI) as H1.
    rewrite (cur_HN st H1). split; [|split; [|split]].
    - destruct (i_seq st HI) as [E|E].
      + right. split; [apply even_seq_unlocked; assumption|lia].
      + left. split; [apply (i_lk st HI E)|lia].
    - apply HI.
    - intros t q Hq. assert (L : is_locked (th st t) = true) by (unfold is_locked; rewrite Hq; reflexivity).
      destruct (locked_lk _ _ _ _ L (i_pc st HI t)) as (q' & E1 & E2 & E3). rewrite Hq in E1. inversion E1; subst q'. lia.
    - intros t o q Hpc. pose proof (i_pc st HI t) as P. rewrite Hpc in P. apply P.
  Qed.

  (** B. contents of the slots: each of the last [slots] versions is intact in its slot, except the
      oldest of them while the lock holder has started to overwrite it *)
  Theorem seqlock_slot_content st k :
    reach init step st -> Bnd st ->
    k <= cur st -> cur st < k + slots ->
    (cur st + 1 = k + slots -> forall t, wr (th st t) = 0%nat) ->
    forall i, (i < words)%nat -> data st (k mod slots) i = nth i (nth (N.to_nat k) (g_hist st) []) 0.
  Proof.
    intros Hr HB. pose proof (seqlock_inv st Hr HB) as HI. pose proof (i_h st HI) as H1.
    rewrite (cur_HN st H1). intros Hk1 Hk2 Hw.
    apply (i_slot st HI k); [lia|lia|]. intros E. apply Hw. lia.
  Qed.

  (** while no thread holds the lock, all of the last [slots] versions are intact *)
  Corollary seqlock_slot_content_unlocked st k :
    reach init step st -> Bnd st -> seq st mod 2 = 0 ->
    k <= cur st -> cur st < k + slots ->
    forall i, (i < words)%nat -> data st (k mod slots) i = nth i (nth (N.to_nat k) (g_hist st) []) 0.
  Proof.
    intros Hr HB Ev Hk1 Hk2. apply seqlock_slot_content; try assumption.
    pose proof (seqlock_inv st Hr HB) as HI. intros _. apply even_seq_nowr; [exact HI|].
    destruct (i_seq st HI); [assumption|dm].
  Qed.

  (** the writer of version [cur+1] at word [i]: the first [i] words of its slot are new, the rest
      still belong to version [cur+1-slots] *)
  Theorem seqlock_store_progress st t q idx i v :
    reach init step st -> Bnd st -> th st t = StW q idx i v ->
    idx = (cur st + 1) mod slots /\ (i < words)%nat /\
    (forall j, (j < i)%nat -> data st idx j = nth j v 0) /\
    (forall j, (i <= j < words)%nat -> slots <= cur st + 1 ->
       data st idx j = nth j (nth (N.to_nat (cur st + 1 - slots)) (g_hist st) []) 0).
  Proof.
    intros Hr HB Hpc. pose proof (seqlock_inv st Hr HB) as HI. pose proof (i_h st HI) as H1.
    rewrite (cur_HN st H1). replace (HN (g_hist st) - 1 + 1) with (HN (g_hist st)) by lia.
    pose proof (i_pc st HI t) as P. rewrite Hpc in P. cbn [pc_ok] in P. tauto.
  Qed.

  Theorem seqlock_store_complete st t q v :
    reach init step st -> Bnd st -> th st t = Rel q v ->
    forall j, (j < words)%nat -> data st ((cur st + 1) mod slots) j = nth j v 0.
  Proof.
    intros Hr HB Hpc. pose proof (seqlock_inv st Hr HB) as HI. pose proof (i_h st HI) as H1.
    rewrite (cur_HN st H1). replace (HN (g_hist st) - 1 + 1) with (HN (g_hist st)) by lia.
    pose proof (i_pc st HI t) as P. rewrite Hpc in P. cbn [pc_ok] in P. tauto.
  Qed.

  (** C. a load returns the complete value (all [words] words) of a published version *)
  Theorem seqlock_load_atomic st t q buf st' es r :
    reach init step st -> Bnd st ->
    th st t = Ld3 q buf -> step st (Step t) = Some (st', es) -> In (ERet t r) es ->
    q mod 2 = 0 /\ q / 2 <= cur st /\ r = normw words (nth (N.to_nat (q / 2)) (g_hist st) []).
  Proof.
    intros Hr HB Hpc Hs Hin. pose proof (seqlock_inv st Hr HB) as HI. pose proof (i_h st HI) as H1.
    rewrite (cur_HN st H1).
    pose proof (i_pc st HI t) as P. rewrite Hpc in P. cbn [pc_ok] in P. destruct P as ((Ev & Hq & D) & Hl).
    split; [exact Ev|]. split; [dm|].
    unfold SeqlockDefs.step in Hs. rewrite Hpc in Hs.
    destruct (wsub 64 (seq st) q <? wsub 32 (wmul 32 2 slots) 1) eqn:T; inversion Hs; subst st' es; clear Hs.
    - cbn [app In] in Hin. destruct Hin as [X|[X|[]]]; [discriminate|]. inversion X; subst r.
      apply eq_normw; [exact Hl|]. rewrite <- Hl.
      destruct D as [D|D]; [exact D|exfalso].
      pose proof (seq_bound st HI HB) as HS. change (2 ^ 63) with 9223372036854775808 in HS.
      apply N.ltb_lt in T. unfold wmul in T. rewrite pow2_30 in slots_small.
      rewrite (N.mod_small (2 * slots)) in T by (rewrite pow2_32; lia).
      rewrite (wsub_small 32) in T by (try rewrite pow2_32; lia).
      pose proof (i_seq st HI) as Hsq.
      rewrite (wsub_small 64) in T by (try rewrite pow2_64; lia). lia.
    - cbn [In] in Hin. destruct Hin as [X|[]]. discriminate.
  Qed.

  Corollary seqlock_load_atomic_exact st t q buf st' es r :
    reach init step st -> Bnd st ->
    th st t = Ld3 q buf -> step st (Step t) = Some (st', es) -> In (ERet t r) es ->
    length (nth (N.to_nat (q / 2)) (g_hist st) []) = words ->
    r = nth (N.to_nat (q / 2)) (g_hist st) [].
  Proof.
    intros Hr HB Hpc Hs Hin Hl.
    destruct (seqlock_load_atomic _ _ _ _ _ _ _ Hr HB Hpc Hs Hin) as (_ & _ & E).
    rewrite E. apply normw_id. exact Hl.
  Qed.

  (** the reader invariant behind C *)
  Theorem seqlock_reader st t :
    reach init step st -> Bnd st ->
    forall q buf, (exists idx i, th st t = LdW q idx i buf) \/ th st t = LdF q buf \/ th st t = Ld3 q buf ->
    q mod 2 = 0 /\ q / 2 <= cur st /\
    ((forall j, (j < length buf)%nat -> nth j buf 0 = nth j (nth (N.to_nat (q / 2)) (g_hist st) []) 0) \/
     q + 2 * slots <= seq st + 1).
  Proof.
    intros Hr HB q buf Hpc. pose proof (seqlock_inv st Hr HB) as HI. pose proof (i_h st HI) as H1.
    rewrite (cur_HN st H1). pose proof (i_pc st HI t) as P.
    assert (R : rd (seq st) (g_hist st) q buf).
    { destruct Hpc as [(idx & i & E)|[E|E]]; rewrite E in P; cbn [pc_ok] in P; tauto. }
    destruct R as (Ev & Hq & D). split; [exact Ev|]. split; [dm|exact D].
  Qed.

  (** D. an update reads the latest version under the lock *)
  Theorem seqlock_update_atomic st t q idx buf d :
    reach init step st -> Bnd st -> th st t = UpF q idx buf d ->
    buf = normw words (nth (length (g_hist st) - 1) (g_hist st) []).
  Proof.
    intros Hr HB Hpc. pose proof (seqlock_inv st Hr HB) as HI. pose proof (i_h st HI) as H1.
    pose proof (i_pc st HI t) as P. rewrite Hpc in P. cbn [pc_ok] in P. destruct P as (_ & _ & Hl & D).
    apply eq_normw; [exact Hl|]. intros j Hj. rewrite (D j Hj). unfold ver, HN. f_equal. f_equal. lia.
  Qed.

  (** ... and hands [func d latest] to store_data, still under the lock *)
  Theorem seqlock_update_publishes st t q idx buf d st' es :
    reach init step st -> Bnd st -> th st t = UpF q idx buf d -> step st (Step t) = Some (st', es) ->
    th st' t = StF q ((cur st + 1) mod slots) (func d (normw words (nth (length (g_hist st) - 1) (g_hist st) []))) /\
    g_hist st' = g_hist st.
  Proof.
    intros Hr HB Hpc Hs. rewrite <- (seqlock_update_atomic _ _ _ _ _ _ Hr HB Hpc).
    pose proof (seqlock_inv st Hr HB) as HI. pose proof (i_h st HI) as H1.
    pose proof (i_pc st HI t) as P. rewrite Hpc in P. cbn [pc_ok] in P. destruct P as (_ & Pi & _).
    unfold SeqlockDefs.step in Hs. rewrite Hpc in Hs. inversion Hs; subst st' es; clear Hs.
    cbn [th g_hist]. rewrite upd_same. split; [|reflexivity]. f_equal.
    assert (idx < slots) by (rewrite Pi; apply N.mod_lt; apply slots_nz).
    rewrite pow2_30 in slots_small.
    rewrite (wadd_small 64 idx 1) by (rewrite pow2_64; lia). unfold wmod.
    rewrite Pi. rewrite mod_succ by apply slots_nz. f_equal. rewrite (cur_HN st H1). lia.
  Qed.

  (** while [t] holds the lock no other thread publishes a value or changes [t]'s program counter;
      the value [v] carried through StF/StW/Rel is appended to the history by [t]'s Rel step *)
  Theorem seqlock_lock_stable st t a st' es :
    reach init step st -> Bnd st -> is_locked (th st t) = true -> a <> Step t ->
    step st a = Some (st', es) -> g_hist st' = g_hist st /\ th st' t = th st t.
  Proof.
    intros Hr HB L Na Hs. pose proof (seqlock_inv st Hr HB) as HI.
    assert (X : forall t', is_locked (th st t') = false -> t' <> t) by (intros t' L' ->; congruence).
    unfold SeqlockDefs.step in Hs. destruct a as [t' o|t'].
    - destruct (th st t') eqn:Hpc; try discriminate. inversion Hs; subst; cbn [th g_hist].
      split; [reflexivity|]. rewrite upd_other; [reflexivity|]. apply not_eq_sym, X. rewrite Hpc. reflexivity.
    - assert (N : t <> t') by congruence.
      destruct (th st t') eqn:Hpc; try discriminate;
        try (inversion Hs; subst; cbn [th g_hist]; split; [reflexivity|]; rewrite upd_other by exact N; reflexivity).
      + destruct o; inversion Hs; subst; cbn [th g_hist]; (split; [reflexivity|]); rewrite upd_other by exact N; reflexivity.
      + destruct (_ <? _); inversion Hs; subst; cbn [th g_hist]; (split; [reflexivity|]); rewrite upd_other by exact N; reflexivity.
      + destruct (_ =? _); inversion Hs; subst; cbn [th g_hist]; (split; [reflexivity|]); rewrite upd_other by exact N; reflexivity.
      + exfalso. apply N. apply (i_mx st HI); [exact L|rewrite Hpc; reflexivity].
  Qed.

  Theorem seqlock_release_publishes st t q v st' es :
    th st t = Rel q v -> step st (Step t) = Some (st', es) -> g_hist st' = g_hist st ++ [v].
  Proof.
    intros Hpc Hs. unfold SeqlockDefs.step in Hs. rewrite Hpc in Hs. inversion Hs; subst. reflexivity.
  Qed.

  (** a thread's program counter is only changed by its own actions *)
  Lemma step_other st a st' es t :
    step st a = Some (st', es) -> (forall o, a <> Start t o) -> a <> Step t -> th st' t = th st t.
  Proof.
    intros Hs N1 N2. unfold SeqlockDefs.step in Hs. destruct a as [t' o|t'].
    - assert (N : t <> t') by (intros ->; apply (N1 o); reflexivity).
      destruct (th st t'); try discriminate. inversion Hs; subst; cbn [th]. apply upd_other. exact N.
    - assert (N : t <> t') by congruence.
      destruct (th st t') eqn:Hpc; try discriminate;
        try (inversion Hs; subst; cbn [th]; apply upd_other; exact N).
      + destruct o; inversion Hs; subst; cbn [th]; apply upd_other; exact N.
      + destruct (_ <? _); inversion Hs; subst; cbn [th]; apply upd_other; exact N.
      + destruct (_ =? _); inversion Hs; subst; cbn [th]; apply upd_other; exact N.
  Qed.

  (** C'. which version a load returns: the sequence value [q] of a reader is fixed when it enters
      the copy loop, and at that moment [q/2] is the current version.  Together with
      [seqlock_load_atomic]: a load returns the version that was current at its last (successful)
      initial read of the sequence counter. *)
  Definition rd_q (p : pc) : option N :=
    match p with LdW q _ _ _ | LdF q _ | Ld3 q _ => Some q | _ => None end.

  Lemma ld_next_fresh st q :
    Inv st -> Bnd st -> rd_q (ld_next slots (seq st)) = Some q ->
    q / 2 = cur st /\ exists idx, ld_next slots (seq st) = LdW q idx 0 [].
  Proof.
    intros HI HB. pose proof (seq_bound st HI HB) as HS. pose proof (i_seq st HI) as Hq.
    pose proof (i_h st HI) as H1. rewrite (cur_HN st H1).
    change (2 ^ 63) with 9223372036854775808 in HS.
    unfold ld_next. destruct (N.eqb_spec slots 1) as [E1|E1].
    - destruct (odd (seq st)) eqn:Eo; cbn [rd_q]; [discriminate|]. apply odd_false in Eo.
      intros X; inversion X; subst q. split; [dm|]. eexists; reflexivity.
    - cbv zeta. rewrite wshr_1. rewrite wshl_1 by (change (2 ^ 63) with 9223372036854775808; dm).
      cbn [rd_q]. intros X. assert (Eq : q = 2 * (seq st / 2)) by congruence. clear X. subst q.
      split; [dm|]. eexists; reflexivity.
  Qed.

  Theorem seqlock_load_version st a st' es t q :
    reach init step st -> Bnd st -> step st a = Some (st', es) -> rd_q (th st' t) = Some q ->
    rd_q (th st t) = Some q \/
    (a = Step t /\ q / 2 = cur st /\ g_hist st' = g_hist st /\ exists idx, th st' t = LdW q idx 0 []).
  Proof.
    intros Hr HB Hs Hq. pose proof (seqlock_inv st Hr HB) as HI.
    destruct a as [t' o|t'].
    - destruct (Nat.eq_dec t' t) as [->|N].
      + unfold SeqlockDefs.step in Hs. destruct (th st t); try discriminate. inversion Hs; subst.
        cbn [th] in Hq. rewrite upd_same in Hq. discriminate.
      + left. rewrite <- (step_other _ _ _ _ t Hs); [exact Hq|congruence|discriminate].
    - destruct (Nat.eq_dec t' t) as [->|N].
      2:{ left. rewrite <- (step_other _ _ _ _ t Hs); [exact Hq|discriminate|congruence]. }
      unfold SeqlockDefs.step in Hs.
      assert (F : forall e, Some (mkSt (seq st) (data st) (upd (th st) t (ld_next slots (seq st))) (g_hist st), e) = Some (st', es) ->
                  Step t = Step t /\ q / 2 = cur st /\ g_hist st' = g_hist st /\ exists idx, th st' t = LdW q idx 0 []).
      { intros e X. inversion X; subst st' es. cbn [th g_hist] in *. rewrite upd_same in *.
        destruct (ld_next_fresh st q HI HB Hq) as (E & idx & E'). rewrite E'. eauto. }
      destruct (th st t) eqn:Hpc; try discriminate.
      + destruct o; inversion Hs; subst; cbn [th] in Hq; rewrite upd_same in Hq; discriminate.
      + right. eapply F; exact Hs.
      + right. eapply F; exact Hs.
      + left. destruct (Nat.eqb (S i) words); inversion Hs; subst; cbn [th] in Hq; rewrite upd_same in Hq; exact Hq.
      + left. inversion Hs; subst; cbn [th] in Hq; rewrite upd_same in Hq; exact Hq.
      + destruct (_ <? _).
        * inversion Hs; subst; cbn [th] in Hq; rewrite upd_same in Hq; discriminate.
        * right. eapply F; exact Hs.
      + inversion Hs; subst; cbn [th] in Hq; rewrite upd_same in Hq. unfold aq_next in Hq. destruct (odd _); discriminate.
      + inversion Hs; subst; cbn [th] in Hq; rewrite upd_same in Hq. unfold aq_next in Hq. destruct (odd _); discriminate.
      + destruct (_ =? _); inversion Hs; subst; cbn [th] in Hq; rewrite upd_same in Hq.
        * destruct o; discriminate.
        * unfold aq_next in Hq. destruct (odd _); discriminate.
      + inversion Hs; subst; cbn [th] in Hq; rewrite upd_same in Hq; discriminate.
      + destruct (Nat.eqb (S i) words); inversion Hs; subst; cbn [th] in Hq; rewrite upd_same in Hq; discriminate.
      + inversion Hs; subst; cbn [th] in Hq; rewrite upd_same in Hq; discriminate.
      + destruct (Nat.eqb (S i) words); inversion Hs; subst; cbn [th] in Hq; rewrite upd_same in Hq; discriminate.
      + inversion Hs; subst; cbn [th] in Hq; rewrite upd_same in Hq; discriminate.
  Qed.

  (** * 5. Well-sized arguments: exact values

      [Start t (OStore id v)] accepts a [v] of any length; store_data then writes the first [words]
      words of [v] (zero padded) while the ghost history records [v] itself, hence the [normw] above.
      When every started store carries exactly [words] words, all published values have [words]
      words and [normw] disappears. *)
  Hypothesis v0_len : length v0 = words.
  Hypothesis func_len : forall d b, length (func d b) = words.

  Definition op_wf (o : op) : Prop := match o with OStore _ v => length v = words | _ => True end.
  Definition act_wf (a : action) : Prop := match a with Start _ o => op_wf o | Step _ => True end.

  Inductive reach_wf : state -> Prop :=
  | rw_init : reach_wf init
  | rw_step s a s' es : reach_wf s -> act_wf a -> step s a = Some (s', es) -> reach_wf s'.

  Lemma reach_wf_reach st : reach_wf st -> reach init step st.
  Proof. induction 1; [apply reach_init|eapply reach_step; eauto]. Qed.

  Definition pc_wf (p : pc) : Prop :=
    match p with
    | Begin o | Aq1 o | AqSpin o | AqCas o _ => op_wf o
    | StF _ _ v | StW _ _ _ v | Rel _ v => length v = words
    | _ => True
    end.

  Definition hist_wf (st : state) : Prop :=
    Forall (fun v => length v = words) (g_hist st) /\ forall t, pc_wf (th st t).

  Lemma wf_upd st sq dt t p :
    hist_wf st -> pc_wf p -> hist_wf (mkSt sq dt (upd (th st) t p) (g_hist st)).
  Proof.
    intros (H1 & H2) P. split; [exact H1|]. cbn [th]. intros t'.
    destruct (Nat.eq_dec t' t) as [->|N]; [rewrite upd_same; exact P|rewrite upd_other by exact N; apply H2].
  Qed.

  Lemma ld_next_wf q : pc_wf (ld_next slots q).
  Proof. unfold ld_next. destruct (slots =? 1); [destruct (odd q)|]; exact I. Qed.

  Lemma aq_next_wf o q : op_wf o -> pc_wf (aq_next o q).
  Proof. intros H. unfold aq_next. destruct (odd q); exact H. Qed.

  Lemma step_wf st a st' es : hist_wf st -> act_wf a -> step st a = Some (st', es) -> hist_wf st'.
  Proof.
    intros HW HA Hs. unfold SeqlockDefs.step in Hs. destruct a as [t o|t].
    - destruct (th st t); try discriminate. inversion Hs; subst. apply wf_upd; [exact HW|exact HA].
    - pose proof (proj2 HW t) as P. destruct (th st t) eqn:Hpc; cbn [pc_wf] in P; try discriminate.
      + destruct o; inversion Hs; subst; apply wf_upd; try exact HW; try exact I; exact P.
      + inversion Hs; subst. apply wf_upd; [exact HW|apply ld_next_wf].
      + inversion Hs; subst. apply wf_upd; [exact HW|apply ld_next_wf].
      + destruct (Nat.eqb (S i) words); inversion Hs; subst; (apply wf_upd; [exact HW|]); exact I.
      + inversion Hs; subst. apply wf_upd; [exact HW|exact I].
      + destruct (_ <? _); inversion Hs; subst; (apply wf_upd; [exact HW|]); [exact I|apply ld_next_wf].
      + inversion Hs; subst. apply wf_upd; [exact HW|apply aq_next_wf; exact P].
      + inversion Hs; subst. apply wf_upd; [exact HW|apply aq_next_wf; exact P].
      + destruct (_ =? _); inversion Hs; subst; (apply wf_upd; [exact HW|]).
        * destruct o; cbn [locked_next pc_wf]; try exact I; exact P.
        * apply aq_next_wf; exact P.
      + inversion Hs; subst. apply wf_upd; [exact HW|exact P].
      + destruct (Nat.eqb (S i) words); inversion Hs; subst; (apply wf_upd; [exact HW|]); exact P.
      + inversion Hs; subst. destruct HW as (H1 & H2). split; cbn [g_hist th].
        * apply Forall_app. split; [exact H1|]. constructor; [exact P|constructor].
        * intros t'. destruct (Nat.eq_dec t' t) as [->|N]; [rewrite upd_same; exact I|rewrite upd_other by exact N; apply H2].
      + destruct (Nat.eqb (S i) words); inversion Hs; subst; (apply wf_upd; [exact HW|]); exact I.
      + inversion Hs; subst. apply wf_upd; [exact HW|]. cbn [pc_wf]. apply func_len.
  Qed.

  Theorem reach_wf_hist st : reach_wf st -> hist_wf st.
  Proof.
    induction 1 as [|s a s' es Hr IH Ha Hs].
    - split; cbn [SeqlockDefs.init g_hist th]; [constructor; [exact v0_len|constructor]|intros t; exact I].
    - eapply step_wf; eauto.
  Qed.

  Lemma hist_wf_nth st k : hist_wf st -> (k < length (g_hist st))%nat -> length (nth k (g_hist st) []) = words.
  Proof.
    intros (H & _) Hk. rewrite Forall_forall in H. apply H. apply nth_In. exact Hk.
  Qed.

  (** C, exact form: the load returns precisely version [q/2] *)
  Theorem seqlock_load_atomic_wf st t q buf st' es r :
    reach_wf st -> Bnd st ->
    th st t = Ld3 q buf -> step st (Step t) = Some (st', es) -> In (ERet t r) es ->
    q mod 2 = 0 /\ q / 2 <= cur st /\ r = nth (N.to_nat (q / 2)) (g_hist st) [].
  Proof.
    intros Hw HB Hpc Hs Hin. pose proof (reach_wf_reach st Hw) as Hr.
    destruct (seqlock_load_atomic _ _ _ _ _ _ _ Hr HB Hpc Hs Hin) as (E1 & E2 & E3).
    split; [exact E1|]. split; [exact E2|]. rewrite E3. apply normw_id.
    apply hist_wf_nth; [apply reach_wf_hist; exact Hw|].
    pose proof (i_h st (seqlock_inv st Hr HB)) as H1. unfold cur, HN in *. lia.
  Qed.

  (** D, exact form: the update publishes [func d latest] *)
  Theorem seqlock_update_atomic_wf st t q idx buf d :
    reach_wf st -> Bnd st -> th st t = UpF q idx buf d ->
    buf = nth (length (g_hist st) - 1) (g_hist st) [].
  Proof.
    intros Hw HB Hpc. pose proof (reach_wf_reach st Hw) as Hr.
    rewrite (seqlock_update_atomic _ _ _ _ _ _ Hr HB Hpc). apply normw_id.
    apply hist_wf_nth; [apply reach_wf_hist; exact Hw|].
    pose proof (i_h st (seqlock_inv st Hr HB)) as H1. unfold HN in *. lia.
  Qed.

End SeqlockInv.
