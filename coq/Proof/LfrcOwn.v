(** Ownership invariants of the lock-free reference counting model (Model/LfrcDefs.v): one step preserves [I_own]
    (what the program point of a thread knows about the node it works on: its life cycle state, alive flag, next_free)
    and [I_ownr] (the thread a life cycle state names is at the matching program point).  No axioms. *)
From Coq Require Import NArith List Bool Arith Lia PeanoNat.
From XV Require Import Conc.Lts Conc.Ev Model.LfrcDefs Proof.LfrcBase Proof.LfrcRefs Proof.LfrcNodes.
Import ListNotations.

(** the acting thread *)
Lemma P_own_self ns s t s' es : Inv ns s -> step ns s (Step t) = Some (s', es) -> own_ok s' t (th s' t).
Proof.
  intros HI H. leaves HI H t.
  all: assert (Hna : g_ns s (nalloc s) = NNone) by (apply (I_alloc _ _ HI); lia).
  all: prep; node_facts HI.
  all: prj; rewrite upd_same; on; prj; rewrite ?upd_same.
  all: try solve [exact I | assumption | reflexivity | tauto].
  all: try solve [match goal with Ho : g_ns ?s ?n = _ |- _ =>
         pose proof (I_alive _ _ HI n) as IA; rewrite Ho in IA; cbn [alive_ok] in IA;
         destruct (g_alive s n); cbn [negb] in *; repeat split; intuition congruence end].
  all: try solve [destruct k; cbn [src] in E0;
         first [ rewrite (I_j1 _ _ HI _ _ E0); cbn; tauto | rewrite (fhead_free _ _ _ HI E0); cbn; tauto ] ].
  all: try solve [upd_split; subst; first [reflexivity | exact (I_j1 _ _ HI _ _ E0)]].
Qed.

Lemma own_frame s s' u p : (forall n, g_ns s' n = g_ns s n) -> (forall n, g_alive s' n = g_alive s n) ->
  (forall n, nxt s' n = nxt s n) -> own_ok s u p -> own_ok s' u p.
Proof.
  intros H1 H2 H3. destruct p; cbn [own_ok]; rewrite ?H1, ?H2, ?H3; try tauto.
  all: match goal with |- context [match ?x with _ => _ end] => destruct x end; rewrite ?H1; tauto.
Qed.

(** the other threads *)
Lemma P_own_other ns s t s' es u : Inv ns s -> step ns s (Step t) = Some (s', es) -> u <> t -> own_ok s' u (th s u).
Proof.
  intros HI H Hut. pose proof (I_own _ _ HI u) as Hu. pose proof (I_sh _ _ HI u) as (Hsu & Hgu & _).
  leaves HI H t.
  all: assert (Hna : g_ns s (nalloc s) = NNone) by (apply (I_alloc _ _ HI); lia).
  all: prep; node_facts HI.
  all: try solve [apply own_frame with (s := s); [intros; prj; reflexivity ..| exact Hu]].
  all: try match goal with E : th _ _ = D2 _ _ _ _, E1 : rc _ _ = 2 |- _ => pose proof (claim_state _ _ _ _ _ _ _ HI E E1) as Hcs end.
  all: destruct (th s u) eqn:Eu; on_in Hu; on; try exact I.
  all: repeat match goal with |- context [match ?x with _ => _ end] => destruct x end; try exact I.
  all: prj; upd_split; subst; try solve [exact Hu | tauto | congruence].
  all: repeat match goal with Hx : _ /\ _ |- _ => destruct Hx end.
  all: try solve [exfalso; congruence].
  all: try solve [exfalso; apply Hu; rewrite Hna; exact I].
  all: try solve [on; tauto].
  all: try solve [exfalso; destruct Hcs as [[? Hcs]|[Hcs|Hcs]]; congruence].
  (* the other thread owns a reference on the claimed node *)
  all: try solve [exfalso; match goal with Hcf : forall r, holds ?s r ?n -> r = _ |- _ =>
         let X := fresh in assert (X : holds s (ROwn u) n) by (cbn [holds]; rewrite Eu; reflexivity);
         specialize (Hcf _ X); cbn [who_ref] in Hcf; congruence end].
  (* a node that a validated guard of pop refers to is not being pushed *)
  all: try solve [intros Hfree; exfalso; fn_in Hsu; destruct Hsu as (Hpg & Hgv & _);
         apply (I_q1 _ _ HI _ _ _ Hgv); [destruct (other_popg _ _ Hpg) as (_ & _ & _ & ?); assumption | ns_rw; exact I]].
Qed.

Ltac ownr_fin E t :=
  repeat match goal with
  | Hx : exists _, _ |- _ => destruct Hx
  | Hx : _ \/ _ |- _ => destruct Hx
  end;
  match goal with
  | Hx : th _ ?u0 = _ |- _ =>
    destruct (Nat.eq_dec u0 t) as [->|?];
    [ rewrite ?upd_same; rewrite E in Hx; first [discriminate Hx | injection Hx; intros; subst; first [congruence | eauto 12] | idtac]
    | rewrite ?upd_other by assumption; eauto 12 ]
  end.

Lemma P_ownr_step ns s t s' es : Inv ns s -> step ns s (Step t) = Some (s', es) -> forall n, ownr_ok s' n (g_ns s' n).
Proof.
  intros HI H. leaves HI H t.
  all: assert (Hna : g_ns s (nalloc s) = NNone) by (apply (I_alloc _ _ HI); lia).
  all: prep.
  all: intros m; pose proof (I_ownr _ _ HI m) as IR; prj.
  all: upd_split; subst; on; prj; rewrite ?upd_same; try solve [exact I | eauto 12].
  all: try solve [destruct (g_ns s m) eqn:Em; on_in IR; on; prj; try exact I; ownr_fin E t].
Qed.

Lemma P_own_step ns s t s' es : Inv ns s -> step ns s (Step t) = Some (s', es) -> forall u, own_ok s' u (th s' u).
Proof.
  intros HI H u. destruct (Nat.eq_dec u t) as [->|Hut].
  - eapply P_own_self; eauto.
  - destruct (step_frame _ _ _ _ _ H u Hut) as [-> _]. eapply P_own_other; eauto.
Qed.

Lemma P_own_start ns s t o s' es : Inv ns s -> step ns s (Start t o) = Some (s', es) -> forall u, own_ok s' u (th s' u).
Proof.
  intros HI H u. destruct (start_eq _ _ _ _ _ _ H) as (p & Hs' & Hidle & _).
  assert (Hp : own_ok s' t p).
  { unfold step in H. step_split H; cbn in Hs'; apply (f_equal (fun x => th x t)) in Hs'; cbn in Hs'; rewrite !upd_same in Hs'; subst p; exact I. }
  subst s'. cbn [th set_pc w_th].
  destruct (upd_cases (th s) t p u) as [[Hu Hx]|[Hne Hx]]; rewrite Hx.
  - subst u. exact Hp.
  - apply own_frame with (s := s); [intros; reflexivity ..|]. apply (I_own _ _ HI).
Qed.

Lemma P_ownr_start ns s t o s' es : Inv ns s -> step ns s (Start t o) = Some (s', es) -> forall n, ownr_ok s' n (g_ns s' n).
Proof.
  intros HI H m. destruct (start_eq _ _ _ _ _ _ H) as (p & -> & Hidle & _). prj.
  pose proof (I_ownr _ _ HI m) as IR. destruct (g_ns s m) eqn:Em; on_in IR; on; prj; try exact I.
  all: repeat match goal with Hx : exists _, _ |- _ => destruct Hx | Hx : _ \/ _ |- _ => destruct Hx end.
  all: match goal with Hx : th _ ?u0 = _ |- _ =>
         destruct (Nat.eq_dec u0 t) as [->|?]; [congruence | rewrite ?upd_other by assumption; eauto 12] end.
Qed.
