(** Bookkeeping of the nodes handed to guard_ptr::reclaim in the generalised epoch based reclamation model
    (Model/GebrDefs.v), for every configuration - the safety half of C02:  [N0]  a node is in at most one place, and the
    ghost [g_where] says exactly where: a retired node is in the retire list of epoch slot i of exactly one thread, or in
    exactly one orphan list (abandoned by clear_critical_region_flag - abandon::always / when_exceeds_threshold -, handed
    over at thread exit, or put back after a lost epoch race), or adopted by exactly one thread (in flight inside
    update_global_epoch), or freed; all these lists are duplicate free; a node is freed at most once ([g_nfree]) and only
    after it was retired; the hand-overs move whole lists and drop nothing.
    Holds in every reachable state ([N0_reach]).  No axioms. *)
From Coq Require Import NArith List Bool Arith Lia PeanoNat Setoid.
From XV Require Import Conc.Lts Conc.Ev Model.GebrDefs Proof.GebrBase Proof.GebrShape Proof.GebrOwn Proof.GebrEpoch.
Import ListNotations.
Local Open Scope N_scope.

(** * Retired nodes: where they are *)
Definition flight (p : pc) : list N := match p with G5 _ _ l | G6 _ _ l | G7 _ _ l _ => l | _ => [] end.
Definition fresh_of (p : pc) : option N := match p with R3 _ _ (Some n) => Some n | _ => None end.
Definition tmpg (p : pc) : option N := match p with R3 _ (Some g) _ => Some g | _ => None end.
Definition wh_ok (w : place) (l : life) (k : nat) : Prop :=
  match w with
  | PNone => (forall t r, l <> LRet t r) /\ k = O
  | PFreed => (exists t r, l = LRet t r) /\ k = 1%nat
  | _ => (exists t r, l = LRet t r) /\ k = O
  end.
Definition xdone (p : pc) (r : N -> list N) : Prop :=
  match p with
  | X1 i | X2 i _ => forall j, j < i -> r j = []
  | X3 => forall j, r j = []
  | _ => True
  end.

Record N0 (s : state) : Prop := {
  n_lt : forall n, g_life s n <> LNone -> n < nalloc s;
  n_cell : forall c n, cells s c = Some n -> g_life s n = LPub c;
  n_fresh1 : forall u n, fresh_of (th s u) = Some n -> g_life s n = LFresh u;
  n_fresh2 : forall u n, g_life s n = LFresh u -> fresh_of (th s u) = Some n;
  n_where : forall n, wh_ok (g_where s n) (g_life s n) (g_nfree s n);
  n_list : forall u i n, In n (rl (tl s u) i) <-> g_where s n = PList u i;
  n_orph : forall i n, In n (orph s i) <-> g_where s n = POrph i;
  n_flight : forall u n, In n (flight (th s u)) <-> g_where s n = PFlight u;
  n_nd_list : forall u i, NoDup (rl (tl s u) i);
  n_nd_orph : forall i, NoDup (orph s i);
  n_nd_flight : forall u, NoDup (flight (th s u));
  n_lidx : forall u, lidx (tl s u) < 3;
  n_rl3 : forall u i, 3 <= i -> rl (tl s u) i = [];
  n_xdone : forall u, xdone (th s u) (rl (tl s u));
  n_cempty : forall u, (in_cphase (th s u) = true \/ cb (tl s u) = None) -> forall i, rl (tl s u) i = [] }.

Lemma N0_init nc : N0 (init nc).
Proof.
  constructor; cbn; intros; try discriminate; try reflexivity; try constructor; try (split; intros; try contradiction; discriminate); try lia.
  all: try discriminate.
  - destruct (N.ltb_spec n nc); [assumption|congruence].
  - destruct (N.ltb_spec c nc); [|discriminate]. inversion H; subst. destruct (N.ltb_spec n nc); [reflexivity|lia].
  - destruct (n <? nc); discriminate.
  - intros t r. destruct (n <? nc); discriminate.
Qed.

Ltac nfn := cbn [flight fresh_of tmpg xdone wh_ok in_cphase].
Ltac nfn_in H := cbn [flight fresh_of tmpg xdone wh_ok in_cphase] in H.

Lemma count_nodup n l : NoDup l -> length (filter (N.eqb n) l) = if memN n l then 1%nat else 0%nat.
Proof.
  induction 1 as [|a l Hni Hnd IH]; [reflexivity|]. cbn [filter memN existsb]. fold (memN n l).
  destruct (N.eqb_spec n a) as [->|Hne]; cbn [orb length].
  - rewrite IH. apply memN_false in Hni. rewrite Hni. reflexivity.
  - exact IH.
Qed.
Lemma NoDup_app_intro {A} (l1 l2 : list A) : NoDup l1 -> NoDup l2 -> (forall x, In x l1 -> ~ In x l2) -> NoDup (l1 ++ l2).
Proof.
  induction 1 as [|a l Hni Hnd IH]; intros H2 Hd; [exact H2|]. cbn [app]. constructor.
  - rewrite in_app_iff. intros [X|X]; [contradiction|]. apply (Hd a); [left; reflexivity|exact X].
  - apply IH; [exact H2|]. intros x Hx. apply Hd. right. exact Hx.
Qed.

Lemma wh_not_ret w l k : wh_ok w l k -> (forall t r, l <> LRet t r) -> w = PNone /\ k = O.
Proof. destruct w; cbn; intros [H1 H2] H; auto; destruct H1 as (t0 & r & E); exfalso; eapply H; eauto. Qed.
Lemma wh_ret_some w l k : wh_ok w l k -> w <> PNone -> exists t r, l = LRet t r.
Proof. destruct w; cbn; intros [H1 H2] H; auto; congruence. Qed.

(* facts about the nodes a step names: what is in a cell is published, the node of a pending CAS is fresh,
   the next block is unallocated; none of them is retired *)
Ltac nfacts :=
  repeat match goal with
  | Icell : forall c n, cells ?s c = Some n -> g_life ?s n = LPub c, H : cells ?s ?c = Some ?n |- _ =>
    lazymatch goal with | _ : g_life s n = LPub c |- _ => fail | _ => pose proof (Icell c n H) end
  | If1t : forall n, Some ?n1 = Some n -> g_life ?s n = LFresh ?t |- _ =>
    lazymatch goal with | _ : g_life s n1 = LFresh t |- _ => fail | _ => pose proof (If1t n1 eq_refl) end
  | Ilt : forall n, g_life ?s n <> LNone -> n < nalloc ?s |- _ =>
    lazymatch goal with | _ : g_life s (nalloc s) = LNone |- _ => fail
    | _ => assert (g_life s (nalloc s) = LNone) by (destruct (g_life s (nalloc s)) eqn:X; try reflexivity; exfalso; assert (nalloc s < nalloc s) by (apply Ilt; rewrite X; discriminate); lia) end
  end;
  repeat match goal with
  | Iwh : forall n, wh_ok (g_where ?s n) (g_life ?s n) (g_nfree ?s n), H : g_life ?s ?n = ?l |- _ =>
    lazymatch l with
    | LRet _ _ => fail
    | _ => lazymatch goal with | _ : g_where s n = PNone |- _ => fail
           | _ => let X := fresh in pose proof (wh_not_ret _ _ _ (Iwh n) ltac:(rewrite H; intros; discriminate)) as X; destruct X end
    end
  end.

Ltac mem_split :=
  repeat match goal with
  | |- context [memN ?n ?l] => let M := fresh "M" in destruct (memN n l) eqn:M; [apply memN_In in M | apply memN_false in M]
  | H : context [memN ?n ?l] |- _ => let M := fresh "M" in destruct (memN n l) eqn:M; [apply memN_In in M | apply memN_false in M]
  end.

Lemma in_nil_iff {A} (x : A) : In x [] <-> False.
Proof. split; [intros []|intros []]. Qed.

(* rewrite list memberships into statements about [g_where] *)
Ltac goal_where Ilist Iorph Ifl Iflt Ilistt :=
  rewrite ?in_app_iff;
  repeat match goal with
  | |- context [In ?n []] => rewrite (in_nil_iff n)
  | |- context [In ?n (orph ?s ?i)] => rewrite (Iorph i n)
  | |- context [In ?n (rl (tl ?s ?u) ?i)] => rewrite (Ilist u i n)
  | |- context [In ?n (flight (th ?s ?u))] => rewrite (Ifl u n)
  | |- context [In ?n ?l] => rewrite (Iflt n)
  end.
Ltac hyp_where Ilist Iorph Ifl Iflt :=
  repeat match goal with
  | H : In _ (_ ++ _) |- _ => apply in_app_or in H; destruct H as [H|H]
  | H : In _ [] |- _ => destruct H
  | H : ~ In ?n (orph ?s ?i) |- _ => rewrite (Iorph i n) in H
  | H : ~ In ?n (rl (tl ?s ?u) ?i) |- _ => rewrite (Ilist u i n) in H
  | H : ~ In ?n ?l |- _ => rewrite (Iflt n) in H
  | H : In ?n (orph ?s ?i) |- _ => apply (proj1 (Iorph i n)) in H
  | H : In ?n (rl (tl ?s ?u) ?i) |- _ => apply (proj1 (Ilist u i n)) in H
  | H : In ?n (flight (th ?s ?u)) |- _ => apply (proj1 (Ifl u n)) in H
  | H : In ?n ?l |- _ => apply (proj1 (Iflt n)) in H
  end.

Lemma xnext_spec r i0 : (forall j, 3 <= j -> r j = []) ->
  match xnext r i0 with
  | X1 i => i0 <= i /\ i < 3 /\ (forall j, i0 <= j -> j < i -> r j = [])
  | X3 => forall j, i0 <= j -> r j = []
  | _ => False
  end.
Proof.
  intros H3. unfold xnext.
  assert (Hj : forall j, j = 0 \/ j = 1 \/ j = 2 \/ 3 <= j) by (intros; lia).
  destruct (N.leb_spec i0 0), (is_nil (r 0)) eqn:E0; cbn [andb negb];
  destruct (N.leb_spec i0 1), (is_nil (r 1)) eqn:E1; cbn [andb negb];
  destruct (N.leb_spec i0 2), (is_nil (r 2)) eqn:E2; cbn [andb negb];
  try apply is_nil_true in E0; try apply is_nil_true in E1; try apply is_nil_true in E2;
  try (repeat split; try lia; intros j Hj1 Hj2; destruct (Hj j) as [->|[->|[->|Hx]]]; try assumption; try lia);
  try (intros j Hj1; destruct (Hj j) as [->|[->|[->|Hx]]]; try assumption; try lia; apply H3; assumption).
Qed.

Lemma mod3_succ_ne a : (a + 1) mod 3 <> a mod 3 /\ (a + 2) mod 3 <> a mod 3 /\ (a + 2) mod 3 <> (a + 1) mod 3.
Proof.
  rewrite (N.add_mod a 1 3), (N.add_mod a 2 3) by discriminate.
  pose proof (N.mod_lt a 3 ltac:(discriminate)) as H. set (m := a mod 3) in *.
  assert (Hm : m = 0 \/ m = 1 \/ m = 2) by lia. destruct Hm as [-> | [-> | ->]]; cbn; repeat split; discriminate.
Qed.

Lemma uslots_nodup new old : NoDup (uslots new old).
Proof.
  unfold uslots. destruct (N.eqb_spec (N.min 3 (new - old)) 0); [constructor|].
  destruct (N.eqb_spec (N.min 3 (new - old)) 1); [constructor; [intros []|constructor]|].
  destruct (N.eqb_spec (N.min 3 (new - old)) 2).
  - assert (Hn : new = (new - 1) + 1) by lia. destruct (mod3_succ_ne (new - 1)) as (H1 & _). rewrite <- Hn in H1.
    constructor; [intros [X|[]]; congruence|constructor; [intros []|constructor]].
  - assert (Hn : new - 1 = (new - 2) + 1) by lia. assert (Hn2 : new = (new - 2) + 2) by lia.
    destruct (mod3_succ_ne (new - 2)) as (H1 & H2 & H3). rewrite <- Hn in H1, H3. rewrite <- Hn2 in H2, H3.
    constructor; [intros [X|[X|[]]]; congruence|]. constructor; [intros [X|[]]; congruence|]. constructor; [intros []|constructor].
Qed.

Lemma uslots_lt new old i : In i (uslots new old) -> i < 3.
Proof.
  unfold uslots. repeat match goal with |- context [if ?c then _ else _] => destruct c end; cbn [In];
  intros H; repeat (destruct H as [<-|H]); try contradiction; apply N.mod_lt; discriminate.
Qed.

Section Flat.
  Variables (s : state) (t : nat) (r : N -> list N) (sl : list N).
  Hypothesis Hl : forall i n, In n (r i) <-> g_where s n = PList t i.
  Hypothesis Hnd : forall i, NoDup (r i).
  Lemma flat_where n : In n (flat_map r sl) <-> exists i, In i sl /\ g_where s n = PList t i.
  Proof.
    rewrite in_flat_map. split; intros (i & Hi & H); exists i; (split; [exact Hi|]); apply Hl; exact H.
  Qed.
  Lemma flat_nodup : NoDup sl -> NoDup (flat_map r sl).
  Proof.
    induction 1 as [|a l Hni Hnd' IH]; cbn [flat_map]; [constructor|].
    apply NoDup_app_intro; [apply Hnd|exact IH|].
    intros x Hx Hx'. apply Hl in Hx. apply in_flat_map in Hx'. destruct Hx' as (i & Hi & Hx').
    apply Hl in Hx'. assert (a = i) by congruence. subst. contradiction.
  Qed.
End Flat.

Lemma N0_step cfg ns s t s' es : T0 cfg ns s -> O0 cfg s -> N0 s -> step cfg ns s (Step t) = Some (s', es) -> N0 s'.
Proof.
  intros T O I H. unfold_step H. cbv zeta in H. step_split H.
  all: bool_eqs; prj; rewrite ?upd_same; prj; prj_hyps; rewrite ?upd_same in *; prj_hyps.
  all: specialize (T t); try match goal with E : th _ _ = _ |- _ => rewrite E in T end.
  all: destruct I as [Ilt Icell If1 If2 Iwh Ilist Iorph Ifl Indl Indo Indf Ilidx Irl3 Ixd Ice].
  all: match goal with E : th ?s ?t = _ |- _ =>
         pose proof (If1 t) as If1t; pose proof (If2 t) as If2t; pose proof (Ifl t) as Iflt; pose proof (Indf t) as Indft;
         pose proof (Ixd t) as Ixdt; pose proof (Ice t) as Icet; pose proof (Ilist t) as Ilistt; pose proof (Indl t) as Indlt;
         pose proof (Ilidx t) as Ilidxt; pose proof (Irl3 t) as Irl3t;
         rewrite E in If1t, If2t, Iflt, Indft, Ixdt, Icet; nfn_in If1t; nfn_in If2t; nfn_in Iflt; nfn_in Indft; nfn_in Ixdt; nfn_in Icet end.
  all: constructor; prj; intros.
  all: try solve [first [assumption | eauto 2]].
  all: split_upd_all; prj; prj_hyps; nfn.
  all: try solve [first [assumption | eauto 2 | constructor | discriminate | lia]].
  all: try solve [eauto 3].
  all: try solve [nfacts; inj_some; split_updN_all; nfn;
                  first [ assumption | discriminate | congruence | lia | solve [eauto 3]
                        | apply Iwh | apply Ilist | apply Iorph | apply Ifl
                        | split; first [assumption | congruence | discriminate | solve [eauto 3]]
                        | split; intros X; [first [apply Ifl in X | apply Ilist in X | apply Iorph in X]; congruence | discriminate X] ]].
  (* membership <-> place, after a move / push *)
  all: try solve [match goal with |- _ <-> _ => idtac end;
            nfacts; inj_some; split_updN_all; mem_split;
            repeat match goal with |- context [g_where ?s ?n] =>
              lazymatch goal with | _ : In n _ <-> g_where s n = PFlight _ |- _ => fail | _ => pose proof (Iflt n) end end;
            cbn [In] in *; hyp_where Ilist Iorph Ifl Iflt; goal_where Ilist Iorph Ifl Iflt Ilistt; rewrite ?in_nil_iff in *;
            clear Ilt Icell If1 If2 Iwh Ilist Iorph Ifl Indl Indo Indf Ilidx Irl3 Ixd Ice; first [tauto | intuition congruence]].
  (* allocation bounds *)
  all: try solve [split_updN_all; first [lia | match goal with H : _ <> LNone |- _ => pose proof (Ilt _ H); lia end
                                       | nfacts; match goal with H : g_life ?s ?n = _ |- ?n < _ => assert (n < nalloc s) by (apply Ilt; rewrite H; discriminate); lia end]].
  all: try solve [apply N.mod_lt; discriminate].
  all: try solve [constructor].
  (* life cycle *)
  all: try solve [split_updN_all; inj_some; nfacts;
            repeat match goal with
            | H : fresh_of (th ?s ?u) = Some ?n |- _ => lazymatch goal with | _ : g_life s n = LFresh u |- _ => fail | _ => pose proof (If1 u n H) end
            | H : g_life ?s ?n = LFresh ?u |- _ => lazymatch goal with | _ : fresh_of (th s u) = Some n |- _ => fail | _ => pose proof (If2 u n H) end
            end; use_pc; nfn; repeat match goal with H : _ |- _ => progress nfn_in H end;
            split_updN_all; inj_some; first [congruence | discriminate | reflexivity | exfalso; congruence]].
  (* wh_ok *)
  all: try solve [match goal with |- wh_ok _ _ _ => idtac end;
            nfacts; inj_some; split_updN_all;
            first [ apply Iwh
                  | match goal with |- wh_ok (g_where ?s ?n) _ _ => pose proof (Iwh n) as W end;
                    repeat match goal with H : g_where _ _ = _ |- _ => rewrite H in * end;
                    repeat match goal with H : g_nfree _ _ = _ |- _ => rewrite H in * end;
                    repeat match goal with H : g_life _ _ = _ |- _ => rewrite H in * end;
                    nfn; nfn_in W; first [exact W | split; [intros; discriminate | reflexivity] | split; [eauto | reflexivity]]
                  | repeat match goal with H : g_where _ _ = _ |- _ => rewrite H in * end;
                    repeat match goal with H : g_nfree _ _ = _ |- _ => rewrite H in * end;
                    nfn; first [split; [intros; discriminate | reflexivity] | split; [eauto | reflexivity]] ]].
  all: try solve [match goal with |- wh_ok (if memN ?nn ?l then _ else _) _ _ =>
            match goal with |- wh_ok _ _ (_ + length (filter (N.eqb ?n) ?l))%nat =>
              rewrite (count_nodup n l) by (first [exact Indft | assumption]) | _ => idtac end;
            split_updN_all; nfacts;
            mem_split; pose proof (Iwh nn) as W; hyp_where Ilist Iorph Ifl Iflt;
            repeat match goal with H : g_where _ _ = _ |- _ => rewrite H in * end;
            repeat match goal with H : g_life _ _ = _ |- _ => rewrite H in * end; nfn_in W; nfn;
            first [exact W | destruct W as [W1 W2]; split; [exact W1 | lia] | rewrite Nat.add_0_r; exact W | congruence | discriminate] end].
  (* push onto a retire list *)
  all: try solve [split_updN_all; first [apply Irl3t; assumption | pose proof Ilidxt; lia]].
  all: try solve [exfalso; match goal with H : _ \/ _ |- _ => destruct H as [H|H]; [discriminate H | apply (ts_need _ _ _ _ T); [reflexivity|exact H]] end].
  all: try solve [match goal with |- NoDup _ => idtac end; split_updN_all;
                  first [apply Indlt | constructor; [intros X; apply Ilistt in X; nfacts; congruence | apply Indlt]]].
  (* thread exit *)
  all: try solve [subst; apply Iflt].
  all: try solve [rewrite <- (Ilistt i n0), (Ixdt i); reflexivity].
  all: try solve [match goal with |- NoDup (updN _ _ (_ ++ _) _) => idtac end; split_updN_all; [|apply Indo];
                  apply NoDup_app_intro; [first [exact Indft | apply Indlt] | apply Indo |];
                  intros x X1 X2; hyp_where Ilist Iorph Ifl Iflt; congruence].
  all: try solve [xn; nfn; nfn_in H; first [discriminate | constructor]].
  all: try solve [xn; nfn; mem_split; hyp_where Ilist Iorph Ifl Iflt; rewrite ?in_nil_iff; split; intros X; first [contradiction | congruence | discriminate
                  | apply Iflt in X; exact X | rewrite <- (proj1 (Iflt _) X) ]].
  all: try solve [destruct H as [H|H]; [xn; discriminate H | exfalso; congruence]].
  all: try solve [xn; nfn; constructor].
  all: try solve [exfalso; destruct H as [H|H]; [xn; discriminate H | apply (ts_need _ _ _ _ T); [reflexivity | exact H]]].
  (* update_local_epoch: the reclaimed slots *)
  all: try solve [mem_split; first [reflexivity | constructor | apply Indlt | apply Irl3t; assumption | apply Icet; assumption]].
  all: try solve [rewrite (count_nodup _ _ (flat_nodup s t _ _ Ilistt Indlt (uslots_nodup new old)));
                  mem_split; pose proof (Iwh n0) as W;
                  [apply (flat_where s t _ _ Ilistt) in M; destruct M as (i0 & Hi0 & Hw0); rewrite Hw0 in W; nfn_in W; nfn; destruct W as [W1 W2]; split; [exact W1|lia]
                  |rewrite Nat.add_0_r; exact W]].
  all: try solve [mem_split;
                  repeat match goal with
                  | M : In _ (flat_map _ _) |- _ => apply (flat_where s t _ _ Ilistt) in M; destruct M as (i0 & Hi0 & Hw0)
                  | M : ~ In _ (flat_map _ _) |- _ => rewrite (flat_where s t _ _ Ilistt) in M
                  end;
                  hyp_where Ilist Iorph Ifl Iflt; goal_where Ilist Iorph Ifl Iflt Ilistt; rewrite ?in_nil_iff in *;
                  split; intros X; first [contradiction | discriminate | congruence | exfalso; congruence
                                         | exfalso; apply M; eauto | exfalso; assert (i = i0) by congruence; subst; contradiction ]].
  all: try solve [destruct (memN i (uslots new old)) eqn:Mi; [apply memN_In in Mi|apply memN_false in Mi];
                  (destruct (memN n0 (flat_map (rl (tl s t)) (uslots new old))) eqn:Mn; [apply memN_In in Mn|apply memN_false in Mn]);
                  [ split; [intros []|discriminate]
                  | split; [intros []|intros X; exfalso; apply Mn; apply (flat_where s t _ _ Ilistt); eauto]
                  | split; [intros X; apply Ilistt in X; apply (flat_where s t _ _ Ilistt) in Mn; destruct Mn as (i0 & Hi0 & Hw0);
                            assert (i = i0) by congruence; subst; contradiction | discriminate]
                  | apply Ilistt ]].
  (* the configuration-dependent selectors *)
  all: try solve [sel; nfn; repeat match goal with H : _ |- _ => progress nfn_in H end;
                  first [ discriminate | exact (Iflt _) | constructor | assumption | exact Logic.I
                        | match goal with H : _ \/ _ |- _ => destruct H as [H|H]; [discriminate H | congruence] end
                        | apply Icet; right; first [assumption | apply (ts_init _ _ _ _ T); rewrite <- needs_init_eq; assumption]
                        | exfalso; match goal with H : _ \/ _ |- _ => destruct H as [H|H]; [discriminate H | apply (ts_need _ _ _ _ T); [reflexivity|exact H]] end ]].
  all: try solve [sel; nfn; (match goal with |- _ <-> (if ?c then _ else _) = _ => destruct c end; [split; [intros []|discriminate] | exact (Iflt _)])].
  all: try solve [split_updN_all; nfacts; mem_split; hyp_where Ilist Iorph Ifl Iflt;
                  first [ congruence | nfn; split; [intros; discriminate | assumption] | apply Iwh ]].
  - pose proof (xnext_spec (rl (tl s t)) 0 Irl3t) as X. destruct (xnext (rl (tl s t)) 0); try contradiction; nfn.
    + intros j Hj. apply X; [lia|exact Hj].
    + intros j. apply X. lia.
  - destruct (N.eq_dec n (nalloc s)) as [->|Hne].
    + rewrite updN_same.
      assert (Hl : g_life s (nalloc s) = LNone).
      { destruct (g_life s (nalloc s)) eqn:X; try reflexivity; exfalso; assert (nalloc s < nalloc s) by (apply Ilt; rewrite X; discriminate); lia. }
      destruct (wh_not_ret _ _ _ (Iwh (nalloc s))) as [Hw Hk]; [rewrite Hl; intros; discriminate|].
      destruct (memN (nalloc s) (rl (tl s t) i)) eqn:M.
      * apply memN_In, Ilistt in M. congruence.
      * rewrite Hw, Hk. nfn. split; [intros; discriminate|reflexivity].
    + rewrite updN_other by exact Hne. destruct (memN n (rl (tl s t) i)) eqn:M.
      * apply memN_In, Ilistt in M. pose proof (Iwh n) as W. rewrite M in W. nfn_in W. nfn. exact W.
      * apply Iwh.
  - assert (Irl3' : forall j, 3 <= j -> updN (rl (tl s t)) i [] j = []).
    { intros j Hj. destruct (updN_cases (rl (tl s t)) i [] j) as [[_ ->]|[_ ->]]; [reflexivity|apply Irl3t; exact Hj]. }
    pose proof (xnext_spec (updN (rl (tl s t)) i []) 0 Irl3') as X. destruct (xnext (updN (rl (tl s t)) i []) 0); try contradiction; nfn.
    + intros j Hj. apply X; [lia|exact Hj].
    + intros j. apply X. lia.
  - pose proof (xnext_spec (rl (tl s t)) (i + 1) Irl3t) as X. destruct (xnext (rl (tl s t)) (i + 1)); try contradiction; nfn.
    + intros j Hj. destruct (N.eq_dec j i) as [->|Hne]; [apply updN_same|rewrite updN_other by exact Hne].
      destruct (N.lt_ge_cases j i); [apply Ixdt; assumption|apply X; lia].
    + intros j. destruct (N.eq_dec j i) as [->|Hne]; [apply updN_same|rewrite updN_other by exact Hne].
      destruct (N.lt_ge_cases j i); [apply Ixdt; assumption|apply X; lia].
Qed.

Lemma N0_start cfg ns s t o s' es : N0 s -> step cfg ns s (Start t o) = Some (s', es) -> N0 s'.
Proof.
  intros I H. unfold step in H. step_split H.
  all: bool_eqs; prj.
  all: destruct I as [Ilt Icell If1 If2 Iwh Ilist Iorph Ifl Indl Indo Indf Ilidx Irl3 Ixd Ice].
  all: match goal with E : th ?s ?t = _ |- _ =>
         pose proof (If1 t) as If1t; pose proof (If2 t) as If2t; pose proof (Ifl t) as Iflt; pose proof (Indf t) as Indft;
         pose proof (Ixd t) as Ixdt; pose proof (Ice t) as Icet; pose proof (Irl3 t) as Irl3t;
         rewrite E in If1t, If2t, Iflt, Indft, Ixdt, Icet; nfn_in If1t; nfn_in If2t; nfn_in Iflt; nfn_in Indft; nfn_in Ixdt; nfn_in Icet end.
  all: constructor; prj; intros.
  all: try solve [first [assumption | eauto 2]].
  all: split_upd_all; prj; prj_hyps; nfn.
  all: try solve [first [assumption | eauto 2 | constructor | discriminate | lia]].
  all: try solve [eauto 3].
  all: try solve [xn; nfn; nfn_in H; first [discriminate | constructor | assumption | eauto 3]].
  all: try solve [exfalso; apply If2t in H; discriminate H].
  all: try solve [destruct H as [H|H]; [xn; discriminate H | eauto 3]].
  - xn; nfn; exact (Iflt n0).
  - xn; nfn; constructor.
  - pose proof (xnext_spec (rl (tl s t)) 0 Irl3t) as X. destruct (xnext (rl (tl s t)) 0); try contradiction; nfn.
    + intros j Hj. apply X; [lia|exact Hj].
    + intros j. apply X. lia.
Qed.

Section ReachN.
Variables (cfg : config) (ns : nat) (nc : N).
Lemma N0_reach s : reachable cfg ns nc s -> N0 s.
Proof.
  apply (inv_rule_aux _ _ _ _ _ (fun s => T0 cfg ns s /\ O0 cfg s) N0).
  - intros s0 Hr. split; [apply (T0_reach cfg ns nc); exact Hr|apply (O0_reach cfg ns nc); exact Hr].
  - apply N0_init.
  - intros s0 a s1 es [J1 J2] _ I H. destruct a as [t o|t]; [eapply N0_start; eauto|eapply N0_step; eauto].
Qed.
End ReachN.
