(** The free list of the lock-free reference counting model (Model/LfrcDefs.v): one step preserves [I_fl] (the ghost
    list [g_fl] has no duplicates, contains exactly the nodes in state "free", starts at [fhead] and is linked by
    next_free).  The pop case is where the ABA argument is used: the popper's next value is the head's current
    next_free ([own_ok] of P5, preserved in Proof/LfrcOwn.v because the popper holds a reference on the head).
    No axioms. *)
From Coq Require Import NArith List Bool Arith Lia PeanoNat.
From XV Require Import Conc.Lts Conc.Ev Model.LfrcDefs Proof.LfrcBase Proof.LfrcRefs Proof.LfrcNodes.
Import ListNotations.

Lemma chain_upd nx n v l : ~ In n l -> chain (upd nx n v) l <-> chain nx l.
Proof.
  induction l as [|a l IH]; intros Hn; cbn [chain]; [tauto|].
  rewrite upd_other by (intros ->; apply Hn; left; reflexivity).
  rewrite IH by (intros X; apply Hn; right; exact X). tauto.
Qed.

Definition fl_ok (s : state) : Prop :=
  NoDup (g_fl s) /\ (forall n, In n (g_fl s) <-> g_ns s n = NFree) /\ fhead s = hd_opt (g_fl s) /\ chain (nxt s) (g_fl s).

Lemma fl_ns_change s n x : fl_ok s -> g_ns s n <> NFree -> x <> NFree ->
  forall m, In m (g_fl s) <-> upd (g_ns s) n x m = NFree.
Proof.
  intros (_ & F & _) H1 H2 m. destruct (upd_cases (g_ns s) n x m) as [[-> ->]|[Hne ->]].
  - rewrite F. split; intros; congruence.
  - apply F.
Qed.

Lemma P_fl_step ns s t s' es : Inv ns s -> step ns s (Step t) = Some (s', es) -> fl_ok s'.
Proof.
  intros HI H. pose proof (I_fl _ _ HI) as IF. leaves HI H t.
  all: assert (Hna : g_ns s (nalloc s) = NNone) by (apply (I_alloc _ _ HI); lia).
  all: prep; node_facts HI.
  all: try match goal with E : th _ _ = D2 _ _ _ _, E1 : rc _ _ = 2 |- _ => pose proof (claim_state _ _ _ _ _ _ _ HI E E1) as Hcs end.
  all: unfold fl_ok; prj.
  all: try exact IF.
  all: try solve [repeat split; assumption].
  (* a life cycle state other than "free" changes *)
  all: try solve [split; [assumption | split; [ | split; assumption]];
         intros m; upd_split; subst; try solve [match goal with HF : forall n, In n _ <-> _ |- _ => apply HF end];
         match goal with HF : forall n, In n _ <-> _ |- _ => rewrite HF end;
         split; intros; try discriminate; exfalso; first [congruence | destruct Hcs as [[? Hcs]|[Hcs|Hcs]]; congruence] ].
  (* next_free of a node that is not on the free list changes *)
  all: try solve [split; [assumption | split; [assumption | split; [assumption|]]];
         apply chain_upd; [intros X; match goal with HF : forall n, In n _ <-> _ |- _ => apply HF in X end; congruence | assumption]].
  (* push *)
  all: try solve [match goal with HF : forall n, In n _ <-> _, HN : NoDup _, HH : fhead _ = hd_opt _, HC : chain _ _ |- _ =>
         split; [constructor; [intros X; apply HF in X; congruence | exact HN]
                | split; [ | split; [reflexivity | cbn [chain hd_opt]; split; [congruence | exact HC]]]];
         intros m; cbn [In]; upd_split; subst; rewrite ?HF; intuition congruence end].
  (* pop: the head is p, its next_free is the rest of the list (no ABA: [Ho]) *)
  rewrite E0 in H4. destruct (g_fl s) as [|p' rest] eqn:Efl; cbn [hd_opt] in H4; [discriminate|]. injection H4 as <-.
  cbn [List.tl]. inversion H2 as [|? ? Hnin Hnd]; subst. cbn [chain] in H5. destruct H5 as [Hnx Hch].
  split; [exact Hnd|]. split; [|split; [rewrite <- (Ho H6); exact Hnx | exact Hch]].
  intros m. upd_split; subst.
  - split; [intros X; contradiction | discriminate].
  - rewrite <- H3. cbn [In]. split; [auto | intros [X|X]; [congruence | exact X]].
Qed.
