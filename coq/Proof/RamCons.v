(** Ramalhete queue model: third and fourth invariant layers - the values (token blocks) and the
    order in which tickets are handed out. *)
From Coq Require Import NArith List Bool Lia PeanoNat Permutation.
From XV Require Import Base.Word Conc.Lts Conc.Ev gen.RamalheteNodeGen Proof.RamalheteNode Model.RamDefs Proof.RamBase Proof.RamTickets.
Import ListNotations.
Local Open Scope N_scope.

Section LayerC.
  Variables E R : N.
  Hypothesis HE : 1 <= E.
  Hypothesis HM : C_step_size E * E < 2 ^ 32.
  Notation S := (SS E).
  Notation tk := (tick_of E).
  Notation InvA := (InvA E).
  Notation InvB := (InvB E).
  Notation TK := (TK E).

  (** the value a pushing thread still has to hand over *)
  Definition holds (p : pc) : option N :=
    match p with
    | P1 b | P2 b _ | P3 b _ | P4 b _ | P5 b _ _ _ | P6 b _ _ | P6a b _ | P6b b _ | P6c b _
    | P9 b _ | P10 b _ _ | P8 b _ _ => Some b
    | _ => None
    end.
  (** the value stored under a ticket *)
  Definition fval (f : fate) : option N := match f with FFilled b | FConsumed b => Some b | _ => None end.

  (** the values under the tickets are exactly the pushed values, each under one ticket *)
  Definition CF (nodes : list N) (g : N -> N -> fate) (pushed : list N) : Prop :=
    (forall n k b, In n nodes -> k < E -> fval (g n k) = Some b -> In b pushed) /\
    (forall b, In b pushed -> exists n k, In n nodes /\ k < E /\ fval (g n k) = Some b) /\
    (forall n k n' k' b, In n nodes -> k < E -> In n' nodes -> k' < E ->
       fval (g n k) = Some b -> fval (g n' k') = Some b -> n = n' /\ k = k').
  (** the popped values are exactly the consumed tickets *)
  Definition CP (nodes : list N) (g : N -> N -> fate) (popped : list N) : Prop :=
    forall b, In b popped <-> exists n k, In n nodes /\ k < E /\ g n k = FConsumed b.

  Lemma CF_ext nodes g g' pushed :
    (forall n k, In n nodes -> k < E -> fval (g' n k) = fval (g n k)) -> CF nodes g pushed -> CF nodes g' pushed.
  Proof using.
    intros He (H1 & H2 & H3). split; [|split].
    - intros n k b Hn Hk Hf. rewrite He in Hf by assumption. eapply H1; eauto.
    - intros b Hb. destruct (H2 b Hb) as (n & k & Hn & Hk & Hf). exists n, k. rewrite He by assumption. auto.
    - intros n k n' k' b Hn Hk Hn' Hk' Hf Hf'. rewrite He in Hf, Hf' by assumption. eapply H3; eauto.
  Qed.

  Lemma CF_add nodes g pushed n1 k1 b :
    In n1 nodes -> k1 < E -> fval (g n1 k1) = None -> ~ In b pushed ->
    CF nodes g pushed -> CF nodes (setf2 g n1 k1 (FFilled b)) (pushed ++ [b]).
  Proof using.
    intros Hn1 Hk1 Hnone Hnb (H1 & H2 & H3).
    assert (Hv : forall n k, fval (setf2 g n1 k1 (FFilled b) n k) = if (n =? n1) && (k =? k1) then Some b else fval (g n k)).
    { intros n k. unfold setf2, setf. destruct (N.eqb_spec n n1); [subst; destruct (N.eqb_spec k k1)|]; reflexivity. }
    split; [|split].
    - intros n k b0 Hn Hk Hf. rewrite Hv in Hf. apply in_or_app.
      destruct ((n =? n1) && (k =? k1)); [right; left; congruence|left; eapply H1; eauto].
    - intros b0 Hb. apply in_app_or in Hb. destruct Hb as [Hb|[<-|[]]].
      + destruct (H2 b0 Hb) as (n & k & Hn & Hk & Hf). exists n, k. rewrite Hv.
        destruct ((n =? n1) && (k =? k1)) eqn:Eb; [|repeat split; assumption].
        exfalso. apply andb_true_iff in Eb. destruct Eb as [E1 E2]. apply N.eqb_eq in E1, E2. subst. congruence.
      + exists n1, k1. rewrite Hv, !N.eqb_refl. repeat split; assumption.
    - intros n k n' k' b0 Hn Hk Hn' Hk' Hf Hf'. rewrite Hv in Hf, Hf'.
      destruct ((n =? n1) && (k =? k1)) eqn:Eb; destruct ((n' =? n1) && (k' =? k1)) eqn:Eb'.
      + apply andb_true_iff in Eb, Eb'. destruct Eb as [E1 E2]. destruct Eb' as [E3 E4]. apply N.eqb_eq in E1, E2, E3, E4. subst. auto.
      + exfalso. apply Hnb. inversion Hf; subst. exact (H1 n' k' _ Hn' Hk' Hf').
      + exfalso. apply Hnb. inversion Hf'; subst. exact (H1 n k _ Hn Hk Hf).
      + exact (H3 n k n' k' b0 Hn Hk Hn' Hk' Hf Hf').
  Qed.

  Lemma CF_newnode nodes g pushed n :
    (forall k, fval (g n k) = None) -> CF nodes g pushed -> CF (nodes ++ [n]) g pushed.
  Proof using.
    intros Hn (H1 & H2 & H3).
    assert (Hi : forall m k b, In m (nodes ++ [n]) -> fval (g m k) = Some b -> In m nodes).
    { intros m k b Hm Hf. apply in_app_or in Hm. destruct Hm as [Hm|[<-|[]]]; [exact Hm|]. rewrite Hn in Hf. discriminate. }
    split; [|split].
    - intros m k b Hm Hk Hf. eapply H1; eauto.
    - intros b Hb. destruct (H2 b Hb) as (m & k & Hm & Hk & Hf). exists m, k. split; [apply in_or_app; left; exact Hm|auto].
    - intros m k m' k' b Hm Hk Hm' Hk' Hf Hf'. eapply H3; eauto.
  Qed.

  Lemma CP_ext nodes g g' popped :
    (forall n k b, In n nodes -> k < E -> (g' n k = FConsumed b <-> g n k = FConsumed b)) -> CP nodes g popped -> CP nodes g' popped.
  Proof using.
    intros He H b. rewrite (H b). split; intros (n & k & Hn & Hk & Hf); exists n, k; (split; [exact Hn|split; [exact Hk|]]); apply (He n k b Hn Hk); exact Hf.
  Qed.

  Lemma CP_add nodes g popped n1 k1 b :
    In n1 nodes -> k1 < E -> (forall b0, g n1 k1 <> FConsumed b0) ->
    CP nodes g popped -> CP nodes (setf2 g n1 k1 (FConsumed b)) (popped ++ [b]).
  Proof using.
    intros Hn1 Hk1 Hnc H b0. split.
    - intros Hb. apply in_app_or in Hb. destruct Hb as [Hb|[<-|[]]].
      + apply (H b0) in Hb. destruct Hb as (n & k & Hn & Hk & Hf). exists n, k. split; [exact Hn|]. split; [exact Hk|].
        unfold setf2, setf. destruct (N.eqb_spec n n1); [subst; destruct (N.eqb_spec k k1)|]; try exact Hf. subst. exfalso. exact (Hnc _ Hf).
      + exists n1, k1. rewrite setf2_same. auto.
    - intros (n & k & Hn & Hk & Hf). apply in_or_app. unfold setf2, setf in Hf.
      destruct (N.eqb_spec n n1); [subst; destruct (N.eqb_spec k k1)|].
      + right; left. congruence.
      + left. apply (H b0). exists n1, k. auto.
      + left. apply (H b0). exists n, k. auto.
  Qed.

  Lemma CP_newnode nodes g popped n :
    (forall k b, g n k <> FConsumed b) -> CP nodes g popped -> CP (nodes ++ [n]) g popped.
  Proof using.
    intros Hn H b. rewrite (H b). split; intros (m & k & Hm & Hk & Hf); exists m, k.
    - split; [apply in_or_app; left; exact Hm|auto].
    - apply in_app_or in Hm. destruct Hm as [Hm|[<-|[]]]; [auto|]. exfalso. exact (Hn _ _ Hf).
  Qed.

  Record InvC (st : state) : Prop := mkInvC {
    c_nodup : NoDup (g_pushed st);
    c_lt : forall b, In b (g_pushed st) -> b < nalloc st;
    c_hold : forall t b, holds (th st t) = Some b -> b < nalloc st /\ ~ In b (g_pushed st);
    c_huniq : forall t1 t2 b, holds (th st t1) = Some b -> holds (th st t2) = Some b -> t1 = t2;
    c_cf : CF (g_nodes st) (g_fate st) (g_pushed st);
    c_cp : CP (g_nodes st) (g_fate st) (g_popped st);
    c_pnodup : NoDup (g_popped st)
  }.

  Lemma hold_upd (P : N -> Prop) f t p :
    (forall t0 b, t0 <> t -> holds (f t0) = Some b -> P b) -> (forall b, holds p = Some b -> P b) ->
    forall t0 b, holds (upd f t p t0) = Some b -> P b.
  Proof using.
    intros Hf Hp t0 b. destruct (Nat.eq_dec t0 t) as [->|Hne].
    - rewrite upd_same. apply Hp.
    - rewrite upd_other by exact Hne. apply Hf. exact Hne.
  Qed.

  Local Notation ent_null_fate := (ent_null_fate E HE HM).

  Ltac hb := repeat match goal with
    | H : (_ =? _) = true |- _ => apply N.eqb_eq in H
    | H : (_ =? _) = false |- _ => apply N.eqb_neq in H
    | H : (_ <? _) = true |- _ => apply N.ltb_lt in H
    | H : (_ <? _) = false |- _ => apply N.ltb_ge in H
    end.

  Lemma InvC_step s a s' es :
    InvA s -> InvB s -> InvC s -> step E R s a = Some (s', es) -> g_ovf s' = false -> InvC s'.
  Proof using HE HM.
    intros HA HB HC H. step_cases H t.
    all: intros Hov; pose proof HC as [Hnd Hlt Hhold Hhu Hcf Hcp Hpnd];
      pose proof (b_thr _ _ HB t) as Ht; pose proof (a_thr _ _ HA t) as Hta; pose proof (Hhold t) as Hh;
      match goal with Hpc0 : th _ _ = _ |- _ => rename Hpc0 into Hpc; rewrite Hpc in Ht, Hta, Hh; cbn [TB TA holds] in Ht, Hta, Hh; unfold fresh_node in Hta end.
    all: hb.
    all: constructor; prj; try assumption.
    all: try (apply uniq_upd; [assumption|]; rewrite Hpc; cbn [holds]; first [left; reflexivity | right; left; reflexivity]).
    all: try (apply (hold_upd (fun b => b < nalloc s /\ ~ In b (g_pushed s))); [intros t1 b1 _; apply Hhold|]; cbn [holds]; intros b0 Hb0; first [discriminate Hb0 | (inversion Hb0; subst; apply Hh; reflexivity)]).
    - (* Begin push *) intros b0 Hb0. specialize (Hlt _ Hb0). lia.
    - apply (hold_upd (fun b => b < nalloc s + 1 /\ ~ In b (g_pushed s))).
      + intros t0 b0 _ Hb0. destruct (Hhold t0 b0 Hb0). split; [lia|assumption].
      + cbn [holds]. intros b0 Hb0. inversion Hb0; subst. split; [lia|]. intros Hc. specialize (Hlt _ Hc). lia.
    - apply uniq_upd; [exact Hhu|]. right; right. cbn [holds]. intros x Hx t' Hc. inversion Hx; subst.
      destruct (Hhold t' _ Hc). lia.
    - (* P4 alloc *) intros b0 Hb0. specialize (Hlt _ Hb0). lia.
    - apply (hold_upd (fun b => b < nalloc s + 1 /\ ~ In b (g_pushed s))).
      + intros t1 b0 _ Hb0. destruct (Hhold t1 b0 Hb0). split; [lia|assumption].
      + cbn [holds]. intros b0 Hb0. inversion Hb0; subst. destruct (Hh b0 eq_refl). split; [lia|assumption].
    - apply (CF_ext _ (g_fate s)); [|exact Hcf]. intros n0 k0 Hn0 Hk0. pose proof (a_lt _ _ HA n0 Hn0).
      destruct (N.eqb_spec n0 (nalloc s)); [lia|reflexivity].
    - apply (CP_ext _ (g_fate s)); [|exact Hcp]. intros n0 k0 b0 Hn0 Hk0. pose proof (a_lt _ _ HA n0 Hn0).
      destruct (N.eqb_spec n0 (nalloc s)); [lia|reflexivity].
    - (* P6 link *) apply MsqInv.NoDup_snoc; [exact Hnd|]. apply (Hh b eq_refl).
    - intros b0 Hb0. apply in_app_or in Hb0. destruct Hb0 as [Hb0|[<-|[]]]; [apply Hlt; exact Hb0|apply (Hh b eq_refl)].
    - apply (hold_upd (fun b0 => b0 < nalloc s /\ ~ In b0 (g_pushed s ++ [b]))).
      + intros t1 b0 Hne Hb0. destruct (Hhold t1 b0 Hb0) as [Hl Hn]. split; [exact Hl|]. intros Hc.
        apply in_app_or in Hc. destruct Hc as [Hc|[<-|[]]]; [contradiction|]. apply Hne. apply (Hhu t1 t b Hb0). rewrite Hpc. reflexivity.
      + cbn [holds]. intros b0 Hb0. discriminate Hb0.
    - destruct Hta as (H1 & H2 & H3 & (H4 & H4' & H4'') & H5 & H6 & H7 & H8).
      apply CF_add; [apply in_or_app; right; left; reflexivity|lia|rewrite Ht; reflexivity|apply (Hh b eq_refl)|].
      apply CF_newnode; [intros k; rewrite Ht; reflexivity|exact Hcf].
    - apply (CP_ext _ (g_fate s)); [|apply CP_newnode; [intros k b0; rewrite Ht; discriminate|exact Hcp]].
      intros n0 k0 b0 Hn0 Hk0. unfold setf2, setf.
      destruct (N.eqb_spec n0 n) as [->|Hdn]; [|reflexivity]. destruct (N.eqb_spec k0 0) as [->|Hdk]; [|reflexivity].
      rewrite Ht. split; intros Hc; discriminate Hc.
    - (* P8 success *) apply MsqInv.NoDup_snoc; [exact Hnd|]. apply (Hh b eq_refl).
    - intros b0 Hb0. apply in_app_or in Hb0. destruct Hb0 as [Hb0|[<-|[]]]; [apply Hlt; exact Hb0|apply (Hh b eq_refl)].
    - apply (hold_upd (fun b0 => b0 < nalloc s /\ ~ In b0 (g_pushed s ++ [b]))).
      + intros t1 b0 Hne Hb0. destruct (Hhold t1 b0 Hb0) as [Hl Hn]. split; [exact Hl|]. intros Hc.
        apply in_app_or in Hc. destruct Hc as [Hc|[<-|[]]]; [contradiction|]. apply Hne. apply (Hhu t1 t b Hb0). rewrite Hpc. reflexivity.
      + cbn [holds]. intros b0 Hb0. discriminate Hb0.
    - destruct Ht as (Hal1 & HkE & Hkp).
      assert (Hf1 : g_fate s t0 (tk idx) = FNone).
      { apply ent_null_fate; [apply (b_tk _ _ HB); assumption|]. rewrite <- Hal1. assumption. }
      apply CF_add; [exact Hta|exact HkE|rewrite Hf1; reflexivity|apply (Hh b eq_refl)|exact Hcf].
    - destruct Ht as (Hal1 & HkE & Hkp).
      assert (Hf1 : g_fate s t0 (tk idx) = FNone).
      { apply ent_null_fate; [apply (b_tk _ _ HB); assumption|]. rewrite <- Hal1. assumption. }
      apply (CP_ext _ (g_fate s)); [|exact Hcp]. intros n0 k0 b0 Hn0 Hk0. unfold setf2, setf.
      destruct (N.eqb_spec n0 t0) as [->|Hdn]; [|reflexivity]. destruct (N.eqb_spec k0 (tk idx)) as [->|Hdk]; [|reflexivity].
      rewrite Hf1. split; intros Hc; discriminate Hc.
    - (* P8 lost (2x) *) apply (hold_upd (fun b => b < nalloc s /\ ~ In b (g_pushed s))); [intros t1 b1 _; apply Hhold|].
      cbn [holds]. intros bb Hbb. inversion Hbb; subst. apply (Hh _ eq_refl).
    - (* consumed: CF *)
      destruct Ht as (Hal1 & HkE & Hkp & Hfa).
      pose proof (b_tk _ _ HB h (tk idx) Hta HkE) as Ho. unfold RamTickets.TK in Ho. rewrite <- Hal1 in Ho.
      assert (Hf1 : g_fate s h (tk idx) = FFilled b).
      { destruct Hfa as [Hfa|[b' Hfa]]; rewrite Hfa in Ho; destruct Ho as [Ho _]; congruence. }
      apply (CF_ext _ (g_fate s)); [|exact Hcf]. intros n0 k0 Hn0 Hk0. unfold setf2, setf.
      destruct (N.eqb_spec n0 h) as [->|Hdn]; [|reflexivity]. destruct (N.eqb_spec k0 (tk idx)) as [->|Hdk]; [|reflexivity].
      rewrite Hf1. reflexivity.
    - (* consumed: CP *)
      destruct Ht as (Hal1 & HkE & Hkp & Hfa).
      pose proof (b_tk _ _ HB h (tk idx) Hta HkE) as Ho. unfold RamTickets.TK in Ho. rewrite <- Hal1 in Ho.
      assert (Hf1 : g_fate s h (tk idx) = FFilled b).
      { destruct Hfa as [Hfa|[b' Hfa]]; rewrite Hfa in Ho; destruct Ho as [Ho _]; congruence. }
      apply CP_add; try assumption. intros b0. rewrite Hf1. discriminate.
    - (* consumed: popped stays duplicate free *)
      destruct Ht as (Hal1 & HkE & Hkp & Hfa).
      pose proof (b_tk _ _ HB h (tk idx) Hta HkE) as Ho. unfold RamTickets.TK in Ho. rewrite <- Hal1 in Ho.
      assert (Hf1 : g_fate s h (tk idx) = FFilled b).
      { destruct Hfa as [Hfa|[b' Hfa]]; rewrite Hfa in Ho; destruct Ho as [Ho _]; congruence. }
      apply MsqInv.NoDup_snoc; [exact Hpnd|]. intros Hc. apply (Hcp b) in Hc. destruct Hc as (n0 & k0 & Hn0 & Hk0 & Hf0).
      destruct Hcf as (_ & _ & Hinj).
      destruct (Hinj n0 k0 h (tk idx) b Hn0 Hk0 Hta HkE) as [-> ->]; [rewrite Hf0; reflexivity|rewrite Hf1; reflexivity|]. congruence.
    - (* D11 poisons: CF *)
      apply (CF_ext _ (g_fate s)); [|exact Hcf]. intros n0 k0 Hn0 Hk0. unfold setf2, setf.
      destruct (N.eqb_spec n0 h) as [->|Hdn]; [|reflexivity]. destruct (N.eqb_spec k0 (tk idx)) as [->|Hdk]; [|reflexivity].
      destruct Ht as (Hal1 & HkE & Hkp & Hfa).
      pose proof (b_tk _ _ HB h (tk idx) Hta HkE) as Ho. unfold RamTickets.TK in Ho. rewrite <- Hal1 in Ho.
      destruct Hfa as [Hfa|[b' Hfa]]; rewrite Hfa in Ho |- *; [reflexivity|]. destruct Ho as [Ho _]; congruence.
    - apply (CP_ext _ (g_fate s)); [|exact Hcp]. intros n0 k0 b0 Hn0 Hk0. unfold setf2, setf.
      destruct (N.eqb_spec n0 h) as [->|Hdn]; [|reflexivity]. destruct (N.eqb_spec k0 (tk idx)) as [->|Hdk]; [|reflexivity].
      destruct Ht as (Hal1 & HkE & Hkp & Hfa).
      pose proof (b_tk _ _ HB h (tk idx) Hta HkE) as Ho. unfold RamTickets.TK in Ho. rewrite <- Hal1 in Ho.
      destruct Hfa as [Hfa|[b' Hfa]]; rewrite Hfa in Ho |- *; [split; intros Hc; discriminate Hc|]. destruct Ho as [Ho _]; congruence.
    - (* consumed: CF *)
      destruct Ht as (Hal1 & HkE & Hkp & Hfa).
      pose proof (b_tk _ _ HB h (tk idx) Hta HkE) as Ho. unfold RamTickets.TK in Ho. rewrite <- Hal1 in Ho.
      assert (Hf1 : g_fate s h (tk idx) = FFilled b).
      { destruct Hfa as [Hfa|[b' Hfa]]; rewrite Hfa in Ho; destruct Ho as [Ho _]; congruence. }
      apply (CF_ext _ (g_fate s)); [|exact Hcf]. intros n0 k0 Hn0 Hk0. unfold setf2, setf.
      destruct (N.eqb_spec n0 h) as [->|Hdn]; [|reflexivity]. destruct (N.eqb_spec k0 (tk idx)) as [->|Hdk]; [|reflexivity].
      rewrite Hf1. reflexivity.
    - (* consumed: CP *)
      destruct Ht as (Hal1 & HkE & Hkp & Hfa).
      pose proof (b_tk _ _ HB h (tk idx) Hta HkE) as Ho. unfold RamTickets.TK in Ho. rewrite <- Hal1 in Ho.
      assert (Hf1 : g_fate s h (tk idx) = FFilled b).
      { destruct Hfa as [Hfa|[b' Hfa]]; rewrite Hfa in Ho; destruct Ho as [Ho _]; congruence. }
      apply CP_add; try assumption. intros b0. rewrite Hf1. discriminate.
    - (* consumed: popped stays duplicate free *)
      destruct Ht as (Hal1 & HkE & Hkp & Hfa).
      pose proof (b_tk _ _ HB h (tk idx) Hta HkE) as Ho. unfold RamTickets.TK in Ho. rewrite <- Hal1 in Ho.
      assert (Hf1 : g_fate s h (tk idx) = FFilled b).
      { destruct Hfa as [Hfa|[b' Hfa]]; rewrite Hfa in Ho; destruct Ho as [Ho _]; congruence. }
      apply MsqInv.NoDup_snoc; [exact Hpnd|]. intros Hc. apply (Hcp b) in Hc. destruct Hc as (n0 & k0 & Hn0 & Hk0 & Hf0).
      destruct Hcf as (_ & _ & Hinj).
      destruct (Hinj n0 k0 h (tk idx) b Hn0 Hk0 Hta HkE) as [-> ->]; [rewrite Hf0; reflexivity|rewrite Hf1; reflexivity|]. congruence.
  Qed.

  Lemma InvC_init : InvC init.
  Proof using HE HM.
    constructor; cbn [init head tail popi pushi ent nnext nalloc tokv th g_pushed g_popped g_fate g_nodes g_retired g_ptk g_dtk g_ovf].
    - constructor.
    - intros b [].
    - intros t b Hc. discriminate Hc.
    - intros t1 t2 b Hc. discriminate Hc.
    - split; [|split].
      + intros n k b _ _ Hc. discriminate Hc.
      + intros b [].
      + intros n k n' k' b _ _ _ _ Hc. discriminate Hc.
    - intros b. split; [intros []|]. intros (n & k & _ & _ & Hc). discriminate Hc.
    - constructor.
  Qed.

  Theorem InvC_reach s : reach init (step E R) s -> g_ovf s = false -> InvC s.
  Proof using HE HM.
    intros Hr. induction Hr as [|s a s' es Hr IH Hst]; intros Hov.
    - exact InvC_init.
    - pose proof (ovf_sticky _ _ _ _ _ _ Hst Hov) as Hov0.
      eapply InvC_step; [apply (InvA_reach E R HE HM); [exact Hr|exact Hov0] | apply (InvB_reach E R HE HM); [exact Hr|exact Hov0]
                        | apply IH; exact Hov0 | exact Hst | exact Hov].
  Qed.
End LayerC.

  Lemma tickets_from_snoc : forall n lo, tickets_from lo (Datatypes.S n) = tickets_from lo n ++ [lo + N.of_nat n].
  Proof.
    induction n as [|n IH]; intros lo.
    - cbn. rewrite N.add_0_r. reflexivity.
    - change (tickets_from lo (Datatypes.S (Datatypes.S n))) with (lo :: tickets_from (N.succ lo) (Datatypes.S n)).
      rewrite IH. cbn [tickets_from app]. f_equal. f_equal. f_equal. lia.
  Qed.

  Lemma tickets_snoc k : tickets 0 (k + 1) = tickets 0 k ++ [k].
  Proof.
    unfold tickets. replace (N.to_nat (k + 1 - 0)) with (Datatypes.S (N.to_nat (k - 0))) by lia.
    rewrite tickets_from_snoc. f_equal. f_equal. lia.
  Qed.

  Lemma flat_map_ext_in {A B} (f g : A -> list B) l : (forall x, In x l -> f x = g x) -> flat_map f l = flat_map g l.
  Proof.
    induction l as [|a l IH]; intros H; [reflexivity|]. cbn [flat_map]. rewrite (H a) by (left; reflexivity).
    rewrite IH; [reflexivity|]. intros x Hx. apply H. right. exact Hx.
  Qed.

  Lemma flat_map_nil {A B} (f : A -> list B) l : (forall x, In x l -> f x = []) -> flat_map f l = [].
  Proof.
    induction l as [|a l IH]; intros H; [reflexivity|]. cbn [flat_map]. rewrite (H a) by (left; reflexivity).
    apply IH. intros x Hx. apply H. right. exact Hx.
  Qed.

(** * Layer D: tickets are handed out in chain/ticket order, without gaps *)
Section LayerD.
  Variables E R : N.
  Hypothesis HE : 1 <= E.
  Hypothesis HM : C_step_size E * E < 2 ^ 32.
  Notation S := (SS E).
  Notation tk := (tick_of E).
  Notation pa := (pa E).
  Notation pd := (pd E).
  Notation InvA := (InvA E).
  Local Notation aligned_step := (aligned_step E HE HM).
  Local Notation maxi_le := (maxi_le E HE HM).
  Local Notation old_in_nodes := (old_in_nodes E HE HM).
  Local Notation tick_0 := (tick_0 E HE HM).
  Local Notation tick_SS := (tick_SS E HE HM).

  (** the first m tickets of node n *)
  Definition tks (n m : N) : list (N * N) := map (pair n) (tickets 0 m).
  Definition ptks (st : state) : list (N * N) := flat_map (fun n => tks n (N.min (pa st n) E)) (g_nodes st).
  Definition dtks (st : state) : list (N * N) := flat_map (fun n => tks n (N.min (pd st n) E)) (g_nodes st).
  (** all tickets of all linked nodes, in the global order: node order, then ticket order *)
  Definition all_tickets (st : state) : list (N * N) := flat_map (fun n => tks n E) (g_nodes st).

  Definition InvD (st : state) : Prop := g_ptk st = ptks st /\ g_dtk st = dtks st.

  Lemma tks_snoc n k : tks n (k + 1) = tks n k ++ [(n, k)].
  Proof using. unfold tks. rewrite tickets_snoc, map_app. reflexivity. Qed.

  Lemma tks_0 n : tks n 0 = [].
  Proof using. reflexivity. Qed.


  Ltac hb := repeat match goal with
    | H : (_ =? _) = true |- _ => apply N.eqb_eq in H
    | H : (_ =? _) = false |- _ => apply N.eqb_neq in H
    | H : (_ <? _) = true |- _ => apply N.ltb_lt in H
    | H : (_ <? _) = false |- _ => apply N.ltb_ge in H
    end.

  Lemma InvD_step s a s' es :
    InvA s -> InvD s -> step E R s a = Some (s', es) -> g_ovf s' = false -> InvD s'.
  Proof using HE HM.
    intros HA [HDp HDd] H. step_cases H t.
    all: intros Hov; pose proof (a_thr _ _ HA t) as Hta;
      match goal with Hpc0 : th _ _ = _ |- _ => rename Hpc0 into Hpc; rewrite Hpc in Hta; cbn [TA] in Hta; unfold fresh_node in Hta end.
    all: hb.
    all: prj_in Hov; try (apply orb_false_ovf in Hov; destruct Hov as [Hov Hw]; rewrite Hw in * ).
    all: try (split; [exact HDp|exact HDd]).
    - (* P2 -> P3: node full *)
      pose proof (a_al _ _ HA t0 Hta) as [A1 _]. destruct (aligned_step _ A1) as [_ Hts].
      match goal with Hb : (MAXI E <=? _) = true |- _ => rewrite maxi_le in Hb by exact A1; apply N.leb_le in Hb end.
      split; prj; [|exact HDd]. rewrite HDp. unfold ptks; prj. apply flat_map_ext_in. intros n0 Hn0.
      unfold RamBase.pa; prj. unfold setf. destruct (N.eqb_spec n0 t0) as [->|Hd]; [|reflexivity].
      rewrite Hts. rewrite !N.min_r by lia. reflexivity.
    - (* P2 -> P8: a ticket of the last node *)
      pose proof (a_al _ _ HA t0 Hta) as [A1 _]. destruct (aligned_step _ A1) as [_ Hts].
      match goal with Hb : (MAXI E <=? _) = false |- _ => rewrite maxi_le in Hb by exact A1; apply N.leb_gt in Hb end.
      assert (Hz : nnext s t0 = 0).
      { destruct (N.eq_dec (nnext s t0) 0) as [e|e]; [exact e|]. pose proof (a_full _ _ HA t0 Hta e) as Hf. unfold RamBase.pa in Hf. lia. }
      destruct (MsqInv.lpath_last _ _ (a_path _ _ HA) t0 Hta Hz) as [l0 El].
      split; prj; [|exact HDd]. rewrite HDp. unfold ptks; prj. rewrite El, !flat_map_app. cbn [flat_map]. rewrite !app_nil_r.
      rewrite <- app_assoc. f_equal.
      + apply flat_map_ext_in. intros n0 Hn0. unfold RamBase.pa; prj. rewrite setf_other; [reflexivity|].
        intros ->. pose proof (a_nodup _ _ HA) as Hnd. rewrite El in Hnd. apply (NoDup_app_notin _ _ _ _ Hnd Hn0). left. reflexivity.
      + unfold RamBase.pa; prj. rewrite setf_same, Hts. rewrite !N.min_l by lia. rewrite tks_snoc. reflexivity.
    - (* P4: allocation of a private node *)
      split; prj; [rewrite HDp; unfold ptks|rewrite HDd; unfold dtks]; prj; apply flat_map_ext_in; intros n0 Hn0;
        pose proof (a_lt _ _ HA n0 Hn0); unfold RamBase.pa, RamBase.pd; prj; rewrite setf_other by lia; reflexivity.
    - (* P6: link *)
      destruct Hta as (H1 & H2 & H3 & (H4 & H4' & H4'') & H5 & H6 & H7 & H8).
      split; prj.
      + rewrite HDp. unfold ptks; prj. rewrite flat_map_app. cbn [flat_map]. rewrite app_nil_r. f_equal.
        unfold RamBase.pa; prj. rewrite H6, tick_SS. rewrite N.min_l by lia. reflexivity.
      + rewrite HDd. unfold dtks; prj. rewrite flat_map_app. cbn [flat_map]. rewrite app_nil_r.
        unfold RamBase.pd; prj. rewrite H5, tick_0. rewrite N.min_l by lia. rewrite tks_0, app_nil_r. reflexivity.
    - (* P6a: private node *)
      split; prj; [|exact HDd]. rewrite HDp; unfold ptks; prj. apply flat_map_ext_in. intros n0 Hn0.
      unfold RamBase.pa; prj. rewrite setf_other; [reflexivity|]. intros ->. tauto.
    - (* D5 -> D6 *)
      pose proof (old_in_nodes _ h (a_head _ _ HA) Hta) as Hin.
      pose proof (a_al _ _ HA h Hin) as [_ A1]. destruct (aligned_step _ A1) as [_ Hts].
      match goal with Hb : (MAXI E <=? _) = true |- _ => rewrite maxi_le in Hb by exact A1; apply N.leb_le in Hb end.
      split; prj; [exact HDp|]. rewrite HDd. unfold dtks; prj. apply flat_map_ext_in. intros n0 Hn0.
      unfold RamBase.pd; prj. unfold setf. destruct (N.eqb_spec n0 h) as [->|Hd]; [|reflexivity].
      rewrite Hts. rewrite !N.min_r by lia. reflexivity.
    - (* D5 -> D9: a ticket of the head node *)
      pose proof (old_in_nodes _ h (a_head _ _ HA) Hta) as Hin.
      pose proof (a_al _ _ HA h Hin) as [_ A1]. destruct (aligned_step _ A1) as [_ Hts].
      match goal with Hb : (MAXI E <=? _) = false |- _ => rewrite maxi_le in Hb by exact A1; apply N.leb_gt in Hb end.
      destruct (a_head _ _ HA) as (rest & He & Hr).
      assert (Hh : h = head s).
      { unfold in_old in Hta. apply in_app_or in Hta. destruct Hta as [Hc|[Hc|[]]]; [|symmetry; exact Hc].
        pose proof (a_ret _ _ HA h Hc) as Hf. unfold RamBase.pd in Hf. lia. }
      subst h. pose proof (a_nodup _ _ HA) as Hnd. rewrite He in Hnd.
      split; prj; [exact HDp|]. rewrite HDd. unfold dtks; prj. rewrite He, !flat_map_app. cbn [flat_map].
      rewrite (flat_map_nil _ rest), (flat_map_nil _ rest).
      * rewrite !app_nil_r. rewrite <- app_assoc. f_equal.
        -- apply flat_map_ext_in. intros n0 Hn0. unfold RamBase.pd; prj. rewrite setf_other; [reflexivity|].
           intros ->. apply (NoDup_app_notin _ _ _ _ Hnd Hn0). left. reflexivity.
        -- unfold RamBase.pd; prj. rewrite setf_same, Hts. rewrite !N.min_l by lia. rewrite tks_snoc. reflexivity.
      * intros n0 Hn0. unfold RamBase.pd; prj. unfold setf. destruct (N.eqb_spec n0 (head s)) as [->|Hd].
        -- exfalso. apply NoDup_app_r in Hnd. inversion Hnd; subst. contradiction.
        -- rewrite (Hr n0 Hn0), tick_0. rewrite N.min_l by lia. reflexivity.
      * intros n0 Hn0. unfold RamBase.pd; prj. unfold setf. destruct (N.eqb_spec n0 (head s)) as [->|Hd].
        -- exfalso. apply NoDup_app_r in Hnd. inversion Hnd; subst. contradiction.
        -- rewrite (Hr n0 Hn0), tick_0. rewrite N.min_l by lia. reflexivity.
  Qed.

  Lemma InvD_init : InvD init.
  Proof using HE HM.
    split; cbn [init g_ptk g_dtk]; unfold ptks, dtks, RamBase.pa, RamBase.pd; cbn [init g_nodes pushi popi flat_map];
      rewrite tick_0; rewrite N.min_l by lia; reflexivity.
  Qed.

  Theorem InvD_reach s : reach init (step E R) s -> g_ovf s = false -> InvD s.
  Proof using HE HM.
    intros Hr. induction Hr as [|s a s' es Hr IH Hst]; intros Hov.
    - exact InvD_init.
    - pose proof (ovf_sticky _ _ _ _ _ _ Hst Hov) as Hov0.
      eapply InvD_step; [apply (InvA_reach E R HE HM); [exact Hr|exact Hov0] | apply IH; exact Hov0 | exact Hst | exact Hov].
  Qed.
End LayerD.
