(** Safety of the Left-Right technique (xenium::left_right) on the step-level model of
    Model/LeftRightDefs.v.  No axioms, no admits.

    Writer-side results ([lr_mutex], [lr_twice]) hold for every state in [reach init step]: any
    program, any schedule, any number of threads.

    Reader-side results ([lr_exclusion], [lr_read_consistent], [lr_read_value]) are FALSE without a
    bound on the number of threads that are simultaneously inside a read: with 2^64 readers arrived on
    one indicator the 64-bit counter wraps to 0 and the writer proceeds.  They are therefore stated
    for [reach init (bstep n)] with [N.of_nat n < 2 ^ 64], where [bstep n] is [step] restricted to
    actions of threads with id < n ([breach_reach]: such states are reachable in the unrestricted
    model; [run_breach]: every executable run whose actions only name threads < n ends in such a
    state).  Under that bound the indicators are exactly the number of readers at R3..R6 ([CInv]).

    Invariant structure: [J] (mutex <-> writer pc, writer data invariant [Winv] indexed by the pc of
    the mutex holder, locals are 0/1), [CInv] (indicator = count), [RAll] (per reader [Rinv], indexed
    by the pc of the mutex holder: a reader may use the instance [lr] does not designate only while
    the writer is between its lr store and the second drain ([old_ok])).  The version variable plays
    no role for safety, only that the two drained indices (cv+1)&1 and cv&1 are different. *)
From Coq Require Import NArith List Bool Lia PeanoNat.
From XV Require Import Base.Word Conc.Lts Conc.Ev Model.LeftRightDefs.
Import ListNotations.
Local Open Scope N_scope.

(** * 1. Small facts *)

Definition bit (x : N) : Prop := x = 0 \/ x = 1.

Lemma bit_land1 x : bit (N.land x 1).
Proof. destruct x as [|[p|p|]]; cbn; unfold bit; auto. Qed.

Lemma bit_other l : bit (other l).
Proof. unfold other, bit. destruct (l =? 0); auto. Qed.

Lemma other_neq l : other l <> l.
Proof. unfold other. destruct (N.eqb_spec l 0); subst; [discriminate|auto]. Qed.

Definition sumw (g : list N) : N := fold_left (wadd 64) g 0.

Lemma sumw_snoc g d : sumw (g ++ [d]) = wadd 64 (sumw g) d.
Proof. unfold sumw. rewrite fold_left_app. reflexivity. Qed.

(** * 2. Program-counter classes *)

Definition wpc (p : pc) : bool :=
  match p with
  | U1 _ | U2 _ _ | U3 _ _ | U4 _ _ | U5 _ _ | U6 _ _ _ | U6y _ _ _ | U7 _ _ _ | U8 _ _ _ | U8y _ _ _
  | U9 _ _ | U10 _ _ | U11 => true
  | _ => false
  end.

(** the pc of the mutex holder ([Idle] when the mutex is free) *)
Definition wphase (st : state) : pc :=
  match mutex (sh st) with None => Idle | Some w => th st w end.

Definition four (s : shared) (v : N) : Prop := lx s = v /\ ly s = v /\ rx s = v /\ ry s = v.

(** instance [i] holds (a,b), instance [j] holds (c,d) *)
Definition insts (s : shared) (i a b j c d : N) : Prop :=
  get_x s i = a /\ get_y s i = b /\ get_x s j = c /\ get_y s j = d.

(** writer data invariant, indexed by the pc of the mutex holder *)
Definition Winv (s : shared) (g : list N) (q : pc) : Prop :=
  let S := sumw g in
  let P := sumw (removelast g) in
  match q with
  | Idle | U1 _ | U11 => four s S
  | U2 d l => l = lr s /\ four s S
  | U3 d l => l = lr s /\ insts s (other l) (wadd 64 S d) S l S S
  | U4 d l => l = lr s /\ insts s (other l) (wadd 64 S d) (wadd 64 S d) l S S
  | U5 d l | U9 d l => lr s = other l /\ bit l /\ S = wadd 64 P d /\ insts s (other l) S S l P P
  | U6 d l cv | U6y d l cv | U7 d l cv | U8 d l cv | U8y d l cv =>
    lr s = other l /\ bit l /\ S = wadd 64 P d /\ insts s (other l) S S l P P /\ bit cv
  | U10 d l => lr s = other l /\ bit l /\ S = wadd 64 P d /\ insts s (other l) S S l S P
  | _ => False
  end.

(** locals of readers are indices/instances *)
Definition rbits (p : pc) : Prop :=
  match p with
  | R2 v | R3 v | R6 v _ _ => bit v
  | R4 v i | R5 v i _ => bit v /\ bit i
  | _ => True
  end.

Record J (st : state) : Prop := mkJ {
  j_mut1 : forall w, wpc (th st w) = true -> mutex (sh st) = Some w;
  j_mut2 : forall w, mutex (sh st) = Some w -> wpc (th st w) = true;
  j_lr : bit (lr (sh st));
  j_ver : bit (version (sh st));
  j_w : Winv (sh st) (g_updates st) (wphase st);
  j_rb : forall t, rbits (th st t) }.

Ltac prj := cbn [sh th g_updates mutex version lr ind0 ind1 lx ly rx ry] in *.
Ltac cmp := cbn [get_x get_y set_x set_y get_ind set_ind set_lr set_mutex set_version other
                 N.eqb Pos.eqb sh th g_updates mutex version lr ind0 ind1 lx ly rx ry] in *.

Lemma wphase_holder st t : mutex (sh st) = Some t -> wphase st = th st t.
Proof. unfold wphase. intros ->. reflexivity. Qed.

Lemma wphase_new_holder s f g t p : mutex s = Some t -> wphase (mkSt s (upd f t p) g) = p.
Proof. unfold wphase. prj. intros ->. apply upd_same. Qed.

Lemma wphase_free st : mutex (sh st) = None -> wphase st = Idle.
Proof. unfold wphase. intros ->. reflexivity. Qed.

Lemma wphase_other st s' t p g' :
  mutex (sh st) <> Some t -> mutex s' = mutex (sh st) ->
  wphase (mkSt s' (upd (th st) t p) g') = wphase st.
Proof.
  unfold wphase. prj. intros Hn ->. destruct (mutex (sh st)) as [w|]; [|reflexivity].
  apply upd_other. congruence.
Qed.

Lemma Winv_set_ind s g q i v : Winv (set_ind s i v) g q <-> Winv s g q.
Proof. unfold set_ind. destruct (i =? 0); destruct q; reflexivity. Qed.

Lemma mutex_set_ind s i v : mutex (set_ind s i v) = mutex s.
Proof. unfold set_ind. destruct (i =? 0); reflexivity. Qed.
Lemma lr_set_ind s i v : lr (set_ind s i v) = lr s.
Proof. unfold set_ind. destruct (i =? 0); reflexivity. Qed.
Lemma version_set_ind s i v : version (set_ind s i v) = version s.
Proof. unfold set_ind. destruct (i =? 0); reflexivity. Qed.

(** * 3. The writer-side invariant [J] (no bound on the number of threads needed) *)

Lemma J_init : J init.
Proof.
  constructor; unfold init; prj; unfold bit; auto; try discriminate.
  - unfold wphase, Winv, four; prj. auto.
  - intros _. exact I.
Qed.

(** a non-writer thread [t] moves, shared state changes at most in the indicators *)
Lemma J_nonwriter st t p s' :
  J st -> wpc (th st t) = false -> wpc p = false -> rbits p ->
  (s' = sh st \/ exists i v, s' = set_ind (sh st) i v) ->
  J (mkSt s' (upd (th st) t p) (g_updates st)).
Proof.
  intros HJ Hw Hp Hb Hs.
  assert (Hm : mutex s' = mutex (sh st)) by (destruct Hs as [->|(i & v & ->)]; [reflexivity|apply mutex_set_ind]).
  assert (Hl : lr s' = lr (sh st)) by (destruct Hs as [->|(i & v & ->)]; [reflexivity|apply lr_set_ind]).
  assert (Hv : version s' = version (sh st)) by (destruct Hs as [->|(i & v & ->)]; [reflexivity|apply version_set_ind]).
  assert (Hnt : mutex (sh st) <> Some t).
  { intros E. apply (j_mut2 _ HJ) in E. congruence. }
  constructor; prj.
  - intros w. destruct (Nat.eq_dec w t) as [->|Hne].
    + rewrite upd_same. congruence.
    + rewrite upd_other by exact Hne. rewrite Hm. apply (j_mut1 _ HJ).
  - intros w. rewrite Hm. intros E. destruct (Nat.eq_dec w t) as [->|Hne]; [contradiction|].
    rewrite upd_other by exact Hne. apply (j_mut2 _ HJ); exact E.
  - rewrite Hl. apply (j_lr _ HJ).
  - rewrite Hv. apply (j_ver _ HJ).
  - rewrite wphase_other by assumption.
    destruct Hs as [->|(i & v & ->)]; [|apply Winv_set_ind]; apply (j_w _ HJ).
  - intros r. destruct (Nat.eq_dec r t) as [->|Hne].
    + rewrite upd_same. exact Hb.
    + rewrite upd_other by exact Hne. apply (j_rb _ HJ).
Qed.

(** the mutex holder [t] moves to another writer pc *)
Lemma J_writer st t p s' g' :
  J st -> wpc (th st t) = true -> wpc p = true ->
  mutex s' = mutex (sh st) -> bit (lr s') -> bit (version s') ->
  Winv s' g' p ->
  J (mkSt s' (upd (th st) t p) g').
Proof.
  intros HJ Hw Hp Hm Hl Hv HW.
  assert (Ht : mutex (sh st) = Some t) by (apply (j_mut1 _ HJ); exact Hw).
  constructor; prj.
  - intros w. destruct (Nat.eq_dec w t) as [->|Hne].
    + congruence.
    + rewrite upd_other by exact Hne. rewrite Hm. apply (j_mut1 _ HJ).
  - intros w. rewrite Hm. intros E. assert (w = t) by congruence. subst w. rewrite upd_same. exact Hp.
  - exact Hl.
  - exact Hv.
  - rewrite wphase_new_holder by congruence. exact HW.
  - intros r. destruct (Nat.eq_dec r t) as [->|Hne].
    + rewrite upd_same. destruct p; try discriminate; exact I.
    + rewrite upd_other by exact Hne. apply (j_rb _ HJ).
Qed.

Ltac bits :=
  repeat match goal with
  | H : bit ?x |- _ => is_var x; destruct H; subst x
  end.

Lemma mutex_set_x s i v : mutex (set_x s i v) = mutex s.
Proof. unfold set_x. destruct (i =? 0); reflexivity. Qed.
Lemma mutex_set_y s i v : mutex (set_y s i v) = mutex s.
Proof. unfold set_y. destruct (i =? 0); reflexivity. Qed.
Lemma lr_set_x s i v : lr (set_x s i v) = lr s.
Proof. unfold set_x. destruct (i =? 0); reflexivity. Qed.
Lemma lr_set_y s i v : lr (set_y s i v) = lr s.
Proof. unfold set_y. destruct (i =? 0); reflexivity. Qed.
Lemma version_set_x s i v : version (set_x s i v) = version s.
Proof. unfold set_x. destruct (i =? 0); reflexivity. Qed.
Lemma version_set_y s i v : version (set_y s i v) = version s.
Proof. unfold set_y. destruct (i =? 0); reflexivity. Qed.

Ltac wfin := unfold Winv, insts, four in *; cmp; intuition (try congruence).

Ltac step_inv H :=
  cbv beta iota zeta in H; inversion H; subst; clear H.

Ltac jside Hp :=
  first [ assumption | rewrite Hp; reflexivity | reflexivity
        | apply mutex_set_x | apply mutex_set_y
        | rewrite ?lr_set_x, ?lr_set_y, ?version_set_x, ?version_set_y; assumption
        | apply bit_land1 | apply bit_other
        | destruct (_ =? 0); reflexivity ].
Ltac jw Hp := apply J_writer; [jside Hp|jside Hp|jside Hp|jside Hp|jside Hp|jside Hp|].

Lemma J_step st a st' es : J st -> step st a = Some (st', es) -> J st'.
Proof.
  intros HJ H. destruct a as [t o|t]; unfold step in H.
  { destruct (th st t) eqn:Hp; try discriminate. step_inv H.
    apply J_nonwriter; auto; try exact I. rewrite Hp; reflexivity. }
  assert (HL := j_lr _ HJ). assert (HV := j_ver _ HJ).
  assert (HRB := j_rb _ HJ t).
  destruct (th st t) eqn:Hp; try discriminate;
    try (assert (Ht : mutex (sh st) = Some t) by (apply (j_mut1 _ HJ); rewrite Hp; reflexivity);
         assert (HW := j_w _ HJ); rewrite (wphase_holder _ _ Ht), Hp in HW);
    cbn [rbits] in HRB.
  - (* Begin *) destruct o; step_inv H; (apply J_nonwriter; auto; try exact I; rewrite Hp; reflexivity).
  - (* R1 *) step_inv H. apply J_nonwriter; auto; [rewrite Hp; reflexivity|apply bit_land1].
  - (* R2 *) step_inv H. apply J_nonwriter; eauto. rewrite Hp; reflexivity.
  - (* R3 *) step_inv H. apply J_nonwriter; auto; [rewrite Hp; reflexivity|split; assumption].
  - (* R4 *) step_inv H. apply J_nonwriter; auto. rewrite Hp; reflexivity.
  - (* R5 *) step_inv H. apply J_nonwriter; auto; [rewrite Hp; reflexivity|tauto].
  - (* R6 *) step_inv H. apply J_nonwriter; eauto; [rewrite Hp; reflexivity|exact I].
  - (* U0 *)
    destruct (mutex (sh st)) eqn:Hm; try discriminate. step_inv H.
    assert (HW := j_w _ HJ). rewrite (wphase_free _ Hm) in HW.
    constructor; prj; unfold set_mutex; prj; [| |exact HL|exact HV| |].
    + intros w. destruct (Nat.eq_dec w t) as [->|Hne]; [reflexivity|].
      rewrite upd_other by exact Hne. intros E. apply (j_mut1 _ HJ) in E. congruence.
    + intros w E. assert (w = t) by congruence. subst w. rewrite upd_same. reflexivity.
    + unfold wphase; prj. rewrite upd_same. exact HW.
    + intros r. destruct (Nat.eq_dec r t) as [->|Hne].
      * rewrite upd_same. exact I.
      * rewrite upd_other by exact Hne. apply (j_rb _ HJ).
  - (* U1 *) step_inv H. jw Hp. wfin.
  - (* U2 *) step_inv H.
    assert (bit l) by (destruct HW as [-> _]; exact HL).
    jw Hp. bits; wfin.
  - (* U3 *) step_inv H.
    assert (bit l) by (destruct HW as [-> _]; exact HL).
    jw Hp. bits; wfin.
  - (* U4 *) step_inv H.
    assert (bit l) by (destruct HW as [-> _]; exact HL).
    jw Hp.
    unfold Winv. rewrite removelast_last, sumw_snoc.
    bits; wfin.
  - (* U5 *) step_inv H. jw Hp. wfin.
  - (* U6 *) step_inv H. jw Hp. destruct (_ =? 0); wfin.
  - (* U6y *) step_inv H. jw Hp. wfin.
  - (* U7 *) step_inv H. jw Hp. wfin.
  - (* U8 *) step_inv H. jw Hp. destruct (_ =? 0); wfin.
  - (* U8y *) step_inv H. jw Hp. wfin.
  - (* U9 *) step_inv H.
    assert (bit l) by (apply HW).
    jw Hp. bits; wfin.
  - (* U10 *) step_inv H.
    assert (bit l) by (apply HW).
    jw Hp. bits; wfin.
  - (* U11 *) step_inv H.
    constructor; prj; unfold set_mutex; prj; [| |exact HL|exact HV| |].
    + intros w. destruct (Nat.eq_dec w t) as [->|Hne]; [rewrite upd_same; discriminate|].
      rewrite upd_other by exact Hne. intros E. apply (j_mut1 _ HJ) in E. congruence.
    + discriminate.
    + unfold wphase; prj. exact HW.
    + intros r. destruct (Nat.eq_dec r t) as [->|Hne].
      * rewrite upd_same. exact I.
      * rewrite upd_other by exact Hne. apply (j_rb _ HJ).
Qed.

Theorem J_reach st : reach init step st -> J st.
Proof. apply inv_rule; [exact J_init|]. intros s a s' es HJ H. eapply J_step; eauto. Qed.

(** * 4. Writer mutual exclusion and "every update applied exactly once to each instance" *)

(** [wpc p = true] iff [p] is one of the writer pcs U1..U11 (the mutex is held) *)
Theorem lr_mutex st : reach init step st ->
  (forall w, mutex (sh st) = Some w <-> wpc (th st w) = true) /\
  (forall w1 w2, wpc (th st w1) = true -> wpc (th st w2) = true -> w1 = w2).
Proof.
  intros Hr. apply J_reach in Hr. split.
  - intros w; split; [apply (j_mut2 _ Hr)|apply (j_mut1 _ Hr)].
  - intros w1 w2 H1 H2. apply (j_mut1 _ Hr) in H1. apply (j_mut1 _ Hr) in H2. congruence.
Qed.

Theorem lr_twice st : reach init step st -> mutex (sh st) = None ->
  lx (sh st) = sumw (g_updates st) /\ ly (sh st) = sumw (g_updates st) /\
  rx (sh st) = sumw (g_updates st) /\ ry (sh st) = sumw (g_updates st).
Proof.
  intros Hr Hm. apply J_reach in Hr. assert (HW := j_w _ Hr).
  rewrite (wphase_free _ Hm) in HW. exact HW.
Qed.

(** * 5. Bounded set of threads: only threads with id < n ever act *)

Definition tid (a : action) : nat := match a with Start t _ => t | Step t => t end.

Definition bstep (n : nat) (st : state) (a : action) : option (state * list ev) :=
  if (tid a <? n)%nat then step st a else None.

Lemma bstep_step n st a r : bstep n st a = Some r -> step st a = Some r /\ (tid a < n)%nat.
Proof.
  unfold bstep. destruct (Nat.ltb_spec (tid a) n); [auto|discriminate].
Qed.

Lemma breach_reach n st : reach init (bstep n) st -> reach init step st.
Proof.
  induction 1 as [|s a s' es Hr IH Hst]; [apply reach_init|].
  apply bstep_step in Hst. eapply reach_step; [exact IH|apply Hst].
Qed.

Fixpoint cnt (p : pc -> bool) (f : nat -> pc) (n : nat) : nat :=
  match n with
  | O => O
  | S k => ((if p (f k) then 1 else 0) + cnt p f k)%nat
  end.

Lemma cnt_le p f n : (cnt p f n <= n)%nat.
Proof. induction n; cbn [cnt]; [lia|]. destruct (p (f n)); lia. Qed.

Lemma cnt_upd_ge p f t v n : (n <= t)%nat -> cnt p (upd f t v) n = cnt p f n.
Proof.
  induction n; intros H; cbn [cnt]; [reflexivity|].
  rewrite upd_other by lia. rewrite IHn by lia. reflexivity.
Qed.

Lemma cnt_upd p f t v n : (t < n)%nat ->
  (cnt p (upd f t v) n + (if p (f t) then 1 else 0) = cnt p f n + (if p v then 1 else 0))%nat.
Proof.
  induction n; intros H; [lia|]. cbn [cnt].
  destruct (Nat.eq_dec t n) as [->|Hne].
  - rewrite upd_same. rewrite cnt_upd_ge by lia. destruct (p (f n)), (p v); lia.
  - rewrite upd_other by lia. assert (Ht : (t < n)%nat) by lia. specialize (IHn Ht).
    destruct (p (f n)), (p (f t)), (p v); lia.
Qed.

Lemma cnt_zero p f n : cnt p f n = O -> forall t, (t < n)%nat -> p (f t) = false.
Proof.
  induction n; intros H t Ht; [lia|]. cbn [cnt] in H.
  destruct (p (f n)) eqn:E; [lia|].
  destruct (Nat.eq_dec t n) as [->|Hne]; [exact E|]. apply IHn; lia.
Qed.

(** reader that has arrived on indicator [j] and not yet departed *)
Definition inR (j : N) (p : pc) : bool :=
  match p with
  | R3 v | R4 v _ | R5 v _ _ | R6 v _ _ => v =? j
  | _ => false
  end.

Record CInv (n : nat) (st : state) : Prop := mkC {
  c_idle : forall t, (n <= t)%nat -> th st t = Idle;
  c_0 : ind0 (sh st) = N.of_nat (cnt (inR 0) (th st) n);
  c_1 : ind1 (sh st) = N.of_nat (cnt (inR 1) (th st) n) }.

Lemma C_init n : CInv n init.
Proof.
  constructor; unfold init; prj; auto.
  - induction n; cbn [cnt inR]; [reflexivity|exact IHn].
  - induction n; cbn [cnt inR]; [reflexivity|exact IHn].
Qed.

Lemma C_same n st t p s' g' :
  CInv n st -> (t < n)%nat ->
  inR 0 p = inR 0 (th st t) -> inR 1 p = inR 1 (th st t) ->
  ind0 s' = ind0 (sh st) -> ind1 s' = ind1 (sh st) ->
  CInv n (mkSt s' (upd (th st) t p) g').
Proof.
  intros HC Ht H0 H1 E0 E1. constructor; prj.
  - intros t0 Hle. rewrite upd_other by lia. apply (c_idle _ _ HC); exact Hle.
  - rewrite E0, (c_0 _ _ HC). f_equal.
    assert (X := cnt_upd (inR 0) (th st) t p n Ht). rewrite H0 in X. destruct (inR 0 (th st t)); lia.
  - rewrite E1, (c_1 _ _ HC). f_equal.
    assert (X := cnt_upd (inR 1) (th st) t p n Ht). rewrite H1 in X. destruct (inR 1 (th st t)); lia.
Qed.

Ltac fld := unfold set_x, set_y, set_ind, set_lr, set_mutex, set_version; try destruct (_ =? 0); reflexivity.

Lemma pow2_64 : 2 ^ 64 = 18446744073709551616.
Proof. reflexivity. Qed.

Lemma C_step n st a st' es :
  N.of_nat n < 2 ^ 64 ->
  J st -> CInv n st -> bstep n st a = Some (st', es) -> CInv n st'.
Proof.
  intros Hn HJ HC H. apply bstep_step in H. destruct H as [H Ht].
  destruct a as [t o|t]; unfold step in H; cbn [tid] in Ht.
  { destruct (th st t) eqn:Hp; try discriminate. step_inv H.
    apply C_same; auto; rewrite Hp; reflexivity. }
  assert (HRB := j_rb _ HJ t).
  destruct (th st t) eqn:Hp; try discriminate; cbn [rbits] in HRB.
  3: { (* R2 *) step_inv H.
    assert (X0 := cnt_upd (inR 0) (th st) t (R3 v) n Ht).
    assert (X1 := cnt_upd (inR 1) (th st) t (R3 v) n Ht).
    assert (L0 := cnt_le (inR 0) (upd (th st) t (R3 v)) n).
    assert (L1 := cnt_le (inR 1) (upd (th st) t (R3 v)) n).
    rewrite Hp in X0, X1. cbn [inR] in X0, X1.
    constructor; prj.
    - intros t0 Hle. rewrite upd_other by lia. apply (c_idle _ _ HC); exact Hle.
    - bits; cmp; rewrite (c_0 _ _ HC).
      + rewrite wadd_small by lia. lia.
      + lia.
    - bits; cmp; rewrite (c_1 _ _ HC).
      + lia.
      + rewrite wadd_small by lia. lia. }
  6: { (* R6 *) step_inv H.
    assert (X0 := cnt_upd (inR 0) (th st) t Idle n Ht).
    assert (X1 := cnt_upd (inR 1) (th st) t Idle n Ht).
    assert (L0 := cnt_le (inR 0) (th st) n).
    assert (L1 := cnt_le (inR 1) (th st) n).
    rewrite Hp in X0, X1. cbn [inR] in X0, X1.
    constructor; prj.
    - intros t0 Hle. rewrite upd_other by lia. apply (c_idle _ _ HC); exact Hle.
    - bits; cmp; rewrite (c_0 _ _ HC).
      + rewrite wsub_small by lia. lia.
      + lia.
    - bits; cmp; rewrite (c_1 _ _ HC).
      + lia.
      + rewrite wsub_small by lia. lia. }
  all: try (destruct o); try (destruct (mutex (sh st)); [discriminate|]); step_inv H;
    try (destruct (_ =? 0));
    (apply C_same; [exact HC|exact Ht|rewrite Hp; reflexivity|rewrite Hp; reflexivity|fld|fld]).
Qed.

(** * 6. The reader-side invariant *)

(** in writer phase [q] a reader that arrived on indicator [v] may still use the instance
    that [lr] no longer designates *)
Definition old_ok (q : pc) (v : N) : Prop :=
  match q with
  | U5 _ _ | U6 _ _ _ | U6y _ _ _ => True
  | U7 _ _ cv | U8 _ _ cv | U8y _ _ cv => v = N.land cv 1
  | _ => False
  end.

Definition Rinv (s : shared) (g : list N) (q r : pc) : Prop :=
  match r with
  | R4 v i => i = lr s \/ old_ok q v
  | R5 v i x => (i = lr s \/ old_ok q v) /\ x = get_x s i
  | R6 v x y => x = y /\ (x = sumw g \/ (old_ok q v /\ x = sumw (removelast g)))
  | _ => True
  end.

Definition wbits (q : pc) : Prop :=
  match q with
  | U2 _ l | U3 _ l | U4 _ l | U5 _ l | U9 _ l | U10 _ l => bit l
  | U6 _ l cv | U6y _ l cv | U7 _ l cv | U8 _ l cv | U8y _ l cv => bit l /\ bit cv
  | _ => True
  end.

Lemma Winv_wbits s g q : bit (lr s) -> Winv s g q -> wbits q.
Proof.
  intros HL HW. destruct q; unfold Winv, wbits in *; try exact I;
    try (destruct HW as [-> _]; exact HL); tauto.
Qed.

Lemma Rinv_set_ind s g q r i v : Rinv (set_ind s i v) g q r <-> Rinv s g q r.
Proof. unfold set_ind. destruct (i =? 0); destruct r; reflexivity. Qed.

Lemma Rinv_wpc s g q p : wpc p = true -> Rinv s g q p.
Proof. destruct p; try discriminate; intros _; exact I. Qed.

Ltac bits2 :=
  repeat match goal with
  | H : _ /\ _ |- _ => destruct H
  | H : bit ?x |- _ => is_var x; destruct H as [H|H]; rewrite H in *; try subst x
  end.

Lemma nv0 : N.land (wadd 32 0 1) 1 = 1.
Proof. reflexivity. Qed.
Lemma nv1 : N.land (wadd 32 1 1) 1 = 0.
Proof. reflexivity. Qed.

Ltac rfin :=
  unfold Rinv, old_ok, Winv, wbits, rbits, insts, four in *; bits2; rewrite ?nv0, ?nv1 in *; cmp;
  cbn [N.land Pos.land] in *; intuition (try congruence; try discriminate).

Lemma R5_to_R6 s g q v i x :
  bit (lr s) -> Winv s g q -> bit v -> bit i ->
  Rinv s g q (R5 v i x) -> Rinv s g q (R6 v x (get_y s i)).
Proof.
  intros HL HW Hv Hi HR. assert (HB := Winv_wbits _ _ _ HL HW).
  destruct q; rfin.
Qed.

Lemma no_reader n st j :
  CInv n st -> bit j -> get_ind (sh st) j = 0 -> forall r, inR j (th st r) = false.
Proof.
  intros HC Hj H0 r. destruct (Nat.lt_ge_cases r n) as [Hlt|Hge].
  - assert (X0 := c_0 _ _ HC). assert (X1 := c_1 _ _ HC).
    destruct Hj; subst j; cmp; (eapply cnt_zero; [|exact Hlt]); lia.
  - rewrite (c_idle _ _ HC r Hge). reflexivity.
Qed.

Definition RAll (st : state) : Prop :=
  forall r, Rinv (sh st) (g_updates st) (wphase st) (th st r).

Lemma R_nonwriter st t p s' :
  J st -> wpc (th st t) = false ->
  (s' = sh st \/ exists i v, s' = set_ind (sh st) i v) ->
  RAll st ->
  Rinv (sh st) (g_updates st) (wphase st) p ->
  RAll (mkSt s' (upd (th st) t p) (g_updates st)).
Proof.
  intros HJ Hw Hs HR Hp r. prj.
  assert (Hm : mutex s' = mutex (sh st)) by (destruct Hs as [->|(i & v & ->)]; [reflexivity|apply mutex_set_ind]).
  assert (Hnt : mutex (sh st) <> Some t).
  { intros E. apply (j_mut2 _ HJ) in E. congruence. }
  rewrite wphase_other by assumption.
  assert (X : Rinv (sh st) (g_updates st) (wphase st) (upd (th st) t p r)).
  { destruct (Nat.eq_dec r t) as [->|Hne]; [rewrite upd_same; exact Hp|rewrite upd_other by exact Hne; apply HR]. }
  destruct Hs as [->|(i & v & ->)]; [exact X|apply Rinv_set_ind; exact X].
Qed.

Lemma R_writer st t p s' g' :
  J st -> wpc (th st t) = true -> wpc p = true -> mutex s' = mutex (sh st) ->
  RAll st ->
  (forall r, r <> t -> Rinv (sh st) (g_updates st) (th st t) (th st r) -> Rinv s' g' p (th st r)) ->
  RAll (mkSt s' (upd (th st) t p) g').
Proof.
  intros HJ Hw Hp Hm HR Hstep r. prj.
  assert (Ht : mutex (sh st) = Some t) by (apply (j_mut1 _ HJ); exact Hw).
  rewrite wphase_new_holder by congruence.
  destruct (Nat.eq_dec r t) as [->|Hne].
  - rewrite upd_same. apply Rinv_wpc; exact Hp.
  - rewrite upd_other by exact Hne. apply Hstep; [exact Hne|].
    specialize (HR r). rewrite (wphase_holder _ _ Ht) in HR. exact HR.
Qed.

Lemma R_init : RAll init.
Proof. intros r. exact I. Qed.

Ltac rw Hp := apply R_writer; [assumption|rewrite Hp; reflexivity|jside Hp|jside Hp|assumption|].

Ltac rn Hp := apply R_nonwriter;
  [assumption|rewrite Hp; reflexivity|first [left; reflexivity|right; eexists; eexists; reflexivity]|assumption|].

Lemma R_step n st a st' es :
  J st -> CInv n st -> RAll st -> bstep n st a = Some (st', es) -> RAll st'.
Proof.
  intros HJ HC HR H. apply bstep_step in H. destruct H as [H _].
  destruct a as [t o|t]; unfold step in H.
  { destruct (th st t) eqn:Hp; try discriminate. step_inv H.
    rn Hp; exact I. }
  assert (HL := j_lr _ HJ). assert (HV := j_ver _ HJ).
  assert (HRB := j_rb _ HJ t). assert (HRt := HR t).
  destruct (th st t) eqn:Hp; try discriminate;
    try (assert (Ht : mutex (sh st) = Some t) by (apply (j_mut1 _ HJ); rewrite Hp; reflexivity);
         assert (HW := j_w _ HJ); rewrite (wphase_holder _ _ Ht), Hp in HW);
    cbn [rbits] in HRB.
  - (* Begin *) destruct o; step_inv H; (rn Hp; exact I).
  - (* R1 *) step_inv H. rn Hp; exact I.
  - (* R2 *) step_inv H. rn Hp; exact I.
  - (* R3 *) step_inv H. rn Hp; [left; reflexivity].
  - (* R4 *) step_inv H. rn Hp; [split; [exact HRt|reflexivity]].
  - (* R5 *) step_inv H. rn Hp; [].
    apply R5_to_R6; [exact HL|apply (j_w _ HJ)|tauto|tauto|exact HRt].
  - (* R6 *) step_inv H. rn Hp; exact I.
  - (* U0 *)
    destruct (mutex (sh st)) eqn:Hm; try discriminate. step_inv H.
    intros r. unfold wphase; prj. unfold set_mutex; prj. rewrite upd_same.
    destruct (Nat.eq_dec r t) as [->|Hne]; [rewrite upd_same; exact I|].
    rewrite upd_other by exact Hne. specialize (HR r). rewrite (wphase_free _ Hm) in HR.
    destruct (th st r); exact HR.
  - (* U1 *) step_inv H. rw Hp. intros r Hne X; rewrite Hp in X. destruct (th st r); exact X.
  - (* U2 *) step_inv H.
    assert (bit l) by (destruct HW as [-> _]; exact HL).
    rw Hp. intros r Hne X; rewrite Hp in X. assert (Hb := j_rb _ HJ r). destruct (th st r); try exact I; rfin.
  - (* U3 *) step_inv H.
    assert (bit l) by (destruct HW as [-> _]; exact HL).
    rw Hp. intros r Hne X; rewrite Hp in X. assert (Hb := j_rb _ HJ r). destruct (th st r); try exact I; rfin.
  - (* U4 *) step_inv H.
    assert (bit l) by (destruct HW as [-> _]; exact HL).
    rw Hp. intros r Hne X; rewrite Hp in X. assert (Hb := j_rb _ HJ r).
    destruct (th st r); try exact I; unfold Rinv; rewrite ?removelast_last, ?sumw_snoc; rfin.
  - (* U5 *) step_inv H. rw Hp. intros r Hne X; rewrite Hp in X. destruct (th st r); exact X.
  - (* U6 *) step_inv H.
    assert (HB := Winv_wbits _ _ _ HL HW).
    destruct (get_ind (sh st) (N.land (wadd 32 cv 1) 1) =? 0) eqn:E.
    + apply N.eqb_eq in E. assert (Hno := no_reader _ _ _ HC (bit_land1 _) E).
      rw Hp. intros r Hne X; rewrite Hp in X. assert (Hb := j_rb _ HJ r). specialize (Hno r).
      destruct (th st r); try exact I; cbn [inR] in Hno; rfin.
    + rw Hp. intros r Hne X; rewrite Hp in X. destruct (th st r); exact X.
  - (* U6y *) step_inv H. rw Hp. intros r Hne X; rewrite Hp in X. destruct (th st r); exact X.
  - (* U7 *) step_inv H. rw Hp. intros r Hne X; rewrite Hp in X. destruct (th st r); exact X.
  - (* U8 *) step_inv H.
    assert (HB := Winv_wbits _ _ _ HL HW).
    destruct (get_ind (sh st) (N.land cv 1) =? 0) eqn:E.
    + apply N.eqb_eq in E. assert (Hno := no_reader _ _ _ HC (bit_land1 _) E).
      rw Hp. intros r Hne X; rewrite Hp in X. assert (Hb := j_rb _ HJ r). specialize (Hno r).
      destruct (th st r); try exact I; cbn [inR] in Hno; rfin.
    + rw Hp. intros r Hne X; rewrite Hp in X. destruct (th st r); exact X.
  - (* U8y *) step_inv H. rw Hp. intros r Hne X; rewrite Hp in X. destruct (th st r); exact X.
  - (* U9 *) step_inv H.
    assert (HB := Winv_wbits _ _ _ HL HW).
    rw Hp. intros r Hne X; rewrite Hp in X. assert (Hb := j_rb _ HJ r). destruct (th st r); try exact I; rfin.
  - (* U10 *) step_inv H.
    assert (HB := Winv_wbits _ _ _ HL HW).
    rw Hp. intros r Hne X; rewrite Hp in X. assert (Hb := j_rb _ HJ r). destruct (th st r); try exact I; rfin.
  - (* U11 *) step_inv H.
    intros r. unfold wphase; prj. unfold set_mutex; prj.
    destruct (Nat.eq_dec r t) as [->|Hne]; [rewrite upd_same; exact I|].
    rewrite upd_other by exact Hne. specialize (HR r). rewrite (wphase_holder _ _ Ht), Hp in HR.
    destruct (th st r); exact HR.
Qed.

(** * 7. The combined invariant on runs in which only threads with id < n act, n < 2^64 *)

Theorem inv_breach n st : N.of_nat n < 2 ^ 64 -> reach init (bstep n) st -> J st /\ CInv n st /\ RAll st.
Proof.
  intros Hn. revert st. apply (inv_rule _ _ _ init (bstep n) (fun st => J st /\ CInv n st /\ RAll st)).
  - split; [exact J_init|split; [apply C_init|exact R_init]].
  - intros s a s' es (HJ & HC & HR) H. split; [|split].
    + apply bstep_step in H. eapply J_step; [exact HJ|apply H].
    + eapply C_step; eauto.
    + eapply R_step; eauto.
Qed.

(** runs of the unrestricted model whose actions only name threads below [n] are bounded runs *)
Lemma run_bstep n acts : Forall (fun a => (tid a < n)%nat) acts ->
  forall s, run (bstep n) s acts = run step s acts.
Proof.
  induction 1 as [|a acts Ha _ IH]; intros s; cbn [run]; [reflexivity|].
  unfold bstep at 1. destruct (Nat.ltb_spec (tid a) n); [|lia].
  destruct (step s a) as [[s' es]|]; rewrite IH; reflexivity.
Qed.

Lemma run_breach n acts : Forall (fun a => (tid a < n)%nat) acts ->
  reach init (bstep n) (fst (fst (run step init acts))).
Proof. intros H. rewrite <- (run_bstep n acts H). apply run_reach. Qed.

(** * 8. Readers never use the instance an update functor is modifying *)

Theorem lr_exclusion n st : N.of_nat n < 2 ^ 64 -> reach init (bstep n) st ->
  forall r w v i, (th st r = R4 v i \/ exists x, th st r = R5 v i x) ->
  forall d l, ((th st w = U2 d l \/ th st w = U3 d l) -> other l <> i) /\
              ((th st w = U9 d l \/ th st w = U10 d l) -> l <> i).
Proof.
  intros Hn Hr r w v i Hrd d l. destruct (inv_breach _ _ Hn Hr) as (HJ & HC & HR).
  assert (HL := j_lr _ HJ). assert (HW := j_w _ HJ). specialize (HR r).
  assert (Hi : i = lr (sh st) \/ old_ok (wphase st) v).
  { destruct Hrd as [E|[x E]]; rewrite E in HR; [exact HR|apply HR]. }
  clear HR Hrd.
  assert (Hph : forall p, th st w = p -> wpc p = true -> wphase st = p).
  { intros p E Hp. rewrite <- E in Hp. apply (j_mut1 _ HJ) in Hp. rewrite (wphase_holder _ _ Hp). exact E. }
  split; intros [E|E]; rewrite (Hph _ E eq_refl) in *;
    assert (HB := Winv_wbits _ _ _ HL HW); unfold Winv, old_ok, wbits in *.
  - destruct HW as [-> _]. destruct Hi as [->|[]]. apply other_neq.
  - destruct HW as [-> _]. destruct Hi as [->|[]]. apply other_neq.
  - destruct HW as [E1 _]. destruct Hi as [->|[]]. rewrite E1. intros E2. symmetry in E2. exact (other_neq _ E2).
  - destruct HW as [E1 _]. destruct Hi as [->|[]]. rewrite E1. intros E2. symmetry in E2. exact (other_neq _ E2).
Qed.

(** * 9. A read never returns a mixture *)

Theorem lr_read_consistent n st : N.of_nat n < 2 ^ 64 -> reach init (bstep n) st ->
  forall r v x y, th st r = R6 v x y -> x = y.
Proof.
  intros Hn Hr r v x y E. destruct (inv_breach _ _ Hn Hr) as (HJ & HC & HR).
  specialize (HR r). rewrite E in HR. apply HR.
Qed.

(** * 10. The value a read sees is the sum of a prefix of the update history that misses at most
    the last update *)

Definition recent (g : list N) (x : N) : Prop :=
  exists k, (length g - 1 <= k <= length g)%nat /\ x = sumw (firstn k g).

Lemma recent_all g : recent g (sumw g).
Proof. exists (length g). split; [lia|]. rewrite firstn_all. reflexivity. Qed.

Lemma recent_prev g : recent g (sumw (removelast g)).
Proof.
  exists (pred (length g)). split; [lia|]. rewrite removelast_firstn_len. reflexivity.
Qed.

Lemma inst_recent s g q v i :
  bit (lr s) -> Winv s g q -> bit v -> bit i -> (i = lr s \/ old_ok q v) ->
  get_x s i = sumw g \/ get_x s i = sumw (removelast g).
Proof.
  intros HL HW Hv Hi HR. assert (HB := Winv_wbits _ _ _ HL HW).
  destruct q; rfin.
Qed.

Theorem lr_read_value n st : N.of_nat n < 2 ^ 64 -> reach init (bstep n) st ->
  forall r,
  match th st r with
  | R4 v i => recent (g_updates st) (get_x (sh st) i)
  | R5 v i x => x = get_x (sh st) i /\ recent (g_updates st) x
  | R6 v x y => recent (g_updates st) x /\ y = x
  | _ => True
  end.
Proof.
  intros Hn Hr r. destruct (inv_breach _ _ Hn Hr) as (HJ & HC & HR).
  specialize (HR r). assert (Hb := j_rb _ HJ r). assert (HL := j_lr _ HJ). assert (HW := j_w _ HJ).
  destruct (th st r); try exact I; unfold Rinv, rbits in *.
  - destruct Hb as [Hv Hi]. destruct (inst_recent _ _ _ _ _ HL HW Hv Hi HR) as [->| ->];
      [apply recent_all|apply recent_prev].
  - destruct Hb as [Hv Hi]. destruct HR as [HR ->]. split; [reflexivity|].
    destruct (inst_recent _ _ _ _ _ HL HW Hv Hi HR) as [->| ->];
      [apply recent_all|apply recent_prev].
  - destruct HR as [<- [->|[_ ->]]]; (split; [|reflexivity]); [apply recent_all|apply recent_prev].
Qed.

(** the same on executable runs of the unrestricted model *)
Corollary lr_exclusion_run n acts : N.of_nat n < 2 ^ 64 -> Forall (fun a => (tid a < n)%nat) acts ->
  let st := fst (fst (run step init acts)) in
  forall r w v i, (th st r = R4 v i \/ exists x, th st r = R5 v i x) ->
  forall d l, ((th st w = U2 d l \/ th st w = U3 d l) -> other l <> i) /\
              ((th st w = U9 d l \/ th st w = U10 d l) -> l <> i).
Proof. intros Hn Ha. apply (lr_exclusion n); [exact Hn|apply run_breach; exact Ha]. Qed.
