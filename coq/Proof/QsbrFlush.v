(** The flush of the quiescent state based reclamation model (Model/QsbrDefs.v), the liveness half of C02 as a bounded
    solo run.  QSBR makes progress only when EVERY registered thread passes quiescent states: a thread that owns a
    control block and sits outside any region with an old local epoch blocks the epoch for ever (that is the scheme,
    see [qsbr_no_leak_idle_thread_refuted] in Proof/QsbrInv.v).  So the hypothesis is: every OTHER control block of the
    list is released (its thread has exited).  Then a thread that passes quiescent states again and again (the read
    operation: guard_ptr acquire = enter_region, reset = leave_region = quiescent_state) frees, within FOUR operations,
    every block that sits in one of its retire lists, in the global abandoned list, or inside an orphan of either
    ([qsbr_no_leak_at_quiescence]).  The proof executes the model symbolically, one lemma per atomic step ([st_*]), the
    scan by induction over the thread block list, one lemma per operation ([round]: local epoch behind / current).
    No axioms. *)
From Coq Require Import NArith ZArith List Bool Arith Lia PeanoNat Setoid.
From XV Require Import Conc.Lts Conc.Ev Conc.Solo Model.QsbrDefs Proof.QsbrBase Proof.QsbrEpoch Proof.QsbrNodes Proof.QsbrTags Proof.QsbrGuards.
Import ListNotations.
Local Open Scope N_scope.

Definition idle (s : state) (t : nat) : bool := match th s t with Idle => true | _ => false end.

Section Flush.
Variables (ns : nat) (nc : N) (t : nat) (c : N).
Notation K := (KRead c).

Ltac stp := unfold step, step_gen; cbv zeta;
  repeat match goal with H : th _ _ = _ |- _ => rewrite H end;
  repeat match goal with H : cb _ = _ |- _ => rewrite H end; cbn [cell_of opcode fst snd].

Lemma st_begin s : th s t = Begin (ORead c) -> exists es, step ns s (Step t) = Some (set_pc t (A1 K) s, es).
Proof. intros H. eexists. stp. reflexivity. Qed.

Lemma st_A1 s n0 b : th s t = A1 K -> cells s c = Some n0 -> cb (tl s t) = Some b ->
  exists es, step ns s (Step t) = Some (set_pc t (A2 K) (set_tl t (wt_nest (S (nest (tl s t))) (tl s t)) s), es).
Proof. intros H H1 H2. eexists. stp. rewrite H1. unfold enter. rewrite H2. unfold entered. reflexivity. Qed.

Lemma st_A2 s n0 : th s t = A2 K -> cells s c = Some n0 -> nest (tl s t) = 1%nat ->
  exists es, step ns s (Step t) = Some (set_pc t (Q1 (LFin (r_id (nid s n0)) None)) (set_tl t (wt_nest O (tl s t)) (deref n0 s)), es).
Proof. intros H H1 H2. eexists. stp. rewrite H1. unfold leave. prj. rewrite H2. cbn [pred Nat.eqb]. reflexivity. Qed.

Lemma st_Q1 s k : th s t = Q1 k -> exists es, step ns s (Step t) = Some (set_pc t (Q2 k (gep s)) s, es).
Proof. intros H. eexists. stp. reflexivity. Qed.

Lemma st_Q2a s k e b : th s t = Q2 k e -> cb (tl s t) = Some b -> blocal s b <> e ->
  exists es, step ns s (Step t) = Some (set_pc t (Q9 k e) s, es).
Proof. intros H H1 H2. eexists. stp. destruct (N.eqb_spec (blocal s b) e); [contradiction|]. reflexivity. Qed.

Lemma st_Q2b s k e b : th s t = Q2 k e -> cb (tl s t) = Some b -> blocal s b = e ->
  exists es, step ns s (Step t) = Some (set_pc t (S1 k e) s, es).
Proof. intros H H1 H2. eexists. stp. rewrite H2, N.eqb_refl. reflexivity. Qed.

Lemma st_S1 s k e : th s t = S1 k e ->
  exists es, step ns s (Step t) = Some (set_pc t (match blist s with [] => G1 k e | p :: rest => S2 k e p rest end) s, es).
Proof. intros H. destruct (blist s) eqn:E; eexists; stp; unfold scan_next; rewrite E; reflexivity. Qed.

Lemma st_S2a s k e p rest : th s t = S2 k e p rest -> blocal s p <> (e + 2) mod 3 ->
  exists es, step ns s (Step t) = Some (set_pc t (match rest with [] => G1 k e | q :: r => S2 k e q r end) s, es).
Proof. intros H H1. destruct rest; eexists; stp; (destruct (N.eqb_spec (blocal s p) ((e + 2) mod 3)); [contradiction|]); unfold scan_next; reflexivity. Qed.

Lemma st_S2b s k e p rest : th s t = S2 k e p rest -> blocal s p = (e + 2) mod 3 ->
  exists es, step ns s (Step t) = Some (set_pc t (S3 k e p rest) s, es).
Proof. intros H H1. eexists. stp. rewrite H1, N.eqb_refl. reflexivity. Qed.

Lemma st_S3 s k e p rest : th s t = S3 k e p rest -> bstate s p <> 2 ->
  exists es, step ns s (Step t) = Some (set_pc t (match rest with [] => G1 k e | q :: r => S2 k e q r end) s, es).
Proof. intros H H1. destruct rest; eexists; stp; (destruct (N.eqb_spec (bstate s p) 2); [contradiction|]); unfold scan_next; reflexivity. Qed.

Lemma st_G1 s k e : th s t = G1 k e -> gep s = e -> exists es, step ns s (Step t) = Some (set_pc t (G2 k e) s, es).
Proof. intros H H1. eexists. stp. rewrite H1, N.eqb_refl. reflexivity. Qed.

Lemma st_G2 s k e : th s t = G2 k e -> exists es, step ns s (Step t) = Some (set_pc t (G3 k e) s, es).
Proof. intros H. eexists. stp. reflexivity. Qed.

Lemma st_G3 s k e : th s t = G3 k e -> gep s = e ->
  exists es, step ns s (Step t) = Some (set_pc t (G4 k e) (w_g_gepc (g_gepc s + 1) (w_gep ((e + 1) mod 3) s)), es).
Proof. intros H H1. eexists. stp. rewrite H1, N.eqb_refl. reflexivity. Qed.

Lemma st_G4a s k e : th s t = G4 k e -> aband s = [] -> exists es, step ns s (Step t) = Some (set_pc t (Q9 k ((e + 1) mod 3)) s, es).
Proof. intros H H1. eexists. stp. rewrite H1. reflexivity. Qed.

Lemma st_G4b s k e : th s t = G4 k e -> aband s <> [] -> exists es, step ns s (Step t) = Some (set_pc t (G5 k e) s, es).
Proof. intros H H1. destruct (aband s) eqn:E; [contradiction|]. eexists. stp. rewrite E. reflexivity. Qed.

Lemma st_G5 s k e : th s t = G5 k e ->
  exists es, step ns s (Step t) =
    Some (set_pc t (Q9 k ((e + 1) mod 3))
            (set_tl t (wt_rl (adopt (otgt s) (aband s) (rl (tl s t))) (tl s t))
               (w_g_where (fun n => if memN n (aband s) then PList t (otgt s n) else g_where s n) (w_aband [] s))), es).
Proof. intros H. eexists. stp. reflexivity. Qed.

Lemma st_Q9 s r e b : th s t = Q9 (LFin r None) e -> cb (tl s t) = Some b ->
  exists es, step ns s (Step t) =
    Some (set_pc t Idle
            (set_tl t (wt_rl (updN (rl (tl s t)) e []) (tl s t))
               (free_all (expand (ocont s) (rl (tl s t) e))
                  (w_ocont (fun n => if memN n (rl (tl s t) e) then [] else ocont s n)
                     (w_g_lepc (updN (g_lepc s) b (g_gepc s)) (w_blocal (updN (blocal s) b e) s))))), es).
Proof. intros H H1. eexists. stp. unfold do_cont, finish. reflexivity. Qed.

Definition ssteps (n : nat) (s s' : state) : Prop := solo_steps (step ns) Step idle t n s s'.

Notation reachable := (reach (init nc) (step ns)).
Lemma ssteps_reach n s s' : ssteps n s s' -> reachable s -> reachable s'.
Proof. induction 1 as [|n s s1 es s' Hi Hst Hs IH]; intros Hr; [exact Hr|]. apply IH. eapply reach_step; eauto. Qed.
Lemma ssteps_app n m s s1 s2 : ssteps n s s1 -> ssteps m s1 s2 -> ssteps (n + m) s s2.
Proof. apply solo_steps_app. Qed.

(** one step of the solo run, given the lemma for it *)
Lemma ss1 s s1 n s' : idle s t = false -> (exists es, step ns s (Step t) = Some (s1, es)) -> ssteps n s1 s' -> ssteps (S n) s s'.
Proof. intros Hi (es & Hst) Hs. eapply solo_S; eauto. Qed.

(** what the scan leaves untouched: everything but the program counter *)
Definition Same (s s' : state) : Prop :=
  tl s' = tl s /\ gep s' = gep s /\ blist s' = blist s /\ bstate s' = bstate s /\ blocal s' = blocal s /\ aband s' = aband s /\
  otgt s' = otgt s /\ ocont s' = ocont s /\ cells s' = cells s /\ g_where s' = g_where s /\ g_gepc s' = g_gepc s /\ g_lepc s' = g_lepc s /\
  g_life s' = g_life s /\ g_nfree s' = g_nfree s /\ (forall u, u <> t -> th s' u = th s u).

Lemma Same_pc s p : Same s (set_pc t p s).
Proof. unfold Same. prj. repeat split; try reflexivity. intros u Hu. apply upd_other. exact Hu. Qed.
Lemma Same_trans s1 s2 s3 : Same s1 s2 -> Same s2 s3 -> Same s1 s3.
Proof.
  unfold Same. intros (A1 & A2 & A3 & A4 & A5 & A6 & A7 & A8 & A9 & A10 & A11 & A12 & A13 & A14 & A15)
    (B1 & B2 & B3 & B4 & B5 & B6 & B7 & B8 & B9 & B10 & B11 & B12 & B13 & B14 & B15).
  repeat split; try congruence. intros u Hu. rewrite B15, A15; auto.
Qed.

(** the scan of the thread block list: the own block has the current epoch, every other block is released *)
Lemma ph_scan_l k e b : forall l s, blocal s b = e -> e < 3 -> (forall p, In p l -> p = b \/ bstate s p <> 2) ->
  th s t = (match l with [] => G1 k e | p :: rest => S2 k e p rest end) ->
  exists n s', ssteps n s s' /\ th s' t = G1 k e /\ Same s s'.
Proof.
  induction l as [|p rest IH]; intros s Hb He Hl Hpc.
  - exists O, s. split; [apply solo_O|]. split; [exact Hpc|]. unfold Same. repeat split; reflexivity.
  - assert (Hni : idle s t = false) by (unfold idle; rewrite Hpc; reflexivity).
    assert (Hnext : forall s1, Same s s1 -> th s1 t = (match rest with [] => G1 k e | q :: r => S2 k e q r end) ->
              exists n s', ssteps n s1 s' /\ th s' t = G1 k e /\ Same s s').
    { intros s1 Hsame Hpc1. pose proof Hsame as (_ & _ & _ & E4 & E5 & _).
      destruct (IH s1) as (n & s' & Hs & Hp & Hsame').
      - rewrite E5. exact Hb.
      - exact He.
      - intros q Hq. rewrite E4. apply Hl. right. exact Hq.
      - exact Hpc1.
      - exists n, s'. split; [exact Hs|]. split; [exact Hp|]. eapply Same_trans; eauto. }
    destruct (N.eq_dec (blocal s p) ((e + 2) mod 3)) as [Heq|Hne].
    + (* the local epoch of p is the old one: p is not the own block, and it is not active *)
      assert (Hst : bstate s p <> 2).
      { destruct (Hl p (or_introl eq_refl)) as [->|Hx]; [|exact Hx]. exfalso. rewrite Hb in Heq. clear - Heq He. mlia. }
      destruct (Hnext (set_pc t (match rest with [] => G1 k e | q :: r => S2 k e q r end) (set_pc t (S3 k e p rest) s))) as (n & s' & Hs & Hp & Hsame).
      * eapply Same_trans; apply Same_pc.
      * prj. apply upd_same.
      * exists (S (S n)), s'. split; [|split; [exact Hp|exact Hsame]].
        eapply ss1; [exact Hni|eapply st_S2b; eassumption|].
        eapply ss1; [unfold idle; prj; rewrite upd_same; reflexivity|eapply st_S3; [prj; apply upd_same|exact Hst]|exact Hs].
    + destruct (Hnext (set_pc t (match rest with [] => G1 k e | q :: r => S2 k e q r end) s)) as (n & s' & Hs & Hp & Hsame).
      * apply Same_pc.
      * prj. apply upd_same.
      * exists (S n), s'. split; [|split; [exact Hp|exact Hsame]].
        eapply ss1; [exact Hni|eapply st_S2a; eassumption|exact Hs].
Qed.

Lemma ph_scan s k e b : th s t = S1 k e -> blocal s b = e -> e < 3 -> (forall p, In p (blist s) -> p = b \/ bstate s p <> 2) ->
  exists n s', ssteps n s s' /\ th s' t = G1 k e /\ Same s s'.
Proof.
  intros Hpc Hb He Hl.
  destruct (ph_scan_l k e b (blist s) (set_pc t (match blist s with [] => G1 k e | p :: rest => S2 k e p rest end) s)) as (n & s' & Hs & Hp & Hsame); try assumption.
  - prj. apply upd_same.
  - exists (S n), s'. split; [|split; [exact Hp|]].
    + eapply ss1; [unfold idle; rewrite Hpc; reflexivity|eapply st_S1; exact Hpc|exact Hs].
    + eapply Same_trans; [apply Same_pc|exact Hsame].
Qed.

(** what the phases of one operation keep *)
Record Keep (s s' : state) : Prop := {
  k_cb : cb (tl s' t) = cb (tl s t); k_nest : nest (tl s' t) = nest (tl s t); k_rl : rl (tl s' t) = rl (tl s t);
  k_gep : gep s' = gep s; k_blist : blist s' = blist s; k_bstate : bstate s' = bstate s; k_blocal : blocal s' = blocal s;
  k_aband : aband s' = aband s; k_otgt : otgt s' = otgt s; k_ocont : ocont s' = ocont s; k_cells : cells s' = cells s;
  k_where : g_where s' = g_where s }.

Lemma Same_Keep s s' : Same s s' -> Keep s s'.
Proof.
  intros (A1 & A2 & A3 & A4 & A5 & A6 & A7 & A8 & A9 & A10 & _). constructor; try assumption; rewrite A1; reflexivity.
Qed.
Lemma Keep_trans s1 s2 s3 : Keep s1 s2 -> Keep s2 s3 -> Keep s1 s3.
Proof. intros [] []. constructor; congruence. Qed.

(** start of the operation up to the load of the local epoch in quiescent_state: acquire = enter_region, the node is
    dereferenced, reset = leave_region: the outermost region is left *)
Lemma ph_enter s b n0 : th s t = Idle -> cb (tl s t) = Some b -> nest (tl s t) = O -> cells s c = Some n0 ->
  exists s1 s2 r, step ns s (Start t (ORead c)) = Some (s1, []) /\ ssteps 4 s1 s2 /\ th s2 t = Q2 (LFin r None) (gep s) /\ Keep s s2.
Proof.
  intros H H1 H2 H3. eexists _, _, _. split; [unfold step, step_gen; rewrite H; reflexivity|]. split.
  - eapply ss1; [unfold idle; prj; rewrite upd_same; reflexivity|eapply st_begin; prj; apply upd_same|].
    eapply ss1; [unfold idle; prj; rewrite upd_same; reflexivity|eapply st_A1; prj; rewrite ?upd_same; first [reflexivity|eassumption]|].
    eapply ss1; [unfold idle; prj; rewrite upd_same; reflexivity|eapply st_A2; prj; rewrite ?upd_same; prj; first [reflexivity|eassumption|rewrite H2; reflexivity]|].
    eapply ss1; [unfold idle; prj; rewrite upd_same; reflexivity|eapply st_Q1; prj; apply upd_same|].
    apply solo_O.
  - prj. rewrite !upd_same. prj. split; [reflexivity|]. constructor; prj; rewrite ?upd_same; prj; try reflexivity. symmetry. exact H2.
Qed.

(** local_epoch.store(e), delete_objects(retire_lists[e]), the operation returns *)
Lemma ph_q9 s r e b : th s t = Q9 (LFin r None) e -> cb (tl s t) = Some b ->
  exists s', ssteps 1 s s' /\ th s' t = Idle /\ cb (tl s' t) = cb (tl s t) /\ nest (tl s' t) = nest (tl s t) /\
    rl (tl s' t) = updN (rl (tl s t)) e [] /\ gep s' = gep s /\ blist s' = blist s /\ bstate s' = bstate s /\
    blocal s' = updN (blocal s) b e /\ aband s' = aband s /\ otgt s' = otgt s /\ cells s' = cells s /\
    g_where s' = (fun n => if memN n (expand (ocont s) (rl (tl s t) e)) then PFreed else g_where s n).
Proof.
  intros H H1. eexists. split.
  - eapply ss1; [unfold idle; rewrite H; reflexivity|eapply st_Q9; eassumption|apply solo_O].
  - prj. rewrite !upd_same. prj. repeat split; reflexivity.
Qed.

(** the epoch is advanced and the abandoned orphans are adopted *)
Lemma ph_adv s k e : th s t = G1 k e -> gep s = e ->
  exists n s', ssteps n s s' /\ th s' t = Q9 k ((e + 1) mod 3) /\ gep s' = (e + 1) mod 3 /\
    cb (tl s' t) = cb (tl s t) /\ nest (tl s' t) = nest (tl s t) /\
    (forall i, rl (tl s' t) i = adopt (otgt s) (aband s) (rl (tl s t)) i) /\ aband s' = [] /\
    (forall n, g_where s' n = if memN n (aband s) then PList t (otgt s n) else g_where s n) /\
    blist s' = blist s /\ bstate s' = bstate s /\ blocal s' = blocal s /\ otgt s' = otgt s /\ ocont s' = ocont s /\ cells s' = cells s.
Proof.
  intros H H1. destruct (aband s) as [|o l] eqn:Ea.
  - eexists _, _. split.
    + eapply ss1; [unfold idle; rewrite H; reflexivity|eapply st_G1; eassumption|].
      eapply ss1; [unfold idle; prj; rewrite upd_same; reflexivity|eapply st_G2; prj; apply upd_same|].
      eapply ss1; [unfold idle; prj; rewrite upd_same; reflexivity|eapply st_G3; prj; [apply upd_same|exact H1]|].
      eapply ss1; [unfold idle; prj; rewrite upd_same; reflexivity|eapply st_G4a; prj; [apply upd_same|exact Ea]|].
      apply solo_O.
    + prj. rewrite !upd_same. prj. repeat split; try reflexivity; try assumption.
  - eexists _, _. split.
    + eapply ss1; [unfold idle; rewrite H; reflexivity|eapply st_G1; eassumption|].
      eapply ss1; [unfold idle; prj; rewrite upd_same; reflexivity|eapply st_G2; prj; apply upd_same|].
      eapply ss1; [unfold idle; prj; rewrite upd_same; reflexivity|eapply st_G3; prj; [apply upd_same|exact H1]|].
      eapply ss1; [unfold idle; prj; rewrite upd_same; reflexivity|eapply st_G4b; prj; [apply upd_same|rewrite Ea; discriminate]|].
      eapply ss1; [unfold idle; prj; rewrite upd_same; reflexivity|eapply st_G5; prj; apply upd_same|].
      apply solo_O.
    + prj. rewrite !upd_same. prj. rewrite ?Ea. repeat split; try reflexivity.
Qed.

(** one flush operation = one read of cell c, executed solo *)
Definition solo_op (s s' : state) : Prop :=
  exists s1 n, step ns s (Start t (ORead c)) = Some (s1, []) /\ ssteps n s1 s' /\ idle s' t = true.

(** t is between operations, owns control block b, is outside any region; every other control block is released *)
Record Quiet (s : state) (b : N) : Prop := {
  q_reach : reachable s;
  q_idle : th s t = Idle;
  q_cb : cb (tl s t) = Some b;
  q_nest : nest (tl s t) = O;
  q_others : forall p, In p (blist s) -> p = b \/ bstate s p <> 2;
  q_cell : exists n0, cells s c = Some n0 }.

Definition Effect (s s' : state) (b : N) : Prop :=
  otgt s' = otgt s /\
  ( (blocal s b <> gep s /\ gep s' = gep s /\ blocal s' b = gep s /\
     (forall n, g_where s' n = if memN n (expand (ocont s) (rl (tl s t) (gep s))) then PFreed else g_where s n))
  \/ (blocal s b = gep s /\ gep s' = (gep s + 1) mod 3 /\ blocal s' b = (gep s + 1) mod 3 /\
      (forall n, g_where s' n =
         if memN n (expand (ocont s) (adopt (otgt s) (aband s) (rl (tl s t)) ((gep s + 1) mod 3))) then PFreed
         else if memN n (aband s) then PList t (otgt s n) else g_where s n)) ).

Lemma round s b : Quiet s b -> exists s', solo_op s s' /\ Quiet s' b /\ Effect s s' b.
Proof.
  intros [Hr Hidle Hcb Hnest Hoth [n0 Hcell]].
  assert (Hg3 : gep s < 3).
  { destruct (EI_reach ns nc s Hr) as (E & _). unfold E0 in E. rewrite E. apply N.mod_lt. discriminate. }
  destruct (ph_enter s b n0 Hidle Hcb Hnest Hcell) as (s1 & s2 & r & Hst & Hs12 & Hpc2 & K2).
  assert (Hcb2 : cb (tl s2 t) = Some b) by (rewrite (k_cb _ _ K2); exact Hcb).
  assert (Hr2 : reachable s2) by (eapply ssteps_reach; [exact Hs12|eapply reach_step; [exact Hr|exact Hst]]).
  destruct (N.eq_dec (blocal s b) (gep s)) as [Heq|Hne].
  - (* the local epoch is current: scan, advance, adopt, announce the new epoch *)
    pose (s3 := set_pc t (S1 (LFin r None) (gep s)) s2).
    assert (Hst3 : exists es, step ns s2 (Step t) = Some (s3, es)).
    { unfold s3. eapply st_Q2b; [exact Hpc2|exact Hcb2|rewrite (k_blocal _ _ K2); exact Heq]. }
    destruct (ph_scan s3 (LFin r None) (gep s) b) as (k4 & s4 & Hs34 & Hpc4 & S4).
    { unfold s3. prj. apply upd_same. } { unfold s3. prj. rewrite (k_blocal _ _ K2). exact Heq. } { exact Hg3. }
    { unfold s3. prj. rewrite (k_blist _ _ K2), (k_bstate _ _ K2). exact Hoth. }
    pose proof (Keep_trans _ _ _ K2 (Keep_trans _ _ _ (Same_Keep _ _ (Same_pc s2 _)) (Same_Keep _ _ S4))) as K4.
    destruct (ph_adv s4 (LFin r None) (gep s)) as (k5 & s5 & Hs45 & Hpc5 & Hg5 & Hcb5 & Hn5 & Hrl5 & Hab5 & Hw5 & Hbl5 & Hbs5 & Hlo5 & Hot5 & Hoc5 & Hce5).
    { exact Hpc4. } { rewrite (k_gep _ _ K4). reflexivity. }
    destruct (ph_q9 s5 r ((gep s + 1) mod 3) b) as (s' & Hs5 & Hpc' & Hcb' & Hn' & Hrl' & Hg' & Hbl' & Hbs' & Hlo' & Hab' & Hot' & Hce' & Hw').
    { exact Hpc5. } { rewrite Hcb5, (k_cb _ _ K4). exact Hcb. }
    exists s'. split; [|split].
    + exists s1, (4 + (1 + (k4 + (k5 + 1))))%nat. split; [exact Hst|]. split; [|unfold idle; rewrite Hpc'; reflexivity].
      eapply ssteps_app; [exact Hs12|]. eapply ss1; [unfold idle; rewrite Hpc2; reflexivity|exact Hst3|].
      eapply ssteps_app; [exact Hs34|]. eapply ssteps_app; [exact Hs45|exact Hs5].
    + constructor.
      * eapply ssteps_reach; [exact Hs5|]. eapply ssteps_reach; [exact Hs45|]. eapply ssteps_reach; [exact Hs34|].
        destruct Hst3 as (es3 & Hst3). eapply reach_step; [exact Hr2|exact Hst3].
      * exact Hpc'.
      * rewrite Hcb', Hcb5, (k_cb _ _ K4). exact Hcb.
      * rewrite Hn', Hn5, (k_nest _ _ K4). exact Hnest.
      * rewrite Hbl', Hbs', Hbl5, Hbs5, (k_blist _ _ K4), (k_bstate _ _ K4). exact Hoth.
      * exists n0. rewrite Hce', Hce5, (k_cells _ _ K4). exact Hcell.
    + split; [rewrite Hot', Hot5, (k_otgt _ _ K4); reflexivity|]. right.
      split; [exact Heq|]. split; [rewrite Hg', Hg5; reflexivity|]. split; [rewrite Hlo'; apply updN_same|].
      intros n. rewrite Hw'. rewrite Hoc5, (k_ocont _ _ K4), (Hrl5 ((gep s + 1) mod 3)), (k_otgt _ _ K4), (k_aband _ _ K4), (k_rl _ _ K4).
      rewrite (Hw5 n), (k_aband _ _ K4), (k_otgt _ _ K4), (k_where _ _ K4). reflexivity.
  - (* the local epoch is behind: announce the global epoch *)
    pose (s3 := set_pc t (Q9 (LFin r None) (gep s)) s2).
    assert (Hst3 : exists es, step ns s2 (Step t) = Some (s3, es)).
    { unfold s3. eapply st_Q2a; [exact Hpc2|exact Hcb2|rewrite (k_blocal _ _ K2); exact Hne]. }
    pose proof (Keep_trans _ _ _ K2 (Same_Keep _ _ (Same_pc s2 (Q9 (LFin r None) (gep s))))) as K3. fold s3 in K3.
    destruct (ph_q9 s3 r (gep s) b) as (s' & Hs3 & Hpc' & Hcb' & Hn' & Hrl' & Hg' & Hbl' & Hbs' & Hlo' & Hab' & Hot' & Hce' & Hw').
    { unfold s3. prj. apply upd_same. } { rewrite (k_cb _ _ K3). exact Hcb. }
    exists s'. split; [|split].
    + exists s1, (4 + (1 + 1))%nat. split; [exact Hst|]. split; [|unfold idle; rewrite Hpc'; reflexivity].
      eapply ssteps_app; [exact Hs12|]. eapply ss1; [unfold idle; rewrite Hpc2; reflexivity|exact Hst3|exact Hs3].
    + constructor.
      * eapply ssteps_reach; [exact Hs3|]. destruct Hst3 as (es3 & Hst3). eapply reach_step; [exact Hr2|exact Hst3].
      * exact Hpc'.
      * rewrite Hcb', (k_cb _ _ K3). exact Hcb.
      * rewrite Hn', (k_nest _ _ K3). exact Hnest.
      * rewrite Hbl', Hbs', (k_blist _ _ K3), (k_bstate _ _ K3). exact Hoth.
      * exists n0. rewrite Hce', (k_cells _ _ K3). exact Hcell.
    + split; [rewrite Hot', (k_otgt _ _ K3); reflexivity|]. left.
      split; [exact Hne|]. split; [rewrite Hg', (k_gep _ _ K3); reflexivity|]. split; [rewrite Hlo'; apply updN_same|].
      intros n. rewrite Hw', (k_ocont _ _ K3), (k_rl _ _ K3), (k_where _ _ K3). reflexivity.
Qed.

(** ** what the flush has to free, and when *)
(** o is in retire list i of t, or an abandoned orphan with target epoch i *)
Definition top (s : state) (o i : N) : Prop := g_where s o = PList t i \/ (g_where s o = PAband /\ otgt s o = i).
(** n is freed when t deletes its retire list i (after adopting the abandoned orphans) *)
Definition due (s : state) (n i : N) : Prop := top s n i \/ exists o, g_where s n = PIn o /\ top s o i.
Definition Prog (s s' : state) : Prop :=
  (forall n, g_where s n = PFreed -> g_where s' n = PFreed) /\
  (forall n i, due s n i -> due s' n i \/ g_where s' n = PFreed).

Lemma Prog_trans s1 s2 s3 : Prog s1 s2 -> Prog s2 s3 -> Prog s1 s3.
Proof.
  intros (A1 & A2) (B1 & B2). split; [auto|]. intros n i H. destruct (A2 n i H) as [X|X]; [apply B2; exact X|right; apply B1; exact X].
Qed.

Lemma top_lt s o i : N0 s -> top s o i -> i < 3.
Proof.
  intros I [H|[_ H]]; [|rewrite <- H; apply (n_otgt s I)].
  destruct (N.lt_ge_cases i 3) as [Hl|Hg]; [exact Hl|]. apply (n_list s I) in H. rewrite (n_rl3 s I t i Hg) in H. destruct H.
Qed.

Lemma effect_prog s s' b : N0 s -> Effect s s' b ->
  Prog s s' /\ (blocal s b = gep s -> forall n, due s n (gep s') -> g_where s' n = PFreed).
Proof.
  intros I (Hot & [(Hne & Hg & Hl & Hw)|(Heq & Hg & Hl & Hw)]).
  - (* the list of the announced epoch is deleted *)
    set (e := gep s) in *.
    assert (Htop : forall o i, top s o i -> g_where s' o = PFreed \/ top s' o i).
    { intros o i Ht. rewrite Hw. destruct (memN o _) eqn:M; [left; reflexivity|right]. unfold top. rewrite Hw, M, Hot. exact Ht. }
    split; [|intros X; contradiction]. split.
    + intros n Hn. rewrite Hw. destruct (memN n _); [reflexivity|exact Hn].
    + intros n i [Ht|(o & Hn & Ht)].
      * destruct (Htop n i Ht) as [X|X]; [right; exact X|left; left; exact X].
      * rewrite Hw. destruct (memN n _) eqn:M; [right; reflexivity|left; right].
        exists o. split; [rewrite Hw, M; exact Hn|]. destruct (Htop o i Ht) as [X|X]; [|exact X].
        exfalso. apply memN_false in M. apply M. apply (fl_in s t e I). right. exists o. split; [|exact Hn].
        rewrite Hw in X. destruct (memN o _) eqn:Mo; [|destruct Ht as [Ht|[Ht _]]; congruence].
        apply memN_In in Mo. apply (fl_in s t e I) in Mo. destruct Mo as [Mo|(o2 & _ & Mo)]; [exact Mo|]. destruct Ht as [Ht|[Ht _]]; congruence.
  - (* the epoch is advanced, the abandoned orphans are adopted, the list of the new epoch is deleted *)
    set (e' := (gep s + 1) mod 3) in *.
    assert (Hfl : forall n, In n (expand (ocont s) (adopt (otgt s) (aband s) (rl (tl s t)) e')) <-> due s n e').
    { intros n. rewrite expand_in. unfold due, top. split.
      - intros [H|(o & H1 & H2)].
        + left. apply adopt_in in H. destruct H as [[H1 H2]|H]; [right; split; [apply (n_aband s I); exact H1|exact H2]|left; apply (n_list s I); exact H].
        + right. exists o. split; [apply (n_in s I); exact H2|]. apply adopt_in in H1.
          destruct H1 as [[H1 H3]|H1]; [right; split; [apply (n_aband s I); exact H1|exact H3]|left; apply (n_list s I); exact H1].
      - intros [H|(o & H1 & H)].
        + left. apply adopt_in. destruct H as [H|[H1 H2]]; [right; apply (n_list s I); exact H|left; split; [apply (n_aband s I); exact H1|exact H2]].
        + right. exists o. split; [|apply (n_in s I); exact H1]. apply adopt_in.
          destruct H as [H|[H2 H3]]; [right; apply (n_list s I); exact H|left; split; [apply (n_aband s I); exact H2|exact H3]]. }
    assert (Hfreed : forall n, due s n e' -> g_where s' n = PFreed).
    { intros n Hd. rewrite Hw. apply Hfl in Hd. apply memN_In in Hd. rewrite Hd. reflexivity. }
    assert (Htop : forall o i, top s o i -> g_where s' o = PFreed \/ top s' o i).
    { intros o i Ht. rewrite Hw. destruct (memN o (expand _ _)) eqn:M; [left; reflexivity|right]. unfold top. rewrite Hw, M, Hot.
      destruct Ht as [Ht|[Ht1 Ht2]].
      - destruct (memN o (aband s)) eqn:Ma; [apply memN_In in Ma; apply (n_aband s I) in Ma; congruence|left; exact Ht].
      - apply (n_aband s I) in Ht1. apply memN_In in Ht1. rewrite Ht1. left. rewrite Ht2. reflexivity. }
    split; [|intros _; rewrite Hg; exact Hfreed]. split.
    + intros n Hn. rewrite Hw. destruct (memN n (expand _ _)); [reflexivity|].
      destruct (memN n (aband s)) eqn:Ma; [apply memN_In in Ma; apply (n_aband s I) in Ma; congruence|exact Hn].
    + intros n i [Ht|(o & Hn & Ht)].
      * destruct (Htop n i Ht) as [X|X]; [right; exact X|left; left; exact X].
      * rewrite Hw. destruct (memN n (expand _ _)) eqn:M; [right; reflexivity|left; right].
        exists o. split.
        -- rewrite Hw, M. destruct (memN n (aband s)) eqn:Ma; [apply memN_In in Ma; apply (n_aband s I) in Ma; congruence|exact Hn].
        -- destruct (Htop o i Ht) as [X|X]; [|exact X].
           exfalso. apply memN_false in M. apply M. apply Hfl. right. exists o. split; [exact Hn|].
           rewrite Hw in X. destruct (memN o (expand _ _)) eqn:Mo.
           ++ apply memN_In in Mo. apply Hfl in Mo. destruct Mo as [Mo|(o2 & Mo & _)]; [exact Mo|]. destruct Ht as [Ht|[Ht _]]; congruence.
           ++ destruct (memN o (aband s)); [discriminate X|]. destruct Ht as [Ht|[Ht _]]; congruence.
Qed.

Lemma roundAny s b : Quiet s b -> exists s', solo_op s s' /\ Quiet s' b /\ blocal s' b = gep s' /\ Prog s s'.
Proof.
  intros Q. destruct (round s b Q) as (s' & Ho & Q' & Ef).
  destruct (effect_prog s s' b (N0_reach ns nc s (q_reach _ _ Q)) Ef) as (P & _).
  exists s'. split; [exact Ho|]. split; [exact Q'|]. split; [|exact P].
  destruct Ef as (_ & [(_ & Hg & Hl & _)|(_ & Hg & Hl & _)]); congruence.
Qed.

Lemma roundB s b : Quiet s b -> blocal s b = gep s ->
  exists s', solo_op s s' /\ Quiet s' b /\ blocal s' b = gep s' /\ gep s' = (gep s + 1) mod 3 /\ Prog s s' /\
    (forall n, due s n (gep s') -> g_where s' n = PFreed).
Proof.
  intros Q Heq. destruct (round s b Q) as (s' & Ho & Q' & Ef).
  destruct (effect_prog s s' b (N0_reach ns nc s (q_reach _ _ Q)) Ef) as (P & F).
  exists s'. split; [exact Ho|]. split; [exact Q'|].
  destruct Ef as (_ & [(Hne & _)|(_ & Hg & Hl & _)]); [contradiction|].
  split; [congruence|]. split; [exact Hg|]. split; [exact P|exact (F Heq)].
Qed.

(** [flush k]: k flush operations one after the other, the thread running alone *)
Fixpoint flush (k : nat) (s s' : state) : Prop :=
  match k with O => s' = s | S m => exists s1, solo_op s s1 /\ flush m s1 s' end.

(** [qsbr_no_leak_at_quiescence] (C02, the liveness half as a bounded solo run): in a reachable state in which thread t is
    between operations, owns a control block and is outside any region, and every other control block of the list is
    released (all other threads have exited), FOUR flush operations of t - each one acquires a guard on cell c (entering
    a region) and releases it (leaving the region: a quiescent state) - free every block that sits in a retire list of t
    or in the global abandoned list (e.g. handed over by an exited thread), or inside an orphan of either, and keep freed
    what was freed.  Four = one quiescent state to catch up with the global epoch, then three that advance it: each of
    them adopts the abandoned orphans and deletes the retire list of the new epoch.  Every operation finishes when the
    thread runs alone. *)
Theorem qsbr_no_leak_at_quiescence s b : Quiet s b ->
  exists s', flush 4 s s' /\ Quiet s' b /\
    forall n, (g_where s n = PFreed \/ exists i, due s n i) -> g_where s' n = PFreed.
Proof.
  intros Q.
  destruct (roundAny s b Q) as (s1 & Ho1 & Q1 & Hl1 & P1).
  destruct (roundB s1 b Q1 Hl1) as (s2 & Ho2 & Q2 & Hl2 & Hg2 & P2 & F2).
  destruct (roundB s2 b Q2 Hl2) as (s3 & Ho3 & Q3 & Hl3 & Hg3 & P3 & F3).
  destruct (roundB s3 b Q3 Hl3) as (s4 & Ho4 & Q4 & Hl4 & Hg4 & P4 & F4).
  exists s4. split; [exists s1; split; [exact Ho1|]; exists s2; split; [exact Ho2|]; exists s3; split; [exact Ho3|]; exists s4; split; [exact Ho4|reflexivity]|].
  split; [exact Q4|].
  intros n [H|(i & H)].
  - apply (proj1 P4), (proj1 P3), (proj1 P2), (proj1 P1). exact H.
  - assert (Hi : i < 3).
    { pose proof (N0_reach ns nc s (q_reach _ _ Q)) as I. destruct H as [H|(o & _ & H)]; eapply top_lt; eauto. }
    assert (Hg1 : gep s1 < 3).
    { destruct (EI_reach ns nc s1 (q_reach _ _ Q1)) as (E & _). unfold E0 in E. rewrite E. apply N.mod_lt. discriminate. }
    assert (Hcases : i = gep s2 \/ i = gep s3 \/ i = gep s4).
    { rewrite Hg4, Hg3, Hg2. clear - Hi Hg1. mlia. }
    destruct (proj2 P1 n i H) as [D1|X1]; [|apply (proj1 P4), (proj1 P3), (proj1 P2); exact X1].
    destruct Hcases as [-> | [-> | ->]].
    + apply (proj1 P4), (proj1 P3). apply F2. exact D1.
    + destruct (proj2 P2 n _ D1) as [D2|X2]; [|apply (proj1 P4), (proj1 P3); exact X2].
      apply (proj1 P4). apply F3. exact D2.
    + destruct (proj2 P2 n _ D1) as [D2|X2]; [|apply (proj1 P4), (proj1 P3); exact X2].
      destruct (proj2 P3 n _ D2) as [D3|X3]; [|apply (proj1 P4); exact X3].
      apply F4. exact D3.
Qed.
End Flush.
