(** Invariants of the thread_block_list model (Model/TblDefs.v), property C17:
    exclusive ownership of entries, well-formedness and stability of the entry list, the bound
    "number of entries <= peak number of simultaneously live threads", reuse of free entries and solo
    termination of acquire / release.  All theorems hold for every reachable state: any number of
    threads, any program, any schedule.  No axioms. *)
From Coq Require Import NArith List Bool Arith Lia PeanoNat.
From XV Require Import Conc.Lts Conc.Ev Conc.Solo Model.TblDefs.
Import ListNotations.

Ltac prj := cbn [head nxt est nent th owned g_owner g_live g_peak g_threads g_nlinked g_rank].

(** * Function update *)
Lemma upd_upd {X} (f : nat -> X) t a b x : upd (upd f t a) t b x = upd f t b x.
Proof. unfold upd. destruct (Nat.eqb x t); reflexivity. Qed.

Ltac upds :=
  repeat first [ rewrite upd_upd | rewrite upd_same | rewrite upd_other by (first [assumption | congruence | lia]) ].
Ltac upds_in H :=
  repeat first [ rewrite upd_upd in H | rewrite upd_same in H | rewrite upd_other in H by (first [assumption | congruence | lia]) ].

Ltac frm := first [reflexivity | assumption | tauto | lia | (intros; tauto) | (intros; lia) | (intros; right; assumption)].

(** * Counting the elements of a list that satisfy a predicate *)
Definition cnt (f : nat -> bool) (l : list nat) : nat := length (filter f l).

Lemma cnt_cons f a l : cnt f (a :: l) = (if f a then 1 else 0) + cnt f l.
Proof. unfold cnt. cbn [filter]. destruct (f a); reflexivity. Qed.

Lemma cnt_ext f g l : (forall x, In x l -> f x = g x) -> cnt f l = cnt g l.
Proof.
  induction l as [|a l IH]; intros H; [reflexivity|].
  rewrite !cnt_cons. rewrite (H a (or_introl eq_refl)). rewrite IH; [reflexivity|].
  intros x Hx. apply H. right. exact Hx.
Qed.

Lemma cnt_le f g l : (forall x, In x l -> f x = true -> g x = true) -> cnt f l <= cnt g l.
Proof.
  induction l as [|a l IH]; intros H; [apply Nat.le_refl|].
  rewrite !cnt_cons.
  assert (IH' : cnt f l <= cnt g l) by (apply IH; intros x Hx; apply H; right; exact Hx).
  destruct (f a) eqn:Fa.
  - rewrite (H a (or_introl eq_refl) Fa). lia.
  - destruct (g a); lia.
Qed.

Lemma cnt_le_length f l : cnt f l <= length l.
Proof.
  induction l as [|a l IH]; [apply Nat.le_refl|]. rewrite cnt_cons. cbn [length]. destruct (f a); lia.
Qed.

(** the predicate becomes true for one more element *)
Lemma cnt_gain f g l t :
  NoDup l -> In t l -> f t = false -> g t = true ->
  (forall x, In x l -> x <> t -> f x = true -> g x = true) -> S (cnt f l) <= cnt g l.
Proof.
  induction l as [|a l IH]; intros Hnd Hin Ft Gt H; [destruct Hin|].
  inversion Hnd as [|a' l' Hna Hnd']; subst. rewrite !cnt_cons.
  destruct Hin as [->|Hin].
  - rewrite Ft, Gt.
    assert (cnt f l <= cnt g l).
    { apply cnt_le. intros x Hx Fx. apply H; [right; exact Hx| |exact Fx]. intros ->. contradiction. }
    lia.
  - assert (Hat : a <> t) by (intros ->; contradiction).
    assert (IH' : S (cnt f l) <= cnt g l).
    { apply IH; try assumption. intros x Hx Hne Fx. apply H; [right; exact Hx|exact Hne|exact Fx]. }
    destruct (f a) eqn:Fa.
    + rewrite (H a (or_introl eq_refl) Hat Fa). lia.
    + destruct (g a); lia.
Qed.

Lemma cnt_flip f g l t :
  NoDup l -> In t l -> f t = false -> g t = true ->
  (forall x, In x l -> x <> t -> g x = f x) -> cnt g l = S (cnt f l).
Proof.
  induction l as [|a l IH]; intros Hnd Hin Ft Gt H; [destruct Hin|].
  inversion Hnd as [|a' l' Hna Hnd']; subst. rewrite !cnt_cons.
  destruct Hin as [->|Hin].
  - rewrite Ft, Gt. rewrite (cnt_ext g f l); [reflexivity|].
    intros x Hx. apply H; [right; exact Hx|]. intros ->. contradiction.
  - assert (Hat : a <> t) by (intros ->; contradiction).
    rewrite (H a (or_introl eq_refl) Hat).
    rewrite IH; try assumption; [lia|]. intros x Hx Hne. apply H; [right; exact Hx|exact Hne].
Qed.

Lemma cnt_two f g l a b :
  NoDup l -> In a l -> In b l -> a <> b ->
  (forall x, In x l -> f x = true -> g x = true) ->
  f a = false -> g a = true -> f b = false -> g b = true -> cnt f l + 2 <= cnt g l.
Proof.
  intros Hnd Ha Hb Hab H Fa Ga Fb Gb.
  set (h := fun x => if Nat.eqb x a then true else f x).
  assert (H1 : S (cnt f l) <= cnt h l).
  { apply (cnt_gain f h l a); try assumption.
    - unfold h. rewrite Nat.eqb_refl. reflexivity.
    - intros x _ _ Fx. unfold h. destruct (Nat.eqb x a); [reflexivity|exact Fx]. }
  assert (H2 : S (cnt h l) <= cnt g l).
  { apply (cnt_gain h g l b); try assumption.
    - unfold h. destruct (Nat.eqb_spec b a); [congruence|exact Fb].
    - intros x Hx _ Hh. unfold h in Hh. destruct (Nat.eqb_spec x a); [subst; exact Ga|apply H; assumption]. }
  lia.
Qed.

Lemma cnt_disj f g l : (forall x, In x l -> f x = true -> g x = false) -> cnt f l + cnt g l <= length l.
Proof.
  induction l as [|a l IH]; intros H; [apply Nat.le_refl|].
  rewrite !cnt_cons. cbn [length].
  assert (IH' : cnt f l + cnt g l <= length l) by (apply IH; intros x Hx; apply H; right; exact Hx).
  destruct (f a) eqn:Fa.
  - rewrite (H a (or_introl eq_refl) Fa). lia.
  - destruct (g a); lia.
Qed.

Lemma cnt_pos f l x : In x l -> f x = true -> 0 < cnt f l.
Proof.
  induction l as [|a l IH]; intros Hin Fx; [destruct Hin|]. rewrite cnt_cons.
  destruct Hin as [->|Hin]; [rewrite Fx; lia|]. specialize (IH Hin Fx). lia.
Qed.

Lemma cnt_pos_inv f l : 0 < cnt f l -> exists x, In x l /\ f x = true.
Proof.
  induction l as [|a l IH]; intros H; [cbn in H; lia|]. rewrite cnt_cons in H.
  destruct (f a) eqn:Fa; [exists a; split; [left; reflexivity|exact Fa]|].
  destruct (IH H) as (x & Hx & Fx). exists x. split; [right; exact Hx|exact Fx].
Qed.

Definition without (t : nat) (l : list nat) : list nat := filter (fun x => negb (Nat.eqb x t)) l.

Lemma in_without t l x : In x (without t l) <-> In x l /\ x <> t.
Proof.
  unfold without. rewrite filter_In. split; intros [H1 H2]; (split; [exact H1|]).
  - intros ->. rewrite Nat.eqb_refl in H2. discriminate.
  - destruct (Nat.eqb_spec x t); [contradiction|reflexivity].
Qed.

Lemma cnt_without_le f t l : cnt f (without t l) <= cnt f l.
Proof.
  induction l as [|a l IH]; [apply Nat.le_refl|]. unfold without in *. cbn [filter].
  destruct (negb (Nat.eqb a t)); rewrite ?cnt_cons; destruct (f a); lia.
Qed.

Lemma cnt_without_false f t l : f t = false -> cnt f (without t l) = cnt f l.
Proof.
  intros Ft. induction l as [|a l IH]; [reflexivity|]. unfold without in *. cbn [filter].
  destruct (Nat.eqb_spec a t) as [->|Hne]; cbn [negb]; rewrite ?cnt_cons; [rewrite Ft|]; rewrite IH; reflexivity.
Qed.

Lemma length_without t l : NoDup l -> In t l -> S (length (without t l)) = length l.
Proof.
  induction l as [|a l IH]; intros Hnd Hin; [destruct Hin|].
  inversion Hnd as [|a' l' Hna Hnd']; subst. unfold without in *. cbn [filter length].
  destruct Hin as [->|Hin].
  - rewrite Nat.eqb_refl. cbn [negb]. f_equal.
    assert (E : filter (fun x => negb (Nat.eqb x t)) l = l).
    { clear IH Hnd Hnd'. induction l as [|b l IHl]; [reflexivity|]. cbn [filter].
      destruct (Nat.eqb_spec b t) as [->|Hne]; [exfalso; apply Hna; left; reflexivity|].
      cbn [negb]. f_equal. apply IHl. intros Hc. apply Hna. right. exact Hc. }
    rewrite E. reflexivity.
  - destruct (Nat.eqb_spec a t) as [->|Hne]; [contradiction|]. cbn [negb length]. f_equal. apply IH; assumption.
Qed.

Lemma NoDup_without t l : NoDup l -> NoDup (without t l).
Proof. intros H. unfold without. apply NoDup_filter. exact H. Qed.

(** * The structural invariant *)

(** the entry a thread is about to insert (allocated, not yet linked) *)
Definition pend_entry (p : pc) : nat :=
  match p with A1 _ n | A2 n | A3 n _ => n | _ => 0 end.

Definition own_ok (st : state) (t : nat) : Prop :=
  owned st t <> 0 ->
  In t (g_threads st) /\ g_owner st (owned st t) = Some t /\ 1 <= g_rank st (owned st t).

Definition scan_ok (st : state) (t : nat) (ini : nat) : Prop :=
  owned st t = 0 /\ In t (g_threads st) /\ (ini = 1 \/ ini = 2).

Definition pend_ok (st : state) (t : nat) (n : nat) : Prop :=
  g_owner st n = Some t /\ g_rank st n = 0 /\ 1 <= n <= nent st.

Definition T (st : state) (t : nat) (p : pc) : Prop :=
  match p with
  | Idle => owned st t = 0 -> ~ In t (g_threads st)
  | Begin OAcquire | Begin OAcquireInactive => owned st t = 0 /\ ~ In t (g_threads st)
  | Begin ORelease | Begin OActivate | R1 | V1 => owned st t <> 0
  | W0 ini => scan_ok st t ini
  | W1 ini c | W2 ini c => scan_ok st t ini /\ 1 <= g_rank st c
  | A1 ini n => scan_ok st t ini /\ pend_ok st t n
  | A2 n => scan_ok st t 1 /\ pend_ok st t n
  | A3 n h => scan_ok st t 1 /\ pend_ok st t n /\ nxt st n = h
  end.

Record E (st : state) : Prop := mkE {
  E_free : forall e, est st e = 0 <-> g_owner st e = None;
  E_range : forall e, e = 0 \/ nent st < e -> g_owner st e = None /\ g_rank st e = 0;
  E_back : forall e t, g_owner st e = Some t -> owned st t = e \/ pend_entry (th st t) = e;
  E_rank_le : forall e, g_rank st e <= g_nlinked st;
  E_next : forall e, 1 <= g_rank st e -> g_rank st (nxt st e) + 1 = g_rank st e /\ (nxt st e = 0 \/ 1 <= g_rank st (nxt st e));
  E_inj : forall e e', 1 <= g_rank st e -> g_rank st e = g_rank st e' -> e = e';
  E_head : g_rank st (head st) = g_nlinked st /\ (head st = 0 \/ 1 <= g_rank st (head st));
  E_live : g_live st = length (g_threads st) /\ NoDup (g_threads st) /\ g_live st <= g_peak st;
  E_state : forall e, est st e <= 2;
  E_pend : forall e, 1 <= e <= nent st -> g_rank st e = 0 -> exists t, pend_entry (th st t) = e
}.

Definition Inv1 (st : state) : Prop :=
  (forall t, own_ok st t /\ T st t (th st t)) /\ E st.

(** ** consequences *)
Lemma rank_zero st : E st -> g_rank st 0 = 0.
Proof. intros HE. apply (E_range st HE 0). left. reflexivity. Qed.

Lemma ranked_nz st c : E st -> 1 <= g_rank st c -> c <> 0.
Proof. intros HE H ->. rewrite (rank_zero st HE) in H. lia. Qed.

Lemma ranked_le st c : E st -> 1 <= g_rank st c -> 1 <= c <= nent st.
Proof.
  intros HE H. destruct (Nat.eq_dec c 0) as [->|Hz]; [rewrite (rank_zero st HE) in H; lia|].
  destruct (Nat.le_gt_cases c (nent st)) as [Hle|Hgt]; [lia|].
  destruct (E_range st HE c (or_intror Hgt)) as [_ Hr]. lia.
Qed.

(** the owner of a linked busy entry holds it in [owned] *)
Lemma owner_of_linked st e x :
  Inv1 st -> g_owner st e = Some x -> 1 <= g_rank st e -> owned st x = e.
Proof.
  intros [HT HE] Ho Hr. destruct (E_back st HE e x Ho) as [H|H]; [exact H|].
  exfalso. destruct (HT x) as [_ Hx]. destruct (th st x); cbn [pend_entry] in H; cbn [T] in Hx;
    try (subst e; rewrite (rank_zero st HE) in Hr; lia).
  - destruct Hx as [_ (_ & Hz & _)]. subst. lia.
  - destruct Hx as [_ (_ & Hz & _)]. subst. lia.
  - destruct Hx as [_ [(_ & Hz & _) _]]. subst. lia.
Qed.

(** program points of a thread that holds an entry *)
Definition holder_pc (p : pc) : Prop :=
  match p with Idle | Begin ORelease | Begin OActivate | R1 | V1 => True | _ => False end.

Lemma owned_pc st t : Inv1 st -> owned st t <> 0 -> holder_pc (th st t).
Proof.
  intros [HT _] Ho. destruct (HT t) as [_ Ht].
  destruct (th st t) as [|[]| | | | | | | |]; cbn [T holder_pc] in *; try exact I;
    unfold scan_ok in Ht; tauto.
Qed.

(** ** frame rule for the threads that do not move *)
Lemma T_frame st st' t p :
  owned st' t = owned st t ->
  (In t (g_threads st') <-> In t (g_threads st)) ->
  (forall c, 1 <= g_rank st c -> 1 <= g_rank st' c) ->
  (forall n, g_owner st n = Some t -> g_owner st' n = Some t /\ nxt st' n = nxt st n) ->
  (forall n, g_owner st n = Some t -> g_rank st n = 0 -> g_rank st' n = 0) ->
  nent st <= nent st' ->
  T st t p -> T st' t p.
Proof.
  intros Ho Hin Hrk Hown Hrz Hn.
  assert (Hs : forall ini, scan_ok st t ini -> scan_ok st' t ini).
  { intros ini (H1 & H2 & H3). split; [congruence|]. split; [apply Hin; exact H2|exact H3]. }
  assert (Hp : forall n, pend_ok st t n -> pend_ok st' t n).
  { intros n (H1 & H2 & H3). split; [apply Hown; exact H1|]. split; [apply Hrz; assumption|lia]. }
  destruct p as [|[]| | | | | | | |]; cbn [T]; try (rewrite ?Ho, ?Hin; tauto).
  - apply Hs.
  - intros [H1 H2]. split; [apply Hs; exact H1|apply Hrk; exact H2].
  - intros [H1 H2]. split; [apply Hs; exact H1|apply Hrk; exact H2].
  - intros [H1 H2]. split; [apply Hs; exact H1|apply Hp; exact H2].
  - intros [H1 H2]. split; [apply Hs; exact H1|apply Hp; exact H2].
  - intros (H1 & H2 & H3). split; [apply Hs; exact H1|]. split; [apply Hp; exact H2|].
    destruct H2 as (H2 & _). destruct (Hown _ H2) as [_ ->]. exact H3.
Qed.

Lemma own_ok_frame st st' t :
  owned st' t = owned st t ->
  (In t (g_threads st) -> In t (g_threads st')) ->
  (forall c, 1 <= g_rank st c -> 1 <= g_rank st' c) ->
  (forall n, g_owner st n = Some t -> g_owner st' n = Some t /\ nxt st' n = nxt st n) ->
  own_ok st t -> own_ok st' t.
Proof.
  intros Ho Hin Hrk Hown H. unfold own_ok in *. rewrite Ho. intros Hnz.
  destruct (H Hnz) as (H1 & H2 & H3). split; [apply Hin; exact H1|]. split; [apply Hown; exact H2|apply Hrk; exact H3].
Qed.

(** ** steps that only move the program counter of [t] *)
Lemma Inv1_setpc st t p :
  Inv1 st -> pend_entry p = pend_entry (th st t) -> T st t p -> Inv1 (setpc st t p).
Proof.
  intros [HT HE] Hpe Hp. split.
  - intros t'. destruct (HT t') as [Ho Ht']. split; [exact Ho|]. unfold setpc; prj.
    destruct (Nat.eq_dec t' t) as [->|Hne]; upds.
    + apply (T_frame st); prj; frm.
    + apply (T_frame st); prj; frm.
  - destruct HE. constructor; unfold setpc; prj; try assumption.
    + intros e t' H. destruct (Nat.eq_dec t' t) as [->|Hne]; upds; [rewrite Hpe|]; apply E_back0; exact H.
    + intros e H1 H2. destruct (E_pend0 e H1 H2) as [t' Ht'].
      destruct (Nat.eq_dec t' t) as [->|Hne]; [exists t; upds; congruence|exists t'; upds; exact Ht'].
Qed.

(** helpers for the [E_back] / [E_pend] clauses when thread [t] moves to a program point with the same pending entry *)
Lemma back_upd st t p e t' :
  pend_entry p = pend_entry (th st t) ->
  (owned st t' = e \/ pend_entry (th st t') = e) ->
  owned st t' = e \/ pend_entry (upd (th st) t p t') = e.
Proof. intros Hpe H. destruct (Nat.eq_dec t' t) as [->|Hne]; upds; [rewrite Hpe|]; exact H. Qed.

Lemma pend_upd st t p e :
  pend_entry p = pend_entry (th st t) ->
  (exists t', pend_entry (th st t') = e) -> exists t', pend_entry (upd (th st) t p t') = e.
Proof.
  intros Hpe [t' H]. destruct (Nat.eq_dec t' t) as [->|Hne]; [exists t; upds; congruence|exists t'; upds; exact H].
Qed.

(** ** START of an acquire *)
Lemma Inv1_go_live st t ini :
  Inv1 st -> owned st t = 0 -> ~ In t (g_threads st) -> pend_entry (th st t) = 0 -> (ini = 1 \/ ini = 2) ->
  Inv1 (go_live st t (W0 ini)).
Proof.
  intros [HT HE] Ho Hnin Hpe Hini. split.
  - intros t'. destruct (HT t') as [Hok Ht']. unfold go_live.
    destruct (Nat.eq_dec t' t) as [->|Hne].
    + split; [unfold own_ok; prj; intros; contradiction|]. prj. upds. cbn [T]. unfold scan_ok; prj.
      split; [exact Ho|]. split; [left; reflexivity|exact Hini].
    + split.
      * apply (own_ok_frame st); prj; frm.
      * prj. upds.
        assert (Hiff : In t' (t :: g_threads st) <-> In t' (g_threads st))
          by (split; [intros [H|H]; [congruence|exact H]|intros H; right; exact H]).
        apply (T_frame st); prj; frm.
  - destruct HE as [Hfree Hrange Hback Hrle Hnext Hinj Hhead Hlive Hstate Hpend].
    constructor; unfold go_live; prj; try assumption.
    + intros e t' H. apply back_upd; [cbn [pend_entry]; congruence|apply Hback; exact H].
    + destruct Hlive as (H1 & H2 & H3). split; [cbn [length]; congruence|]. split; [constructor; assumption|lia].
    + intros e H1 H2. apply pend_upd; [cbn [pend_entry]; congruence|apply Hpend; assumption].
Qed.

(** ** [new T()] at the end of the walk *)
Lemma Inv1_alloc st t ini :
  Inv1 st -> scan_ok st t ini -> pend_entry (th st t) = 0 ->
  Inv1 (alloc (setpc st t (W1 ini 0)) t ini).
Proof.
  intros [HT HE] (Ho & Hin & Hini) Hpe.
  pose proof HE as [Hfree Hrange Hback Hrle Hnext Hinj Hhead Hlive Hstate Hpend].
  set (n := S (nent st)).
  assert (Hn : g_owner st n = None /\ g_rank st n = 0) by (apply Hrange; right; unfold n; lia).
  destruct Hn as [Hno Hnr].
  assert (Hlk : forall c, 1 <= g_rank st c -> c <> n) by (intros c Hc ->; lia).
  split.
  - intros t'. destruct (HT t') as [Hok Ht']. unfold alloc, setpc; prj. fold n.
    destruct (Nat.eq_dec t' t) as [->|Hne].
    + split; [unfold own_ok; prj; intros; contradiction|]. upds. cbn [T]. unfold scan_ok, pend_ok; prj.
      upds. repeat split; try assumption; lia.
    + split.
      * assert (Hfr : forall m, g_owner st m = Some t' -> upd (g_owner st) n (Some t) m = Some t' /\ upd (nxt st) n 0 m = nxt st m).
        { intros m Hm. assert (m <> n) by congruence. upds. split; [exact Hm|reflexivity]. }
        apply (own_ok_frame st); prj; frm.
      * assert (Hfr : forall m, g_owner st m = Some t' -> upd (g_owner st) n (Some t) m = Some t' /\ upd (nxt st) n 0 m = nxt st m).
        { intros m Hm. assert (m <> n) by congruence. upds. split; [exact Hm|reflexivity]. }
        upds. apply (T_frame st); prj; frm.
  - constructor; unfold alloc, setpc; prj; fold n.
    + intros e. destruct (Nat.eq_dec e n) as [->|Hne]; upds; [split; intros; discriminate|apply Hfree].
    + intros e He. assert (e <> n) by (unfold n; lia). upds. apply Hrange. unfold n in He. lia.
    + intros e t' H. destruct (Nat.eq_dec e n) as [->|Hne]; upds_in H.
      * injection H as <-. right. upds. reflexivity.
      * destruct (Nat.eq_dec t' t) as [->|Hnt]; upds.
        -- destruct (Hback e t H) as [H1|H1]; [left; exact H1|].
           exfalso. rewrite Hpe in H1. subst e. destruct (Hrange 0 (or_introl eq_refl)). congruence.
        -- apply Hback. exact H.
    + exact Hrle.
    + intros e He. pose proof (Hlk e He). upds. apply Hnext. exact He.
    + exact Hinj.
    + exact Hhead.
    + exact Hlive.
    + intros e. destruct (Nat.eq_dec e n) as [->|Hne]; upds; [lia|apply Hstate].
    + intros e He Hr. destruct (Nat.eq_dec e n) as [->|Hne].
      * exists t. upds. reflexivity.
      * destruct (Hpend e) as [t' Ht']; [unfold n in *; lia|exact Hr|].
        assert (t' <> t) by (intros ->; rewrite Hpe in Ht'; lia).
        exists t'. upds. exact Ht'.
Qed.

Lemma Inv1_advance st t ini c e :
  Inv1 st -> scan_ok st t ini -> pend_entry (th st t) = 0 -> (c = 0 \/ 1 <= g_rank st c) ->
  Inv1 (fst (advance st t ini c e)).
Proof.
  intros HI Hs Hpe Hc. unfold advance. destruct (Nat.eqb_spec c 0) as [->|Hnz]; cbn [fst].
  - apply Inv1_alloc; assumption.
  - apply Inv1_setpc; [exact HI|cbn [pend_entry]; congruence|]. cbn [T]. split; [exact Hs|]. destruct Hc; [contradiction|assumption].
Qed.

(** ** stores to the state of an entry the thread owns *)
Lemma Inv1_set_est st t e v p :
  Inv1 st -> g_owner st e <> None -> (v = 1 \/ v = 2) -> pend_entry p = pend_entry (th st t) -> T st t p ->
  Inv1 (set_est st t e v p).
Proof.
  intros [HT HE] Hown Hv Hpe Hp. split.
  - intros t'. destruct (HT t') as [Hok Ht']. unfold set_est. split; [exact Hok|]. prj.
    destruct (Nat.eq_dec t' t) as [->|Hne]; upds.
    + apply (T_frame st); prj; frm.
    + apply (T_frame st); prj; frm.
  - destruct HE as [Hfree Hrange Hback Hrle Hnext Hinj Hhead Hlive Hstate Hpend].
    constructor; unfold set_est; prj; try assumption.
    + intros e'. destruct (Nat.eq_dec e' e) as [->|Hne]; upds; [|apply Hfree].
      split; [intros; lia|intros; contradiction].
    + intros e' t' H. apply back_upd; [exact Hpe|apply Hback; exact H].
    + intros e'. destruct (Nat.eq_dec e' e) as [->|Hne]; upds; [lia|apply Hstate].
    + intros e' H1 H2. apply pend_upd; [exact Hpe|apply Hpend; assumption].
Qed.

(** ** add_entry: node->next_entry = h *)
Lemma Inv1_set_nxt st t n h :
  Inv1 st -> scan_ok st t 1 -> pend_ok st t n -> pend_entry (th st t) = n ->
  Inv1 (set_nxt st t n h (A3 n h)).
Proof.
  intros [HT HE] Hs Hp Hpe.
  pose proof HE as [Hfree Hrange Hback Hrle Hnext Hinj Hhead Hlive Hstate Hpend].
  destruct Hp as (Hpo & Hpr & Hpn). split.
  - intros t'. destruct (HT t') as [Hok Ht']. unfold set_nxt.
    destruct (Nat.eq_dec t' t) as [->|Hne].
    + split; [exact Hok|]. prj. upds. cbn [T]. unfold scan_ok, pend_ok in *; prj. upds. tauto.
    + assert (Hfr : forall m, g_owner st m = Some t' -> g_owner st m = Some t' /\ upd (nxt st) n h m = nxt st m).
      { intros m Hm. assert (m <> n) by congruence. upds. split; [exact Hm|reflexivity]. }
      split.
      * apply (own_ok_frame st); prj; frm.
      * prj. upds. apply (T_frame st); prj; frm.
  - constructor; unfold set_nxt; prj; try assumption.
    + intros e t' H. apply back_upd; [cbn [pend_entry]; congruence|apply Hback; exact H].
    + intros e He. assert (e <> n) by (intros ->; lia). upds. apply Hnext. exact He.
    + intros e H1 H2. apply pend_upd; [cbn [pend_entry]; congruence|apply Hpend; assumption].
Qed.

(** ** successful adoption of a free entry *)
Lemma Inv1_adopt st t e ini :
  Inv1 st -> scan_ok st t ini -> pend_entry (th st t) = 0 -> 1 <= g_rank st e -> est st e = 0 ->
  Inv1 (adopt st t e ini).
Proof.
  intros [HT HE] (Ho & Hin & Hini) Hpe Hr Hf.
  pose proof HE as [Hfree Hrange Hback Hrle Hnext Hinj Hhead Hlive Hstate Hpend].
  assert (Hno : g_owner st e = None) by (apply Hfree; exact Hf).
  assert (Hez : e <> 0) by (apply (ranked_nz st); assumption).
  assert (Hz : g_owner st 0 = None) by (apply Hrange; left; reflexivity).
  split.
  - intros t'. destruct (HT t') as [Hok Ht']. unfold adopt.
    destruct (Nat.eq_dec t' t) as [->|Hne].
    + split; [unfold own_ok; prj; upds; intros _; tauto|]. prj. upds. cbn [T]. prj. upds. intros; contradiction.
    + assert (Hfr : forall m, g_owner st m = Some t' -> upd (g_owner st) e (Some t) m = Some t' /\ nxt st m = nxt st m).
      { intros m Hm. assert (m <> e) by congruence. upds. split; [exact Hm|reflexivity]. }
      split.
      * apply (own_ok_frame st); prj; upds; frm.
      * prj. upds. apply (T_frame st); prj; upds; frm.
  - constructor; unfold adopt; prj; try assumption.
    + intros e'. destruct (Nat.eq_dec e' e) as [->|Hne]; upds; [|apply Hfree].
      split; [intros; lia|intros; discriminate].
    + intros e' He'. assert (e' <> e).
      { intros ->. destruct (Hrange e He') as [_ Hc]. lia. }
      upds. apply Hrange. exact He'.
    + intros e' t' H. destruct (Nat.eq_dec e' e) as [->|Hne]; upds_in H.
      * injection H as <-. left. upds. reflexivity.
      * assert (Hnt : t' <> t).
        { intros ->. destruct (Hback e' t H) as [H1|H1]; [|rewrite Hpe in H1]; subst e'; congruence. }
        upds. apply Hback. exact H.
    + intros e'. destruct (Nat.eq_dec e' e) as [->|Hne]; upds; [lia|apply Hstate].
    + intros e' H1 H2. apply pend_upd; [cbn [pend_entry]; congruence|apply Hpend; assumption].
Qed.

(** ** successful head CAS of add_entry *)
Lemma Inv1_link st t n h :
  Inv1 st -> th st t = A3 n h -> head st = h -> Inv1 (link st t n).
Proof.
  intros [HT HE] Hth Hh.
  pose proof HE as [Hfree Hrange Hback Hrle Hnext Hinj Hhead Hlive Hstate Hpend].
  destruct (HT t) as [_ Ht]. rewrite Hth in Ht. cbn [T] in Ht.
  destruct Ht as ((Ho & Hin & _) & (Hpo & Hpr & Hpn) & Hnx).
  assert (Hlk : forall c, 1 <= g_rank st c -> c <> n) by (intros c Hc ->; lia).
  assert (Hnz : n <> 0) by lia.
  split.
  - intros t'. destruct (HT t') as [Hok Ht']. unfold link.
    destruct (Nat.eq_dec t' t) as [->|Hne].
    + split; [unfold own_ok; prj; upds; intros _; repeat split; [exact Hin|exact Hpo|lia]|].
      prj. upds. cbn [T]. prj. upds. intros; contradiction.
    + assert (Hrk : forall c, 1 <= g_rank st c -> 1 <= upd (g_rank st) n (S (g_nlinked st)) c).
      { intros c Hc. pose proof (Hlk c Hc). upds. exact Hc. }
      assert (Hrz : forall m, g_owner st m = Some t' -> g_rank st m = 0 -> upd (g_rank st) n (S (g_nlinked st)) m = 0).
      { intros m Hm Hz. assert (m <> n) by congruence. upds. exact Hz. }
      split.
      * apply (own_ok_frame st); prj; upds; frm.
      * prj. upds. apply (T_frame st); prj; upds; frm.
  - constructor; unfold link; prj; try assumption.
    + intros e He. assert (e <> n) by lia. upds. apply Hrange. exact He.
    + intros e t' H. destruct (Nat.eq_dec t' t) as [->|Hnt]; upds.
      * left. destruct (Hback e t H) as [H1|H1]; [|rewrite Hth in H1; cbn [pend_entry] in H1; congruence].
        exfalso. subst e. rewrite Ho in H. destruct (Hrange 0 (or_introl eq_refl)). congruence.
      * apply Hback. exact H.
    + intros e. destruct (Nat.eq_dec e n) as [->|Hne]; upds; [lia|]. specialize (Hrle e). lia.
    + intros e. destruct (Nat.eq_dec e n) as [->|Hne]; upds.
      * intros _. rewrite Hnx, <- Hh. destruct Hhead as [Hh1 Hh2].
        assert (head st <> n) by (destruct Hh2 as [->|H2]; [congruence|apply Hlk; exact H2]).
        upds. split; [lia|exact Hh2].
      * intros He. destruct (Hnext e He) as [H1 H2].
        assert (nxt st e <> n) by (destruct H2 as [->|H2]; [congruence|apply Hlk; exact H2]).
        upds. split; [exact H1|exact H2].
    + intros e e'. destruct (Nat.eq_dec e n) as [->|Hne]; destruct (Nat.eq_dec e' n) as [->|Hne']; upds.
      * reflexivity.
      * intros _ H. specialize (Hrle e'). lia.
      * intros _ H. specialize (Hrle e). lia.
      * apply Hinj.
    + upds. split; [reflexivity|right; lia].
    + intros e H1 H2. destruct (Nat.eq_dec e n) as [->|Hne]; upds_in H2; [lia|].
      destruct (Hpend e H1 H2) as [t' Ht'].
      assert (t' <> t) by (intros ->; rewrite Hth in Ht'; cbn [pend_entry] in Ht'; congruence).
      exists t'. upds. exact Ht'.
Qed.

(** ** release_entry *)
Lemma Inv1_release st t :
  Inv1 st -> owned st t <> 0 -> pend_entry (th st t) = 0 -> Inv1 (release st t (owned st t)).
Proof.
  intros [HT HE] Ho Hpe.
  pose proof HE as [Hfree Hrange Hback Hrle Hnext Hinj Hhead Hlive Hstate Hpend].
  destruct (HT t) as [Hok _]. destruct (Hok Ho) as (Hin & Hown & Hr).
  set (e := owned st t) in *.
  assert (Hz : g_owner st 0 = None) by (apply Hrange; left; reflexivity).
  split.
  - intros t'. destruct (HT t') as [Hok' Ht']. unfold release. fold (without t (g_threads st)).
    destruct (Nat.eq_dec t' t) as [->|Hne].
    + split; [unfold own_ok; prj; upds; intros; contradiction|]. prj. upds. cbn [T]. prj. upds.
      intros _ Hc. apply in_without in Hc. destruct Hc as [_ Hc]. contradiction.
    + assert (Hfr : forall m, g_owner st m = Some t' -> upd (g_owner st) e None m = Some t' /\ nxt st m = nxt st m).
      { intros m Hm. assert (m <> e) by congruence. upds. split; [exact Hm|reflexivity]. }
      assert (Hiff : In t' (without t (g_threads st)) <-> In t' (g_threads st)) by (rewrite in_without; tauto).
      assert (Himp : In t' (g_threads st) -> In t' (without t (g_threads st))) by apply Hiff.
      split.
      * apply (own_ok_frame st); prj; upds; frm.
      * prj. upds. apply (T_frame st); prj; upds; frm.
  - constructor; unfold release; prj; fold (without t (g_threads st)); try assumption.
    + intros e'. destruct (Nat.eq_dec e' e) as [->|Hne]; upds; [tauto|apply Hfree].
    + intros e' He'. destruct (Nat.eq_dec e' e) as [->|Hne]; upds; [split; [reflexivity|apply Hrange; exact He']|apply Hrange; exact He'].
    + intros e' t' H. destruct (Nat.eq_dec e' e) as [->|Hne]; upds_in H; [discriminate|].
      assert (Hnt : t' <> t).
      { intros ->. destruct (Hback e' t H) as [H1|H1]; [fold e in H1; congruence|rewrite Hpe in H1; subst e'; congruence]. }
      upds. apply Hback. exact H.
    + destruct Hlive as (H1 & H2 & H3). pose proof (length_without t _ H2 Hin). split; [lia|]. split; [apply NoDup_without; exact H2|lia].
    + intros e'. destruct (Nat.eq_dec e' e) as [->|Hne]; upds; [lia|apply Hstate].
    + intros e' H1 H2. apply pend_upd; [cbn [pend_entry]; congruence|apply Hpend; assumption].
Qed.

(** ** the structural invariant holds in every reachable state *)
Lemma Inv1_init : Inv1 init.
Proof.
  split.
  - intros t. split; [unfold own_ok; cbn; intros H; contradiction|]. cbn. intros _ H. exact H.
  - constructor; cbn.
    + intros _. tauto.
    + intros _ _. split; reflexivity.
    + intros e t H. discriminate.
    + intros _. lia.
    + intros _ H. lia.
    + intros e e' H. lia.
    + split; [reflexivity|left; reflexivity].
    + split; [reflexivity|]. split; [constructor|lia].
    + intros _. lia.
    + intros e H. lia.
Qed.

Lemma advance_fst st t ini c e st' es : Some (advance st t ini c e) = Some (st', es) -> st' = fst (advance st t ini c e).
Proof. intros H. injection H as H. rewrite H. reflexivity. Qed.

Lemma Inv1_step st a st' es : Inv1 st -> step st a = Some (st', es) -> Inv1 st'.
Proof.
  intros HI Hst. pose proof HI as [HT HE]. destruct a as [t o|t]; cbn [step] in Hst.
  - (* Start *)
    destruct (HT t) as [_ Ht]. destruct (th st t) eqn:Hth; try discriminate.
    destruct (legal st t o) eqn:Hl; [|discriminate]. injection Hst as <- <-.
    apply Inv1_setpc; [exact HI|rewrite Hth; destruct o; reflexivity|].
    cbn [T] in Ht. destruct o; cbn [T legal] in *.
    + apply Nat.eqb_eq in Hl. tauto.
    + apply negb_true_iff, Nat.eqb_neq in Hl. exact Hl.
    + apply Nat.eqb_eq in Hl. tauto.
    + apply andb_true_iff in Hl. destruct Hl as [Hl _]. apply negb_true_iff, Nat.eqb_neq in Hl. exact Hl.
  - destruct (HT t) as [Hok Ht]. destruct (th st t) as [|[]|ini|ini c|ini c|ini n|n|n h| |] eqn:Hth; try discriminate; cbn [T] in Ht.
    + (* Begin OAcquire *) injection Hst as <- <-. destruct Ht. apply Inv1_go_live; try assumption; [rewrite Hth; reflexivity|right; reflexivity].
    + (* Begin ORelease *) injection Hst as <- <-. apply Inv1_setpc; [exact HI|rewrite Hth; reflexivity|exact Ht].
    + (* Begin OAcquireInactive *) injection Hst as <- <-. destruct Ht. apply Inv1_go_live; try assumption; [rewrite Hth; reflexivity|left; reflexivity].
    + (* Begin OActivate *) injection Hst as <- <-. apply Inv1_setpc; [exact HI|rewrite Hth; reflexivity|exact Ht].
    + (* W0 *) apply advance_fst in Hst. subst st'. apply Inv1_advance; [exact HI|exact Ht|rewrite Hth; reflexivity|].
      destruct (E_head st HE) as [_ H]. exact H.
    + (* W1 *) destruct Ht as [Hs Hr]. destruct (est st c =? 0).
      * injection Hst as <- <-. apply Inv1_setpc; [exact HI|rewrite Hth; reflexivity|cbn [T]; tauto].
      * apply advance_fst in Hst. subst st'. apply Inv1_advance; [exact HI|exact Hs|rewrite Hth; reflexivity|].
        apply (E_next st HE c Hr).
    + (* W2 *) destruct Ht as [Hs Hr]. destruct (Nat.eqb_spec (est st c) 0) as [Hf|Hf].
      * injection Hst as <- <-. apply Inv1_adopt; [exact HI|exact Hs|rewrite Hth; reflexivity|exact Hr|exact Hf].
      * apply advance_fst in Hst. subst st'. apply Inv1_advance; [exact HI|exact Hs|rewrite Hth; reflexivity|].
        apply (E_next st HE c Hr).
    + (* A1 *) injection Hst as <- <-. destruct Ht as [Hs Hp]. apply Inv1_set_est; [exact HI| | |rewrite Hth; reflexivity|].
      * destruct Hp as [Hp _]. congruence.
      * destruct Hs as (_ & _ & H). exact H.
      * cbn [T]. unfold scan_ok in *. tauto.
    + (* A2 *) injection Hst as <- <-. destruct Ht as [Hs Hp]. apply Inv1_set_nxt; [exact HI|exact Hs|exact Hp|rewrite Hth; reflexivity].
    + (* A3 *) destruct Ht as (Hs & Hp & Hn). destruct (Nat.eqb_spec (head st) h) as [Hh|Hh].
      * injection Hst as <- <-. apply (Inv1_link st t n h); assumption.
      * injection Hst as <- <-. apply Inv1_set_nxt; [exact HI|exact Hs|exact Hp|rewrite Hth; reflexivity].
    + (* R1 *) injection Hst as <- <-. apply Inv1_release; [exact HI|exact Ht|rewrite Hth; reflexivity].
    + (* V1 *) injection Hst as <- <-. destruct (Hok Ht) as (_ & Ho & _).
      apply Inv1_set_est; [exact HI|congruence|right; reflexivity|rewrite Hth; reflexivity|].
      cbn [T]. intros; contradiction.
Qed.

Theorem tbl_inv1 st : reach init step st -> Inv1 st.
Proof. apply inv_rule; [exact Inv1_init|intros s a s' es; apply Inv1_step]. Qed.

(** * The counting invariant: number of entries <= peak number of live threads *)

(** Every live thread that is walking the list or holds a linked entry has a CURSOR: the entry it
    is about to examine, resp. the entry it holds.  Its DEPTH is the number of linked entries in
    front of the cursor ([g_nlinked - g_rank cursor]): a walker has found all of them busy (or they
    were linked after it read [head]); the holder of an entry found all of them busy when it adopted
    the entry (or they were linked later).  [R st k] counts the live threads of depth >= k and
    [npend] the threads that hold an entry which is not linked yet.  The invariant is
        R k > 0  ->  R k + npend + k <= g_peak
    (the linear-scan renaming argument: a walker at depth k that finds its cursor busy moves to
    depth k+1, but the holder of that entry stays at depth k, so R k >= R (k+1) + 2 before the move). *)
Definition cur (st : state) (t : nat) : option nat :=
  match th st t with
  | W1 _ c | W2 _ c => Some c
  | W0 _ | A1 _ _ | A2 _ | A3 _ _ => None
  | _ => if owned st t =? 0 then None else Some (owned st t)
  end.

Definition rge (st : state) (k : nat) (t : nat) : bool :=
  match cur st t with Some c => k <=? g_nlinked st - g_rank st c | None => false end.

Definition pendb (st : state) (t : nat) : bool :=
  match th st t with A1 _ _ | A2 _ | A3 _ _ => true | _ => false end.

Definition R (st : state) (k : nat) : nat := cnt (rge st k) (g_threads st).
Definition npend (st : state) : nat := cnt (pendb st) (g_threads st).

Record Inv2 (st : state) : Prop := mkInv2 {
  I2_pend : nent st = g_nlinked st + npend st;
  I2_le : nent st <= g_peak st;
  I2_Q : forall k, 0 < R st (S k) -> R st (S k) + npend st + S k <= g_peak st
}.

Lemma rge_pend_disj st k x : rge st k x = true -> pendb st x = false.
Proof. unfold rge, cur, pendb. destruct (th st x); try reflexivity; discriminate. Qed.

Lemma Qzero st : length (g_threads st) <= g_peak st -> R st 0 + npend st <= g_peak st.
Proof.
  intros H. unfold R, npend.
  pose proof (cnt_disj (rge st 0) (pendb st) (g_threads st) (fun x _ => rge_pend_disj st 0 x)). lia.
Qed.

Lemma Qall st : length (g_threads st) <= g_peak st -> Inv2 st ->
  forall k, 0 < R st k -> R st k + npend st + k <= g_peak st.
Proof.
  intros Hl H2 [|k] Hk; [pose proof (Qzero st Hl); lia|apply (I2_Q st H2); exact Hk].
Qed.

Lemma live_le_peak st : E st -> length (g_threads st) <= g_peak st.
Proof. intros HE. destruct (E_live st HE) as (H1 & _ & H3). lia. Qed.

Lemma rge_eq st st' k x :
  th st' x = th st x -> owned st' x = owned st x -> g_nlinked st' = g_nlinked st ->
  (forall c, g_rank st' c = g_rank st c) -> rge st' k x = rge st k x.
Proof. intros H1 H2 H3 H4. unfold rge, cur. rewrite H1, H2, H3. destruct (th st x); try reflexivity; try rewrite H4; try reflexivity; destruct (owned st x =? 0); try rewrite H4; reflexivity. Qed.

Lemma rge_gt st k x : g_nlinked st < k -> rge st k x = false.
Proof.
  intros H. unfold rge. destruct (cur st x) as [c|]; [|reflexivity]. apply Nat.leb_gt. lia.
Qed.

Lemma cur_ranked st x c : Inv1 st -> cur st x = Some c -> 1 <= g_rank st c.
Proof.
  intros [HT HE] H. destruct (HT x) as [Hok Hx]. unfold cur in H.
  destruct (th st x) as [|[]| | | | | | | |]; cbn [T] in Hx; try discriminate;
    try (destruct (Nat.eqb_spec (owned st x) 0) as [|Hnz]; [discriminate|]; injection H as <-; apply Hok; exact Hnz);
    injection H as <-; tauto.
Qed.

Lemma cur_holder st x : Inv1 st -> owned st x <> 0 -> cur st x = Some (owned st x).
Proof.
  intros HI Ho. pose proof (owned_pc st x HI Ho) as Hp. unfold cur.
  destruct (th st x) as [|[]| | | | | | | |]; cbn [holder_pc] in Hp; try contradiction;
    destruct (Nat.eqb_spec (owned st x) 0); try contradiction; reflexivity.
Qed.

(** ** steps that do not change the depth >= 1 classes *)
Lemma Inv2_same st st' :
  g_threads st' = g_threads st -> nent st' = nent st -> g_nlinked st' = g_nlinked st -> g_peak st' = g_peak st ->
  (forall k x, In x (g_threads st) -> rge st' (S k) x = rge st (S k) x) ->
  (forall x, In x (g_threads st) -> pendb st' x = pendb st x) ->
  Inv2 st -> Inv2 st'.
Proof.
  intros Ht Hn Hl Hp Hr Hb [H1 H2 H3].
  assert (Enp : npend st' = npend st) by (unfold npend; rewrite Ht; apply cnt_ext; exact Hb).
  assert (ER : forall k, R st' (S k) = R st (S k)) by (intros k; unfold R; rewrite Ht; apply cnt_ext; apply Hr).
  constructor.
  - rewrite Hn, Hl, Enp. exact H1.
  - rewrite Hn, Hp. exact H2.
  - intros k. rewrite ER, Enp, Hp. apply H3.
Qed.

(** thread [t] moves between program points with the same cursor; [owned t] may change accordingly *)
Lemma Inv2_keep st st' t :
  g_threads st' = g_threads st -> nent st' = nent st -> g_nlinked st' = g_nlinked st -> g_peak st' = g_peak st ->
  (forall c, g_rank st' c = g_rank st c) ->
  (forall x, x <> t -> th st' x = th st x /\ owned st' x = owned st x) ->
  cur st' t = cur st t -> pendb st' t = pendb st t ->
  Inv2 st -> Inv2 st'.
Proof.
  intros Ht Hn Hl Hp Hrk Hx Hc Hb. apply Inv2_same; try assumption.
  - intros k x _. destruct (Nat.eq_dec x t) as [->|Hne].
    + unfold rge. rewrite Hc, Hl. destruct (cur st t); [rewrite Hrk|]; reflexivity.
    + destruct (Hx x Hne). apply rge_eq; assumption.
  - intros x _. destruct (Nat.eq_dec x t) as [->|Hne]; [exact Hb|]. destruct (Hx x Hne) as [H _]. unfold pendb. rewrite H. reflexivity.
Qed.

(** ** START of an acquire *)
Lemma Inv2_go_live st t ini :
  ~ In t (g_threads st) -> Inv2 st -> Inv2 (go_live st t (W0 ini)).
Proof.
  intros Hnin [H1 H2 H3].
  assert (Hx : forall x, In x (g_threads st) -> x <> t) by (intros x Hx ->; contradiction).
  assert (Enp : npend (go_live st t (W0 ini)) = npend st).
  { unfold npend, go_live; prj. rewrite cnt_cons. unfold pendb at 1; prj. upds. cbn.
    apply cnt_ext. intros x Hin. unfold pendb; prj. pose proof (Hx x Hin). upds. reflexivity. }
  assert (ER : forall k, R (go_live st t (W0 ini)) k = R st k).
  { intros k. unfold R, go_live; prj. rewrite cnt_cons. unfold rge at 1, cur; prj. upds. cbn.
    apply cnt_ext. intros x Hin. pose proof (Hx x Hin). apply rge_eq; prj; upds; reflexivity. }
  constructor.
  - rewrite Enp. exact H1.
  - unfold go_live; prj. unfold go_live in *. lia.
  - intros k. rewrite ER, Enp. intros Hk. specialize (H3 k Hk). unfold go_live; prj. lia.
Qed.

(** ** the walker reads [head]: its depth is 0 *)
Lemma Inv2_enter st t ini ini' :
  E st -> th st t = W0 ini -> Inv2 st -> Inv2 (setpc st t (W1 ini' (head st))).
Proof.
  intros HE Hth. apply Inv2_same; try reflexivity.
  - intros k x _. destruct (Nat.eq_dec x t) as [->|Hne].
    + unfold rge, cur, setpc; prj. upds. rewrite Hth. destruct (E_head st HE) as [-> _].
      apply Nat.leb_gt. lia.
    + apply rge_eq; unfold setpc; prj; upds; reflexivity.
  - intros x _. unfold pendb, setpc; prj. destruct (Nat.eq_dec x t) as [->|Hne]; upds; [rewrite Hth|]; reflexivity.
Qed.

(** ** the walker finds its cursor busy and moves on *)
Lemma Inv2_pass st t ini ini' e :
  Inv1 st -> Inv2 st -> (th st t = W1 ini e \/ th st t = W2 ini e) -> est st e <> 0 ->
  Inv2 (setpc st t (W1 ini' (nxt st e))).
Proof.
  intros HI H2 Hth Hbusy. pose proof HI as [HT HE]. pose proof H2 as [P1 P2 P3].
  destruct (HT t) as [_ Ht].
  assert (Hsc : scan_ok st t ini /\ 1 <= g_rank st e) by (destruct Hth as [Hth|Hth]; rewrite Hth in Ht; exact Ht).
  destruct Hsc as ((Ho & Hin & _) & Hr).
  assert (Hcur : cur st t = Some e) by (unfold cur; destruct Hth as [-> | ->]; reflexivity).
  (* the owner of the busy entry *)
  destruct (g_owner st e) as [x|] eqn:Hox; [|exfalso; apply Hbusy; apply (E_free st HE); exact Hox].
  pose proof (owner_of_linked st e x HI Hox Hr) as Hxo.
  assert (Hez : e <> 0) by (apply (ranked_nz st); assumption).
  assert (Hxt : x <> t) by (intros ->; congruence).
  assert (Hxnz : owned st x <> 0) by congruence.
  destruct (HT x) as [Hokx _]. destruct (Hokx Hxnz) as (Hxin & _ & _).
  pose proof (cur_holder st x HI Hxnz) as Hcx. rewrite Hxo in Hcx.
  destruct (E_live st HE) as (_ & Hnd & _).
  set (k0 := g_nlinked st - g_rank st e).
  destruct (E_next st HE e Hr) as [Hnx _]. pose proof (E_rank_le st HE e) as Hle.
  set (st' := setpc st t (W1 ini' (nxt st e))).
  assert (Hrt' : forall k, rge st' k t = (k <=? S k0)).
  { intros k. unfold rge, cur, st', setpc; prj. upds. f_equal. unfold k0. lia. }
  assert (Hrt : forall k, rge st k t = (k <=? k0)) by (intros k; unfold rge; rewrite Hcur; reflexivity).
  assert (Hrx : forall k, rge st k x = (k <=? k0)) by (intros k; unfold rge; rewrite Hcx; reflexivity).
  assert (Hro : forall k y, y <> t -> rge st' k y = rge st k y).
  { intros k y Hy. apply rge_eq; unfold st', setpc; prj; upds; reflexivity. }
  assert (Enp : npend st' = npend st).
  { unfold npend, st', setpc; prj. apply cnt_ext. intros y _. unfold pendb; prj.
    destruct (Nat.eq_dec y t) as [->|Hy]; upds; [destruct Hth as [-> | ->]|]; reflexivity. }
  constructor.
  - rewrite Enp. exact P1.
  - exact P2.
  - intros k Hk. rewrite Enp. change (g_peak st') with (g_peak st). change (g_threads st') with (g_threads st) in *.
    destruct (Nat.eq_dec k k0) as [->|Hk0].
    + (* the class the walker enters *)
      assert (E1 : R st' (S k0) = S (R st (S k0))).
      { unfold R. change (g_threads st') with (g_threads st). apply (cnt_flip _ _ _ t); try assumption.
        - rewrite Hrt. apply Nat.leb_gt. lia.
        - rewrite Hrt'. apply Nat.leb_le. lia.
        - intros y _ Hy. apply Hro. exact Hy. }
      assert (E2 : R st (S k0) + 2 <= R st k0).
      { unfold R. apply (cnt_two _ _ _ t x); try assumption; try congruence.
        - intros y _. unfold rge. destruct (cur st y); [|discriminate]. rewrite !Nat.leb_le. lia.
        - rewrite Hrt. apply Nat.leb_gt. lia.
        - rewrite Hrt. apply Nat.leb_le. lia.
        - rewrite Hrx. apply Nat.leb_gt. lia.
        - rewrite Hrx. apply Nat.leb_le. lia. }
      assert (Hpos : 0 < R st k0) by lia.
      pose proof (Qall st (live_le_peak st HE) H2 k0 Hpos). lia.
    + assert (E1 : R st' (S k) = R st (S k)).
      { unfold R. change (g_threads st') with (g_threads st). apply cnt_ext. intros y _.
        destruct (Nat.eq_dec y t) as [->|Hy]; [|apply Hro; exact Hy].
        rewrite Hrt, Hrt'. destruct (Nat.leb_spec (S k) (S k0)); destruct (Nat.leb_spec (S k) k0); try reflexivity; lia. }
      rewrite E1 in *. apply P3. exact Hk.
Qed.

(** ** the walker reaches the end of the list and creates an entry *)
Lemma Inv2_alloc st t ini ini' :
  th st t = W1 ini 0 -> In t (g_threads st) -> NoDup (g_threads st) -> length (g_threads st) <= g_peak st ->
  g_rank st 0 = 0 -> Inv2 st -> Inv2 (alloc st t ini').
Proof.
  intros Hth Hin Hnd Hlen Hr0 H2. pose proof H2 as [P1 P2 P3].
  set (st' := alloc st t ini').
  assert (Hrt : forall k, rge st k t = (k <=? g_nlinked st)).
  { intros k. unfold rge, cur. rewrite Hth, Hr0. f_equal. lia. }
  assert (Hrt' : forall k, rge st' k t = false) by (intros k; unfold rge, cur, st', alloc; prj; upds; reflexivity).
  assert (Hro : forall k y, y <> t -> rge st' k y = rge st k y).
  { intros k y Hy. apply rge_eq; unfold st', alloc; prj; upds; reflexivity. }
  assert (Enp : npend st' = S (npend st)).
  { unfold npend. change (g_threads st') with (g_threads st). apply (cnt_flip _ _ _ t); try assumption.
    - unfold pendb. rewrite Hth. reflexivity.
    - unfold pendb, st', alloc; prj. upds. reflexivity.
    - intros y _ Hy. unfold pendb, st', alloc; prj. upds. reflexivity. }
  assert (Htop : 0 < R st (g_nlinked st)).
  { unfold R. apply (cnt_pos _ _ t); [exact Hin|]. rewrite Hrt. apply Nat.leb_refl. }
  pose proof (Qall st Hlen H2 _ Htop) as Hq.
  constructor.
  - rewrite Enp. change (nent st') with (S (nent st)). change (g_nlinked st') with (g_nlinked st). lia.
  - change (nent st') with (S (nent st)). change (g_peak st') with (g_peak st). lia.
  - intros k Hk. rewrite Enp. change (g_peak st') with (g_peak st).
    destruct (Nat.le_gt_cases (S k) (g_nlinked st)) as [Hle|Hgt].
    + assert (E1 : R st (S k) = S (R st' (S k))).
      { unfold R. change (g_threads st') with (g_threads st). apply (cnt_flip _ _ _ t); try assumption.
        - apply Hrt'.
        - rewrite Hrt. apply Nat.leb_le. exact Hle.
        - intros y _ Hy. symmetry. apply Hro. exact Hy. }
      assert (Hpos : 0 < R st (S k)) by lia.
      pose proof (P3 k Hpos). lia.
    + exfalso. assert (R st' (S k) <= R st (S k)).
      { unfold R. change (g_threads st') with (g_threads st). apply cnt_le. intros y _.
        destruct (Nat.eq_dec y t) as [->|Hy]; [rewrite Hrt'; discriminate|rewrite Hro by exact Hy; tauto]. }
      assert (R st (S k) = 0).
      { unfold R. destruct (cnt (rge st (S k)) (g_threads st)) eqn:Ec; [reflexivity|].
        destruct (cnt_pos_inv (rge st (S k)) (g_threads st)) as (y & _ & Hy); [lia|].
        rewrite rge_gt in Hy by exact Hgt. discriminate. }
      lia.
Qed.

(** ** the new entry is linked: every other cursor gets one more entry in front of it *)
Lemma Inv2_link st t n h :
  Inv1 st -> Inv2 st -> th st t = A3 n h -> Inv2 (link st t n).
Proof.
  intros HI H2 Hth. pose proof HI as [HT HE]. pose proof H2 as [P1 P2 P3].
  destruct (HT t) as [_ Ht]. rewrite Hth in Ht. cbn [T] in Ht.
  destruct Ht as ((Ho & Hin & _) & (Hpo & Hpr & Hpn) & _).
  destruct (E_live st HE) as (_ & Hnd & _).
  set (st' := link st t n).
  assert (Hnz : n <> 0) by lia.
  assert (Hrt' : forall k, rge st' (S k) t = false).
  { intros k. unfold rge, cur, st', link; prj. upds. destruct (Nat.eqb_spec n 0); [contradiction|]. upds. apply Nat.leb_gt. lia. }
  assert (Hrt : forall k, rge st k t = false) by (intros k; unfold rge, cur; rewrite Hth; reflexivity).
  assert (Hro : forall k y, y <> t -> rge st' (S k) y = rge st k y).
  { intros k y Hy. unfold rge.
    assert (Ec : cur st' y = cur st y) by (unfold cur, st', link; prj; upds; reflexivity).
    rewrite Ec. destruct (cur st y) as [c|] eqn:Ecy; [|reflexivity].
    pose proof (cur_ranked st y c HI Ecy) as Hc. pose proof (E_rank_le st HE c) as Hle.
    assert (c <> n) by (intros ->; lia).
    unfold st', link; prj. upds.
    destruct (Nat.leb_spec (S k) (S (g_nlinked st) - g_rank st c)); destruct (Nat.leb_spec k (g_nlinked st - g_rank st c)); try reflexivity; lia. }
  assert (Enp : npend st = S (npend st')).
  { unfold npend. change (g_threads st') with (g_threads st). apply (cnt_flip _ _ _ t); try assumption.
    - unfold pendb, st', link; prj. upds. reflexivity.
    - unfold pendb. rewrite Hth. reflexivity.
    - intros y _ Hy. unfold pendb, st', link; prj. upds. reflexivity. }
  assert (ER : forall k, R st' (S k) = R st k).
  { intros k. unfold R. change (g_threads st') with (g_threads st). apply cnt_ext. intros y _.
    destruct (Nat.eq_dec y t) as [->|Hy]; [rewrite Hrt, Hrt'; reflexivity|apply Hro; exact Hy]. }
  constructor.
  - change (nent st') with (nent st). change (g_nlinked st') with (S (g_nlinked st)). lia.
  - exact P2.
  - intros k. rewrite ER. intros Hk. change (g_peak st') with (g_peak st).
    pose proof (Qall st (live_le_peak st HE) H2 k Hk). lia.
Qed.

(** ** release: the thread is not live any more *)
Lemma Inv2_release st t :
  Inv1 st -> Inv2 st -> th st t = R1 -> Inv2 (release st t (owned st t)).
Proof.
  intros HI H2 Hth. pose proof HI as [HT HE]. pose proof H2 as [P1 P2 P3].
  set (st' := release st t (owned st t)).
  assert (Hro : forall k y, y <> t -> rge st' k y = rge st k y).
  { intros k y Hy. apply rge_eq; unfold st', release; prj; upds; reflexivity. }
  assert (Enp : npend st' = npend st).
  { unfold npend. change (g_threads st') with (without t (g_threads st)).
    rewrite <- (cnt_without_false (pendb st) t (g_threads st)) by (unfold pendb; rewrite Hth; reflexivity).
    apply cnt_ext. intros y Hy. apply in_without in Hy. destruct Hy as [_ Hy].
    unfold pendb, st', release; prj. upds. reflexivity. }
  assert (ER : forall k, R st' k <= R st k).
  { intros k. unfold R. change (g_threads st') with (without t (g_threads st)).
    rewrite (cnt_ext (rge st' k) (rge st k)); [apply cnt_without_le|].
    intros y Hy. apply in_without in Hy. destruct Hy as [_ Hy]. apply Hro. exact Hy. }
  constructor.
  - rewrite Enp. exact P1.
  - exact P2.
  - intros k Hk. rewrite Enp. change (g_peak st') with (g_peak st).
    pose proof (ER (S k)). assert (Hpos : 0 < R st (S k)) by lia. pose proof (P3 k Hpos). lia.
Qed.

Lemma Inv2_advance st t ini c e :
  Inv1 st -> In t (g_threads st) -> Inv2 (setpc st t (W1 ini c)) -> Inv2 (fst (advance st t ini c e)).
Proof.
  intros [HT HE] Hin H. unfold advance. destruct (Nat.eqb_spec c 0) as [->|Hnz]; cbn [fst]; [|exact H].
  destruct (E_live st HE) as (_ & Hnd & _).
  apply (Inv2_alloc _ t ini ini); unfold setpc; prj; upds; try assumption; try reflexivity.
  - apply (live_le_peak st HE).
  - apply (rank_zero st HE).
Qed.

Lemma Inv2_step st a st' es : Inv1 st -> Inv2 st -> step st a = Some (st', es) -> Inv2 st'.
Proof.
  intros HI H2 Hst. pose proof HI as [HT HE]. destruct a as [t o|t]; cbn [step] in Hst.
  - destruct (th st t) eqn:Hth; try discriminate.
    destruct (legal st t o); [|discriminate]. injection Hst as <- <-.
    apply (Inv2_keep st _ t); unfold setpc; prj; try reflexivity; try exact H2.
    + intros x Hx. upds. split; reflexivity.
    + unfold cur; prj. upds. rewrite Hth. destruct o; reflexivity.
    + unfold pendb; prj. upds. rewrite Hth. reflexivity.
  - destruct (HT t) as [Hok Ht]. destruct (th st t) as [|[]|ini|ini c|ini c|ini n|n|n h| |] eqn:Hth; try discriminate; cbn [T] in Ht.
    + injection Hst as <- <-. apply Inv2_go_live; [tauto|exact H2].
    + injection Hst as <- <-. apply (Inv2_keep st _ t); unfold setpc; prj; try reflexivity; try exact H2.
      * intros x Hx. upds. split; reflexivity.
      * unfold cur; prj. upds. rewrite Hth. reflexivity.
      * unfold pendb; prj. upds. rewrite Hth. reflexivity.
    + injection Hst as <- <-. apply Inv2_go_live; [tauto|exact H2].
    + injection Hst as <- <-. apply (Inv2_keep st _ t); unfold setpc; prj; try reflexivity; try exact H2.
      * intros x Hx. upds. split; reflexivity.
      * unfold cur; prj. upds. rewrite Hth. reflexivity.
      * unfold pendb; prj. upds. rewrite Hth. reflexivity.
    + (* W0 *) apply advance_fst in Hst. subst st'. apply Inv2_advance; [exact HI|apply Ht|].
      apply (Inv2_enter st t ini ini); assumption.
    + (* W1 *) destruct Ht as [Hs Hr]. destruct (Nat.eqb_spec (est st c) 0) as [Hf|Hf].
      * injection Hst as <- <-. apply (Inv2_keep st _ t); unfold setpc; prj; try reflexivity; try exact H2.
        -- intros x Hx. upds. split; reflexivity.
        -- unfold cur; prj. upds. rewrite Hth. reflexivity.
        -- unfold pendb; prj. upds. rewrite Hth. reflexivity.
      * apply advance_fst in Hst. subst st'. apply Inv2_advance; [exact HI|apply Hs|].
        apply (Inv2_pass st t ini ini c); try assumption. left. exact Hth.
    + (* W2 *) destruct Ht as [Hs Hr]. destruct (Nat.eqb_spec (est st c) 0) as [Hf|Hf].
      * injection Hst as <- <-. apply (Inv2_keep st _ t); unfold adopt; prj; try reflexivity; try exact H2.
        -- intros x Hx. upds. split; reflexivity.
        -- unfold cur; prj. upds. rewrite Hth. pose proof (ranked_nz st c HE Hr). destruct (Nat.eqb_spec c 0); [contradiction|reflexivity].
        -- unfold pendb; prj. upds. rewrite Hth. reflexivity.
      * apply advance_fst in Hst. subst st'. apply Inv2_advance; [exact HI|apply Hs|].
        apply (Inv2_pass st t ini ini c); try assumption. right. exact Hth.
    + (* A1 *) injection Hst as <- <-. apply (Inv2_keep st _ t); unfold set_est; prj; try reflexivity; try exact H2.
      * intros x Hx. upds. split; reflexivity.
      * unfold cur; prj. upds. rewrite Hth. reflexivity.
      * unfold pendb; prj. upds. rewrite Hth. reflexivity.
    + (* A2 *) injection Hst as <- <-. apply (Inv2_keep st _ t); unfold set_nxt; prj; try reflexivity; try exact H2.
      * intros x Hx. upds. split; reflexivity.
      * unfold cur; prj. upds. rewrite Hth. reflexivity.
      * unfold pendb; prj. upds. rewrite Hth. reflexivity.
    + (* A3 *) destruct (Nat.eqb_spec (head st) h) as [Hh|Hh]; injection Hst as <- <-.
      * apply (Inv2_link st t n h); assumption.
      * apply (Inv2_keep st _ t); unfold set_nxt; prj; try reflexivity; try exact H2.
        -- intros x Hx. upds. split; reflexivity.
        -- unfold cur; prj. upds. rewrite Hth. reflexivity.
        -- unfold pendb; prj. upds. rewrite Hth. reflexivity.
    + (* R1 *) injection Hst as <- <-. apply Inv2_release; assumption.
    + (* V1 *) injection Hst as <- <-. apply (Inv2_keep st _ t); unfold set_est; prj; try reflexivity; try exact H2.
      * intros x Hx. upds. split; reflexivity.
      * unfold cur; prj. upds. rewrite Hth. reflexivity.
      * unfold pendb; prj. upds. rewrite Hth. reflexivity.
Qed.

Lemma Inv2_init : Inv2 init.
Proof. constructor; cbn; intros; lia. Qed.

Theorem tbl_inv2 st : reach init step st -> Inv2 st.
Proof.
  apply (inv_rule_aux _ _ _ init step Inv1 Inv2); [exact tbl_inv1|exact Inv2_init|].
  intros s a s' es HJ _ HI Hst. eapply Inv2_step; eassumption.
Qed.

(** * Theorems *)

(** ** Exclusive ownership *)
(** The entry a thread holds between operations is owned by that thread (ghost owner), lies in
    1..nent and its state is inactive or active (never free); two threads never hold the same
    entry; an entry is free exactly when nobody owns it. *)
Theorem tbl_exclusive_owner st :
  reach init step st ->
  (forall t, owned st t <> 0 ->
     g_owner st (owned st t) = Some t /\ (est st (owned st t) = 1 \/ est st (owned st t) = 2) /\ 1 <= owned st t <= nent st) /\
  (forall t1 t2, owned st t1 <> 0 -> owned st t1 = owned st t2 -> t1 = t2) /\
  (forall e t, g_owner st e = Some t -> (est st e = 1 \/ est st e = 2) /\ 1 <= e <= nent st) /\
  (forall e, est st e = 0 <-> g_owner st e = None).
Proof.
  intros Hr. pose proof (tbl_inv1 st Hr) as [HT HE].
  assert (Hbusy : forall e t, g_owner st e = Some t -> (est st e = 1 \/ est st e = 2) /\ 1 <= e <= nent st).
  { intros e t Ho. split.
    - pose proof (E_state st HE e). assert (est st e <> 0) by (intros Hc; apply (E_free st HE) in Hc; congruence). lia.
    - destruct (Nat.eq_dec e 0) as [->|Hz]; [destruct (E_range st HE 0 (or_introl eq_refl)); congruence|].
      destruct (Nat.le_gt_cases e (nent st)); [lia|]. destruct (E_range st HE e (or_intror H)); congruence. }
  split; [|split; [|split]].
  - intros t Ho. destruct (HT t) as [Hok _]. destruct (Hok Ho) as (_ & H1 & _).
    split; [exact H1|]. apply (Hbusy _ t). exact H1.
  - intros t1 t2 Ho Heq. destruct (HT t1) as [Hok1 _]. destruct (HT t2) as [Hok2 _].
    destruct (Hok1 Ho) as (_ & H1 & _). assert (Ho2 : owned st t2 <> 0) by congruence.
    destruct (Hok2 Ho2) as (_ & H2 & _). congruence.
  - exact Hbusy.
  - apply (E_free st HE).
Qed.

(** ** The list *)
(** [chain nx c l]: following [nx] from [c] visits exactly the elements of [l] and ends in nullptr *)
Fixpoint chain (nx : nat -> nat) (c : nat) (l : list nat) : Prop :=
  match l with
  | [] => c = 0
  | e :: r => c = e /\ e <> 0 /\ chain nx (nx e) r
  end.

Lemma chain_det nx : forall l1 l2 c, chain nx c l1 -> chain nx c l2 -> l1 = l2.
Proof.
  induction l1 as [|a l1 IH]; intros [|b l2] c H1 H2; cbn [chain] in *; try reflexivity.
  - destruct H2 as (-> & Hb & _). congruence.
  - destruct H1 as (-> & Ha & _). congruence.
  - destruct H1 as (-> & Ha & H1). destruct H2 as (<- & _ & H2). f_equal. eapply IH; eassumption.
Qed.

Lemma chain_ext nx nx' : forall l c, chain nx c l -> (forall e, In e l -> nx' e = nx e) -> chain nx' c l.
Proof.
  induction l as [|a l IH]; intros c H He; cbn [chain] in *; [exact H|].
  destruct H as (-> & Ha & H). split; [reflexivity|]. split; [exact Ha|].
  rewrite (He a (or_introl eq_refl)). apply IH; [exact H|]. intros e Hin. apply He. right. exact Hin.
Qed.

Lemma chain_of_rank st : E st -> forall r c, g_rank st c = r -> (c = 0 \/ 1 <= g_rank st c) ->
  exists l, chain (nxt st) c l /\ length l = r /\ NoDup l /\ (forall e, In e l <-> 1 <= g_rank st e <= r).
Proof.
  intros HE. induction r as [|r IH]; intros c Hc Hz.
  - exists []. cbn [chain length In]. split; [destruct Hz; [assumption|lia]|]. split; [reflexivity|]. split; [constructor|].
    intros e. split; [tauto|lia].
  - assert (Hr : 1 <= g_rank st c) by lia.
    destruct (E_next st HE c Hr) as [H1 H2].
    destruct (IH (nxt st c)) as (l & Hl1 & Hl2 & Hl3 & Hl4); [lia|exact H2|].
    exists (c :: l). cbn [chain length]. split; [|split; [|split]].
    + split; [reflexivity|]. split; [apply (ranked_nz st); assumption|exact Hl1].
    + congruence.
    + constructor; [|exact Hl3]. intros Hin. apply Hl4 in Hin. lia.
    + intros e. cbn [In]. rewrite Hl4. split.
      * intros [<-|H]; lia.
      * intros H. destruct (Nat.eq_dec (g_rank st e) (S r)) as [He|He]; [|right; lia].
        left. apply (E_inj st HE); [exact Hr|congruence].
Qed.

Lemma pend_entry_owner st t e : Inv1 st -> pend_entry (th st t) = e -> e <> 0 -> g_owner st e = Some t /\ g_rank st e = 0.
Proof.
  intros [HT _] H Hz. destruct (HT t) as [_ Ht].
  destruct (th st t); cbn [pend_entry] in H; try congruence; cbn [T] in Ht; subst; unfold pend_ok in Ht; tauto.
Qed.

(** The list reachable from [head] is duplicate free and contains exactly the entries created so
    far that are not still being inserted by their creator. *)
Theorem tbl_list_wf st :
  reach init step st ->
  exists l, chain (nxt st) (head st) l /\ NoDup l /\ length l = g_nlinked st /\
    (forall e, In e l <-> 1 <= g_rank st e) /\
    (forall e, In e l <-> (1 <= e <= nent st /\ forall t, pend_entry (th st t) <> e)).
Proof.
  intros Hr. pose proof (tbl_inv1 st Hr) as HI. pose proof HI as [HT HE].
  destruct (E_head st HE) as [Hh1 Hh2].
  destruct (chain_of_rank st HE _ _ Hh1 Hh2) as (l & H1 & H2 & H3 & H4).
  assert (H5 : forall e, In e l <-> 1 <= g_rank st e).
  { intros e. rewrite H4. pose proof (E_rank_le st HE e). lia. }
  exists l. repeat split; try assumption; try (apply H5; assumption).
  - apply (ranked_le st e HE). apply H5. assumption.
  - apply (ranked_le st e HE). apply H5. assumption.
  - intros t Hp. apply H5 in H. assert (e <> 0) by (apply (ranked_nz st); assumption).
    destruct (pend_entry_owner st t e HI Hp H0). lia.
  - intros [He Hp]. apply H5. destruct (Nat.eq_dec (g_rank st e) 0) as [Hz|Hz]; [|lia].
    destruct (E_pend st HE e He Hz) as [t Ht]. exfalso. apply (Hp t). exact Ht.
Qed.

(** when no thread is in the middle of inserting an entry, the list contains all entries 1..nent *)
Corollary tbl_list_complete st :
  reach init step st -> (forall t, pend_entry (th st t) = 0) ->
  exists l, chain (nxt st) (head st) l /\ NoDup l /\ length l = nent st /\ (forall e, In e l <-> 1 <= e <= nent st).
Proof.
  intros Hr Hq. destruct (tbl_list_wf st Hr) as (l & H1 & H2 & H3 & _ & H5).
  pose proof (tbl_inv2 st Hr) as [P1 _ _].
  assert (npend st = 0).
  { unfold npend. destruct (cnt (pendb st) (g_threads st)) eqn:Ec; [reflexivity|].
    destruct (cnt_pos_inv (pendb st) (g_threads st)) as (y & _ & Hy); [lia|].
    unfold pendb in Hy. specialize (Hq y). pose proof (tbl_inv1 st Hr) as [HT _]. destruct (HT y) as [_ Ty].
    destruct (th st y); try discriminate; cbn [pend_entry T] in *; unfold pend_ok in Ty; lia. }
  exists l. repeat split; try assumption; try lia; try (apply H5; assumption).
  intros He. apply H5. split; [exact He|]. intros t. rewrite Hq. lia.
Qed.

(** what one step does to the linked entries *)
Lemma step_shape st a st' es :
  Inv1 st -> step st a = Some (st', es) ->
  (forall e, 1 <= g_rank st e -> g_rank st' e = g_rank st e /\ nxt st' e = nxt st e) /\
  (head st' = head st \/ (g_rank st (head st') = 0 /\ head st' <> 0 /\ nxt st' (head st') = head st)) /\
  nent st <= nent st'.
Proof.
  intros HI Hst. pose proof HI as [HT HE].
  assert (Hfresh : g_rank st (S (nent st)) = 0) by (apply (E_range st HE); right; lia).
  assert (Hadv : forall t ini c e, 
    (forall x, 1 <= g_rank st x -> g_rank (fst (advance st t ini c e)) x = g_rank st x /\ nxt (fst (advance st t ini c e)) x = nxt st x) /\
    (head (fst (advance st t ini c e)) = head st) /\ nent st <= nent (fst (advance st t ini c e))).
  { intros t ini c e. unfold advance. destruct (c =? 0); cbn [fst]; unfold alloc, setpc; prj.
    - split; [|split; [reflexivity|lia]]. intros x Hx. assert (x <> S (nent st)) by (intros ->; lia). upds. split; reflexivity.
    - split; [|split; [reflexivity|lia]]. intros x Hx. split; reflexivity. }
  destruct a as [t o|t]; cbn [step] in Hst.
  - destruct (th st t); try discriminate. destruct (legal st t o); [|discriminate]. injection Hst as <- <-.
    unfold setpc; prj. split; [intros; split; reflexivity|]. split; [left; reflexivity|lia].
  - destruct (HT t) as [Hok Ht]. destruct (th st t) as [|[]|ini|ini c|ini c|ini n|n|n h| |] eqn:Hth; try discriminate; cbn [T] in Ht;
      try (injection Hst as <- <-; unfold go_live, setpc, set_est, release; prj; split; [intros; split; reflexivity|]; split; [left; reflexivity|lia]).
    + apply advance_fst in Hst. subst st'. destruct (Hadv t ini (head st) [ELoad t L_head mo_acq (vptr (head st))]) as (H1 & H2 & H3). tauto.
    + destruct (est st c =? 0).
      * injection Hst as <- <-. unfold setpc; prj. split; [intros; split; reflexivity|]. split; [left; reflexivity|lia].
      * apply advance_fst in Hst. subst st'. destruct (Hadv t ini (nxt st c) [ELoad t (L_state c) mo_rlx (vst (est st c))]) as (H1 & H2 & H3). tauto.
    + destruct (est st c =? 0).
      * injection Hst as <- <-. unfold adopt; prj. split; [intros; split; reflexivity|]. split; [left; reflexivity|lia].
      * apply advance_fst in Hst. subst st'. destruct (Hadv t ini (nxt st c) [ECasF t (L_state c) mo_acq mo_acq (vst (est st c)) (vst 0)]) as (H1 & H2 & H3). tauto.
    + (* A2 *) injection Hst as <- <-. destruct Ht as [_ (_ & Hz & _)]. unfold set_nxt; prj.
      split; [|split; [left; reflexivity|lia]]. intros x Hx. assert (x <> n) by (intros ->; lia). upds. split; reflexivity.
    + (* A3 *) destruct Ht as (_ & (_ & Hz & Hn) & Hnx). destruct (Nat.eqb_spec (head st) h) as [Hh|Hh]; injection Hst as <- <-.
      * unfold link; prj. split; [|split; [right; repeat split; [exact Hz|lia|congruence]|lia]].
        intros x Hx. assert (x <> n) by (intros ->; lia). upds. split; reflexivity.
      * unfold set_nxt; prj. split; [|split; [left; reflexivity|lia]].
        intros x Hx. assert (x <> n) by (intros ->; lia). upds. split; reflexivity.
Qed.

(** Entries are never removed from the list and the next pointer of a linked entry never changes:
    after any step the list from [head] is the old list, possibly with ONE new entry in front. *)
Theorem tbl_entries_never_removed st a st' es l :
  reach init step st -> step st a = Some (st', es) -> chain (nxt st) (head st) l ->
  (forall e, In e l -> nxt st' e = nxt st e) /\
  (chain (nxt st') (head st') l \/ exists n, ~ In n l /\ chain (nxt st') (head st') (n :: l)) /\
  nent st <= nent st'.
Proof.
  intros Hr Hst Hl. pose proof (tbl_inv1 st Hr) as HI. pose proof HI as [HT HE].
  destruct (step_shape st a st' es HI Hst) as (H1 & H2 & H3).
  destruct (tbl_list_wf st Hr) as (l0 & Hc0 & _ & _ & Hin0 & _).
  pose proof (chain_det _ _ _ _ Hl Hc0) as ->.
  assert (Hnx : forall e, In e l0 -> nxt st' e = nxt st e) by (intros e He; apply H1; apply Hin0; exact He).
  split; [exact Hnx|]. split; [|exact H3].
  destruct H2 as [Hh|(Hz & Hnz & Hn)].
  - left. rewrite Hh. apply (chain_ext (nxt st)); assumption.
  - right. exists (head st'). split.
    + intros Hc. apply Hin0 in Hc. lia.
    + cbn [chain]. split; [reflexivity|]. split; [exact Hnz|]. rewrite Hn. apply (chain_ext (nxt st)); assumption.
Qed.

(** ** Bounded by the peak number of live threads *)
Definition acquiring (p : pc) : Prop :=
  match p with W0 _ | W1 _ _ | W2 _ _ | A1 _ _ | A2 _ | A3 _ _ => True | _ => False end.

(** [g_live] counts exactly the threads that hold an entry or are inside an acquire (after its START) *)
Theorem tbl_live_char st :
  reach init step st ->
  g_live st = length (g_threads st) /\ NoDup (g_threads st) /\ g_live st <= g_peak st /\
  (forall t, In t (g_threads st) <-> (owned st t <> 0 \/ acquiring (th st t))).
Proof.
  intros Hr. pose proof (tbl_inv1 st Hr) as [HT HE]. destruct (E_live st HE) as (H1 & H2 & H3).
  repeat split; try assumption.
  - intros Hin. destruct (HT t) as [Hok Ht]. destruct (Nat.eq_dec (owned st t) 0) as [Hz|Hz]; [|left; exact Hz].
    right. destruct (th st t) as [|[]| | | | | | | |]; cbn [T acquiring] in *; try exact I; tauto.
  - intros [Ho|Ha].
    + destruct (HT t) as [Hok _]. apply Hok. exact Ho.
    + destruct (HT t) as [_ Ht]. destruct (th st t) as [|[]| | | | | | | |]; cbn [T acquiring] in *; try contradiction;
        unfold scan_ok in Ht; tauto.
Qed.

(** THE BOUND: the number of entries ever created never exceeds the peak number of threads that
    were simultaneously live (between the START of an acquire and the end of the matching release). *)
Theorem tbl_bounded_by_peak st : reach init step st -> nent st <= g_peak st.
Proof. intros Hr. apply (I2_le st (tbl_inv2 st Hr)). Qed.

(** the refined form: entries = linked entries + entries being inserted, and a walker that has
    [k] linked entries in front of its cursor proves that the peak was at least [entries-in-front + pending + 1] *)
Theorem tbl_depth_bound st t c :
  reach init step st -> In t (g_threads st) -> cur st t = Some c ->
  (g_nlinked st - g_rank st c) + npend st + 1 <= g_peak st /\ nent st = g_nlinked st + npend st.
Proof.
  intros Hr Hin Hc. pose proof (tbl_inv1 st Hr) as [HT HE]. pose proof (tbl_inv2 st Hr) as H2.
  split; [|apply (I2_pend st H2)].
  set (k := g_nlinked st - g_rank st c).
  assert (Hpos : 0 < R st k).
  { unfold R. apply (cnt_pos _ _ t); [exact Hin|]. unfold rge. rewrite Hc. apply Nat.leb_refl. }
  pose proof (Qall st (live_le_peak st HE) H2 k Hpos). lia.
Qed.

(** *** the stronger natural statements are false *)
Definition states_of (acts : list action) : list state :=
  (fix go (s : state) (l : list action) : list state :=
     match l with
     | [] => [s]
     | a :: r => match step s a with Some (s', _) => s :: go s' r | None => s :: go s r end
     end) init acts.

Definition final (acts : list action) : state := fst (fst (run step init acts)).

Definition busy (st : state) : nat := cnt (fun e => negb (est st e =? 0)) (seq 1 (nent st)).

(** T1 holds e1, T2 holds e2 (list e2 -> e1); T3 walks past e2 (busy); T2 releases e2 BEHIND the
    walker; T3 finds e1 busy, reaches the end and creates e3 although e2 is free and only two
    threads are live. *)
Definition cex_behind : list action :=
  [Start 1 OAcquire; Step 1; Step 1; Step 1; Step 1; Step 1;
   Start 2 OAcquire; Step 2; Step 2; Step 2; Step 2; Step 2; Step 2;
   Start 3 OAcquire; Step 3; Step 3; Step 3;
   Start 2 ORelease; Step 2; Step 2;
   Step 3].

Lemma cex_behind_facts :
  let s := final cex_behind in
  snd (run step init cex_behind) = 0 /\ nent s = 3 /\ g_live s = 2 /\ g_peak s = 3 /\ est s 2 = 0 /\ th s 3 = A1 2 3.
Proof. vm_compute. repeat split. Qed.

(** "an entry is only created when every existing entry is busy" is FALSE *)
Lemma tbl_create_only_if_all_busy_refuted :
  ~ (forall st a st' es, reach init step st -> step st a = Some (st', es) -> nent st' = S (nent st) ->
       forall e, 1 <= e <= nent st -> est st e <> 0).
Proof.
  intros H.
  set (pre := firstn 20 cex_behind).
  assert (Hr : reach init step (final pre)) by apply run_reach.
  destruct (step (final pre) (Step 3)) as [[s' es]|] eqn:Hst; [|vm_compute in Hst; discriminate].
  apply (H (final pre) (Step 3) s' es Hr Hst) with (e := 2).
  - vm_compute in Hst. injection Hst as <- _. reflexivity.
  - vm_compute. lia.
  - vm_compute. reflexivity.
Qed.

(** "when an entry is created, the number of entries is at most the number of threads live at that moment" is FALSE
    (only the PEAK bounds it) *)
Lemma tbl_bounded_by_current_live_refuted :
  ~ (forall st a st' es, reach init step st -> step st a = Some (st', es) -> nent st' = S (nent st) -> nent st' <= g_live st').
Proof.
  intros H.
  set (pre := firstn 20 cex_behind).
  assert (Hr : reach init step (final pre)) by apply run_reach.
  destruct (step (final pre) (Step 3)) as [[s' es]|] eqn:Hst; [|vm_compute in Hst; discriminate].
  assert (Hc : nent s' <= g_live s').
  { apply (H (final pre) (Step 3) s' es Hr Hst). vm_compute in Hst. injection Hst as <- _. reflexivity. }
  vm_compute in Hst. injection Hst as <- _. vm_compute in Hc. lia.
Qed.

(** "the number of entries is at most the peak number of simultaneously busy (owned) entries" is FALSE:
    threads that are still looking for an entry have to be counted *)
Lemma tbl_bounded_by_peak_owned_refuted :
  ~ (forall acts, nent (final acts) <= fold_right Nat.max 0 (map busy (states_of acts))).
Proof. intros H. specialize (H cex_behind). vm_compute in H. lia. Qed.

(** the bound itself is attained: three entries, peak three *)
Example tbl_bounded_by_peak_example :
  reach init step (final cex_behind) /\ nent (final cex_behind) = 3 /\ g_peak (final cex_behind) = 3.
Proof. split; [apply run_reach|]. vm_compute. split; reflexivity. Qed.

(** * Solo runs: termination bounds (C16) and reuse of free entries *)
Definition idle (s : state) (t : nat) : bool := match th s t with Idle => true | _ => false end.

(** upper bound on the remaining solo steps of thread [t]: two per list entry still to be examined *)
Definition tbl_mu (st : state) (t : nat) : nat :=
  match th st t with
  | Idle => 0
  | Begin OAcquire | Begin OAcquireInactive => 2 * g_nlinked st + 5
  | Begin ORelease | Begin OActivate => 2
  | W0 _ => 2 * g_nlinked st + 4
  | W1 _ c => 2 * g_rank st c + 3
  | W2 _ c => 2 * g_rank st c + 2
  | A1 _ _ => 3
  | A2 _ => 2
  | A3 _ h => if head st =? h then 1 else 2
  | R1 | V1 => 1
  end.

Lemma mu_advance st t ini c e :
  tbl_mu (fst (advance st t ini c e)) t = if c =? 0 then 3 else 2 * g_rank st c + 3.
Proof.
  unfold advance. destruct (c =? 0); cbn [fst]; unfold tbl_mu, alloc, setpc; prj; upds; reflexivity.
Qed.

Lemma tbl_solo_step st t :
  reach init step st -> idle st t = false ->
  exists st' es, step st (Step t) = Some (st', es) /\ reach init step st' /\ tbl_mu st' t < tbl_mu st t.
Proof.
  intros Hr Hi. pose proof (tbl_inv1 st Hr) as [HT HE].
  assert (Hen : exists st' es, step st (Step t) = Some (st', es)).
  { unfold idle in Hi. cbn [step]. destruct (th st t) as [|[]| | | | | | | |]; try discriminate;
      repeat match goal with |- context [if ?c then _ else _] => destruct c end;
      match goal with |- exists _ _, Some ?x = _ => exists (fst x), (snd x); destruct x; reflexivity end. }
  destruct Hen as (st' & es & Hst). exists st', es. split; [exact Hst|]. split; [eapply reach_step; eassumption|].
  destruct (HT t) as [_ Ht]. destruct (E_head st HE) as [Hh1 Hh2]. unfold idle in Hi.
  cbn [step] in Hst. unfold tbl_mu at 2.
  destruct (th st t) as [|[]|ini|ini c|ini c|ini n|n|n h| |] eqn:Hth; try discriminate; cbn [T] in Ht;
    try (injection Hst as <- <-; unfold tbl_mu, go_live, setpc, set_est, set_nxt, release; prj; upds; try rewrite Nat.eqb_refl; lia).
  - apply advance_fst in Hst. subst st'. rewrite mu_advance. destruct (head st =? 0); lia.
  - destruct Ht as [_ Hc]. destruct (E_next st HE c Hc) as [Hn _]. destruct (est st c =? 0).
    + injection Hst as <- <-. unfold tbl_mu, setpc; prj; upds. lia.
    + apply advance_fst in Hst. subst st'. rewrite mu_advance. destruct (nxt st c =? 0); lia.
  - destruct Ht as [_ Hc]. destruct (E_next st HE c Hc) as [Hn _]. destruct (est st c =? 0).
    + injection Hst as <- <-. unfold tbl_mu, adopt; prj; upds. lia.
    + apply advance_fst in Hst. subst st'. rewrite mu_advance. destruct (nxt st c =? 0); lia.
  - destruct (Nat.eqb_spec (head st) h); injection Hst as <- <-.
    + unfold tbl_mu, link; prj; upds. lia.
    + unfold tbl_mu, set_nxt; prj; upds. rewrite Nat.eqb_refl. lia.
Qed.

(** From EVERY reachable state a thread running alone finishes its current operation within
    [tbl_mu] steps: an acquire within 2 * (number of linked entries) + 5 steps, a release or an
    activate within 2 steps (1 step once the operation has started). *)
Theorem tbl_solo st t :
  reach init step st -> finishes_within step Step idle t (tbl_mu st t) st.
Proof.
  intros Hr.
  apply (finishes_by_measure _ _ _ step Step idle (reach init step) (fun s => tbl_mu s t) t); [|exact Hr].
  intros s Hs Hi. exact (tbl_solo_step s t Hs Hi).
Qed.

Lemma tbl_mu_le st t : reach init step st -> tbl_mu st t <= 2 * g_nlinked st + 5 /\ g_nlinked st <= nent st.
Proof.
  intros Hr. pose proof (tbl_inv1 st Hr) as [HT HE]. pose proof (tbl_inv2 st Hr) as [P1 _ _]. split; [|lia].
  unfold tbl_mu. destruct (th st t) as [|[]| |ini c|ini c| | |n h| |]; try lia.
  - pose proof (E_rank_le st HE c). lia.
  - pose proof (E_rank_le st HE c). lia.
  - destruct (head st =? h); lia.
Qed.

Theorem tbl_acquire_solo_terminates st t :
  reach init step st ->
  finishes_within step Step idle t (2 * nent st + 5) st /\
  (th st t = R1 \/ th st t = V1 -> finishes_within step Step idle t 1 st) /\
  (th st t = Begin ORelease \/ th st t = Begin OActivate -> finishes_within step Step idle t 2 st).
Proof.
  intros Hr. pose proof (tbl_solo st t Hr) as H. destruct (tbl_mu_le st t Hr) as [H1 H2].
  split; [|split].
  - eapply finishes_within_mono; [|exact H]. lia.
  - intros [E|E]; unfold tbl_mu in H; rewrite E in H; exact H.
  - intros [E|E]; unfold tbl_mu in H; rewrite E in H; exact H.
Qed.

Theorem tbl_never_stuck st t : reach init step st -> never_stuck step Step idle t st.
Proof. intros Hr. eapply finishes_never_stuck. apply tbl_solo. exact Hr. Qed.

(** ** Reuse *)
Lemma solo_steps_inv (P : state -> Prop) t :
  (forall s s1 es, P s -> idle s t = false -> step s (Step t) = Some (s1, es) -> P s1) ->
  forall n s s', solo_steps step Step idle t n s s' -> P s -> P s'.
Proof.
  intros Hc n s s' H. induction H as [s|n s s1 es s' Hi Hst H IH]; intros HP; [exact HP|].
  apply IH. eapply Hc; eassumption.
Qed.

(** the walk of [t] still has a free linked entry at or behind its cursor, and creates nothing *)
Definition reuseP (n0 : nat) (t : nat) (s : state) : Prop :=
  reach init step s /\ nent s = n0 /\
  match th s t with
  | Begin OAcquire | Begin OAcquireInactive | W0 _ => exists e0, 1 <= g_rank s e0 /\ est s e0 = 0
  | W1 _ c | W2 _ c => exists e0, 1 <= g_rank s e0 <= g_rank s c /\ est s e0 = 0
  | Idle => 1 <= owned s t <= n0
  | _ => False
  end.

Lemma reuseP_step n0 t s s1 es :
  reuseP n0 t s -> idle s t = false -> step s (Step t) = Some (s1, es) -> reuseP n0 t s1.
Proof.
  intros (Hr & Hn & Hp) Hi Hst. pose proof (tbl_inv1 s Hr) as [HT HE].
  split; [eapply reach_step; eassumption|].
  destruct (HT t) as [_ Ht]. unfold idle in Hi. cbn [step] in Hst.
  assert (Hmove : forall ini c e0 e, 1 <= g_rank s c -> est s c <> 0 -> 1 <= g_rank s e0 <= g_rank s c -> est s e0 = 0 ->
            s1 = fst (advance s t ini (nxt s c) e) ->
            nent s1 = n0 /\ match th s1 t with W1 _ c' => exists e1, 1 <= g_rank s1 e1 <= g_rank s1 c' /\ est s1 e1 = 0 | _ => False end).
  { intros ini c e0 e Hc Hb He0 Hf ->. destruct (E_next s HE c Hc) as [Hnx Hnz].
    assert (Hne : g_rank s e0 <> g_rank s c).
    { intros Heq. assert (e0 = c) by (apply (E_inj s HE); [lia|exact Heq]). subst. contradiction. }
    assert (Hcz : nxt s c <> 0) by (intros Hz; rewrite Hz, (rank_zero s HE) in Hnx; lia).
    unfold advance. destruct (Nat.eqb_spec (nxt s c) 0); [contradiction|]. cbn [fst]. unfold setpc; prj. upds.
    split; [exact Hn|]. exists e0. split; [lia|exact Hf]. }
  destruct (th s t) as [|[]|ini|ini c|ini c|ini n|n|n h| |] eqn:Hth; try discriminate; try contradiction; cbn [T] in Ht.
  - injection Hst as <- <-. unfold go_live; prj. upds. split; [exact Hn|exact Hp].
  - injection Hst as <- <-. unfold go_live; prj. upds. split; [exact Hn|exact Hp].
  - (* W0 *) apply advance_fst in Hst. destruct Hp as (e0 & He0 & Hf). destruct (E_head s HE) as [Hh1 Hh2].
    pose proof (E_rank_le s HE e0) as Hle.
    assert (Hhz : head s <> 0) by (intros Hz; rewrite Hz, (rank_zero s HE) in Hh1; lia).
    subst s1. unfold advance. destruct (Nat.eqb_spec (head s) 0); [contradiction|]. cbn [fst]. unfold setpc; prj. upds.
    split; [exact Hn|]. exists e0. split; [lia|exact Hf].
  - (* W1 *) destruct Ht as [_ Hc]. destruct Hp as (e0 & He0 & Hf). destruct (Nat.eqb_spec (est s c) 0) as [Hz|Hz].
    + injection Hst as <- <-. unfold setpc; prj. upds. split; [exact Hn|]. exists e0. split; assumption.
    + apply advance_fst in Hst. destruct (Hmove ini c e0 _ Hc Hz He0 Hf Hst) as [H1 H2]. split; [exact H1|].
      destruct (th s1 t); try contradiction. exact H2.
  - (* W2 *) destruct Ht as [_ Hc]. destruct Hp as (e0 & He0 & Hf). destruct (Nat.eqb_spec (est s c) 0) as [Hz|Hz].
    + injection Hst as <- <-. unfold adopt; prj. upds. split; [exact Hn|]. pose proof (ranked_le s c HE Hc). lia.
    + apply advance_fst in Hst. destruct (Hmove ini c e0 _ Hc Hz He0 Hf Hst) as [H1 H2]. split; [exact H1|].
      destruct (th s1 t); try contradiction. exact H2.
Qed.

(** If some entry is free when a thread starts an acquire and the thread then runs alone (in
    particular: in a sequential execution), the acquire returns an EXISTING entry and creates none.
    The other threads may be anywhere, even in the middle of their own operations. *)
Theorem tbl_reuse st t :
  reach init step st ->
  (th st t = Begin OAcquire \/ th st t = Begin OAcquireInactive \/ exists ini, th st t = W0 ini) ->
  (exists e, 1 <= e <= nent st /\ est st e = 0) ->
  exists n st', n <= 2 * nent st + 5 /\ solo_steps step Step idle t n st st' /\
    th st' t = Idle /\ nent st' = nent st /\ 1 <= owned st' t <= nent st /\
    g_owner st' (owned st' t) = Some t.
Proof.
  intros Hr Hpc (e & He & Hf). pose proof (tbl_inv1 st Hr) as HI. pose proof HI as [HT HE].
  assert (Hlk : 1 <= g_rank st e).
  { destruct (Nat.eq_dec (g_rank st e) 0) as [Hz|Hz]; [|lia]. exfalso.
    destruct (E_pend st HE e He Hz) as [x Hx].
    destruct (pend_entry_owner st x e HI Hx ltac:(lia)) as [Ho _].
    apply (E_free st HE) in Hf. congruence. }
  assert (HP : reuseP (nent st) t st).
  { split; [exact Hr|]. split; [reflexivity|].
    destruct Hpc as [-> | [-> | [ini ->]]]; exists e; split; assumption. }
  destruct (tbl_acquire_solo_terminates st t Hr) as [(n & st' & Hn & Hs & Hid) _].
  pose proof (solo_steps_inv (reuseP (nent st) t) t (fun s s1 es => reuseP_step (nent st) t s s1 es) n st st' Hs HP) as (Hr' & Hn' & Hp').
  unfold idle in Hid. exists n, st'. destruct (th st' t) eqn:Hth; try discriminate.
  repeat split; try assumption; try lia.
  destruct (tbl_exclusive_owner st' Hr') as (H1 & _). apply H1. lia.
Qed.

(** * Examples: the hypotheses of the theorems are satisfiable by concrete reachable states *)

(** after [cex_behind]: T1 holds e1 (active), T2 holds nothing, T3 is inserting e3; list = e2 -> e1 *)
Example tbl_exclusive_owner_example :
  let s := final cex_behind in
  reach init step s /\ owned s 1 = 1 /\ g_owner s 1 = Some 1 /\ est s 1 = 2 /\ owned s 2 = 0 /\ g_owner s 2 = None /\ est s 2 = 0.
Proof. split; [apply run_reach|]. vm_compute. repeat split. Qed.

Example tbl_list_wf_example :
  let s := final cex_behind in
  reach init step s /\ chain (nxt s) (head s) [2; 1] /\ nent s = 3 /\ pend_entry (th s 3) = 3 /\ g_nlinked s = 2.
Proof. split; [apply run_reach|]. vm_compute. repeat split; discriminate. Qed.

(** T3 finishes inserting e3: the list grows by one entry in front, nothing else changes *)
Example tbl_entries_never_removed_example :
  let s := final (cex_behind ++ [Step 3; Step 3]) in
  reach init step s /\ chain (nxt s) (head s) [2; 1] /\
  exists s' es, step s (Step 3) = Some (s', es) /\ chain (nxt s') (head s') [3; 2; 1] /\ owned s' 3 = 3.
Proof.
  split; [apply run_reach|]. split; [vm_compute; repeat split; discriminate|].
  eexists. eexists. split; [vm_compute; reflexivity|]. vm_compute. repeat split; discriminate.
Qed.

(** T2 comes back while e2 is free (T3 is still in the middle of inserting e3): running alone it gets e2 back *)
Example tbl_reuse_example :
  let s := final (cex_behind ++ [Start 2 OAcquire]) in
  reach init step s /\ th s 2 = Begin OAcquire /\ est s 2 = 0 /\ nent s = 3 /\
  match solo_run step Step idle 2 11 0 s with
  | Done s' n => n = 4 /\ owned s' 2 = 2 /\ nent s' = 3 /\ est s' 2 = 2
  | _ => False
  end.
Proof. split; [apply run_reach|]. vm_compute. repeat split. Qed.

(** a walker at the head of a two-entry list needs at most 2*2+4 solo steps; here both entries are busy
    for T3 (after 17 actions of [cex_behind]) and it uses 2 (walk) + 1 + 3 (create and insert) *)
Example tbl_solo_example :
  let s := final (firstn 15 cex_behind) in
  reach init step s /\ th s 3 = W0 2 /\ tbl_mu s 3 = 8 /\
  match solo_run step Step idle 3 8 0 s with Done s' n => n = 6 /\ owned s' 3 = 3 | _ => False end.
Proof. split; [apply run_reach|]. vm_compute. repeat split. Qed.

Example tbl_release_solo_example :
  let s := final (firstn 19 cex_behind) in
  reach init step s /\ th s 2 = R1 /\
  match solo_run step Step idle 2 1 0 s with Done s' n => n = 1 /\ owned s' 2 = 0 /\ est s' 2 = 0 | _ => False end.
Proof. split; [apply run_reach|]. vm_compute. repeat split. Qed.

(** T3 has walked past e2 (one linked entry in front of its cursor e1) while T1, T2, T3 are live *)
Example tbl_depth_bound_example :
  let s := final (firstn 17 cex_behind) in
  reach init step s /\ In 3 (g_threads s) /\ cur s 3 = Some 1 /\ g_nlinked s - g_rank s 1 = 1 /\ g_peak s = 3.
Proof. split; [apply run_reach|]. vm_compute. repeat split. left. reflexivity. Qed.

Example tbl_live_char_example :
  let s := final cex_behind in
  reach init step s /\ g_threads s = [3; 1] /\ owned s 1 <> 0 /\ acquiring (th s 3).
Proof. split; [apply run_reach|]. vm_compute. repeat split. discriminate. Qed.
