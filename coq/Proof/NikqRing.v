(** nikolaev_queue model, ring layer: the state of EVERY node satisfies the invariant layers of the bounded queue
    (Proof/NikbWf.v [Inv1] words, NikbOwn.v [Inv2] tickets / slots / index ownership, NikbSafe.v [Inv4] the is_safe flag
    and no stranding inside a ring, NikbCons.v [A3] tickets below head are handed out) in every reachable state of the
    queue in which no counter has wrapped.  The steps of the ring code are steps of the bounded model (the step lemmas
    of those files apply); proved here: the node built by push (first_used_tag / first_empty_tag), entering a ring
    operation, set_threshold, the four accesses to the finalized tail word, the finalized enqueue. *)
From Coq Require Import NArith List Bool Lia PeanoNat.
From XV Require Import Base.Word Conc.Lts Conc.Ev gen.ScqGen Model.NikbDefs Model.NikqDefs.
From XV Require Import Proof.NikbArith Proof.NikbBase Proof.NikbWf Proof.NikbOwn Proof.NikbVal Proof.NikbSafe Proof.NikbCons Proof.NikqBase.
Import ListNotations.
Local Open Scope N_scope.

Set Default Proof Using "All".
Section Ring.
  Variable k R : N.
  Hypothesis Hk : k <= 40.
  Notation cap := (2 ^ k).
  Notation step := (NikbDefs.step cap R).
  Notation ecyc := (ecyc k).
  Notation eidx := (eidx k).
  Notation esafe := (esafe k).
  Notation bot := (bot k).
  Notation Inv1 := (Inv1 k).
  Notation Inv2 := (Inv2 k).
  Notation Inv4 := (Inv4 k).
  Notation slot := (slot k).
  Notation wfe := (wfe k).

  Definition RingInv (sg : state) : Prop := Inv1 sg /\ Inv2 sg /\ Inv4 sg /\ A3 sg.

  (** * the node built by push *)
  Lemma used_free_spec j : used_free_data cap j = ones64 \/ exists i, i < cap /\ used_free_data cap j = nn cap + i.
  Proof.
    unfold used_free_data.
    assert (G : forall l f, (forall j, f j = ones64 \/ exists i, i < cap /\ f j = nn cap + i) ->
                (forall i, In i l -> N.of_nat i < cap) ->
                forall j, fold_left (fun f i => setf f (phys cap (2 * N.of_nat i)) (nn cap + N.of_nat i)) l f j = ones64 \/
                          exists i, i < cap /\ fold_left (fun f i => setf f (phys cap (2 * N.of_nat i)) (nn cap + N.of_nat i)) l f j = nn cap + i).
    { induction l as [|a l IH]; intros f Hf Hl j0; cbn [fold_left]; [apply Hf|].
      apply IH.
      - intros j1. unfold setf. destruct (j1 =? _); [right; exists (N.of_nat a); split; [apply Hl; left; reflexivity|reflexivity]|apply Hf].
      - intros i Hi. apply Hl. right. exact Hi. }
    apply G.
    - intros; left; reflexivity.
    - intros i Hi. apply in_seq in Hi. lia.
  Qed.

  Lemma used_free_at p : p < nn cap -> used_free_data cap (phys cap (2 * p)) = if (1 <=? p) && (p <? cap) then nn cap + p else ones64.
  Proof.
    intros Hp. unfold used_free_data. rewrite (free_data_fold k R Hk); [|exact Hp|].
    - destruct (N.leb_spec 1 p) as [H1|H1], (N.ltb_spec p cap) as [Hlt|Hge]; cbn [andb].
      + replace (existsb _ _) with true; [reflexivity|]. symmetry. apply existsb_exists.
        exists (N.to_nat p). split; [apply in_seq; lia|apply N.eqb_eq; lia].
      + replace (existsb _ _) with false; [reflexivity|]. symmetry. apply not_true_is_false. intros H.
        apply existsb_exists in H. destruct H as (i & Hi & He). apply in_seq in Hi. apply N.eqb_eq in He. lia.
      + replace (existsb _ _) with false; [reflexivity|]. symmetry. apply not_true_is_false. intros H.
        apply existsb_exists in H. destruct H as (i & Hi & He). apply in_seq in Hi. apply N.eqb_eq in He. lia.
      + replace (existsb _ _) with false; [reflexivity|]. symmetry. apply not_true_is_false. intros H.
        apply existsb_exists in H. destruct H as (i & Hi & He). apply in_seq in Hi. apply N.eqb_eq in He. lia.
    - intros i Hi. apply in_seq in Hi. unfold nn. lia.
  Qed.

  Lemma slot_used_RF v T : slot (used_init cap v) RF T =
    if (1 <=? T mod nn cap) && (T mod nn cap <? cap) then nn cap + T mod nn cap else ones64.
  Proof.
    unfold NikbOwn.slot. cbn [used_init rgs rdata]. rewrite (phys_tick k Hk). apply used_free_at. apply N.mod_lt.
    assert (H := nn_pos k Hk). lia.
  Qed.

  Lemma slot_used_RA v T : slot (used_init cap v) RA T = if T mod nn cap =? 0 then nn cap else ones64.
  Proof.
    unfold NikbOwn.slot. cbn [used_init rgs rdata]. unfold used_alloc_data, setf. assert (Hn := nn_pos k Hk).
    replace (phys cap 0) with (phys cap (2 * 0)) by reflexivity.
    destruct (N.eqb_spec (T mod nn cap) 0) as [Hz|Hz].
    - rewrite (phys_tick k Hk T), Hz. rewrite N.eqb_refl. reflexivity.
    - destruct (N.eqb_spec (phys cap (2 * T)) (phys cap (2 * 0))) as [Hp|Hp]; [|reflexivity].
      exfalso. apply Hz. apply (phys_inj k Hk) in Hp. rewrite Hp. apply N.mod_0_l. lia.
  Qed.

  Lemma thr_full_ok : thr_ok k (thr_full cap).
  Proof. left. unfold thr_full, nn. assert (Hp := cap_pos k Hk). lia. Qed.

  Lemma wfe_nn : wfe (nn cap).
  Proof. replace (nn cap) with (nn cap + 0) by lia. apply (wfe_nn_i k R Hk). apply (cap_pos k Hk). Qed.

  Lemma Inv1_used v : Inv1 (used_init cap v).
  Proof.
    assert (Hc := cap3_small k Hk). assert (Hp := cap_pos k Hk).
    split; [|intros t; exact I].
    intros [|]; cbn [used_init rgs]; unfold RW; cbn [rhead rtail rthr rdata].
    - split; [apply ctr_0|]. split; [apply (ctr_double 1); lia|]. split; [apply thr_full_ok|].
      intros j. unfold used_alloc_data, setf. destruct (j =? _); [apply wfe_nn|apply (wfe_ones64 k R Hk)].
    - split; [apply (ctr_double 1); lia|]. split; [apply ctr_double; lia|]. split; [apply thr_full_ok|].
      intros j. destruct (used_free_spec j) as [->|(i & Hi & ->)]; [apply (wfe_ones64 k R Hk)|apply (wfe_nn_i k R Hk); exact Hi].
  Qed.

  Lemma f_nn0 : ecyc (nn cap) = 0 /\ eidx (nn cap) = 0.
  Proof. replace (nn cap) with (nn cap + 0) by lia. apply (f_nn_i k R Hk). apply (cap_pos k Hk). Qed.

  Lemma Inv2_used v : Inv2 (used_init cap v).
  Proof.
    assert (Hn := nn_pos k Hk). assert (Hcn := cap_lt_nn k R Hk). assert (Hb := cap_lt_bot k Hk). assert (Hp := cap_pos k Hk).
    destruct f_nn0 as [Fc Fi].
    split; [|split].
    - intros [|].
      + (* RA *) constructor; cbn [used_init rgs g_dq g_eq rhead rtail th g_own].
        * intros H Hx. congruence.
        * intros T. destruct (N.eqb_spec T 0) as [->|]; [intros _; lia|congruence].
        * intros H u Hx. discriminate.
        * intros T u. destruct (T =? 0); discriminate.
        * intros T HT. rewrite slot_used_RA. destruct (N.eqb_spec (T mod nn cap) 0) as [Hz|Hz].
          -- rewrite Fc, Fi. intros _ Hc.
             assert (HT0 : T = 0). { symmetry in Hc. apply N.div_small_iff in Hc; [|lia]. rewrite N.mod_small in Hz by exact Hc. exact Hz. }
             subst T. cbn [N.eqb]. ssplit; [reflexivity|reflexivity|intros; discriminate].
          -- rewrite (eidx_ones64 k Hk). lia.
        * intros T HT. rewrite slot_used_RA. destruct (N.eqb_spec (T mod nn cap) 0) as [Hz|Hz].
          -- rewrite Fi. lia.
          -- rewrite (ecyc_ones64 k Hk). intros _ Hc. exfalso. apply (cyc_small_ne_cmax k R Hk T HT). symmetry. exact Hc.
        * intros i T Hi. cbn [inring]. destruct (N.eqb_spec i 0) as [->|]; [|discriminate]. intros Ho. inversion Ho; subst T.
          split; [reflexivity|]. rewrite slot_used_RA. rewrite N.mod_0_l by lia. cbn [N.eqb]. rewrite Fc, Fi.
          split; [reflexivity|]. symmetry. apply N.div_0_l. lia.
        * intros T i. destruct (N.eqb_spec T 0) as [->|]; [|discriminate]. intros Hx. inversion Hx; subst i.
          split; [exact Hp|]. right. split; [intros; discriminate|]. rewrite slot_used_RA. rewrite N.mod_0_l by lia. cbn [N.eqb].
          rewrite Fc, Fi. split; [reflexivity|]. symmetry. apply N.div_0_l. lia.
        * intros H i Hx. discriminate.
      + (* RF *) constructor; cbn [used_init rgs g_dq g_eq rhead rtail th g_own].
        * intros H. destruct (N.eqb_spec H 0) as [->|]; [intros _; lia|congruence].
        * intros T. destruct (N.ltb_spec T cap); [intros _; lia|congruence].
        * intros H u. destruct (H =? 0); discriminate.
        * intros T u. destruct (T <? cap); discriminate.
        * intros T HT. rewrite slot_used_RF.
          destruct (N.leb_spec 1 (T mod nn cap)) as [H1|H1], (N.ltb_spec (T mod nn cap) cap) as [Hlt|Hge]; cbn [andb];
            try (rewrite (eidx_ones64 k Hk); lia).
          destruct (f_nn_i k R Hk _ Hlt) as [A C]. rewrite A, C. intros _ Hc.
          assert (HT0 : T < nn cap). { symmetry in Hc. apply N.div_small_iff in Hc; lia. }
          rewrite N.mod_small in * by exact HT0.
          destruct (N.ltb_spec T cap); [|lia]. destruct (N.eqb_spec T 0); [lia|].
          ssplit; [reflexivity|reflexivity|intros; discriminate].
        * intros T HT. rewrite slot_used_RF.
          destruct (N.leb_spec 1 (T mod nn cap)) as [H1|H1], (N.ltb_spec (T mod nn cap) cap) as [Hlt|Hge]; cbn [andb];
            try (rewrite (ecyc_ones64 k Hk); intros _ Hc; exfalso; apply (cyc_small_ne_cmax k R Hk T HT); symmetry; exact Hc).
          destruct (f_nn_i k R Hk _ Hlt) as [A C]. rewrite C. lia.
        * intros i T Hi. cbn [inring]. destruct (N.eqb_spec i 0) as [->|Hi0]; [discriminate|]. intros Ho. inversion Ho; subst T.
          assert (E62 : 2 ^ 62 = 4611686018427387904) by reflexivity.
          assert (Hc := cap3_small k Hk). split; [lia|]. rewrite slot_used_RF.
          rewrite N.mod_small by lia. destruct (N.leb_spec 1 i); [|lia]. destruct (N.ltb_spec i cap); [|lia]. cbn [andb].
          destruct (f_nn_i k R Hk _ Hi) as [A C]. rewrite A, C. split; [reflexivity|]. symmetry. apply N.div_small. lia.
        * intros T i. destruct (N.ltb_spec T cap) as [Hlt|]; [|discriminate]. intros Hx. inversion Hx; subst i.
          split; [exact Hlt|]. destruct (N.eqb_spec T 0) as [->|HT0]; [left; reflexivity|].
          right. split; [intros; discriminate|]. rewrite slot_used_RF.
          rewrite N.mod_small by lia. destruct (N.leb_spec 1 T); [|lia]. destruct (N.ltb_spec T cap); [|lia]. cbn [andb].
          destruct (f_nn_i k R Hk _ Hlt) as [A C]. rewrite A, C. split; [reflexivity|]. symmetry. apply N.div_small. lia.
        * intros H i. destruct (N.eqb_spec H 0) as [->|]; [|discriminate]. intros Hx. inversion Hx; subst i.
          destruct (N.ltb_spec 0 cap); [reflexivity|lia].
    - intros t. cbn [used_init th]. unfold T2. cbn [dtk etk hidx]. ssplit; try (intros; discriminate). exact I.
    - intros i u q. cbn [used_init g_own]. destruct q, (i =? 0); discriminate.
  Qed.

  Lemma Inv4_used v : Inv4 (used_init cap v).
  Proof.
    constructor.
    - intros t. exact I.
    - intros q H. destruct q; cbn [used_init rgs g_dq]; [discriminate|destruct (H =? 0); discriminate].
    - intros q H i. destruct q; cbn [used_init rgs g_dq]; [discriminate|destruct (H =? 0); discriminate].
  Qed.

  Lemma A3_used v : A3 (used_init cap v).
  Proof.
    intros q H. destruct q; cbn [used_init rgs rhead g_dq]; [lia|].
    destruct (N.eqb_spec H 0); [discriminate|lia].
  Qed.

  Lemma RingInv_used v : RingInv (used_init cap v).
  Proof. split; [apply Inv1_used|split; [apply Inv2_used|split; [apply Inv4_used|apply A3_used]]]. Qed.

  Lemma RingInv_init : RingInv (init cap).
  Proof.
    split; [apply (Inv1_init k R Hk)|split; [apply (Inv2_init k R Hk)|split; [apply (Inv4_init k R Hk)|]]].
    intros q H. destruct q; cbn [init rgs rhead]; lia.
  Qed.

  (** * transitions that change only the program point of t (and possibly a threshold / the tail counter) *)
  Lemma RingInv_pc s s' t p :
    RingInv s -> (forall q, RW k (rg s' q)) -> same_core s s' -> (forall q, rhead (rg s' q) = rhead (rg s q)) ->
    th s' = upd (th s) t p ->
    dtk p = dtk (th s t) -> etk p = etk (th s t) -> hidx p = hidx (th s t) ->
    T1 k s' p -> T4 k s' p -> match p with D3 _ _ _ _ => False | _ => True end ->
    RingInv s'.
  Proof.
    intros (I1 & I2 & I4 & I3) HW Hc Hrh Hth Hd He Hh Hp1 Hp4 Hn3. pose proof Hc as [Hq Ho].
    assert (Hsl : forall q T, slot s' q T = slot s q T).
    { intros q T. apply (slot_same k R Hk). apply (Hq q). }
    split; [|split; [|split]].
    - eapply (Inv1_intro k R Hk s s' t p); [exact I1|exact HW| |exact Hth|exact Hp1].
      intros q. destruct (Hq q) as (_ & _ & _ & A & B). split; assumption.
    - eapply (Inv2_pc_only k R Hk s s' t p); [exact I2|exact Hc|exact Hth|exact Hd|exact He|exact Hh|].
      destruct p; try exact I. contradiction.
    - eapply (F4_pure k R Hk s s' t p); [exact I4|exact Hsl| | | |exact Hth|exact Hp4].
      + intros q H. destruct (Hq q) as (_ & _ & A & _). rewrite A. auto.
      + intros q T i. destruct (Hq q) as (_ & A & _). rewrite A. auto.
      + intros q H. destruct (Hq q) as (_ & _ & A & _). rewrite A. auto.
    - intros q H. destruct (Hq q) as (_ & _ & A & _). rewrite A, Hrh. apply I3.
  Qed.

  Ltac core_tac :=
    split; [let q' := fresh "q'" in intros q'; sim;
            try (match goal with |- context [rid_eqb q' ?q] => destruct (rid_eqb_spec q' q) as [->|?] end); sim;
            ssplit; intros; try reflexivity; try lia
           |intros; sim; reflexivity].

  Lemma RW_all s : Inv1 s -> forall q, RW k (rg s q).
  Proof. intros [H _]. exact H. Qed.

  (** entering a ring operation *)
  Lemma RingInv_enter sg t q x : RingInv sg -> th sg t = Idle -> RingInv (enter sg t (D0 q x)).
  Proof.
    intros HI Ht. pose proof HI as (I1 & _). unfold enter.
    eapply (RingInv_pc sg _ t (D0 q x)); [exact HI|exact (RW_all sg I1)|core_tac|reflexivity|reflexivity| | | |exact I|exact I|exact I];
      rewrite Ht; reflexivity.
  Qed.

  (** set_threshold and entering the second dequeue *)
  Lemma RingInv_thr sg t : RingInv sg -> th sg t = Idle -> RingInv (enter (w_rg sg RA (r_thr (ra sg) (thr_full cap))) t (D0 RA 0)).
  Proof.
    intros HI Ht. pose proof HI as (I1 & _). unfold enter.
    eapply (RingInv_pc sg _ t (D0 RA 0)); [exact HI| |core_tac| |reflexivity| | | |exact I|exact I|exact I]; try (rewrite Ht; reflexivity).
    - intros q. sim. destruct q; sim; [|apply (RW_all sg I1)].
      destruct (RW_all sg I1 RA) as (A & B & C & D). unfold RW. sim. ssplit; try assumption. apply thr_full_ok.
    - intros q. sim. destruct q; reflexivity.
  Qed.

  (** * the accesses to the finalized tail word *)
  Lemma lor1_even w : ctr w -> N.lor w 1 = w + 1.
  Proof.
    intros Hc. assert (Hd : N.land w 1 = 0) by (apply ctr_land1; exact Hc).
    rewrite <- N.lxor_lor by exact Hd. rewrite <- N.add_nocarry_lxor by exact Hd. reflexivity.
  Qed.

  Lemma bitw_bound w b : ctr w -> w <= bitw w b /\ bitw w b <= w + 1 /\ bitw w b < 2 ^ 62.
  Proof.
    intros Hc. unfold bitw. destruct b; [rewrite (lor1_even w Hc)|]; destruct Hc as [He Hl];
      assert (E62 : 2 ^ 62 = 4611686018427387904) by reflexivity; lia.
  Qed.

  (** D4 on RA: the retry condition (tail word against the ticket) is irrelevant for the invariants *)
  Definition d4p (x hd att e : N) (b : bool) : pc :=
    if b then D2 RA x hd (att + 1)
    else if lt0 (diff (cyc cap e) (cyc cap hd)) then D5 RA x hd att e (bot_word false cap hd e) else D6 RA x hd.

  Lemma RingInv_d4 sg t x hd att e b :
    RingInv sg -> th sg t = D4 RA x hd att e ->
    RingInv (w_th (mark_left sg RA hd (d4p x hd att e b)) (upd (th (mark_left sg RA hd (d4p x hd att e b))) t (d4p x hd att e b))).
  Proof.
    intros HI E. pose proof HI as (H1 & H2 & H4 & H3). pose proof H1 as [HW HT1]. pose proof H2 as (HR & HT & HO).
    pose proof (HT1 t) as Hme. pose proof (i4t k sg H4 t) as Hme4. rewrite E in Hme, Hme4. cbn [T1] in Hme. cbn [T4] in Hme4.
    destruct (ticket_of_pc k R Hk sg t RA hd H1 H2 ltac:(rewrite E; reflexivity)) as (Hhd2 & Hhdlt & Hheld & Hcyc).
    destruct Hme as (Hc & Hh & Hwe & Hb).
    unfold d4p. destruct b; [|destruct (lt0 (diff (cyc cap e) (cyc cap hd))) eqn:Hlt].
    - (* retry *) rewrite (mark_left_core k R Hk) by reflexivity.
      eapply (RingInv_pc sg _ t); [exact HI|exact (RW_all sg H1)|core_tac|reflexivity|sim; reflexivity| | | | |exact I|exact I];
        try (rewrite E; reflexivity). cbn [T1]. sim. split; assumption.
    - (* CAS next *) rewrite (mark_left_core k R Hk) by reflexivity.
      eapply (RingInv_pc sg _ t); [exact HI|exact (RW_all sg H1)|core_tac|reflexivity|sim; reflexivity| | | | | |exact I];
        try (rewrite E; reflexivity).
      + cbn [T1]. sim. ssplit; try assumption.
        * rewrite (cyc_lt_diff k Hk) in Hlt; [exact Hlt|apply (wfe_cycle_ok k R Hk); exact Hwe|apply Hc].
        * right. split; [reflexivity|exact Hb].
      + cbn [T4]. unfold NikbOwn.slot in *. sim. exact Hme4.
    - (* the ticket is given up *)
      assert (HH0 : 2 * (hd / 2) < 2 ^ 62) by (rewrite <- Hhd2; exact Hhdlt).
      split; [|split; [|split]].
      + eapply (Inv1_intro k R Hk sg _ t _ H1).
        * sim. apply (RW_mark k R Hk). exact HW.
        * sim. apply (mono_mark k R Hk).
        * sim. rewrite (th_mark_left k R Hk). reflexivity.
        * eapply (T1_stable k R Hk) with (st := sg); [intros q'; sim; rewrite (rhead_mark k R Hk), (rtail_mark k R Hk); split; lia|].
          cbn [T1]. split; assumption.
      + eapply (K_dq k R Hk sg _ t RA (hd / 2) DLeft); [exact H1|exact H2|exact HH0| | |unfold mark_left; cbn [leaves]; sim; reflexivity|reflexivity|rewrite E; reflexivity|reflexivity|rewrite E; reflexivity| | |exact I].
        * intros q'. unfold mark_left; cbn [leaves]; sim. destruct (rid_eqb_spec q' RA) as [->|Hnq]; sim; cbn [andb]; ssplit; intros; try reflexivity; try lia.
          -- left. unfold NikbOwn.slot. sim. split; reflexivity.
          -- left. unfold NikbOwn.slot. sim. destruct (rid_eqb_spec q' RA); [contradiction|]. split; reflexivity.
        * intros i. unfold mark_left; cbn [leaves]; sim. reflexivity.
        * unfold mark_left; cbn [leaves]; sim. lia.
        * right. pose proof (HT t) as (Ta & _). rewrite E in Ta. ssplit; [apply Ta; reflexivity|rewrite E; cbn [dtk]; rewrite <- Hhd2; reflexivity|reflexivity|reflexivity].
      + rewrite (cyc_lt_diff k Hk) in Hlt; [|apply (wfe_cycle_ok k R Hk); exact Hwe|exact Hhdlt].
        rewrite Hcyc, (clt_rk k R Hk) in Hlt. apply N.leb_gt in Hlt.
        assert (Hrs : hd / 2 / nn cap < rk k (slot sg RA (hd / 2))) by (destruct Hme4 as [X|[X _]]; lia).
        eapply (F4_leave k R Hk sg _ t RA (hd / 2)); [exact H1|exact H4| | | |exact Hheld|exact HH0|unfold mark_left; cbn [leaves]; sim; reflexivity|exact I| | |].
        * intros q' T. unfold mark_left; cbn [leaves]. unfold NikbOwn.slot; sim. destruct q'; sim; reflexivity.
        * intros q' H. unfold mark_left; cbn [leaves]; sim. destruct q'; sim; cbn [andb]; reflexivity.
        * intros q' T. unfold mark_left; cbn [leaves]; sim. destruct q'; sim; reflexivity.
        * intros [_ Hcc]. rewrite (clt_rk k R Hk) in Hcc. apply N.leb_le in Hcc. lia.
        * intros Hcc. rewrite (clt_rk k R Hk) in Hcc. apply N.leb_le in Hcc. lia.
        * apply (not_published_if_cycle_differs k R Hk sg t RA hd H1 H2 ltac:(rewrite E; reflexivity)).
          destruct Hme4 as [X|[X X']]; [left|right; apply X'; exact Hb].
          intros Hcc. rewrite (rk_of_cycle k R Hk _ _ (tick_cycle_lt_cmax k R Hk _ HH0) Hcc) in X. lia.
      + intros q' H. unfold mark_left; cbn [leaves]; sim. destruct q'; sim; [|apply H3].
        unfold setf. destruct (H =? hd / 2); [intros; discriminate|apply H3].
  Qed.

  Lemma T1_at sg t p : Inv1 sg -> th sg t = p -> T1 k sg p.
  Proof. intros [_ H] <-. apply H. Qed.

  (** D6 on RA: the final check of tail (the real word w) against the ticket *)
  Lemma RingInv_d6 sg f t x hd :
    RingInv sg -> th sg t = D6 RA x hd ->
    RingInv (w_th sg (upd (th sg) t (if gt0 (diff (bitw (rtail (ra sg)) f) (wadd 64 hd 2)) then D7 RA x else C1 RA x (rtail (ra sg)) (wadd 64 hd 2)))).
  Proof.
    intros HI E. pose proof HI as (H1 & _). pose proof (T1_at sg t _ H1 E) as Hme. cbn [T1] in Hme. destruct Hme as [Hc Hh].
    destruct (RW_all sg H1 RA) as (Hhd & Htl & _).
    assert (Hlt : hd + 2 < 2 ^ 62) by (destruct Hhd; lia).
    rewrite (wadd2_small hd (proj2 Hc)).
    destruct (bitw_bound (rtail (ra sg)) f Htl) as (B1 & B2 & B3).
    destruct (gt0 (diff (bitw (rtail (ra sg)) f) (hd + 2))) eqn:Hg;
      (eapply (RingInv_pc sg _ t); [exact HI|exact (RW_all sg H1)|core_tac|reflexivity|sim; reflexivity| | | | |exact I|exact I]);
      try (rewrite E; reflexivity); cbn [T1]; try exact I.
    rewrite diff_gt0 in Hg by (try exact B3; lia). apply N.ltb_ge in Hg. sim.
    ssplit; [exact Htl|apply ctr_add2; assumption|lia|exact Hh].
  Qed.

  (** C1 on RA: the CAS of catchup succeeds iff the even part and the finalized bit are the expected ones *)
  Lemma RingInv_c1_ok sg t x tl hd o :
    RingInv sg -> th sg t = C1 RA x tl hd -> rtail (ra sg) = tl -> o = false ->
    RingInv (w_th (w_ovf (w_rg sg RA (r_tail (ra sg) hd)) o) (upd (th sg) t (D8 RA x))).
  Proof.
    intros HI E Ht Ho. pose proof HI as (H1 & _). pose proof (T1_at sg t _ H1 E) as Hme. cbn [T1] in Hme. destruct Hme as (Hct & Hch & Hle & Hhr).
    eapply (RingInv_pc sg _ t); [exact HI| |core_tac| |sim; reflexivity| | | |exact I|exact I|exact I]; try (rewrite E; reflexivity).
    - intros q. sim. destruct q; sim; [|apply (RW_all sg H1)].
      destruct (RW_all sg H1 RA) as (A & B & C & D). unfold RW. sim. ssplit; assumption.
    - intros q. sim. destruct q; reflexivity.
  Qed.

  Lemma RingInv_c1_fail sg t x tl hd :
    RingInv sg -> th sg t = C1 RA x tl hd -> RingInv (w_th sg (upd (th sg) t (C2 RA x (rtail (ra sg))))).
  Proof.
    intros HI E. pose proof HI as (H1 & _). destruct (RW_all sg H1 RA) as (_ & Htl & _).
    eapply (RingInv_pc sg _ t); [exact HI|exact (RW_all sg H1)|core_tac|reflexivity|sim; reflexivity| | | | |exact I|exact I];
      try (rewrite E; reflexivity). exact Htl.
  Qed.

  Lemma RingInv_c2 sg t x tl lb :
    RingInv sg -> th sg t = C2 RA x tl ->
    RingInv (w_th sg (upd (th sg) t (if lt0 (diff (bitw tl lb) (rhead (ra sg))) then C1 RA x tl (rhead (ra sg)) else D8 RA x))).
  Proof.
    intros HI E. pose proof HI as (H1 & _). pose proof (T1_at sg t _ H1 E) as Hme. cbn [T1] in Hme.
    destruct (RW_all sg H1 RA) as (Hhd & _). destruct (bitw_bound tl lb Hme) as (B1 & B2 & B3).
    destruct (lt0 (diff (bitw tl lb) (rhead (ra sg)))) eqn:Hl;
      (eapply (RingInv_pc sg _ t); [exact HI|exact (RW_all sg H1)|core_tac|reflexivity|sim; reflexivity| | | | |exact I|exact I]);
      try (rewrite E; reflexivity); cbn [T1]; try exact I.
    rewrite diff_lt0 in Hl by (try exact B3; apply Hhd). apply N.ltb_lt in Hl. sim.
    ssplit; [exact Hme|exact Hhd|lia|lia].
  Qed.

  (** * one access inside the ring code *)
  Lemma ctr_ovf_even hd b : ctr hd -> ctr_ovf (bitw hd b) = ctr_ovf hd.
  Proof.
    intros Hc. unfold bitw. destruct b; [|reflexivity]. rewrite (lor1_even hd Hc). unfold ctr_ovf.
    destruct Hc as [He _]. assert (E62 : 2 ^ 62 = 2 * 2305843009213693952) by reflexivity.
    destruct (N.leb_spec (2 ^ 62) (hd + 1)), (N.leb_spec (2 ^ 62) hd); try reflexivity; lia.
  Qed.

  Lemma RingInv_native sg t sg' es : RingInv sg -> step sg (Step t) = Some (sg', es) -> g_ovf sg' = false -> RingInv sg'.
  Proof.
    intros (I1 & I2 & I4 & I3) Hs Ho. split; [|split; [|split]].
    - eapply (Inv1_step k R Hk); eauto.
    - eapply (Inv2_step k R Hk); eauto.
    - eapply (Inv4_step k R Hk); eauto.
    - eapply (A3_step k R Hk); eauto.
  Qed.

  Lemma istep_ovf sg f lb t sg' es lb' : istep cap R sg f lb t = Some (sg', es, lb') -> g_ovf sg' = false -> g_ovf sg = false.
  Proof.
    unfold istep. intros H Ho.
    assert (Hn : forall r, match step sg (Step t) with Some (sg'0, es0) => Some (sg'0, es0, false) | None => None end = Some r ->
                   g_ovf (fst (fst r)) = false -> g_ovf sg = false).
    { intros [[a b] c] Hx Hy. destruct (step sg (Step t)) as [[s1 e1]|] eqn:E; [|discriminate]. inversion Hx; subst. cbn [fst] in Hy.
      eapply (ovf_sticky cap R); eauto. }
    destruct (th sg t) as [|o|q x|q x|q x hd att|q x hd e|q x hd att e|q x hd att e enew|q x hd|q x|q x tl hd|q x tl|q x
                          |q x idx gk|q x idx gk tl|q x idx gk tl e|q x idx gk tl e|q x idx gk|q x idx gk];
      try (exact (Hn _ H Ho)); destruct q; try (exact (Hn _ H Ho)).
    all: repeat match type of H with context [if ?c then _ else _] => destruct c end.
    all: inversion H; subst; clear H; sim; rewrite ?mark_left_ovf in Ho; try exact Ho.
    apply orb_false_2 in Ho. tauto.
  Qed.

  Lemma RingInv_istep sg f lb t sg' es lb' :
    RingInv sg -> istep cap R sg f lb t = Some (sg', es, lb') -> g_ovf sg' = false -> RingInv sg'.
  Proof.
    intros HI H Ho. unfold istep in H.
    assert (Hn : forall r, match step sg (Step t) with Some (sg'0, es0) => Some (sg'0, es0, false) | None => None end = Some r ->
                   g_ovf (fst (fst r)) = false -> RingInv (fst (fst r))).
    { intros [[a b] c] Hx Hy. destruct (step sg (Step t)) as [[s1 e1]|] eqn:E; [|discriminate]. inversion Hx; subst. cbn [fst] in *.
      eapply RingInv_native; eauto. }
    destruct (th sg t) as [|o|q x|q x|q x hd att|q x hd e|q x hd att e|q x hd att e enew|q x hd|q x|q x tl hd|q x tl|q x
                          |q x idx gk|q x idx gk tl|q x idx gk tl e|q x idx gk tl e|q x idx gk|q x idx gk] eqn:E;
      try (exact (Hn _ H Ho)); destruct q; try (exact (Hn _ H Ho)).
    - (* D4 *) injection H as Hs _ _. rewrite <- Hs.
      apply (RingInv_d4 sg t x hd att e (gt0 (diff (bitw (rtail (ra sg)) f) (wadd 64 hd 2)) && (att + 1 <=? R)) HI E).
    - (* D6 *) injection H as Hs _ _. rewrite <- Hs. apply (RingInv_d6 sg f t x hd HI E).
    - (* C1 *) destruct ((rtail (ra sg) =? tl) && eqb f lb) eqn:Hc; injection H as Hs _ _; rewrite <- Hs in *.
      + apply andb_true_iff in Hc. destruct Hc as [Hc _]. apply N.eqb_eq in Hc.
        apply (RingInv_c1_ok sg t x tl hd _ HI E Hc). sim. exact Ho.
      + apply (RingInv_c1_fail sg t x tl hd HI E).
    - (* C2 *) injection H as Hs _ _. rewrite <- Hs. apply (RingInv_c2 sg t x tl lb HI E).
  Qed.

  (** * the finalized enqueue: the ticket is given up, the index is turned round *)
  Lemma RingInv_skip s t q tl p' :
    RingInv s -> etk (th s t) = Some (q, tl) -> dtk (th s t) = None -> skips p' = true -> hidx p' = hidx (th s t) -> T1 k s p' ->
    RingInv (w_th (mark_skip s q tl p') (upd (th (mark_skip s q tl p')) t p')).
  Proof.
    intros (I1 & I2 & I4 & I3) He Hd Hsk Hh Hp1. pose proof I1 as [HW HT1].
    assert (Hp' : dtk p' = None /\ etk p' = None /\ T4 k (mark_skip s q tl p') p')
      by (destruct p'; try discriminate; ssplit; try reflexivity; exact I).
    destruct Hp' as (Hdp & Hep & Hp4).
    split; [|split; [|split]].
    - eapply (Inv1_intro k R Hk s _ t _ I1); sim; [apply (RW_skip k R Hk); exact HW|apply (mono_skip k R Hk)|rewrite (th_mark_skip k R Hk); reflexivity|].
      eapply (T1_stable k R Hk); [|exact Hp1]. intros q'. sim. rewrite (rhead_skip k R Hk), (rtail_skip k R Hk). split; lia.
    - eapply (skip_step k R Hk s _ t q tl p'); [exact I1|exact I2|exact He|exact Hd|exact Hsk|exact Hh|reflexivity].
    - unfold mark_skip. rewrite Hsk. eapply (F4_pure k R Hk s _ t p'); [exact I4| | | | |sim; reflexivity|unfold mark_skip in Hp4; rewrite Hsk in Hp4; exact Hp4].
      + intros q' T. unfold NikbOwn.slot. sim. destruct (rid_eqb_spec q' q) as [->|?]; sim; reflexivity.
      + intros q' H. sim. destruct (rid_eqb_spec q' q) as [->|?]; sim; auto.
      + intros q' T i. sim. destruct (rid_eqb_spec q' q) as [->|?]; sim; [|auto]. unfold setf. destruct (T =? tl / 2); [discriminate|auto].
      + intros q' H. sim. destruct (rid_eqb_spec q' q) as [->|?]; sim; auto.
    - intros q' H. unfold mark_skip. rewrite Hsk. sim. destruct (rid_eqb_spec q' q) as [->|?]; sim; apply I3.
  Qed.

  Lemma Inv2_turn s t x idx gk :
    Inv2 s -> th s t = E1 RA x idx gk ->
    Inv2 (w_th (w_own s (setf (g_own s) idx (ORead t))) (upd (th s) t (E1 RF x idx gk))).
  Proof.
    intros (HR & HT & HO) E.
    pose proof (HT t) as (_ & _ & Tc & _). rewrite E in Tc. destruct (Tc RA idx eq_refl) as [Hown Hidx]. cbn [held] in Hown.
    set (s' := w_th (w_own s (setf (g_own s) idx (ORead t))) (upd (th s) t (E1 RF x idx gk))).
    assert (Hrg : forall q, rg s' q = rg s q) by reflexivity.
    assert (Hsl : forall q T, slot s' q T = slot s q T) by reflexivity.
    assert (Hth : forall u, u <> t -> th s' u = th s u) by (intros u Hne; unfold s'; sim; apply upd_other; exact Hne).
    assert (Htt : th s' t = E1 RF x idx gk) by (unfold s'; sim; apply upd_same).
    assert (Hoi : forall i, i <> idx -> g_own s' i = g_own s i) by (intros i Hne; unfold s'; sim; apply setf_other; exact Hne).
    assert (Hox : g_own s' idx = ORead t) by (unfold s'; sim; apply setf_same).
    split; [|split].
    - intros q. destruct (HR q) as [a1 a2 c1 c2 s2 s3 s4 s5 s6]. constructor; rewrite ?Hrg.
      + exact a1.
      + exact a2.
      + intros H u Hx. specialize (c1 H u Hx). destruct (Nat.eq_dec u t) as [->|Hne]; [rewrite E in c1; discriminate|rewrite (Hth u Hne); exact c1].
      + intros T u Hx. specialize (c2 T u Hx). destruct (Nat.eq_dec u t) as [->|Hne]; [rewrite E in c2; discriminate|rewrite (Hth u Hne); exact c2].
      + intros T HT2. rewrite Hsl. intros A B. destruct (s2 T HT2 A B) as (X & Y & Z). ssplit; [exact X| |exact Z].
        rewrite Hoi; [exact Y|]. intros Heq. rewrite Heq, Hown in Y. destruct q; discriminate.
      + intros T HT2. rewrite Hsl. apply s3. exact HT2.
      + intros i T Hi Hx. rewrite Hsl. apply s4; [exact Hi|]. destruct (N.eq_dec i idx) as [->|Hne]; [rewrite Hox in Hx; destruct q; discriminate|].
        rewrite <- (Hoi i Hne). exact Hx.
      + intros T i. rewrite Hsl. apply s5.
      + exact s6.
    - intros u. destruct (Nat.eq_dec u t) as [->|Hne].
      + rewrite Htt. unfold T2. cbn [dtk etk hidx]. ssplit; try (intros; discriminate); [|exact I].
        intros q i Hx. inversion Hx; subst. split; [exact Hox|exact Hidx].
      + rewrite (Hth u Hne). destruct (HT u) as (A & B & C & D). unfold T2. ssplit.
        * intros q hd Hx. rewrite Hrg. apply A. exact Hx.
        * intros q tl Hx. rewrite Hrg. apply B. exact Hx.
        * intros q i Hx. destruct (C q i Hx) as [C1 C2]. split; [|exact C2]. rewrite Hoi; [exact C1|].
          intros Heq. rewrite Heq, Hown in C1. destruct q; inversion C1; congruence.
        * destruct (th s u); try exact I. rewrite Hsl. exact D.
    - intros i u q Hx. destruct (N.eq_dec i idx) as [->|Hne].
      + rewrite Hox in Hx. destruct q; inversion Hx; subst. rewrite Htt. reflexivity.
      + rewrite (Hoi i Hne) in Hx. specialize (HO i u q Hx). destruct (Nat.eq_dec u t) as [->|Hnu].
        * rewrite E in HO. cbn [hidx] in HO. inversion HO; congruence.
        * rewrite (Hth u Hnu). exact HO.
  Qed.

  Lemma RingInv_turn s t x idx gk :
    RingInv s -> th s t = E1 RA x idx gk ->
    RingInv (w_th (w_own s (setf (g_own s) idx (ORead t))) (upd (th s) t (E1 RF x idx gk))).
  Proof.
    intros (I1 & I2 & I4 & I3) E. pose proof (T1_at s t _ I1 E) as Hme. cbn [T1] in Hme.
    split; [|split; [|split]].
    - eapply (Inv1_intro k R Hk s _ t _ I1); sim; [exact (RW_all s I1)|apply (mono_refl k R Hk)|reflexivity|exact Hme].
    - apply Inv2_turn; assumption.
    - eapply (F4_pure k R Hk s _ t); [exact I4| | | | |sim; reflexivity|exact I]; intros; sim; auto.
    - exact I3.
  Qed.

  Lemma fin_enq_ovf sg t x idx gk sg' es : fin_enq cap R sg t x idx gk = Some (sg', es) -> g_ovf sg' = false -> g_ovf sg = false.
  Proof.
    intros H Ho. unfold fin_enq in H. destruct (step sg (Step t)) as [[s1 e1]|] eqn:Es; [|discriminate].
    injection H as Hs _. rewrite <- Hs in *. clear Hs. sim. rewrite mark_skip_ovf in Ho. eapply (ovf_sticky cap R); eauto.
  Qed.

  Lemma RingInv_fin sg t x idx gk sg' es :
    RingInv sg -> th sg t = E1 RA x idx gk -> fin_enq cap R sg t x idx gk = Some (sg', es) -> g_ovf sg' = false -> RingInv sg'.
  Proof.
    intros HI E H Ho. unfold fin_enq in H. destruct (step sg (Step t)) as [[s1 e1]|] eqn:Es; [|discriminate].
    injection H as Hs _. rewrite <- Hs in *. clear Hs. sim.
    assert (Ho1 : g_ovf s1 = false) by (rewrite mark_skip_ovf in Ho; exact Ho).
    pose proof (RingInv_native sg t s1 e1 HI Es Ho1) as H1.
    assert (Et1 : th s1 t = E2 RA x idx gk (rtail (ra sg))).
    { unfold NikbDefs.step, step_gen in Es. rewrite E in Es. injection Es as Hs _. rewrite <- Hs. sim. apply upd_same. }
    pose proof H1 as (I1 & _). pose proof (T1_at s1 t _ I1 Et1) as Hme. cbn [T1] in Hme.
    assert (H2 := RingInv_skip s1 t RA (rtail (ra sg)) (E1 RA x idx gk) H1 ltac:(rewrite Et1; reflexivity) ltac:(rewrite Et1; reflexivity)
                                eq_refl ltac:(rewrite Et1; reflexivity) (proj1 Hme)).
    cbn [mark_skip skips] in H2. sim.
    match type of H2 with RingInv ?s2 => apply (RingInv_turn s2 t x idx gk H2) end. sim. apply upd_same.
  Qed.

  (** * every node state, in every reachable state *)
  Lemma RingInv_xs ai t a b : xs cap R ai t a b -> g_ovf b = false -> RingInv b \/ (g_ovf a = false /\ (RingInv a -> RingInv b)).
  Proof.
    intros Hx. induction Hx as [sg|a b c H1 IH1 H2 IH2|sg f lb sg' es lb' Hi|sg sg' es Hs|sg q x Hi|sg Hi|sg x idx gk sg' es Hp Hf|sg v Hai]; intros Ho.
    - right. split; [exact Ho|auto].
    - destruct (IH2 Ho) as [Hc|[Hob Hbc]]; [left; exact Hc|].
      destruct (IH1 Hob) as [Hb|[Hoa Hab]]; [left; apply Hbc; exact Hb|right; split; [exact Hoa|auto]].
    - right. split; [eapply istep_ovf; eauto|intros HI; eapply RingInv_istep; eauto].
    - right. split; [eapply (ovf_sticky cap R); eauto|intros HI; eapply RingInv_native; eauto].
    - right. split; [exact Ho|intros HI; apply RingInv_enter; assumption].
    - right. split; [exact Ho|intros HI; apply RingInv_thr; assumption].
    - right. split; [eapply fin_enq_ovf; eauto|intros HI; eapply RingInv_fin; eauto].
    - left. apply RingInv_used.
  Qed.

  (** a wrapped counter stays wrapped (nodes that are not being constructed) *)
  Lemma xs_ovf t a b : xs cap R false t a b -> g_ovf b = false -> g_ovf a = false.
  Proof.
    intros Hx. induction Hx as [sg|a b c H1 IH1 H2 IH2|sg f lb sg' es lb' Hi|sg sg' es Hs|sg q x Hi|sg Hi|sg x idx gk sg' es Hp Hf|sg v Hai]; intros Ho; auto.
    - eapply istep_ovf; eauto.
    - eapply (ovf_sticky cap R); eauto.
    - eapply fin_enq_ovf; eauto.
    - discriminate.
  Qed.

  Theorem ring_reach : forall s, reach (qinit cap) (qstep cap R) s -> forall n, g_ovf (nd s n) = false -> RingInv (nd s n).
  Proof.
    apply (inv_rule_aux _ _ _ (qinit cap) (qstep cap R) Coh (fun s => forall n, g_ovf (nd s n) = false -> RingInv (nd s n))).
    - apply Coh_reach.
    - intros n _. apply RingInv_init.
    - intros s a s' es Hc _ IH Hst n Ho.
      destruct (RingInv_xs _ _ _ _ (qstep_xs cap R true s a s' es Hc Hst n (or_introl eq_refl)) Ho) as [Hb|[Hoa Hab]]; [exact Hb|apply Hab; apply IH; exact Hoa].
  Qed.
End Ring.
