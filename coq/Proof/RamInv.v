(** Ramalhete queue model (Model/RamDefs.v): the theorems.
    E = entries_per_node (any E >= 1 with step_size * E < 2^32), R = pop_retries (any), any number of
    threads, any program, any schedule.  All statements are about reachable states in which no
    32-bit counter has wrapped ([g_ovf st = false]; the flag is set by the fetch_add that wraps and
    never cleared: a state without the flag has a wrap-free history).

    Vocabulary: a TICKET is (node n, k) with k < E; it uses entry [slot_of E (S * k)] of n, where
    S = C_step_size E is the GENERATED step ([slots_distinct]: different tickets, different entries).
    [all_tickets st]: the tickets of all nodes ever linked, in the GLOBAL TICKET ORDER (node order
    along the chain, ticket order inside a node).  Values are the token blocks (T = Tok pointer). *)
From Coq Require Import NArith List Bool Lia PeanoNat Permutation.
From XV Require Import Base.Word Conc.Lts Conc.Ev gen.RamalheteNodeGen Proof.RamalheteNode Model.RamDefs
  Proof.RamBase Proof.RamTickets Proof.RamCons.
Import ListNotations.
Local Open Scope N_scope.

Lemma NoDup_app_intro {A} (l1 l2 : list A) :
  NoDup l1 -> NoDup l2 -> (forall x, In x l1 -> ~ In x l2) -> NoDup (l1 ++ l2).
Proof.
  induction l1 as [|a l1 IH]; intros H1 H2 Hd; cbn [app]; [exact H2|].
  inversion H1 as [|a' l' Hna Hnd]; subst. constructor.
  - intros Hc. apply in_app_or in Hc. destruct Hc as [Hc|Hc]; [contradiction|]. exact (Hd a (or_introl eq_refl) Hc).
  - apply IH; [exact Hnd|exact H2|]. intros x Hx. apply Hd. right. exact Hx.
Qed.

Lemma NoDup_flat_map {A B} (f : A -> list B) (l : list A) :
  NoDup l -> (forall x, In x l -> NoDup (f x)) ->
  (forall x y b, In x l -> In y l -> In b (f x) -> In b (f y) -> x = y) ->
  NoDup (flat_map f l).
Proof.
  induction l as [|a l IH]; intros Hnd Hf Hd; cbn [flat_map]; [constructor|].
  inversion Hnd as [|a' l' Hna Hnd']; subst.
  apply NoDup_app_intro.
  - apply Hf. left. reflexivity.
  - apply IH; [exact Hnd'|intros x Hx; apply Hf; right; exact Hx|].
    intros x y b Hx Hy. apply Hd; right; assumption.
  - intros b Hb Hc. apply in_flat_map in Hc. destruct Hc as (y & Hy & Hby).
    assert (a = y) by (apply (Hd a y b); [left; reflexivity|right; exact Hy|exact Hb|exact Hby]).
    subst. contradiction.
Qed.

Lemma tickets_from_app : forall a b lo, tickets_from lo (a + b) = tickets_from lo a ++ tickets_from (lo + N.of_nat a) b.
Proof.
  induction a as [|a IH]; intros b lo.
  - cbn [Nat.add tickets_from app]. rewrite N.add_0_r. reflexivity.
  - cbn [Nat.add tickets_from app]. rewrite IH. f_equal. f_equal. f_equal. lia.
Qed.

Lemma tickets_split lo m hi : lo <= m -> m <= hi -> tickets lo hi = tickets lo m ++ tickets m hi.
Proof.
  intros H1 H2. unfold tickets. replace (N.to_nat (hi - lo)) with (N.to_nat (m - lo) + N.to_nat (hi - m))%nat by lia.
  rewrite tickets_from_app. f_equal. f_equal. lia.
Qed.

Lemma in_tks n m n' k : In (n', k) (tks n m) <-> n' = n /\ k < m.
Proof.
  unfold tks. rewrite in_map_iff. split.
  - intros (x & Hx & Hin). inversion Hx; subst. apply tickets_In in Hin. split; [reflexivity|lia].
  - intros [-> Hk]. exists k. split; [reflexivity|]. apply tickets_In. lia.
Qed.

Lemma NoDup_tks n m : NoDup (tks n m).
Proof.
  unfold tks. apply NoDup_map_inj_on; [|apply tickets_NoDup]. intros x y _ _ H. inversion H. reflexivity.
Qed.

Lemma tks_prefix n m e : m <= e -> tks n e = tks n m ++ map (pair n) (tickets m e).
Proof. intros H. unfold tks. rewrite (tickets_split 0 m e) by lia. apply map_app. Qed.

Lemma last_in (l : list N) d : l <> [] -> In (last l d) l.
Proof.
  induction l as [|a l IH]; intros H; [congruence|]. destruct l as [|b l]; [left; reflexivity|].
  right. apply IH. discriminate.
Qed.

(** [nreach nx a b]: node b is reached from node a along non-null next pointers *)
Inductive nreach (nx : N -> N) : N -> N -> Prop :=
| nr_here a : nreach nx a a
| nr_next a b : nx a <> 0 -> nreach nx (nx a) b -> nreach nx a b.

Section RamInv.
  Variables E R : N.
  Hypothesis HE : 1 <= E.
  Hypothesis HM : C_step_size E * E < 2 ^ 32.
  Notation S := (SS E).
  Notation tk := (tick_of E).
  Notation pa := (pa E).
  Notation pd := (pd E).
  Notation reachable := (reach init (step E R)).
  Notation all_tickets := (all_tickets E).
  Notation tks := tks.
  Local Notation IA := (InvA_reach E R HE HM).
  Local Notation IB := (InvB_reach E R HE HM).
  Local Notation IC := (InvC_reach E R HE HM).
  Local Notation ID := (InvD_reach E R HE HM).

  Ltac hb := repeat match goal with
    | H : (_ =? _) = true |- _ => apply N.eqb_eq in H
    | H : (_ =? _) = false |- _ => apply N.eqb_neq in H
    | H : (_ <? _) = true |- _ => apply N.ltb_lt in H
    | H : (_ <? _) = false |- _ => apply N.ltb_ge in H
    end.

  (** * The wrap flag
      [g_ovf] changes only when a fetch_add on a 32-bit counter wraps around, and then for good *)
  Theorem ram_ovf_meaning s a s' es : step E R s a = Some (s', es) ->
    g_ovf s' = g_ovf s \/
    (g_ovf s = false /\ g_ovf s' = true /\ exists t n,
       a = Step t /\ ((exists b, th s t = P2 b n /\ 2 ^ 32 <= pushi s n + S) \/ (th s t = D5 n /\ 2 ^ 32 <= popi s n + S))).
  Proof using HE HM.
    intros H. step_cases H t; prj; try (left; reflexivity).
    all: match goal with |- context [wadd 32 ?x _] =>
      destruct (N.lt_ge_cases (x + S) (2 ^ 32)) as [Hlt|Hge];
      [ left; rewrite (wadd_small 32 x S Hlt), N.eqb_refl; destruct (g_ovf s); reflexivity
      | destruct (g_ovf s) eqn:Eo; [left; reflexivity|];
        right; split; [reflexivity|]; split;
        [ cbn [orb]; apply negb_true_iff; apply N.eqb_neq; pose proof (wadd_lt 32 x S); lia
        | exists t; eexists; split; [reflexivity|];
          first [left; eexists; split; [eassumption|exact Hge] | right; split; [eassumption|exact Hge]] ] ]
    end.
  Qed.

  (** * Structure *)

  (** the node chain: every node ever linked, from the initial one to the last; the retired nodes are
      a prefix, head follows them, tail is the last or the second-last node; counters are multiples
      of the step; a node with a successor has handed out more than E push tickets, a retired node
      more than E pop tickets, a node behind head none. *)
  Theorem ram_chain st : reachable st -> g_ovf st = false ->
    MsqInv.lpath (nnext st) (g_nodes st) /\ NoDup (g_nodes st) /\
    (forall n, In n (g_nodes st) -> n <> 0 /\ n < nalloc st) /\
    (exists rest, g_nodes st = g_retired st ++ head st :: rest /\ forall n, In n rest -> popi st n = 0) /\
    (exists l0, g_nodes st = l0 ++ [tail st] \/ exists x, g_nodes st = l0 ++ [tail st; x]) /\
    nnext st (last (g_nodes st) 0) = 0 /\
    (forall n, In n (g_nodes st) -> pushi st n = S * pa st n /\ popi st n = S * pd st n) /\
    (forall n, In n (g_nodes st) -> nnext st n <> 0 -> E + 1 <= pa st n) /\
    (forall n, In n (g_retired st) -> E + 1 <= pd st n).
  Proof using HE HM.
    intros Hr Ho. destruct (IA st Hr Ho) as [Hpath Hnd Hlt Hhead Htail Hal Hfull Hret Hthr Hpriv].
    repeat split; try assumption.
    - eapply MsqInv.lpath_nz; eauto.
    - apply Hlt. assumption.
    - apply MsqInv.lpath_last_null. exact Hpath.
    - apply (Hal n H).
    - apply (Hal n H).
  Qed.

  (** * Monotonicity (step level) *)

  (** for every node that is already linked: the ticket counters only grow, a non-null next pointer is
      final, the node stays in the chain; the chain only grows at the end, head and the retired list
      only advance *)
  Theorem ram_step_monotone st a st' es : reachable st -> step E R st a = Some (st', es) -> g_ovf st' = false ->
    (exists more, g_nodes st' = g_nodes st ++ more) /\
    (exists more, g_retired st' = g_retired st ++ more) /\
    (forall n, In n (g_nodes st) ->
       popi st n <= popi st' n /\ pushi st n <= pushi st' n /\ (nnext st n <> 0 -> nnext st' n = nnext st n)).
  Proof using HE HM.
    intros Hr H Hov. pose proof (ovf_sticky _ _ _ _ _ _ H Hov) as Hov0. pose proof (IA st Hr Hov0) as HA.
    step_cases H t.
    all: pose proof (a_thr _ _ HA t) as Hta;
      match goal with Hpc0 : th _ _ = _ |- _ => rename Hpc0 into Hpc; rewrite Hpc in Hta; cbn [TA] in Hta; unfold fresh_node in Hta end.
    all: hb.
    all: prj_in Hov; try (apply orb_false_ovf in Hov; destruct Hov as [Hov Hw]; rewrite Hw in * ).
    all: prj.
    all: (split; [first [exists []; rewrite app_nil_r; reflexivity | eexists; reflexivity]|]).
    all: (split; [first [exists []; rewrite app_nil_r; reflexivity | eexists; reflexivity]|]).
    all: intros n0 Hn0; pose proof (a_lt _ _ HA n0 Hn0) as Hl0.
    all: try (repeat split; first [apply N.le_refl | (intros; reflexivity)]).
    all: unfold setf; repeat match goal with |- context [?y =? ?x] => destruct (N.eqb_spec y x); subst end.
    all: repeat split; try apply N.le_refl; try lia; try (intros; reflexivity); try tauto.
    all: intros Hz; exfalso; tauto.
  Qed.

  (** * Tickets *)

  (** a ticket belongs to at most one pusher and to at most one popper; the holder's ticket is below E
      and below the counter it was taken from *)
  Theorem ram_ticket_owners st : reachable st -> g_ovf st = false ->
    (forall t1 t2 b1 b2 n idx, th st t1 = P8 b1 n idx -> th st t2 = P8 b2 n idx -> t1 = t2) /\
    (forall t1 t2 n idx, dtk2 (th st t1) = Some (n, idx) -> dtk2 (th st t2) = Some (n, idx) -> t1 = t2) /\
    (forall t b n idx, th st t = P8 b n idx -> In n (g_nodes st) /\ idx = S * tk idx /\ tk idx < E /\ tk idx < pa st n) /\
    (forall t n idx, dtk2 (th st t) = Some (n, idx) -> In n (g_nodes st) /\ idx = S * tk idx /\ tk idx < E /\ tk idx < pd st n).
  Proof using HE HM.
    intros Hr Ho. pose proof (IA st Hr Ho) as HA. pose proof (IB st Hr Ho) as HB.
    split; [|split; [|split]].
    - intros t1 t2 b1 b2 n idx H1 H2. apply (b_up _ _ HB t1 t2 (n, idx)); [rewrite H1|rewrite H2]; reflexivity.
    - intros t1 t2 n idx. apply (b_ud _ _ HB).
    - intros t b n idx H. pose proof (a_thr _ _ HA t) as Ha. pose proof (b_thr _ _ HB t) as Hb. rewrite H in Ha, Hb.
      cbn [TA TB] in Ha, Hb. tauto.
    - intros t n idx H. pose proof (a_thr _ _ HA t) as Ha. pose proof (b_thr _ _ HB t) as Hb.
      destruct (th st t); cbn [dtk2] in H; try discriminate H; inversion H; subst; cbn [TA TB] in Ha, Hb.
      + tauto.
      + destruct Hb as (H1 & H2 & H3). pose proof (b_tk _ _ HB n _ Ha H2) as Hk. unfold RamTickets.TK in Hk. rewrite H3 in Hk. tauto.
      + tauto.
  Qed.

  (** the entry of a ticket and its fate: FNone - null (and a claimed ticket has its claimant at work);
      FFilled b - holds b; FPoisoned - taken; FConsumed b - b or taken *)
  Theorem ram_ticket_state st n k : reachable st -> g_ovf st = false -> In n (g_nodes st) -> k < E ->
    match g_fate st n k with
    | FNone => ent st n (slot_of E (S * k)) = CNull /\ (k < pa st n -> powner E st n k) /\ (k < pd st n -> downer E st n k)
    | FFilled b => ent st n (slot_of E (S * k)) = CVal b /\ k < pa st n /\ (k < pd st n -> downer E st n k)
    | FPoisoned => ent st n (slot_of E (S * k)) = CTaken /\ k < pd st n
    | FConsumed b => (ent st n (slot_of E (S * k)) = CVal b \/ ent st n (slot_of E (S * k)) = CTaken) /\ k < pa st n /\ k < pd st n
    end.
  Proof using HE HM. intros Hr Ho Hn Hk. exact (b_tk _ _ (IB st Hr Ho) n k Hn Hk). Qed.

  (** an entry of a linked node goes null -> value -> taken or null -> taken, never back *)
  Theorem ram_entry_lifecycle st a st' es : reachable st -> step E R st a = Some (st', es) -> g_ovf st' = false ->
    forall n i, In n (g_nodes st) ->
      ent st' n i = ent st n i \/
      (ent st n i = CNull /\ exists b, ent st' n i = CVal b) \/
      (ent st n i = CNull /\ ent st' n i = CTaken) \/
      (exists b, ent st n i = CVal b /\ ent st' n i = CTaken).
  Proof using HE HM.
    intros Hr H Hov. pose proof (ovf_sticky _ _ _ _ _ _ H Hov) as Hov0. pose proof (IA st Hr Hov0) as HA.
    step_cases H t.
    all: pose proof (a_thr _ _ HA t) as Hta;
      match goal with Hpc0 : th _ _ = _ |- _ => rename Hpc0 into Hpc; rewrite Hpc in Hta; cbn [TA] in Hta; unfold fresh_node in Hta end.
    all: intros n0 i0 Hn0; prj; try (left; reflexivity).
    all: unfold setf2, setf; repeat match goal with |- context [?y =? ?x] => destruct (N.eqb_spec y x); subst end; try (left; reflexivity); try tauto.
    all: match goal with Hc : ent _ _ _ = _ |- _ => rewrite Hc end.
    all: first [ right; left; split; [reflexivity|eexists; reflexivity]
               | right; right; left; split; reflexivity
               | right; right; right; eexists; split; reflexivity
               | left; reflexivity ].
  Qed.

  (** the fate of a ticket goes none -> filled b -> consumed b or none -> poisoned, never back *)
  Theorem ram_fate_lifecycle st a st' es : reachable st -> step E R st a = Some (st', es) -> g_ovf st' = false ->
    forall n k, In n (g_nodes st) -> k < E ->
      g_fate st' n k = g_fate st n k \/
      (g_fate st n k = FNone /\ exists b, g_fate st' n k = FFilled b) \/
      (g_fate st n k = FNone /\ g_fate st' n k = FPoisoned) \/
      (exists b, g_fate st n k = FFilled b /\ g_fate st' n k = FConsumed b).
  Proof using HE HM.
    intros Hr H Hov. pose proof (ovf_sticky _ _ _ _ _ _ H Hov) as Hov0. pose proof (IA st Hr Hov0) as HA. pose proof (IB st Hr Hov0) as HB.
    step_cases H t.
    all: pose proof (a_thr _ _ HA t) as Hta; pose proof (b_thr _ _ HB t) as Ht;
      match goal with Hpc0 : th _ _ = _ |- _ => rename Hpc0 into Hpc; rewrite Hpc in Hta, Ht; cbn [TA TB] in Hta, Ht; unfold fresh_node in Hta end.
    all: intros n0 k0 Hn0 Hk0; pose proof (a_lt _ _ HA n0 Hn0) as Hl0; prj; try (left; reflexivity).
    all: unfold setf2, setf; repeat match goal with |- context [?y =? ?x] => destruct (N.eqb_spec y x); subst end; try (left; reflexivity); try lia; try tauto.
    all: try (destruct Ht as (Hal1 & HkE & Ht')).
    all: pose proof (b_tk _ _ HB _ _ Hn0 HkE) as Ho; unfold RamTickets.TK in Ho; rewrite <- Hal1 in Ho.
    all: try (destruct Ht' as (Hkp & [Hfa|[b' Hfa]]); rewrite Hfa in Ho |- *; destruct Ho as [Ho _]; try congruence).
    all: try (right; right; left; split; reflexivity).
    all: try (right; right; right; exists b'; split; [reflexivity|f_equal; congruence]).
    all: rewrite (ent_null_fate E HE HM _ _ _ (b_tk _ _ HB _ _ Hn0 HkE)) by (rewrite <- Hal1; assumption).
    all: right; left; split; [reflexivity|eexists; reflexivity].
  Qed.

  (** * Conservation (C04 / C07) *)

  (** the values under a ticket, by fate *)
  Definition fl (st : state) (x : N * N) : list N := match g_fate st (fst x) (snd x) with FFilled b => [b] | _ => [] end.
  Definition cv (st : state) (x : N * N) : list N := match g_fate st (fst x) (snd x) with FConsumed b => [b] | _ => [] end.
  Definition fv (st : state) (x : N * N) : list N := match g_fate st (fst x) (snd x) with FFilled b | FConsumed b => [b] | _ => [] end.
  (** in the global ticket order: the values in the queue (filled, not consumed), the consumed values,
      all values that were stored *)
  Definition contents (st : state) : list N := flat_map (fl st) (all_tickets st).
  Definition consumed_seq (st : state) : list N := flat_map (cv st) (all_tickets st).
  Definition pushed_seq (st : state) : list N := flat_map (fv st) (all_tickets st).

  Lemma in_all_tickets st n k : In (n, k) (all_tickets st) <-> In n (g_nodes st) /\ k < E.
  Proof using.
    unfold RamCons.all_tickets. rewrite in_flat_map. split.
    - intros (m & Hm & Hin). apply in_tks in Hin. destruct Hin as [-> Hk]. auto.
    - intros [Hn Hk]. exists n. split; [exact Hn|]. apply in_tks. auto.
  Qed.

  Lemma NoDup_all_tickets st : NoDup (g_nodes st) -> NoDup (all_tickets st).
  Proof using.
    intros Hnd. apply NoDup_flat_map; [exact Hnd|intros; apply NoDup_tks|].
    intros x y [n k] _ _ H1 H2. apply in_tks in H1, H2. destruct H1 as [-> _]. destruct H2 as [-> _]. reflexivity.
  Qed.

  Lemma in_contents st b : In b (contents st) <-> exists n k, In n (g_nodes st) /\ k < E /\ g_fate st n k = FFilled b.
  Proof using.
    unfold contents. rewrite in_flat_map. split.
    - intros ([n k] & Hx & Hb). apply in_all_tickets in Hx. destruct Hx as [Hn Hk]. exists n, k. split; [exact Hn|]. split; [exact Hk|].
      unfold fl in Hb. cbn [fst snd] in Hb. destruct (g_fate st n k); try (destruct Hb; fail). destruct Hb as [<-|[]]. reflexivity.
    - intros (n & k & Hn & Hk & Hf). exists (n, k). split; [apply in_all_tickets; auto|]. unfold fl. cbn [fst snd]. rewrite Hf. left. reflexivity.
  Qed.

  Lemma in_consumed_seq st b : In b (consumed_seq st) <-> exists n k, In n (g_nodes st) /\ k < E /\ g_fate st n k = FConsumed b.
  Proof using.
    unfold consumed_seq. rewrite in_flat_map. split.
    - intros ([n k] & Hx & Hb). apply in_all_tickets in Hx. destruct Hx as [Hn Hk]. exists n, k. split; [exact Hn|]. split; [exact Hk|].
      unfold cv in Hb. cbn [fst snd] in Hb. destruct (g_fate st n k); try (destruct Hb; fail). destruct Hb as [<-|[]]. reflexivity.
    - intros (n & k & Hn & Hk & Hf). exists (n, k). split; [apply in_all_tickets; auto|]. unfold cv. cbn [fst snd]. rewrite Hf. left. reflexivity.
  Qed.

  Lemma in_pushed_seq st b : In b (pushed_seq st) <-> exists n k, In n (g_nodes st) /\ k < E /\ fval (g_fate st n k) = Some b.
  Proof using.
    unfold pushed_seq. rewrite in_flat_map. split.
    - intros ([n k] & Hx & Hb). apply in_all_tickets in Hx. destruct Hx as [Hn Hk]. exists n, k. split; [exact Hn|]. split; [exact Hk|].
      unfold fv in Hb. cbn [fst snd] in Hb. destruct (g_fate st n k); try (destruct Hb; fail); destruct Hb as [<-|[]]; reflexivity.
    - intros (n & k & Hn & Hk & Hf). exists (n, k). split; [apply in_all_tickets; auto|]. unfold fv. cbn [fst snd].
      destruct (g_fate st n k); cbn [fval] in Hf; try discriminate Hf; inversion Hf; left; reflexivity.
  Qed.

  Lemma NoDup_by_fate (sel : state -> N * N -> list N) st :
    NoDup (g_nodes st) ->
    (forall x, exists o, sel st x = match o with Some b => [b] | None => [] end /\ (forall b, o = Some b -> fval (g_fate st (fst x) (snd x)) = Some b)) ->
    (forall n k n' k' b, In n (g_nodes st) -> k < E -> In n' (g_nodes st) -> k' < E ->
       fval (g_fate st n k) = Some b -> fval (g_fate st n' k') = Some b -> n = n' /\ k = k') ->
    NoDup (flat_map (sel st) (all_tickets st)).
  Proof using.
    intros Hnd Hsel Hinj. apply NoDup_flat_map; [apply NoDup_all_tickets; exact Hnd| |].
    - intros x _. destruct (Hsel x) as (o & -> & _). destruct o; [constructor; [intros []|constructor]|constructor].
    - intros [n k] [n' k'] b Hx Hy H1 H2. apply in_all_tickets in Hx, Hy.
      destruct (Hsel (n, k)) as (o & E1 & F1). destruct (Hsel (n', k')) as (o' & E2 & F2). rewrite E1 in H1. rewrite E2 in H2.
      destruct o as [b1|]; [|destruct H1]. destruct o' as [b2|]; [|destruct H2].
      destruct H1 as [e1|[]]. destruct H2 as [e2|[]]. subst b1 b2.
      destruct (Hinj n k n' k' b) as [-> ->]; [tauto|tauto|tauto|tauto|apply (F1 b eq_refl)|apply (F2 b eq_refl)|reflexivity].
  Qed.

  (** MAIN CONSERVATION RESULT: nothing is popped twice, nothing is popped that was not pushed, and the
      pushed values are exactly the popped values together with the values still stored under a
      filled ticket - in every reachable state, not only at quiescence *)
  Theorem ram_conservation st : reachable st -> g_ovf st = false ->
    NoDup (g_pushed st) /\ NoDup (g_popped st) /\ incl (g_popped st) (g_pushed st) /\
    NoDup (contents st) /\ (forall b, In b (g_popped st) -> ~ In b (contents st)) /\
    Permutation (g_pushed st) (g_popped st ++ contents st).
  Proof using HE HM.
    intros Hr Ho. pose proof (IA st Hr Ho) as HA. destruct (IC st Hr Ho) as [Hnd Hlt Hhold Hhu (Hf1 & Hf2 & Hinj) Hcp Hpnd].
    assert (Hincl : incl (g_popped st) (g_pushed st)).
    { intros b Hb. apply (Hcp b) in Hb. destruct Hb as (n & k & Hn & Hk & Hf). apply (Hf1 n k b Hn Hk). rewrite Hf. reflexivity. }
    assert (Hndc : NoDup (contents st)).
    { apply (NoDup_by_fate fl); [apply (a_nodup _ _ HA)| |exact Hinj].
      intros [n k]. unfold fl. cbn [fst snd]. destruct (g_fate st n k) as [|b| |b].
      - exists None. split; [reflexivity|]. intros b0 Hc. discriminate Hc.
      - exists (Some b). split; [reflexivity|]. intros b0 Hc. inversion Hc. reflexivity.
      - exists None. split; [reflexivity|]. intros b0 Hc. discriminate Hc.
      - exists None. split; [reflexivity|]. intros b0 Hc. discriminate Hc. }
    assert (Hdis : forall b, In b (g_popped st) -> ~ In b (contents st)).
    { intros b Hb Hc. apply (Hcp b) in Hb. apply in_contents in Hc. destruct Hb as (n & k & Hn & Hk & Hf). destruct Hc as (n' & k' & Hn' & Hk' & Hf').
      destruct (Hinj n k n' k' b Hn Hk Hn' Hk') as [-> ->]; [rewrite Hf; reflexivity|rewrite Hf'; reflexivity|]. congruence. }
    repeat split; try assumption.
    apply NoDup_Permutation; [exact Hnd|apply NoDup_app_intro; assumption|].
    intros b. rewrite in_app_iff. split.
    - intros Hb. destruct (Hf2 b Hb) as (n & k & Hn & Hk & Hf). destruct (g_fate st n k) as [|b'| |b'] eqn:Ef; cbn [fval] in Hf; try discriminate Hf; inversion Hf; subst.
      + right. apply in_contents. exists n, k. auto.
      + left. apply (Hcp b). exists n, k. auto.
    - intros [Hb|Hb]; [apply Hincl; exact Hb|]. apply in_contents in Hb. destruct Hb as (n & k & Hn & Hk & Hf).
      apply (Hf1 n k b Hn Hk). rewrite Hf. reflexivity.
  Qed.

  (** * Order (FIFO) *)

  Lemma in_ptks st n k : In (n, k) (ptks E st) <-> In n (g_nodes st) /\ k < N.min (pa st n) E.
  Proof using.
    unfold ptks. rewrite in_flat_map. split.
    - intros (m & Hm & Hin). apply in_tks in Hin. destruct Hin as [-> Hk]. auto.
    - intros [Hn Hk]. exists n. split; [exact Hn|]. apply in_tks. auto.
  Qed.

  Lemma in_dtks st n k : In (n, k) (dtks E st) <-> In n (g_nodes st) /\ k < N.min (pd st n) E.
  Proof using.
    unfold dtks. rewrite in_flat_map. split.
    - intros (m & Hm & Hin). apply in_tks in Hin. destruct Hin as [-> Hk]. auto.
    - intros [Hn Hk]. exists n. split; [exact Hn|]. apply in_tks. auto.
  Qed.

  (** a ticket has been handed to a pusher / a popper iff it is below the node's push / pop counter *)
  Theorem ram_claimed st n k : reachable st -> g_ovf st = false -> In n (g_nodes st) -> k < E ->
    (In (n, k) (g_ptk st) <-> k < pa st n) /\ (In (n, k) (g_dtk st) <-> k < pd st n).
  Proof using HE HM.
    intros Hr Ho Hn Hk. destruct (ID st Hr Ho) as [-> ->]. rewrite in_ptks, in_dtks. split; split; intros H; try (split; [exact Hn|]); lia.
  Qed.

  (** TICKETS ARE HANDED OUT IN THE GLOBAL TICKET ORDER WITHOUT GAPS, to pushers and to poppers alike:
      the lists of handed-out tickets (in the order of the fetch_adds) are prefixes of [all_tickets] *)
  Theorem ram_ticket_order st : reachable st -> g_ovf st = false ->
    (exists r, all_tickets st = g_ptk st ++ r) /\ (exists r, all_tickets st = g_dtk st ++ r).
  Proof using HE HM.
    intros Hr Ho. pose proof (IA st Hr Ho) as HA. destruct (ID st Hr Ho) as [-> ->]. split.
    - (* pushers: all nodes but the last are full *)
      destruct (MsqInv.lpath_last _ _ (a_path _ _ HA) (last (g_nodes st) 0)) as [l0 El].
      + apply last_in. destruct (nodes_nonempty E HE HM st (a_path _ _ HA)) as [x Hx]. intros Hc. rewrite Hc in Hx. destruct Hx.
      + apply MsqInv.lpath_last_null. exact (a_path _ _ HA).
      + set (z := last (g_nodes st) 0) in *.
        exists (map (pair z) (tickets (N.min (pa st z) E) E)).
        unfold RamCons.all_tickets, ptks. rewrite El, !flat_map_app. cbn [flat_map]. rewrite !app_nil_r, <- app_assoc. f_equal.
        * apply flat_map_ext_in. intros n Hn. f_equal.
          assert (Hnz : nnext st n <> 0).
          { pose proof (a_path _ _ HA) as Hp. rewrite El in Hp. apply (MsqInv.lpath_prefix_link _ _ _ Hp); [discriminate|exact Hn]. }
          assert (Hin : In n (g_nodes st)) by (rewrite El; apply in_or_app; left; exact Hn).
          pose proof (a_full _ _ HA n Hin Hnz). lia.
        * apply tks_prefix. lia.
    - (* poppers: retired nodes are drained, nodes behind head untouched *)
      destruct (a_head _ _ HA) as (rest & He & Hrest).
      exists (map (pair (head st)) (tickets (N.min (pd st (head st)) E) E) ++ flat_map (fun n => tks n E) rest).
      unfold RamCons.all_tickets, dtks. rewrite He, !flat_map_app. cbn [flat_map].
      rewrite (flat_map_nil (fun n => tks n (N.min (pd st n) E)) rest).
      + rewrite app_nil_r, <- !app_assoc. f_equal.
        * apply flat_map_ext_in. intros n Hn. f_equal. pose proof (a_ret _ _ HA n Hn). lia.
        * rewrite app_assoc. f_equal. apply tks_prefix. lia.
      + intros n Hn. unfold RamBase.pd. rewrite (Hrest n Hn), (tick_0 E HE HM). rewrite N.min_l by lia. reflexivity.
  Qed.

  (** a step hands out at most one push ticket and at most one pop ticket, to the stepping thread, and
      appends it to the list: by [ram_ticket_order] (in the new state) it is the first ticket of the
      global order that had not been handed out.  Hence a ticket obtained later is later in the global
      order: operations that do not overlap are ordered by their tickets as in real time. *)
  Theorem ram_issue_step s a s' es : step E R s a = Some (s', es) ->
    (g_ptk s' = g_ptk s \/
     exists t x, a = Step t /\ g_ptk s' = g_ptk s ++ [x] /\
       ((exists b idx, th s' t = P8 b (fst x) idx /\ snd x = tk idx) \/ (exists tl, th s' t = P7 tl (fst x) /\ snd x = 0))) /\
    (g_dtk s' = g_dtk s \/
     exists t x, a = Step t /\ g_dtk s' = g_dtk s ++ [x] /\ exists idx, th s' t = D9 (fst x) idx 0 /\ snd x = tk idx).
  Proof using.
    intros H. step_cases H t; prj; split; try (left; reflexivity); right; eexists t, (_, _); (split; [reflexivity|]); (split; [reflexivity|]);
      rewrite upd_same; cbn [fst snd]; eauto.
  Qed.

  (** FIFO, general form.  The tickets claimed by poppers are a prefix [g_dtk st] of the global ticket
      order; behind the prefix nothing has left the queue (every ticket is untouched or filled); inside
      the prefix every ticket is poisoned, consumed, or its popper is still at work on it (and will
      return its value if it is or becomes filled before the exchange).  Together with
      [ram_ticket_order] for the pushers: the i-th value handed over in ticket order is the i-th value
      taken out in ticket order, poisoned tickets are skipped by both sides. *)
  Theorem ram_fifo st : reachable st -> g_ovf st = false ->
    exists r, all_tickets st = g_dtk st ++ r /\
      (forall n k, In (n, k) r -> g_fate st n k = FNone \/ exists b, g_fate st n k = FFilled b) /\
      (forall n k, In (n, k) (g_dtk st) ->
         g_fate st n k = FPoisoned \/ (exists b, g_fate st n k = FConsumed b) \/ downer E st n k).
  Proof using HE HM.
    intros Hr Ho. pose proof (IA st Hr Ho) as HA. pose proof (IB st Hr Ho) as HB.
    destruct (ram_ticket_order st Hr Ho) as [_ [r Er]]. exists r. split; [exact Er|].
    pose proof (NoDup_all_tickets st (a_nodup _ _ HA)) as Hnd. rewrite Er in Hnd.
    split.
    - intros n k Hin. assert (Hall : In (n, k) (all_tickets st)) by (rewrite Er; apply in_or_app; right; exact Hin).
      apply in_all_tickets in Hall. destruct Hall as [Hn Hk].
      assert (Hnc : ~ k < pd st n).
      { intros Hc. apply (ram_claimed st n k Hr Ho Hn Hk) in Hc. exact (NoDup_app_notin _ _ _ _ Hnd Hc Hin). }
      pose proof (b_tk _ _ HB n k Hn Hk) as Ht. unfold RamTickets.TK in Ht.
      destruct (g_fate st n k) as [|b| |b]; [left; reflexivity|right; eexists; reflexivity| |]; exfalso; apply Hnc; tauto.
    - intros n k Hin. assert (Hall : In (n, k) (all_tickets st)) by (rewrite Er; apply in_or_app; left; exact Hin).
      apply in_all_tickets in Hall. destruct Hall as [Hn Hk].
      apply (ram_claimed st n k Hr Ho Hn Hk) in Hin.
      pose proof (b_tk _ _ HB n k Hn Hk) as Ht. unfold RamTickets.TK in Ht.
      destruct (g_fate st n k) as [|b| |b]; [right; right; tauto|right; right; tauto|left; reflexivity|right; left; eexists; reflexivity].
  Qed.

  (** the two ghost lists are the stored / consumed values of the tickets, up to the order: the order
      in which the CASes and exchanges happen is NOT the ticket order (see [ram_cas_order_refuted]) *)
  Theorem ram_seq_perm st : reachable st -> g_ovf st = false ->
    Permutation (g_pushed st) (pushed_seq st) /\ Permutation (g_popped st) (consumed_seq st).
  Proof using HE HM.
    intros Hr Ho. pose proof (IA st Hr Ho) as HA. destruct (IC st Hr Ho) as [Hnd Hlt Hhold Hhu (Hf1 & Hf2 & Hinj) Hcp Hpnd].
    split.
    - apply NoDup_Permutation; [exact Hnd| |].
      + apply (NoDup_by_fate fv); [apply (a_nodup _ _ HA)| |exact Hinj].
        intros [n k]. unfold fv. cbn [fst snd]. destruct (g_fate st n k) as [|b| |b].
        * exists None. split; [reflexivity|]. intros b0 Hc. discriminate Hc.
        * exists (Some b). split; [reflexivity|]. intros b0 Hc. inversion Hc. reflexivity.
        * exists None. split; [reflexivity|]. intros b0 Hc. discriminate Hc.
        * exists (Some b). split; [reflexivity|]. intros b0 Hc. inversion Hc. reflexivity.
      + intros b. rewrite in_pushed_seq. split; [apply Hf2|]. intros (n & k & Hn & Hk & Hf). eapply Hf1; eauto.
    - apply NoDup_Permutation; [exact Hpnd| |].
      + apply (NoDup_by_fate cv); [apply (a_nodup _ _ HA)| |exact Hinj].
        intros [n k]. unfold cv. cbn [fst snd]. destruct (g_fate st n k) as [|b| |b].
        * exists None. split; [reflexivity|]. intros b0 Hc. discriminate Hc.
        * exists None. split; [reflexivity|]. intros b0 Hc. discriminate Hc.
        * exists None. split; [reflexivity|]. intros b0 Hc. discriminate Hc.
        * exists (Some b). split; [reflexivity|]. intros b0 Hc. inversion Hc. reflexivity.
      + intros b. rewrite in_consumed_seq. apply Hcp.
  Qed.

  (** * Quiescence *)
  Definition quiescent (st : state) : Prop := forall t, th st t = Idle.

  Lemma quiescent_no_owner st n k : quiescent st -> ~ powner E st n k /\ ~ downer E st n k.
  Proof using.
    intros Hq. split; intros [t Ht]; unfold pown, down in Ht; rewrite (Hq t) in Ht; discriminate Ht.
  Qed.

  (** at quiescence the fate of a ticket is determined by the two counters of its node *)
  Theorem ram_quiescent_tickets st n k : reachable st -> g_ovf st = false -> quiescent st ->
    In n (g_nodes st) -> k < E ->
    (k < pd st n -> g_fate st n k = FPoisoned \/ exists b, g_fate st n k = FConsumed b) /\
    (pd st n <= k -> k < pa st n -> exists b, g_fate st n k = FFilled b /\ ent st n (slot_of E (S * k)) = CVal b) /\
    (pd st n <= k -> pa st n <= k -> g_fate st n k = FNone /\ ent st n (slot_of E (S * k)) = CNull).
  Proof using HE HM.
    intros Hr Ho Hq Hn Hk. pose proof (b_tk _ _ (IB st Hr Ho) n k Hn Hk) as Ht. unfold RamTickets.TK in Ht.
    destruct (quiescent_no_owner st n k Hq) as [Hnp Hnd].
    destruct (g_fate st n k) as [|b| |b].
    - destruct Ht as (H1 & H2 & H3). split; [intros Hc; exfalso; tauto|]. split; [intros _ Hc; exfalso; tauto|]. intros _ _. split; [reflexivity|exact H1].
    - destruct Ht as (H1 & H2 & H3). split; [intros Hc; exfalso; tauto|]. split; [intros _ _; exists b; split; [reflexivity|exact H1]|]. intros _ Hc. lia.
    - destruct Ht as (H1 & H2). split; [intros _; left; reflexivity|]. split; intros Hc; lia.
    - destruct Ht as (H1 & H2 & H3). split; [intros _; right; exists b; reflexivity|]. split; intros Hc; lia.
  Qed.

  (** FIFO AT QUIESCENCE: in the global ticket order, the stored values are the consumed values followed
      by the values still in the queue *)
  Theorem ram_fifo_quiescent st : reachable st -> g_ovf st = false -> quiescent st ->
    pushed_seq st = consumed_seq st ++ contents st /\
    Permutation (g_pushed st) (pushed_seq st) /\ Permutation (g_popped st) (consumed_seq st).
  Proof using HE HM.
    intros Hr Ho Hq. split; [|apply ram_seq_perm; assumption].
    destruct (ram_fifo st Hr Ho) as (r & Er & Hrest & Hcl).
    unfold pushed_seq, consumed_seq, contents. rewrite Er, !flat_map_app.
    assert (H1 : flat_map (fv st) (g_dtk st) = flat_map (cv st) (g_dtk st)).
    { apply flat_map_ext_in. intros [n k] Hx. unfold fv, cv. cbn [fst snd].
      destruct (Hcl n k Hx) as [Hf|[[b Hf]|Hd]]; try (rewrite Hf; reflexivity). exfalso. exact (proj2 (quiescent_no_owner st n k Hq) Hd). }
    assert (H2 : flat_map (fl st) (g_dtk st) = []).
    { apply flat_map_nil. intros [n k] Hx. unfold fl. cbn [fst snd].
      destruct (Hcl n k Hx) as [Hf|[[b Hf]|Hd]]; try (rewrite Hf; reflexivity). exfalso. exact (proj2 (quiescent_no_owner st n k Hq) Hd). }
    assert (H3 : flat_map (fv st) r = flat_map (fl st) r).
    { apply flat_map_ext_in. intros [n k] Hx. unfold fv, fl. cbn [fst snd]. destruct (Hrest n k Hx) as [Hf|[b Hf]]; rewrite Hf; reflexivity. }
    assert (H4 : flat_map (cv st) r = []).
    { apply flat_map_nil. intros [n k] Hx. unfold cv. cbn [fst snd]. destruct (Hrest n k Hx) as [Hf|[b Hf]]; rewrite Hf; reflexivity. }
    rewrite H1, H2, H3, H4, app_nil_r. reflexivity.
  Qed.

  (** C07 at destruction: the GENERATED node destructor run on a node of a quiescent state deletes
      exactly the tickets [pop_idx/S, min(push_idx/S, E)) - each once ([node_dtor_spec_gen]) - and
      these are exactly the filled tickets of the node, whose entries hold the values; a retired
      node (deleted by the reclaimer) deletes nothing *)
  Theorem ram_quiescent_dtor st n : reachable st -> g_ovf st = false -> quiescent st -> In n (g_nodes st) ->
    (forall fuel mem, (N.to_nat E < fuel)%nat ->
       node_dtor E fuel (popi st n) (pushi st n) mem
       = Some (fold_left (del_step E) (tickets (pd st n) (N.min (pa st n) E)) mem)) /\
    (forall k, k < E -> (pd st n <= k < N.min (pa st n) E <-> exists b, g_fate st n k = FFilled b)) /\
    (forall k b, k < E -> g_fate st n k = FFilled b -> ent st n (slot_of E (S * k)) = CVal b) /\
    (In n (g_retired st) -> tickets (pd st n) (N.min (pa st n) E) = []).
  Proof using HE HM.
    intros Hr Ho Hq Hn. pose proof (IA st Hr Ho) as HA. destruct (a_al _ _ HA n Hn) as [A1 A2].
    split; [|split; [|split]].
    - intros fuel mem Hf. unfold aligned in A1, A2. rewrite A1 at 1. rewrite A2 at 1. apply node_dtor_spec_gen; [exact HM|exact Hf].
    - intros k Hk. destruct (ram_quiescent_tickets st n k Hr Ho Hq Hn Hk) as (Q1 & Q2 & Q3). split.
      + intros Hrange. destruct (Q2 ltac:(lia) ltac:(lia)) as (b & Hb & _). exists b. exact Hb.
      + intros [b Hb]. destruct (N.lt_ge_cases k (pd st n)) as [Hc|Hc].
        * destruct (Q1 Hc) as [Hx|[b' Hx]]; congruence.
        * destruct (N.lt_ge_cases k (pa st n)) as [Hc'|Hc']; [lia|]. destruct (Q3 Hc Hc') as [Hx _]. congruence.
    - intros k b Hk Hb. pose proof (b_tk _ _ (IB st Hr Ho) n k Hn Hk) as Ht. unfold RamTickets.TK in Ht. rewrite Hb in Ht. tauto.
    - intros Hret. apply tickets_nil. pose proof (a_ret _ _ HA n Hret). lia.
  Qed.

  (** * Emptiness *)

  Definition by_other (t : nat) (a : action) : Prop :=
    match a with Start t' _ => t' <> t | Step t' => t' <> t end.

  Inductive run_others (t : nat) : state -> state -> Prop :=
  | ro_refl s : run_others t s s
  | ro_step s a s1 es s2 : by_other t a -> step E R s a = Some (s1, es) -> run_others t s1 s2 -> run_others t s s2.

  Lemma step_th_other t s a s' es : by_other t a -> step E R s a = Some (s', es) -> th s' t = th s t.
  Proof using.
    intros Hb H. step_cases H t'; cbn [by_other] in Hb; prj; apply upd_other; congruence.
  Qed.

  Lemma run_others_th t s0 s1 : run_others t s0 s1 -> th s1 t = th s0 t.
  Proof using.
    induction 1 as [|s a s1 es s2 Hb Hst Hr IH]; [reflexivity|]. rewrite IH. eapply step_th_other; eauto.
  Qed.

  Lemma run_others_from t s0 s1 : run_others t s0 s1 -> reach_from (step E R) s0 s1.
  Proof using.
    induction 1 as [|s a s1 es s2 Hb Hst Hr IH]; [apply rf_refl|].
    clear Hr. induction IH as [|x b y es' Hf IH' Hst']; [eapply rf_step; [apply rf_refl|exact Hst]|eapply rf_step; eauto].
  Qed.

  Lemma ovf_back s0 s1 : reach_from (step E R) s0 s1 -> g_ovf s1 = false -> g_ovf s0 = false.
  Proof using.
    induction 1 as [|s a s' es Hf IH Hst]; intros Ho; [exact Ho|]. apply IH. eapply ovf_sticky; eauto.
  Qed.

  (** along any execution: a linked node stays linked, its counters grow, a null next pointer was null before *)
  Lemma run_monotone s0 s1 h : reachable s0 -> reach_from (step E R) s0 s1 -> g_ovf s1 = false -> In h (g_nodes s0) ->
    In h (g_nodes s1) /\ popi s0 h <= popi s1 h /\ pushi s0 h <= pushi s1 h /\ (nnext s1 h = 0 -> nnext s0 h = 0).
  Proof using HE HM.
    intros Hr Hf. induction Hf as [|s a s' es Hf IH Hst]; intros Ho Hin.
    - repeat split; try apply N.le_refl; auto.
    - pose proof (ovf_sticky _ _ _ _ _ _ Hst Ho) as Ho0. destruct (IH Ho0 Hin) as (I1 & I2 & I3 & I4).
      pose proof (reach_from_reach _ _ _ _ _ _ _ Hr Hf) as Hrs.
      destruct (ram_step_monotone s a s' es Hrs Hst Ho) as ((more & Em) & _ & Hm). destruct (Hm h I1) as (M1 & M2 & M3).
      split; [rewrite Em; apply in_or_app; left; exact I1|]. split; [lia|]. split; [lia|].
      intros Hz. apply I4. destruct (N.eq_dec (nnext s h) 0) as [e|e]; [exact e|]. rewrite (M3 e) in Hz. contradiction.
  Qed.

  (** if the node loaded from head has no successor it is the head, the last node, and the retired
      nodes are all the others *)
  Lemma old_last_is_head st h : InvA E st -> in_old st h -> nnext st h = 0 ->
    head st = h /\ g_nodes st = g_retired st ++ [h].
  Proof using HE HM.
    intros HA Hold Hz. destruct (a_head _ _ HA) as (rest & He & _). pose proof (a_path _ _ HA) as Hp. rewrite He in Hp.
    unfold in_old in Hold. apply in_app_or in Hold. destruct Hold as [Hc|[Hc|[]]].
    - exfalso. apply (MsqInv.lpath_prefix_link _ _ _ Hp ltac:(discriminate) h Hc). exact Hz.
    - subst h. split; [reflexivity|]. apply MsqInv.lpath_suffix in Hp; [|discriminate].
      rewrite (MsqInv.lpath_hd_null _ _ _ Hp Hz) in He. exact He.
  Qed.

  (** no filled ticket is unclaimed: every value that was handed over is consumed or has its popper at work *)
  Definition all_filled_claimed (st : state) : Prop :=
    forall n k b, In n (g_nodes st) -> k < E -> g_fate st n k = FFilled b -> In (n, k) (g_dtk st).

  Lemma drained_claimed st h : reachable st -> g_ovf st = false -> in_old st h -> nnext st h = 0 -> pa st h <= pd st h \/ E <= pd st h ->
    all_filled_claimed st.
  Proof using HE HM.
    intros Hr Ho Hold Hz Hcnt. pose proof (IA st Hr Ho) as HA. destruct (old_last_is_head st h HA Hold Hz) as [Hh He].
    intros n k b Hn Hk Hf. apply (ram_claimed st n k Hr Ho Hn Hk).
    rewrite He in Hn. apply in_app_or in Hn. destruct Hn as [Hn|[<-|[]]].
    - pose proof (a_ret _ _ HA n Hn). lia.
    - assert (Hin : In h (g_nodes st)) by (rewrite He; apply in_or_app; right; left; reflexivity).
      pose proof (b_tk _ _ (IB st Hr Ho) h k Hin Hk) as Ht. unfold RamTickets.TK in Ht. rewrite Hf in Ht. lia.
  Qed.

  (** EMPTINESS, first exit (pop_idx >= push_idx and next == null).  The pop read pop_idx = p earlier;
      in the state s0 in which it reads push_idx (D3) it sees push_idx <= p; later (others run in
      between) it reads next == null and answers 'empty'.  Then IN s0: h is the head and the last node,
      pop_idx >= push_idx, next is null, and every filled ticket of the whole queue is claimed by a popper:
      the queue is empty once the pops that are already entitled to a value are counted as done.
      (The stronger reading "no filled, unconsumed ticket exists" is false: [ram_empty_naive_refuted].) *)
  Theorem ram_empty_lp1 t s0 sa s1 s2 ea eb h p :
    reachable s0 -> th s0 t = D3 h p ->
    step E R s0 (Step t) = Some (sa, ea) -> run_others t sa s1 ->
    step E R s1 (Step t) = Some (s2, eb) -> In (ERet t [0]) eb -> g_ovf s2 = false ->
    th sa t = D4 h /\ pushi s0 h <= p /\ p <= popi s0 h /\
    head s0 = h /\ nnext s0 h = 0 /\ g_nodes s0 = g_retired s0 ++ [h] /\ nnext s1 h = 0 /\
    all_filled_claimed s0.
  Proof using HE HM.
    intros Hr Hpc Hsa Hro Hsb Hret Ho2.
    pose proof (ovf_sticky _ _ _ _ _ _ Hsb Ho2) as Ho1.
    pose proof (run_others_from _ _ _ Hro) as Hf.
    pose proof (ovf_back _ _ Hf Ho1) as Hoa. pose proof (ovf_sticky _ _ _ _ _ _ Hsa Hoa) as Ho0.
    pose proof (IA s0 Hr Ho0) as HA. pose proof (IB s0 Hr Ho0) as HB.
    pose proof (a_thr _ _ HA t) as Hta. pose proof (b_thr _ _ HB t) as Htb. rewrite Hpc in Hta, Htb. cbn [TA TB] in Hta, Htb.
    (* the D3 step *)
    unfold step, step_gen in Hsa. rewrite Hpc in Hsa. cbv beta iota zeta in Hsa. inversion Hsa; subst sa ea; clear Hsa.
    pose proof (run_others_th _ _ _ Hro) as Hth1. prj_in Hth1. rewrite upd_same in Hth1.
    (* the last step *)
    unfold step, step_gen in Hsb. rewrite Hth1 in Hsb. cbv beta iota zeta in Hsb.
    destruct (pushi s0 h <=? p) eqn:Hq.
    - destruct (nnext s1 h =? 0) eqn:Hz; inversion Hsb; subst s2 eb; clear Hsb.
      + apply N.leb_le in Hq. apply N.eqb_eq in Hz.
        assert (Hrs : reachable (w_th s0 (upd (th s0) t (D4 h)))).
        { eapply reach_step with (a := Step t); [exact Hr|]. unfold step, step_gen. rewrite Hpc. cbv beta iota zeta. rewrite (proj2 (N.leb_le _ _) Hq). reflexivity. }
        pose proof (old_in_nodes E HE HM s0 h (a_head _ _ HA) Hta) as Hin.
        destruct (run_monotone _ s1 h Hrs Hf Ho1 Hin) as (_ & _ & _ & Hback). prj_in Hback. specialize (Hback Hz).
        destruct (old_last_is_head s0 h HA Hta Hback) as [Hh He].
        prj. rewrite upd_same. repeat split; try assumption.
        apply (drained_claimed s0 h Hr Ho0 Hta Hback). left. unfold RamBase.pa, RamBase.pd.
        apply (tick_mono E HE HM). lia.
      + exfalso. cbn [In] in Hret. destruct Hret as [Hc|[]]. discriminate Hc.
    - exfalso. destruct (MAXI E <=? popi s1 h); inversion Hsb; subst; cbn [In] in Hret; destruct Hret as [Hc|[]]; discriminate Hc.
  Qed.

  (** EMPTINESS, second exit (ticket beyond the node and next == null): in the state in which next is
      read, h is the head and the last node, all of its tickets are claimed, and again every filled
      ticket of the queue is claimed *)
  Theorem ram_empty_lp2 t s s' es h :
    reachable s -> th s t = D6 h -> step E R s (Step t) = Some (s', es) -> In (ERet t [0]) es -> g_ovf s' = false ->
    head s = h /\ nnext s h = 0 /\ g_nodes s = g_retired s ++ [h] /\ E + 1 <= pd s h /\ all_filled_claimed s.
  Proof using HE HM.
    intros Hr Hpc Hst Hret Ho'. pose proof (ovf_sticky _ _ _ _ _ _ Hst Ho') as Ho.
    pose proof (IA s Hr Ho) as HA. pose proof (a_thr _ _ HA t) as Hta. rewrite Hpc in Hta. cbn [TA] in Hta. destruct Hta as [Hold Hcnt].
    unfold step, step_gen in Hst. rewrite Hpc in Hst. cbv beta iota zeta in Hst.
    destruct (nnext s h =? 0) eqn:Hz; inversion Hst; subst s' es; clear Hst.
    - apply N.eqb_eq in Hz. destruct (old_last_is_head s h HA Hold Hz) as [Hh He]. repeat split; try assumption.
      apply (drained_claimed s h Hr Ho Hold Hz). right. lia.
    - exfalso. cbn [In] in Hret. destruct Hret as [Hc|[]]. discriminate Hc.
  Qed.

  (** 'empty' is answered only at these two exits *)
  Theorem ram_empty_exits t s a s' es :
    step E R s a = Some (s', es) -> In (ERet t [0]) es ->
    a = Step t /\ ((exists h, th s t = D4 h) \/ (exists h, th s t = D6 h)).
  Proof using.
    intros H Hret. step_cases H t'; cbn [In app] in Hret;
      repeat match goal with H : _ \/ _ |- _ => destruct H as [H|H] end; try discriminate; try contradiction;
      inversion Hret; subst; split; eauto.
  Qed.

  (** * Results of the calls *)

  (** a pop that returns a value returns the value of a ticket that was handed to it (claimed), the
      ticket is consumed, the value is a pushed value and is recorded as popped; the printed number is
      the one stored with the value at its allocation *)
  Theorem ram_pop_result t s a s' es x :
    reachable s -> step E R s a = Some (s', es) -> In (ERet t [1; x]) es -> g_ovf s' = false ->
    a = Step t /\ exists h idx b,
      x = tokv s b /\ (th s t = D10 h idx b \/ th s t = D11 h idx) /\
      In h (g_nodes s) /\ tk idx < E /\ In (h, tk idx) (g_dtk s) /\
      g_fate s' h (tk idx) = FConsumed b /\ In b (g_popped s') /\ In b (g_pushed s').
  Proof using HE HM.
    intros Hr H Hret Ho'. pose proof (ovf_sticky _ _ _ _ _ _ H Ho') as Ho.
    pose proof (IA s Hr Ho) as HA. pose proof (IB s Hr Ho) as HB.
    assert (Hr' : reachable s') by (eapply reach_step; eauto).
    pose proof (IC s' Hr' Ho') as HC'. pose proof (IA s' Hr' Ho') as HA'.
    assert (Hfin : forall h k b, In h (g_nodes s') -> k < E -> g_fate s' h k = FConsumed b -> In b (g_popped s') /\ In b (g_pushed s')).
    { intros h k b Hh Hk Hf. split; [apply (c_cp _ _ HC' b); exists h, k; auto|].
      destruct (c_cf _ _ HC') as (Hf1 & _). apply (Hf1 h k b Hh Hk). rewrite Hf. reflexivity. }
    step_cases H t'; cbn [In app] in Hret;
      repeat match goal with H : _ \/ _ |- _ => destruct H as [H|H] end; try discriminate; try contradiction;
      inversion Hret; subst; (split; [reflexivity|]).
    all: pose proof (a_thr _ _ HA t) as Hta; pose proof (b_thr _ _ HB t) as Ht;
      match goal with Hpc0 : th _ _ = _ |- _ => rename Hpc0 into Hpc; rewrite Hpc in Hta, Ht; cbn [TA TB] in Hta, Ht end.
    - (* D10 *) destruct Ht as (Hal1 & HkE & Hf). exists h, idx, b.
      pose proof (b_tk _ _ HB h _ Hta HkE) as Hk. unfold RamTickets.TK in Hk. rewrite Hf in Hk.
      split; [reflexivity|]. split; [left; exact Hpc|]. split; [exact Hta|]. split; [exact HkE|].
      split; [apply (ram_claimed s h _ Hr Ho Hta HkE); tauto|]. split; [exact Hf|]. apply (Hfin h (tk idx) b); assumption.
    - (* D11 *) destruct Ht as (Hal1 & HkE & Hkp & Hfa). exists h, idx, b.
      split; [reflexivity|]. split; [right; exact Hpc|]. split; [exact Hta|]. split; [exact HkE|].
      split; [apply (ram_claimed s h _ Hr Ho Hta HkE); exact Hkp|].
      assert (Hf : g_fate (w_th (w_fate (w_popped (w_ent s (setf2 (ent s) h (slot_of E idx) CTaken)) (g_popped s ++ [b]))
                     (setf2 (g_fate s) h (tk idx) (FConsumed b))) (upd (th s) t Idle)) h (tk idx) = FConsumed b) by (prj; apply setf2_same).
      split; [exact Hf|]. apply (Hfin h (tk idx) b); [exact Hta|exact HkE|exact Hf].
  Qed.

  (** the impossible answer is impossible: a popper never reads "taken" from its own ticket *)
  Theorem ram_never_bogus t s a s' es :
    reachable s -> step E R s a = Some (s', es) -> g_ovf s' = false -> ~ In (ERet t [2]) es.
  Proof using HE HM.
    intros Hr H Ho' Hret. pose proof (ovf_sticky _ _ _ _ _ _ H Ho') as Ho.
    pose proof (IA s Hr Ho) as HA. pose proof (IB s Hr Ho) as HB.
    step_cases H t'; cbn [In app] in Hret;
      repeat match goal with H : _ \/ _ |- _ => destruct H as [H|H] end; try discriminate; try contradiction.
    all: pose proof (a_thr _ _ HA t') as Hta; pose proof (b_thr _ _ HB t') as Ht;
      match goal with Hpc0 : th _ _ = _ |- _ => rename Hpc0 into Hpc; rewrite Hpc in Hta, Ht; cbn [TA TB] in Hta, Ht end.
    all: destruct Ht as (Hal1 & HkE & Hkp & Hfa);
      pose proof (b_tk _ _ HB h (tk idx) Hta HkE) as Hk; unfold RamTickets.TK in Hk; rewrite <- Hal1 in Hk;
      destruct Hfa as [Hfa|[b' Hfa]]; rewrite Hfa in Hk; destruct Hk as [Hk _]; congruence.
  Qed.

  (** the number printed for a value never changes after its allocation *)
  Theorem ram_tokv_stable s a s' es : step E R s a = Some (s', es) -> forall b, b < nalloc s -> tokv s' b = tokv s b.
  Proof using HE HM.
    intros H b Hb. step_cases H t; prj; try reflexivity. apply setf_other. lia.
  Qed.

  (** a push hands its value over exactly once: [g_pushed] grows by the value the stepping thread holds,
      and the thread holds nothing afterwards *)
  Theorem ram_push_once s a s' es : step E R s a = Some (s', es) ->
    g_pushed s' = g_pushed s \/
    exists t b, a = Step t /\ g_pushed s' = g_pushed s ++ [b] /\ holds (th s t) = Some b /\ holds (th s' t) = None.
  Proof using.
    intros H. step_cases H t; prj; try (left; reflexivity).
    all: right; exists t, b; rewrite upd_same; match goal with Hpc : th _ _ = _ |- _ => rewrite Hpc end; cbn [holds]; auto.
  Qed.

  (** RECLAMATION SAFETY of the node hand-over (what the tail CAS (16) in pop is for): the node _tail points
      to is never a retired node.  False for the code before the repair
      (RamExamples.ram_tail_not_retired_old_refuted). *)
  Theorem ram_tail_not_retired st : reachable st -> g_ovf st = false -> forall n, In n (g_retired st) -> tail st <> n.
  Proof using HE HM.
    intros Hr Ho n Hn Heq. subst n. exact (a_tnr _ _ (IA st Hr Ho) Hn).
  Qed.

  (** no node that can be reached from _head or from _tail along next pointers is retired *)
  Theorem ram_live_not_retired st : reachable st -> g_ovf st = false ->
    forall n, nreach (nnext st) (head st) n \/ nreach (nnext st) (tail st) n -> ~ In n (g_retired st).
  Proof using HE HM.
    intros Hr Ho n Hn. pose proof (IA st Hr Ho) as HA. destruct (a_head _ _ HA) as (rest & He & _).
    assert (Hl : lpath (nnext st) (head st :: rest)).
    { pose proof (a_path _ _ HA) as Hp. rewrite He in Hp. eapply MsqInv.lpath_suffix; [exact Hp|discriminate]. }
    assert (Hcl : forall a b, nreach (nnext st) a b -> In a (head st :: rest) -> In b (head st :: rest)).
    { intros a b Hab. induction Hab as [a|a b Hz Hab IH]; intros Ha; [exact Ha|]. apply IH. apply MsqInv.lpath_next_in; assumption. }
    assert (Ht : In (tail st) (head st :: rest)).
    { pose proof (tail_in_nodes E HE HM st (a_tail _ _ HA)) as Hi. rewrite He in Hi. apply in_app_or in Hi.
      destruct Hi as [Hi|Hi]; [exfalso; exact (a_tnr _ _ HA Hi)|exact Hi]. }
    assert (Hin : In n (head st :: rest)).
    { destruct Hn as [Hn|Hn]; [apply (Hcl _ _ Hn); left; reflexivity|exact (Hcl _ _ Hn Ht)]. }
    intros Hc. pose proof (a_nodup _ _ HA) as Hnd. rewrite He in Hnd. exact (NoDup_app_notin _ _ _ n Hnd Hc Hin).
  Qed.

  (** the thread that is about to swing _head off a node (13) has seen to it that _tail is not on that node *)
  Theorem ram_head_cas_tail_off st t h nx : reachable st -> g_ovf st = false -> th st t = D7 h nx -> tail st <> h.
  Proof using HE HM.
    intros Hr Ho Hpc. pose proof (a_thr _ _ (IA st Hr Ho) t) as Ht. rewrite Hpc in Ht. cbn [TA] in Ht. tauto.
  Qed.
End RamInv.
