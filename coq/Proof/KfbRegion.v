(** kirsch_bounded_kfifo_queue (C06), invariant layer 4 (region): every committed value still stored lies in a
    segment between head and tail; the combined invariant [Inv] over [reach].  No axioms, no admits. *)
From Coq Require Import NArith List Bool Lia PeanoNat.
From XV Require Import Base.Word Conc.Lts Conc.Ev Model.KfbDefs.
From XV Require Import Proof.KfbArith Proof.KfbWf Proof.KfbOwn Proof.KfbRing.
Import ListNotations.
Local Open Scope N_scope.

Set Default Proof Using "All".
Section L4.
  Variables k segs : N.
  Hypothesis Hk : 1 <= k.
  Hypothesis Hs : 1 <= segs.
  Notation step := (step k segs).
  Notation sg := (sg k).
  Notation qsize := (qsize k segs).
  Notation dist := (dist segs).
  Notation succs := (succs segs).
  Notation wfw := (wfw k segs).
  Notation T1 := (T1 k segs).
  Notation T3 := (T3 k segs).
  Notation Inv1 := (Inv1 k segs).
  Notation Inv3 := (Inv3 k segs).
  Notation hs := (hs k).
  Notation ts := (ts k).
  Notation sgw := (sgw k).

  (** every committed value that is still stored lies in a segment between head and tail *)
  Definition inreg (st : state) (j : N) : Prop := dist (hs st) (sg j) <= dist (hs st) (ts st).
  Definition Inv4 (st : state) : Prop := forall j, In (fst (slot st j)) (g_in st) -> inreg st j.

  Lemma Inv4_init : Inv4 init.
  Proof. intros j H. cbn in H. contradiction. Qed.

  Ltac sim4 := unfold inreg, KfbRing.hs, KfbRing.ts in *; sim.

  Lemma Inv4_step s a s' es : Inv1 s -> Inv2 s -> Inv3 s -> Inv4 s -> step s a = Some (s', es) -> Inv4 s'.
  Proof.
    intros (Hh & Ht & Hsl & Hall) Iv H3 H4 Hst. unfold KfbDefs.step in Hst.
    pose proof (wfw_lt k segs Hk Hs _ Hh) as X3. pose proof (wfw_lt k segs Hk Hs _ Ht) as X1.
    assert (Hsgj : forall j, In (fst (slot s j)) (g_in s) -> sg j < segs).
    { intros j Hj. apply (sg_lt k segs Hk Hs). apply Hsl. pose proof (i_in_lt s Iv _ Hj). lia. }
    destruct a as [t o|t r].
    - destruct (th s t) eqn:E; try discriminate. inversion Hst; subst; clear Hst. exact H4.
    - pose proof (Hall t) as Hme. pose proof (H3 t) as Hme3. pose proof (i_th s Iv t) as Hme2.
      destruct (th s t) as [|[v|]|b|b tl|b tl hd ri i|b tl j otag|b tl hd|b tl j otag|b tl hd|b tl hd i|b tl hd|b tl hd|b tl
                            |b tl j tg|b tl j tg|b tl j tg hc|b tl j tg hc tc|b tl j tg hc|b j tg
                            | |hd|hd tl ri i|hd tl j p tg|hd tl|hd tl j p tg|hd j p tg|hd tl|hd] eqn:E;
        try discriminate; cbn [KfbWf.T1 KfbRing.T3] in Hme, Hme3; brk Hst; inversion Hst; subst; clear Hst.
      all: try exact H4.
      all: intros j0; sim4.
      + (* P4 ins *) unfold setf. destruct (N.eqb_spec j0 j) as [->|Hn]; [cbn [fst]; intros Q; exfalso; apply Hme2; exact Q|apply H4].
      + (* PHC success *)
        intros Hj. pose proof (H4 j0 Hj) as Old. pose proof (Hsgj j0 Hj) as Xj. sim4.
        change (sg (fst (adv k segs (head s)))) with (sgw (adv k segs (head s))). rewrite (hs_adv k segs Hk Hs) by exact Hh. unfold KfbRing.hs, KfbRing.ts, KfbRing.sgw in *.
        destruct (Hme3 eq_refl) as [A C]. unfold segfree, nocommit in C.
        assert (Hne : sg j0 <> sg (fst (head s))).
        { intros Q. apply (C j0); [apply Hsl; pose proof (i_in_lt s Iv _ Hj); lia|exact Q|exact Hj]. }
        destruct (dist_succ_l k segs Hk Hs _ _ X3 Xj Hne) as [-> G].
        assert (Hnt : sg (fst (tail s)) <> sg (fst (head s))) by (intros Q; unfold KfbRing.sgw in *; rewrite Q, (dist_refl k segs Hk Hs) in Old; lia).
        destruct (dist_succ_l k segs Hk Hs _ _ X3 X1 Hnt) as [-> _]. lia.
      + (* PT success *)
        intros Hj. pose proof (H4 j0 Hj) as Old. pose proof (Hsgj j0 Hj) as Xj. sim4.
        change (sg (fst (adv k segs (tail s)))) with (sgw (adv k segs (tail s))). rewrite (ts_adv k segs Hk Hs) by exact Ht. unfold KfbRing.hs, KfbRing.ts, KfbRing.sgw in *.
        assert (Sf : tsafe k segs s) by (apply Hme3; reflexivity).
        destruct Sf as [S1|S2].
        { rewrite !(dist_one k segs Hk Hs) by (try assumption; apply (succs_lt k segs Hk Hs); assumption). lia. }
        unfold KfbRing.hs, KfbRing.ts, KfbRing.sgw in S2. rewrite (dist_succ_r k segs Hk Hs) by assumption. lia.
      + (* C4 commit *) rewrite commit_in. intros [Q|Q]; [apply H4; exact Q|].
        unfold T2, T2' in Hme2. cbn [cinfo] in Hme2. destruct Hme2 as [[A B]|[A _]]; [|apply H4; rewrite Q; exact A].
        pose proof (i_own_lt s Iv t b ltac:(rewrite E; reflexivity)) as Hb2.
        assert (j0 = j) by (apply (i_uniq s Iv); [rewrite A; exact Q|rewrite Q; lia]). subst j0.
        destruct Hme as ([Etl Ltl] & [_ Sj] & [[Ehc Lhc] _] & [[Etc Ltc] _]).
        rewrite Etl, Etc, Ehc in Heqb0.
        destruct (ivr_spec k segs Hk Hs _ _ _ Ltl Ltc Lhc Heqb0) as [_ X].
        specialize (Hme3 eq_refl). unfold KfbRing.hs, KfbRing.ts, KfbRing.sgw in Hme3. rewrite Sj. unfold KfbRing.sgw. lia.
      + (* C5 bump *) rewrite commit_in. intros [Q|Q]; [apply H4; exact Q|].
        unfold T2, T2' in Hme2. cbn [cinfo] in Hme2. destruct Hme2 as [[A B]|[A _]]; [|apply H4; rewrite Q; exact A].
        pose proof (i_own_lt s Iv t b ltac:(rewrite E; reflexivity)) as Hb2.
        assert (j0 = j) by (apply (i_uniq s Iv); [rewrite A; exact Q|rewrite Q; lia]). subst j0.
        destruct Hme as (_ & [_ Sj] & _). unfold KfbRing.sgw in Hme3. rewrite Sj, Hme3, (dist_refl k segs Hk Hs). lia.
      + (* C6 back *) unfold setf. destruct (N.eqb_spec j0 j) as [->|Hn]; [cbn [fst]; intros Q; exfalso; apply (zero_notin k segs Hk Hs s Iv Q)|apply H4].
      + (* DT success *)
        intros Hj. pose proof (H4 j0 Hj) as Old. pose proof (Hsgj j0 Hj) as Xj. sim4.
        change (sg (fst (adv k segs (tail s)))) with (sgw (adv k segs (tail s))). rewrite (ts_adv k segs Hk Hs) by exact Ht. unfold KfbRing.hs, KfbRing.ts, KfbRing.sgw in *.
        assert (Sf : tsafe k segs s) by (specialize (Hme3 eq_refl); unfold tsafe, KfbRing.hs, KfbRing.ts, KfbRing.sgw; destruct (N.eq_dec segs 1); [left; assumption|right; lia]).
        destruct Sf as [S1|S2].
        { rewrite !(dist_one k segs Hk Hs) by (try assumption; apply (succs_lt k segs Hk Hs); assumption). lia. }
        unfold KfbRing.hs, KfbRing.ts, KfbRing.sgw in S2. rewrite (dist_succ_r k segs Hk Hs) by assumption. lia.
      + (* D4 take *) destruct Hme as (_ & _ & Hp). unfold setf. rewrite commit_in. destruct (N.eqb_spec j0 j) as [->|Hn]; cbn [fst].
        * intros [Q|Q]; [exfalso; apply (zero_notin k segs Hk Hs s Iv Q)|congruence].
        * intros [Q|Q]; [apply H4; exact Q|]. exfalso. apply Hn. apply (i_uniq s Iv); [rewrite e; exact Q|rewrite Q; exact Hp].
      + (* DH success *)
        intros Hj. pose proof (H4 j0 Hj) as Old. pose proof (Hsgj j0 Hj) as Xj. sim4.
        change (sg (fst (adv k segs (head s)))) with (sgw (adv k segs (head s))). rewrite (hs_adv k segs Hk Hs) by exact Hh. unfold KfbRing.hs, KfbRing.ts, KfbRing.sgw in *.
        destruct (Hme3 eq_refl) as [A C]. unfold segfree, nocommit in C.
        assert (Hne : sg j0 <> sg (fst (head s))).
        { intros Q. apply (C j0); [apply Hsl; pose proof (i_in_lt s Iv _ Hj); lia|exact Q|exact Hj]. }
        destruct (dist_succ_l k segs Hk Hs _ _ X3 Xj Hne) as [-> G].
        assert (Hnt : sg (fst (tail s)) <> sg (fst (head s))) by (intros Q; unfold KfbRing.sgw in *; rewrite Q, (dist_refl k segs Hk Hs) in Old; lia).
        destruct (dist_succ_l k segs Hk Hs _ _ X3 X1 Hnt) as [-> _]. lia.
  Qed.

  Definition Inv (st : state) : Prop := Inv1 st /\ Inv2 st /\ Inv3 st /\ Inv4 st.

  Theorem Inv_reach st : reach init step st -> Inv st.
  Proof.
    apply inv_rule.
    - split; [apply Inv1_init; assumption|]. split; [apply Inv2_init|]. split; [apply Inv3_init; assumption|apply Inv4_init; assumption].
    - intros s a s' es (I1 & I2 & I3 & I4) Hst.
      split; [apply (Inv1_step k segs Hk Hs s a s' es I1 Hst)|]. split; [apply (Inv2_step k segs Hk Hs s a s' es I1 I2 Hst)|]. split; [apply (Inv3_step k segs Hk Hs s a s' es I1 I2 I3 Hst)|apply (Inv4_step s a s' es I1 I2 I3 I4 Hst)].
  Qed.
End L4.
