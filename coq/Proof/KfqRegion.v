(** kirsch_kfifo_queue (C06, unbounded), invariant layer 3 (no value is stranded): a committed value that was
    not popped is stored in a linked segment that head_ has not left; segments that head_ has left are marked
    deleted; and the fact that makes this inductive -- while head_ still equals the word a pop has read, every
    value that appears in a slot the pop has already seen empty is an uncommitted insertion whose pusher has
    not yet passed the head_ check of committed() (it will either bump head_, which makes the pop's
    advance_head fail, or see the segment deleted and take the value back).  Sequentially consistent
    interleavings, as everywhere in the step models.  No axioms, no admits. *)
From Coq Require Import NArith List Bool Lia PeanoNat ZifyBool ZifyNat ZifyN.
From XV Require Import Base.Word Conc.Lts Conc.Ev Model.KfqDefs.
From XV Require Import Proof.KfqWf Proof.KfqOwn.
Import ListNotations.
Local Open Scope N_scope.

(** the head_ word a pop works with while it scans / tries to remove the head segment *)
Definition shd (p : pc) : option iw :=
  match p with
  | D1f hd | DF hd _ _ | D2n hd | D3n hd | DE hd _ | H1 hd _ | H2 hd _ _ | H3 hd _ _ | H4 hd _ _ _ | H5 hd _ _ _
  | H6 hd _ | H7 hd _ => Some hd
  | _ => None
  end.
Definition notC7 (p : pc) : Prop := match p with C7 _ _ _ _ => False | _ => True end.

Set Default Proof Using "All".
Section L3.
  Variable k : N.
  Hypothesis Hk : 1 <= k.
  Notation step := (step k).
  Notation InvA := (InvA k).

  (** slots the pop has seen empty in this round *)
  Definition scanned (p : pc) (j : N) : Prop :=
    match p with
    | DF _ ri i => exists i', i' < i /\ j = fidx k ri i'
    | D2n _ | D3n _ | DE _ _ | H1 _ _ | H2 _ _ _ | H3 _ _ _ | H4 _ _ _ _ | H5 _ _ _ _ | H6 _ _ | H7 _ _ => j < k
    | _ => False
    end.

  Definition pend_ok (st : state) (x j : N) : Prop :=
    forall b tg, slot st x j = (b, tg) -> b <> 0 ->
      ~ In b (g_in st) /\ forall u, cinfo (th st u) = Some (b, x, j, tg) -> notC7 (th st u).

  Record InvC (st : state) : Prop := {
    c_del : forall x, linked st x -> x < fst (head st) -> del st x = true;
    c_reg : forall x j b tg, slot st x j = (b, tg) -> b <> 0 ->
            linked st x /\ j < k /\ x <= fst (tail st) /\ (In b (g_in st) -> fst (head st) <= x);
    c_scan : forall t hd, shd (th st t) = Some hd -> hd = head st -> forall j, scanned (th st t) j -> pend_ok st (fst hd) j }.

  Lemma fidx_onto ri j : ri < k -> j < k -> exists i, i < k /\ j = fidx k ri i.
  Proof.
    intros Hr Hj. exists ((j + k - ri) mod k). split; [apply N.mod_lt; lia|]. unfold fidx.
    rewrite N.add_mod_idemp_r by lia. replace (ri + (j + k - ri)) with (j + 1 * k) by lia.
    rewrite N.mod_add by lia. symmetry. apply N.mod_small. exact Hj.
  Qed.

  Lemma pend_ok_empty st x j : fst (slot st x j) = 0 -> pend_ok st x j.
  Proof. intros H b tg E Hb. rewrite E in H. cbn in H. contradiction. Qed.

  (** steps that change only the program counter of t *)
  Lemma pend_ok_local s s' t p' x j :
    pend_ok s x j -> slot s' = slot s -> g_in s' = g_in s -> th s' = upd (th s) t p' ->
    (forall b tg, cinfo p' = Some (b, x, j, tg) -> cinfo (th s t) = Some (b, x, j, tg) /\ notC7 p') -> pend_ok s' x j.
  Proof.
    intros H E1 E2 Et Hp b tg Hs Hb. rewrite E1 in Hs. rewrite E2. destruct (H b tg Hs Hb) as [A B]. split; [exact A|].
    intros u. rewrite Et. unfold upd. destruct (Nat.eqb_spec u t) as [->|Hne]; [|apply B].
    intros Q. apply (Hp b tg Q).
  Qed.

  (** committed() answers true *)
  Lemma pend_ok_commit s s' t b x0 j0 tg x j :
    Inv2 s -> pend_ok s x j -> cinfo (th s t) = Some (b, x0, j0, tg) -> (notC7 (th s t) -> slot s x0 j0 <> (b, tg)) ->
    slot s' = slot s -> g_in s' = commit b (g_in s) -> th s' = upd (th s) t Idle -> pend_ok s' x j.
  Proof.
    intros Iv H Hc Hn E1 E2 Et b1 tg1 Hs Hb. rewrite E1 in Hs. destruct (H b1 tg1 Hs Hb) as [A B]. split.
    - rewrite E2, commit_in. intros [C| ->]; [contradiction|].
      pose proof (i_th s Iv t) as Ht. unfold T2, T2' in Ht. rewrite Hc in Ht. destruct Ht as [[Q _]|[Q _]]; [|contradiction].
      destruct (i_uniq s Iv x j x0 j0) as [-> ->]; [rewrite Hs, Q; reflexivity|rewrite Hs; exact Hb|].
      rewrite Q in Hs. inversion Hs; subst tg1. apply Hn; [apply B; exact Hc|exact Q].
    - intros u. rewrite Et. unfold upd. destruct (Nat.eqb_spec u t) as [->|Hne]; [discriminate|apply B].
  Qed.

  (** the insertion CAS *)
  Lemma pend_ok_ins s s' t b x0 j0 otag p' x j :
    Inv2 s -> pend_ok s x j -> pblock (th s t) = Some b -> cinfo (th s t) = None ->
    slot s' = setf2 (slot s) x0 j0 (b, otag) -> g_in s' = g_in s -> th s' = upd (th s) t p' ->
    cinfo p' = Some (b, x0, j0, otag) -> notC7 p' -> pend_ok s' x j.
  Proof.
    intros Iv H Hp Hc E1 E2 Et Hc' Hn7 b1 tg1 Hs Hb. rewrite E1 in Hs. rewrite E2.
    pose proof (i_th s Iv t) as Ht. unfold T2, T2' in Ht. rewrite Hc, Hp in Ht. destruct Ht as [Hnin Hnsl].
    destruct (setf2_cases (slot s) x0 j0 (b, otag) x j) as [(-> & -> & Q)|(Hne & Q)]; rewrite Q in Hs.
    - inversion Hs; subst b1 tg1. split; [exact Hnin|]. intros u. rewrite Et. unfold upd.
      destruct (Nat.eqb_spec u t) as [->|Hu]; [intros _; exact Hn7|]. intros C. exfalso. apply Hu.
      apply (i_own_u s Iv u t b); [eapply cinfo_pblock; eauto|exact Hp].
    - destruct (H b1 tg1 Hs Hb) as [A B]. split; [exact A|]. intros u. rewrite Et. unfold upd.
      destruct (Nat.eqb_spec u t) as [->|Hu]; [|apply B]. rewrite Hc'. intros C. inversion C; subst. destruct Hne; congruence.
  Qed.

  (** a slot is emptied (take-back by the pusher, take by a pop) *)
  Lemma pend_ok_clear s s' t x0 j0 p tg tg' l p' x j :
    Inv2 s -> pend_ok s x j -> slot s x0 j0 = (p, tg) -> p <> 0 ->
    slot s' = setf2 (slot s) x0 j0 (0, tg') -> (forall y, In y l -> In y (g_in s) \/ y = p) ->
    g_in s' = l -> th s' = upd (th s) t p' -> cinfo p' = None -> pend_ok s' x j.
  Proof.
    intros Iv H Hsl Hp E1 Hl E2 Et Hc' b1 tg1 Hs Hb. rewrite E1 in Hs. rewrite E2.
    destruct (setf2_cases (slot s) x0 j0 (0, tg') x j) as [(-> & -> & Q)|(Hne & Q)]; rewrite Q in Hs.
    - inversion Hs. congruence.
    - destruct (H b1 tg1 Hs Hb) as [A B]. split.
      + intros C. destruct (Hl _ C) as [C'| ->]; [contradiction|].
        destruct (i_uniq s Iv x j x0 j0) as [-> ->]; [rewrite Hs, Hsl; reflexivity|rewrite Hs; exact Hb|]. destruct Hne; congruence.
      + intros u. rewrite Et. unfold upd. destruct (Nat.eqb_spec u t) as [->|Hu]; [rewrite Hc'; discriminate|apply B].
  Qed.

  Ltac loc H E :=
    eapply (pend_ok_local _ _ _ _ _ _ H); sim; [reflexivity|reflexivity|reflexivity|];
    let b0 := fresh "b0" in let tg0 := fresh "tg0" in let Q := fresh "Q" in
    intros b0 tg0 Q; cbn [cinfo] in Q; rewrite ?cinfo_kpc in Q;
    first [discriminate Q | split; [rewrite E; exact Q|exact Logic.I]].

  (** as long as head_ keeps its value, [pend_ok] of a slot of the head segment is preserved by every step *)
  Lemma pend_ok_step s a s' es j :
    InvA s -> Inv2 s -> step s a = Some (s', es) -> head s' = head s ->
    pend_ok s (fst (head s)) j -> pend_ok s' (fst (head s)) j.
  Proof.
    intros IA Iv Hst Hh H. unfold KfqDefs.step in Hst. destruct a as [t o|t r].
    - destruct (th s t) eqn:E; try discriminate. inversion Hst; subst; clear Hst. loc H E.
    - pose proof (a_th k s IA t) as Hme. pose proof (i_th s Iv t) as Hown.
      destruct (th s t) eqn:E; try discriminate; try (match goal with o : op |- _ => destruct o end);
        cbn [TA] in Hme; brk Hst; inversion Hst; subst; clear Hst.
      all: try (loc H E).
      + (* P3 *) eapply (pend_ok_ins _ _ t b (fst tl) j0 (otag + 1) _ _ _ Iv H); sim; try reflexivity; try (rewrite E; reflexivity); try exact Logic.I.
      + (* C1 *) eapply (pend_ok_commit _ _ t b (fst tl) j0 tg _ _ Iv H); sim; try reflexivity; try (rewrite E; reflexivity). intros _; assumption.
      + (* C4 -> C7 *) eapply (pend_ok_local _ _ _ _ _ _ H); sim; [reflexivity|reflexivity|reflexivity|].
        intros b0 tg0 Q. cbn [cinfo] in Q. inversion Q. congruence.
      + (* C5 *) exfalso. sim. apply (f_equal snd) in Hh. cbn in Hh. lia.
      + (* C7 *) eapply (pend_ok_commit _ _ t b (fst tl) j0 tg _ _ Iv H); sim; try reflexivity; try (rewrite E; reflexivity). rewrite E. cbn. intros [].
      + (* C9 ok *) eapply (pend_ok_clear _ _ t (fst tl) j0 b tg (tg + 1) _ _ _ _ Iv H); sim; try reflexivity; try eassumption.
        * pose proof (i_own_lt s Iv t b) as Q. rewrite E in Q. specialize (Q eq_refl). lia.
        * intros y Hy; left; exact Hy.
      + (* C9 fail *) eapply (pend_ok_commit _ _ t b (fst tl) j0 tg _ _ Iv H); sim; try reflexivity; try (rewrite E; reflexivity). intros _; assumption.
      + (* D4 *) eapply (pend_ok_clear _ _ t (fst hd) j0 p tg (tg + 1) _ _ _ _ Iv H); sim; try reflexivity; try eassumption.
        * apply Hme.
        * intros y Hy. apply commit_in in Hy. exact Hy.
  Qed.

  Lemma shd_hle st p hd : TA k st p -> shd p = Some hd -> hle st hd.
  Proof.
    destruct p; cbn [shd TA]; unfold TH; intros H Q; inversion Q; subst; tauto.
  Qed.

  (** what a step of t adds to the slots t has seen empty *)
  Lemma scan_step s t r s' es hd j : InvA s -> step s (Step t r) = Some (s', es) ->
    shd (th s' t) = Some hd -> scanned (th s' t) j ->
    (shd (th s t) = Some hd /\ scanned (th s t) j) \/ fst (slot s' (fst hd) j) = 0.
  Proof.
    intros IA Hst. unfold KfqDefs.step in Hst. pose proof (a_th k s IA t) as Hme.
    destruct (th s t) eqn:E; try discriminate; try (match goal with o : op |- _ => destruct o end);
      brk Hst; inversion Hst; subst; clear Hst; sim; rewrite upd_same; cbn [shd scanned]; rewrite ?E;
      try discriminate; try (destruct c; cbn [kpc shd]; discriminate);
      intros Q; inversion Q; subst; intros Hj; try contradiction; try (left; split; [reflexivity|exact Hj]; fail).
    - (* D1f -> DF 0 *) destruct Hj as (i' & Hi & _). lia.
    - (* DF -> DF *) destruct Hj as (i' & Hi & ->). destruct (N.eq_dec i' i) as [->|Hne]; [right; assumption|left].
      split; [reflexivity|]. exists i'. split; [lia|reflexivity].
    - (* DF -> D2n *) cbn [TA] in Hme. destruct Hme as (_ & _ & Hr & Hi).
      destruct (fidx_onto ri j Hr Hj) as (i' & Hi' & ->).
      destruct (N.eq_dec i' i) as [->|Hne]; [right; assumption|left].
      split; [reflexivity|]. exists i'. split; [lia|reflexivity].
  Qed.

  Lemma scan_inv_step s a s' es : InvA s -> Inv2 s -> InvC s -> step s a = Some (s', es) ->
    forall t hd, shd (th s' t) = Some hd -> hd = head s' -> forall j, scanned (th s' t) j -> pend_ok s' (fst hd) j.
  Proof.
    intros IA Iv IC Hst t hd Hs Hh j Hj.
    assert (Hold : (shd (th s t) = Some hd /\ scanned (th s t) j) \/ fst (slot s' (fst hd) j) = 0).
    { destruct a as [u o|u r].
      - destruct (Nat.eq_dec u t) as [->|Hne].
        + exfalso. unfold KfqDefs.step in Hst. destruct (th s t); try discriminate. inversion Hst; subst. sim.
          rewrite upd_same in Hs. discriminate.
        + left. rewrite <- (step_th_other k Hk t s _ s' es Hst); [auto| |intros; discriminate]. intros o' Q. inversion Q. congruence.
      - destruct (Nat.eq_dec u t) as [->|Hne]; [eapply scan_step; eauto|].
        left. rewrite <- (step_th_other k Hk t s _ s' es Hst); [auto|intros; discriminate|]. intros r' Q. inversion Q. congruence. }
    destruct Hold as [[Hs0 Hj0]|He]; [|apply pend_ok_empty; exact He].
    pose proof (shd_hle s _ hd (a_th k s IA t) Hs0) as Hle.
    destruct (step_head k Hk s a s' es IA Hst) as [Heq|Hlt].
    - subst hd. rewrite Heq. apply (pend_ok_step s a s' es j IA Iv Hst Heq). rewrite Heq in Hs0.
      apply (c_scan s IC t (head s) Hs0 eq_refl j Hj0).
    - exfalso. eapply hle_hlt_ne; eauto.
  Qed.

  Definition DR (st : state) : Prop :=
    (forall x, linked st x -> x < fst (head st) -> del st x = true) /\
    (forall x j b tg, slot st x j = (b, tg) -> b <> 0 ->
       linked st x /\ j < k /\ x <= fst (tail st) /\ (In b (g_in st) -> fst (head st) <= x)).

  Lemma DR_of s : InvC s -> DR s.
  Proof. intros IC. split; [apply (c_del s IC)|apply (c_reg s IC)]. Qed.

  (** tail_, the chain, the deleted flags grow; head_, the slots, the committed values do not change *)
  Lemma DR_weak s s' : DR s -> head s' = head s -> slot s' = slot s -> g_in s' = g_in s ->
    (forall x, linked s x -> linked s' x) -> (forall x, linked s' x -> x < fst (head s) -> linked s x) ->
    fst (tail s) <= fst (tail s') -> (forall x, del s x = true -> del s' x = true) -> DR s'.
  Proof.
    intros [D R] E1 E2 E3 L1 L2 Ht Hd. split.
    - rewrite E1. intros x Hx Hlt. apply Hd. apply D; [apply L2; assumption|exact Hlt].
    - rewrite E1, E2, E3. intros x j b tg Hs Hb. destruct (R x j b tg Hs Hb) as (A & B & C & F).
      split; [apply L1; exact A|]. split; [exact B|]. split; [lia|exact F].
  Qed.

  (** committed() answers true for b *)
  Lemma DR_commit s s' b : DR s -> Inv2 s -> fst (head s') = fst (head s) -> slot s' = slot s -> g_segs s' = g_segs s ->
    tail s' = tail s -> del s' = del s -> g_in s' = commit b (g_in s) ->
    (forall x j tg, slot s x j = (b, tg) -> ~ In b (g_in s) -> fst (head s) <= x) -> DR s'.
  Proof.
    intros [D R] Iv E1 E2 E3 E4 E5 E6 Hb. split.
    - unfold linked. rewrite E1, E3, E5. exact D.
    - unfold linked. rewrite E1, E2, E3, E4, E6. intros x j b0 tg Hs Hb0. destruct (R x j b0 tg Hs Hb0) as (A & B & C & F).
      split; [exact A|]. split; [exact B|]. split; [exact C|]. rewrite commit_in. intros [G| ->]; [apply F; exact G|].
      destruct (in_dec N.eq_dec b (g_in s)) as [G|G]; [apply F; exact G|]. eapply Hb; eauto.
  Qed.

  (** a slot is emptied *)
  Lemma DR_clear s s' x0 j0 p tg tg' : DR s -> Inv2 s -> slot s x0 j0 = (p, tg) -> p <> 0 ->
    head s' = head s -> slot s' = setf2 (slot s) x0 j0 (0, tg') -> g_segs s' = g_segs s ->
    tail s' = tail s -> del s' = del s -> (forall y, In y (g_in s') -> In y (g_in s) \/ y = p) -> DR s'.
  Proof.
    intros [D R] Iv Hsl Hp E1 E2 E3 E4 E5 E6. split.
    - unfold linked. rewrite E1, E3, E5. exact D.
    - unfold linked. rewrite E1, E2, E3, E4. intros x j b0 tg0 Hs Hb0.
      destruct (setf2_cases (slot s) x0 j0 (0, tg') x j) as [(-> & -> & Q)|(Hne & Q)]; rewrite Q in Hs; [inversion Hs; congruence|].
      destruct (R x j b0 tg0 Hs Hb0) as (A & B & C & F).
      split; [exact A|]. split; [exact B|]. split; [exact C|]. intros G. destruct (E6 _ G) as [G'| ->]; [apply F; exact G'|].
      exfalso. destruct (i_uniq s Iv x j x0 j0) as [-> ->]; [rewrite Hs, Hsl; reflexivity|rewrite Hs; exact Hp|]. destruct Hne; congruence.
  Qed.

  (** the insertion CAS *)
  Lemma DR_ins s s' x0 j0 b tg' : DR s -> head s' = head s -> g_in s' = g_in s -> g_segs s' = g_segs s ->
    tail s' = tail s -> del s' = del s -> slot s' = setf2 (slot s) x0 j0 (b, tg') ->
    linked s x0 -> j0 < k -> x0 <= fst (tail s) -> ~ In b (g_in s) -> DR s'.
  Proof.
    intros [D R] E1 E2 E3 E4 E5 E6 L Hj Hx Hb. split.
    - unfold linked. rewrite E1, E3, E5. exact D.
    - unfold linked. rewrite E1, E2, E3, E4, E6. intros x j b0 tg0 Hs Hb0.
      destruct (setf2_cases (slot s) x0 j0 (b, tg') x j) as [(-> & -> & Q)|(Hne & Q)]; rewrite Q in Hs; [|apply (R x j b0 tg0 Hs Hb0)].
      inversion Hs; subst. split; [exact L|]. split; [exact Hj|]. split; [exact Hx|]. intros G. contradiction.
  Qed.

  Lemma DR_step s a s' es : InvA s -> Inv2 s -> InvC s -> step s a = Some (s', es) -> DR s'.
  Proof.
    intros IA Iv IC Hst. pose proof (DR_of s IC) as HD. unfold KfqDefs.step in Hst. destruct a as [t o|t r].
    - destruct (th s t) eqn:E; try discriminate. inversion Hst; subst; clear Hst.
      apply (DR_weak s _ HD); sim; auto; lia.
    - pose proof (a_th k s IA t) as Hme. pose proof (i_th s Iv t) as Hown.
      destruct (th s t) eqn:E; try discriminate; try (match goal with o : op |- _ => destruct o end);
        cbn [TA] in Hme; brk Hst; inversion Hst; subst; clear Hst.
      all: try (apply (DR_weak s _ HD); sim; auto; lia).
      + (* P3 *) destruct Hme as ((L & T) & Hj). unfold T2, T2' in Hown. cbn [cinfo pblock] in Hown.
        eapply (DR_ins s _ (fst tl) j b (otag + 1) HD); sim; try reflexivity; try assumption; [apply (tle_le k Hk); exact T|apply Hown].
      + (* C1 *) apply (DR_commit s _ b HD Iv); sim; try reflexivity.
        intros x j0 tg0 Hs Hn. exfalso. unfold T2, T2' in Hown. cbn [cinfo] in Hown. destruct Hown as [[Q _]|[Q _]]; contradiction.
      + (* C5 *) apply (DR_commit s _ b HD Iv); sim; try reflexivity.
        intros x j0 tg0 Hs Hn. unfold T2, T2' in Hown. cbn [cinfo] in Hown. destruct Hown as [[Q _]|[Q _]]; [|contradiction].
        destruct (i_uniq s Iv x j0 (fst tl) j) as [-> _]; [rewrite Hs, Q; reflexivity|rewrite Hs; cbn|].
        { pose proof (i_own_lt s Iv t b) as W. rewrite E in W. specialize (W eq_refl). lia. }
        destruct Hme as (_ & _ & _ & W). lia.
      + (* C7 *) apply (DR_commit s _ b HD Iv); sim; try reflexivity.
        intros x j0 tg0 Hs Hn. unfold T2, T2' in Hown. cbn [cinfo] in Hown. destruct Hown as [[Q _]|[Q _]]; [|contradiction].
        destruct (i_uniq s Iv x j0 (fst tl) j) as [-> _]; [rewrite Hs, Q; reflexivity|rewrite Hs; cbn|].
        { pose proof (i_own_lt s Iv t b) as W. rewrite E in W. specialize (W eq_refl). lia. }
        destruct (N.lt_ge_cases (fst tl) (fst (head s))) as [W|W]; [|exact W].
        destruct Hme as ((L & _) & _). pose proof (c_del s IC (fst tl) L W). congruence.
      + (* C9 ok *) eapply (DR_clear s _ (fst tl) j b tg (tg + 1) HD Iv); sim; try reflexivity; try eassumption.
        * pose proof (i_own_lt s Iv t b) as W. rewrite E in W. specialize (W eq_refl). lia.
        * intros y Hy; left; exact Hy.
      + (* C9 fail *) apply (DR_commit s _ b HD Iv); sim; try reflexivity.
        intros x j0 tg0 Hs Hn. exfalso. unfold T2, T2' in Hown. cbn [cinfo] in Hown. destruct Hown as [[Q _]|[Q _]]; contradiction.
      + (* A3 *) destruct Hme as (A & B & C & D).
        destruct (nxt_cases k Hk s (fst (tail s)) IA) as [Q|(_ & _ & _ & Hlt)]; [rewrite <- C in Q; rewrite Q in D; cbn in D; congruence|].
        rewrite <- C in Hlt. apply (DR_weak s _ HD); sim; auto; lia.
      + (* A4 link *) destruct Hme as ((Lx & Tl) & B & C & D & F).
        assert (Hx : fst tl = glast s).
        { destruct (N.eq_dec (fst tl) (glast s)) as [Q|Q]; [exact Q|]. destruct (a_succ k s IA (fst tl) Lx Q) as (n0 & Q1 & _). rewrite C in Q1. inversion Q1. }
        pose proof (a_max k s IA _ (a_head k s IA)) as Hhl.
        apply (DR_weak s _ HD); sim; auto; try lia; unfold linked; sim.
        * intros x Hx0. apply in_app_iff. left. exact Hx0.
        * intros x Hx0 Hlt. apply in_app_iff in Hx0. destruct Hx0 as [Hx0|[<-|[]]]; [exact Hx0|lia].
      + (* A5 *) destruct Hme as (A & B & C & D).
        destruct (nxt_cases k Hk s (fst (tail s)) IA) as [Q|(_ & _ & _ & Hlt)]; [rewrite C in Q; inversion Q; congruence|].
        rewrite C in Hlt. cbn [fst] in Hlt. apply (DR_weak s _ HD); sim; auto; lia.
      + (* D4 ok *) eapply (DR_clear s _ (fst hd) j p tg (tg + 1) HD Iv); sim; try reflexivity; try eassumption.
        * apply Hme.
        * intros y Hy. apply commit_in in Hy. exact Hy.
      + (* H6 *) apply (DR_weak s _ HD); sim; auto; try lia.
        intros x Hx. unfold setf. destruct (x =? fst hd); auto.
      + (* H7 *) destruct Hme as ((A & B & C & D & D') & F).
        pose proof (tail_le_last k Hk s IA) as Htl.
        destruct (a_succ k s IA (fst (head s)) A ltac:(lia)) as (n & Q & Ln & Hlt & Hmin).
        rewrite Q in D. subst hn. destruct HD as [HD1 HD2]. split; sim; unfold linked; sim.
        * intros x Hx Hxn. destruct (N.lt_ge_cases (fst (head s)) x) as [W|W]; [specialize (Hmin x Hx W); lia|].
          destruct (N.eq_dec x (fst (head s))) as [->|Hne]; [exact F|]. apply HD1; [exact Hx|lia].
        * intros x j b tg Hs Hb. destruct (HD2 x j b tg Hs Hb) as (A1 & A2 & A3 & A4).
          split; [exact A1|]. split; [exact A2|]. split; [exact A3|]. intros G. specialize (A4 G).
          destruct (N.eq_dec x (fst (head s))) as [->|Hne]; [|apply Hmin; [exact A1|lia]].
          exfalso. assert (Hsc : pend_ok s (fst (head s)) j).
          { apply (c_scan s IC t (head s)); [rewrite E; reflexivity|reflexivity|rewrite E; exact A2]. }
          destruct (Hsc b tg Hs Hb) as [Hn _]. contradiction.
  Qed.

  Lemma InvC_init : InvC init.
  Proof.
    constructor; cbn [init head tail slot g_in th del].
    - intros x [<-|[]]. cbn. lia.
    - intros x j b tg H. inversion H. congruence.
    - intros t hd H. discriminate.
  Qed.

  Lemma InvC_step s a s' es : InvA s -> Inv2 s -> InvC s -> step s a = Some (s', es) -> InvC s'.
  Proof.
    intros IA Iv IC Hst. destruct (DR_step s a s' es IA Iv IC Hst) as [D R].
    constructor; [exact D|exact R|]. exact (scan_inv_step s a s' es IA Iv IC Hst).
  Qed.

  Theorem InvC_reach st : reach init step st -> InvC st.
  Proof.
    apply (inv_rule_aux _ _ _ init step (fun s => InvA s /\ Inv2 s) InvC).
    - intros s Hr. split; [apply InvA_reach|apply (Inv2_reach k Hk)]; assumption.
    - exact InvC_init.
    - intros s a s' es [J1 J2] _ IC Hst. eapply InvC_step; eauto.
  Qed.
End L3.
