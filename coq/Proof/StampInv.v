(** xenium::reclamation::stamp_it (Model/StampDefs.v): the theorems behind C01 / C02 / C17 as far as they are proved.

    The proofs are layered (each layer holds for every reachable state: any number of threads, any client program over
    the operations of the model, any schedule, any number of cells and guard slots):
      Proof/StampBase.v    frame of a step, thread-local shape ([tshape]: region counter = number of non-empty guards +
                           region_guard), exclusive ownership of thread control blocks ([O0])
      Proof/StampNodes.v   where a retired node is ([N0]): exactly one place (local list / global list of chunks / in the
                           hands of a thread / freed), no duplicates, freed at most once, its stamp field
      Proof/StampStamps.v  stamps, flags and marks by the program point of the owner of a block ([S0]); the tail stamp
                           never decreases
      Proof/StampOrder.v   version tags of head->prev, blocks are linked in strictly increasing stamp order ([Q0])
      Proof/StampGuards.v  guards ([G0]) relative to the lower-bound property of the tail stamp ([Tinv])
    This file states the results.  NOT proved: [Tinv] itself (the tail stamp is a lower bound of the stamps of the threads
    inside a critical region) - it needs the full correctness argument of remove / update_tail_stamp with helping;
    C01 is therefore stated for the runs that keep [Tinv] ([stamp_safe_partial]); [Tinv] and the list invariants of
    the thread order queue were checked on the extracted model (ocaml/stamp_explore.ml): 1.4e8 steps of random programs
    and schedules with 2-5 threads, and all schedules of small programs (2 threads, one operation each: complete, 3.6e6 and
    6.0e6 states; 2 threads x 2 operations and 3 threads x enter/leave: the first 1.2e8 / 2.0e8 states) - no violation.
    No axioms. *)
From Coq Require Import NArith List Bool Arith Lia PeanoNat Setoid.
From XV Require Import Conc.Lts Conc.Ev Model.StampDefs Proof.StampBase Proof.StampNodes Proof.StampStamps Proof.StampOrder Proof.StampGuards.
Import ListNotations.
Local Open Scope N_scope.

Section Theorems.
Variables (ns : nat) (nc : N).
Notation reachable := (reach (init nc) (step ns)).

(** * C01 (partial) *)

(** [stamp_safe_partial]: along every run all of whose states satisfy [Tinv] (the stamp of tail is at most the stamp of
    every control block inside a critical region), a node held by a persistent guard_ptr of the client is not reclaimed
    (its deleter has not run, it was not dropped) and no dereference ever hit a destroyed node. *)
Theorem stamp_safe_partial st : reach_in ns nc Tinv st ->
  (forall u i n, gs (tl st u) i = Some n -> dead st n = false /\ g_nfree st n = O) /\ g_uaf st = false.
Proof. apply guards_safe. Qed.

(** ... hence for all runs, should [Tinv] hold in every reachable state *)
Theorem stamp_safe_if_tail_bound : (forall x, reachable x -> Tinv x) -> forall st, reachable st ->
  (forall u i n, gs (tl st u) i = Some n -> dead st n = false /\ g_nfree st n = O) /\ g_uaf st = false.
Proof. intros HT st Hr. apply stamp_safe_partial. apply reach_reach_in; assumption. Qed.

(** the argument behind it: the thread of a guard is inside its critical region, a retired node carries the value of
    head->stamp at the time of its retirement, which is above the stamp of every thread that was then in a region *)
Theorem stamp_guard_region st : reachable st -> forall u i n, gs (tl st u) i = Some n ->
  exists b, cb (tl st u) = Some b /\ g_reg st b = true /\ marked (qprev st (TB b)) = false.
Proof.
  intros Hr u i n Hg. pose proof (S0_reach ns nc st Hr) as S.
  destruct (guard_in_region ns st u i n (T0_reach ns nc st Hr) S Hg) as (b & Hcb & Hreg).
  exists b. split; [exact Hcb|]. split; [exact Hreg|].
  destruct (s_own st S u b Hcb) as (_ & F2 & F3). apply F2. rewrite Hreg in F3.
  unfold inregx. destruct (th st u); try (symmetry; exact F3). reflexivity.
Qed.

Theorem stamp_retire_stamp st : reachable st -> forall n u r, g_life st n = LRet u r ->
  nstamp st n = r.
Proof. intros Hr n u r H. eapply (n_stamp st (N0_reach ns nc st Hr)); eauto. Qed.

(** * the thread order queue: what is proved *)

(** the stamp of a control block and the mark of its prev pointer, by the program point of its owner: inside the critical
    region ([g_reg]: from the compare-and-swap that links the block behind head to the one that marks its prev pointer) the
    prev pointer is unmarked and the stamp has no flag once push has cleared PendingPush; head->stamp is a multiple of 4
    above every stamp handed out *)
Theorem stamp_queue_owner st : reachable st ->
  (qstamp st THead mod 4 = 0 /\ 4 <= qstamp st THead) /\
  (forall b, cst (qstamp st (TB b)) + 4 <= qstamp st THead) /\
  (forall u b, cb (tl st u) = Some b ->
     sform (th st u) (tl st u) (qstamp st (TB b)) /\
     (inregx (th st u) (tl st u) = true -> marked (qprev st (TB b)) = false) /\
     g_reg st b = inreg (th st u) (tl st u)) /\
  (forall b, g_reg st b = true -> exists u, cb (tl st u) = Some b).
Proof.
  intros Hr. pose proof (S0_reach ns nc st Hr) as S. split; [apply S|]. split; [apply S|]. split; [apply S|apply S].
Qed.

(** stamps strictly increase in the order in which blocks are linked behind head (the queue order); linked blocks have
    different stamps; head->prev is never marked *)
Theorem stamp_queue_order st : reachable st ->
  marked (qprev st THead) = false /\
  (g_max st mod 4 = 0 /\ g_max st + 4 <= qstamp st THead) /\
  (forall b, g_lk st b = true -> cst (qstamp st (TB b)) <= g_max st) /\
  (forall b b', b <> b' -> g_lk st b = true -> g_lk st b' = true -> cst (qstamp st (TB b)) <> cst (qstamp st (TB b'))) /\
  (forall u hp v, pend_of (th st u) = Some (hp, v) -> hp = qprev st THead -> g_max st < v).
Proof.
  intros Hr. pose proof (Q0_reach ns nc st Hr) as Q.
  split; [apply Q|]. split; [apply Q|]. split; [intros b Hb; apply (q_lk st Q b Hb)|]. split; [apply Q|apply Q].
Qed.

(** the stamp of tail never decreases *)
Theorem stamp_tail_monotone st a st' es : reachable st -> step ns st a = Some (st', es) -> qstamp st TTail <= qstamp st' TTail.
Proof.
  intros Hr H. destruct a as [t o|t].
  - destruct (start_effect _ _ _ _ _ _ H) as (_ & -> & _). lia.
  - pose proof (S0_reach ns nc st Hr) as S. pose proof (T0_reach ns nc st Hr t) as T.
    destruct (step_qwrites ns st t st' es T H) as (WA & _). pose proof (s_pc st S t) as P.
    destruct (WA TTail) as [E|[[(b & _ & X) _]|[[X _]|[(X & _)|[(f & Ef & E1 & E2)|(_ & k & v & ts & Ef & E1 & E2)]]]]]; try discriminate X.
    + rewrite E. lia.
    + rewrite E1, E2. lia.
    + rewrite Ef in P. cbn in P. rewrite E1, E2. lia.
Qed.

(** * C02, safety half *)

(** [stamp_exactly_once]: a node is freed at most once and only after it was retired; a retired node is in exactly one
    place, which the ghost [g_where] names: the local retire list of one thread, the global list, in the hands of one thread
    (process_global_nodes / add_to_global_retired_nodes), or freed - and it is an element of that list (nothing is dropped, in
    particular not by the hand-over at thread exit) and of no other (nothing is duplicated); the lists are duplicate free *)
Theorem stamp_exactly_once st : reachable st ->
  (forall n, (g_nfree st n <= 1)%nat) /\
  (forall n, g_nfree st n = 1%nat <-> g_where st n = PFreed) /\
  (forall n, g_where st n <> PNone <-> exists t r, g_life st n = LRet t r) /\
  (forall u n, In n (rl (tl st u)) <-> g_where st n = PList u) /\
  (forall n, In n (concat (gret st)) <-> g_where st n = PGlob) /\
  (forall u n, In n (flight (th st u)) <-> g_where st n = PFlight u) /\
  (forall u, NoDup (rl (tl st u))) /\ NoDup (concat (gret st)) /\ (forall u, NoDup (flight (th st u))).
Proof.
  intros Hr. pose proof (N0_reach ns nc st Hr) as I.
  assert (W := n_where st I).
  split; [|split; [|split; [|split; [|split; [|split; [|split; [|split]]]]]]]; try apply I.
  - intros n. specialize (W n). destruct (g_where st n); cbn in W; destruct W as [_ ->]; lia.
  - intros n. specialize (W n). split; intros H.
    + destruct (g_where st n); cbn in W; destruct W as [_ W]; try reflexivity; rewrite W in H; discriminate.
    + rewrite H in W. cbn in W. apply W.
  - intros n. specialize (W n). split.
    + intros H. destruct (g_where st n); cbn in W; destruct W as [W _]; try exact W. congruence.
    + intros (t & r & L) H. rewrite H in W. cbn in W. destruct W as [W _]. eapply W. exact L.
Qed.

(** a node is reclaimed only when its stamp is at most the stamp of tail (read before, and the tail stamp never decreases) *)
Theorem stamp_free_stamp st t st' es : reachable st -> step ns st (Step t) = Some (st', es) ->
  forall n, g_where st' n = PFreed -> g_where st n = PFreed \/ (exists v r, g_life st n = LRet v r /\ r <= qstamp st TTail).
Proof.
  intros Hr H. destruct (step_neffects _ _ _ _ _ (N0_reach ns nc st Hr) (S0_reach ns nc st Hr) H) as (_ & _ & X). exact X.
Qed.

(** * C02, liveness half: what is false *)

(** [stamp_idle_thread_keeps_its_nodes]: a node in the local retire list of thread u (up to max_remaining_retired_nodes = 20
    nodes stay there when u leaves a critical region and was not the last one) is not reclaimed by anything the OTHER threads
    do, however long they run: it is reclaimed only when u itself leaves a critical region again (or exits and hands the list
    to the global list).  So "every retired node is destroyed after all threads left their regions and a bounded number of
    further region entries/exits" holds only if every thread that still has a local list takes part. *)
Definition actor (a : action) : nat := match a with Start t _ => t | Step t => t end.
Theorem stamp_idle_thread_keeps_its_nodes : forall acts st u n, reachable st -> In n (rl (tl st u)) ->
  Forall (fun a => actor a <> u) acts ->
  let st' := fst (fst (run (step ns) st acts)) in
  In n (rl (tl st' u)) /\ g_where st' n = PList u /\ g_nfree st' n = O.
Proof.
  induction acts as [|a rest IH]; intros st u n Hr Hin Hf; cbn [run].
  - cbn [fst]. pose proof (N0_reach ns nc st Hr) as I. split; [exact Hin|].
    pose proof (proj1 (n_list st I u n) Hin) as W. split; [exact W|].
    pose proof (n_where st I n) as K. rewrite W in K. cbn in K. apply K.
  - inversion Hf as [|? ? Ha Hf']; subst.
    destruct (step ns st a) as [[s1 es]|] eqn:Hst.
    + assert (Hr1 : reachable s1) by (eapply reach_step; eauto).
      assert (Hin1 : In n (rl (tl s1 u))).
      { destruct (step_other_thread ns st a s1 es u Hst Ha) as [_ ->]. exact Hin. }
      specialize (IH s1 u n Hr1 Hin1 Hf'). destruct (run (step ns) s1 rest) as [[sf tr] sk]. exact IH.
    + specialize (IH st u n Hr Hin Hf'). destruct (run (step ns) st rest) as [[sf tr] sk]. exact IH.
Qed.

End Theorems.

(** * Examples (executable runs of the model, 2 cells, 3 guard slots; each [Start] is followed by more [Step]s than the
    operation needs, [run] skips the surplus; the corresponding schedules were replayed on the real code, build/h_stamp) *)
Definition steps (t n : nat) : list action := repeat (Step t) n.
Definition run2 (acts : list action) : state := fst (fst (run (step 3) (init 2) acts)).

(** thread 1 (control block h2) holds a guard on node 0 of cell 0 and stays inside its critical region with stamp 4;
    thread 2 (control block h3, stamp 8) replaces the node and retires it with stamp 12 = head->stamp; thread 2 is not
    the last one, the node stays in its local list; the tail stamp is 4 = the stamp of thread 1: [Tinv] holds, the
    hypotheses of [stamp_safe_partial] and [stamp_guard_region] are satisfiable ... *)
Definition ex1_a : list action := ([Start 1 (OHold 0 0)] ++ steps 1 60 ++ [Start 2 (ORepl 0)] ++ steps 2 120)%nat.
Example ex1_guarded_node_survives :
  let st := run2 ex1_a in
  gs (tl st 1%nat) 0%nat = Some 0 /\ g_life st 0 = LRet 2 12 /\ nstamp st 0 = 12 /\ g_where st 0 = PList 2 /\ rl (tl st 2%nat) = [0] /\
  cb (tl st 1%nat) = Some 2 /\ g_reg st 2 = true /\ g_reg st 3 = false /\ qstamp st (TB 2) = 4 /\ qstamp st (TB 3) = 9 /\ qstamp st TTail = 4 /\
  qprev st THead = (Some (TB 2), 6) /\ g_nfree st 0 = O /\ g_uaf st = false.
Proof. vm_compute. repeat split; reflexivity. Qed.

(** ... thread 1 drops its guard and leaves (it was the last one: tail stamp 8), threads 3 and 1 run further critical regions
    (tail stamp 24): node 0 with stamp 12 is still in the local list of the idle thread 2
    ([stamp_idle_thread_keeps_its_nodes]) ... *)
Definition ex1_b : list action :=
  (ex1_a ++ [Start 1 (ODrop 0)] ++ steps 1 120 ++ [Start 3 (ORead 1)] ++ steps 3 200 ++ [Start 3 (ORead 1)] ++ steps 3 200 ++
   [Start 1 (ORead 1)] ++ steps 1 200)%nat.
Example ex1_idle_thread_keeps_the_node :
  let st := run2 ex1_b in
  gs (tl st 1%nat) 0%nat = None /\ g_where st 0 = PList 2 /\ qstamp st TTail = 24 /\ g_nfree st 0 = O /\
  qprev st THead = (Some TTail, 20) /\ qnext st TTail = (Some THead, 16).
Proof. vm_compute. repeat split; reflexivity. Qed.

(** ... and reclaimed when thread 2 passes through one more critical region *)
Definition ex1_c : list action := (ex1_b ++ [Start 2 (ORead 1)] ++ steps 2 200)%nat.
Example ex1_freed_by_its_own_thread :
  let st := run2 ex1_c in g_where st 0 = PFreed /\ g_nfree st 0 = 1%nat /\ rl (tl st 2%nat) = [] /\ qstamp st TTail = 28 /\ g_uaf st = false.
Proof. vm_compute. repeat split; reflexivity. Qed.

(** the hand-over at thread exit: thread 2 exits with node 0 in its local list, the list goes to the global list; thread 1
    leaves as the last one, steals the global list, cannot reclaim the node yet (tail stamp 8 < 12) and puts it back;
    its next critical region reclaims it *)
Definition ex2_a : list action :=
  ([Start 1 (OHold 0 0)] ++ steps 1 60 ++ [Start 2 (ORepl 0)] ++ steps 2 120 ++ [Start 2 OExit] ++ steps 2 20)%nat.
Example ex2_handed_over_at_exit :
  let st := run2 ex2_a in
  gret st = [[0]] /\ g_where st 0 = PGlob /\ cb (tl st 2%nat) = None /\ bstate st 3 = 0 /\ gs (tl st 1%nat) 0%nat = Some 0 /\ g_nfree st 0 = O.
Proof. vm_compute. repeat split; reflexivity. Qed.
Example ex2_put_back_then_freed :
  let st1 := run2 (ex2_a ++ [Start 1 (ODrop 0)] ++ steps 1 120)%nat in
  let st2 := run2 (ex2_a ++ [Start 1 (ODrop 0)] ++ steps 1 120 ++ [Start 1 (ORead 1)] ++ steps 1 200)%nat in
  g_where st1 0 = PGlob /\ qstamp st1 TTail = 8 /\ g_where st2 0 = PFreed /\ g_nfree st2 0 = 1%nat /\ gret st2 = [] /\ qstamp st2 TTail = 16.
Proof. vm_compute. repeat split; reflexivity. Qed.

(** inside push: after the compare-and-swap on head->prev the block is linked ([g_reg], [g_lk], [g_max] = its stamp 4) while
    its stamp still carries PendingPush (2 = 4 - 2); the next step clears the flag ([stamp_queue_owner], [link_order]) *)
Example ex3_pending_push :
  let st1 := run2 ([Start 1 (ORead 0)] ++ steps 1 16)%nat in
  let st2 := run2 ([Start 1 (ORead 0)] ++ steps 1 17)%nat in
  th st1 1%nat = P11 (KRead 0) 4 (Some TTail, 2) /\ qstamp st1 (TB 2) = 2 /\ g_reg st1 2 = true /\ g_lk st1 2 = true /\ g_max st1 = 4 /\
  qstamp st1 THead = 8 /\ qprev st1 THead = (Some (TB 2), 2) /\ qstamp st2 (TB 2) = 4.
Proof. vm_compute. repeat split; reflexivity. Qed.

(** [Tinv] on the state of [ex1_guarded_node_survives]: the only block inside a critical region is h2 with stamp 4 = the
    tail stamp; and the hypotheses of [link_order]: thread 1 at the compare-and-swap of push with an unchanged head->prev *)
Example ex1_tinv : Tinv (run2 ex1_a).
Proof.
  intros b Hb. vm_compute in Hb.
  repeat match type of Hb with context [match ?x with _ => _ end] => destruct x eqn:?E; try discriminate Hb end.
  assert (Hb2 : b = 2).
  { destruct b as [|p]; [discriminate|]. repeat (destruct p as [p|p|]; try discriminate). reflexivity. }
  subst b. vm_compute. discriminate.
Qed.
Example ex3_link_step :
  let st := run2 ([Start 1 (ORead 0)] ++ steps 1 15)%nat in
  th st 1%nat = P10 (KRead 0) (Some TTail, 0) 4 (Some TTail, 2) /\ qprev st THead = (Some TTail, 0) /\ cb (tl st 1%nat) = Some 2 /\ g_max st = 0.
Proof. vm_compute. repeat split; reflexivity. Qed.
