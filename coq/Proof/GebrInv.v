(** xenium::reclamation::generic_epoch_based<Traits> for EVERY configuration of its traits (Model/GebrDefs.v: scan
    frequency, scan strategy all_threads / one_thread / n_threads<N>, abandon strategy never / always /
    when_exceeds_threshold<T>, region extension none / eager / lazy): the theorems behind C01 and C02.

    The proofs are layered (each layer holds for every configuration and every reachable state: any number of threads, any
    client program over the operations of the model, any schedule, any number of cells and guard slots):
      Proof/GebrBase.v    frame of a step, the program points the configuration-dependent selectors can yield
      Proof/GebrShape.v   thread-local shape ([tshape]: nested_critical_entries = number of non-empty guards,
                          region_entries = nested_critical_entries + the region_guard, a thread with a guard is [sync])
      Proof/GebrOwn.v     exclusive ownership of thread control blocks, when the critical-region flag is set ([O0])
      Proof/GebrEpoch.v   the epoch argument ([P1], [PB]): a synchronised thread with validated epoch v keeps
                          global_epoch <= v + 1; the scan invariant covers the persistent iterator of n_threads / DEBRA
      Proof/GebrNodes.v   where a retired node is ([N0]): exactly one place, no duplicates, freed at most once
      Proof/GebrTags.v    in which epoch a node may be freed ([tag_ok]): global_epoch >= r + 3
      Proof/GebrGuards.v  guards ([guard_ok], [guard_not_freed], [uaf_reach])
    This file states the results.  No axioms. *)
From Coq Require Import NArith List Bool Arith Lia PeanoNat Setoid.
From XV Require Import Conc.Lts Conc.Ev Model.GebrDefs Proof.GebrBase Proof.GebrShape Proof.GebrOwn Proof.GebrEpoch Proof.GebrNodes Proof.GebrTags Proof.GebrGuards.
Import ListNotations.
Local Open Scope N_scope.

Section Theorems.
Variables (cfg : config) (ns : nat) (nc : N).
Notation reachable := (reach (init nc) (step cfg ns)).

(** * C01 *)

(** [gebr_safe] (C01): a node protected by a guard_ptr - a persistent guard of the client ([gs]) or the guard of the
    running repl/clear ([tmpg]) - is not freed (and was not dropped by its creator); and no dereference ever hit a
    destroyed node ([g_uaf]). *)
Theorem gebr_safe st : reachable st ->
  (forall u n, holds st u n -> g_nfree st n = O /\ g_where st n <> PFreed /\ g_life st n <> LDropped) /\
  g_uaf st = false.
Proof.
  intros Hr. split; [|apply (uaf_reach cfg ns nc); exact Hr].
  intros u n Hh.
  destruct (guard_not_freed cfg ns st u n (T0_reach cfg ns nc st Hr) (O0_reach cfg ns nc st Hr) (EI_reach cfg ns nc st Hr)
              (N0_reach cfg ns nc st Hr) (tag_reach cfg ns nc st Hr) (GI_reach cfg ns nc st Hr u n Hh) Hh) as (H1 & H2 & H3).
  auto.
Qed.

(** The epoch window.  [ve p x le] is the validated epoch of a thread at program point p with thread-local state x and
    published local epoch le: the epoch it carries through do_enter_critical after the load of global_epoch (the value it
    loaded, the value it advanced the epoch to), or its local_epoch once it is synchronised ([sync]: it compared its
    local epoch with the global epoch it loaded AFTER its flag was set, in the current critical region) - and nothing
    otherwise.  A thread with a validated epoch v has its flag set and keeps v <= global_epoch <= v + 1, for every scan
    strategy (also DEBRA's one-thread-at-a-time scan, whose iterator survives the scanner's critical regions) and every
    region extension.  With region_extension::eager / lazy the thread stays synchronised after its last guard_ptr is gone
    until the region_guard is destroyed; with region_extension::eager the flag is set by the region_guard constructor
    WITHOUT validation: flag set does not imply the window ([nebr_flag_without_validation_refuted] below). *)
Theorem gebr_epoch_window st : reachable st ->
  forall u b v, cb (tl st u) = Some b -> ve (th st u) (tl st u) (blocal st b) = Some v ->
    bflag st b = true /\ blocal st b <= v /\ v <= gep st /\ gep st <= v + 1.
Proof.
  intros Hr u b v Hb Hv. destruct (EI_reach cfg ns nc st Hr) as [P _].
  destruct (P u b Hb) as (P1a & P1b & P1c).
  split; [exact (o_flag cfg st (O0_reach cfg ns nc st Hr) u b Hb (ve_fon cfg _ _ _ _ Hv))|].
  split; [exact (ve_ge _ _ _ _ _ P1b Hv)|]. split; [|exact (P1c v Hv)].
  pose proof (T0_reach cfg ns nc st Hr u) as T.
  destruct (th st u) eqn:E; cbn in Hv, P1a, P1b; try (destruct (sync (tl st u)) eqn:Es; [|discriminate Hv]); injection Hv as <-;
    try lia; try (apply P1a; reflexivity).
  all: exfalso; destruct (ts_c _ _ _ _ T eq_refl) as (_ & X & _); congruence.
Qed.

(** in particular: a thread that holds a guard_ptr is synchronised, and the global epoch is its local epoch or one more *)
Theorem gebr_guard_window st : reachable st ->
  forall u n b, holds st u n -> cb (tl st u) = Some b ->
    sync (tl st u) = true /\ bflag st b = true /\ blocal st b <= gep st /\ gep st <= blocal st b + 1.
Proof.
  intros Hr u n b Hh Hb.
  destruct (holds_shape cfg ns _ _ _ (T0_reach cfg ns nc st Hr u) Hh) as (_ & _ & _ & _ & _ & Hve & Hsy).
  destruct (gebr_epoch_window st Hr u b _ Hb (Hve _)) as (H1 & _ & H3 & H4). auto.
Qed.

(** the scan invariant behind the window, for every scan strategy: while the global epoch still is the scanner's epoch e,
    a control block that is not among those the scan iterator still has to visit ([rem]) belongs to no thread with a
    validated epoch below e.  [scan_of]: scan::all_threads - the scan exists inside scan() and update_global_epoch only;
    scan::n_threads<N> / one_thread (DEBRA) - the iterator is thread-local state, valid at EVERY program point of the
    scanner (also between its operations and outside its critical regions) except while a reset is pending. *)
Theorem gebr_scan_invariant st : reachable st ->
  forall w bw u b e rem v, cb (tl st w) = Some bw -> scan_of cfg (th st w) (tl st w) (blocal st bw) = Some (e, rem) -> gep st = e ->
    cb (tl st u) = Some b -> ~ In b rem -> ve (th st u) (tl st u) (blocal st b) = Some v -> e <= v.
Proof. intros Hr. destruct (EI_reach cfg ns nc st Hr) as [_ B]. exact B. Qed.

(** A node retired in local epoch r is only freed when the global epoch is >= r + 3, whatever way it took: the
    retire list of its thread, an orphan list (abandoned on leaving a critical region, handed over at thread exit, put back
    after a lost race for the epoch), adoption by another thread. *)
Theorem gebr_free_epoch st : reachable st ->
  forall n t r, g_where st n = PFreed -> g_life st n = LRet t r -> r + 3 <= gep st.
Proof.
  intros Hr n t r W L. pose proof (tag_reach cfg ns nc st Hr n) as G. unfold tag_ok in G. rewrite W in G.
  destruct G as (t' & r' & L' & H). rewrite L in L'. injection L' as <- <-. exact H.
Qed.

(** * C02, safety half *)

(** [gebr_exactly_once]: a node is freed at most once and only after it was retired; a retired node is in exactly one
    place, which the ghost [g_where] names: retire list [i] of one thread, one orphan list, adopted by one thread
    inside update_global_epoch, or freed - and it is an element of that list (nothing is dropped: not by abandoning a
    list, not by the hand-over at thread exit, not by putting adopted nodes back) and of no other (nothing is
    duplicated); the lists are duplicate free. *)
Theorem gebr_exactly_once st : reachable st ->
  (forall n, (g_nfree st n <= 1)%nat) /\
  (forall n, g_nfree st n = 1%nat <-> g_where st n = PFreed) /\
  (forall n, g_where st n <> PNone <-> exists t r, g_life st n = LRet t r) /\
  (forall u i n, In n (rl (tl st u) i) <-> g_where st n = PList u i) /\
  (forall i n, In n (orph st i) <-> g_where st n = POrph i) /\
  (forall u n, In n (flight (th st u)) <-> g_where st n = PFlight u) /\
  (forall u i, NoDup (rl (tl st u) i)) /\ (forall i, NoDup (orph st i)) /\ (forall u, NoDup (flight (th st u))).
Proof.
  intros Hr. pose proof (N0_reach cfg ns nc st Hr) as I.
  assert (W := n_where st I).
  split; [|split; [|split; [|split; [|split; [|split; [|split; [|split]]]]]]]; try apply I.
  - intros n. specialize (W n). destruct (g_where st n); cbn in W; destruct W as [_ ->]; lia.
  - intros n. specialize (W n). split; intros H.
    + destruct (g_where st n); cbn in W; destruct W as [_ W]; try reflexivity; rewrite W in H; discriminate.
    + rewrite H in W. cbn in W. apply W.
  - intros n. specialize (W n). split.
    + intros H. destruct (g_where st n); cbn in W; destruct W as [W _]; try exact W. congruence.
    + intros (t & r & L) H. rewrite H in W. cbn in W. destruct W as [W _]. eapply W. exact L.
Qed.

(** the same at the level of the FREE events of one step: a FREE is the client's delete of its own never published node
    (lost CAS of repl), the harness' delete of a region_guard object, or the reclaimer's delete of a retired node that had
    not been freed before *)
Definition is_rg_free (st : state) (t : nat) (n : N) : Prop :=
  rg (tl st t) = Some n \/ (exists r, th st t = LV (LFin r (Some n))) \/ (exists r i, th st t = B1 (LFin r (Some n)) i) \/
  (exists r i h, th st t = B2 (LFin r (Some n)) i h) \/ th st t = LV (LExit (Some n)) \/ (exists i, th st t = B1 (LExit (Some n)) i) \/
  (exists i h, th st t = B2 (LExit (Some n)) i h).

Theorem gebr_free_event st a st' es : reachable st -> step cfg ns st a = Some (st', es) ->
  forall t n, In (EFree t n) es ->
    (g_life st n = LFresh t /\ g_life st' n = LDropped) \/
    is_rg_free st t n \/
    ((exists t' r, g_life st n = LRet t' r) /\ g_nfree st n = O /\ g_nfree st' n = 1%nat).
Proof.
  intros Hr H t0 n Hin.
  assert (Hr' : reachable st') by (eapply reach_step; eauto).
  pose proof (N0_reach cfg ns nc st Hr) as I. pose proof (N0_reach cfg ns nc st' Hr') as I'.
  assert (Hret : forall m, g_where st m <> PNone -> g_where st m <> PFreed -> g_where st' m = PFreed ->
                 (exists t' r, g_life st m = LRet t' r) /\ g_nfree st m = O /\ g_nfree st' m = 1%nat).
  { intros m H1 H2 H3. pose proof (n_where st I m) as W. pose proof (n_where st' I' m) as W'. rewrite H3 in W'. cbn in W'.
    destruct (g_where st m); cbn in W; try congruence; destruct W as [W1 W2]; destruct W' as [_ W2']; auto. }
  destruct a as [t o|t]; [unfold step in H; step_split H; destruct Hin|].
  unfold_step H. cbv zeta in H. step_split H.
  all: bool_eqs; cbn [In app free_evs free_opt map] in Hin; rewrite ?in_app_iff in Hin; cbn [In] in Hin.
  all: repeat match goal with H : _ \/ _ |- _ => destruct H end; try discriminate; try contradiction.
  all: try match goal with H : In (EFree _ _) (free_evs _ _) |- _ => unfold free_evs in H; apply in_map_iff in H; destruct H as (m & Hm & Hl); injection Hm as Ht0 Hn0; subst m; subst t0 end.
  all: try match goal with H : In (EFree _ _) (free_opt _ ?o) |- _ => let Eo := fresh "Eo" in destruct o eqn:Eo; cbn [free_opt In] in H; [destruct H as [H|[]]|destruct H] end.
  all: try match goal with H : EFree _ _ = EFree _ _ |- _ => injection H as Ht0 Hn0; subst t0; try subst n end.
  all: try solve [left; split; [apply (n_fresh1 st I t); rewrite E; reflexivity | prj; rewrite ?updN_same; reflexivity]].
  all: try solve [left; split; [apply (n_fresh1 st I t); rewrite E; reflexivity | prj; destruct (g_life st n); reflexivity]].
  all: try solve [right; left; unfold is_rg_free; rewrite E; eauto 10].
  all: try solve [right; left; unfold is_rg_free; left; assumption].
  1: { (* G5: the adopted nodes *)
    right; right. assert (Hw : g_where st n = PFlight t) by (apply (n_flight st I t n); rewrite E; exact Hl).
    apply Hret; [congruence|congruence|]. prj. assert (M : memN n l = true) by (apply memN_In; exact Hl). rewrite M. reflexivity. }
  (* U2: the slots of the epochs passed *)
  all: right; right; apply in_flat_map in Hl; destruct Hl as (i & Hi & Hl);
    assert (Hw : g_where st n = PList t i) by (apply (n_list st I t i n); exact Hl);
    apply Hret; [congruence|congruence|]; prj;
    assert (M : memN n (flat_map (rl (tl st t)) (uslots new old)) = true) by (apply memN_In; apply in_flat_map; eauto);
    rewrite M; reflexivity.
Qed.
End Theorems.

(** * Examples (executable runs of the model; [op t o] starts operation o of thread t and gives it more steps than it
    needs - [run] skips the surplus) *)
Definition steps (t n : nat) : list action := repeat (Step t) n.
Definition op (t : nat) (o : op) : list action := Start t o :: steps t 60.
Definition run2 (cfg : config) (acts : list action) : state := fst (fst (run (step cfg 3) (init 2) acts)).

(** new_epoch_based (eager region extension): thread 1 opens a region_guard and holds a guard on node 0 (cell 0); thread 2
    replaces the node and retires it (local epoch 0), then enters critical regions again and again: the global epoch gets
    to 1 and stays there (thread 1 is synchronised with epoch 0), node 0 stays in thread 2's retire list 0 ... *)
Definition ex1_before : list action :=
  op 1 OEnter ++ op 1 (OHold 0 0) ++ op 2 (ORepl 0) ++ op 2 (ORead 1) ++ op 2 (ORead 1) ++ op 2 (ORead 1) ++ op 2 (ORead 1) ++ op 2 (ORead 1).
(** ... until thread 1 drops its guard, closes the region and exits: three more epochs, and node 0 is freed *)
Definition ex1_after : list action :=
  op 1 (ODrop 0) ++ op 1 OLeave ++ op 1 OExit ++ op 2 (ORead 1) ++ op 2 (ORead 1) ++ op 2 (ORead 1) ++ op 2 (ORead 1) ++ op 2 (ORead 1) ++ op 2 (ORead 1).

Example ex1_guarded_node_survives :
  let st := run2 cfg_NEBR ex1_before in
  gs (tl st 1%nat) 0%nat = Some 0 /\ sync (tl st 1%nat) = true /\ rent (tl st 1%nat) = 2%nat /\ g_life st 0 = LRet 2 0 /\
  g_where st 0 = PList 2 0 /\ gep st = 1 /\ g_nfree st 0 = O /\ g_uaf st = false.
Proof. vm_compute. repeat split; reflexivity. Qed.

Example ex1_freed_later :
  let st := run2 cfg_NEBR (ex1_before ++ ex1_after) in
  g_where st 0 = PFreed /\ g_nfree st 0 = 1%nat /\ gep st = 4 /\ g_uaf st = false.
Proof. vm_compute. repeat split; reflexivity. Qed.

(** abandon::always: thread 1 retires node 0 and abandons it to orphan list 0 when it leaves its critical region (it stays
    alive) ... *)
Definition ex2_before : list action := op 1 (ORepl 0).
(** ... thread 2 adopts it when it advances the epoch to 3 and frees it *)
Definition ex2_after : list action :=
  op 2 (ORead 1) ++ op 2 (ORead 1) ++ op 2 (ORead 1) ++ op 2 (ORead 1) ++ op 2 (ORead 1) ++ op 2 (ORead 1) ++ op 2 (ORead 1) ++ op 2 (ORead 1).

Example ex2_abandoned :
  let st := run2 cfg_GEBR_aband ex2_before in
  orph st 0 = [0] /\ g_where st 0 = POrph 0 /\ g_life st 0 = LRet 1 0 /\ cb (tl st 1%nat) = Some 2 /\ rl (tl st 1%nat) 0 = [] /\ g_nfree st 0 = O.
Proof. vm_compute. repeat split; reflexivity. Qed.

Example ex2_adopted_and_freed :
  let st := run2 cfg_GEBR_aband (ex2_before ++ ex2_after) in
  orph st 0 = [] /\ g_where st 0 = PFreed /\ g_nfree st 0 = 1%nat /\ gep st = 4.
Proof. vm_compute. repeat split; reflexivity. Qed.

(** debra (one thread per scan): thread 1 holds a guard on node 0, thread 2 retires it; thread 2's scan iterator has passed
    its own control block 3 only by looking at one entry per scan, and is stuck at thread 1's control block 2 (the list is
    [3; 2]): the epoch stays at 1 ... *)
Definition ex3_before : list action := op 1 (OHold 0 0) ++ op 2 (ORepl 0) ++ op 2 (ORead 1) ++ op 2 (ORead 1) ++ op 2 (ORead 1) ++ op 2 (ORead 1) ++ op 2 (ORead 1).
Definition ex3_after : list action :=
  op 1 (ODrop 0) ++ concat (repeat (op 2 (ORead 1)) 14).

Example ex3_debra_scan_blocked :
  let st := run2 cfg_DEBRA ex3_before in
  blist st = [3; 2] /\ sit (tl st 2%nat) = [2] /\ gs (tl st 1%nat) 0%nat = Some 0 /\ g_where st 0 = PList 2 0 /\ gep st = 1 /\ g_nfree st 0 = O.
Proof. vm_compute. repeat split; reflexivity. Qed.

Example ex3_debra_freed_later :
  let st := run2 cfg_DEBRA (ex3_before ++ ex3_after) in
  g_where st 0 = PFreed /\ g_nfree st 0 = 1%nat /\ gep st = 5 /\ g_uaf st = false.
Proof. vm_compute. repeat split; reflexivity. Qed.

(** lazy region extension: the region_guard alone does not set the flag; the first guard_ptr does, and the flag (and the
    validated epoch) stays until the region_guard is destroyed *)
Example ex5_lazy_region :
  let s1 := run2 cfg_GEBR_lazy (op 1 OEnter) in
  let s2 := run2 cfg_GEBR_lazy (op 1 OEnter ++ op 1 (ORead 0)) in
  let s3 := run2 cfg_GEBR_lazy (op 1 OEnter ++ op 1 (ORead 0) ++ op 1 OLeave) in
  (bflag s1 3 = false /\ sync (tl s1 1%nat) = false /\ rent (tl s1 1%nat) = 1%nat) /\
  (bflag s2 3 = true /\ sync (tl s2 1%nat) = true /\ nest (tl s2 1%nat) = O /\ th s2 1%nat = Idle) /\
  (bflag s3 3 = false /\ sync (tl s3 1%nat) = false).
Proof. vm_compute. repeat split; reflexivity. Qed.

(** * Refuted: "the critical-region flag is set => the global epoch is at most one ahead of the thread's local epoch".
    With region_extension::eager the region_guard constructor sets the flag and does not look at the epoch: thread 1 has
    registered in epoch 0, thread 2 advances the global epoch to 3, then thread 1 opens a region_guard - it is between
    two operations, its flag is set, its local epoch is 0 and the global epoch is 3.  (It holds no guard_ptr, is not
    synchronised, and from now on the epoch cannot advance until it enters a critical section: this is safe.)  The same
    holds at the program points between set_critical_region_flag and the comparison of the epochs in every configuration;
    the window theorem therefore speaks about VALIDATED epochs. *)
Definition ex4 : list action :=
  op 1 (ORead 0) ++ concat (repeat (op 2 (ORead 1)) 6) ++ op 1 OEnter.
Theorem nebr_flag_without_validation_refuted :
  exists st u b, reach (init 2) (step cfg_NEBR 3) st /\ th st u = Idle /\ cb (tl st u) = Some b /\ bflag st b = true /\
    sync (tl st u) = false /\ blocal st b + 1 < gep st.
Proof.
  exists (run2 cfg_NEBR ex4), 1%nat, 2. split; [apply run_reach|]. vm_compute. repeat split; reflexivity.
Qed.
