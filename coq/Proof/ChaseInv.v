(** Safety invariant of the Chase-Lev work-stealing deque (fixed-capacity container) on the
    step-level model of Model/ChaseDefs.v: structural invariant, thief-read lemma and conservation
    of the multiset of values.  Every statement is closed under the global context. *)
From Coq Require Import NArith ZArith List Bool Lia Permutation PeanoNat.
From XV Require Import Base.Word Conc.Lts Conc.Ev gen.GrowingArrayGen Model.ChaseDefs.
Import ListNotations.
Local Open Scope N_scope.

(** * 1. Index ranges *)

Definition index_range (lo hi : N) : list N :=
  map (fun k => lo + N.of_nat k) (seq 0 (N.to_nat (hi - lo))).

Lemma index_range_nil lo hi : hi <= lo -> index_range lo hi = [].
Proof.
  intros H. unfold index_range. replace (hi - lo) with 0 by lia. reflexivity.
Qed.

Lemma index_range_snoc lo hi : lo <= hi -> index_range lo (hi + 1) = index_range lo hi ++ [hi].
Proof.
  intros H. unfold index_range.
  replace (N.to_nat (hi + 1 - lo)) with (S (N.to_nat (hi - lo))) by lia.
  rewrite seq_S, map_app. cbn [map Nat.add]. f_equal. f_equal. lia.
Qed.

Lemma index_range_cons lo hi : lo < hi -> index_range lo hi = lo :: index_range (lo + 1) hi.
Proof.
  intros H. unfold index_range.
  replace (N.to_nat (hi - lo)) with (S (N.to_nat (hi - (lo + 1)))) by lia.
  cbn [seq map]. f_equal; [lia|].
  rewrite <- seq_shift, map_map. apply map_ext. intros a. lia.
Qed.

Lemma index_range_In lo hi i : In i (index_range lo hi) <-> lo <= i < hi.
Proof.
  unfold index_range. rewrite in_map_iff. split.
  - intros (k & <- & Hk). apply in_seq in Hk. lia.
  - intros Hi. exists (N.to_nat (i - lo)). split; [lia|]. apply in_seq. lia.
Qed.

Lemma index_range_length lo hi : length (index_range lo hi) = N.to_nat (hi - lo).
Proof. unfold index_range. rewrite map_length, seq_length. reflexivity. Qed.

(** * 2. Slots of the fixed-size circular array *)

Lemma land_mask_mod k i : N.land i (2 ^ k - 1) = i mod 2 ^ k.
Proof.
  replace (2 ^ k - 1) with (N.ones k) by (rewrite N.ones_equiv; apply N.pred_sub).
  apply N.land_ones.
Qed.

Lemma mod_neq_window c i b : c <> 0 -> i < b -> b < i + c -> i mod c <> b mod c.
Proof.
  intros Hc H1 H2 E.
  assert (Hi := N.div_mod i c Hc). assert (Hb := N.div_mod b c Hc).
  rewrite E in Hi. set (r := b mod c) in *. set (qi := i / c) in *. set (qb := b / c) in *.
  destruct (N.le_gt_cases qb qi) as [L|L]; nia.
Qed.

Lemma slot_neq k i b : i < b -> b < i + 2 ^ k -> N.land i (2 ^ k - 1) <> N.land b (2 ^ k - 1).
Proof.
  intros H1 H2. rewrite !land_mask_mod. apply mod_neq_window; [|exact H1|exact H2].
  apply N.pow_nonzero. discriminate.
Qed.

(** * 3. No-wrap arithmetic *)

Lemma pow2_62 : 2 ^ 62 = 4611686018427387904.
Proof. reflexivity. Qed.
Lemma pow2_64 : 2 ^ 64 = 18446744073709551616.
Proof. reflexivity. Qed.

Lemma wadd1 x : x <= 2 ^ 62 -> wadd 64 x 1 = x + 1.
Proof. intros H. apply wadd_small. lia. Qed.

Lemma wsub_le a b : b <= a -> a <= 2 ^ 62 -> wsub 64 a b = a - b.
Proof. intros H1 H2. apply wsub_small; [exact H1|]. lia. Qed.

Lemma pow2_63 : 2 ^ (64 - 1) = 9223372036854775808.
Proof. reflexivity. Qed.
Lemma sval_small x : x < 9223372036854775808 -> sval 64 x = Z.of_N x.
Proof. intros H. unfold sval. rewrite pow2_63. destruct (N.ltb_spec x 9223372036854775808); [reflexivity|lia]. Qed.
Lemma sval_big x : 9223372036854775808 <= x -> sval 64 x = (Z.of_N x - 18446744073709551616)%Z.
Proof. intros H. unfold sval. rewrite pow2_63, pow2_64. destruct (N.ltb_spec x 9223372036854775808); [lia|reflexivity]. Qed.
Lemma sdiff_pos_lt b t : b <= 2 ^ 62 -> t <= 2 ^ 62 -> sdiff_pos b t = true -> t < b.
Proof.
  intros Hb Ht H. rewrite pow2_62 in Hb, Ht. unfold sdiff_pos in H. apply negb_true_iff in H.
  unfold sle in H. apply Z.leb_gt in H. rewrite (sval_small 0) in H by lia.
  destruct (N.lt_ge_cases t b) as [L|L]; [exact L|exfalso].
  destruct (N.eq_dec t b) as [->|Hne].
  - rewrite wsub_small in H by (rewrite ?pow2_64; lia).
    rewrite N.sub_diag in H. rewrite (sval_small 0) in H by lia. lia.
  - rewrite wsub_wrap in H by (rewrite ?pow2_64; lia).
    rewrite pow2_64 in H. rewrite sval_big in H by lia. lia.
Qed.

(** * 4. The invariant *)

(** content of the circular array at (unwrapped) index [i] *)
Definition cell (c : N) (m : N -> N -> N) (i : N) : N := m 0 (N.land i (c - 1)).

(** values stored at the live indices [top, bottom) *)
Definition live (st : state) (c : N) : list N :=
  map (fun i => mem (sh st) 0 (N.land i (c - 1))) (index_range (top (sh st)) (bottom (sh st))).

(** the owner is in the tail of try_pop: [bottom] has been decremented and not yet restored *)
Definition in_pop_tail (p : pc) : bool :=
  match p with Po4 _ | Po5 _ _ | Po6 _ _ | Po7 _ _ _ | Po8 _ _ => true | _ => false end.

(** logical bottom: one past the last index that still belongs to the abstract deque *)
Definition lbot (B : N) (p : pc) : N := if in_pop_tail p then B + 1 else B.

(** abstract deque content, oldest first *)
Definition abs (c : N) (st : state) : list N :=
  map (cell c (mem (sh st))) (index_range (top (sh st)) (lbot (bottom (sh st)) (th st owner))).

Definition plen (st : state) : N := N.of_nat (length (g_pushed st)).

Definition thief_pc (p : pc) : Prop :=
  match p with
  | Idle | Begin OSteal | St1 | St2 _ | St4 _ _ | St5 _ _ => True
  | _ => False
  end.

(** facts about the locals of a thread inside try_steal *)
Definition thief_ok (T Bl : N) (M : N -> N) (p : pc) : Prop :=
  match p with
  | St2 t => t <= T
  | St4 t _ => t <= T /\ (t = T -> t < Bl)
  | St5 t x => t <= T /\ (t = T -> t < Bl /\ x = M t)
  | St3 _ => False
  | _ => True
  end.

(** facts about the locals of the owner inside try_push / try_pop *)
Definition owner_ok (c T B : N) (M : N -> N) (p : pc) : Prop :=
  match p with
  | Pu2 _ b => b = B
  | Pu5 _ b _ => b = B /\ b < T + c
  | Pu6 v b => b = B /\ b < T + c /\ M b = v
  | Po2 b => b = B
  | Po3 b => b = B /\ 0 < b
  | Po5 b _ => b = B
  | Po6 b x => b = B /\ x = M b
  | Po7 b x tp => b = B /\ x = M b /\ tp = b /\ tp <= T
  | Po8 nb _ => nb = B + 1 /\ T = nb
  | Pu3 _ _ _ | PuCanGrow _ _ _ | PuGrow0 _ _ _ | PuGrowLd _ _ _ _ | PuGrowSt _ _ _ _ _
  | PuGrowEnd _ _ _ | Pu4 _ _ | Po4 _ | St3 _ => False
  | _ => True
  end.

Record Inv (c : N) (st : state) : Prop := mkInv {
  i_own : forall t, t <> owner -> thief_pc (th st t);
  i_T_le : top (sh st) <= lbot (bottom (sh st)) (th st owner);
  i_cap : lbot (bottom (sh st)) (th st owner) <= top (sh st) + c;
  i_P : lbot (bottom (sh st)) (th st owner) <= plen st;
  i_opc : owner_ok c (top (sh st)) (bottom (sh st)) (cell c (mem (sh st))) (th st owner);
  i_tpc : forall t, thief_ok (top (sh st)) (lbot (bottom (sh st)) (th st owner)) (cell c (mem (sh st))) (th st t);
  i_cons : Permutation (g_taken st ++ abs c st) (g_pushed st)
}.

Lemma thief_pc_lbot B p : thief_pc p -> lbot B p = B.
Proof. destruct p; cbn; try contradiction; try reflexivity. Qed.

Lemma thief_pc_owner_ok c T B M p : thief_pc p -> owner_ok c T B M p.
Proof. destruct p; cbn; try contradiction; auto. Qed.

Lemma thief_ok_mono T Bl M T' Bl' M' p :
  thief_ok T Bl M p -> T <= T' ->
  (T' = T -> T < Bl -> T < Bl' /\ M' T = M T) ->
  thief_ok T' Bl' M' p.
Proof.
  intros H HT HF. destruct p; cbn in *; auto.
  - lia.
  - destruct H as [H1 H2]. split; [lia|]. intros E.
    assert (E' : T' = T) by lia. rewrite E' in E. specialize (H2 E).
    destruct (HF E') as [F1 F2]; [lia|]. lia.
  - destruct H as [H1 H2]. split; [lia|]. intros E.
    assert (E' : T' = T) by lia. rewrite E' in E. destruct (H2 E) as [H3 H4].
    destruct (HF E') as [F1 F2]; [lia|]. subst t. split; [lia|]. congruence.
Qed.

Lemma owner_ok_mono c T B M T' p :
  owner_ok c T B M p -> T <= T' -> T' <= lbot B p -> owner_ok c T' B M p.
Proof.
  intros H HT HB. destruct p; cbn in *; auto; lia.
Qed.

(** generic preservation lemma: thread [t] moves to [p'], the shared state becomes [s'] *)
Lemma inv_step_gen c st t p' s' n' gp' gt' :
  Inv c st ->
  (t <> owner -> thief_pc p') ->
  forall po', po' = upd (th st) t p' owner ->
  top (sh st) <= top s' ->
  top s' <= lbot (bottom s') po' ->
  lbot (bottom s') po' <= top s' + c ->
  lbot (bottom s') po' <= N.of_nat (length gp') ->
  (top s' = top (sh st) -> top (sh st) < lbot (bottom (sh st)) (th st owner) ->
   top (sh st) < lbot (bottom s') po' /\
   cell c (mem s') (top (sh st)) = cell c (mem (sh st)) (top (sh st))) ->
  owner_ok c (top s') (bottom s') (cell c (mem s')) po' ->
  thief_ok (top s') (lbot (bottom s') po') (cell c (mem s')) p' ->
  Permutation (gt' ++ map (cell c (mem s')) (index_range (top s') (lbot (bottom s') po'))) gp' ->
  Inv c (mkSt s' (upd (th st) t p') n' gp' gt').
Proof.
  intros HI Hth po' Hpo HT H1 H2 H3 HF Ho Hp HC. subst po'.
  constructor; cbn [sh th g_pushed g_taken]; unfold abs, plen; cbn [sh th g_pushed g_taken]; auto.
  - intros t' Ht'. unfold upd. destruct (Nat.eqb_spec t' t) as [->|Hne]; [auto|apply (i_own _ _ HI); auto].
  - intros t'. unfold upd at 2. destruct (Nat.eqb_spec t' t) as [->|Hne]; [exact Hp|].
    eapply thief_ok_mono; [apply (i_tpc _ _ HI t')|exact HT|exact HF].
Qed.

(** special case: only the program counter of [t] changes *)
Lemma inv_step_pc c st t p' n' :
  Inv c st ->
  (t <> owner -> thief_pc p') ->
  in_pop_tail p' = in_pop_tail (th st t) ->
  (t = owner -> owner_ok c (top (sh st)) (bottom (sh st)) (cell c (mem (sh st))) p') ->
  thief_ok (top (sh st)) (lbot (bottom (sh st)) (th st owner)) (cell c (mem (sh st))) p' ->
  Inv c (mkSt (sh st) (upd (th st) t p') n' (g_pushed st) (g_taken st)).
Proof.
  intros HI Hth Hpt Ho Hp.
  assert (HL : lbot (bottom (sh st)) (upd (th st) t p' owner) = lbot (bottom (sh st)) (th st owner)).
  { unfold upd. destruct (Nat.eqb_spec owner t) as [<-|Hne]; [|reflexivity].
    unfold lbot. rewrite Hpt. reflexivity. }
  apply inv_step_gen with (po' := upd (th st) t p' owner); try rewrite HL.
  - exact HI.
  - exact Hth.
  - reflexivity.
  - lia.
  - apply (i_T_le _ _ HI).
  - apply (i_cap _ _ HI).
  - apply (i_P _ _ HI).
  - intros _ H. split; [exact H|reflexivity].
  - unfold upd. destruct (Nat.eqb_spec owner t) as [<-|Hne]; [auto|apply (i_opc _ _ HI)].
  - exact Hp.
  - apply (i_cons _ _ HI).
Qed.

(** * 5. Small facts used in the step proof *)

Lemma cell_set_same c m b v : cell c (mset m 0 (N.land b (c - 1)) v) b = v.
Proof. unfold cell, mset. rewrite !N.eqb_refl. reflexivity. Qed.

Lemma cell_set_other k m b v i :
  i < b -> b < i + 2 ^ k -> cell (2 ^ k) (mset m 0 (N.land b (2 ^ k - 1)) v) i = cell (2 ^ k) m i.
Proof.
  intros H1 H2. unfold cell, mset. cbn [andb N.eqb].
  destruct (N.eqb_spec (N.land i (2 ^ k - 1)) (N.land b (2 ^ k - 1))) as [E|E]; [|reflexivity].
  exfalso. revert E. apply slot_neq; assumption.
Qed.

Lemma perm_push (gt l gp : list N) v :
  Permutation (gt ++ l) gp -> Permutation (gt ++ l ++ [v]) (gp ++ [v]).
Proof. intros H. rewrite app_assoc. apply Permutation_app_tail. exact H. Qed.

Lemma perm_take_last (gt l gp : list N) x :
  Permutation (gt ++ l ++ [x]) gp -> Permutation ((gt ++ [x]) ++ l) gp.
Proof.
  intros H. rewrite <- H. rewrite <- app_assoc. apply Permutation_app_head. apply Permutation_app_comm.
Qed.

Lemma perm_take_first (gt l gp : list N) x :
  Permutation (gt ++ x :: l) gp -> Permutation ((gt ++ [x]) ++ l) gp.
Proof. intros H. rewrite <- app_assoc. exact H. Qed.

Lemma le_lbot B p : B <= lbot B p.
Proof. unfold lbot. destruct (in_pop_tail p); lia. Qed.

Lemma plen_app st v : N.of_nat (length (g_pushed st ++ [v])) = plen st + 1.
Proof. unfold plen. rewrite app_length. cbn [length]. lia. Qed.

(** * 6. Every step preserves the invariant (as long as fewer than 2^62 pushes completed) *)

Ltac pc_only HI Hp :=
  apply inv_step_pc;
  [ exact HI
  | intros Hne; try exact I; try (exfalso; apply Hne; reflexivity)
  | rewrite Hp; reflexivity
  | intros _; cbn [owner_ok]
  | cbn [thief_ok] ].

Ltac gen_step HI Hp p :=
  apply inv_step_gen with (po' := p);
  [ exact HI
  | intros Hne; try exact I; try (exfalso; apply Hne; reflexivity)
  | rewrite ?upd_same; reflexivity
  | .. ];
  unfold lbot; rewrite ?Hp;
  cbn [top bottom mem set_top set_bottom set_mem fst snd in_pop_tail owner_ok thief_ok].

Lemma step_inv k c st a st' es :
  c = 2 ^ k -> plen st < 2 ^ 62 -> Inv c st ->
  step (Fixed c) st a = Some (st', es) -> Inv c st'.
Proof.
  intros Hc HP HI Hst.
  pose proof (i_T_le _ _ HI) as HTle. pose proof (i_cap _ _ HI) as Hcap.
  pose proof (i_P _ _ HI) as HPl. pose proof (i_opc _ _ HI) as Hopc.
  pose proof (i_cons _ _ HI) as Hcons. unfold abs in Hcons.
  pose proof (le_lbot (bottom (sh st)) (th st owner)) as HBl.
  unfold plen in HP, HPl.
  unfold step, is_growing, init_cap, slot in Hst.
  destruct a as [t o|t].
  - destruct (th st t) eqn:Hp; try discriminate.
    destruct (match o with OSteal => true | _ => (t =? owner)%nat end) eqn:Ho; [|discriminate].
    inversion Hst; subst st' es; clear Hst.
    pc_only HI Hp; auto.
    destruct o; cbn; auto; apply Nat.eqb_eq in Ho; contradiction.
  - pose proof (i_tpc _ _ HI t) as Htpc.
    assert (Hown : ~ thief_pc (th st t) -> t = owner).
    { intros Hn. destruct (Nat.eq_dec t owner); [auto|]. exfalso; apply Hn, (i_own _ _ HI); auto. }
    destruct (th st t) eqn:Hp; try discriminate;
      try (assert (t = owner) by (apply Hown; cbn; tauto); subst t; rewrite Hp in *;
           unfold lbot in HTle, Hcap, HPl, Hcons; cbn [owner_ok in_pop_tail thief_ok] in * );
      try contradiction; cbn [thief_ok] in Htpc.
    + (* Begin *)
      destruct o; cbn [opcode] in Hst; inversion Hst; subst st' es; clear Hst.
      * assert (t = owner) by (apply Hown; cbn; tauto). subst t. pc_only HI Hp; auto.
      * assert (t = owner) by (apply Hown; cbn; tauto). subst t. pc_only HI Hp; auto.
      * pc_only HI Hp; auto.
    + (* Pu1 *)
      inversion Hst; subst st' es; clear Hst. pc_only HI Hp; auto.
    + (* Pu2 *)
      destruct (N.leb_spec c (wsub 64 b (top (sh st)))) as [L|L];
        inversion Hst; subst st' es; clear Hst; pc_only HI Hp; auto.
      rewrite wsub_le in L by lia. lia.
    + (* Pu5 *)
      inversion Hst; subst st' es; clear Hst.
      destruct Hopc as [-> Hb].
      gen_step HI Hp (Pu6 v (bottom (sh st))); try lia.
      * intros _ HT. split; [exact HT|]. subst c. apply cell_set_other; lia.
      * split; [reflexivity|split;[exact Hb|apply cell_set_same]].
      * erewrite map_ext_in; [exact Hcons|]. intros i Hi. apply index_range_In in Hi.
        subst c. apply cell_set_other; lia.
    + (* Pu6 *)
      inversion Hst; subst st' es; clear Hst.
      destruct Hopc as (-> & Hb & Hv).
      rewrite wadd1 by lia.
      gen_step HI Hp Idle; try rewrite plen_app; unfold plen; try lia.
      * rewrite index_range_snoc by lia. rewrite map_app. cbn [map]. rewrite Hv.
        apply perm_push. exact Hcons.
    + (* Po1 *)
      inversion Hst; subst st' es; clear Hst. pc_only HI Hp; auto.
    + (* Po2 *)
      destruct (N.eqb_spec b (top (sh st))) as [E|E];
        inversion Hst; subst st' es; clear Hst; pc_only HI Hp; auto.
      lia.
    + (* Po3 *)
      inversion Hst; subst st' es; clear Hst.
      destruct Hopc as (-> & Hb).
      rewrite wsub_le by lia.
      gen_step HI Hp (Po5 (bottom (sh st) - 1) c); try lia; try exact I.
      replace (bottom (sh st) - 1 + 1) with (bottom (sh st)) by lia. exact Hcons.
    + (* Po5 *)
      inversion Hst; subst st' es; clear Hst. pc_only HI Hp; auto.
    + (* Po6 *)
      destruct Hopc as (-> & Hx).
      destruct (N.ltb_spec (top (sh st)) (bottom (sh st))) as [L|L].
      * inversion Hst; subst st' es; clear Hst.
        gen_step HI Hp Idle; try lia; try exact I.
        apply perm_take_last. rewrite index_range_snoc, map_app in Hcons by lia.
        cbn [map] in Hcons. rewrite <- Hx in Hcons. exact Hcons.
      * destruct (N.eqb_spec (bottom (sh st)) (top (sh st))) as [E|E];
          inversion Hst; subst st' es; clear Hst; pc_only HI Hp; auto; lia.
    + (* Po7 *)
      destruct Hopc as (-> & Hx & -> & Ht).
      destruct (N.eqb_spec (top (sh st)) (bottom (sh st))) as [E|E];
        inversion Hst; subst st' es; clear Hst.
      * rewrite wadd1 by lia.
        gen_step HI Hp (Po8 (bottom (sh st) + 1) (Some x)); try lia; try exact I.
        apply perm_take_first. rewrite E in *.
        rewrite index_range_cons in Hcons by lia.
        rewrite index_range_nil in * by lia. cbn [map] in *. rewrite Hx. exact Hcons.
      * pc_only HI Hp; auto; lia.
    + (* Po8 *)
      inversion Hst; subst st' es; clear Hst.
      destruct Hopc as (-> & Ht).
      gen_step HI Hp Idle; try lia; try exact I.
      exact Hcons.
    + (* St1 *)
      inversion Hst; subst st' es; clear Hst. pc_only HI Hp; auto.
      lia.
    + (* St2 *)
      destruct (sdiff_pos (bottom (sh st)) t0) eqn:D;
        inversion Hst; subst st' es; clear Hst; pc_only HI Hp; auto.
      apply sdiff_pos_lt in D; [|lia|lia]. split; [exact Htpc|]. intros _. lia.
    + (* St4 *)
      inversion Hst; subst st' es; clear Hst. pc_only HI Hp; auto.
      destruct Htpc as [H1 H2]. split; [exact H1|]. intros E. split; [auto|reflexivity].
    + (* St5 *)
      destruct Htpc as [H1 H2].
      destruct (N.eqb_spec (top (sh st)) t0) as [E|E];
        inversion Hst; subst st' es; clear Hst.
      * subst t0. destruct (H2 eq_refl) as [H3 H4]. rewrite wadd1 by lia.
        assert (HL : lbot (bottom (sh st)) (upd (th st) t Idle owner) = lbot (bottom (sh st)) (th st owner)).
        { unfold upd. destruct (Nat.eqb_spec owner t) as [<-|Hne]; [|reflexivity]. rewrite Hp. reflexivity. }
        apply inv_step_gen with (po' := upd (th st) t Idle owner);
          cbn [top bottom mem set_top]; rewrite ?HL;
          try exact HI; try exact I; try (intros _; exact I); try reflexivity; try lia.
        { unfold upd. destruct (Nat.eqb_spec owner t); [exact I|].
          eapply owner_ok_mono; [exact Hopc|lia|lia]. }
        { apply perm_take_first. rewrite index_range_cons in Hcons by lia.
          cbn [map] in Hcons. rewrite <- H4 in Hcons. exact Hcons. }
      * pc_only HI Hp; auto.
Qed.

(** * 7. Initial state, monotonicity of the ghost history and of [top] *)

Lemma init_inv c : Inv c (init (Fixed c)).
Proof.
  constructor; unfold init, abs, plen, lbot;
    cbn [sh th top bottom mem g_pushed g_taken in_pop_tail owner_ok thief_ok thief_pc length app];
    auto; try lia.
  all: try (rewrite index_range_nil by lia; constructor).
Qed.

Ltac case_split H :=
  repeat match type of H with
         | context [match ?x with _ => _ end] => destruct x eqn:?
         end.

Lemma step_pushed c st a st' es :
  step (Fixed c) st a = Some (st', es) -> exists l, g_pushed st' = g_pushed st ++ l.
Proof.
  intros H. unfold step, is_growing in H.
  destruct a as [t o|t]; destruct (th st t); try discriminate;
    case_split H; try discriminate; inversion H; cbn [g_pushed];
    first [exists []; symmetry; apply app_nil_r | eexists; reflexivity].
Qed.

Lemma step_plen_mono c st a st' es :
  step (Fixed c) st a = Some (st', es) -> plen st <= plen st'.
Proof.
  intros H. destruct (step_pushed _ _ _ _ _ H) as [l E]. unfold plen. rewrite E, app_length. lia.
Qed.

Lemma step_top_mono k c st a st' es :
  c = 2 ^ k -> plen st < 2 ^ 62 -> Inv c st ->
  step (Fixed c) st a = Some (st', es) -> top (sh st) <= top (sh st').
Proof.
  intros Hc HP HI H.
  pose proof (i_T_le _ _ HI) as HTle. pose proof (i_P _ _ HI) as HPl. unfold plen in *.
  unfold step, is_growing in H.
  destruct a as [t o|t]; destruct (th st t); try discriminate;
    case_split H; try discriminate; inversion H; cbn [sh top set_top set_bottom set_mem set_cap set_buckets];
    try lia.
  all: match goal with E : (top _ =? ?x) = true |- _ => apply N.eqb_eq in E; subst x end.
  all: rewrite wadd1 by lia; lia.
Qed.

(** * 8. Main theorems

    Assumption of all theorems below: the container is [Fixed c] with [c = 2^k], the state is
    reachable by ANY interleaving of any number of threads (only thread [owner] starts
    push/pop -- enforced by [Start] of the model), and fewer than 2^62 calls of try_push have
    completed so far ([plen st < 2^62]; [g_pushed] only grows, so the bound then holds in every
    earlier state of the run as well, and no 64-bit counter has wrapped). *)

Theorem chase_fixed_inv : forall k c st,
  c = 2 ^ k ->
  reach (init (Fixed c)) (step (Fixed c)) st ->
  plen st < 2 ^ 62 ->
  Inv c st.
Proof.
  intros k c st Hc Hr. induction Hr as [|s a s' es Hr IH Hst]; intros HP.
  - apply init_inv.
  - pose proof (step_plen_mono _ _ _ _ _ Hst) as Hm.
    eapply step_inv; [exact Hc| |apply IH|exact Hst]; lia.
Qed.

(** (a) structural invariant, spelled out *)
Theorem chase_fixed_structural : forall k c st,
  c = 2 ^ k -> 1 <= k <= 30 ->
  reach (init (Fixed c)) (step (Fixed c)) st ->
  plen st < 2 ^ 62 ->
  let T := top (sh st) in
  let B := bottom (sh st) in
  let Bl := lbot B (th st owner) in
  (* only the owner runs try_push / try_pop *)
  (forall t, t <> owner -> thief_pc (th st t)) /\
  (* bounds: top <= logical bottom <= top + capacity; bottom is the logical bottom except in the
     tail of try_pop where it is one less; no counter exceeds the number of completed pushes *)
  T <= Bl /\ Bl <= T + c /\ B <= Bl /\ Bl <= B + 1 /\ Bl <= plen st /\
  (in_pop_tail (th st owner) = false -> T <= B /\ B - T <= c) /\
  (* locals of the owner and of every thread inside try_steal *)
  owner_ok c T B (cell c (mem (sh st))) (th st owner) /\
  (forall t, thief_ok T Bl (cell c (mem (sh st))) (th st t)).
Proof.
  intros k c st Hc _ Hr HP T B Bl.
  pose proof (chase_fixed_inv k c st Hc Hr HP) as HI.
  pose proof (i_T_le _ _ HI). pose proof (i_cap _ _ HI). pose proof (i_P _ _ HI).
  fold T B Bl in H, H0, H1.
  assert (B <= Bl /\ Bl <= B + 1) as [? ?] by (unfold Bl, lbot; destruct (in_pop_tail _); lia).
  repeat split; auto.
  - apply (i_own _ _ HI).
  - unfold Bl, lbot in *. rewrite H4 in *. lia.
  - unfold Bl, lbot in *. rewrite H4 in *. lia.
  - apply (i_opc _ _ HI).
  - apply (i_tpc _ _ HI).
Qed.

(** [top] never decreases along a run *)
Theorem chase_fixed_top_monotone : forall k c st a st' es,
  c = 2 ^ k -> 1 <= k <= 30 ->
  reach (init (Fixed c)) (step (Fixed c)) st ->
  plen st < 2 ^ 62 ->
  step (Fixed c) st a = Some (st', es) ->
  top (sh st) <= top (sh st').
Proof.
  intros k c st a st' es Hc _ Hr HP Hst.
  eapply step_top_mono; eauto. eapply chase_fixed_inv; eauto.
Qed.

(** (b) thief-read lemma: a thread about to execute the CAS of try_steal with expected value
    [t] and loaded element [x]: if [top] still equals [t] (i.e. the CAS will succeed), then index
    [t] is inside the abstract deque and [x] is the element currently stored at index [t]. *)
Theorem chase_fixed_thief_read : forall k c st th_id t x,
  c = 2 ^ k -> 1 <= k <= 30 ->
  reach (init (Fixed c)) (step (Fixed c)) st ->
  plen st < 2 ^ 62 ->
  th st th_id = St5 t x ->
  t <= top (sh st) /\
  (top (sh st) = t ->
   t < lbot (bottom (sh st)) (th st owner) /\ x = mem (sh st) 0 (N.land t (c - 1))).
Proof.
  intros k c st i t x Hc _ Hr HP Hp.
  pose proof (i_tpc _ _ (chase_fixed_inv k c st Hc Hr HP) i) as H. rewrite Hp in H.
  cbn [thief_ok] in H. destruct H as [H1 H2]. split; [exact H1|]. intros E. symmetry in E.
  apply H2 in E. exact E.
Qed.

(** (c) conservation: handed-out values + abstract content = accepted values, as multisets *)
Theorem chase_fixed_conservation : forall k c st,
  c = 2 ^ k -> 1 <= k <= 30 ->
  reach (init (Fixed c)) (step (Fixed c)) st ->
  plen st < 2 ^ 62 ->
  Permutation (g_taken st ++ abs c st) (g_pushed st).
Proof.
  intros k c st Hc _ Hr HP. apply (i_cons _ _ (chase_fixed_inv k c st Hc Hr HP)).
Qed.

(** at a quiescent state the abstract content is exactly the live window [top, bottom) *)
Lemma abs_quiescent : forall c st, (forall t, th st t = Idle) -> abs c st = live st c.
Proof.
  intros c st Hq. unfold abs, live, lbot. rewrite Hq. reflexivity.
Qed.

Corollary chase_fixed_conservation_quiescent : forall k c st,
  c = 2 ^ k -> 1 <= k <= 30 ->
  reach (init (Fixed c)) (step (Fixed c)) st ->
  plen st < 2 ^ 62 ->
  (forall t, th st t = Idle) ->
  Permutation (g_taken st ++ live st c) (g_pushed st).
Proof.
  intros k c st Hc Hk Hr HP Hq. rewrite <- abs_quiescent by exact Hq.
  apply (chase_fixed_conservation k); assumption.
Qed.

(** consequences: nothing is handed out that was not pushed; if the pushed values are pairwise
    distinct, nothing is handed out twice and nothing handed out is still in the deque *)
Corollary chase_fixed_taken_incl : forall k c st x,
  c = 2 ^ k -> 1 <= k <= 30 ->
  reach (init (Fixed c)) (step (Fixed c)) st ->
  plen st < 2 ^ 62 ->
  In x (g_taken st) -> In x (g_pushed st).
Proof.
  intros k c st x Hc Hk Hr HP Hin.
  eapply Permutation_in; [apply (chase_fixed_conservation k); eassumption|].
  apply in_or_app. left. exact Hin.
Qed.

Lemma NoDup_app_split (A : Type) (l l' : list A) :
  NoDup (l ++ l') -> NoDup l /\ NoDup l' /\ (forall x, In x l -> ~ In x l').
Proof.
  induction l as [|a l IH]; cbn [app]; intros H.
  - split; [constructor|]. split; [exact H|]. intros x [].
  - inversion H as [|? ? Hn Hd]; subst. destruct (IH Hd) as (I1 & I2 & I3).
    split; [|split; [exact I2|]].
    + constructor; [|exact I1]. intros Hin. apply Hn. apply in_or_app. left. exact Hin.
    + intros x [->|Hx] Hx'; [apply Hn; apply in_or_app; right; exact Hx'|exact (I3 x Hx Hx')].
Qed.

Corollary chase_fixed_no_duplicate : forall k c st,
  c = 2 ^ k -> 1 <= k <= 30 ->
  reach (init (Fixed c)) (step (Fixed c)) st ->
  plen st < 2 ^ 62 ->
  NoDup (g_pushed st) ->
  NoDup (g_taken st) /\ NoDup (abs c st) /\ (forall x, In x (g_taken st) -> ~ In x (abs c st)).
Proof.
  intros k c st Hc Hk Hr HP Hnd.
  pose proof (chase_fixed_conservation k c st Hc Hk Hr HP) as HC.
  apply Permutation_sym in HC. apply NoDup_app_split. exact (Permutation_NoDup HC Hnd).
Qed.

(** number of elements: |taken| + (logical bottom - top) = |pushed| *)
Corollary chase_fixed_count : forall k c st,
  c = 2 ^ k -> 1 <= k <= 30 ->
  reach (init (Fixed c)) (step (Fixed c)) st ->
  plen st < 2 ^ 62 ->
  N.of_nat (length (g_taken st)) + (lbot (bottom (sh st)) (th st owner) - top (sh st)) = plen st.
Proof.
  intros k c st Hc Hk Hr HP.
  pose proof (Permutation_length (chase_fixed_conservation k c st Hc Hk Hr HP)) as H.
  unfold abs in H. rewrite app_length, map_length, index_range_length in H. unfold plen. lia.
Qed.
