(** Safety invariant of the Chase-Lev work-stealing deque (fixed-capacity container) on the
    step-level model of Model/ChaseDefs.v: structural invariant, thief-read lemma and conservation
    of the multiset of values.  No axioms, no admits. *)
From Coq Require Import NArith ZArith List Bool Lia Permutation PeanoNat.
From XV Require Import Base.Word Conc.Lts Conc.Ev gen.GrowingArrayGen Model.ChaseDefs.
Import ListNotations.
Local Open Scope N_scope.

(** * 1. Index ranges *)

Definition index_range (lo hi : N) : list N :=
  map (fun k => lo + N.of_nat k) (seq 0 (N.to_nat (hi - lo))).

Lemma index_range_nil lo hi : hi <= lo -> index_range lo hi = [].
Proof.
  intros H. unfold index_range. replace (hi - lo) with 0 by lia. reflexivity.
Qed.

Lemma index_range_snoc lo hi : lo <= hi -> index_range lo (hi + 1) = index_range lo hi ++ [hi].
Proof.
  intros H. unfold index_range.
  replace (N.to_nat (hi + 1 - lo)) with (S (N.to_nat (hi - lo))) by lia.
  rewrite seq_S, map_app. cbn [map Nat.add]. f_equal. f_equal. lia.
Qed.

Lemma index_range_cons lo hi : lo < hi -> index_range lo hi = lo :: index_range (lo + 1) hi.
Proof.
  intros H. unfold index_range.
  replace (N.to_nat (hi - lo)) with (S (N.to_nat (hi - (lo + 1)))) by lia.
  cbn [seq map]. f_equal; [lia|].
  rewrite <- seq_shift, map_map. apply map_ext. intros a. lia.
Qed.

Lemma index_range_In lo hi i : In i (index_range lo hi) <-> lo <= i < hi.
Proof.
  unfold index_range. rewrite in_map_iff. split.
  - intros (k & <- & Hk). apply in_seq in Hk. lia.
  - intros Hi. exists (N.to_nat (i - lo)). split; [lia|]. apply in_seq. lia.
Qed.

Lemma index_range_length lo hi : length (index_range lo hi) = N.to_nat (hi - lo).
Proof. unfold index_range. rewrite map_length, seq_length. reflexivity. Qed.

(** * 2. Slots of the fixed-size circular array *)

Lemma land_mask_mod k i : N.land i (2 ^ k - 1) = i mod 2 ^ k.
Proof.
  replace (2 ^ k - 1) with (N.ones k) by (rewrite N.ones_equiv; apply N.pred_sub).
  apply N.land_ones.
Qed.

Lemma mod_neq_window c i b : c <> 0 -> i < b -> b < i + c -> i mod c <> b mod c.
Proof.
  intros Hc H1 H2 E.
  assert (Hi := N.div_mod i c Hc). assert (Hb := N.div_mod b c Hc).
  rewrite E in Hi. set (r := b mod c) in *. set (qi := i / c) in *. set (qb := b / c) in *.
  destruct (N.le_gt_cases qb qi) as [L|L]; nia.
Qed.

Lemma slot_neq k i b : i < b -> b < i + 2 ^ k -> N.land i (2 ^ k - 1) <> N.land b (2 ^ k - 1).
Proof.
  intros H1 H2. rewrite !land_mask_mod. apply mod_neq_window; [|exact H1|exact H2].
  apply N.pow_nonzero. discriminate.
Qed.

(** * 3. No-wrap arithmetic *)

Lemma pow2_62 : 2 ^ 62 = 4611686018427387904.
Proof. reflexivity. Qed.
Lemma pow2_64 : 2 ^ 64 = 18446744073709551616.
Proof. reflexivity. Qed.

Lemma wadd1 x : x <= 2 ^ 62 -> wadd 64 x 1 = x + 1.
Proof. intros H. apply wadd_small. rewrite pow2_62 in H. rewrite pow2_64. lia. Qed.

Lemma wsub_le a b : b <= a -> a <= 2 ^ 62 -> wsub 64 a b = a - b.
Proof. intros H1 H2. apply wsub_small; [exact H1|]. rewrite pow2_62 in H2. rewrite pow2_64. lia. Qed.

Lemma sdiff_pos_lt b t : b <= 2 ^ 62 -> t <= 2 ^ 62 -> sdiff_pos b t = true -> t < b.
Proof.
  intros Hb Ht H. rewrite pow2_62 in *. unfold sdiff_pos in H. apply negb_true_iff in H.
  unfold sle in H. apply Z.leb_gt in H.
  destruct (N.lt_ge_cases t b) as [L|L]; [exact L|exfalso].
  destruct (N.eq_dec t b) as [->|Hne].
  - rewrite wsub_small in H by (rewrite ?pow2_64; lia).
    rewrite N.sub_diag in H. vm_compute in H. discriminate.
  - rewrite wsub_wrap in H by (rewrite ?pow2_64; lia).
    change (sval 64 0) with 0%Z in H. unfold sval in H. change (2 ^ (64 - 1)) with 9223372036854775808 in H.
    rewrite pow2_64 in H.
    destruct (N.ltb_spec (b + 18446744073709551616 - t) 9223372036854775808); lia.
Qed.
