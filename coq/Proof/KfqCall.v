(** kirsch_kfifo_queue (C06, unbounded): call-level theorems -- a pop takes its value from the segment head_
    pointed to at an instant inside the call (k-relaxation, segment form), the 'empty' verdict.
    No axioms, no admits. *)
From Coq Require Import NArith List Bool Lia PeanoNat ZifyBool ZifyNat ZifyN.
From XV Require Import Base.Word Conc.Lts Conc.Ev Model.KfqDefs.
From XV Require Import Proof.KfqWf Proof.KfqOwn Proof.KfqRegion Proof.KfqSeg Proof.KfqCons.
Import ListNotations.
Local Open Scope N_scope.

Definition sw_mono (a b : sw) : Prop := b = a \/ snd a < snd b.

(** the slot word a pop is about to take *)
Definition cpop (c : cont) : option (iw * N * N * N) :=
  match c with KPop hd j p tg => Some (hd, j, p, tg) | KPush _ => None end.
Definition ppop (p : pc) : option (iw * N * N * N) :=
  match p with
  | D3 hd j q tg | D4 hd j q tg => Some (hd, j, q, tg)
  | A1 c _ | A2 c _ _ | A3 c _ _ | A4 c _ _ _ | A5 c _ _ => cpop c
  | _ => None
  end.
(** ... including the state before the re-check of head_ *)
Definition ppop2 (p : pc) : option (iw * N * N * N) :=
  match p with D2 hd j q tg => Some (hd, j, q, tg) | _ => ppop p end.

Lemma ppop_kpc c : ppop (kpc c) = cpop c.
Proof. destruct c; reflexivity. Qed.

Set Default Proof Using "All".
Section Call.
  Variable k : N.
  Hypothesis Hk : 1 <= k.
  Notation step := (step k).
  Notation InvA := (InvA k).

  (** * Monotonicity *)

  Lemma step_mono2 s a s' es : InvA s -> step s a = Some (s', es) ->
    (tail s' = tail s \/ fst (tail s) < fst (tail s')) /\ (forall x j, sw_mono (slot s x j) (slot s' x j)) /\
    (forall b, In b (g_in s) -> In b (g_in s')) /\ (forall b, In b (g_out s) -> In b (g_out s')).
  Proof.
    intros IA Hst. unfold KfqDefs.step in Hst. destruct a as [t o|t r].
    - destruct (th s t); try discriminate. inversion Hst; subst. sim. unfold sw_mono. auto.
    - pose proof (a_th k s IA t) as Hme.
      destruct (th s t) eqn:E; try discriminate; try (match goal with o : op |- _ => destruct o end);
        cbn [TA] in Hme; brk Hst; inversion Hst; subst; clear Hst; sim.
      all: try (split; [left; reflexivity|]).
      all: try (split; [intros x0 j0; left; reflexivity|]).
      all: try (split; [auto|auto]; fail).
      all: try (split; [intros b0 Hb0; apply commit_in; left; exact Hb0|auto]; fail).
      + split; [|auto]. intros x j0. unfold sw_mono.
        destruct (setf2_cases (slot s) (fst tl) j (b, otag + 1) x j0) as [(-> & -> & Q)|(_ & Q)]; rewrite Q; [right; rewrite e; cbn; lia|left; reflexivity].
      + split; [|auto]. intros x j0. unfold sw_mono.
        destruct (setf2_cases (slot s) (fst tl) j (0, tg + 1) x j0) as [(-> & -> & Q)|(_ & Q)]; rewrite Q; [right; rewrite e; cbn; lia|left; reflexivity].
      + destruct Hme as (A & B & C & D).
        destruct (nxt_cases k Hk s (fst (tail s)) IA) as [Q|(_ & _ & _ & Hlt)]; [rewrite <- C in Q; rewrite Q in D; cbn in D; congruence|].
        rewrite <- C in Hlt. unfold sw_mono. split; [right; exact Hlt|auto].
      + destruct Hme as (A & B & C & D).
        destruct (nxt_cases k Hk s (fst (tail s)) IA) as [Q|(_ & _ & _ & Hlt)]; [rewrite C in Q; inversion Q; congruence|].
        rewrite C in Hlt. cbn [fst] in Hlt. unfold sw_mono. split; [right; exact Hlt|auto].
      + split; [|split].
        * intros x j0. unfold sw_mono.
          destruct (setf2_cases (slot s) (fst hd) j (0, tg + 1) x j0) as [(-> & -> & Q)|(_ & Q)]; rewrite Q; [right; rewrite e; cbn; lia|left; reflexivity].
        * intros b0 Hb0. apply commit_in. left. exact Hb0.
        * intros b0 Hb0. apply in_app_iff. left. exact Hb0.
      + contradiction.
  Qed.

  Lemma reach_from_mono2 s1 s : reach init step s1 -> reach_from step s1 s ->
    (tail s = tail s1 \/ fst (tail s1) < fst (tail s)) /\ (forall x j, sw_mono (slot s1 x j) (slot s x j)) /\
    (forall b, In b (g_in s1) -> In b (g_in s)) /\ (forall b, In b (g_out s1) -> In b (g_out s)).
  Proof.
    intros Hr Hf. induction Hf as [|x a y es Hf IH Hst]; [unfold sw_mono; auto|].
    assert (Hrx : reach init step x) by (eapply reach_from_reach; eauto).
    destruct (step_mono2 x a y es (InvA_reach k Hk x Hrx) Hst) as (A1 & A2 & A3 & A4). destruct IH as (B1 & B2 & B3 & B4).
    split; [|split; [|split; auto]].
    - destruct A1 as [A1|A1]; destruct B1 as [B1|B1]; [left; congruence|right; rewrite A1; exact B1|right; rewrite <- B1; exact A1|right; lia].
    - intros x0 j0. specialize (A2 x0 j0). specialize (B2 x0 j0). unfold sw_mono in *.
      destruct A2 as [A2|A2]; destruct B2 as [B2|B2]; [left; congruence|right; rewrite A2; exact B2|right; rewrite <- B2; exact A2|right; lia].
  Qed.

  Lemma sw_mono_squeeze (a b c : sw) : sw_mono a b -> sw_mono b c -> c = a -> b = a.
  Proof. unfold sw_mono. intros [H1|H1] [H2|H2] H3; subst; auto; lia. Qed.

  (** a pop holds a slot word it has read: the slot's tag has not gone back *)
  Definition Inv5 (st : state) : Prop :=
    forall t hd j q tg, ppop2 (th st t) = Some (hd, j, q, tg) -> tg <= snd (slot st (fst hd) j).

  Lemma ppop2_step s t r s' es hd j q tg : step s (Step t r) = Some (s', es) ->
    ppop2 (th s' t) = Some (hd, j, q, tg) ->
    ppop2 (th s t) = Some (hd, j, q, tg) \/ slot s (fst hd) j = (q, tg).
  Proof.
    intros Hst. unfold KfqDefs.step in Hst.
    destruct (th s t) eqn:E; try discriminate; try (match goal with o : op |- _ => destruct o end);
      brk Hst; inversion Hst; subst; clear Hst; sim; rewrite upd_same; cbn [ppop2 ppop cpop]; rewrite ?ppop_kpc;
      try discriminate; try (intros Q; left; exact Q); try (destruct c; cbn [kpc ppop2 ppop cpop]; try discriminate; intros Q; left; exact Q).
    intros Q. inversion Q; subst. right. destruct (slot s (fst hd) (fidx k ri i)); reflexivity.
  Qed.

  Lemma Inv5_reach st : reach init step st -> Inv5 st.
  Proof.
    apply (inv_rule_aux _ _ _ init step InvA Inv5).
    - apply InvA_reach; assumption.
    - intros t hd j q tg H. discriminate.
    - intros s a s' es IA _ H5 Hst. pose proof (step_mono2 s a s' es IA Hst) as (_ & Hm & _).
      intros u hd j q tg Hp.
      assert (Hold : ppop2 (th s u) = Some (hd, j, q, tg) \/ slot s (fst hd) j = (q, tg)).
      { destruct a as [t o|t r].
        - destruct (Nat.eq_dec t u) as [->|Hne].
          + exfalso. unfold KfqDefs.step in Hst. destruct (th s u); try discriminate. inversion Hst; subst. sim.
            rewrite upd_same in Hp. discriminate.
          + left. rewrite <- (step_th_other k Hk u s _ s' es Hst); [auto| |intros; discriminate]. intros o' Q. inversion Q. congruence.
        - destruct (Nat.eq_dec t u) as [->|Hne]; [eapply ppop2_step; eauto|].
          left. rewrite <- (step_th_other k Hk u s _ s' es Hst); [auto|intros; discriminate|]. intros r' Q. inversion Q. congruence. }
      specialize (Hm (fst hd) j). unfold sw_mono in Hm.
      assert (Hs : tg <= snd (slot s (fst hd) j)) by (destruct Hold as [Q|Q]; [apply (H5 u hd j q tg Q)|rewrite Q; cbn; lia]).
      destruct Hm as [->|Hm]; lia.
  Qed.

  (** * Calls *)

  (** [in_call u o s0 s]: thread u took the first step of a call of [o] from [s0], and [s] is a later state of
      the execution, up to and including the state right after the call's return *)
  Inductive in_call (u : nat) (o : op) (s0 : state) : state -> Prop :=
  | ic_first s1 es r : th s0 u = Begin o -> step s0 (Step u r) = Some (s1, es) -> in_call u o s0 s1
  | ic_next s a s' es : in_call u o s0 s -> th s u <> Idle -> step s a = Some (s', es) -> in_call u o s0 s'.

  Lemma in_call_reach u o s0 s : reach init step s0 -> in_call u o s0 s -> reach init step s.
  Proof. intros Hr H. induction H; eapply reach_step; eauto. Qed.

  (** the pc of u after a step of somebody else *)
  Lemma other_th u s a s' es : step s a = Some (s', es) -> th s u <> Idle -> (forall r, a <> Step u r) -> th s' u = th s u.
  Proof.
    intros Hst Hni Hn. apply (step_th_other k Hk u s a s' es Hst); [|exact Hn].
    intros o Q. subst a. unfold KfqDefs.step in Hst. destruct (th s u); try discriminate. contradiction.
  Qed.

  (** * k-relaxation: a pop takes its value from the segment head_ pointed to *)

  Lemma pop_witness u s0 s : reach init step s0 -> in_call u OPop s0 s ->
    forall hd j q tg, ppop (th s u) = Some (hd, j, q, tg) ->
    exists s1, in_call u OPop s0 s1 /\ reach_from step s1 s /\ head s1 = hd /\
               (slot s (fst hd) j = (q, tg) -> slot s1 (fst hd) j = (q, tg)).
  Proof.
    intros Hr0 Hic. induction Hic as [s1 es r Hb Hst | s a s' es Hic IH Hni Hst]; intros hd j q tg Hp.
    - exfalso. unfold KfqDefs.step in Hst. rewrite Hb in Hst. inversion Hst; subst. sim. rewrite upd_same in Hp. discriminate.
    - assert (Hrs : reach init step s) by (eapply in_call_reach; eauto).
      pose proof (Inv5_reach s Hrs u) as H5.
      pose proof (step_mono2 s a s' es (InvA_reach k Hk s Hrs) Hst) as (_ & Hm & _).
      assert (Hic' : in_call u OPop s0 s') by (eapply ic_next; eauto).
      assert (Hkeep : ppop (th s u) = Some (hd, j, q, tg) ->
                exists s1, in_call u OPop s0 s1 /\ reach_from step s1 s' /\ head s1 = hd /\
                           (slot s' (fst hd) j = (q, tg) -> slot s1 (fst hd) j = (q, tg))).
      { intros Hp0. destruct (IH hd j q tg Hp0) as (s1 & A & B & C & D). exists s1.
        split; [exact A|]. split; [eapply rf_step; eauto|]. split; [exact C|]. intros E'. apply D.
        assert (Ht : tg <= snd (slot s (fst hd) j)).
        { apply (H5 hd j q tg). destruct (th s u); cbn [ppop2]; try exact Hp0. cbn in Hp0. discriminate. }
        destruct (Hm (fst hd) j) as [Q|Q]; [rewrite <- Q; exact E'|]. rewrite E' in Q. cbn [snd] in Q. lia. }
      destruct a as [t o|t r].
      + rewrite (other_th u s _ s' es Hst Hni) in Hp by (intros; discriminate). apply Hkeep. exact Hp.
      + destruct (Nat.eq_dec t u) as [->|Hne].
        2:{ rewrite (other_th u s _ s' es Hst Hni) in Hp by (intros r' Q; inversion Q; congruence). apply Hkeep. exact Hp. }
        (* u's own step: either it keeps the word it is about to take, or it has just re-checked head_ (D2 -> D3) *)
        assert (Hcase : ppop (th s u) = Some (hd, j, q, tg) \/ (th s u = D2 hd j q tg /\ hd = head s)).
        { clear Hkeep IH. unfold KfqDefs.step in Hst.
          destruct (th s u) eqn:E; try discriminate; try (match goal with o : op |- _ => destruct o end);
            brk Hst; inversion Hst; subst; clear Hst; sim; rewrite upd_same in Hp; cbn [ppop cpop] in Hp; rewrite ?ppop_kpc in Hp;
            try discriminate; try (left; exact Hp); try (destruct c; cbn [kpc ppop cpop] in Hp; try discriminate; left; exact Hp).
          inversion Hp; subst. right. split; reflexivity. }
        destruct Hcase as [Hc|[Hc Hh]]; [apply Hkeep; exact Hc|].
        exists s'. split; [exact Hic'|]. split; [apply rf_refl|]. split; [|auto].
        unfold KfqDefs.step in Hst. rewrite Hc in Hst. subst hd. destruct (iw_eqb_spec (head s) (head s)) as [_|Q]; [|congruence].
        inversion Hst; subst. reflexivity.
  Qed.

  (** The value a pop takes: at an instant inside the call ([s1], the re-check of head_) head_ had the value the
      pop had read, and the slot of the segment head_ pointed to held the value the pop takes -- with the same
      tag, i.e. it stayed there until the pop's CAS. *)
  Theorem kfq_pop_from_head_segment u s0 s hd j q tg :
    reach init step s0 -> in_call u OPop s0 s -> th s u = D4 hd j q tg -> slot s (fst hd) j = (q, tg) ->
    exists s1, in_call u OPop s0 s1 /\ reach_from step s1 s /\
      head s1 = hd /\ slot s1 (fst hd) j = (q, tg) /\ q <> 0 /\ j < k.
  Proof.
    intros Hr0 Hic Hpc Hsl.
    destruct (pop_witness u s0 s Hr0 Hic hd j q tg ltac:(rewrite Hpc; reflexivity)) as (s1 & A & B & C & D).
    exists s1. split; [exact A|]. split; [exact B|]. split; [exact C|]. split; [apply D; exact Hsl|].
    assert (Hrs : reach init step s) by (eapply in_call_reach; eauto).
    pose proof (a_th k s (InvA_reach k Hk s Hrs) u) as T. rewrite Hpc in T. cbn [TA] in T. unfold TD in T. tauto.
  Qed.

  (** * The 'empty' verdict *)

  (** the step that returns 'empty' is the final comparison of tail_ in [DE] *)
  Lemma empty_step u s a s' es : step s a = Some (s', es) -> In (ERet u [2]) es ->
    exists r hd tl, a = Step u r /\ th s u = DE hd tl /\ tail s = tl.
  Proof.
    intros Hst Hin. unfold KfqDefs.step in Hst. destruct a as [t o|t r].
    - destruct (th s t); try discriminate. inversion Hst; subst. destruct Hin.
    - destruct (th s t) eqn:E; try discriminate; try (match goal with o : op |- _ => destruct o end);
        brk Hst; inversion Hst; subst; clear Hst; cbn in Hin;
        repeat match goal with H : _ \/ _ |- _ => destruct H end; try contradiction; try discriminate.
      match goal with H : ERet _ _ = ERet _ _ |- _ => inversion H; subst end. eexists _, _, _; split; [reflexivity|split; [exact E|reflexivity]].
  Qed.

  Definition empty_at (st : state) : Prop := forall b, In b (g_in st) -> In b (g_out st).
  Definition nocommit (st : state) (x : N) : Prop := forall j b tg, slot st x j = (b, tg) -> b <> 0 -> ~ In b (g_in st).
  Definition pemp (p : pc) : option iw := match p with D3n hd | DE hd _ => Some hd | _ => None end.

  Lemma empty_witness u s0 s : reach init step s0 -> in_call u OPop s0 s ->
    forall hd, pemp (th s u) = Some hd ->
    exists s1, in_call u OPop s0 s1 /\ reach_from step s1 s /\ head s1 = hd /\ nocommit s1 (fst hd).
  Proof.
    intros Hr0 Hic. induction Hic as [s1 es r Hb Hst | s a s' es Hic IH Hni Hst]; intros hd Hp.
    - exfalso. unfold KfqDefs.step in Hst. rewrite Hb in Hst. inversion Hst; subst. sim. rewrite upd_same in Hp. discriminate.
    - assert (Hic' : in_call u OPop s0 s') by (eapply ic_next; eauto).
      assert (Hrs' : reach init step s') by exact (in_call_reach u OPop s0 s' Hr0 Hic').
      assert (Hkeep : pemp (th s u) = Some hd ->
                exists s1, in_call u OPop s0 s1 /\ reach_from step s1 s' /\ head s1 = hd /\ nocommit s1 (fst hd)).
      { intros Hp0. destruct (IH hd Hp0) as (s1 & A & B & C & D). exists s1. split; [exact A|]. split; [eapply rf_step; eauto|auto]. }
      destruct a as [t o|t r].
      + rewrite (other_th u s _ s' es Hst Hni) in Hp by (intros; discriminate). apply Hkeep. exact Hp.
      + destruct (Nat.eq_dec t u) as [->|Hne].
        2:{ rewrite (other_th u s _ s' es Hst Hni) in Hp by (intros r' Q; inversion Q; congruence). apply Hkeep. exact Hp. }
        assert (Hcase : pemp (th s u) = Some hd \/ (th s' u = D3n hd /\ hd = head s')).
        { clear Hkeep IH. unfold KfqDefs.step in Hst.
          destruct (th s u) eqn:E; try discriminate; try (match goal with o : op |- _ => destruct o end);
            brk Hst; inversion Hst; subst; clear Hst; sim; rewrite upd_same in Hp; cbn [pemp] in Hp;
            try discriminate; try (left; exact Hp); try (destruct c; cbn [kpc pemp] in Hp; discriminate).
          inversion Hp; subst. right. rewrite upd_same. split; reflexivity. }
        destruct Hcase as [Hc|[Hc Hh]]; [apply Hkeep; exact Hc|].
        exists s'. split; [exact Hic'|]. split; [apply rf_refl|]. split; [symmetry; exact Hh|].
        pose proof (InvC_reach k Hk s' Hrs') as IC.
        intros j b tg Hs Hb. destruct (c_reg k s' IC (fst hd) j b tg Hs Hb) as (_ & Hj & _).
        assert (Hpo : pend_ok s' (fst hd) j) by (apply (c_scan k s' IC u hd); [rewrite Hc; reflexivity|exact Hh|rewrite Hc; exact Hj]).
        apply (Hpo b tg Hs Hb).
  Qed.

  (** A pop answers 'empty' only if at an instant inside the call (the re-check of head_ after the scan) head_ and
      tail_ pointed to the same segment and NO committed value was in the queue (stronger than "fewer than k
      values stored"). *)
  Theorem kfq_empty_verdict u s0 s a s' es :
    reach init step s0 -> in_call u OPop s0 s -> step s a = Some (s', es) -> In (ERet u [2]) es ->
    exists s1, in_call u OPop s0 s1 /\ reach_from step s1 s' /\
      fst (head s1) = fst (tail s1) /\ empty_at s1.
  Proof.
    intros Hr0 Hic Hst Hret. destruct (empty_step u s a s' es Hst Hret) as (r & hd & tl & -> & Hpc & Ht).
    destruct (empty_witness u s0 s Hr0 Hic hd ltac:(rewrite Hpc; reflexivity)) as (s1 & A & B & C & D).
    assert (Hr1 : reach init step s1) by exact (in_call_reach u OPop s0 s1 Hr0 A).
    assert (Hrs : reach init step s) by exact (in_call_reach u OPop s0 s Hr0 Hic).
    pose proof (a_th k s (InvA_reach k Hk s Hrs) u) as T. rewrite Hpc in T. cbn [TA] in T. destruct T as (_ & _ & _ & Htl).
    destruct (reach_from_mono2 s1 s Hr1 B) as (M & _).
    pose proof (a_ht k s1 (InvA_reach k Hk s1 Hr1)) as Hht.
    assert (Heq : fst (head s1) = fst (tail s1)).
    { rewrite C in *. rewrite Ht in M. destruct M as [M|M]; [rewrite <- M in *|]; lia. }
    exists s1. split; [exact A|]. split; [eapply rf_step; eauto|]. split; [exact Heq|].
    intros b Hb. destruct (in_dec N.eq_dec b (g_out s1)) as [Ho|Ho]; [exact Ho|exfalso].
    destruct (kfq_never_stranded k Hk s1 b Hr1 Hb Ho) as (x & j & _ & Hx & _ & Hs & _).
    assert (x = fst hd) by (rewrite C in *; lia). subst x.
    destruct (slot s1 (fst hd) j) as [b' tg] eqn:E. cbn [fst] in Hs. subst b'.
    destruct (kfq_conservation k Hk s1 Hr1) as (_ & _ & _ & _ & Hlt). specialize (Hlt b Hb).
    apply (D j b tg E ltac:(lia)). exact Hb.
  Qed.
End Call.
