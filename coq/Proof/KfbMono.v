(** kirsch_bounded_kfifo_queue (C06): version tags never decrease along executions. *)
From Coq Require Import NArith List Bool Lia PeanoNat.
From XV Require Import Base.Word Conc.Lts Conc.Ev Model.KfbDefs.
From XV Require Import Proof.KfbArith Proof.KfbWf Proof.KfbOwn Proof.KfbRing Proof.KfbRegion.
Import ListNotations.
Local Open Scope N_scope.

Set Default Proof Using "All".
Section Mono.
  Variables k segs : N.
  Notation step := (step k segs).

  Definition sw_mono (a b : sw) : Prop := b = a \/ snd a < snd b.

  (** version tags never decrease, and a word changes only together with its tag; ghosts only grow *)
  Lemma step_mono s a s' es : step s a = Some (s', es) ->
    iw_mono (head s) (head s') /\ iw_mono (tail s) (tail s') /\ (forall j, sw_mono (slot s j) (slot s' j)) /\
    incl (g_in s) (g_in s') /\ incl (g_out s) (g_out s') /\ incl (g_ok s) (g_ok s').
  Proof.
    intros Hst. unfold KfbDefs.step in Hst. destruct a as [t o|t r].
    - destruct (th s t); try discriminate. inversion Hst; subst; clear Hst. sim.
      repeat match goal with |- _ /\ _ => split end; try (left; reflexivity); try apply incl_refl; intros j; left; reflexivity.
    - destruct (th s t) as [|[v|]|b|b tl|b tl hd ri i|b tl j otag|b tl hd|b tl j otag|b tl hd|b tl hd i|b tl hd|b tl hd|b tl
                            |b tl j tg|b tl j tg|b tl j tg hc|b tl j tg hc tc|b tl j tg hc|b j tg
                            | |hd|hd tl ri i|hd tl j p tg|hd tl|hd tl j p tg|hd j p tg|hd tl|hd] eqn:E;
        try discriminate; brk Hst; inversion Hst; subst; clear Hst; sim.
      all: repeat match goal with |- _ /\ _ => split end.
      all: try (left; reflexivity); try apply incl_refl; try (right; unfold adv, bump; cbn [snd]; lia).
      all: try (apply incl_appl; apply incl_refl).
      all: try (intros x Hx; apply commit_in; left; exact Hx).
      all: try (intros j0; unfold sw_mono, setf; destruct (N.eqb_spec j0 j) as [->|Hn]; [right; rewrite ?e; cbn [snd]; lia|left; reflexivity]).
      all: try (intros j0; left; reflexivity).
  Qed.

  Lemma im_refl a : iw_mono a a. Proof. left; reflexivity. Qed.
  Lemma im_trans a b c : iw_mono a b -> iw_mono b c -> iw_mono a c.
  Proof. unfold iw_mono. intros [->|H1] [->|H2]; auto. right. lia. Qed.
  Lemma sw_mono_refl a : sw_mono a a. Proof. left; reflexivity. Qed.
  Lemma sw_mono_trans a b c : sw_mono a b -> sw_mono b c -> sw_mono a c.
  Proof. unfold sw_mono. intros [->|H1] [->|H2]; auto. right. lia. Qed.

  Lemma reach_from_mono s s' : reach_from step s s' ->
    iw_mono (head s) (head s') /\ iw_mono (tail s) (tail s') /\ (forall j, sw_mono (slot s j) (slot s' j)) /\
    incl (g_in s) (g_in s') /\ incl (g_out s) (g_out s') /\ incl (g_ok s) (g_ok s').
  Proof.
    induction 1 as [|x a y es Hf IH Hst].
    - repeat match goal with |- _ /\ _ => split end; try apply im_refl; try apply incl_refl. intros j; apply sw_mono_refl.
    - destruct IH as (A1 & A2 & A3 & A4 & A5 & A6). destruct (step_mono _ _ _ _ Hst) as (B1 & B2 & B3 & B4 & B5 & B6).
      repeat match goal with |- _ /\ _ => split end; try (eapply im_trans; eauto; fail); try (eapply incl_tran; eauto; fail).
      intros j. eapply sw_mono_trans; eauto.
  Qed.

  (** a word that is equal at both ends of an execution was equal all the time *)
  Lemma iw_mono_squeeze a b c : iw_mono a b -> iw_mono b c -> c = a -> b = a.
  Proof. unfold iw_mono. intros [->|H1] [->|H2] E; subst; try reflexivity; lia. Qed.
  Lemma sw_mono_squeeze a b c : sw_mono a b -> sw_mono b c -> c = a -> b = a.
  Proof. unfold sw_mono. intros [->|H1] [->|H2] E; subst; try reflexivity; lia. Qed.

  Lemma reach_from_trans (s0 s1 s2 : state) : reach_from step s0 s1 -> reach_from step s1 s2 -> reach_from step s0 s2.
  Proof. intros H1 H2. induction H2; [exact H1|eapply rf_step; eauto]. Qed.
End Mono.
