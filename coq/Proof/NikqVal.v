(** nikolaev_queue model, value layer.
    [good s]: s is reachable and no counter of any node has wrapped; a wrapped counter stays wrapped, so every state
    on the way to a good state is good.
    [PT]: which ring code a thread executes in which phase (try_push: dequeue on RF then enqueue on RA; the finalized
    case: enqueue on RF; do_pop / steal_init_value: dequeue on RA then enqueue on RF; ~node: dequeue on RA).
    [VI]: the value ghosts: [q_in] / [q_out] / [q_ok] / [q_ret] are lists of ((node, RA ticket), value) with unique
    keys; a published pair belongs to a linked node and its ticket is published in that node's allocated ring; what a
    pop takes at (n, H) is what a push published at (n, H); the cell of an index in the allocated ring of a linked node
    holds the value published with its ticket; returns report what was published / taken. *)
From Coq Require Import NArith List Bool Lia PeanoNat.
From XV Require Import Base.Word Conc.Lts Conc.Ev gen.ScqGen Model.NikbDefs Model.NikqDefs.
From XV Require Import Proof.NikbArith Proof.NikbBase Proof.NikbWf Proof.NikbOwn Proof.NikbVal Proof.NikbSafe Proof.NikbCons.
From XV Require Import Proof.NikqBase Proof.NikqRing Proof.NikqChain.
Import ListNotations.
Local Open Scope N_scope.

(** program points of dequeue on ring q / of enqueue on ring q *)
Definition isD (q : rid) (p : pc) : bool :=
  match p with
  | D0 q' _ | D1 q' _ | D2 q' _ _ _ | D3 q' _ _ _ | D4 q' _ _ _ _ | D5 q' _ _ _ _ _ | D6 q' _ _ | D7 q' _
  | C1 q' _ _ _ | C2 q' _ _ | D8 q' _ => rid_eqb q' q
  | _ => false
  end.
Definition isE (q : rid) (p : pc) : bool :=
  match p with
  | E1 q' _ _ _ | E2 q' _ _ _ _ | E3 q' _ _ _ _ _ | E4 q' _ _ _ _ _ | E5 q' _ _ _ | E6 q' _ _ _ => rid_eqb q' q
  | _ => false
  end.

Set Default Proof Using "All".
Section Val.
  Variable k R : N.
  Hypothesis Hk : k <= 40.
  Notation cap := (2 ^ k).
  Notation step := (NikbDefs.step cap R).
  Notation qstep := (NikqDefs.qstep cap R).
  Notation RingInv := (RingInv k).

  Definition good (s : qstate) : Prop := reach (qinit cap) qstep s /\ noovf s.

  Lemma noovf_sticky s a s' es : reach (qinit cap) qstep s -> qstep s a = Some (s', es) -> noovf s' -> noovf s.
  Proof.
    intros Hr Hst Ho n. pose proof (CI_reach cap R s Hr) as Hc. pose proof (Coh_reach cap R s Hr) as Hh.
    destruct (N.le_gt_cases (nalloc s) n) as [Hle|Hgt].
    - destruct (c_fresh cap s Hc n Hle) as [_ ->]. reflexivity.
    - eapply (xs_ovf k R Hk); [|apply Ho]. apply (qstep_xs cap R false s a s' es Hh Hst n). right. lia.
  Qed.

  Lemma good_step s a s' es : reach (qinit cap) qstep s -> qstep s a = Some (s', es) -> good s' -> good s.
  Proof. intros Hr Hst [_ Ho]. split; [exact Hr|eapply noovf_sticky; eauto]. Qed.

  Lemma good_inv s : good s -> Coh s /\ CI cap s /\ forall n, RingInv (nd s n).
  Proof.
    intros [Hr Ho]. split; [apply (Coh_reach cap R); exact Hr|split; [apply (CI_reach cap R); exact Hr|]].
    intros n. apply (ring_reach k R Hk s Hr n). apply Ho.
  Qed.

  (** the induction principle for invariants of good states *)
  Lemma good_rule (I : qstate -> Prop) :
    I (qinit cap) ->
    (forall s a s' es, good s -> good s' -> I s -> qstep s a = Some (s', es) -> I s') ->
    forall s, good s -> I s.
  Proof.
    intros Hi Hs s [Hr Ho]. induction Hr as [|s a s' es Hr IH Hst]; [exact Hi|].
    assert (Hg : good s) by (split; [exact Hr|eapply noovf_sticky; eauto]).
    apply (Hs s a s' es Hg); [split; [eapply reach_step; eauto|exact Ho]|apply IH; apply Hg|exact Hst].
  Qed.

  (** * what one step of the ring code does to the cells, the index owners, the published / taken tickets of RA *)
  Ltac step_cases Hst :=
    unfold NikbDefs.step, step_gen in Hst;
    match type of Hst with context [th ?sg ?t] =>
      destruct (th sg t) as [|[v|tp]|q x|q x|q x hd att|q x hd e|q x hd att e|q x hd att e enew|q x hd|q x|q x tl hd|q x tl|q x
                             |q x idx gk|q x idx gk tl|q x idx gk tl e|q x idx gk tl e|q x idx gk|q x idx gk] eqn:Ep; try discriminate end;
    unfold mark_left, mark_skip in Hst;
    repeat match type of Hst with context [if ?c then _ else _] => destruct c eqn:? end;
    try (match goal with qq : rid |- _ => destruct qq end);
    inversion Hst; subst; clear Hst; sim.

  Lemma step_store sg t sg' es i : step sg (Step t) = Some (sg', es) ->
    store sg' i = store sg i \/ exists x gk, th sg t = E1 RA x i gk /\ store sg' i = x.
  Proof.
    intros Hst. step_cases Hst; try (left; reflexivity).
    all: unfold setf; destruct (N.eqb_spec i idx) as [->|]; [right; eauto|left; reflexivity].
  Qed.

  Lemma step_own sg t sg' es i : step sg (Step t) = Some (sg', es) ->
    g_own sg' i = g_own sg i \/
    (exists q x hd e, th sg t = D3 q x hd e /\ i = N.land e (vmask cap) /\ g_own sg' i = held (other q) t) \/
    (exists q x gk tl e, th sg t = E4 q x i gk tl e /\ rdata (rg sg q) (phys cap tl) = e /\ g_own sg' i = inring q (tl / 2)).
  Proof.
    intros Hst. step_cases Hst; try (left; reflexivity).
    all: unfold setf; match goal with |- context [if ?a =? ?b then _ else _] => destruct (N.eqb_spec a b) as [->|]; [|left; reflexivity] end.
    all: try (right; left; do 4 eexists; ssplit; reflexivity).
    all: right; right; do 5 eexists; ssplit; [reflexivity|apply N.eqb_eq; assumption|reflexivity].
  Qed.

  Lemma step_pub sg t sg' es T i : step sg (Step t) = Some (sg', es) -> g_eq (ra sg') T = EPub i ->
    g_eq (ra sg) T = EPub i \/ exists x gk tl e, th sg t = E4 RA x i gk tl e /\ T = tl / 2 /\ rdata (ra sg) (phys cap tl) = e.
  Proof.
    intros Hst. step_cases Hst; intros Hx; try (left; exact Hx).
    all: unfold setf in Hx; match type of Hx with context [if ?a =? ?b then _ else _] => destruct (N.eqb_spec a b) as [Heq|]; [|left; exact Hx] end.
    all: try discriminate Hx.
    all: inversion Hx; subst; right; do 4 eexists; (ssplit; [reflexivity|reflexivity|apply N.eqb_eq; assumption]).
  Qed.

  Lemma step_pub_fwd sg t sg' es x idx gk tl e : step sg (Step t) = Some (sg', es) -> th sg t = E4 RA x idx gk tl e ->
    rdata (ra sg) (phys cap tl) = e -> g_eq (ra sg') (tl / 2) = EPub idx /\ g_own sg' idx = OFull (tl / 2) /\ th sg' t = E5 RA x idx (tl / 2).
  Proof.
    intros Hst E Hc. unfold NikbDefs.step, step_gen in Hst. rewrite E in Hst. apply N.eqb_eq in Hc. rewrite Hc in Hst.
    inversion Hst; subst; clear Hst. sim. rewrite !setf_same. rewrite upd_same. auto.
  Qed.

  Lemma step_take_fwd sg t sg' es x hd e : step sg (Step t) = Some (sg', es) -> th sg t = D3 RA x hd e ->
    g_dq (ra sg') (hd / 2) = DTaken (N.land e (vmask cap)) /\ th sg' t = E1 RF x (N.land e (vmask cap)) (hd / 2).
  Proof.
    intros Hst E. unfold NikbDefs.step, step_gen in Hst. rewrite E in Hst.
    inversion Hst; subst; clear Hst. sim. rewrite setf_same, upd_same. auto.
  Qed.

  (** * which ring code runs in which phase *)
  Definition isE1 (q : rid) (p : pc) : bool := match p with E1 q' _ _ _ => rid_eqb q' q | _ => false end.

  Lemma isD_dq_eval q x hd att e : isD q (dq_eval cap q x hd att e) = true.
  Proof.
    destruct (dq_eval_cases cap q x hd att e) as [[_ ->]|[_ [[_ [[_ ->]|[_ [[_ ->]|[_ ->]]]]]|[_ ->]]]]; cbn [isD]; apply rid_eqb_refl.
  Qed.
  Lemma isE_en_eval q x idx gk tl e : isE q (en_eval cap q x idx gk tl e) = true.
  Proof.
    destruct (en_eval_cases cap q x idx gk tl e) as [(_ & _ & ->)|[(_ & _ & _ & ->)| ->]]; cbn [isE]; apply rid_eqb_refl.
  Qed.

  Lemma step_cls sg t sg' es : step sg (Step t) = Some (sg', es) ->
    forall q, (isD q (th sg t) = true -> isD q (th sg' t) = true \/ isE1 (other q) (th sg' t) = true \/ th sg' t = Idle) /\
              (isE q (th sg t) = true -> isE q (th sg' t) = true \/ th sg' t = Idle).
  Proof.
    intros Hst q0. unfold NikbDefs.step, step_gen in Hst.
    destruct (th sg t) as [|[v|tp]|q x|q x|q x hd att|q x hd e|q x hd att e|q x hd att e enew|q x hd|q x|q x tl hd|q x tl|q x
                           |q x idx gk|q x idx gk tl|q x idx gk tl e|q x idx gk tl e|q x idx gk|q x idx gk] eqn:Ep; try discriminate;
      cbn [isD isE]; (split; [|try (intros; discriminate)]); try (intros; discriminate); intros Hq;
      destruct (rid_eqb_spec q q0) as [->|]; try discriminate.
    all: repeat match type of Hst with context [if ?c then _ else _] => destruct c eqn:? end.
    all: try (destruct q0; inversion Hst; subst; clear Hst; sim; rewrite ?th_mark_left', ?th_mark_skip'; sim; rewrite upd_same;
              cbn [isD isE isE1 other rid_eqb]; rewrite ?isD_dq_eval, ?isE_en_eval; tauto).
  Qed.

  Lemma istep_cls sg f lb t sg' es lb' : istep cap R sg f lb t = Some (sg', es, lb') ->
    forall q, (isD q (th sg t) = true -> isD q (th sg' t) = true \/ isE1 (other q) (th sg' t) = true \/ th sg' t = Idle) /\
              (isE q (th sg t) = true -> isE q (th sg' t) = true \/ th sg' t = Idle).
  Proof.
    unfold istep. intros H.
    assert (Hn : forall r, match step sg (Step t) with Some (sg'0, es0) => Some (sg'0, es0, false) | None => None end = Some r ->
      forall q, (isD q (th sg t) = true -> isD q (th (fst (fst r)) t) = true \/ isE1 (other q) (th (fst (fst r)) t) = true \/ th (fst (fst r)) t = Idle) /\
                (isE q (th sg t) = true -> isE q (th (fst (fst r)) t) = true \/ th (fst (fst r)) t = Idle)).
    { intros [[a b] c] Hx. destruct (step sg (Step t)) as [[s1 e1]|] eqn:E; [|discriminate]. inversion Hx; subst. cbn [fst]. eapply step_cls; eauto. }
    destruct (th sg t) as [|o|q x|q x|q x hd att|q x hd e|q x hd att e|q x hd att e enew|q x hd|q x|q x tl hd|q x tl|q x
                          |q x idx gk|q x idx gk tl|q x idx gk tl e|q x idx gk tl e|q x idx gk|q x idx gk] eqn:Ep;
      try (exact (Hn _ H)); destruct q; try (exact (Hn _ H)).
    all: repeat match type of H with context [if ?c then _ else _] => destruct c end.
    all: injection H as Hs _ _; rewrite <- Hs; intros q0; cbn [isD isE]; (split; [|intros; discriminate]); intros Hq;
         sim; rewrite ?th_mark_left'; sim; rewrite upd_same; cbn [isD]; tauto.
  Qed.

  Definition PT (s : qstate) : Prop :=
    forall t, match oth s t with
              | PIn _ n => isD RF (th (nd s n) t) || isE RA (th (nd s n) t) = true
              | PRe _ n => isE RF (th (nd s n) t) = true
              | PSt _ n _ | QIn1 n _ | QIn2 n _ => isD RA (th (nd s n) t) || isE RF (th (nd s n) t) = true
              | PDel _ n _ => isD RA (th (nd s n) t) = true
              | _ => True
              end.

  (** * the phases, relationally *)
  Lemma push_in_spec st t v n s' es : push_in cap R st t v n = Some (s', es) ->
    (exists x idx gk sg' es0, th (nd st n) t = E1 RA x idx gk /\ fin st n = true /\ fin_enq cap R (nd st n) t x idx gk = Some (sg', es0) /\
                              s' = at_opc (w_nd st n sg') t (PRe v n)) \/
    (exists sg' es0, step (nd st n) (Step t) = Some (sg', es0) /\
       (forall x idx gk, th (nd st n) t = E1 RA x idx gk -> fin st n = false) /\
       ((th sg' t <> Idle /\ s' = at_opc (pub_ghost cap st (w_nd st n sg') t n (nd st n)) t (PIn v n)) \/
        (th sg' t = Idle /\ ret_of es0 = Some [0] /\ s' = at_opc (pub_ghost cap st (w_nd st n sg') t n (nd st n)) t (PFin v n)) \/
        (th sg' t = Idle /\ ret_of es0 = Some [1] /\ exists x i gk, (th (nd st n) t = E5 RA x i gk \/ th (nd st n) t = E6 RA x i gk) /\
           s' = at_opc (w_qebusy (w_qok (pub_ghost cap st (w_nd st n sg') t n (nd st n)) (q_ok st ++ [(n, gk, x)])) n gk None) t OIdle))).
  Proof.
    unfold push_in. intros H.
    destruct (th (nd st n) t) as [|o|q x|q x|q x hd att|q x hd e|q x hd att e|q x hd att e enew|q x hd|q x|q x tl hd|q x tl|q x
                          |q x idx gk|q x idx gk tl|q x idx gk tl e|q x idx gk tl e|q x idx gk|q x idx gk] eqn:Ep.
    14: destruct q; [destruct (fin st n) eqn:Ef;
          [destruct (fin_enq cap R (nd st n) t x idx gk) as [[sg' es0]|] eqn:Efe; [|discriminate];
           inversion H; subst; clear H; left; do 5 eexists; ssplit; try reflexivity; eassumption
          |destruct (step (nd st n) (Step t)) as [[sg' es0]|] eqn:Es; [|discriminate];
           inversion H; subst; clear H; right; exists sg', es0; split; [reflexivity|]; (split; [intros; reflexivity|]); left; split;
           [unfold NikbDefs.step, step_gen in Es; rewrite Ep in Es; inversion Es; subst; sim; rewrite upd_same; discriminate
           |unfold pub_ghost; rewrite Ep; reflexivity]]|].
    all: destruct (step (nd st n) (Step t)) as [[sg' es0]|] eqn:Es; [|discriminate].
    all: cbv zeta in H; right; exists sg', es0; (split; [reflexivity|]); (split; [intros; discriminate|]).
    all: destruct (th sg' t) eqn:Et.
    all: try (inversion H; subst; clear H; left; split; [discriminate|reflexivity]).
    all: right; break H; inversion H; subst; clear H; try (left; ssplit; reflexivity).
    all: right; (ssplit; [reflexivity|reflexivity|]); do 3 eexists; (split; [|reflexivity]); eauto.
  Qed.

  Lemma push_re_spec st t v n s' es : push_re cap R st t v n = Some (s', es) ->
    exists sg' es0, step (nd st n) (Step t) = Some (sg', es0) /\
      ((th sg' t <> Idle /\ s' = at_opc (w_nd st n sg') t (PRe v n)) \/
       (th sg' t = Idle /\ s' = at_opc (w_nalloc (w_nd (w_nd st n sg') (nalloc st) (used_init cap v)) (nalloc st + 3)) t (PCa v n (nalloc st) 0))).
  Proof.
    unfold push_re. intros H.
    destruct (step (nd st n) (Step t)) as [[sg' es0]|] eqn:Es; [|discriminate]. exists sg', es0. split; [reflexivity|].
    destruct (th sg' t) eqn:Et; try (inversion H; subst; clear H; left; split; [discriminate|reflexivity]).
    right. unfold new_node in H. inversion H; subst; clear H. split; reflexivity.
  Qed.

  Lemma steal_spec st t v m lb s' es : steal_phase cap R st t v m lb = Some (s', es) ->
    exists sg' es0 lb', istep cap R (nd st m) (fin st m) lb t = Some (sg', es0, lb') /\
      ((th sg' t <> Idle /\ s' = at_opc (w_nd st m sg') t (PSt v m lb')) \/
       (th sg' t = Idle /\ ((exists x, s' = at_opc (w_nd st m (enter sg' t (D0 RA 0))) t (PDel x m false)) \/ s' = at_opc (w_nd st m sg') t OStuck))).
  Proof.
    unfold steal_phase. intros H.
    destruct (istep cap R (nd st m) (fin st m) lb t) as [[[sg' es0] lb']|] eqn:Es; [|discriminate]. exists sg', es0, lb'. split; [reflexivity|].
    destruct (th sg' t) eqn:Et; try (inversion H; subst; clear H; left; split; [discriminate|reflexivity]).
    right. split; [reflexivity|]. break H; inversion H; subst; clear H; eauto.
  Qed.

  Lemma del_spec st t v m lb s' es : del_phase cap R st t v m lb = Some (s', es) ->
    exists sg' es0 lb', istep cap R (nd st m) (fin st m) lb t = Some (sg', es0, lb') /\
      ((th sg' t = Idle /\ s' = at_opc (w_nd st m sg') t (P1 v)) \/
       (isE1 RF (th sg' t) = true /\ s' = at_opc (w_nd st m sg') t OStuck) \/
       (th sg' t <> Idle /\ isE1 RF (th sg' t) = false /\ s' = at_opc (w_nd st m sg') t (PDel v m lb'))).
  Proof.
    unfold del_phase. intros H.
    destruct (istep cap R (nd st m) (fin st m) lb t) as [[[sg' es0] lb']|] eqn:Es; [|discriminate]. exists sg', es0, lb'. split; [reflexivity|].
    destruct (th sg' t) eqn:Et; try (inversion H; subst; clear H; right; right; ssplit; [discriminate|reflexivity|reflexivity]).
    - inversion H; subst; clear H. left. split; reflexivity.
    - destruct q; inversion H; subst; clear H; [right; right; ssplit; [discriminate|reflexivity|reflexivity]|right; left; split; reflexivity].
  Qed.

  Lemma pop_spec st t n lb again failed s' es : pop_phase cap R st t n lb again failed = Some (s', es) ->
    exists sg' es0 lb', istep cap R (nd st n) (fin st n) lb t = Some (sg', es0, lb') /\
      ((th sg' t <> Idle /\ s' = at_opc (take_ghost cap st (w_nd st n sg') t n (nd st n)) t (again lb')) \/
       (th sg' t = Idle /\ ret_of es0 = Some [3] /\ s' = at_opc (take_ghost cap st (w_nd st n sg') t n (nd st n)) t failed) \/
       (th sg' t = Idle /\ exists x x' i gk, ret_of es0 = Some [1; x] /\ (th (nd st n) t = E5 RF x' i gk \/ th (nd st n) t = E6 RF x' i gk) /\
          s' = at_opc (w_qdbusy (w_qret (take_ghost cap st (w_nd st n sg') t n (nd st n)) (q_ret st ++ [(n, gk, x)])) n gk None) t OIdle)).
  Proof.
    unfold pop_phase. intros H.
    destruct (istep cap R (nd st n) (fin st n) lb t) as [[[sg' es0] lb']|] eqn:Es; [|discriminate]. exists sg', es0, lb'. split; [reflexivity|].
    cbv zeta in H.
    destruct (th sg' t) eqn:Et; try (inversion H; subst; clear H; left; split; [discriminate|reflexivity]).
    right. break H; inversion H; subst; clear H; try (left; ssplit; reflexivity).
    all: right; (split; [reflexivity|]); do 4 eexists; (ssplit; [reflexivity| |reflexivity]); eauto.
  Qed.

  Lemma xs_th_fwd t a b u : xs cap R false t a b -> u <> t -> th b u = th a u.
  Proof.
    intros Hx Hne. induction Hx as [sg|a b c H1 IH1 H2 IH2|sg f lb sg' es lb' Hi|sg sg' es Hs|sg q x Hi|sg Hi|sg x idx gk sg' es Hp Hf|sg v Hai].
    - reflexivity.
    - rewrite IH2, IH1. reflexivity.
    - eapply istep_th_other; eauto.
    - eapply step_th_other; eauto.
    - apply enter_th. exact Hne.
    - destruct (enter_th (w_rg sg RA (r_thr (ra sg) (thr_full cap))) t (D0 RA 0)) as [_ Ho]. rewrite (Ho u Hne). reflexivity.
    - destruct (fin_enq_th _ _ _ _ _ _ _ _ _ Hf) as [_ Ho]. apply Ho. exact Hne.
    - discriminate.
  Qed.

  Lemma qstep_th_other s a s' es n u : Coh s -> qstep s a = Some (s', es) -> n <> nalloc s -> u <> tid a -> th (nd s' n) u = th (nd s n) u.
  Proof.
    intros Hc Hst Hn Hne. apply (xs_th_fwd (tid a)); [|exact Hne].
    pose proof (qstep_xs cap R false s a s' es Hc Hst n (or_intror Hn)) as Hx. destruct a; exact Hx.
  Qed.

  (** the node of a phase is allocated *)
  Lemma innode_lt s t n : CI cap s -> innode (oth s t) = Some n -> n < nalloc s.
  Proof.
    intros Hc Hi. destruct (oth s t) eqn:Eo; cbn [innode] in Hi; inversion Hi; subst.
    1,2,5,6: (assert (Hin : In n (q_nodes s)) by (apply (c_refs cap s Hc t); rewrite Eo; left; reflexivity); pose proof (c_lt cap s Hc n Hin); lia).
    all: destruct (c_priv cap s Hc t n ltac:(rewrite Eo; reflexivity)) as (_ & V2 & _); lia.
  Qed.

  Lemma PT_init : PT (qinit cap).
  Proof. intros t. exact I. Qed.

  Lemma orb_l a b : a = true -> a || b = true. Proof. intros ->. reflexivity. Qed.
  Lemma orb_r a b : b = true -> a || b = true. Proof. intros ->. apply orb_true_r. Qed.

  Lemma PT_step s a s' es : Coh s -> CI cap s -> PT s -> qstep s a = Some (s', es) -> PT s'.
  Proof.
    intros Hh Hc HP Hst u. destruct (qstep_eff cap R s a s' es Hh Hst) as [Ho _].
    destruct (Nat.eq_dec u (tid a)) as [->|Hne].
    2:{ rewrite (Ho u Hne). specialize (HP u).
        destruct (oth s u) eqn:Eu; try exact I;
          (rewrite (qstep_th_other s a s' es _ u Hh Hst); [exact HP| |exact Hne]);
          (assert (Hl := innode_lt s u _ Hc ltac:(rewrite Eu; reflexivity)); lia). }
    clear Ho. unfold NikqDefs.qstep in Hst. destruct a as [t o|t]; cbn [tid].
    - destruct (oth s t); try discriminate. inversion Hst; subst. qsimg. rewrite upd_same. exact I.
    - specialize (HP t).
      destruct (oth s t) as [|[v|tp]| |v|v n|v n|v n nx|v n|v n|v n|v n m0 i|v n m0 i|v n m0|v n m0|v m0 lb|v m0 lb| |n lb|n|n|n lb|n|n nx] eqn:Eo;
        try discriminate.
      all: try (break Hst; inversion Hst; subst; clear Hst; qsimg; rewrite upd_same; try exact I; rewrite setf_same; unfold enter; sim; rewrite upd_same; reflexivity).
      + (* PIn *) destruct (push_in_spec _ _ _ _ _ _ Hst) as [(x & idx & gk & sg' & es0 & Ep & Ef & Hfe & ->)|(sg' & es0 & Hs & _ & [[Hni ->]|[(Hi & _ & ->)|(Hi & _ & x & i & gk & _ & ->)]])];
          qsimg; rewrite ?oth_pub_ghost; qsimg; rewrite upd_same; try exact I.
        * rewrite setf_same. destruct (fin_enq_th _ _ _ _ _ _ _ _ _ Hfe) as [-> _]. reflexivity.
        * rewrite nd_pub_ghost. qsimg. rewrite setf_same. apply orb_true_iff in HP.
          destruct HP as [HP|HP].
          -- destruct (step_cls _ _ _ _ Hs RF) as [Y _]. destruct (Y HP) as [Z|[Z|Z]]; [apply orb_l; exact Z| |contradiction].
             apply orb_r. destruct (th sg' t); try discriminate. cbn [isE1 isE other] in *. exact Z.
          -- destruct (step_cls _ _ _ _ Hs RA) as [_ Y]. destruct (Y HP) as [Z|Z]; [apply orb_r; exact Z|contradiction].
      + (* PRe *) destruct (push_re_spec _ _ _ _ _ _ Hst) as (sg' & es0 & Hs & [[Hni ->]|[Hi ->]]); qsimg; rewrite upd_same; try exact I.
        rewrite setf_same. destruct (step_cls _ _ _ _ Hs RF) as [_ Y]. destruct (Y HP) as [Z|Z]; [exact Z|contradiction].
      + (* PSt *) destruct (steal_spec _ _ _ _ _ _ _ Hst) as (sg' & es0 & lb' & Hs & [[Hni ->]|[Hi [[x ->]| ->]]]); qsimg; rewrite upd_same; try exact I.
        * rewrite setf_same. apply orb_true_iff in HP. destruct HP as [HP|HP].
          -- destruct (istep_cls _ _ _ _ _ _ _ Hs RA) as [Y _]. destruct (Y HP) as [Z|[Z|Z]]; [apply orb_l; exact Z| |contradiction].
             apply orb_r. destruct (th sg' t); try discriminate. cbn [isE1 isE other] in *. exact Z.
          -- destruct (istep_cls _ _ _ _ _ _ _ Hs RF) as [_ Y]. destruct (Y HP) as [Z|Z]; [apply orb_r; exact Z|contradiction].
        * rewrite setf_same. unfold enter. sim. rewrite upd_same. reflexivity.
      + (* PDel *) destruct (del_spec _ _ _ _ _ _ _ Hst) as (sg' & es0 & lb' & Hs & [[Hi ->]|[[Hi ->]|(Hni & Hn1 & ->)]]); qsimg; rewrite upd_same; try exact I.
        rewrite setf_same. destruct (istep_cls _ _ _ _ _ _ _ Hs RA) as [Y _]. destruct (Y HP) as [Z|[Z|Z]]; [exact Z| |contradiction].
        cbn [other] in Z. congruence.
      + (* QIn1 *) destruct (pop_spec _ _ _ _ _ _ _ _ Hst) as (sg' & es0 & lb' & Hs & [[Hni ->]|[(Hi & _ & ->)|(Hi & x & x' & i & gk & _ & _ & ->)]]);
          qsimg; rewrite ?oth_take_ghost; qsimg; rewrite upd_same; try exact I.
        rewrite nd_take_ghost. qsimg. rewrite setf_same. apply orb_true_iff in HP. destruct HP as [HP|HP].
        -- destruct (istep_cls _ _ _ _ _ _ _ Hs RA) as [Y _]. destruct (Y HP) as [Z|[Z|Z]]; [apply orb_l; exact Z| |contradiction].
           apply orb_r. destruct (th sg' t); try discriminate. cbn [isE1 isE other] in *. exact Z.
        -- destruct (istep_cls _ _ _ _ _ _ _ Hs RF) as [_ Y]. destruct (Y HP) as [Z|Z]; [apply orb_r; exact Z|contradiction].
      + (* QIn2 *) destruct (pop_spec _ _ _ _ _ _ _ _ Hst) as (sg' & es0 & lb' & Hs & [[Hni ->]|[(Hi & _ & ->)|(Hi & x & x' & i & gk & _ & _ & ->)]]);
          qsimg; rewrite ?oth_take_ghost; qsimg; rewrite upd_same; try exact I.
        rewrite nd_take_ghost. qsimg. rewrite setf_same. apply orb_true_iff in HP. destruct HP as [HP|HP].
        -- destruct (istep_cls _ _ _ _ _ _ _ Hs RA) as [Y _]. destruct (Y HP) as [Z|[Z|Z]]; [apply orb_l; exact Z| |contradiction].
           apply orb_r. destruct (th sg' t); try discriminate. cbn [isE1 isE other] in *. exact Z.
        -- destruct (istep_cls _ _ _ _ _ _ _ Hs RF) as [_ Y]. destruct (Y HP) as [Z|Z]; [apply orb_r; exact Z|contradiction].
  Qed.

  Theorem PT_reach : forall s, reach (qinit cap) qstep s -> PT s.
  Proof.
    apply (inv_rule_aux _ _ _ (qinit cap) qstep (fun s => Coh s /\ CI cap s) PT).
    - intros s Hr. split; [apply (Coh_reach cap R); exact Hr|apply (CI_reach cap R); exact Hr].
    - apply PT_init.
    - intros s a s' es [Hh Hc] _ HP Hst. eapply PT_step; eauto.
  Qed.

  (** * the value invariant *)
  Definition T3q (s : qstate) (t : nat) : Prop :=
    match oth s t with
    | PIn v n =>
      match th (nd s n) t with
      | E2 RA x i _ _ | E3 RA x i _ _ _ | E4 RA x i _ _ _ => store (nd s n) i = x
      | E5 RA x i gk | E6 RA x i gk => In (n, gk, x) (q_in s) /\ q_ebusy s n gk = Some t
      | _ => True
      end
    | PSw v n m => In (m, 0, v) (q_in s) /\ q_ebusy s m 0 = Some t
    | QIn1 n _ | QIn2 n _ =>
      match th (nd s n) t with
      | E1 RF x i gk => In (n, gk, store (nd s n) i) (q_out s) /\ q_dbusy s n gk = Some t
      | E2 RF x i gk _ | E3 RF x i gk _ _ | E4 RF x i gk _ _ => In (n, gk, x) (q_out s) /\ q_dbusy s n gk = Some t /\ store (nd s n) i = x
      | E5 RF x i gk | E6 RF x i gk => In (n, gk, x) (q_out s) /\ q_dbusy s n gk = Some t
      | _ => True
      end
    | _ => True
    end.

  Record VI (s : qstate) : Prop := mkVI {
    v1 : forall n i T, In n (q_nodes s) -> i < cap -> g_own (nd s n) i = OFull T -> In (n, T, store (nd s n) i) (q_in s);
    v2 : forall n T v, In (n, T, v) (q_in s) -> In n (q_nodes s) /\ exists i, g_eq (ra (nd s n)) T = EPub i;
    v2n : NoDup (map fst (q_in s));
    v3 : forall n H v, In (n, H, v) (q_out s) -> In (n, H, v) (q_in s) /\ exists i, g_dq (ra (nd s n)) H = DTaken i;
    v3n : NoDup (map fst (q_out s));
    v4 : forall n H i, In n (q_nodes s) -> g_dq (ra (nd s n)) H = DTaken i -> exists v, In (n, H, v) (q_out s);
    vok : forall n T v, In (n, T, v) (q_ok s) -> In (n, T, v) (q_in s) /\ q_ebusy s n T = None;
    vokn : NoDup (map fst (q_ok s));
    vret : forall n H v, In (n, H, v) (q_ret s) -> In (n, H, v) (q_out s) /\ q_dbusy s n H = None;
    vretn : NoDup (map fst (q_ret s));
    vb1 : forall n T u, q_ebusy s n T = Some u -> exists v, In (n, T, v) (q_in s);
    vb2 : forall n H u, q_dbusy s n H = Some u -> exists v, In (n, H, v) (q_out s);
    vt : forall t, T3q s t }.

  Lemma VI_init : VI (qinit cap).
  Proof.
    constructor; cbn [qinit q_nodes q_in q_out q_ok q_ret q_ebusy q_dbusy nd].
    - intros n i T _ _. cbn [init g_own]. discriminate.
    - intros n T v [].
    - constructor.
    - intros n H v [].
    - constructor.
    - intros n H i _. cbn [init rgs g_dq]. discriminate.
    - intros n T v [].
    - constructor.
    - intros n H v [].
    - constructor.
    - intros n T u Hx. discriminate.
    - intros n H u Hx. discriminate.
    - intros t. exact I.
  Qed.

  (** the part of a node state the value invariant looks at *)
  Definition vsame (a b : state) : Prop :=
    (forall i, store b i = store a i) /\ (forall i, g_own b i = g_own a i) /\
    (forall T, g_eq (ra b) T = g_eq (ra a) T) /\ (forall H, g_dq (ra b) H = g_dq (ra a) H).

  Lemma vsame_refl a : vsame a a. Proof. repeat split. Qed.

  Lemma T3q_same s s' u :
    oth s' u = oth s u -> (forall n, In n (refs (oth s u)) -> th (nd s' n) u = th (nd s n) u /\ vsame (nd s n) (nd s' n)) ->
    q_in s' = q_in s -> q_out s' = q_out s -> q_ebusy s' = q_ebusy s -> q_dbusy s' = q_dbusy s ->
    T3q s u -> T3q s' u.
  Proof.
    intros Ho Hn E1 E2 E3 E4. unfold T3q. rewrite Ho, E1, E2, E3, E4.
    destruct (oth s u) eqn:Eu; try exact (fun x => x); cbn [refs] in Hn.
    all: destruct (Hn n ltac:(left; reflexivity)) as (-> & Hs & _).
    all: destruct (th (nd s n) u); try exact (fun x => x); try destruct q; try exact (fun x => x); rewrite ?Hs; exact (fun x => x).
  Qed.

  (** steps that change no ghost and nothing the invariant looks at in the linked nodes *)
  Lemma VI_same s s' t :
    VI s -> q_nodes s' = q_nodes s -> q_in s' = q_in s -> q_out s' = q_out s -> q_ok s' = q_ok s -> q_ret s' = q_ret s ->
    q_ebusy s' = q_ebusy s -> q_dbusy s' = q_dbusy s ->
    (forall n, In n (q_nodes s) -> vsame (nd s n) (nd s' n)) ->
    (forall u, u <> t -> oth s' u = oth s u /\ forall n, In n (q_nodes s) -> th (nd s' n) u = th (nd s n) u) ->
    (forall u n, In n (refs (oth s u)) -> In n (q_nodes s)) ->
    T3q s' t -> VI s'.
  Proof.
    intros [a1 a2 a2n a3 a3n a4 aok aokn aret aretn ab1 ab2 at_] En Ei Eo Eok Er Eeb Edb Hv Hu Hrf Ht.
    constructor; rewrite ?En, ?Ei, ?Eo, ?Eok, ?Er, ?Eeb, ?Edb; try assumption.
    - intros n i T Hn Hi Hx. destruct (Hv n Hn) as (A & B & _). rewrite A. apply a1; [exact Hn|exact Hi|rewrite <- B; exact Hx].
    - intros n T v Hx. destruct (a2 n T v Hx) as [Hn [i Hy]]. split; [exact Hn|]. exists i. destruct (Hv n Hn) as (_ & _ & C & _). rewrite C. exact Hy.
    - intros n H v Hx. destruct (a3 n H v Hx) as [Hy [i Hz]]. split; [exact Hy|]. exists i.
      destruct (a2 n H v Hy) as [Hn _]. destruct (Hv n Hn) as (_ & _ & _ & D). rewrite D. exact Hz.
    - intros n H i Hn Hx. apply (a4 n H i Hn). destruct (Hv n Hn) as (_ & _ & _ & D). rewrite <- D. exact Hx.
    - intros u. destruct (Nat.eq_dec u t) as [->|Hne]; [exact Ht|]. destruct (Hu u Hne) as [Ho Hth].
      apply (T3q_same s s' u); try assumption; [|apply at_].
      intros n Hn. split; [apply Hth|apply Hv]; eapply Hrf; eauto.
  Qed.

  (** a node state changed without publishing into / taking from RA: cells of indices in RA keep their value *)
  Definition vle (a b : state) : Prop :=
    (forall i T, g_own b i = OFull T -> g_own a i = OFull T /\ store b i = store a i) /\
    (forall T i, g_eq (ra b) T = EPub i <-> g_eq (ra a) T = EPub i) /\
    (forall H i, g_dq (ra b) H = DTaken i <-> g_dq (ra a) H = DTaken i).

  Lemma vle_refl a : vle a a.
  Proof. split; [auto|split; intros; tauto]. Qed.
  Lemma vsame_vle a b : vsame a b -> vle a b.
  Proof. intros (A & B & C & D). split; [intros i T; rewrite A, B; auto|split; intros; rewrite ?C, ?D; tauto]. Qed.

  (** the first ten fields, when the ghost lists do not change *)
  Lemma VI_vle s s' :
    VI s -> q_nodes s' = q_nodes s -> q_in s' = q_in s -> q_out s' = q_out s -> q_ok s' = q_ok s -> q_ret s' = q_ret s ->
    q_ebusy s' = q_ebusy s -> q_dbusy s' = q_dbusy s ->
    (forall n, In n (q_nodes s) -> vle (nd s n) (nd s' n)) -> (forall t, T3q s' t) -> VI s'.
  Proof.
    intros [a1 a2 a2n a3 a3n a4 aok aokn aret aretn ab1 ab2 at_] En Ei Eo Eok Er Eeb Edb Hv Ht.
    constructor; rewrite ?En, ?Ei, ?Eo, ?Eok, ?Er, ?Eeb, ?Edb; try assumption.
    - intros n i T Hn Hi Hx. destruct (Hv n Hn) as (A & _). destruct (A i T Hx) as [B ->]. apply a1; assumption.
    - intros n T v Hx. destruct (a2 n T v Hx) as [Hn [i Hy]]. split; [exact Hn|]. exists i. destruct (Hv n Hn) as (_ & C & _). apply C. exact Hy.
    - intros n H v Hx. destruct (a3 n H v Hx) as [Hy [i Hz]]. split; [exact Hy|]. exists i.
      destruct (a2 n H v Hy) as [Hn _]. destruct (Hv n Hn) as (_ & _ & D). apply D. exact Hz.
    - intros n H i Hn Hx. apply (a4 n H i Hn). destruct (Hv n Hn) as (_ & _ & D). apply D. exact Hx.
  Qed.

  (** the facts about another thread survive when its program points, its busy keys and the cells it holds are untouched
      and the lists only grow *)
  Lemma T3q_other s s' u :
    oth s' u = oth s u -> (forall n, In n (refs (oth s u)) -> th (nd s' n) u = th (nd s n) u) ->
    (forall x, In x (q_in s) -> In x (q_in s')) -> (forall x, In x (q_out s) -> In x (q_out s')) ->
    (forall n T, q_ebusy s n T = Some u -> q_ebusy s' n T = Some u) ->
    (forall n H, q_dbusy s n H = Some u -> q_dbusy s' n H = Some u) ->
    (forall n q i, In n (refs (oth s u)) -> hidx (th (nd s n) u) = Some (q, i) -> store (nd s' n) i = store (nd s n) i) ->
    T3q s u -> T3q s' u.
  Proof.
    intros Ho Hth Hi Hq Hb1 Hb2 Hs. unfold T3q. rewrite Ho.
    destruct (oth s u) eqn:Eu; try exact (fun x => x); cbn [refs] in Hth, Hs.
    - rewrite (Hth n ltac:(left; reflexivity)). pose proof (Hs n) as Hs'.
      destruct (th (nd s n) u); try exact (fun x => x); destruct q; try exact (fun x => x); cbn [hidx] in Hs';
        try (rewrite (Hs' _ _ ltac:(left; reflexivity) eq_refl); exact (fun x => x));
        intros [A B]; split; auto.
    - intros [A B]. split; auto.
    - rewrite (Hth n ltac:(left; reflexivity)). pose proof (Hs n) as Hs'.
      destruct (th (nd s n) u); try exact (fun x => x); destruct q; try exact (fun x => x); cbn [hidx] in Hs';
        try (rewrite (Hs' _ _ ltac:(left; reflexivity) eq_refl)); intuition auto.
    - rewrite (Hth n ltac:(left; reflexivity)). pose proof (Hs n) as Hs'.
      destruct (th (nd s n) u); try exact (fun x => x); destruct q; try exact (fun x => x); cbn [hidx] in Hs';
        try (rewrite (Hs' _ _ ltac:(left; reflexivity) eq_refl)); intuition auto.
  Qed.

  (** * steps of the ring code that neither publish into nor take from RA *)
  Lemma held_cell sg t q i : Inv2 k sg -> hidx (th sg t) = Some (q, i) -> g_own sg i = held q t /\ i < cap.
  Proof. intros (_ & HT & _) Hh. destruct (HT t) as (_ & _ & C & _). apply C. exact Hh. Qed.

  Lemma step_vle sg t sg' es : Inv1 k sg -> Inv2 k sg -> step sg (Step t) = Some (sg', es) ->
    (forall x idx gk tl e, th sg t = E4 RA x idx gk tl e -> rdata (ra sg) (phys cap tl) <> e) ->
    (forall x hd e, th sg t <> D3 RA x hd e) -> vle sg sg'.
  Proof.
    intros I1 I2 Hst Hn4 Hn3. destruct (fate_stable k R Hk _ _ _ _ I1 I2 Hst) as [Fe Fd]. split; [|split].
    - intros i T Hx. destruct (step_own _ _ _ _ i Hst) as [E|[(q & x & hd & e & Ep & _ & E)|(q & x & gk & tl & e & Ep & Hc & E)]].
      + rewrite E in Hx. split; [exact Hx|]. destruct (step_store _ _ _ _ i Hst) as [Es|(x & gk & Ep & _)]; [exact Es|exfalso].
        destruct (held_cell sg t RA i I2 ltac:(rewrite Ep; reflexivity)) as [Ho _]. rewrite Ho in Hx. discriminate.
      + rewrite E in Hx. destruct q; discriminate.
      + rewrite E in Hx. destruct q; [|discriminate]. exfalso. apply (Hn4 _ _ _ _ _ Ep Hc).
    - intros T i. split; [|apply Fe]. intros Hx. destruct (step_pub _ _ _ _ T i Hst Hx) as [E|(x & gk & tl & e & Ep & _ & Hc)]; [exact E|].
      exfalso. apply (Hn4 _ _ _ _ _ Ep Hc).
    - intros H i. split; [|apply Fd]. intros Hx. destruct (fate_back k R Hk _ _ _ _ Hst H i Hx) as [E|(t' & x & hd & e & Ea & Ep & _)]; [exact E|].
      inversion Ea; subst t'. exfalso. apply (Hn3 _ _ _ Ep).
  Qed.

  Lemma istep_special_vle sg f lb t sg' es lb' : Inv2 k sg -> istep cap R sg f lb t = Some (sg', es, lb') ->
    (match th sg t with D4 RA _ _ _ _ | D6 RA _ _ | C1 RA _ _ _ | C2 RA _ _ => True | _ => False end) -> vle sg sg'.
  Proof.
    intros I2 H Hsp. unfold istep in H. pose proof I2 as (_ & HT & _). pose proof (HT t) as (Ta & _).
    destruct (th sg t) as [|o|q x|q x|q x hd att|q x hd e|q x hd att e|q x hd att e enew|q x hd|q x|q x tl hd|q x tl|q x
                          |q x idx gk|q x idx gk tl|q x idx gk tl e|q x idx gk tl e|q x idx gk|q x idx gk] eqn:Ep; try contradiction;
      destruct q; try contradiction.
    all: repeat match type of H with context [if ?c then _ else _] => destruct c end.
    all: injection H as Hs _ _; rewrite <- Hs; unfold mark_left; cbn [leaves]; (split; [|split]); intros; sim; try tauto.
    unfold setf. destruct (N.eqb_spec H (hd / 2)) as [->|]; [|tauto].
    rewrite (Ta RA hd eq_refl). split; discriminate.
  Qed.

  Lemma istep_vle sg f lb t sg' es lb' : Inv1 k sg -> Inv2 k sg -> istep cap R sg f lb t = Some (sg', es, lb') ->
    (forall x hd e, th sg t <> D3 RA x hd e) -> isD RA (th sg t) || isE RF (th sg t) = true -> vle sg sg'.
  Proof.
    intros I1 I2 H Hn3 Hcl.
    assert (Hn : forall r, match step sg (Step t) with Some (sg'0, es0) => Some (sg'0, es0, false) | None => None end = Some r -> vle sg (fst (fst r))).
    { intros [[a b] c] Hx. destruct (step sg (Step t)) as [[s1 e1]|] eqn:E; [|discriminate]. injection Hx as Ha _ _. subst a. cbn [fst].
      apply (step_vle sg t s1 e1 I1 I2 E); [|exact Hn3].
      intros x idx gk tl e Ep. rewrite Ep in Hcl. discriminate. }
    destruct (th sg t) as [|o|q x|q x|q x hd att|q x hd e|q x hd att e|q x hd att e enew|q x hd|q x|q x tl hd|q x tl|q x
                          |q x idx gk|q x idx gk tl|q x idx gk tl e|q x idx gk tl e|q x idx gk|q x idx gk] eqn:Ep;
      try (unfold istep in H; rewrite Ep in H; exact (Hn _ H)); destruct q; try (unfold istep in H; rewrite Ep in H; exact (Hn _ H)).
    all: apply (istep_special_vle sg f lb t sg' es lb' I2 H); rewrite Ep; exact I.
  Qed.

  Lemma fin_enq_vle sg t x idx gk sg' es : Inv1 k sg -> Inv2 k sg -> th sg t = E1 RA x idx gk ->
    fin_enq cap R sg t x idx gk = Some (sg', es) ->
    vle sg sg' /\ (forall i, i <> idx -> store sg' i = store sg i).
  Proof.
    intros I1 I2 Ep H. pose proof (ticket_fresh_eq k R Hk sg RA I1 I2) as Hfr.
    destruct (held_cell sg t RA idx I2 ltac:(rewrite Ep; reflexivity)) as [Ho _]. cbn [held] in Ho.
    unfold fin_enq in H. destruct (step sg (Step t)) as [[s1 e1]|] eqn:Es; [|discriminate].
    unfold NikbDefs.step, step_gen in Es. rewrite Ep in Es. injection Es as Hs1 _. subst s1.
    injection H as Hs _. rewrite <- Hs. clear Hs.
    cbn [mark_skip skips]. unfold vle. sim. split; [split; [|split]|].
    - intros i T. unfold setf. destruct (N.eqb_spec i idx) as [->|]; [discriminate|auto].
    - intros T i. unfold setf. destruct (N.eqb_spec T (rtail (rgs sg RA) / 2)) as [->|]; [|tauto].
      rewrite Hfr. split; discriminate.
    - intros; tauto.
    - intros i Hne. apply setf_other. exact Hne.
  Qed.

  (** * the two steps that change RA's contents *)
  Lemma step_pub_eff sg t sg' es x idx gk tl e : Inv1 k sg -> Inv2 k sg -> step sg (Step t) = Some (sg', es) ->
    th sg t = E4 RA x idx gk tl e -> rdata (ra sg) (phys cap tl) = e ->
    (forall i T, g_own sg' i = OFull T -> (i <> idx /\ g_own sg i = OFull T) \/ (i = idx /\ T = tl / 2)) /\
    (forall i, store sg' i = store sg i) /\
    (forall T i, g_eq (ra sg') T = EPub i <-> (g_eq (ra sg) T = EPub i \/ (T = tl / 2 /\ i = idx))) /\
    (forall H i, g_dq (ra sg') H = DTaken i <-> g_dq (ra sg) H = DTaken i) /\
    g_eq (ra sg) (tl / 2) = EHeld t /\ idx < cap.
  Proof.
    intros I1 I2 Hst Ep Hc. destruct (fate_stable k R Hk _ _ _ _ I1 I2 Hst) as [Fe Fd].
    destruct (step_pub_fwd _ _ _ _ _ _ _ _ _ Hst Ep Hc) as (P1 & P2 & P3).
    destruct (held_cell sg t RA idx I2 ltac:(rewrite Ep; reflexivity)) as [Ho Hidx].
    pose proof I2 as (_ & HT & _). destruct (HT t) as (_ & Tb & _). specialize (Tb RA tl ltac:(rewrite Ep; reflexivity)).
    ssplit; try assumption.
    - intros i T Hx. destruct (N.eq_dec i idx) as [->|Hne].
      + right. split; [reflexivity|]. rewrite P2 in Hx. inversion Hx. reflexivity.
      + left. split; [exact Hne|]. destruct (step_own _ _ _ _ i Hst) as [E|[(q & x' & hd & e' & Ep' & _)|(q & x' & gk' & tl' & e' & Ep' & _)]].
        * rewrite <- E. exact Hx.
        * rewrite Ep in Ep'. discriminate.
        * rewrite Ep in Ep'. inversion Ep'. congruence.
    - intros i. destruct (step_store _ _ _ _ i Hst) as [E|(x' & gk' & Ep' & _)]; [exact E|]. rewrite Ep in Ep'. discriminate.
    - intros T i. split.
      + intros Hx. destruct (step_pub _ _ _ _ T i Hst Hx) as [E|(x' & gk' & tl' & e' & Ep' & -> & _)]; [left; exact E|].
        rewrite Ep in Ep'. inversion Ep'; subst. right. split; reflexivity.
      + intros [Hx|[-> ->]]; [apply Fe; exact Hx|exact P1].
    - intros H i. split; [|apply Fd]. intros Hx. destruct (fate_back k R Hk _ _ _ _ Hst H i Hx) as [E|(t' & x' & hd & e' & Ea & Ep' & _)]; [exact E|].
      inversion Ea; subst t'. rewrite Ep in Ep'. discriminate.
  Qed.

  Lemma step_take_eff sg t sg' es x hd e : Inv1 k sg -> Inv2 k sg -> step sg (Step t) = Some (sg', es) ->
    th sg t = D3 RA x hd e ->
    let i0 := N.land e (vmask cap) in
    (forall i T, g_own sg' i = OFull T -> i <> i0 /\ g_own sg i = OFull T) /\
    (forall i, store sg' i = store sg i) /\
    (forall T i, g_eq (ra sg') T = EPub i <-> g_eq (ra sg) T = EPub i) /\
    (forall H i, g_dq (ra sg') H = DTaken i <-> (g_dq (ra sg) H = DTaken i \/ (H = hd / 2 /\ i = i0))) /\
    g_dq (ra sg) (hd / 2) = DHeld t /\ g_own sg i0 = OFull (hd / 2) /\ i0 < cap /\ g_own sg' i0 = ORead t.
  Proof.
    intros I1 I2 Hst Ep i0. destruct (fate_stable k R Hk _ _ _ _ I1 I2 Hst) as [Fe Fd].
    destruct (step_take_fwd _ _ _ _ _ _ _ Hst Ep) as (P1 & P2).
    destruct (ticket_of_pc k R Hk sg t RA hd I1 I2 ltac:(rewrite Ep; reflexivity)) as (Hhd2 & Hhdlt & Hheld & Hcyc).
    pose proof I2 as (HR & HT & _). destruct (HT t) as (_ & _ & _ & Td). rewrite Ep in Td. destruct Td as (Hidx & Hsi & Hsc).
    assert (Ei0 : i0 = eidx k e) by (unfold i0; apply (land_vmask k Hk)).
    destruct (HR RA) as [_ _ _ _ s2 _ _ _ _].
    assert (HH0 : 2 * (hd / 2) < 2 ^ 62) by (rewrite <- Hhd2; exact Hhdlt).
    destruct (s2 (hd / 2) HH0 ltac:(rewrite Hsi; exact Hidx) ltac:(rewrite Hsc; exact Hcyc)) as (X & Y & Z).
    rewrite Hsi, <- Ei0 in X, Y. cbn [inring] in Y.
    assert (Hown' : g_own sg' i0 = ORead t).
    { unfold NikbDefs.step, step_gen in Hst. rewrite Ep in Hst. inversion Hst; subst; clear Hst. sim. apply setf_same. }
    ssplit; try assumption; try (rewrite Ei0; exact Hidx).
    - intros i T Hx. destruct (N.eq_dec i i0) as [->|Hne]; [rewrite Hown' in Hx; discriminate|]. split; [exact Hne|].
      destruct (step_own _ _ _ _ i Hst) as [E|[(q & x' & hd' & e' & Ep' & Hi' & _)|(q & x' & gk' & tl' & e' & Ep' & _)]].
      + rewrite <- E. exact Hx.
      + rewrite Ep in Ep'. inversion Ep'; subst. exfalso. apply Hne. reflexivity.
      + rewrite Ep in Ep'. discriminate.
    - intros i. destruct (step_store _ _ _ _ i Hst) as [E|(x' & gk' & Ep' & _)]; [exact E|]. rewrite Ep in Ep'. discriminate.
    - intros T i. split; [|apply Fe]. intros Hx. destruct (step_pub _ _ _ _ T i Hst Hx) as [E|(x' & gk' & tl' & e' & Ep' & _)]; [exact E|].
      rewrite Ep in Ep'. discriminate.
    - intros H i. split.
      + intros Hx. destruct (fate_back k R Hk _ _ _ _ Hst H i Hx) as [E|(t' & x' & hd' & e' & Ea & Ep' & ->)]; [left; exact E|].
        inversion Ea; subst t'. rewrite Ep in Ep'. inversion Ep'; subst. right. split; [reflexivity|]. rewrite P1 in Hx. inversion Hx. reflexivity.
      + intros [Hx|[-> ->]]; [apply Fd; exact Hx|exact P1].
  Qed.
End Val.
