(** C16 for xenium::left_right: [read] is wait-free (7 solo steps including the START step, from every
    reachable state, whatever the writer and the other readers are doing); [update] is blocking:
    concrete reachable states in which an updater running alone never finishes (it waits for the
    mutex, or it spins on a read indicator held by a stopped reader).  No axioms, no admits. *)
From Coq Require Import NArith List Bool Lia PeanoNat.
From XV Require Import Base.Word Conc.Lts Conc.Ev Conc.Solo Model.LeftRightDefs.
Import ListNotations.
Local Open Scope N_scope.

Definition idle (s : state) (t : nat) : bool := match th s t with Idle => true | _ => false end.

(** remaining steps of a thread inside [read] (exact) *)
Definition read_mu (p : pc) : nat :=
  match p with
  | Begin ORead => 7 | R1 => 6 | R2 _ => 5 | R3 _ => 4 | R4 _ _ => 3 | R5 _ _ _ => 2 | R6 _ _ _ => 1
  | _ => 0
  end.

(** thread is idle or inside [read] *)
Definition read_pc (p : pc) : bool :=
  match p with
  | Idle | Begin ORead | R1 | R2 _ | R3 _ | R4 _ _ | R5 _ _ _ | R6 _ _ _ => true
  | _ => false
  end.

Definition lr_read_bound (s : state) (t : nat) : nat := read_mu (th s t).

Lemma lr_read_step s t :
  reach init step s /\ read_pc (th s t) = true -> idle s t = false ->
  exists s' es, step s (Step t) = Some (s', es) /\ (reach init step s' /\ read_pc (th s' t) = true) /\
                lr_read_bound s t = S (lr_read_bound s' t).
Proof.
  intros [Hr Hp] Hi. unfold idle in Hi. unfold lr_read_bound.
  assert (Hen : exists s' es, step s (Step t) = Some (s', es)).
  { cbn [step]. destruct (th s t) as [|[|]| | | | | | | | | | | | | | | | | | | | ]; try discriminate; eauto. }
  destruct Hen as (s' & es & Hst). exists s', es. split; [exact Hst|].
  assert (Hr' : reach init step s') by (eapply reach_step; eauto).
  cbn [step] in Hst.
  destruct (th s t) as [|[|]| | | | | | | | | | | | | | | | | | | | ] eqn:E; try discriminate;
    inversion Hst; subst; cbn [th]; rewrite upd_same; cbn [read_pc read_mu]; auto.
Qed.

(** read finishes after exactly [lr_read_bound] solo steps: wait-free *)
Theorem lr_read_solo_exact s t :
  reach init step s -> read_pc (th s t) = true ->
  finishes_exactly step Step idle t (lr_read_bound s t) s.
Proof.
  intros Hr Hp.
  apply (finishes_by_exact_measure _ _ _ step Step idle
           (fun s => reach init step s /\ read_pc (th s t) = true) (fun s => lr_read_bound s t) t);
    [| |split; assumption].
  - intros s0 _ Hi. unfold idle in Hi. unfold lr_read_bound. destruct (th s0 t); try discriminate. reflexivity.
  - intros s0 HP Hi. destruct (lr_read_step s0 t HP Hi) as (s' & es & H1 & H2 & H3). eauto.
Qed.

Theorem lr_read_solo s t :
  reach init step s -> read_pc (th s t) = true ->
  finishes_within step Step idle t (lr_read_bound s t) s.
Proof. intros Hr Hp. apply finishes_exactly_within. apply lr_read_solo_exact; assumption. Qed.

Theorem lr_read_solo_7 s t :
  reach init step s -> read_pc (th s t) = true -> finishes_within step Step idle t 7 s.
Proof.
  intros Hr Hp. eapply finishes_within_mono; [|apply lr_read_solo; assumption].
  unfold lr_read_bound. destruct (th s t) as [|[|]| | | | | | | | | | | | | | | | | | | | ]; cbn [read_mu]; lia.
Qed.

Theorem lr_read_never_stuck s t :
  reach init step s -> read_pc (th s t) = true -> never_stuck step Step idle t s.
Proof. intros Hr Hp. eapply finishes_never_stuck. apply lr_read_solo; assumption. Qed.

(** a thread that is idle and starts a read: 7 steps *)
Theorem lr_read_solo_start s t s' es :
  reach init step s -> step s (Start t ORead) = Some (s', es) ->
  finishes_exactly step Step idle t 7 s'.
Proof.
  intros Hr Hst. assert (Hr' : reach init step s') by (eapply reach_step; eauto).
  cbn [step] in Hst. destruct (th s t); try discriminate. inversion Hst; subst.
  match goal with |- finishes_exactly _ _ _ _ _ ?st => pose proof (lr_read_solo_exact st t Hr') as H end.
  unfold lr_read_bound in H. cbn [th] in H. rewrite upd_same in H. apply H. reflexivity.
Qed.

(** * update is blocking *)

(** (a) thread 1 holds the mutex (stopped after LOCK), thread 2 starts an update: its LOCK step is
    disabled *)
Definition lr_block_acts_a : list action :=
  [Start 1%nat (OUpdate 5); Step 1%nat; Step 1%nat; Start 2%nat (OUpdate 7)].
Definition lr_block_state_a : state := fst (fst (run step init lr_block_acts_a)).

Theorem lr_update_blocking_mutex :
  reach init step lr_block_state_a /\ th lr_block_state_a 2%nat = Begin (OUpdate 7) /\
  blocks step Step idle 2%nat lr_block_state_a.
Proof.
  split; [apply run_reach|]. split; [vm_compute; reflexivity|].
  destruct (step lr_block_state_a (Step 2%nat)) as [[s1 es]|] eqn:Hst; [|vm_compute in Hst; discriminate].
  apply (blocks_prefix _ _ _ step Step idle 2%nat 1 lr_block_state_a s1).
  - eapply solo_S; [vm_compute; reflexivity|exact Hst|constructor].
  - assert (H1 : th s1 2%nat = U0 7 /\ mutex (sh s1) = Some 1%nat).
    { vm_compute in Hst. inversion Hst; subst. split; vm_compute; reflexivity. }
    destruct H1 as [Hp Hm].
    apply disabled_blocks; [unfold idle; rewrite Hp; reflexivity|].
    cbn [step]. rewrite Hp, Hm. reflexivity.
Qed.

(** (b) thread 2 is a reader stopped inside its critical section (arrived on indicator 0), thread 1
    is the only updater, holds the mutex and runs alone: it spins on the indicator forever *)
Definition lr_block_acts_b : list action :=
  [Start 2%nat ORead; Step 2%nat; Step 2%nat; Step 2%nat; Start 1%nat (OUpdate 5)].
Definition lr_block_state_b : state := fst (fst (run step init lr_block_acts_b)).

Definition lr_spin_P (t : nat) (s : state) : Prop :=
  exists d l cv, (th s t = U8 d l cv \/ th s t = U8y d l cv) /\ get_ind (sh s) (N.land cv 1) <> 0.

Lemma lr_spin_closed t s : lr_spin_P t s ->
  idle s t = false /\ exists s' es, step s (Step t) = Some (s', es) /\ lr_spin_P t s'.
Proof.
  intros (d & l & cv & [Hp|Hp] & Hne); unfold idle; rewrite Hp; (split; [reflexivity|]);
    cbn [step]; rewrite Hp.
  - apply N.eqb_neq in Hne. rewrite Hne.
    eexists _, _. split; [reflexivity|]. exists d, l, cv. cbn [th sh]. rewrite upd_same.
    split; [right; reflexivity|]. apply N.eqb_neq. exact Hne.
  - eexists _, _. split; [reflexivity|]. exists d, l, cv. cbn [th sh]. rewrite upd_same.
    split; [left; reflexivity|exact Hne].
Qed.

Theorem lr_update_blocking_spin :
  reach init step lr_block_state_b /\ th lr_block_state_b 1%nat = Begin (OUpdate 5) /\
  (forall t, t <> 1%nat -> t <> 2%nat -> th lr_block_state_b t = Idle) /\
  mutex (sh lr_block_state_b) = None /\
  blocks step Step idle 1%nat lr_block_state_b.
Proof.
  split; [apply run_reach|]. split; [vm_compute; reflexivity|].
  split.
  { intros t H1 H2. unfold lr_block_state_b, lr_block_acts_b. cbn.
    unfold upd. destruct (Nat.eqb_spec t 1); [contradiction|]. destruct (Nat.eqb_spec t 2); [contradiction|]. reflexivity. }
  split; [vm_compute; reflexivity|].
  (* nine solo steps bring the updater to its second indicator wait *)
  remember (fst (fst (run step lr_block_state_b (repeat (Step 1%nat) 9)))) as s9 eqn:E9.
  assert (Hs : solo_steps step Step idle 1%nat 9 lr_block_state_b s9).
  { subst s9. unfold lr_block_state_b, lr_block_acts_b.
    repeat (eapply solo_S; [vm_compute; reflexivity|vm_compute; reflexivity|]). constructor. }
  apply (blocks_prefix _ _ _ step Step idle 1%nat 9 lr_block_state_b s9 Hs).
  apply spins_blocks. apply (spins_by_invariant _ _ _ step Step idle (lr_spin_P 1%nat) 1%nat (lr_spin_closed 1%nat)).
  subst s9. exists 5, 0, 0. split; [left; vm_compute; reflexivity|vm_compute; discriminate].
Qed.
