(** Bookkeeping of the blocks handed to the reclaimer in the quiescent state based reclamation model
    (Model/QsbrDefs.v), the safety half of C02:  [N0]  a retired node or an orphan is in at most one place, and the
    ghost [g_where] says exactly where: in retire list i of exactly one thread, in the hand of exactly one exiting
    thread (an orphan between its creation and its publication), in the global abandoned list, inside exactly one
    orphan, or freed; all these lists are duplicate free; a block is freed at most once ([g_nfree]) and only after it
    was retired; the hand-over at thread exit moves the three lists into one orphan and drops nothing, adoption moves
    every orphan of the abandoned list into a retire list of the adopter.
    Holds in every reachable state ([N0_reach]).  No axioms. *)
From Coq Require Import NArith ZArith List Bool Arith Lia PeanoNat Setoid.
From XV Require Import Conc.Lts Conc.Ev Model.QsbrDefs Proof.QsbrBase Proof.QsbrEpoch.
Import ListNotations.
Local Open Scope N_scope.

(** * Pure facts about the list functions of the model *)
Lemma in_nil_iff {A} (x : A) : In x [] <-> False.
Proof. split; [intros []|intros []]. Qed.

Lemma count_nodup n l : NoDup l -> length (filter (N.eqb n) l) = if memN n l then 1%nat else 0%nat.
Proof.
  induction 1 as [|a l Hni Hnd IH]; [reflexivity|]. cbn [filter memN existsb]. fold (memN n l).
  destruct (N.eqb_spec n a) as [->|Hne]; cbn [orb length].
  - rewrite IH. apply memN_false in Hni. rewrite Hni. reflexivity.
  - exact IH.
Qed.
Lemma NoDup_app_intro {A} (l1 l2 : list A) : NoDup l1 -> NoDup l2 -> (forall x, In x l1 -> ~ In x l2) -> NoDup (l1 ++ l2).
Proof.
  induction 1 as [|a l Hni Hnd IH]; intros H2 Hd; [exact H2|]. cbn [app]. constructor.
  - rewrite in_app_iff. intros [X|X]; [contradiction|]. apply (Hd a); [left; reflexivity|exact X].
  - apply IH; [exact H2|]. intros x Hx. apply Hd. right. exact Hx.
Qed.

Lemma expand_in oc l n : In n (expand oc l) <-> In n l \/ exists o, In o l /\ In n (oc o).
Proof.
  unfold expand. rewrite in_flat_map. split.
  - intros (x & Hx & Hn). apply in_app_or in Hn. destruct Hn as [Hn|[<-|[]]]; [right; eauto|left; exact Hx].
  - intros [H|(o & Ho & H)]; [exists n; split; [exact H|apply in_or_app; right; left; reflexivity]|exists o; split; [exact Ho|apply in_or_app; left; exact H]].
Qed.

Lemma expand_nodup oc l : NoDup l -> (forall o, NoDup (oc o)) ->
  (forall o n, In n (oc o) -> ~ In n l) -> (forall o1 o2 n, In n (oc o1) -> In n (oc o2) -> o1 = o2) ->
  NoDup (expand oc l).
Proof.
  intros Hl Ho Hd Hu. induction Hl as [|a l Hni Hnd IH]; [constructor|].
  cbn [expand flat_map]. fold (expand oc l). rewrite <- app_assoc. cbn [app].
  apply NoDup_app_intro; [apply Ho| |].
  - constructor.
    + rewrite expand_in. intros [X|(o & X1 & X2)]; [contradiction|]. apply (Hd o a X2). left; reflexivity.
    + apply IH. intros o n Hn Hc. apply (Hd o n Hn). right; exact Hc.
  - intros x Hx [Hax|Hx']; [apply (Hd a x Hx); left; exact Hax|].
    rewrite expand_in in Hx'. destruct Hx' as [X|(o & X1 & X2)].
    + apply (Hd a x Hx). right; exact X.
    + assert (a = o) by (eapply Hu; eauto). subst. contradiction.
Qed.

Lemma adopt_in tg l r i n : In n (adopt tg l r i) <-> (In n l /\ tg n = i) \/ In n (r i).
Proof.
  unfold adopt. rewrite in_app_iff, <- in_rev, filter_In. rewrite N.eqb_eq. tauto.
Qed.
Lemma adopt_nodup tg l r i : NoDup l -> NoDup (r i) -> (forall n, In n l -> ~ In n (r i)) -> NoDup (adopt tg l r i).
Proof.
  intros Hl Hr Hd. unfold adopt. apply NoDup_app_intro; [apply NoDup_rev; apply NoDup_filter; exact Hl|exact Hr|].
  intros x Hx. apply in_rev in Hx. apply filter_In in Hx. apply Hd. apply Hx.
Qed.

(** * Retired blocks: where they are *)
Definition fresh_of (p : pc) : option N := match p with R3 _ _ (Some n) => Some n | _ => None end.
Definition unl_of (p : pc) : option N := match p with R4 old => Some old | _ => None end.
Definition tmpg (p : pc) : option N := match p with R3 _ (Some g) _ => Some g | R4 old => Some old | _ => None end.
Definition hand (p : pc) : option N := match p with X2 o | X3 o _ => Some o | _ => None end.
Definition retd (l : life) : bool := match l with LRet _ _ _ | LOrph _ _ => true | _ => false end.
Definition wh_ok (w : place) (l : life) (k : nat) : Prop :=
  match w with
  | PNone => retd l = false /\ k = O
  | PFreed => retd l = true /\ k = 1%nat
  | _ => retd l = true /\ k = O
  end.
Definition xdone (p : pc) : bool := match p with X2 _ | X3 _ _ | X4 => true | _ => false end.

Record N0 (s : state) : Prop := {
  n_lt : forall n, g_life s n <> LNone -> n < nalloc s;
  n_cell : forall c n, cells s c = Some n -> g_life s n = LPub c;
  n_fresh1 : forall u n, fresh_of (th s u) = Some n -> g_life s n = LFresh u;
  n_fresh2 : forall u n, g_life s n = LFresh u -> fresh_of (th s u) = Some n;
  n_unl1 : forall u n, unl_of (th s u) = Some n -> g_life s n = LUnl u;
  n_unl2 : forall u n, g_life s n = LUnl u -> unl_of (th s u) = Some n;
  n_where : forall n, wh_ok (g_where s n) (g_life s n) (g_nfree s n);
  n_list : forall u i n, In n (rl (tl s u) i) <-> g_where s n = PList u i;
  n_aband : forall n, In n (aband s) <-> g_where s n = PAband;
  n_hand : forall u n, hand (th s u) = Some n <-> g_where s n = PHand u;
  n_in : forall o n, In n (ocont s o) <-> g_where s n = PIn o;
  n_in_lt : forall o n, g_where s n = PIn o -> o < nalloc s;
  n_nd_list : forall u i, NoDup (rl (tl s u) i);
  n_nd_aband : NoDup (aband s);
  n_nd_in : forall o, NoDup (ocont s o);
  n_rl3 : forall u i, 3 <= i -> rl (tl s u) i = [];
  n_otgt : forall o, otgt s o < 3;
  n_xdone : forall u, xdone (th s u) = true -> forall i, rl (tl s u) i = [];
  n_cempty : forall u, (in_cphase (th s u) = true \/ cb (tl s u) = None) -> forall i, rl (tl s u) i = [] }.

Lemma N0_init nc : N0 (init nc).
Proof.
  constructor; cbn; intros; try discriminate; try reflexivity; try constructor; try (split; intros; try contradiction; discriminate); try lia.
  all: try discriminate.
  - destruct (N.ltb_spec n nc); [assumption|congruence].
  - destruct (N.ltb_spec c nc); [|discriminate]. inversion H; subst. destruct (N.ltb_spec n nc); [reflexivity|lia].
  - destruct (n <? nc); discriminate.
  - destruct (n <? nc); discriminate.
  - destruct (n <? nc); reflexivity.
Qed.

Ltac nfn := cbn [fresh_of unl_of tmpg hand xdone wh_ok retd in_cphase].
Ltac nfn_in H := cbn [fresh_of unl_of tmpg hand xdone wh_ok retd in_cphase] in H.

Lemma wh_not_ret w l k : wh_ok w l k -> retd l = false -> w = PNone /\ k = O.
Proof. destruct w; cbn; intros [H1 H2] H; auto; congruence. Qed.

(* facts about the nodes a step names: what is in a cell is published, the node of a pending CAS is fresh,
   the next block is unallocated; none of them is retired *)
Ltac nfacts :=
  repeat match goal with
  | Icell : forall c n, cells ?s c = Some n -> g_life ?s n = LPub c, H : cells ?s ?c = Some ?n |- _ =>
    lazymatch goal with | _ : g_life s n = LPub c |- _ => fail | _ => pose proof (Icell c n H) end
  | If1t : forall n, Some ?n1 = Some n -> g_life ?s n = LFresh ?t |- _ =>
    lazymatch goal with | _ : g_life s n1 = LFresh t |- _ => fail | _ => pose proof (If1t n1 eq_refl) end
  | Iu1t : forall n, Some ?n1 = Some n -> g_life ?s n = LUnl ?t |- _ =>
    lazymatch goal with | _ : g_life s n1 = LUnl t |- _ => fail | _ => pose proof (Iu1t n1 eq_refl) end
  | Ilt : forall n, g_life ?s n <> LNone -> n < nalloc ?s |- _ =>
    lazymatch goal with | _ : g_life s (nalloc s) = LNone |- _ => fail
    | _ => assert (g_life s (nalloc s) = LNone) by (destruct (g_life s (nalloc s)) eqn:X; try reflexivity; exfalso; assert (nalloc s < nalloc s) by (apply Ilt; rewrite X; discriminate); lia) end
  end;
  repeat match goal with
  | Iwh : forall n, wh_ok (g_where ?s n) (g_life ?s n) (g_nfree ?s n), H : g_life ?s ?n = ?l |- _ =>
    lazymatch l with
    | LRet _ _ _ => fail
    | LOrph _ _ => fail
    | _ => lazymatch goal with | _ : g_where s n = PNone |- _ => fail
           | _ => let X := fresh in pose proof (wh_not_ret _ _ _ (Iwh n) ltac:(rewrite H; reflexivity)) as X; destruct X end
    end
  end.

Ltac mem_split :=
  repeat match goal with
  | |- context [memN ?n ?l] => let M := fresh "M" in destruct (memN n l) eqn:M; [apply memN_In in M | apply memN_false in M]
  | H : context [memN ?n ?l] |- _ => let M := fresh "M" in destruct (memN n l) eqn:M; [apply memN_In in M | apply memN_false in M]
  end.


(** ** the effect of delete_objects(retire_lists[e]) (Q9) on the bookkeeping *)
Section FreeList.
  Variables (s : state) (t : nat) (e : N).
  Hypothesis I : N0 s.
  Let l := rl (tl s t) e.
  Let fl := expand (ocont s) l.
  Let X (n : N) : place := if memN n fl then PFreed else g_where s n.

  Lemma fl_in n : In n fl <-> g_where s n = PList t e \/ exists o, g_where s o = PList t e /\ g_where s n = PIn o.
  Proof.
    unfold fl, l. rewrite expand_in, (n_list s I). split.
    - intros [H|(o & H1 & H2)]; [left; exact H|right; exists o; split; [apply (n_list s I); exact H1|apply (n_in s I); exact H2]].
    - intros [H|(o & H1 & H2)]; [left; exact H|right; exists o; split; [apply (n_list s I); exact H1|apply (n_in s I); exact H2]].
  Qed.
  Lemma fl_nodup : NoDup fl.
  Proof.
    apply expand_nodup; [apply (n_nd_list s I)|apply (n_nd_in s I)| |].
    - intros o n H1 H2. apply (n_in s I) in H1. apply (n_list s I) in H2. congruence.
    - intros o1 o2 n H1 H2. apply (n_in s I) in H1. apply (n_in s I) in H2. congruence.
  Qed.
  Lemma fl_alive n : In n fl -> retd (g_life s n) = true /\ g_nfree s n = O /\ g_where s n <> PNone.
  Proof.
    intros H. apply fl_in in H. pose proof (n_where s I n) as W.
    destruct H as [H|(o & _ & H)]; rewrite H in W; cbn in W; destruct W; repeat split; try assumption; rewrite H; discriminate.
  Qed.
  Lemma q9_where n lf : retd lf = retd (g_life s n) -> wh_ok (X n) lf (g_nfree s n + length (filter (N.eqb n) fl)).
  Proof.
    intros Hl. unfold X. rewrite (count_nodup n fl fl_nodup). destruct (memN n fl) eqn:M.
    - apply memN_In in M. destruct (fl_alive n M) as (A1 & A2 & _). cbn. rewrite Hl, A1, A2. split; reflexivity.
    - rewrite Nat.add_0_r. pose proof (n_where s I n) as W. destruct (g_where s n); cbn in W |- *; rewrite Hl; exact W.
  Qed.
  Lemma q9_place n p : p <> PFreed -> p <> PList t e -> (forall o, p = PIn o -> g_where s o <> PList t e) ->
    (X n = p <-> g_where s n = p).
  Proof.
    intros H1 H2 H3. unfold X. destruct (memN n fl) eqn:M; [|tauto].
    apply memN_In in M. apply fl_in in M. split; [congruence|]. intros H.
    destruct M as [M|(o & M1 & M2)]; [congruence|]. exfalso. apply (H3 o); congruence.
  Qed.
  Lemma q9_list_t i n : In n (updN (rl (tl s t)) e [] i) <-> X n = PList t i.
  Proof.
    destruct (N.eq_dec i e) as [->|Hne].
    - rewrite updN_same. unfold X. split; [intros []|]. destruct (memN n fl) eqn:M; [discriminate|].
      intros H. apply memN_false in M. apply M. apply fl_in. left. exact H.
    - rewrite updN_other by exact Hne. rewrite (n_list s I). symmetry. apply q9_place; try discriminate; congruence.
  Qed.
  Lemma q9_nd_list i : NoDup (updN (rl (tl s t)) e [] i).
  Proof. destruct (N.eq_dec i e) as [->|Hne]; [rewrite updN_same; constructor|rewrite updN_other by exact Hne; apply (n_nd_list s I)]. Qed.
  Lemma q9_in o n : In n (if memN o l then [] else ocont s o) <-> X n = PIn o.
  Proof.
    destruct (memN o l) eqn:Mo.
    - apply memN_In in Mo. unfold l in Mo. apply (n_list s I) in Mo. split; [intros []|]. unfold X.
      destruct (memN n fl) eqn:M; [discriminate|]. intros H. apply memN_false in M. apply M. apply fl_in. right. eauto.
    - apply memN_false in Mo. unfold l in Mo. rewrite (n_list s I) in Mo. rewrite (n_in s I). symmetry.
      apply q9_place; try discriminate. intros o' Ho. injection Ho as <-. exact Mo.
  Qed.
  Lemma q9_nd_in o : NoDup (if memN o l then [] else ocont s o).
  Proof. destruct (memN o l); [constructor|apply (n_nd_in s I)]. Qed.
  Lemma q9_in_lt o n : X n = PIn o -> o < nalloc s.
  Proof. unfold X. destruct (memN n fl); [discriminate|apply (n_in_lt s I)]. Qed.
End FreeList.

(** ** the effect of the creation of an orphan (XC, the successful epoch CAS of ~thread_data) on the bookkeeping *)
Lemma xstart_X4 r : xstart r = X4 -> (forall i, 3 <= i -> r i = []) -> forall i, r i = [].
Proof.
  unfold xstart. intros H H3 i. destruct (is_nil (r 0)) eqn:E0, (is_nil (r 1)) eqn:E1, (is_nil (r 2)) eqn:E2; cbn in H; try discriminate.
  apply is_nil_true in E0, E1, E2.
  assert (Hi : i = 0 \/ i = 1 \/ i = 2 \/ 3 <= i) by lia. destruct Hi as [->|[->|[->|Hi]]]; auto.
Qed.

Section Orphan.
  Variables (s : state) (t : nat).
  Hypothesis I : N0 s.
  Let o := nalloc s.
  Let top := rl (tl s t) 0 ++ rl (tl s t) 1 ++ rl (tl s t) 2.
  Let fl := expand (ocont s) top.
  Let X (n : N) : place := if n =? o then PHand t else if memN n fl then PIn o else g_where s n.
  Let OC (x : N) : list N := if x =? o then fl else if memN x top then [] else ocont s x.

  Lemma top_in n : In n top <-> exists i, g_where s n = PList t i.
  Proof.
    unfold top. rewrite !in_app_iff, !(n_list s I). split.
    - intros [H|[H|H]]; eauto.
    - intros (i & H). assert (Hi : i = 0 \/ i = 1 \/ i = 2 \/ 3 <= i) by lia.
      destruct Hi as [->|[->|[->|Hi]]]; auto. apply (n_list s I) in H. rewrite (n_rl3 s I t i Hi) in H. destruct H.
  Qed.
  Lemma top_nodup : NoDup top.
  Proof.
    unfold top. apply NoDup_app_intro; [apply (n_nd_list s I)| |].
    - apply NoDup_app_intro; [apply (n_nd_list s I)|apply (n_nd_list s I)|].
      intros x H1 H2. apply (n_list s I) in H1, H2. congruence.
    - intros x H1 H2. apply in_app_or in H2. apply (n_list s I) in H1. destruct H2 as [H2|H2]; apply (n_list s I) in H2; congruence.
  Qed.
  Lemma ofl_in n : In n fl <-> (exists i, g_where s n = PList t i) \/ exists x i, g_where s x = PList t i /\ g_where s n = PIn x.
  Proof.
    unfold fl. rewrite expand_in, top_in. split.
    - intros [H|(x & H1 & H2)]; [left; exact H|right]. apply top_in in H1. destruct H1 as (i & H1). exists x, i. split; [exact H1|apply (n_in s I); exact H2].
    - intros [H|(x & i & H1 & H2)]; [left; exact H|right]. exists x. split; [apply top_in; eauto|apply (n_in s I); exact H2].
  Qed.
  Lemma ofl_nodup : NoDup fl.
  Proof.
    apply expand_nodup; [apply top_nodup|apply (n_nd_in s I)| |].
    - intros x n H1 H2. apply (n_in s I) in H1. apply top_in in H2. destruct H2 as (i & H2). congruence.
    - intros o1 o2 n H1 H2. apply (n_in s I) in H1. apply (n_in s I) in H2. congruence.
  Qed.
  Lemma ofl_alive n : In n fl -> retd (g_life s n) = true /\ g_nfree s n = O /\ g_where s n <> PNone.
  Proof.
    intros H. apply ofl_in in H. pose proof (n_where s I n) as W.
    destruct H as [(i & H)|(x & i & _ & H)]; rewrite H in W; cbn in W; destruct W; repeat split; try assumption; rewrite H; discriminate.
  Qed.
  Hypothesis Hfresh : g_life s o = LNone.
  Lemma o_none : g_where s o = PNone /\ g_nfree s o = O.
  Proof. apply (wh_not_ret _ _ _ (n_where s I o)). rewrite Hfresh. reflexivity. Qed.
  Lemma o_notin : ~ In o fl.
  Proof. intros H. destruct (ofl_alive o H) as (_ & _ & H3). apply H3. apply o_none. Qed.
  Lemma x1_where n : wh_ok (X n) (updN (g_life s) o (LOrph t (g_gepc s)) n) (g_nfree s n).
  Proof.
    unfold X. destruct (N.eqb_spec n o) as [->|Hne].
    - rewrite updN_same. cbn. split; [reflexivity|apply o_none].
    - rewrite updN_other by exact Hne. destruct (memN n fl) eqn:M.
      + apply memN_In in M. destruct (ofl_alive n M) as (A1 & A2 & _). cbn. auto.
      + apply (n_where s I).
  Qed.
  Lemma x1_place n p : p <> PHand t -> p <> PIn o -> p <> PNone -> (forall i, p <> PList t i) ->
    (forall x i, p = PIn x -> g_where s x <> PList t i) -> (X n = p <-> g_where s n = p).
  Proof.
    intros H1 H2 H0 H3 H4. unfold X. destruct (N.eqb_spec n o) as [->|Hne].
    - destruct o_none as [W _]. rewrite W. split; congruence.
    - destruct (memN n fl) eqn:M; [|tauto]. apply memN_In in M. apply ofl_in in M. split; [congruence|]. intros H.
      destruct M as [(i & M)|(x & i & M1 & M2)]; [exfalso; apply (H3 i); congruence|]. exfalso. apply (H4 x i); congruence.
  Qed.
  Lemma x1_list_t i n : In n [] <-> X n = PList t i.
  Proof.
    split; [intros []|]. unfold X. destruct (N.eqb_spec n o); [discriminate|]. destruct (memN n fl) eqn:M; [discriminate|].
    intros H. apply memN_false in M. apply M. apply ofl_in. left. eauto.
  Qed.
  Lemma x1_hand_t n : hand (th s t) = None -> (Some o = Some n <-> X n = PHand t).
  Proof.
    intros Hpc. unfold X. destruct (N.eqb_spec n o) as [->|Hne]; [tauto|]. split; [congruence|].
    destruct (memN n fl); [discriminate|]. intros H. apply (n_hand s I) in H. rewrite Hpc in H. discriminate H.
  Qed.
  Lemma x1_in x n : In n (OC x) <-> X n = PIn x.
  Proof.
    unfold OC, X. destruct (N.eqb_spec x o) as [->|Hx].
    - destruct (N.eqb_spec n o) as [->|Hn]; [split; [intros H; exfalso; exact (o_notin H)|discriminate]|].
      destruct (memN n fl) eqn:M; [apply memN_In in M; tauto|]. apply memN_false in M. split; [tauto|].
      intros H. apply (n_in_lt s I) in H. unfold o in H. lia.
    - destruct (N.eqb_spec n o) as [->|Hn].
      + destruct o_none as [W _]. split; [|discriminate]. destruct (memN x top); [intros []|]. intros H. apply (n_in s I) in H. congruence.
      + destruct (memN x top) eqn:Mx.
        * apply memN_In in Mx. apply top_in in Mx. destruct Mx as (i & Mx). split; [intros []|].
          destruct (memN n fl) eqn:M; [congruence|]. apply memN_false in M. intros H. apply M. apply ofl_in. right. eauto.
        * apply memN_false in Mx. rewrite top_in in Mx. rewrite (n_in s I).
          destruct (memN n fl) eqn:M; [|tauto]. apply memN_In in M. apply ofl_in in M. split; [|congruence].
          intros H. exfalso. destruct M as [(i & M)|(y & i & M1 & M2)]; [congruence|]. apply Mx. exists i. congruence.
  Qed.
  Lemma x1_nd_in x : NoDup (OC x).
  Proof. unfold OC. destruct (x =? o); [apply ofl_nodup|]. destruct (memN x top); [constructor|apply (n_nd_in s I)]. Qed.
  Lemma x1_in_lt x n : X n = PIn x -> x < o + 1.
  Proof.
    unfold X. destruct (n =? o); [discriminate|]. destruct (memN n fl); [intros H; injection H as <-; lia|].
    intros H. apply (n_in_lt s I) in H. unfold o. lia.
  Qed.
End Orphan.

Lemma adopt_nil tg l r i : (forall o, tg o < 3) -> 3 <= i -> r i = [] -> adopt tg l r i = [].
Proof.
  intros Ht Hi Hr. unfold adopt. rewrite Hr, app_nil_r.
  assert (E : filter (fun o => tg o =? i) l = []); [|rewrite E; reflexivity].
  induction l as [|a l IH]; [reflexivity|]. cbn [filter]. destruct (N.eqb_spec (tg a) i) as [X|X]; [specialize (Ht a); lia|exact IH].
Qed.

(* rewrite list memberships into statements about [g_where] *)
Ltac to_where Ilist Iab Ihand Iin :=
  repeat match goal with
  | H : In _ [] |- _ => destruct H
  | H : context [In ?n (aband ?s)] |- _ => rewrite (Iab n) in H
  | H : context [In ?n (rl (tl ?s ?u) ?i)] |- _ => rewrite (Ilist u i n) in H
  | H : context [In ?n (ocont ?s ?o)] |- _ => rewrite (Iin o n) in H
  | |- context [In ?n (aband ?s)] => rewrite (Iab n)
  | |- context [In ?n (rl (tl ?s ?u) ?i)] => rewrite (Ilist u i n)
  | |- context [In ?n (ocont ?s ?o)] => rewrite (Iin o n)
  | |- context [hand (th ?s ?u) = Some ?n] => rewrite (Ihand u n)
  end.

Lemma N0_step ns s t s' es : T0 ns s -> O0 s -> EI s -> N0 s -> step ns s (Step t) = Some (s', es) -> N0 s'.
Proof.
  intros T O (_ & P & _) I H. unfold_step H. cbv zeta in H. step_split H.
  all: bool_eqs; prj; rewrite ?upd_same; prj; prj_hyps; rewrite ?upd_same in *; prj_hyps.
  all: specialize (T t); specialize (P t); unfold P1 in P; try match goal with E : th _ _ = _ |- _ => rewrite E in T, P end.
  all: pose proof I as I0; destruct I as [Ilt Icell If1 If2 Iu1 Iu2 Iwh Ilist Iab Ihand Iin Iinlt Indl Inda Indi Irl3 Iotgt Ixd Ice].
  all: match goal with E : th ?s ?t = _ |- _ =>
         pose proof (If1 t) as If1t; pose proof (If2 t) as If2t; pose proof (Iu1 t) as Iu1t; pose proof (Iu2 t) as Iu2t;
         pose proof (Ihand t) as Ihandt; pose proof (Ixd t) as Ixdt; pose proof (Ice t) as Icet; pose proof (Ilist t) as Ilistt; pose proof (Indl t) as Indlt;
         pose proof (Irl3 t) as Irl3t;
         rewrite E in If1t, If2t, Iu1t, Iu2t, Ihandt, Ixdt, Icet; nfn_in If1t; nfn_in If2t; nfn_in Iu1t; nfn_in Iu2t; nfn_in Ihandt; nfn_in Ixdt; nfn_in Icet end.
  all: constructor; prj; intros.
  all: try solve [first [assumption | eauto 2]].
  all: split_upd_all; prj; prj_hyps; nfn.
  all: try solve [first [assumption | eauto 2 | constructor | discriminate | lia]].
  all: try solve [eauto 3].
  all: try solve [nfacts; inj_some; split_updN_all; nfn;
                  first [ assumption | discriminate | congruence | lia | solve [eauto 3]
                        | apply Iwh | apply Ilist | apply Iab | apply Ihand | apply Iin
                        | split; first [assumption | congruence | discriminate | solve [eauto 3]]
                        | split; intros X; [first [apply Ihand in X | apply Ilist in X | apply Iab in X | apply Iin in X]; congruence | discriminate X] ]].
  (* allocation bounds *)
  all: try solve [split_updN_all; first [lia | match goal with H : _ <> LNone |- _ => pose proof (Ilt _ H); lia end
                                       | match goal with H : g_where _ _ = PIn _ |- _ => pose proof (Iinlt _ _ H); lia end
                                       | nfacts; match goal with H : g_life ?s ?n = _ |- ?n < _ => assert (n < nalloc s) by (apply Ilt; rewrite H; discriminate); lia end]].
  (* life cycle *)
  all: try solve [split_updN_all; inj_some; nfacts;
            repeat match goal with
            | H : fresh_of (th ?s ?u) = Some ?n |- _ => lazymatch goal with | _ : g_life s n = LFresh u |- _ => fail | _ => pose proof (If1 u n H) end
            | H : g_life ?s ?n = LFresh ?u |- _ => lazymatch goal with | _ : fresh_of (th s u) = Some n |- _ => fail | _ => pose proof (If2 u n H) end
            | H : unl_of (th ?s ?u) = Some ?n |- _ => lazymatch goal with | _ : g_life s n = LUnl u |- _ => fail | _ => pose proof (Iu1 u n H) end
            | H : g_life ?s ?n = LUnl ?u |- _ => lazymatch goal with | _ : unl_of (th s u) = Some n |- _ => fail | _ => pose proof (Iu2 u n H) end
            end; use_pc; nfn; repeat match goal with H : _ |- _ => progress nfn_in H end;
            split_updN_all; inj_some; first [congruence | discriminate | reflexivity | exfalso; congruence]].
  (* wh_ok *)
  all: try solve [match goal with |- wh_ok _ _ _ => idtac end;
            nfacts; inj_some; split_updN_all;
            first [ apply Iwh
                  | match goal with |- wh_ok (g_where ?s ?n) _ _ => pose proof (Iwh n) as W end;
                    repeat match goal with H : g_where _ _ = _ |- _ => rewrite H in * end;
                    repeat match goal with H : g_nfree _ _ = _ |- _ => rewrite H in * end;
                    repeat match goal with H : g_life _ _ = _ |- _ => rewrite H in * end;
                    nfn; nfn_in W; first [exact W | split; reflexivity]
                  | repeat match goal with H : g_where _ _ = _ |- _ => rewrite H in * end;
                    repeat match goal with H : g_nfree _ _ = _ |- _ => rewrite H in * end;
                    nfn; split; reflexivity ]].
  all: try solve [xn; nfn; nfn_in H; first [discriminate | constructor | assumption | eauto 3]].
  (* Q9: the retire list of the new epoch is deleted *)
  all: try solve [match goal with E : th _ _ = Q9 _ _ |- _ => idtac end;
         first [ apply (q9_where s t _ I0); split_updN_all; nfacts; first [reflexivity | congruence | match goal with H : g_life _ _ = _ |- _ => rewrite H; reflexivity end]
               | apply (q9_list_t s t _ I0) | apply (q9_nd_list s t _ I0) | apply (q9_in s t _ I0) | apply (q9_nd_in s t _ I0)
               | eapply (q9_in_lt s t _ I0); eassumption
               | match goal with |- _ < _ + 1 => assert (o < nalloc s) by (eapply (q9_in_lt s t _ I0); eassumption); lia end
               | xn; nfn; match goal with
                 | |- In ?n (rl (tl _ ?u) ?i) <-> _ => rewrite (Ilist u i n)
                 | |- In ?n (aband _) <-> _ => rewrite (Iab n)
                 | |- hand (th _ ?u) = Some ?n <-> _ => rewrite (Ihand u n)
                 | |- None = Some ?n <-> _ => rewrite (Ihandt n)
                 end; symmetry; apply (q9_place s t _ I0); first [discriminate | congruence]
               | split_updN_all; first [reflexivity | apply Irl3t; assumption]
               | match goal with H : xdone (xstart ?r) = true |- _ => apply (xstart_X4 r);
                   [destruct (xstart_cases r) as [Ex|Ex]; [rewrite Ex in H; discriminate H|exact Ex]
                   |intros j Hj; split_updN_all; first [reflexivity | apply Irl3t; assumption]] end ]].
  (* n_cempty after the step: the thread owns a control block and is not in ensure_has_control_block *)
  all: try solve [exfalso; match goal with H : _ \/ _ |- _ => destruct H as [H|H]; [xn; discriminate H | congruence] end].
  (* S3 / LExit: xstart *)
  all: try solve [xn; nfn; apply Ihandt].
  all: try solve [match goal with H : xdone (xstart ?r) = true |- _ => apply (xstart_X4 r);
                   [destruct (xstart_cases r) as [Ex|Ex]; [rewrite Ex in H; discriminate H|exact Ex] | apply Irl3t] end].
  (* X4 *)
  all: try solve [rewrite <- (Ilistt i n0), (Ixdt eq_refl i); reflexivity].
  all: try solve [constructor].
  (* XC: the orphan is created *)
  all: try solve [match goal with E : th _ _ = XC _ |- _ => idtac end; nfacts;
         first [ apply (x1_where s t I0); assumption
               | apply (x1_list_t s t I0) | apply (x1_in s t I0); assumption | apply (x1_nd_in s t I0)
               | eapply (x1_in_lt s t I0); eassumption
               | apply (x1_hand_t s t I0); first [assumption | rewrite E; reflexivity]
               | split_updN_all; first [apply N.mod_lt; discriminate | apply Iotgt]
               | match goal with
                 | |- In ?n (rl (tl _ ?u) ?i) <-> _ => rewrite (Ilist u i n)
                 | |- In ?n (aband _) <-> _ => rewrite (Iab n)
                 | |- hand (th _ ?u) = Some ?n <-> _ => rewrite (Ihand u n)
                 end; symmetry; apply (x1_place s t I0); first [assumption | discriminate | congruence] ]].
  (* R4 / G5 / X3: a block moves to another place *)
  all: try solve [match goal with |- _ <-> _ => idtac end;
         nfacts; inj_some; rewrite ?adopt_in; split_updN_all; mem_split; cbn [In];
         repeat match goal with Ihandt : forall n, Some ?o = Some n <-> _ |- _ => pose proof (proj1 (Ihandt o) eq_refl); clear Ihandt end;
         to_where Ilist Iab Ihand Iin; rewrite ?in_nil_iff;
         clear Ilt Icell If1 If2 Iu1 Iu2 Iwh Ilist Iab Ihand Iin Iinlt Indl Inda Indi Irl3 Iotgt Ixd Ice I0; first [tauto | intuition congruence]].
  all: try solve [repeat match goal with H : _ |- _ => progress nfn_in H end; discriminate].
  all: try solve [match goal with |- NoDup _ => idtac end; split_updN_all;
                  first [apply Indlt | constructor; [intros X; apply Ilistt in X; nfacts; congruence | apply Indlt]]].
  all: try solve [match goal with E0 : cb (tl _ _) = Some ?b |- _ => destruct (P b E0) as (P1' & _); destruct (P1' eq_refl) as (_ & _ & P3 & _) end;
                  split_updN_all; [exfalso; assert (g_lepc s n mod 3 < 3) by (apply N.mod_lt; discriminate); lia | apply Irl3t; assumption]].
  all: try solve [match goal with |- wh_ok _ _ _ => idtac end;
                  repeat match goal with Ihandt : forall n, Some ?o = Some n <-> _ |- _ => pose proof (proj1 (Ihandt o) eq_refl); clear Ihandt end;
                  split_updN_all; mem_split; try apply Iwh;
                  match goal with |- wh_ok _ (g_life ?s ?n) _ => pose proof (Iwh n) as W end;
                  to_where Ilist Iab Ihand Iin;
                  repeat match goal with H : g_where _ _ = _ |- _ => rewrite H in * end; nfn_in W; nfn; exact W].
  all: try solve [match goal with |- None = Some _ <-> _ => idtac end;
                  repeat match goal with Ihandt : forall n, Some ?o = Some n <-> _ |- _ => pose proof (proj1 (Ihandt o) eq_refl); pose proof (fun n => proj2 (Ihandt n)) as Ihb; clear Ihandt end;
                  split_updN_all; mem_split; to_where Ilist Iab Ihand Iin;
                  split; intros X; first [discriminate X | congruence | apply Ihandt in X; discriminate X | apply Ihb in X; congruence]].
  all: try solve [mem_split; first [discriminate | eapply Iinlt; eassumption]].
  all: try solve [apply adopt_nodup; [exact Inda | apply Indlt | intros x X1 X2; apply Iab in X1; apply Ilistt in X2; congruence]].
  all: try solve [apply adopt_nil; [exact Iotgt | assumption | apply Irl3t; assumption]].
  all: try solve [repeat match goal with Ihandt : forall n, Some ?o = Some n <-> _ |- _ => pose proof (proj1 (Ihandt o) eq_refl); clear Ihandt end;
                  constructor; [intros X; apply Iab in X; congruence | exact Inda]].
  destruct H as [H|H]; [discriminate H | exfalso; apply (ts_need _ _ _ T); [reflexivity | exact H]].
Qed.

Lemma N0_start ns s t o s' es : N0 s -> step ns s (Start t o) = Some (s', es) -> N0 s'.
Proof.
  intros I H. destruct (start_same _ _ _ _ _ _ H) as (Hidle & Es & Hp).
  assert (Hx : th s' t = X4 -> forall i, rl (tl s t) i = []).
  { intros E. unfold step, step_gen in H. step_split H; prj_in E; rewrite upd_same in E; try discriminate E.
    apply xstart_X4; [exact E|apply (n_rl3 s I)]. }
  rewrite Es. destruct I as [Ilt Icell If1 If2 Iu1 Iu2 Iwh Ilist Iab Ihand Iin Iinlt Indl Inda Indi Irl3 Iotgt Ixd Ice].
  constructor; prj; try assumption.
  - intros u n. destruct (upd_cases (th s) t (th s' t) u) as [[-> ->]|[_ ->]]; [|apply If1].
    destruct Hp as [->|[->|[->|[o' ->]]]]; discriminate.
  - intros u n Hl. apply If2 in Hl. destruct (upd_cases (th s) t (th s' t) u) as [[-> ->]|[_ ->]]; [|exact Hl]. rewrite Hidle in Hl. discriminate.
  - intros u n. destruct (upd_cases (th s) t (th s' t) u) as [[-> ->]|[_ ->]]; [|apply Iu1].
    destruct Hp as [->|[->|[->|[o' ->]]]]; discriminate.
  - intros u n Hl. apply Iu2 in Hl. destruct (upd_cases (th s) t (th s' t) u) as [[-> ->]|[_ ->]]; [|exact Hl]. rewrite Hidle in Hl. discriminate.
  - intros u n. destruct (upd_cases (th s) t (th s' t) u) as [[-> ->]|[_ ->]]; [|apply Ihand].
    rewrite <- (Ihand t n), Hidle. destruct Hp as [->|[->|[->|[o' ->]]]]; reflexivity.
  - intros u. destruct (upd_cases (th s) t (th s' t) u) as [[-> ->]|[_ ->]]; [|apply Ixd].
    destruct Hp as [E|[E|[E|[o' E]]]]; rewrite E; try discriminate. intros _. apply Hx. exact E.
  - intros u. destruct (upd_cases (th s) t (th s' t) u) as [[-> ->]|[_ ->]]; [|apply Ice].
    intros [Hc|Hc]; [|apply Ice; right; exact Hc]. destruct Hp as [E|[E|[E|[o' E]]]]; rewrite E in Hc; discriminate.
Qed.

Section ReachN.
Variables (ns : nat) (nc : N).
Lemma N0_reach s : reachable ns nc s -> N0 s.
Proof.
  apply (inv_rule_aux _ _ _ _ _ (fun s => T0 ns s /\ O0 s /\ EI s) N0).
  - intros s0 Hr. split; [apply (T0_reach ns nc); exact Hr|]. split; [apply (O0_reach ns nc); exact Hr|apply (EI_reach ns nc); exact Hr].
  - apply N0_init.
  - intros s0 a s1 es (J1 & J2 & J3) _ I H. destruct a as [t o|t]; [eapply N0_start; eauto|eapply N0_step; eauto].
Qed.
End ReachN.
